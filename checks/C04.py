"""C04 -- PolyTree solutions carry the same paths with correct nesting (DESIGN 6 C04)."""
import json, os, sys, glob, time
import vf
sys.path.insert(0, os.path.join(vf.VERIF, 'gen'))
import polys
try:
    import nesting
except Exception:
    nesting = None
try:
    import splitmerge
except Exception:
    splitmerge = None

META = dict(
    text=("Coq model of the OutRec ownership bookkeeping (SetOwner with its compression and cycle-avoidance loops, GetRealOutRec, "
          "IsValidOwner, MoveSplits, the owner assignments of the sweep) and of the owner search that builds the PolyTree "
          "(CheckSplitOwner with the recursive_split marker, RecursiveCheckOwners in its shape before and after the proposed repair, "
          "BuildTree64 loop) over abstract containment tests.  Theorems: for ALL histories of owner edits that respect the call-site "
          "guarantee (SetOwner gets two different existing OutRecs) the owner graph stays a forest, no owner index dangles and every "
          "owner-chasing loop terminates within the model's fuel (the statement without the guarantee is refuted, witness replayed on the "
          "real SetOwner); for ALL ownership states and all answers of the geometric tests every parent the tree uses passed the code's own "
          "Path1InsidePath2 and bounds.Contains tests for that pair; CheckSplitOwner terminates in every forest state without a cycle of "
          "point-less OutRecs through split lists (refuted without that hypothesis, witness replayed on the real function: stack "
          "overflow); IsHole = even non-zero Level.  Tied to the code by exact comparison on "
          "enumerated/random owner-edit sequences executed by the real functions and by comparing the real BuildTree64 with the model on "
          "the dumped ownership state of whole runs (one and the same model shape must agree on every state).  The geometric content "
          "(paths equal to the Paths run, child inside parent, siblings disjoint, orientation alternating with depth, areas equal) is "
          "validated by an extracted exact checker on nested / touching / horizontally joined / lattice-rectangle inputs for PolyTree64 and "
          "PolyTreeD; nesting failures are attributed to the responsible defect of the owner search from the dumped ownership state."),
    note=("Trusted: Coq kernel, extraction, OCaml driver, C++ harness with private access, generators, the Python classifier of nesting "
          "failures (naming only).  Proved: ownership bookkeeping for all histories, acceptance tests of every tree parent, termination "
          "of CheckSplitOwner.  NOT proved: termination of the RecursiveCheckOwners recursion as a whole (the model reports FUEL, never "
          "seen), that the sweep never builds a cycle of point-less OutRecs through split lists, that every OutRec with a path is "
          "placed exactly once, that Path1InsidePath2 agrees with true containment, that the accepted parent is the innermost container, "
          "sibling disjointness, depth <-> orientation (validated by the exact checker on generated inputs, where the unrepaired owner "
          "search fails: see triage/C04.md)."),
    technique='Coq proof (forest invariant over all operation histories) + exact model/implementation correspondence + extracted exact checker',
    category='proof',
)

MAX_COORD = (2 ** 63 - 1) >> 2        # clipper.core.h: values beyond it are rejected with range_error_i
CT = {1: 'Intersection', 2: 'Union', 3: 'Difference', 4: 'Xor'}
FR = {0: 'EvenOdd', 1: 'NonZero', 2: 'Positive', 3: 'Negative'}
KEYS = {31: 'tree.paths-differ', 32: 'tree.child-outside-parent', 33: 'tree.sibling-overlap', 34: 'tree.orientation-depth',
        35: 'tree.area', 36: 'tree.open-paths-differ'}


# ----------------------------------------------------------------------------- owner-edit sequences
def rand_ops(rng):
    n = rng.range(2, 6)
    k = rng.range(1, 28)
    cur = n
    ops = []
    for _ in range(k):
        w = rng.below(20)
        i, j = rng.below(cur), rng.below(cur)
        if w < 8:
            if i == j:
                j = (i + 1) % cur
            ops.append('S %d %d' % (i, j))
        elif w < 9:
            ops.append('C %d' % i)
        elif w < 11:
            ops.append('R %d' % i)
        elif w < 14:
            ops.append('P %d %d' % (i, rng.below(3) == 0))
        elif w < 15 and cur < 9:
            ops.append('N %d' % j); cur += 1
        elif w < 16 and cur < 9:
            ops.append('W %d' % j); cur += 1
        elif w < 17:
            ops.append('V %d %d' % (i, j))
        elif w < 18:
            ops.append('A %d %d' % (i, j))
        elif w < 19:
            if i == j:                      # MoveSplits is only ever called with two different OutRecs
                j = (i + 1) % cur
            ops.append('M %d %d' % (i, j))
        else:
            ops.append('G %d' % i)
    return 'OPS %d %d %s' % (n, len(ops), ' '.join(ops))


def movesplits_ops(rng):
    """MoveSplits(from, to) with BOTH split lists non-empty (the merge branch of ProcessHorzJoins joining two OutRecs that
    each split off rings before), followed by the queries and edits that read the lists"""
    n = rng.range(3, 7)
    i = rng.below(n)
    j = (i + 1 + rng.below(n - 1)) % n
    ops = []
    for r, cnt in ((i, rng.range(1, 3)), (j, rng.range(1, 3))):
        for _ in range(cnt):
            ops.append('A %d %d' % (r, rng.below(n)))
    rng.shuffle(ops)
    if rng.chance(1, 3):
        ops.insert(rng.below(len(ops) + 1), 'P %d 0' % rng.below(n))
    ops.append('M %d %d' % (i, j))
    for _ in range(rng.range(0, 4)):
        a, b = rng.below(n), rng.below(n)
        w = rng.below(5)
        if w == 0:
            ops.append('A %d %d' % (a, b))
        elif w == 1:
            ops.append('M %d %d' % (a, b if a != b else (a + 1) % n))
        elif w == 2:
            ops.append('S %d %d' % (a, b if a != b else (a + 1) % n))
        elif w == 3:
            ops.append('G %d' % a)
        else:
            ops.append('P %d %d' % (a, rng.below(2)))
    return 'OPS %d %d %s' % (n, len(ops), ' '.join(ops))


def viol(ctx, key, what, replay=None, nofail=False, cap=3):
    """ctx.violation, at most `cap` times per key: vf.Ctx keeps 50 violations in all, and a correspondence break that shows on
    thousands of owner-edit sequences must not crowd out the failing inputs the later phases find"""
    seen = ctx.cov.setdefault('violations_by_key', {})
    seen[key] = seen.get(key, 0) + 1
    if seen[key] > cap:
        return False
    return ctx.violation(key, what, replay=replay, nofail=nofail)


def enum_ops():
    """all SetOwner/pts-null sequences of length <= 4 over 3 OutRecs, each followed by GetRealOutRec queries"""
    atoms = ['S %d %d' % (i, j) for i in range(3) for j in range(3) if i != j] + ['P %d 0' % i for i in range(3)]
    seqs = [[]]
    out = []
    for _ in range(4):
        seqs = [s + [a] for s in seqs for a in atoms]
        for s in seqs:
            ops = s + ['G 0', 'G 1', 'G 2', 'V 0 1', 'V 1 2', 'V 2 0']
            out.append('OPS 3 %d %s' % (len(ops), ' '.join(ops)))
    return out


REFUTED_WITNESS = 'OPS 1 1 S 0 0'        # C04_owner_forest_refuted_without_wf: [OpNew; OpSetOwner 0 0]
REFUTED_WITNESS2 = 'OPS 2 3 P 0 0 A 0 0 K %d 1 0'   # OutRec 0: pts = nullptr, splits = [0]; CheckSplitOwner(or_1, or_0->splits)


def witness2(ctx, env):
    """the witness of C04_check_split_terminates_refuted_pointless_cycle on the real CheckSplitOwner: OutRec 0 has no points
    and its split list contains itself.  In the unguarded shape: unbounded recursion (stack overflow) in the code, out of
    fuel in the model; in the guarded shape (the repair): both return, with the same answer.  The dumped states on which the
    two shapes differ crash the unguarded code (so they never reach the comparison): this replay is what tells them apart."""
    if env.dead or env.shape is None:
        return
    p0 = vf.run_lines(env.exes['owner'], [REFUTED_WITNESS2 % 0], timeout=60)
    g = 0 if p0.returncode != 0 else 1
    cands = [v for v in getattr(env, 'agreeing', [env.shape]) if ((v >> 2) & 1) == g]
    line = REFUTED_WITNESS2 % g
    m2 = vf.run_lines(env.oracle, [line], timeout=60).stdout.strip()
    ctx.cov['refuted_witness2_replayed'] = dict(line=line, cpp_returncode=p0.returncode, cpp=p0.stdout.strip()[-60:], model=m2[-60:])
    ok = bool(cands) and (m2.endswith('HANG') if g == 0 else p0.stdout.strip() == m2)
    if cands:
        env.shape = cands[0]
        ctx.cov['model_shape_matched'] = [SHAPES[v] for v in cands]
    if not ok:
        ctx.violation('tie.owner-ops', 'CheckSplitOwner on a point-less OutRec whose split list contains itself (witness of '
                      'C04_check_split_terminates_refuted_pointless_cycle): real rc=%s %s / model %s; model shapes agreeing on all '
                      'dumped states: %s' % (p0.returncode, p0.stdout.strip()[-80:], m2[-80:], [SHAPES[v] for v in getattr(env, 'agreeing', [])]),
                      replay=dict(kind='ops', line=line, cpp=p0.stdout.strip(), model=m2), nofail=True)


def phase_ops(ctx, env, n):
    rng = ctx.rng.fork(21)
    # the witness of the refuted form, on the real SetOwner: OutRec 0 becomes its own owner (and both sides agree on that)
    w = vf.run_lines(env.exes['owner'], [REFUTED_WITNESS], timeout=20).stdout.strip()
    wm = vf.run_lines(env.oracle, [REFUTED_WITNESS], timeout=20).stdout.strip()
    ctx.cov['refuted_witness_replayed'] = dict(line=REFUTED_WITNESS, cpp=w, model=wm)
    if w != wm or ': 0 ;' not in w:
        ctx.violation('tie.owner-ops', 'the witness of C04_owner_forest_refuted_without_wf (SetOwner(x, x) makes x own itself) is not reproduced '
                      'by the real SetOwner: C++ %s / model %s' % (w[:120], wm[:120]), replay=dict(kind='ops', line=REFUTED_WITNESS, cpp=w, model=wm), nofail=True)
    rng_ms = ctx.rng.fork(22)
    lines = enum_ops() + [rand_ops(rng) for _ in range(n)] + [movesplits_ops(rng_ms) for _ in range(n // 10)]
    a, fa = vf.par_lines(env.exes['owner'], lines, timeout=120)
    if fa:
        l, rc, err = vf.isolate_failure(env.exes['owner'], fa[0][0], timeout=20)
        ctx.violation('owner.ops-hang-or-crash', 'an owner-edit sequence crashes or does not terminate in the real SetOwner/GetRealOutRec/IsValidOwner '
                      '(rc=%s): %s' % (rc, l), replay=dict(kind='ops', line=l or fa[0][0][:3]))
        env.dead = True        # whole runs would hang in the same loops: one concrete failing input is enough
        return
    b, fb = vf.par_lines(env.oracle, lines, timeout=300)
    if fb:
        raise vf.Infra('oracle OPS failed: %s' % fb[0][2][:300])
    for l, x, y in zip(lines, a, b):
        ctx.count('owner_op_sequences')
        if x != y:
            viol(ctx, 'tie.owner-ops', 'owner edits: real functions and model disagree on "%s": C++ %s / model %s' % (l[:120], x[-160:], y[-160:]),
                 replay=dict(kind='ops', line=l, cpp=x, model=y), nofail=True)
        # forest invariant observed on the real state: no OutRec reaches itself
        last = x.rsplit('|', 1)[-1].split(':', 1)[-1].split(';')[0].split() if '|' in x else []
        own = [int(v) for v in last]
        for s in range(len(own)):
            t, steps = own[s], 0
            while t >= 0 and steps <= len(own):
                t = own[t] if t < len(own) else -1; steps += 1
            if steps > len(own):
                viol(ctx, 'owner.cycle', 'owner graph has a cycle after "%s": %s' % (l[:160], own), replay=dict(kind='ops', line=l))
                break


# ----------------------------------------------------------------------------- cases
def rect_case(rng):
    if nesting is not None:
        S, C, kind = nesting.gen_rectilinear_case(rng)
    else:
        k = 2
        S = [polys.rect(0, 0, 20 * k, 20 * k), list(reversed(polys.rect(4 * k, 4 * k, 16 * k, 16 * k))), polys.rect(6 * k, 6 * k, 10 * k, 10 * k)]
        C, kind = [], 'fallback'
    return dict(S=S, O=[], C=C, kind='rect:' + kind, geom='rect')


def sm_case(rng):
    S, C, kind = splitmerge.gen_splitmerge_case(rng)
    return dict(S=S, O=[], C=C, kind='rect:' + kind, geom='rect')


def lattice_case(rng):
    S, C, kind = nesting.gen_lattice_case(rng)
    return dict(S=S, O=[], C=C, kind='rect:' + kind, geom='rect')


def genpos_case(rng):
    if nesting is not None and not rng.chance(1, 4):
        S, C, kind = nesting.gen_nested_genpos_case(rng)
    else:
        S, C, kinds = polys.gen_genpos_case(rng)
        kind = 'polys%s/%s' % kinds
    if rng.chance(1, 3):
        reg = rng.choice(polys.REGIMES[1:5])
        S, C, _ = polys.apply_regime(rng, S, C, reg)
        kind += '@' + reg[0]
    return dict(S=S, O=[], C=C, kind='genpos:' + kind, geom='genpos')


def upstream_cases():
    out = []
    if nesting is None:
        return out
    for u in getattr(nesting, 'UPSTREAM', []):
        out.append(dict(S=[list(map(tuple, p)) for p in u['S']], O=[], C=[list(map(tuple, p)) for p in u['C']],
                        kind='upstream:' + u['name'], geom=None, only=(u['ct'], u['fr'])))
    for f in ('PolytreeHoleOwner.txt', 'PolytreeHoleOwner2.txt', 'Polygons.txt'):
        p = os.path.join(vf.REPO, 'Tests', f)
        if os.path.exists(p) and hasattr(nesting, 'load_test_file'):
            try:
                tests = nesting.load_test_file(p)
            except Exception:
                tests = []
            for t in tests[:60]:
                if sum(len(q) for q in t['S'] + t['C']) > 1500:
                    continue
                out.append(dict(S=[list(map(tuple, q)) for q in t['S']], O=[list(map(tuple, q)) for q in t.get('O', [])],
                                C=[list(map(tuple, q)) for q in t['C']], kind='upstream:' + f, geom=None, only=(t['ct'], t['fr'])))
    return out


def load_corpus():
    cases = []
    for f in sorted(glob.glob(os.path.join(vf.VERIF, 'corpus', 'C04', '*.case'))):
        for line in vf.read(f).splitlines():
            line = line.strip()
            if line and not line.startswith('#'):
                d = json.loads(line)
                for w in ('S', 'O', 'C'):
                    d[w] = [[tuple(v) for v in p] for p in d.get(w, [])]
                d.setdefault('kind', 'corpus:' + os.path.basename(f)); d.setdefault('geom', None)
                cases.append(d)
    return cases


# ----------------------------------------------------------------------------- protocol
def api_line(c, ct, fr, pc, rs, prec=None):
    body = '%d %d %d %d %s %s %s' % (ct, fr, pc, rs, vf.fmt_paths(c['S']), vf.fmt_paths(c.get('O', [])), vf.fmt_paths(c['C']))
    return ('API64 ' + body) if prec is None else ('APID %d ' % prec + body)


def tree_line(c, ct, fr, pc, rs):
    return 'TREE %d %d %d %d %s %s %s' % (ct, fr, pc, rs, vf.fmt_paths(c['S']), vf.fmt_paths(c.get('O', [])), vf.fmt_paths(c['C']))


def parse_api(line):
    """-> dict(ok, closed, open, nodes=[(depth, hole, nchildren, path)], topen, tree_tokens, area=(hex,hex))"""
    t = line.split()
    if len(t) < 3 or t[0] not in ('ok', 'fail') or t[1] != 'P':
        return None
    closed, pos = vf.parse_paths(t, 2)
    opn, pos = vf.parse_paths(t, pos)
    if t[pos] != 'T':
        return None
    cnt = int(t[pos + 1]); start = pos + 1; pos += 2
    nodes = []
    for _ in range(cnt):
        d, h, nc, k = int(t[pos]), int(t[pos + 1]), int(t[pos + 2]), int(t[pos + 3]); pos += 4
        p = [(int(t[pos + 2 * j]), int(t[pos + 2 * j + 1])) for j in range(k)]; pos += 2 * k
        nodes.append((d, h, nc, p))
    tree_tokens = ' '.join(t[start:pos])
    if t[pos] != 'TO':
        return None
    topen, pos = vf.parse_paths(t, pos + 1)
    area = (t[pos + 1], t[pos + 2]) if t[pos] == 'A' else None
    return dict(ok=t[0] == 'ok', closed=closed, open=opn, nodes=nodes, topen=topen, tree_tokens=tree_tokens, area=area)


def check_line(rs, r):
    return 'CHECK %d %s %s %s %s' % (rs, r['tree_tokens'], vf.fmt_paths(r['closed']), vf.fmt_paths(r['open']), vf.fmt_paths(r['topen']))


def parse_codes(line):
    t = line.split()
    if not t or not t[0].isdigit():
        return None
    return [(int(t[1 + 2 * i]), int(t[2 + 2 * i])) for i in range(int(t[0]))]


def split_tree_answer(line):
    """harness TREE answer -> (state part for the model, 'T ...' part, open part) or None"""
    if not line.startswith('ok N '):
        return None
    i = line.find(' T ')
    j = line.find(' O ', i)
    if i < 0 or j < 0:
        return None
    return line[3:i], line[i + 1:j], line[j + 1:]


# ----------------------------------------------------------------------------- classifying a nesting failure
# A polygon that tree_check finds inside one of its siblings (clause 33) or at a depth that contradicts its orientation
# (clause 34) is a polygon whose parent is not its innermost container.  Which defect of the owner search is responsible
# is read off the ownership state that BuildTree64 started from (harness TREE): X = the misplaced OutRec, T = the OutRec of
# its innermost container (exact integer geometry on the output polygons), P = the parent it got; SC(A) = everything
# CheckSplitOwner can visit starting from A's split list.
#   container-among-own-splits      T in SC(X): the container was split off X (or is nested in such a path); the search
#                                   only ever looks at the splits of X's owners, never at X's own
#   owner-accepted-inside-split-search  T is on X's owner chain or in SC(A) for an OutRec A of that chain: inside CheckSplitOwner
#                                   a point-less split resolved (GetRealOutRec) to an OutRec further up the chain, which contains X
#                                   and was accepted before the nearer candidates (the remaining splits, the owner whose splits
#                                   were being searched) were tested
#   origin-of-split-not-searched    X in SC(T), or X is in the split list of an OutRec that has lost its points: X was split off
#                                   T (or absorbed such a split, or its origin was merged away) but its owner chain does not
#                                   lead to T, so T is never tested
# A flagged polygon (or, for clause 33, one of its siblings) that crosses itself -- two of its edges properly cross, or it
# runs around some points clockwise and around others counter-clockwise (crossing at a vertex) -- gets tree.self-crossing-ring.
# Anything else keeps the plain clause key.
NEST = 'tree.nesting.'


def _pip2(poly, q):
    """exact even-odd point in polygon on integer coordinates: 0 outside, 1 inside, 2 on the boundary"""
    x, y = q
    inside = False
    n = len(poly)
    for i in range(n):
        (x1, y1), (x2, y2) = poly[i], poly[(i + 1) % n]
        cr = (x2 - x1) * (y - y1) - (y2 - y1) * (x - x1)
        if cr == 0 and min(x1, x2) <= x <= max(x1, x2) and min(y1, y2) <= y <= max(y1, y2):
            return 2
        if (y1 > y) != (y2 > y):
            # x coordinate of the crossing compared with x, exactly
            t = (x2 - x1) * (y - y1) - (x - x1) * (y2 - y1)
            if (t > 0) == (y2 > y1):
                inside = not inside
    return 1 if inside else 0


def _contains(outer, inner):
    """the same test as TreeCheck.child_ok: every vertex inside or on, and a vertex or edge midpoint strictly inside"""
    o2 = [(2 * a, 2 * b) for a, b in outer]
    pr = [(2 * a, 2 * b) for a, b in inner] + [(inner[i][0] + inner[(i + 1) % len(inner)][0], inner[i][1] + inner[(i + 1) % len(inner)][1])
                                                for i in range(len(inner))]
    r = [_pip2(o2, q) for q in pr]
    return all(v != 0 for v in r[:len(inner)]) and any(v == 1 for v in r)


def _self_crossing(p):
    """two edges of the closed path p properly cross (exact)"""
    def o(a, b, c):
        return (b[0] - a[0]) * (c[1] - a[1]) - (b[1] - a[1]) * (c[0] - a[0])
    n = len(p)
    for i in range(n):
        a, b = p[i], p[(i + 1) % n]
        for j in range(i + 1, n):
            c, d = p[j], p[(j + 1) % n]
            o1, o2, o3, o4 = o(a, b, c), o(a, b, d), o(c, d, a), o(c, d, b)
            if o1 and o2 and o3 and o4 and (o1 > 0) != (o2 > 0) and (o3 > 0) != (o4 > 0):
                return True
    return False


def _wn(poly, q):
    """winding number of the closed integer path around q, None when q is on the path"""
    x, y = q
    w = 0
    n = len(poly)
    for i in range(n):
        (x1, y1), (x2, y2) = poly[i], poly[(i + 1) % n]
        cr = (x2 - x1) * (y - y1) - (y2 - y1) * (x - x1)
        if cr == 0 and min(x1, x2) <= x <= max(x1, x2) and min(y1, y2) <= y <= max(y1, y2):
            return None
        if y1 <= y < y2 and cr > 0:
            w += 1
        elif y2 <= y < y1 and cr < 0:
            w -= 1
    return w


def _figure_eight(p):
    """the ring encloses points with positive AND points with negative winding number (probes: one unit to the left and to
    the right of every edge midpoint, in coordinates scaled by 4; exact for axis-parallel edges)"""
    q4 = [(4 * a, 4 * b) for a, b in p]
    pos = neg = False
    n = len(p)
    for i in range(n):
        (x1, y1), (x2, y2) = q4[i], q4[(i + 1) % n]
        mx, my = (x1 + x2) // 2, (y1 + y2) // 2
        dx, dy = (x2 > x1) - (x2 < x1), (y2 > y1) - (y2 < y1)
        for s in (1, -1):
            w = _wn(q4, (mx - s * dy, my + s * dx))
            if w:
                pos |= w > 0; neg |= w < 0
    return pos and neg


def parse_tree_answer(line):
    """harness TREE answer -> dict(owner, pts, splits, tree=[(idx, parent)]) or None"""
    if not line.startswith('ok N '):
        return None
    t = line.split()
    n = int(t[2]); pos = 3
    owner, pts, splits = [], [], []
    for _ in range(n):
        ow, hp, io, be, ns = (int(v) for v in t[pos:pos + 5])
        owner.append(ow); pts.append(hp == 1); splits.append([int(v) for v in t[pos + 5:pos + 5 + ns]]); pos += 5 + ns
    pos = t.index('T', pos)
    m = int(t[pos + 1]); pos += 2
    tree = [(int(t[pos + 2 * k]), int(t[pos + 2 * k + 1])) for k in range(m)]
    return dict(owner=owner, pts=pts, splits=splits, tree=tree)


def _split_closure(st, a):
    """OutRecs (with points) that CheckSplitOwner can reach from a's split list"""
    def real(x):
        steps = 0
        while x >= 0 and not st['pts'][x] and steps <= len(st['owner']):
            x = st['owner'][x]; steps += 1
        return x if x >= 0 and st['pts'][x] else -1
    seen, lists, out, todo = set(), set(), set(), [a]
    while todo:
        x = todo.pop()
        if x in lists:
            continue
        lists.add(x)
        for s in st['splits'][x]:
            todo.append(s)
            r = real(s)
            if r >= 0:
                out.add(r); todo.append(r)
    return out


def _pointless_cycle(st):
    """a cycle s -> s2 (s2 in s.splits) among OutRecs without points"""
    n = len(st['pts'])
    color = [0] * n
    for root in range(n):
        if st['pts'][root] or color[root]:
            continue
        stack = [(root, 0)]
        color[root] = 1
        while stack:
            x, j = stack[-1]
            nxt = [y for y in st['splits'][x] if 0 <= y < n and not st['pts'][y]]
            if j < len(nxt):
                stack[-1] = (x, j + 1)
                y = nxt[j]
                if color[y] == 1:
                    return True
                if color[y] == 0:
                    color[y] = 1; stack.append((y, 0))
            else:
                color[x] = 2; stack.pop()
    return False


FALLBACK = 'horz-join-split-bookkeeping'
CLASSIFIER_RULES = {
    NEST + 'container-is-sibling-split-of-origin': 'X unowned (or its nearest owner with points does not contain it); an OutRec O off X\'s owner chain reaches X '
        'through its split list; the true container T != O is reachable from O\'s split list too (ProcessHorzJoins split branch or2->owner = or1->owner)',
    NEST + 'no-live-owner-for-ring-in-split-off-hole': 'no OutRec with points on X\'s owner chain, X has no splits and is in no split list, T is an entry of a '
        'split list (RecursiveCheckOwners has nothing to search)',
    NEST + 'split-list-outer-before-inner': 'used parent P and true container T both in the split closure of one OutRec of X\'s owner chain, P not on the chain, '
        'P\'s ring contains T\'s ring (CheckSplitOwner: first containing entry wins)',
    NEST + 'container-owned-by-its-content': 'T in the split closure of X and X on T\'s owner chain (CheckSplitOwner: IsValidOwner refuses T)',
    NEST + 'origin-of-split-not-searched': 'X in the split closure of T, or X in the split list of a point-less OutRec, and T not on X\'s owner chain',
    NEST + 'container-among-own-splits': '(repaired 239d50c; not a known finding) T in the split closure of X, X not on T\'s owner chain',
    NEST + 'owner-accepted-inside-split-search': '(repaired 239d50c; not a known finding) used parent P is ON X\'s dumped owner chain and T is P\'s descendant '
        'candidate: T is an OutRec of the chain below P or reachable from the split list of one',
    NEST + FALLBACK: 'FALLBACK, only when no rule above applies: a nesting failure (clause 33/34 at a node X, or at a node below it) where, in the OutRec state '
        'dumped before BuildTree64, X, the parent P the tree uses, the true container T (innermost ring containing X, when there is one) or an OutRec '
        'on the owner chain of one of them owns a non-empty split list or is an entry of / reachable from a split list.  No split list anywhere on X, P, T '
        'and their owner chains -> NOT classified (reported under the plain clause key)',
}


def dumped_state(env, c, ct, fr, pc, rs, prec):
    sc = 10 ** prec if prec else 1
    cc = dict(S=[[(x * sc, y * sc) for x, y in p] for p in c['S']], O=[], C=[[(x * sc, y * sc) for x, y in p] for p in c['C']])
    q = vf.run_lines(env.exes['owner'], [tree_line(cc, ct, fr, pc, rs)], timeout=60)
    return parse_tree_answer(q.stdout.strip()) if q.returncode == 0 else None


def split_bookkeeping_involved(st, nodes, k):
    """the fallback rule (CLASSIFIER_RULES[NEST + FALLBACK])"""
    if st is None or len(st['tree']) != len(nodes) or not (0 <= k < len(nodes)):
        return False
    paths = [n[3] for n in nodes]
    X, P = st['tree'][k]
    cont = [i for i in range(len(nodes)) if i != k and _contains(paths[i], paths[k])]
    T = -1
    if cont:
        depth_of = {i: len([j for j in range(len(nodes)) if j != i and _contains(paths[j], paths[i])]) for i in cont}
        T = st['tree'][max(cont, key=lambda i: depth_of[i])][0]
    who = set()
    for v in (X, P, T):
        steps = 0
        while v is not None and v >= 0 and v not in who and steps <= len(st['owner']):
            who.add(v); v = st['owner'][v]; steps += 1
    listed = set()
    for O in range(len(st['pts'])):
        if st['splits'][O]:
            listed |= set(st['splits'][O]) | _split_closure(st, O)
    return any(st['splits'][v] or v in listed for v in who)


def classify_nesting(env, c, ct, fr, pc, rs, prec, nodes, k):
    """nodes = [(depth, hole, nchildren, path)] of the API answer in preorder, k = the node tree_check flagged.
    -> mechanism name or None; the narrow rules first, then the call-site-level fallback"""
    try:
        st = dumped_state(env, c, ct, fr, pc, rs, prec)
    except Exception:
        return None
    m = _classify_narrow(st, nodes, k)
    if m:
        return m
    try:
        return FALLBACK if split_bookkeeping_involved(st, nodes, k) else None
    except Exception:
        return None


def _classify_narrow(st, nodes, k):
    try:
        if st is None or len(st['tree']) != len(nodes) or not (0 <= k < len(nodes)):
            return None
        paths = [n[3] for n in nodes]
        cont = {j: [i for i in range(len(nodes)) if i != j and _contains(paths[i], paths[j])] for j in range(len(nodes))}
        if not cont[k]:
            return None
        inner = max(cont[k], key=lambda i: len(cont[i]))
        X, P = st['tree'][k]
        T = st['tree'][inner][0]
        if X < 0 or T < 0 or T == P:
            return None
        if T in _split_closure(st, X):
            # container-owned-by-its-content (own key, narrow rule; triage/demos/C04-container-owned-by-its-content.cpp): the search
            # through X's own splits (repair 239d50c) does reach the true container T, but T's owner chain leads to X (the owner
            # pointers are inverted: X lies in a hole of the polygon that T belongs to, yet that polygon is recorded as owned by X),
            # so the `IsValidOwner(outrec, split)` conjunct of CheckSplitOwner refuses T and X stays where its own chain puts it
            tc, o = set(), st['owner'][T]
            while o >= 0 and o not in tc:
                tc.add(o); o = st['owner'][o]
            if X in tc:
                return 'container-owned-by-its-content'
            return 'container-among-own-splits'
        chain0, o = set(), st['owner'][X]
        while o >= 0 and o not in chain0:
            chain0.add(o); o = st['owner'][o]
        node_of = {idx_: i_ for i_, (idx_, par_) in enumerate(st['tree'])}
        # split-list-outer-before-inner (own key, narrow rule; triage/demos/C04-split-list-outer-before-inner.cpp): the parent P
        # the tree uses and the true container T are BOTH reachable from the split list of one OutRec A of X's owner chain, P is
        # NOT on that chain (the marker of repair 239d50c only protects OutRecs on the chain) and P's ring contains T's ring:
        # CheckSplitOwner(X, A->splits) accepted the first entry of the list that contains X (P, possibly through a point-less
        # split that GetRealOutRec resolves to P) and never tested the entry nested in it
        if P >= 0 and P not in chain0 and P in node_of and _contains(paths[node_of[P]], paths[inner]):
            for A in chain0:
                sc = _split_closure(st, A)
                if P in sc and T in sc:
                    return 'split-list-outer-before-inner'
        # the dumped owner chain of X: an owner (or, through a point-less split, an owner further up) was accepted although T is
        # reachable from the split list of one of them
        # (the name of the defect repaired by 239d50c is only given when its mechanism shows: the parent the tree uses is an
        # OutRec ON X's dumped owner chain; everything else of this shape goes to the fallback)
        o, steps = st['owner'][X], 0
        while o >= 0 and steps <= len(st['owner']) and P >= 0 and P in chain0:
            if o == T or T in _split_closure(st, o):
                return 'owner-accepted-inside-split-search'
            o = st['owner'][o]; steps += 1
        if X in _split_closure(st, T):
            return 'origin-of-split-not-searched'
        # container-is-sibling-split-of-origin (own key, narrow rule; triage/demos/C04-split-sibling-island.cpp): X has no owner,
        # or its nearest owner with points does not contain it (ProcessHorzJoins' split branch: `or2->owner = or1->owner`); some
        # OutRec O that is NOT on X's owner chain reaches X through its split list; the true container T is ANOTHER ring
        # reachable from O's split list (T != O; T == O stays with origin-of-split-not-searched above, exactly as before).
        # The split list of the OutRec a ring was split FROM is never searched.
        ro, steps = st['owner'][X], 0
        while ro >= 0 and not st['pts'][ro] and steps <= len(st['owner']):
            ro = st['owner'][ro]; steps += 1
        unowned = ro < 0 or ro not in node_of or not _contains(paths[node_of[ro]], paths[k])
        in_some_list = False
        for O in range(len(st['pts'])):
            if O != X and st['splits'][O]:
                sc = _split_closure(st, O)
                in_some_list |= X in sc
                if unowned and O != T and O not in chain0 and X in sc and T in sc:
                    return 'container-is-sibling-split-of-origin'
        # no-live-owner-for-ring-in-split-off-hole (own key, narrow rule; triage/demos/C04-island-without-owner.cpp): X's owner
        # chain contains NO OutRec with points (owner == nullptr, or only dead OutRecs), X has no split list of its own and is in
        # no split list -- RecursiveCheckOwners(X) leaves its while loop with owner == nullptr without having tested anything and
        # adds X to the root -- while its container T is a ring that a horizontal join split off (T is an entry of a split list).
        # Seen origins: AddLocalMaxPoly (`if (!e) outrec.owner = nullptr;`) threw away the owner X got at its local minimum
        # because no hot edge was left of the closing vertex; or X's owner is a ring that was disposed of (no points, no owner).
        # The hole around X was only split off afterwards.
        if ro < 0 and not st['splits'][X] and not in_some_list \
                and any(T in st['splits'][O] for O in range(len(st['pts']))):
            return 'no-live-owner-for-ring-in-split-off-hole'
        # ... or the OutRec X was split off has lost its points since (its ring went elsewhere)
        chain, o = set(), st['owner'][X]
        while o >= 0 and o not in chain:
            chain.add(o); o = st['owner'][o]
        if T not in chain and any(X in st['splits'][y] and not st['pts'][y] for y in range(len(st['pts']))):
            return 'origin-of-split-not-searched'
    except Exception:
        return None
    return None


def _parent_index(nodes, i):
    """preorder index of the parent of node i (-1 = root)"""
    d = nodes[i][0]
    j = i - 1
    while j >= 0 and nodes[j][0] >= d:
        j -= 1
    return j if d > 0 else -1


def refine_keys(env, c, ct, fr, pc, rs, prec, r, codes):
    """tree_check codes -> [(key, node index)]: clauses 33/34 at a node whose mis-nesting is explained by one of the known
    mechanisms are reported under that mechanism's key (one key per defect), everything else under the clause's key"""
    out, memo = [], {}
    nodes = r['nodes']

    def mech(i):
        if i not in memo:
            memo[i] = classify_nesting(env, c, ct, fr, pc, rs, prec, nodes, i)
        return memo[i]
    for code, idx in codes:
        key = KEYS[code]
        if code in (33, 34) and not c.get('O') and 0 <= idx < len(nodes):
            m = mech(idx)
            if not m and code == 34:
                # the depth of everything below a misplaced polygon is off as well: attribute it to that polygon's defect
                j, d = idx, nodes[idx][0]
                while j > 0 and d > 0 and not m:
                    j -= 1
                    if nodes[j][0] < d:
                        d = nodes[j][0]; m = mech(j)
            if m:
                key = NEST + m
            else:
                # a ring that crosses itself (figure of eight: an outer loop fused with a hole of another polygon) has no
                # correct place in the tree; the defect is in the ring building, the tree only shows its consequence
                par = _parent_index(nodes, idx)
                group = [idx] + ([j for j in range(len(nodes)) if j != idx and _parent_index(nodes, j) == par] if code == 33 else [])
                if any(_self_crossing(nodes[j][3]) or _figure_eight(nodes[j][3]) for j in group):
                    key = 'tree.self-crossing-ring'
        if code == 32 and not c.get('O') and 0 <= idx < len(nodes):
            # a figure-of-eight ring (an outer loop fused with a hole of another polygon) that the tree places as the HOLE: its
            # outer loop then lies outside the parent.  Own key, only when the flagged ring itself is the figure of eight.
            if _self_crossing(nodes[idx][3]) or _figure_eight(nodes[idx][3]):
                key = 'tree.self-crossing-ring.child-outside-parent'
        if (key, idx) not in out:
            out.append((key, idx))
    return out


# ----------------------------------------------------------------------------- the entry points of clipper.h around a PolyTree
# PolyTreeToPaths64/D, CheckPolytreeFullyContainsChildren, operator<<(ostream, PolyTree64/D), the free BooleanOp overloads with a
# PolyTree solution (harness EXT64 / EXTD / SYN).  Each is judged against something C04 already judges: the tree itself (its
# preorder traversal by the harness, whose paths and nesting tree_check decides), the extracted model of the library's own
# nesting test (TreeCheck.fully_contains, tied to clause 32 by C04_fully_contains_of_tree_check), Execute on a fresh object.
EXACT_PIP = 2 ** 25          # PointInPolygon's cross products are exact in double up to here


def tree_children(nodes):
    """children lists from the preorder depths; -1 = the root"""
    ch = {-1: []}
    stack = []
    for i, n in enumerate(nodes):
        del stack[n[0]:]
        ch.setdefault(stack[-1] if stack else -1, []).append(i)
        ch[i] = []
        stack.append(i)
    return ch


def outline_text(nodes, is_d):
    """what operator<< has to print (newlines as ~): a header with the number of top-level polygons, then one line per node
    that HAS children (index among its siblings, kind by depth parity = C04_level_hole, number of children), indented by depth"""
    ch = tree_children(nodes)
    out = ['', 'Polytree with %d polygon%s' % (len(ch[-1]), '.' if len(ch[-1]) == 1 else 's.')]

    def rec(i, idx, pre):
        c = len(ch[i])
        if nodes[i][0] % 2:
            out.append('%s+- Hole (%d) contains %d nested polygon%s' % (pre, idx, c, '.' if c == 1 else 's.'))
        else:
            out.append('%s+- Polygon (%d) contains %d hole%s' % (pre, idx, c, '.' if c == 1 else 's.'))
        for k, j in enumerate(ch[i]):
            if ch[j]:
                rec(j, k, pre + '  ')
    for k, j in enumerate(ch[-1]):
        if ch[j]:
            rec(j, k, '  ')
    return '~'.join(out) + '~~~' + ('~' if is_d else '')


def _take_tree(t, pos):
    cnt = int(t[pos]); start = pos; pos += 1
    nodes = []
    for _ in range(cnt):
        d, h, nc, k = int(t[pos]), int(t[pos + 1]), int(t[pos + 2]), int(t[pos + 3]); pos += 4
        nodes.append((d, h, nc, [(int(t[pos + 2 * j]), int(t[pos + 2 * j + 1])) for j in range(k)])); pos += 2 * k
    return nodes, ' '.join(t[start:pos]), pos


def parse_ext(line):
    """answer of EXT64 / EXTD / SYN -> dict(ok, T=(nodes, tokens), P2P, FC, F, E, FP, EP, T64, S, OS) or None"""
    if ' OS ' not in line and not line.endswith(' OS'):
        return None
    head, _, text = line.partition(' OS ')
    t = head.split()
    if not t or t[0] not in ('ok', 'fail'):
        return None
    r = dict(ok=t[0] == 'ok', OS=text)
    pos = 1
    try:
        while pos < len(t):
            lab = t[pos]; pos += 1
            if lab in ('T', 'F', 'E', 'T64'):
                nodes, toks, pos = _take_tree(t, pos)
                r[lab] = (nodes, toks)
            elif lab in ('P2P', 'FP', 'EP'):
                r[lab], pos = vf.parse_paths(t, pos)
            elif lab in ('FC', 'S'):
                r[lab] = int(t[pos]); pos += 1
            else:
                return None
    except (IndexError, ValueError):
        return None
    return r


def ext_line(c, ct, fr, pc, rs, prec=None):
    body = '%d %d %d %d %s %s %s' % (ct, fr, pc, rs, vf.fmt_paths(c['S']), vf.fmt_paths(c.get('O', [])), vf.fmt_paths(c['C']))
    return ('EXT64 ' + body) if prec is None else ('EXTD %d ' % prec + body)


def syn_tree(rng):
    """a hand-made tree: polygons of a few simple kinds, mostly nested in their parent, sometimes pushed partly or wholly outside
    it or touching its boundary -> [(depth, path)] in preorder"""
    def poly(x0, y0, x1, y1):
        k = rng.below(5)
        mx, my = (x0 + x1) // 2, (y0 + y1) // 2
        if k == 0 or x1 - x0 < 4 or y1 - y0 < 4:
            p = [(x0, y0), (x1, y0), (x1, y1), (x0, y1)]
        elif k == 1:
            p = [(x0, y0), (x1, y0), (mx, y1)]
        elif k == 2:
            p = [(x0, y0), (x1, y0), (x1, my), (mx, my), (mx, y1), (x0, y1)]
        elif k == 3:
            p = [(mx, y0), (x1, my), (mx, y1), (x0, my)]
        else:
            p = [(x0, y0), (mx, y0), (x1, y0), (x1, y1), (mx, y1), (x0, y1)]
        if rng.chance(1, 2):
            p = p[::-1]
        r = rng.below(len(p))
        return p[r:] + p[:r]
    out = []

    def rec(d, box, left):
        x0, y0, x1, y1 = box
        k = rng.range(1, 3) if d == 0 else rng.range(0, 3) if d < 3 else rng.range(0, 1)
        if k == 0 or (x1 - x0) // k < 8 or y1 - y0 < 8:
            return
        sw = (x1 - x0) // k
        for q in range(k):
            if left[0] <= 0:
                return
            left[0] -= 1
            sx0, sx1 = x0 + q * sw, x0 + (q + 1) * sw
            a = sx0 + rng.range(1, max(1, sw // 5)); c = sx1 - rng.range(1, max(1, sw // 5))
            b = y0 + rng.range(1, max(1, (y1 - y0) // 5)); e = y1 - rng.range(1, max(1, (y1 - y0) // 5))
            w = rng.below(12)
            if w == 0:                                   # wholly outside
                a, c = a + 1000, c + 1000
            elif w == 1:                                 # pushed over one side: some vertices outside
                sh = rng.range(1, x1 - x0)
                a, c = a + sh, c + sh
            elif w == 2:
                sh = rng.range(1, y1 - y0)
                b, e = b - sh, e - sh
            elif w == 3:                                 # touching the parent's box
                a = x0
            elif w == 4:
                e = y1
            out.append((d, poly(a, b, c, e)))
            rec(d + 1, (a, b, c, e), left)
    rec(0, (0, 0, rng.choice([60, 200, 1000]), rng.choice([60, 200, 1000])), [rng.range(2, 14)])
    return out


def syn_line(tr):
    return 'SYN %d %s' % (len(tr), ' '.join('%d %d %s' % (d, len(p), ' '.join('%d %d' % v for v in p)) for d, p in tr))


def judge_ext(env, line, ans, geom=None, maxabs=0, fcc=None):
    """-> [(key, what)] for one EXT64 / EXTD / SYN answer; fcc = the model's answer for FC when already computed"""
    t0 = line.split(' ', 8)
    cmd = t0[0]
    r = parse_ext(ans)
    if r is None or 'T' not in r:
        return [('crash.polytree', 'unparsable answer to %s: %s' % (cmd, ans[:200]))]
    out = []
    nodes, toks = r['T']
    if not r['ok']:
        out.append(('execute-returned-false', 'Execute returned false'))
    want = [n[3] for n in nodes]
    if r.get('P2P') != want:
        out.append(('ext.polytree-to-paths', 'PolyTreeToPaths%s does not return the polygons of the tree in preorder: %s / tree %s'
                    % ('D' if cmd == 'EXTD' else '64', str(r.get('P2P'))[:160], str(want)[:160])))
    ch = tree_children(nodes)
    bad = [i for i, n in enumerate(nodes) if n[2] != len(ch[i])]
    if bad:
        out.append(('ext.child-count', 'Count() of tree node %d is %d, the traversal finds %d children' % (bad[0], nodes[bad[0]][2], len(ch[bad[0]]))))
    exp = outline_text(nodes, cmd == 'EXTD')
    if r['OS'] != exp:
        out.append(('ext.ostream-text', 'operator<< prints "%s", the tree is "%s"' % (r['OS'][:200], exp[:200])))
    if cmd == 'SYN':
        g = line.split()
        given, pos = [], 2
        for _ in range(int(g[1])):
            d, k = int(g[pos]), int(g[pos + 1])
            given.append((d, [(int(g[pos + 2 + 2 * j]), int(g[pos + 3 + 2 * j])) for j in range(k)])); pos += 2 + 2 * k
        if [(n[0], n[3]) for n in nodes] != given:
            out.append(('ext.polytree-to-paths', 'the traversal of a hand-built tree does not give back the polygons it was built from'))
        if [n[1] for n in nodes] != [n[0] % 2 for n in nodes]:
            out.append(('tree.orientation-depth', 'IsHole of a hand-built tree is not "odd depth"'))
    if cmd in ('EXT64', 'EXTD'):
        if r['F'][1] != r['E'][1]:
            out.append(('ext.free-booleanop-tree', 'the free BooleanOp with a PolyTree solution differs from Execute on a fresh object: %s / %s'
                        % (r['F'][1][:160], r['E'][1][:160])))
        if r['FP'] != r['EP']:
            out.append(('ext.free-booleanop-paths', 'the free BooleanOp differs from Execute on a fresh object: %s / %s' % (str(r['FP'])[:160], str(r['EP'])[:160])))
        pc, rs = (t0[3], t0[4]) if cmd == 'EXT64' else (t0[4], t0[5])
        tail = line.split()
        if pc == '1' and rs == '0' and r['E'][1] != toks:
            # same settings as a default object: only open subjects can make the difference
            S, pos = vf.parse_paths(tail, 5 if cmd == 'EXT64' else 6)
            O, pos = vf.parse_paths(tail, pos)
            if not O:
                out.append(('ext.free-booleanop-tree', 'Execute(ct, fr, tree) on a fresh default object differs from Execute(ct, fr, tree, open): %s / %s'
                            % (r['E'][1][:160], toks[:160])))
    if cmd == 'EXTD' and r['T64'][1] != toks:
        out.append(('ext.polytreeD-not-the-descaled-64-bit-tree', 'PolyTreeD times the scale %s differs from the PolyTree64 of the scaled input: %s / %s'
                    % (r.get('S'), toks[:160], r['T64'][1][:160])))
    if 'FC' in r:
        if fcc is None and maxabs <= EXACT_PIP:
            fcc = vf.run_lines(env.oracle, ['FCC ' + toks], timeout=120).stdout.strip()
        if fcc is not None and fcc != str(r['FC']):
            out.append(('ext.fully-contains-children', 'CheckPolytreeFullyContainsChildren answers %s, the model (TreeCheck.fully_contains) %s on %s'
                        % (r['FC'], fcc, toks[:200])))
        if r['FC'] == 0 and geom == 'genpos':
            out.append(('tree.child-outside-parent', 'CheckPolytreeFullyContainsChildren is false on the tree of a general-position input'))
    return out


def phase_ext(ctx, env, groups):
    """groups = [(label, cases, per_case_combos, precs)]"""
    if env.dead:
        ctx.count('phases_skipped_after_hang_or_crash')
        return
    rng = ctx.rng.fork(51)
    lines, meta = [], []
    for label, cases, combos, precs in groups:
        for c in cases:
            cl = [c['only']] if c.get('only') else [(ct, fr) for ct in CT for fr in FR]
            rng.shuffle(cl)
            for ct, fr in cl[:combos]:
                pc, rs = (1, 0) if rng.chance(1, 3) else (rng.below(2), rng.below(2))
                prec = rng.choice(precs)
                m = polys.maxabs([c['S'], c.get('O', []), c['C']])
                if prec is not None and m * 2 * 10 ** prec > MAX_COORD:
                    prec = None
                lines.append(ext_line(c, ct, fr, pc, rs, prec)); meta.append((c.get('geom'), m, c['kind']))
    syn = [syn_tree(rng) for _ in range(3000 if ctx.quick else 30000)]
    syn = [t for t in syn if t]
    for t in syn:
        lines.append(syn_line(t)); meta.append((None, 0, 'hand-built tree'))
    outs = robust_lines(ctx, env, lines, 'PolyTree entry points of clipper.h')
    if outs is None:
        return
    # the model's answer for every tree CheckPolytreeFullyContainsChildren was asked about
    fl, fidx = [], []
    parsed = {}
    for k, ans in enumerate(outs):
        if ans is None:
            continue
        r = parse_ext(ans)
        parsed[k] = r
        if r is not None and 'FC' in r and 'T' in r and meta[k][1] <= EXACT_PIP:
            fl.append('FCC ' + r['T'][1]); fidx.append(k)
        elif r is not None and 'FC' in r:
            ctx.count('fully_contains_recorded_not_judged_large_coordinates')
    fres, f2 = vf.par_lines(env.oracle, fl, timeout=900)
    if f2:
        raise vf.Infra('oracle FCC failed: %s' % f2[0][2][:300])
    fcc = dict(zip(fidx, (x.strip() for x in fres)))
    for k, ans in enumerate(outs):
        if ans is None:
            continue
        cmd = lines[k].split(' ', 1)[0]
        ctx.count('entry_point_evaluations_' + cmd)
        r = parsed.get(k)
        if r is not None and 'FC' in r:
            ctx.hist('fully_contains_children_answers', '%s:%s' % ('hand-built' if cmd == 'SYN' else (meta[k][0] or 'other'), r['FC']))
        if r is not None and 'T' in r and any(n[2] for n in r['T'][0]):
            ctx.count('entry_point_trees_with_nesting')
        for key, what in judge_ext(env, lines[k], ans, geom=meta[k][0], maxabs=meta[k][1], fcc=fcc.get(k)):
            viol(ctx, key, '%s (%s): %s' % (cmd, meta[k][2], what), replay=dict(kind='ext', line=lines[k], geom=meta[k][0], maxabs=meta[k][1], key=key), cap=1)



class Env:
    pass


# ----------------------------------------------------------------------------- crashes and hangs of the code under test
def state_line_of(line):
    """the STATE command (ownership dump without BuildTree64) for the input of an API64 / APID / TREE line"""
    t = line.split()
    if t[0] in ('API64', 'TREE'):
        return 'STATE ' + ' '.join(t[1:])
    if t[0] == 'APID':
        sc = 10 ** int(t[1])
        ct, fr, pc, rs = t[2:6]
        S, pos = vf.parse_paths(t, 6); O, pos = vf.parse_paths(t, pos); C, pos = vf.parse_paths(t, pos)
        f = lambda ps: vf.fmt_paths([[(x * sc, y * sc) for x, y in q] for q in ps])
        return 'STATE %s %s %s %s %s %s %s' % (ct, fr, pc, rs, f(S), f(O), f(C))
    return None


def crash_key(env, line):
    """crash.pointless-split-cycle when the ownership state the tree would be built from contains a cycle of point-less
    OutRecs through split lists (CheckSplitOwner then recurses without bound: C04_check_split_terminates_refuted_pointless_cycle),
    else the plain crash.polytree"""
    try:
        sl = state_line_of(line)
        if sl:
            q = vf.run_lines(env.exes['owner'], [sl], timeout=60)
            st = parse_tree_answer(q.stdout.strip()) if q.returncode == 0 else None
            if st is not None and _pointless_cycle(st):
                return 'crash.pointless-split-cycle'
    except Exception:
        pass
    return 'crash.polytree'


def robust_lines(ctx, env, lines, what):
    """par_lines that survives a few crashing / hanging inputs: they are localised by bisection, reported once per key with
    the input, and the rest of the phase is evaluated without them.  -> list aligned with `lines` (None for the bad ones), or
    None when the phase cannot be evaluated (env.dead is set)."""
    exe = env.exes['owner']
    outs, fails = vf.par_lines(exe, lines, timeout=env.tmo)
    if not fails:
        return outs
    bad, t0 = [], time.time()

    def rec(ls):
        if len(bad) >= 4 or time.time() - t0 > (240 if ctx.quick else 1200):
            return
        p = vf.run_lines(exe, ls, timeout=max(30, env.tmo // 5))
        if p.returncode == 0 and len(p.stdout.split('\n')) - 1 == len(ls):
            return
        if len(ls) == 1:
            bad.append((ls[0], p.returncode, (p.stderr or '')[-200:]))
            return
        h = len(ls) // 2
        rec(ls[:h]); rec(ls[h:])
    for f in fails[:3]:
        rec(f[0])
    if not bad:
        ctx.violation('crash.polytree', '%s crashed or hung (rc=%s) on a batch of inputs but on none of them alone: %s'
                      % (what, fails[0][1], fails[0][2][-300:]), replay=dict(kind='line', line=fails[0][0][:3]))
        env.dead = True
        return None
    for l, rc, err in bad:
        key = crash_key(env, l)
        ctx.hist('crashing_inputs_by_key', key)
        ctx.violation(key, '%s %s (rc=%s) %s: %s' % (what, 'hung' if rc == -9 else 'crashed', rc, err[-120:], l[:160]), replay=dict(kind='line', line=l))
    badset = set(l for l, _, _ in bad)
    keep = [l for l in lines if l not in badset]
    outs2, fails2 = vf.par_lines(exe, keep, timeout=env.tmo)
    if fails2:
        env.dead = True          # more crashing inputs than we are willing to localise: the ones found are reported
        return None
    it = iter(outs2)
    return [None if l in badset else next(it) for l in lines]


def setup(ctx):
    env = Env()
    env.exes = {}
    env.shape = None
    env.tie_miss = {v: [] for v in range(NSHAPES)}
    env.dead = False
    env.tmo = 150 if ctx.quick else 1200      # a whole-run phase takes seconds; a hang must not cost the budget
    env.oracle = vf.oracle_build('tree')
    env.region = vf.oracle_build('region')
    try:
        env.exes['owner'] = vf.build_cpp(ctx, 'cx_owner.cpp', 'plain')
        try:
            os.utime(env.exes['owner'])       # the shared binary cache evicts by mtime: mark it as in use
        except OSError:
            pass
    except vf.BuildFailure as e:
        ctx.violation('tie-break:cx_owner', 'ownership harness no longer builds (SetOwner/GetRealOutRec/IsValidOwner/MoveSplits/CheckBounds/'
                      'Path1InsidePath2/BuildTree64 or OutRec fields changed?): %s' % str(e)[-500:], replay=dict(error=str(e)[-2000:]), nofail=True)
    return env


def eval_one(env, c, ct, fr, pc, rs, prec=None, tie=True, shape=None):
    keys, det = set(), {}
    p = vf.run_lines(env.exes['owner'], [api_line(c, ct, fr, pc, rs, prec)], timeout=60)
    r = parse_api(p.stdout.strip()) if p.returncode == 0 else None
    if r is None:
        keys.add(crash_key(env, api_line(c, ct, fr, pc, rs, prec))); det['crash'] = 'rc=%s %s %s' % (p.returncode, p.stdout[:200], p.stderr[-300:])
        return keys, det
    if not r['ok']:
        keys.add('execute-returned-false')
    o = vf.run_lines(env.oracle, [check_line(rs, r)], timeout=300).stdout.strip()
    codes = parse_codes(o)
    if codes is None:
        raise vf.Infra('oracle CHECK failed: ' + o[:300])
    for key, idx in refine_keys(env, c, ct, fr, pc, rs, prec, r, codes):
        keys.add(key); det.setdefault('nodes', {})[key] = idx
    det['tree'] = [(d, h, pth) for d, h, nc, pth in r['nodes']]
    det['closed'] = r['closed']
    if tie and prec is None:
        q = vf.run_lines(env.exes['owner'], [tree_line(c, ct, fr, pc, rs)], timeout=60)
        parts = split_tree_answer(q.stdout.strip()) if q.returncode == 0 else None
        if parts is None and not q.stdout.startswith('fail'):
            keys.add(crash_key(env, tree_line(c, ct, fr, pc, rs)))
        elif parts:
            # shapes of RecursiveCheckOwners the model is asked for: the one the whole run established, else all four
            shapes = [shape] if shape is not None else ([env.shape] if getattr(env, 'shape', None) is not None else list(range(NSHAPES)))
            ms = vf.run_lines(env.oracle, ['MTREE %d %s' % (v, parts[0]) for v in shapes], timeout=120).stdout.strip().split('\n')
            if parts[1] not in ms:
                keys.add('tie.tree'); det['model'] = ms[0]; det['cpp'] = parts[1]
            det['shapes_agreeing'] = [v for v, m in zip(shapes, ms) if m == parts[1]]
    return keys, det


def precondition(env, c, geom):
    ps = c['S'] + c['C']
    if not ps or any(len(p) < 3 for p in ps):
        return False
    if geom == 'rect':
        for p in ps:
            for a, b in polys.cyc_edges(p):
                if (a[0] != b[0]) == (a[1] != b[1]):
                    return False
        # features at least 2 apart: all distinct x (y) values differ by >= 2
        for ax in (0, 1):
            vs = sorted(set(v[ax] for p in ps for v in p))
            if any(b - a < 2 for a, b in zip(vs, vs[1:])):
                return False
        return True
    if geom == 'genpos':
        return vf.run_lines(env.region, ['GENPOS ' + vf.fmt_paths(ps)], timeout=120).stdout.strip() == '1'
    return True


def shrink(env, c, cfg, key, budget=150):
    ct, fr, pc, rs, prec = cfg
    geom = c.get('geom')
    cur = dict(S=[list(p) for p in c['S']], O=[list(p) for p in c.get('O', [])], C=[list(p) for p in c['C']], geom=geom)
    evals = [0]

    def holds(cand):
        if evals[0] >= budget:
            return False
        evals[0] += 1
        if not precondition(env, cand, geom):
            return False
        try:
            ks, _ = eval_one(env, cand, ct, fr, pc, rs, prec, tie=key.startswith('tie'))
        except vf.Infra:
            return False
        return key in ks
    changed = True
    while changed and evals[0] < budget:
        changed = False
        for which in ('O', 'C', 'S'):
            i = 0
            while i < len(cur[which]):
                cand = dict(cur); cand[which] = cur[which][:i] + cur[which][i + 1:]
                if holds(cand):
                    cur = cand; changed = True
                else:
                    i += 1
        for which in ('C', 'S'):
            for i in range(len(cur[which])):
                j = 0
                while j < len(cur[which][i]) and len(cur[which][i]) > 3:
                    p = cur[which][i]
                    # rectilinear paths: drop two consecutive vertices to stay axis-parallel
                    step = 2 if geom == 'rect' else 1
                    q = p[:j] + p[j + step:]
                    cand = dict(cur); cand[which] = cur[which][:i] + [q] + cur[which][i + 1:]
                    if len(q) >= 3 and holds(cand):
                        cur = cand; changed = True
                    else:
                        j += 1
    return dict(S=cur['S'], O=cur['O'], C=cur['C'], geom=geom)


def phase_api(ctx, env, cases, label, precs=(None,), combos=None):
    if env.dead:                    # the code under test hangs or crashes (already reported with a failing input)
        ctx.count('phases_skipped_after_hang_or_crash')
        return
    rng = ctx.rng.fork(31 + len(label))
    jobs, lines = [], []
    for ci, c in enumerate(cases):
        cl = [c['only']] if c.get('only') else [(ct, fr) for ct in CT for fr in FR]
        if combos and len(cl) > combos:
            rng.shuffle(cl); cl = cl[:combos]
        for ct, fr in cl:
            pc, rs = rng.below(2), rng.below(2)
            for prec in precs:
                if prec is not None and polys.maxabs([c['S'], c.get('O', []), c['C']]) * 10 ** prec > MAX_COORD:
                    # outside ClipperD's documented domain (it answers with the range error, by design): not a C04 case
                    ctx.count('polytreeD_skipped_out_of_range')
                    continue
                jobs.append((ci, ct, fr, pc, rs, prec)); lines.append(api_line(c, ct, fr, pc, rs, prec))
    outs = robust_lines(ctx, env, lines, 'PolyTree execution')
    if outs is None:
        return
    chk, cidx = [], []
    parsed = {}
    for k, (j, line) in enumerate(zip(jobs, outs)):
        if line is None:
            continue
        r = parse_api(line)
        ctx.count('evaluations')
        if r is None:
            viol(ctx, 'crash.polytree', 'unparsable answer: %s' % line[:200], replay=dict(kind='line', line=lines[k]))
            continue
        parsed[k] = r
        if not r['ok']:
            viol(ctx, 'execute-returned-false', 'Execute returned false', replay=dict(kind='line', line=lines[k]))
        chk.append(check_line(j[4], r)); cidx.append(k)
    res, f2 = vf.par_lines(env.oracle, chk, timeout=1500)
    if f2:
        raise vf.Infra('oracle CHECK failed: %s' % f2[0][2][:300])
    found = {}
    nontrivial = set()
    for k, y in zip(cidx, res):
        codes = parse_codes(y)
        if codes is None:
            raise vf.Infra('oracle CHECK failed: ' + y[:300])
        r = parsed[k]
        ci, ct, fr, pc, rs, prec = jobs[k]
        depth = max([d for d, h, nc, p in r['nodes']] + [-1]) + 1
        ctx.hist('tree_depth' + ('' if prec is None else '_D'), depth)
        ctx.hist('tree_nodes', min(len(r['nodes']), 40) // 4 * 4)
        if depth >= 2:
            nontrivial.add((label, ci, ct, fr))
        if codes:
            for key, idx in refine_keys(env, cases[ci], ct, fr, pc, rs, prec, r, codes):
                found.setdefault(key, (k, idx))
                ctx.hist('failing_evaluations_by_key', key)
    ctx.cov['distinct_nontrivial'] = ctx.cov.get('distinct_nontrivial', 0) + len(nontrivial)
    for c in cases:
        ctx.hist('kind', c['kind'][:28])
    for key, (k, idx) in found.items():
        ci, ct, fr, pc, rs, prec = jobs[k]
        c = cases[ci]
        try:
            small = shrink(env, c, (ct, fr, pc, rs, prec), key)
        except Exception:
            small = dict(S=c['S'], O=c.get('O', []), C=c['C'], geom=c.get('geom'))
        ctx.violation(key, '%s/%s pc=%d rs=%d %s %s: %s at tree node %d' % (CT[ct], FR[fr], pc, rs, 'PolyTree64' if prec is None else 'PolyTreeD(prec %d)' % prec,
                                                                            c['kind'], key, idx),
                      replay=dict(kind='case', case=small, original=dict(S=c['S'], O=c.get('O', []), C=c['C']), ct=ct, fr=fr, pc=pc, rs=rs, prec=prec, key=key))


def phase_tie_tree(ctx, env, cases, label, combos=None):
    if env.dead:
        ctx.count('phases_skipped_after_hang_or_crash')
        return
    rng = ctx.rng.fork(41 + len(label))
    jobs, lines = [], []
    for ci, c in enumerate(cases):
        cl = [c['only']] if c.get('only') else [(ct, fr) for ct in CT for fr in FR]
        if combos and len(cl) > combos:
            rng.shuffle(cl); cl = cl[:combos]
        for ct, fr in cl:
            pc, rs = rng.below(2), rng.below(2)
            jobs.append((ci, ct, fr, pc, rs)); lines.append(tree_line(c, ct, fr, pc, rs))
    outs = robust_lines(ctx, env, lines, 'BuildTree64')
    if outs is None:
        return
    ml, midx = [], []
    for k, line in enumerate(outs):
        if line is None:
            continue
        parts = split_tree_answer(line)
        if parts is None:
            continue
        toks = parts[0].split()
        n = int(toks[1])
        # skip states with a point-carrying OutRec whose bounds are empty (CheckBounds would clean again: outside the model)
        pos, degenerate, nsplit = 2, False, 0
        for _ in range(n):
            hp, be, ns = int(toks[pos + 1]), int(toks[pos + 3]), int(toks[pos + 4])
            degenerate |= (hp == 1 and be == 1 and int(toks[pos + 2]) == 0)
            nsplit += ns
            pos += 5 + ns
        if degenerate:
            ctx.count('tie_tree_skipped_degenerate_bounds')
            continue
        # hypothesis of C04_check_split_terminates on the states the sweep really produces: no chain of point-less OutRecs
        # through split lists returns to itself (where it does, the snapshot shape of CheckSplitOwner can recurse without bound;
        # inputs on which it actually does are reported as crash.pointless-split-cycle)
        st = parse_tree_answer(line)
        if st is not None:
            ctx.count('states_checked_for_pointless_split_cycles')
            if _pointless_cycle(st):
                ctx.count('states_with_a_pointless_split_cycle')
        ctx.hist('state_outrecs', min(n, 40) // 4 * 4)
        ctx.count('states_with_splits', 1 if nsplit else 0)
        ml.append(parts[0]); midx.append((k, parts[1]))
    res = []
    for v in range(NSHAPES):
        rv, f2 = vf.par_lines(env.oracle, ['MTREE %d %s' % (v, st) for st in ml], timeout=900)
        if f2:
            raise vf.Infra('oracle MTREE failed: %s' % f2[0][2][:300])
        res.append(rv)
    for i, (k, cpp) in enumerate(midx):
        ctx.count('tie_tree_runs')
        ans = [res[v][i] for v in range(NSHAPES)]
        if len(set(ans)) > 1:
            ctx.count('tie_tree_runs_that_tell_the_shapes_apart')
        for v in range(NSHAPES):
            if ans[v] != cpp:
                env.tie_miss[v].append((label, cases[jobs[k][0]], jobs[k], cpp, ans[v]))


def shape_name(v):
    parts = [n for bit, n in ((1, 'own splits first'), (2, 'owner chain marked'), (4, 'point-less descent guarded')) if v & bit]
    return 'snapshot' if not parts else ' + '.join(parts) + (' (= triage/C04-owner-search.patch)' if v == 7 else '')


NSHAPES = 8
SHAPES = {v: shape_name(v) for v in range(NSHAPES)}


def decide_tie(ctx, env):
    """The real BuildTree64 must agree, on EVERY dumped state, with one and the same shape of the model (all theorems are
    proved for every shape); otherwise the ownership model no longer describes the code."""
    if not ctx.cov.get('tie_tree_runs'):
        return
    agreeing = [v for v in range(NSHAPES) if not env.tie_miss[v]]
    ctx.cov['tie_tree_disagreements_by_model_shape'] = {SHAPES[v]: len(env.tie_miss[v]) for v in range(NSHAPES)}
    if agreeing:
        env.shape = agreeing[0]
        env.agreeing = agreeing
        ctx.cov['model_shape_matched'] = [SHAPES[v] for v in agreeing]
        return
    v = min(range(NSHAPES), key=lambda w: len(env.tie_miss[w]))
    env.shape = v
    label, c, (ci, ct, fr, pc, rs), cpp, m = env.tie_miss[v][0]
    try:
        small = shrink(env, c, (ct, fr, pc, rs, None), 'tie.tree', budget=80)
    except Exception:
        small = dict(S=c['S'], O=c.get('O', []), C=c['C'], geom=c.get('geom'))
    ctx.violation('tie.tree', '%s/%s %s: the real BuildTree64 and the ownership model (closest shape: %s, %d of %d states differ) build different '
                  'trees from the same state: C++ %s / model %s' % (CT[ct], FR[fr], c['kind'], SHAPES[v], len(env.tie_miss[v]),
                                                                    ctx.cov.get('tie_tree_runs', 0), cpp[:120], m[:120]),
                  replay=dict(kind='case', case=small, ct=ct, fr=fr, pc=pc, rs=rs, prec=None, key='tie.tree', shape=v), nofail=True)


def filter_genpos(ctx, env, cases):
    gp, f = vf.par_lines(env.region, ['GENPOS ' + vf.fmt_paths(c['S'] + c['C']) for c in cases], timeout=900)
    if f:
        raise vf.Infra('oracle GENPOS failed')
    kept = [c for c, g in zip(cases, gp) if g.strip() == '1']
    ctx.cov['genpos_rejected_by_coq_predicate'] = ctx.cov.get('genpos_rejected_by_coq_predicate', 0) + len(cases) - len(kept)
    return kept


def level_hole(ctx, env):
    """IsHole vs the model formula on the depths the runs produce is part of tree_check (code 34); here the formula itself"""
    out = vf.run_lines(env.oracle, ['LEVEL %d' % n for n in range(12)]).stdout.split()
    if out != ['1' if (n and n % 2 == 0) else '0' for n in range(12)]:
        raise vf.Infra('is_hole_of_level extraction broken')


def run(ctx):
    pr = vf.coq_props(ctx, 'C04')
    env = setup(ctx)
    broken = (not pr['ok']) or 'owner' not in env.exes
    if 'owner' not in env.exes:
        return
    mul = (1 if ctx.quick else 10) * (3 if broken else 1)
    level_hole(ctx, env)
    phase_ops(ctx, env, 40000 * mul)
    rng = ctx.rng.fork(2)
    fixed = load_corpus() + upstream_cases()
    ctx.cov['corpus_and_upstream_cases'] = len(fixed)
    # the API clauses are only claimed for rectilinear (>= 2 apart) or general-position inputs; other stored inputs serve the tie only
    for c in fixed:
        if c.get('geom') is None and not c.get('O'):
            if precondition(env, c, 'rect'):
                c['geom'] = 'rect'
            elif sum(len(p) for p in c['S'] + c['C']) <= 120 and precondition(env, c, 'genpos'):
                c['geom'] = 'genpos'
    fixed_api = [c for c in fixed if c.get('geom')]
    ctx.cov['corpus_and_upstream_cases_in_scope_of_api_clauses'] = len(fixed_api)
    rect = [rect_case(rng) for _ in range(1200 * mul)]
    rect = [c for c in rect if precondition(env, c, 'rect')]
    gp = filter_genpos(ctx, env, [genpos_case(rng) for _ in range(400 * mul)])
    rng3 = ctx.rng.fork(3)
    lat = [lattice_case(rng3) for _ in range(2500 * mul)] if nesting is not None else []
    lat = [c for c in lat if precondition(env, c, 'rect')]
    rng4 = ctx.rng.fork(4)
    sm = [sm_case(rng4) for _ in range(350 * mul)] if splitmerge is not None else []
    sm = [c for c in sm if precondition(env, c, 'rect')]
    phase_tie_tree(ctx, env, fixed, 'fixed')
    phase_tie_tree(ctx, env, rect, 'rect', combos=8)
    phase_tie_tree(ctx, env, lat, 'lattice', combos=3)
    phase_tie_tree(ctx, env, gp, 'genpos', combos=6)
    phase_tie_tree(ctx, env, sm, 'splitmerge', combos=4)
    decide_tie(ctx, env)
    witness2(ctx, env)
    phase_api(ctx, env, fixed_api, 'fixed', precs=(None, 2))
    phase_api(ctx, env, rect, 'rect', precs=(None, 0, 1, 2), combos=8)
    phase_api(ctx, env, lat, 'lattice', precs=(None,), combos=8)
    phase_api(ctx, env, gp, 'genpos', precs=(None, 2), combos=8)
    phase_api(ctx, env, sm, 'splitmerge', precs=(None,), combos=8)
    phase_ext(ctx, env, [('fixed', fixed_api, 1, (None, None, 2)), ('rect', rect, 1, (None, None, 0, 1, 2)), ('lattice', lat[:len(lat) // 3], 1, (None,)),
                         ('genpos', gp, 3, (None, None, 2)), ('splitmerge', sm, 1, (None, None, 1))])
    for c in rect[:2] + gp[:1] + lat[:1]:
        ctx.sample(dict(S=c['S'], C=c['C'], kind=c['kind']))
    ctx.cov['rule'] = ('(1) owner-edit sequences: all SetOwner/pts=null sequences of length <= 4 over 3 OutRecs + random sequences of 11 kinds of '
                       'edits over <= 9 OutRecs, executed by the real functions and by the model, state compared after every edit; '
                       '(2) whole runs: ownership state + Path1InsidePath2/bounds tables dumped after ExecuteInternal, real BuildTree64 vs the '
                       'four shapes of the model (parent of every node, preorder): one shape must agree on every state; '
                       '(3) API: PolyTree64 and PolyTreeD(precision 0..2, inputs inside ClipperD\'s range) vs Paths execution through the extracted '
                       'exact checker tree_check on rectilinear inputs whose distinct coordinates are >= 2 apart (nested frames to depth 8, touching '
                       'holes, U/comb shapes closed by bars = horizontal joins, staircases, issue families, overlapping rectangles on a small '
                       'lattice, the pinned inputs of corpus/C04), nested general-position stars (extracted Coq predicate) and the upstream '
                       'PolytreeHoleOwner inputs; clip type x fill rule sampled per case, random PreserveCollinear/ReverseSolution; '
                       'non-trivial = distinct (case, clip type, fill rule) whose tree has depth >= 2; '
                       '(4) storeys of combs closed by bars with chambers and islands (gen/splitmerge.py: horizontal joins that MERGE two OutRecs '
                       'which both own split lists, MoveSplits appending to a non-empty list) through (2) and (3); '
                       '(5) the entry points of clipper.h around a PolyTree (PolyTreeToPaths64/D, CheckPolytreeFullyContainsChildren, operator<<, '
                       'free BooleanOp overloads) on a sample of the cases of (3) and on hand-built trees: equal to the harness traversal of the tree, '
                       'to the extracted model TreeCheck.fully_contains, to the text derived from the traversal, to Execute on a fresh object, and '
                       'PolyTreeD times the scale equal to the PolyTree64 of the scaled input')
    ctx.cov['nesting_classifier_rules'] = dict(CLASSIFIER_RULES, note='X = the OutRec of the node tree_check flags (clause 33/34; for 34 also the nearest '
                                               'flagged-or-not ancestor), P = its parent in the tree, T = the innermost ring that contains it; the number '
                                               'of failing evaluations per key of this run is in failing_evaluations_by_key')
    ctx.assumptions += ['SetOwner is never called with outrec == new_owner and owners that are assigned exist (hypothesis run_ok of C04_owner_forest; '
                        'holds at every call site by inspection, and the self-owning result is exhibited by C04_owner_forest_refuted_without_wf)',
                        'CheckBounds is modelled on a state where it has been evaluated for every OutRec (the harness forces this before dumping)',
                        'Path1InsidePath2 / bounds.Contains enter the model as tables read from the implementation; their agreement with true '
                        'containment is validated by tree_check, not proved',
                        'general position as decided by base/GenPos.v; rectilinear inputs: all distinct x (y) values >= 2 apart, coincident and '
                        'touching features allowed (the property names touching holes and horizontal joins)',
                        'the mechanism named in a tree.nesting.* key is computed by checks/C04.py from the dumped ownership state (naming only: '
                        'whether the property fails is decided by the extracted checker)']
    if broken and not [v for v in ctx.violations if not v['nofail']]:
        if not pr['ok']:
            ctx.violation('proof-break:Properties_C04', 'Properties_C04 no longer checks: %s' % '; '.join(pr['failed'])[:800],
                          replay=dict(failed=pr['failed'], log=pr['log'][-2000:]), nofail=True)


def replay(ctx, path):
    r = json.load(open(path))['replay']
    getattr(vf, 'alt_sync', lambda: None)()
    env = setup(ctx)
    ctx.count('evaluations'); ctx.cov['distinct_nontrivial'] = 1
    if r.get('kind') in ('ops', 'line'):
        line = r['line'] if isinstance(r['line'], str) else r['line'][0]
        p = vf.run_lines(env.exes['owner'], [line], timeout=30)
        print('C++  :', p.stdout.strip()[:2000], p.stderr[-300:])
        if p.returncode != 0:
            ctx.violation('owner.ops-hang-or-crash' if r['kind'] == 'ops' else crash_key(env, line), 'replayed: rc=%s' % p.returncode, replay=r)
        elif r['kind'] == 'ops':
            m = vf.run_lines(env.oracle, [line]).stdout.strip()
            print('model:', m[:2000])
            if m != p.stdout.strip():
                ctx.violation('tie.owner-ops', 'replayed: real functions and model disagree', replay=r, nofail=True)
        return
    if r.get('kind') == 'ext':
        p = vf.run_lines(env.exes['owner'], [r['line']], timeout=60)
        print('C++  :', p.stdout.strip()[:3000], p.stderr[-300:])
        if p.returncode != 0:
            ctx.violation(crash_key(env, r['line']), 'replayed: rc=%s' % p.returncode, replay=r)
            return
        for key, what in judge_ext(env, r['line'], p.stdout.rstrip('\n'), geom=r.get('geom'), maxabs=r.get('maxabs', 0)):
            print(key, ':', what)
            ctx.violation(key, 'replayed: %s' % what, replay=r)
        return
    c = r['case']
    for w in ('S', 'O', 'C'):
        c[w] = [[tuple(v) for v in p] for p in c.get(w, [])]
    keys, det = eval_one(env, c, r['ct'], r['fr'], r['pc'], r['rs'], r.get('prec'), shape=r.get('shape'))
    for d, h, pth in det.get('tree', []):
        print('  ' * d + ('hole ' if h else 'outer ') + str(pth))
    print('paths run:', det.get('closed'))
    print('violated clauses:', sorted(keys), det.get('nodes'), det.get('model'), det.get('cpp'))
    for k in keys:
        ctx.violation(k, 'replayed: %s' % k, replay=r, nofail=k.startswith('tie'))
