"""C03 -- closed solution paths are well formed (DESIGN 6 C03)."""
import json, os, sys, glob, shutil
import vf
sys.path.insert(0, os.path.join(vf.VERIF, 'gen'))
import polys
try:
    import nesting
except Exception:       # generator module missing: the rectilinear stream falls back to plain rectangles
    nesting = None

META = dict(
    text=("Coq model of ring finalisation (CleanCollinear, FixSelfIntersects incl. the micro self-intersection branch, "
          "DoSplitOp, BuildPath64, BuildPaths64) with the double-precision leaves as Section variables; theorems over ALL "
          "rings: every emitted closed path has >= 3 vertices and no cyclically consecutive duplicates provided SegmentsIntersect "
          "is false for segments sharing an end point (C03_structural, C03_structural_all_rings; refuted without that hypothesis "
          "by a witness ring, C03_structural_without_leaf_hypothesis_refuted), CleanCollinear's loop terminates within a quadratic "
          "fuel bound (C03_clean_collinear_terminates_partial); soundness of the extracted structural checker. "
          "Leaf theorems over the definitions REGENERATED from the C++ on every run: TopX, GetClosestPointOnSegment and the default "
          "GetSegmentIntersectPt return points in the bounding box of their edge for |coordinates| <= 2^52; TopX and "
          "GetClosestPointOnSegment are within 1/2 + 2^-25 per axis of the exact abscissa / projection for |coordinates| <= 2^25; "
          "a model of AddNewIntersectNode's out-of-scanbeam repair over those leaves (exact tie with the real member function) "
          "with the theorem that the repaired point is that close to one of the two edges in all six branches. "
          "The model (with bit-exact binary64 leaves) is tied to the code by exact comparison of BuildPaths64 with the "
          "extracted model on the raw OutRec rings of real runs and on random synthetic rings.  Every clause of the property "
          "is validated by extracted exact checkers on a degenerate/huge-coordinate stream (structural, bbox) and on "
          "general-position and rectilinear inputs (geometric clause, Union idempotence under EvenOdd, NonZero and the "
          "orientation-matching Positive/Negative rule) under all clip types, fill rules, PreserveCollinear and ReverseSolution."),
    note=("Trusted: Coq kernel, extraction, OCaml driver, C++ harness with private access, generators.  Proved for the ring "
          "finalisation model only (structural clause, all rings, all float behaviours satisfying the stated leaf hypothesis; "
          "termination of FixSelfIntersects is not proved); "
          "the bounding-box and geometric clauses are proved at leaf level only (that every solution vertex is an input vertex or a "
          "leaf result is validated by exact checkers on generated inputs, not proved); the leaf "
          "hypothesis on the binary64 SegmentsIntersect is validated on generated shared-end-point configurations.  Known "
          "findings (geometric clause): vertices off by rounding beyond 2^53, Union of a solution relinking paths at touching "
          "vertices, adjacent regions along coincident edges not merged."),
    technique='Coq proof (ring invariant, all rings and float behaviours) + exact model/implementation correspondence + extracted exact checkers',
    category='proof',
)

CT = {1: 'Intersection', 2: 'Union', 3: 'Difference', 4: 'Xor'}
FR = {0: 'EvenOdd', 1: 'NonZero', 2: 'Positive', 3: 'Negative'}
KEYS = {11: 'structural.short-path', 12: 'structural.consecutive-duplicate', 13: 'structural.closing-duplicate',
        21: 'bbox', 1: 'geom.zero-area', 2: 'geom.spike', 3: 'geom.self-cross', 4: 'geom.orientation',
        5: 'geom.collinear', 6: 'geom.vertex-far'}
BBOX_LIMIT = 2 ** 52
TIE_LIMIT = 2 ** 61        # beyond this int64 differences may wrap in the C++ (UB); the model computes in Z


# ----------------------------------------------------------------------------- generators
def nasty_paths(rng, box, base, maxpaths=3):
    ps = []
    for _ in range(rng.range(0, maxpaths)):
        n = rng.choice([0, 1, 2, 3, 3, 4, 4, 5, 6, 8, 11])
        style = rng.below(4)
        p = []
        for i in range(n):
            if style == 0 or not p:
                v = (rng.range(-box, box), rng.range(-box, box))
            elif style == 1:      # axis-parallel walk
                v = (p[-1][0] + rng.range(-box, box), p[-1][1]) if i % 2 else (p[-1][0], p[-1][1] + rng.range(-box, box))
            elif style == 2:      # tiny steps: many coincidences
                v = (p[-1][0] + rng.range(-2, 2), p[-1][1] + rng.range(-2, 2))
            else:                 # long thin
                v = (rng.range(-box, box), rng.range(-2, 2))
            p.append(v)
        # degenerate decorations
        for _ in range(rng.below(3)):
            if not p:
                break
            k = rng.below(len(p))
            what = rng.below(4)
            if what == 0:
                p.insert(k, p[k])                                    # duplicate point
            elif what == 1:
                q = (rng.range(-box, box), rng.range(-box, box))
                p[k + 1:k + 1] = [q, p[k]]                           # spike out and back
            elif what == 2 and len(p) >= 2:
                a, b = p[k], p[(k + 1) % len(p)]
                p.insert(k + 1, ((a[0] + b[0]) // 2, (a[1] + b[1]) // 2))   # (near-)collinear midpoint
            else:
                p.insert(k, (p[k][0] + rng.range(-1, 1), p[k][1] + rng.range(-1, 1)))   # near duplicate
        ps.append([(x + base[0], y + base[1]) for x, y in p])
    # coincident copies
    if ps and rng.chance(1, 3):
        q = list(rng.choice(ps))
        w = rng.below(3)
        if w == 0:
            q.reverse()
        elif w == 1:
            d = (rng.range(-1, 1), rng.range(-1, 1))
            q = [(x + d[0], y + d[1]) for x, y in q]
        ps.append(q)
    return ps


def clampc(ps, lim):
    return [[(max(-lim, min(lim, x)), max(-lim, min(lim, y))) for x, y in p] for p in ps]


def nasty_case(rng):
    mode = rng.below(10)
    lim = 2 ** 62 - 1
    if mode < 5:
        box, base = rng.choice([1, 2, 3, 5, 10, 100]), (0, 0)
    elif mode < 7:
        box, base = rng.choice([2 ** 20, 2 ** 31, 2 ** 40, 2 ** 52]), (0, 0)
    elif mode < 9:      # huge offset, small features
        m = rng.choice([2 ** 40, 2 ** 52, 2 ** 60, 2 ** 61 - 200, 2 ** 62 - 200])
        box, base = rng.choice([2, 5, 50]), (rng.choice([-1, 1]) * m, rng.choice([-1, 0, 1]) * m)
    else:               # huge everything
        box, base = rng.choice([2 ** 60, 2 ** 61 - 1, 2 ** 62 - 1]), (0, 0)
    S = clampc(nasty_paths(rng, box, base), lim)
    C = clampc(nasty_paths(rng, box, base), lim) if not rng.chance(1, 5) else []
    O = clampc(nasty_paths(rng, box, base, 2), lim) if rng.chance(1, 4) else []
    if rng.chance(1, 6) and S:       # clip coincides with a subject
        C = C + [list(rng.choice(S))]
    return dict(S=S, O=O, C=C, kind='nasty', regime='box%d' % box.bit_length() if base == (0, 0) else 'off%d' % max(abs(base[0]), abs(base[1])).bit_length())


def fallback_rectilinear(rng):
    k = rng.choice([1, 2, 3, 10])
    def r():
        x0, y0 = rng.range(0, 8), rng.range(0, 8)
        p = polys.rect(x0 * k, y0 * k, (x0 + rng.range(1, 5)) * k, (y0 + rng.range(1, 5)) * k)
        if rng.chance(1, 3):
            p.reverse()
        return p
    return [r() for _ in range(rng.range(1, 4))], [r() for _ in range(rng.range(0, 3))], 'rects-fallback'


def rectilinear_case(rng):
    if nesting is not None and hasattr(nesting, 'gen_rectilinear_case') and not rng.chance(1, 8):
        S, C, kind = nesting.gen_rectilinear_case(rng)
    else:
        S, C, kind = fallback_rectilinear(rng)
    if rng.chance(1, 4):         # any lattice: translate far away (exact)
        off = rng.choice([10 ** 6, 2 ** 40, 2 ** 51, 2 ** 60])
        dx, dy = rng.choice([-1, 0, 1]) * off, rng.choice([-1, 1]) * off
        S, C = polys.scale_translate(S, 1, dx, dy), polys.scale_translate(C, 1, dx, dy)
        regime = 'rect+2^%d' % (off.bit_length() - 1)
    else:
        regime = 'rect'
    return dict(S=S, O=[], C=C, kind='rect:' + kind, regime=regime, geom='rect')


def genpos_case(rng, i):
    S, C, kinds = polys.gen_genpos_case(rng)
    reg = polys.REGIMES[i % len(polys.REGIMES)] if not rng.chance(1, 3) else polys.REGIMES[0]
    S2, C2, tf = polys.apply_regime(rng, S, C, reg)
    name = reg[0]
    if reg[1] >= 8 and rng.chance(1, 2):
        # full-precision coordinates: jitter every vertex by up to k/4 (general position is re-decided by the Coq predicate)
        j = reg[1] // 4
        S2 = [[(x + rng.range(-j, j), y + rng.range(-j, j)) for x, y in p] for p in S2]
        C2 = [[(x + rng.range(-j, j), y + rng.range(-j, j)) for x, y in p] for p in C2]
        name += '~'
    return dict(S=S2, O=[], C=C2, kind='genpos:%s/%s' % kinds, regime=name, geom='genpos')


def flat_case(rng, i):
    """nearly horizontal edges crossed a fraction of a unit from a scanline carrying another vertex (the out-of-scanbeam
    repair of AddNewIntersectNode: TopX / GetClosestPointOnSegment branches); general position is decided by the Coq predicate"""
    S, C, kinds = polys.gen_flat_precise_case(rng) if i % 3 else polys.gen_flat_case(rng)
    return dict(S=S, O=[], C=C, kind='genpos:%s/%s' % kinds, regime='flat', geom='genpos')


def synthetic_ring(rng):
    n = rng.range(1, 14) if not rng.chance(1, 10) else rng.range(15, 60)
    box = rng.choice([2, 3, 5, 8, 20, 1000, 2 ** 40, 2 ** 60])
    p = [(rng.range(-box, box), rng.range(-box, box)) for _ in range(n)]
    if rng.chance(1, 3) and n >= 2:
        k = rng.below(n)
        p.insert(k, p[k])
    if rng.chance(1, 4) and n >= 2:
        k = rng.below(len(p))
        a, b = p[k], p[(k + 1) % len(p)]
        p.insert(k + 1, (2 * b[0] - a[0], 2 * b[1] - a[1]) if rng.chance(1, 2) else ((a[0] + b[0]) // 2, (a[1] + b[1]) // 2))
    return p


def split_edges(paths, verts):
    """multiset (dict) of the directed edges of `paths` after cutting every edge at every point of `verts` that lies
    strictly inside it (exact integer arithmetic)"""
    cnt = {}
    for p in paths:
        for a, b in polys.cyc_edges(p):
            if a == b:
                continue
            lox, hix = min(a[0], b[0]), max(a[0], b[0]); loy, hiy = min(a[1], b[1]), max(a[1], b[1])
            inner = [w for w in verts if lox <= w[0] <= hix and loy <= w[1] <= hiy and w != a and w != b and polys.cross(a, b, w) == 0]
            inner.sort(key=lambda w: (w[0] - a[0]) * (b[0] - a[0]) + (w[1] - a[1]) * (b[1] - a[1]))
            chain = [a] + inner + [b]
            for e in zip(chain, chain[1:]):
                cnt[e] = cnt.get(e, 0) + 1
    return cnt


def net_boundary(cnt):
    """cancel pieces traversed in both directions: what is left determines the winding number field"""
    out = {}
    for (a, b), n in cnt.items():
        k = n - cnt.get((b, a), 0)
        if k > 0:
            out[(a, b)] = k
    return out


UNION_TOUCHING = 'geom.union-not-idempotent.touching'
UNION_OVERLAP = 'geom.union-not-idempotent.overlapping-edges'
UNION_HUGE = 'geom.union-not-idempotent.beyond-2^53'
UNION_OTHER = 'geom.union-not-idempotent'


def union_key(c, sol, u):
    """Classifier of a Union-idempotence failure: `sol` is the solution, `u` what Union(sol) returned (a different path
    set).  Every outcome is a violation of the clause; the key names the failure mode so that only the modes that are
    listed as known findings can be matched by them:
      .touching           both path sets consist of exactly the same directed edge pieces; they are only linked into
                          paths differently at a point where more than one boundary strand passes (regions touching
                          in a vertex are split/merged by the second run)
      .overlapping-edges  the solution contains edge pieces traversed in both directions (two filled regions adjacent
                          along a common edge piece were not merged); after cancelling them the boundary equals the
                          boundary of Union(sol)
      .beyond-2^53        general-position input with |coordinate| > 2^53 (int64 -> double is lossy): the boundaries
                          differ, but every vertex of either path set is within max|coordinate| / 2^50 (4 ulp) of a
                          vertex of the other one
      (no suffix)         anything else: the second run changed the covered region"""
    if u is None:
        return 'crash.reunion'
    verts = set(v for p in sol + u for v in p)
    S, U = split_edges(sol, verts), split_edges(u, verts)
    if net_boundary(S) == net_boundary(U):
        if any((b, a) in S for (a, b) in S):
            return UNION_OVERLAP
        outdeg = {}
        for (a, b), n in S.items():
            outdeg[a] = outdeg.get(a, 0) + n
        if S == U and any(n > 1 for n in outdeg.values()):
            return UNION_TOUCHING
        return UNION_OTHER
    m = maxabs_case(c)
    if m > 2 ** 53 and c.get('geom') == 'genpos':
        tol = m >> 50
        vs, vu = set(v for p in sol for v in p), set(v for p in u for v in p)
        def close(v, ws):
            return any(abs(v[0] - w[0]) <= tol and abs(v[1] - w[1]) <= tol for w in ws)
        if all(close(v, vu) for v in vs) and all(close(w, vs) for w in vu):
            return UNION_HUGE
    return UNION_OTHER


SELF_CROSS = 'geom.self-cross'
SELF_CROSS_TOUCH = 'geom.self-cross.touching-vertex-removed'


def proper_crossings(sol):
    """[(path i, path j, edge, edge)] for every pair of solution edges that cross properly (exact)"""
    es = [(i, a, b) for i, p in enumerate(sol) for a, b in polys.cyc_edges(p)]
    out = []
    for x in range(len(es)):
        i, a, b = es[x]
        for y in range(x + 1, len(es)):
            j, c, d = es[y]
            if polys.sgn(polys.cross(a, b, c)) * polys.sgn(polys.cross(a, b, d)) < 0 and \
               polys.sgn(polys.cross(c, d, a)) * polys.sgn(polys.cross(c, d, b)) < 0:
                out.append((i, j, (a, b), (c, d)))
    return out


def crossing_point(e, f):
    """the crossing point of two properly crossing segments if it is a lattice point, else None"""
    (a, b), (c, d) = e, f
    dx1, dy1, dx2, dy2 = b[0] - a[0], b[1] - a[1], d[0] - c[0], d[1] - c[1]
    det = dx1 * dy2 - dy1 * dx2
    t = (c[0] - a[0]) * dy2 - (c[1] - a[1]) * dx2
    if det == 0 or (t * dx1) % det or (t * dy1) % det:
        return None
    return (a[0] + t * dx1 // det, a[1] + t * dy1 // det)


def self_cross_key(env, c, ct, fr, pc, rs, build, sol):
    """Classifier of a 'two solution edges properly cross' failure.  One known mode gets its own key: PreserveCollinear
    is off, every crossing is in a lattice point X, and the same operation with PreserveCollinear on returns paths
    without any proper crossing in which every such X is a vertex -- i.e. boundary strands only touched in X (e.g. an
    outer loop linked with a loop of opposite orientation in a common vertex) and CleanCollinear removed the collinear
    vertex X of one strand, which turns the touch into a crossing that FixSelfIntersects (edge pairs two apart of one
    ring only) does not see.  Everything else keeps the plain key."""
    if pc:
        return SELF_CROSS
    xs = proper_crossings(sol)
    pts = []
    for i, j, e, f in xs:
        X = crossing_point(e, f)
        if X is None:
            return SELF_CROSS
        pts.append(X)
    exe = env.exes.get('bool.' + build) or env.exes['bool.plain']
    q = vf.run_lines(exe, [bool_line(c, ct, fr, 1, rs)], timeout=60)
    r = parse_bool(q.stdout.strip()) if q.returncode == 0 else None
    if not xs or r is None or proper_crossings(r['closed']):
        return SELF_CROSS
    verts = set(v for p in r['closed'] for v in p)
    return SELF_CROSS_TOUCH if all(X in verts for X in pts) else SELF_CROSS


VERTEX_FAR = 'geom.vertex-far'
VERTEX_FAR_HUGE = 'geom.vertex-far.beyond-2^53'


def vertex_far_key(env, c, path):
    """Classifier of a 'vertex farther than 2 units from every input edge' failure on solution path `path`.
    |coordinate| <= 2^53: plain key.  Beyond 2^53 (where converting a coordinate to double is lossy and one ulp of a
    coordinate is >= 2 units) the failure is the known precision finding as long as every vertex of the path is within
    max|coordinate| / 2^50 (4 ulp of the largest coordinate) of an input edge -- decided exactly by the extracted
    distance predicate; a vertex farther off than rounding can explain gets its own key."""
    m = maxabs_case(c)
    if m <= 2 ** 53:
        return VERTEX_FAR
    o = vf.run_lines(env.region, ['NEAR %d %d 1 %s %d %s' % (m, 2 ** 50, vf.fmt_paths(c['S'] + c['C']), len(path), vf.fmt_path(path))],
                     timeout=120).stdout.split()
    if len(o) == len(path) and all(x == '1' for x in o):
        return VERTEX_FAR_HUGE
    return VERTEX_FAR_HUGE + '.gross'


# ----------------------------------------------------------------------------- protocol helpers
def maxabs_case(c):
    return polys.maxabs([c['S'], c.get('O', []), c['C']])


def reunion_fills(rs):
    """Fill rules under which Union of a well-formed solution must reproduce it: EvenOdd and NonZero always (outer paths
    and holes alternate in orientation, so |winding number| is 1 inside and 0 in holes whatever the sign), and the
    sign-specific rule that matches the orientation of the outer paths: Positive for a normal solution, Negative for a
    ReverseSolution one (the opposite rule would legitimately return nothing).  The second run uses the same
    PreserveCollinear and ReverseSolution settings as the first, so that collinear vertices and orientation are kept."""
    return (1, 0, 3 if rs else 2)


def reunion_line(fr2, pc, rs, sol):
    return 'BOOL 2 %d %d %d 0 %s 0 0' % (fr2, pc, rs, vf.fmt_paths(sol))


def rings_line(c, ct, fr, pc, rs):
    return 'RINGS %d %d %d %d %s %s %s' % (ct, fr, pc, rs, vf.fmt_paths(c['S']), vf.fmt_paths(c.get('O', [])), vf.fmt_paths(c['C']))


def bool_line(c, ct, fr, pc, rs):
    return 'BOOL %d %d %d %d 0 %s %s %s' % (ct, fr, pc, rs, vf.fmt_paths(c['S']), vf.fmt_paths(c.get('O', [])), vf.fmt_paths(c['C']))


def parse_rings(line):
    """-> dict(ok, rings=[(is_open, pts)], closed, open) or None"""
    t = line.split()
    if len(t) < 3 or t[0] not in ('ok', 'fail') or t[1] != 'R':
        return None
    n = int(t[2]); pos = 3
    rings = []
    for _ in range(n):
        isopen = int(t[pos + 1]); k = int(t[pos + 2]); pos += 3
        pts = [(int(t[pos + 2 * j]), int(t[pos + 2 * j + 1])) for j in range(k)]
        pos += 2 * k
        rings.append((isopen, pts))
    if t[pos] != 'P':
        return None
    closed, pos = vf.parse_paths(t, pos + 1)
    opn, pos = vf.parse_paths(t, pos)
    return dict(ok=t[0] == 'ok', rings=rings, closed=closed, open=opn)


def parse_bool(line):
    t = line.split()
    if not t or t[0] not in ('ok', 'fail'):
        return None
    closed, pos = vf.parse_paths(t, 1)
    opn, pos = vf.parse_paths(t, pos)
    return dict(ok=t[0] == 'ok', closed=closed, open=opn)


def build_line(pc, rs, rings):
    return 'BUILD %d %d %d %s' % (pc, rs, len(rings), ' '.join('%d %d %s' % (o, len(p), vf.fmt_path(p)) for o, p in rings))


def parse_build(line):
    """-> (status, closed, open, micro, splits)"""
    t = line.split()
    if not t or t[0] != 'OK':
        return (t[0] if t else 'ERR', None, None, 0, 0)
    closed, pos = vf.parse_paths(t, 1)
    opn, pos = vf.parse_paths(t, pos)
    micro, splits = (int(t[pos + 1]), int(t[pos + 2])) if pos < len(t) and t[pos] == 'ST' else (0, 0)
    return ('OK', closed, opn, micro, splits)


def all_line(pc, rs, geom, bbox, inputs, out):
    return 'ALL %d %d %d %d %s %s' % (pc, rs, geom, bbox, vf.fmt_paths(inputs), vf.fmt_paths(out))


def parse_codes(line):
    t = line.split()
    if not t or not t[0].isdigit():
        return None
    k = int(t[0])
    return [(int(t[1 + 2 * i]), int(t[2 + 2 * i])) for i in range(k)]


def isolate(exe, shard, per_line=10):
    """first line of a failed shard on which the binary crashes or hangs (> per_line seconds) when run alone; lines are
    tried one per process, 64 at a time, so a rare failure costs little and a frequent one is found in the first batch"""
    for i in range(0, len(shard), 64):
        outs, fails = vf.par_lines(exe, shard[i:i + 64], timeout=per_line, chunk=1)
        if fails:
            return fails[0][0][0], fails[0][1], fails[0][2]
    return None, None, ''


def need(out, fails, what):
    if fails:
        raise vf.Infra('%s failed: rc=%s %s' % (what, fails[0][1], (fails[0][2] or '')[:400]))
    return out


# ----------------------------------------------------------------------------- single-case evaluation (shrinking, replay)
class Env:
    def __init__(self, ctx):
        self.ctx = ctx
        self.exes = {}
        self.oracle = None
        self.region = None
        self.crashed = False


def eval_one(env, c, ct, fr, pc, rs, build='plain', geom=None, want_tie=True):
    """Run one configuration; returns (set of violation keys, details dict)."""
    keys, det = set(), {}
    if build == 'plain' and 'rings' in env.exes:
        p = vf.run_lines(env.exes['rings'], [rings_line(c, ct, fr, pc, rs)], timeout=60)
        r = parse_rings(p.stdout.strip()) if p.returncode == 0 else None
    else:
        p = vf.run_lines(env.exes['bool.' + build], [bool_line(c, ct, fr, pc, rs)], timeout=60)
        r = parse_bool(p.stdout.strip()) if p.returncode == 0 else None
    if r is None:
        keys.add('crash.execute')
        det['crash'] = 'rc=%s out=%s err=%s' % (p.returncode, p.stdout[:200], p.stderr[-300:])
        return keys, det
    det['closed'] = r['closed']
    if not r['ok']:
        keys.add('execute-returned-false')
    if want_tie and 'rings' in r and maxabs_case(c) <= TIE_LIMIT:
        o = vf.run_lines(env.oracle, [build_line(pc, rs, r['rings'])], timeout=120).stdout.strip()
        st, mc, mo, _, _ = parse_build(o)
        if st != 'OK' or mc != r['closed'] or mo != r['open']:
            keys.add('tie.ringfinal')
            det['model'] = o[:400]
            det['rings'] = r['rings']
    inputs = c['S'] + c['C']
    bbox = 1 if maxabs_case(c) <= BBOX_LIMIT and not c.get('O') else 0
    o = vf.run_lines(env.oracle, [all_line(pc, rs, 1 if geom else 0, bbox, inputs, r['closed'])], timeout=300).stdout.strip()
    codes = parse_codes(o)
    if codes is None:
        raise vf.Infra('oracle ALL failed: ' + o[:300])
    for code, idx in codes:
        key = (vertex_far_key(env, c, r['closed'][idx]) if code == 6 else
               self_cross_key(env, c, ct, fr, pc, rs, build, r['closed']) if code == 3 else KEYS[code])
        keys.add(key)
        det.setdefault('paths', {})[key] = idx
    if geom and r['closed']:
        for fr2 in reunion_fills(rs):
            exe = env.exes.get('bool.' + build) or env.exes['bool.plain']
            q = vf.run_lines(exe, [reunion_line(fr2, pc, rs, r['closed'])], timeout=60)
            u = parse_bool(q.stdout.strip()) if q.returncode == 0 else None
            if u is None or vf.canon_paths(u['closed']) != vf.canon_paths(r['closed']):
                k = union_key(c, r['closed'], u['closed'] if u else None)
                keys.add(k)
                det.setdefault('union', {})[k] = dict(fill=FR[fr2], result=u['closed'] if u else None)
    return keys, det


def precondition(env, c, geom):
    """the hypothesis of the geometric clause still holds for the (shrunk) case"""
    ps = c['S'] + c['C']
    if not ps or any(len(p) < 3 for p in ps):
        return False
    if geom == 'rect':
        for p in ps:
            for a, b in polys.cyc_edges(p):
                if (a[0] != b[0]) == (a[1] != b[1]):
                    return False
        return True
    o = vf.run_lines(env.region, ['GENPOS ' + vf.fmt_paths(ps)], timeout=120).stdout.strip()
    return o == '1'


def shrink(env, c, cfg, key, geom, budget=160):
    """greedy delta debugging: drop paths, drop vertices, move towards the origin / smaller lattice"""
    ct, fr, pc, rs, build = cfg
    cur = dict(S=[list(p) for p in c['S']], O=[list(p) for p in c.get('O', [])], C=[list(p) for p in c['C']])
    evals = [0]

    def holds(cand):
        if evals[0] >= budget:
            return False
        evals[0] += 1
        if geom and not precondition(env, cand, geom):
            return False
        try:
            ks, _ = eval_one(env, cand, ct, fr, pc, rs, build, geom, want_tie=key.startswith('tie'))
        except vf.Infra:
            return False
        return key in ks
    changed = True
    while changed and evals[0] < budget:
        changed = False
        for which in ('O', 'C', 'S'):
            i = 0
            while i < len(cur[which]):
                cand = dict(cur); cand[which] = cur[which][:i] + cur[which][i + 1:]
                if holds(cand):
                    cur = cand; changed = True
                else:
                    i += 1
        for which in ('O', 'C', 'S'):
            for i in range(len(cur[which])):
                j = 0
                while j < len(cur[which][i]) and len(cur[which][i]) > 1:
                    p = cur[which][i]
                    cand = dict(cur); cand[which] = cur[which][:i] + [p[:j] + p[j + 1:]] + cur[which][i + 1:]
                    if holds(cand):
                        cur = cand; changed = True
                    else:
                        j += 1
        # translate so that the minimum corner is near the origin, then halve
        allp = [v for w in ('S', 'O', 'C') for p in cur[w] for v in p]
        if allp:
            mx, my = min(v[0] for v in allp), min(v[1] for v in allp)
            if (mx, my) != (0, 0):
                cand = {w: [[(x - mx, y - my) for x, y in p] for p in cur[w]] for w in ('S', 'O', 'C')}
                if holds(cand):
                    cur = cand; changed = True
            if not geom:
                cand = {w: [[(x // 2, y // 2) for x, y in p] for p in cur[w]] for w in ('S', 'O', 'C')}
                if cand != cur and holds(cand):
                    cur = cand; changed = True
    return cur


# ----------------------------------------------------------------------------- batched phases
def phase_synthetic(ctx, env, n):
    """HM+X on synthetic rings: BuildPaths64 on hand-made OutRecs vs the extracted model."""
    rng = ctx.rng.fork(11)
    cl, ol, meta = [], [], []
    for _ in range(n):
        pc, rs = rng.below(2), rng.below(2)
        rings = [(1 if rng.chance(1, 10) else 0, synthetic_ring(rng)) for _ in range(rng.range(1, 2))]
        body = build_line(pc, rs, rings)
        cl.append('SYN' + body[5:]); ol.append(body); meta.append((pc, rs, rings))
    a, fa = vf.par_lines(env.exes['rings'], cl, timeout=300)
    if fa:
        l, rc, err = isolate(env.exes['rings'], fa[0][0])
        if l is None:
            raise vf.Infra('cx_rings SYN shard failed (rc=%s) but no single line fails alone: %s' % (fa[0][1], fa[0][2][-300:]))
        ctx.violation('crash.buildpaths', 'BuildPaths64 crashed or hung on a synthetic ring (rc=%s): %s' % (rc, err[-200:]),
                      replay=dict(kind='line', line=l))
        return
    b = need(*vf.par_lines(env.oracle, ol, timeout=600), 'oracle BUILD')
    micro = splits = 0
    first_bad = None
    for (pc, rs, rings), x, y in zip(meta, a, b):
        st, mc, mo, m, s = parse_build(y)
        ctx.count('synthetic_rings')
        micro += m; splits += s
        t = x.split()
        got = None
        if len(t) > 1 and t[0] == 'ok' and t[1] == 'P':
            gc, pos = vf.parse_paths(t, 2); go, pos = vf.parse_paths(t, pos); got = (gc, go)
        if st != 'OK' or got is None or got != (mc, mo):
            ctx.count('synthetic_tie_mismatches')
            if first_bad is None:       # one report; vf keeps at most 50 violations and later phases must still be heard
                first_bad = (pc, rs, rings, x, y)
        if got:
            for p in got[0]:
                ctx.hist('synthetic_out_len', min(len(p), 12))
    ctx.cov['synthetic_micro_branch_taken'] = micro
    ctx.cov['synthetic_DoSplitOp_taken'] = splits
    return first_bad


def leaf_hypothesis(ctx, env, n):
    """The structural theorem assumes SegmentsIntersect(a,b,c,d) = false when the segments share an end point.
    Validate that on the real function (and the model leaf) with shared end points in every position."""
    rng = ctx.rng.fork(12)
    lines = []
    for _ in range(n):
        box = rng.choice([3, 50, 2 ** 20, 2 ** 31, 2 ** 52, 2 ** 61])
        a, b, c = [(rng.range(-box, box), rng.range(-box, box)) for _ in range(3)]
        if rng.chance(1, 4):
            c = (a[0] + rng.range(-2, 2), a[1] + rng.range(-2, 2))
        quad = rng.choice([(a, b, a, c), (a, b, c, a), (a, b, b, c), (a, b, c, b), (a, a, b, c), (a, b, c, c)])
        lines.append('LEAF ' + ' '.join('%d %d' % v for v in quad) + ' 0 0')
    x = need(*vf.par_lines(env.exes['rings'], lines), 'cx_rings LEAF')
    y = need(*vf.par_lines(env.oracle, lines), 'oracle LEAF')
    seen = set()
    for l, p, q in zip(lines, x, y):
        ctx.count('leaf_shared_endpoint_cases')
        if p != q and 'tie' not in seen:
            seen.add('tie')
            ctx.violation('tie.leaf', 'binary64 leaf model differs from the C++: %s / %s' % (p, q), replay=dict(kind='leaf', line=l), nofail=True)
        t = l.split()[1:9]
        degenerate = t[0:2] == t[2:4] or t[4:6] == t[6:8]
        if p.split()[1] != '0' and not degenerate and 'si' not in seen:
            seen.add('si')
            ctx.violation('leaf.segments-intersect-shared-endpoint',
                          'SegmentsIntersect reports an intersection for segments sharing an end point (hypothesis of C03_structural): ' + l,
                          replay=dict(kind='leaf', line=l))


def phase_stream(ctx, env, cases, label, combos_per_case=None, builds=('plain',), all_flags=False):
    """cases: list of dicts(S,O,C,kind,regime[,geom]).  Runs every case under clip type x fill rule (all 16, or a random
    subset), random pc/rs; tie on the plain build; structural/bbox/(geometric) clauses through the extracted checker."""
    rng = ctx.rng.fork(13 + len(label))
    ctx.log('stream %s: %d cases' % (label, len(cases)))
    if env.crashed:      # a crash / hang with its input is already reported; every further stream would wait for the same timeout
        return
    jobs = []      # (case idx, ct, fr, pc, rs, build)
    for ci, c in enumerate(cases):
        combos = [(ct, fr) for ct in CT for fr in FR]
        if combos_per_case and combos_per_case < 16:
            rng.shuffle(combos); combos = combos[:combos_per_case]
        for ct, fr in combos:
            pc, rs = rng.below(2), rng.below(2)
            for pc, rs in ([(0, 0), (0, 1), (1, 0), (1, 1)] if all_flags else [(pc, rs)]):
                for b in builds:
                    jobs.append((ci, ct, fr, pc, rs, b))
    outs = {}
    for b in builds:
        idxs = [k for k, j in enumerate(jobs) if j[5] == b]
        use_rings = (b == 'plain' and 'rings' in env.exes)
        exe = env.exes['rings'] if use_rings else env.exes['bool.' + b]
        lines = [(rings_line if use_rings else bool_line)(cases[jobs[k][0]], *jobs[k][1:5]) for k in idxs]
        o, fails = vf.par_lines(exe, lines, timeout=120 if ctx.quick else 900)
        if fails:
            l, rc, err = isolate(exe, fails[0][0])
            if l is None:
                raise vf.Infra('harness shard failed (rc=%s, build %s) but no single line fails alone: %s' % (fails[0][1], b, fails[0][2][-300:]))
            ctx.violation('crash.execute', 'Execute crashed or hung for more than 10 s (rc=%s, build %s): %s ... %s' % (rc, b, l[:200], err[-300:]),
                          replay=dict(kind='line', build=b, line=l))
            env.crashed = True
            return
        for k, line in zip(idxs, o):
            outs[k] = (parse_rings if use_rings else parse_bool)(line)
    # tie + checker lines
    tie_lines, tie_idx, chk_lines, chk_idx = [], [], [], []
    for k, j in enumerate(jobs):
        ci, ct, fr, pc, rs, b = j
        c, r = cases[ci], outs.get(k)
        if r is None:
            ctx.violation('crash.execute', 'unparsable harness output (build %s)' % b, replay=dict(kind='case', case=c, ct=ct, fr=fr, pc=pc, rs=rs, build=b))
            continue
        ctx.count('evaluations')
        if not r['ok']:
            ctx.violation('execute-returned-false', 'Execute returned false (%s %s)' % (CT[ct], FR[fr]),
                          replay=dict(kind='case', case=c, ct=ct, fr=fr, pc=pc, rs=rs, build=b))
        if 'rings' in r and maxabs_case(c) <= TIE_LIMIT:
            tie_lines.append(build_line(pc, rs, r['rings'])); tie_idx.append(k)
            for o_, pts in r['rings']:
                if pts:
                    ctx.hist('raw_ring_nodes', min(64, len(pts)) // 4 * 4)
        bbox = 1 if maxabs_case(c) <= BBOX_LIMIT and not c.get('O') else 0
        chk_lines.append(all_line(pc, rs, 1 if c.get('geom') else 0, bbox, c['S'] + c['C'], r['closed'])); chk_idx.append(k)
    tie_out = need(*vf.par_lines(env.oracle, tie_lines, timeout=900), 'oracle BUILD')
    chk_out = need(*vf.par_lines(env.oracle, chk_lines, timeout=1500), 'oracle ALL')
    found = {}     # key -> (k, detail) first occurrence
    for k, y in zip(tie_idx, tie_out):
        st, mc, mo, m, s = parse_build(y)
        r = outs[k]
        ctx.count('tie_runs')
        ctx.count('run_micro_branch_taken', m); ctx.count('run_DoSplitOp_taken', s)
        if st != 'OK' or mc != r['closed'] or mo != r['open']:
            found.setdefault('tie.ringfinal', (k, 'BuildPaths64 and the extracted model disagree on the raw rings of a run: model says %s' % y[:200]))
    nontrivial = set()
    for k, y in zip(chk_idx, chk_out):
        codes = parse_codes(y)
        if codes is None:
            raise vf.Infra('oracle ALL failed: ' + y[:300])
        ci, ct, fr, pc, rs, b = jobs[k]
        if outs[k]['closed']:
            nontrivial.add((ci, ct, fr))
            ctx.hist('solution_paths', min(len(outs[k]['closed']), 8))
        for code, idx in codes:
            key = (vertex_far_key(env, cases[ci], outs[k]['closed'][idx]) if code == 6 else
                   self_cross_key(env, cases[ci], ct, fr, pc, rs, b, outs[k]['closed']) if code == 3 else KEYS[code])
            ctx.hist('failing_evaluations_by_key', key)
            found.setdefault(key, (k, '%s: solution path %d = %s' % (key, idx, outs[k]['closed'][idx][:12])))
    # Union idempotence on the geometric cases (second run with the same build and the same pc/rs settings)
    for b in builds:
        ul, uidx = [], []
        for k, j in enumerate(jobs):
            ci, ct, fr, pc, rs, jb = j
            if jb == b and cases[ci].get('geom') and outs.get(k) and outs[k]['closed']:
                for fr2 in reunion_fills(rs):
                    ul.append(reunion_line(fr2, pc, rs, outs[k]['closed'])); uidx.append((k, fr2))
        if not ul:
            continue
        uo, ufails = vf.par_lines(env.exes['bool.' + b], ul, timeout=120 if ctx.quick else 900)
        if ufails:
            l, rc, err = isolate(env.exes['bool.' + b], ufails[0][0])
            if l is None:
                raise vf.Infra('cx_bool union shard failed (rc=%s) but no single line fails alone: %s' % (ufails[0][1], ufails[0][2][-300:]))
            ctx.violation('crash.reunion', 'Union of a solution crashed or hung for more than 10 s (rc=%s, build %s): %s' % (rc, b, l[:200]),
                          replay=dict(kind='line', build=b, line=l))
            continue
        for (k, fr2), line in zip(uidx, uo):
            u = parse_bool(line)
            ctx.count('union_idempotence_checks')
            if u is None or vf.canon_paths(u['closed']) != vf.canon_paths(outs[k]['closed']):
                key = union_key(cases[jobs[k][0]], outs[k]['closed'], u['closed'] if u else None)
                ctx.hist('failing_evaluations_by_key', key)
                found.setdefault(key, (k, 'Union/%s of the solution returns a different path set (%d paths -> %s)' % (FR[fr2], len(outs[k]['closed']), len(u['closed']) if u else 'crash')))
    for c in cases:
        ctx.hist('regime', c['regime']); ctx.hist('kind', c['kind'].split('-d')[0][:24])
        ctx.hist('input_vertices', min(60, sum(len(p) for p in c['S'] + c['C'] + c.get('O', []))) // 5 * 5)
    ctx.cov['distinct_nontrivial'] = ctx.cov.get('distinct_nontrivial', 0) + len(nontrivial)
    # report (shrunk)
    for key, (k, what) in found.items():
        ci, ct, fr, pc, rs, b = jobs[k]
        c = cases[ci]
        geom = c.get('geom')
        try:
            small = shrink(env, c, (ct, fr, pc, rs, b), key, geom if key.startswith('geom') else None)
        except Exception as e:      # shrinking is best effort
            small = dict(S=c['S'], O=c.get('O', []), C=c['C'])
        ctx.violation(key, '%s/%s pc=%d rs=%d build=%s %s [%s]: %s' % (CT[ct], FR[fr], pc, rs, b, c['kind'], c['regime'], what),
                      replay=dict(kind='case', case=small, original=dict(S=c['S'], O=c.get('O', []), C=c['C']), ct=ct, fr=fr, pc=pc, rs=rs,
                                  build=b, geom=geom, key=key), nofail=key.startswith('tie'))


# ----------------------------------------------------------------------------- AddNewIntersectNode tie
ANI_BRANCH = {0: 'no repair', 1: 'closest point on e1', 2: 'closest point on e2', 3: 'clamp to top_y, TopX(e1)', 4: 'clamp to top_y, TopX(e2)',
              5: 'clamp to bot_y, TopX(e1)', 6: 'clamp to bot_y, TopX(e2)'}


def gen_ani(rng):
    """two non-horizontal edges (flat: |dx| just above / far above 100, steep: below, and exactly 100) and a scanbeam; the
    scanbeam is drawn independently of the crossing so that the computed point falls outside it in about half of the cases"""
    def edge():
        by, h = rng.range(-60, 60), rng.range(1, 40)
        kind = rng.below(4)
        if kind == 0:
            L = rng.range(100 * h + 1, 400 * h)
        elif kind == 1:
            L = 100 * h + rng.range(-2, 2)           # |dx| = 100 +- a little: the comparison itself
        else:
            L = rng.range(0, 100 * h)
        bx = rng.range(-3000, 3000)
        return (bx, by), (bx + rng.choice([1, -1]) * L, by - h)
    (b1, t1), (b2, t2) = edge(), edge()
    if rng.chance(1, 3):                              # make them cross near a common point
        cx, cy = rng.range(-50, 50), rng.range(-40, 40)
        sh = lambda p, q, dxy: ((p[0] + dxy[0], p[1] + dxy[1]), (q[0] + dxy[0], q[1] + dxy[1]))
        m1 = ((b1[0] + t1[0]) // 2, (b1[1] + t1[1]) // 2); m2 = ((b2[0] + t2[0]) // 2, (b2[1] + t2[1]) // 2)
        b1, t1 = sh(b1, t1, (cx - m1[0], cy - m1[1])); b2, t2 = sh(b2, t2, (cx - m2[0] + rng.range(-3, 3), cy - m2[1] + rng.range(-3, 3)))
    if rng.chance(1, 12):
        b2, t2 = (b1[0] + rng.range(-5, 5), b1[1]), (t1[0] + (0 if rng.chance(1, 2) else rng.range(-1, 1)), t1[1])   # (nearly) parallel
    ys = sorted([rng.range(-70, 70), rng.range(-70, 70)])
    if rng.chance(1, 6):
        ys[1] = ys[0]
    k = rng.choice([1, 1, 1, 1 << 10, 1 << 20, 1 << 30, 1 << 40])
    j = (lambda: rng.range(-(k // 4), k // 4)) if k > 1 else (lambda: 0)
    sc = lambda p: (p[0] * k + j(), p[1] * k + (j() if rng.chance(1, 2) else 0))
    b1, t1, b2, t2 = sc(b1), sc(t1), sc(b2), sc(t2)
    if t1[1] >= b1[1] or t2[1] >= b2[1]:
        return None
    return '%d %d %d %d %d %d %d %d %d %d' % (b1[0], b1[1], t1[0], t1[1], b2[0], b2[1], t2[0], t2[1], ys[1] * k, ys[0] * k)


def phase_isect_node(ctx, n):
    """exact correspondence of model/IsectNode.v (branch structure of the out-of-scanbeam repair over the regenerated leaf
    functions) with the real ClipperBase::AddNewIntersectNode on synthetic edges, default and HI_PRECISION builds"""
    try:
        exes = dict(lo=vf.build_cpp(ctx, 'cx_isectnode.cpp', 'plain'), hi=vf.build_cpp(ctx, 'cx_isectnode.cpp', 'hi'))
    except vf.BuildFailure as e:
        ctx.violation('tie-break:cx_isectnode', 'AddNewIntersectNode harness no longer builds: %s' % str(e)[-500:], replay=dict(error=str(e)[-2000:]), nofail=True)
        return True
    try:
        oracle = vf.oracle_build('isectnode')
    except vf.Infra as e:
        # the model is written over the REGENERATED leaves: when one of them can no longer be translated (or changed its
        # signature) the model does not build -- a correspondence break, not an infrastructure failure
        ctx.violation('tie-break:isectnode-model', 'model/IsectNode.v no longer builds over the regenerated GetSegmentIntersectPt / GetClosestPointOnSegment / TopX: %s'
                      % str(e)[-500:], replay=dict(error=str(e)[-2000:]), nofail=True)
        return True
    rng = ctx.rng.fork(7)
    bodies = [b for b in (gen_ani(rng) for _ in range(n)) if b]
    bodies += ['600 -2 -600 -4 0 -20 1 30 -3 -4']
    bad = None

    def crossing_in_range(b):
        # CLIPPER2_HI_PRECISION computes the crossing without clamping and converts it with static_cast<int64_t>: for nearly
        # parallel edges whose lines meet beyond +-2^61 that conversion is undefined behaviour (the sweep never asks for it:
        # AddNewIntersectNode is called for edges that cross inside the scanbeam) -- outside the domain of the tie
        v = [int(x) for x in b.split()]
        (ax, ay, bx, by, cx, cy, dx, dy) = v[:8]
        dx1, dy1, dx2, dy2 = bx - ax, by - ay, dx - cx, dy - cy
        det = dy1 * dx2 - dy2 * dx1
        if det == 0:
            return True
        tn = (ax - cx) * dy2 - (ay - cy) * dx2
        lim = 1 << 61
        return abs(ax * det + tn * dx1) < lim * abs(det) and abs(ay * det + tn * dy1) < lim * abs(det)
    for v in ('lo', 'hi'):
        use = bodies if v == 'lo' else [b for b in bodies if crossing_in_range(b)]
        ctx.count('isect_node_hi_cases_outside_int64_not_run', len(bodies) - len(use))
        lines = ['ANI %s %s' % (v, b) for b in use]
        got = need(*vf.par_lines(exes[v], lines, timeout=900), 'cx_isectnode')
        want = need(*vf.par_lines(oracle, lines, timeout=900), 'oracle_isectnode')
        for l, g, w in zip(lines, got, want):
            ctx.count('evaluations')
            ctx.count('isect_node_tie_cases')
            br = g.split()[-1] if g.split() else '?'
            ctx.hist('isect_node_branch.' + v, ANI_BRANCH.get(int(br), br) if br.lstrip('-').isdigit() else br)
            if g.strip() != w.strip():
                ctx.count('isect_node_tie_mismatches')
                if bad is None or len(l) < len(bad[0]):
                    bad = (l, g.strip(), w.strip())
    if bad:
        ctx.violation('tie.isect-node', 'AddNewIntersectNode and the model IsectNode.v disagree on %d synthetic edge pairs, e.g. %s -> C++ %s / model %s (x y branch)'
                      % (ctx.cov.get('isect_node_tie_mismatches', 0), bad[0], bad[1], bad[2]),
                      replay=dict(kind='ani', line=bad[0], cpp=bad[1], model=bad[2]), nofail=True)
    return bad is not None


def load_corpus():
    cases = []
    for f in sorted(glob.glob(os.path.join(vf.VERIF, 'corpus', 'C03', '*.case'))):
        for line in vf.read(f).splitlines():
            line = line.strip()
            if line and not line.startswith('#'):
                d = json.loads(line)
                for w in ('S', 'O', 'C'):
                    d[w] = [[tuple(v) for v in p] for p in d.get(w, [])]
                d.setdefault('kind', 'corpus:' + os.path.basename(f)); d.setdefault('regime', 'corpus')
                cases.append(d)
    return cases


def filter_genpos(ctx, env, cases):
    gp = need(*vf.par_lines(env.region, ['GENPOS ' + vf.fmt_paths(c['S'] + c['C']) for c in cases], timeout=900), 'oracle GENPOS')
    kept = [c for c, g in zip(cases, gp) if g.strip() == '1']
    ctx.cov['genpos_rejected_by_coq_predicate'] = ctx.cov.get('genpos_rejected_by_coq_predicate', 0) + len(cases) - len(kept)
    return kept


def setup(ctx):
    env = Env(ctx)
    env.oracle = vf.oracle_build('ringfinal')
    env.region = vf.oracle_build('region')
    try:
        env.exes['rings'] = vf.build_cpp(ctx, 'cx_rings.cpp', 'plain')
    except vf.BuildFailure as e:
        ctx.violation('tie-break:cx_rings', 'ring finalisation harness no longer builds (BuildPaths64/ExecuteInternal/OutRec changed?): %s' % str(e)[-500:],
                      replay=dict(error=str(e)[-2000:]), nofail=True)
    env.exes['bool.plain'] = vf.build_cpp(ctx, 'cx_bool.cpp', 'plain')
    env.exes['bool.hi'] = vf.build_cpp(ctx, 'cx_bool.cpp', 'hi')
    # private copies: the shared binary cache is trimmed by concurrent builds of other checks while this one still runs
    for k, exe in list(env.exes.items()):
        mine = os.path.join(ctx.work, k.replace('.', '_') + '.exe')
        try:
            shutil.copy2(exe, mine)
            env.exes[k] = mine
        except OSError:
            pass
    return env


def small_case(rng):
    """degenerate case with coordinates in a box of at most +-10 around the origin: rounding makes raw rings
    self-intersect there, so DoSplitOp, the micro branch and the tiny-triangle tests are exercised by real runs"""
    box = rng.choice([1, 2, 3, 3, 5, 5, 10])
    S = nasty_paths(rng, box, (0, 0))
    C = nasty_paths(rng, box, (0, 0)) if not rng.chance(1, 5) else []
    if rng.chance(1, 6) and S:
        C = C + [list(rng.choice(S))]
    return dict(S=S, O=[], C=C, kind='nasty-small', regime='box%d' % box.bit_length())


def has_failing_input(ctx):
    return any(not v['nofail'] for v in ctx.violations)


def run(ctx):
    pr = vf.coq_props(ctx, 'C03')
    ctx.log('proofs %s (%.1fs)' % ('ok' if pr['ok'] else 'BROKEN', pr['wall']))
    env = setup(ctx)
    ctx.log('harnesses and oracles ready')
    broken = (not pr['ok']) or 'rings' not in env.exes
    mul = (1 if ctx.quick else 12) * (3 if broken else 1)
    corpus = load_corpus()
    if corpus:
        phase_stream(ctx, env, [c for c in corpus if not c.get('geom')], 'corpus', builds=('plain', 'hi'), all_flags=True)
        phase_stream(ctx, env, [c for c in corpus if c.get('geom')], 'corpus-geom', builds=('plain', 'hi'), all_flags=True)
        ctx.cov['corpus_cases'] = len(corpus)
    syn_bad = None
    if 'rings' in env.exes:
        ctx.log('synthetic rings and leaf hypothesis')
        syn_bad = phase_synthetic(ctx, env, 20000 * mul)
        leaf_hypothesis(ctx, env, 20000 * mul)
    ani_bad = phase_isect_node(ctx, 30000 * mul)
    rng = ctx.rng.fork(1)
    nasty = [nasty_case(rng) for _ in range(2500 * mul)]
    phase_stream(ctx, env, nasty, 'nasty', combos_per_case=4, builds=('plain', 'hi'))
    gp = filter_genpos(ctx, env, [genpos_case(rng, i) for i in range(70 * mul)])
    phase_stream(ctx, env, gp, 'genpos', builds=('plain', 'hi'))
    frng = ctx.rng.fork(3)
    flat = filter_genpos(ctx, env, [c for c in (flat_case(frng, i) for i in range(500 * mul)) if maxabs_case(c) < (1 << 40)])
    phase_stream(ctx, env, flat, 'flat', builds=('plain', 'hi'))
    rect = [rectilinear_case(rng) for _ in range(150 * mul)]
    phase_stream(ctx, env, rect, 'rectilinear', builds=('plain', 'hi'))
    for c in (nasty[:1] + gp[:1] + rect[:2]):
        ctx.sample(dict(S=c['S'], C=c['C'], O=c.get('O', []), kind=c['kind'], regime=c['regime']))
    # search on break: the model and the code disagree (or the proof / harness is broken) and no input violating the
    # property is known yet -> many more real runs where ring finalisation has work to do
    tie_broken = syn_bad is not None or ani_bad or any(v['key'].startswith('tie') for v in ctx.violations)
    if (tie_broken or broken) and not has_failing_input(ctx):
        srng = ctx.rng.fork(2)
        for rnd in range(3 if ctx.quick else 12):
            phase_stream(ctx, env, [small_case(srng) for _ in range(4000)], 'search%d' % rnd, builds=('plain',))
            ctx.count('search_rounds')
            if has_failing_input(ctx):
                break
    if syn_bad is not None:
        pc, rs, rings, x, y = syn_bad
        ctx.violation('tie.ringfinal', 'BuildPaths64 and the extracted model disagree on %d synthetic rings, e.g. C++ %s / model %s'
                      % (ctx.cov.get('synthetic_tie_mismatches', 0), x[:160], y[:160]),
                      replay=dict(kind='syn', pc=pc, rs=rs, rings=rings, cpp=x, model=y), nofail=True)
    ctx.cov['rule'] = ('(0) corpus/C03/*.case regression inputs: all 16 clip type x fill rule combinations x all 4 PreserveCollinear/'
                       'ReverseSolution settings; (1) synthetic OutRec rings (random points in boxes 2..2^60, injected duplicates/collinear points): BuildPaths64 vs '
                       'extracted model, exact; (1b) AddNewIntersectNode on synthetic edge pairs (flat / steep / |dx| = 100 +- a little / nearly parallel, scanbeams drawn independently of the crossing, 5 magnitudes, both precision builds) vs the extracted model IsectNode.v, exact; (2) degenerate stream (empty/1-2 point paths, duplicates, spikes, coincident and shifted copies, '
                       'axis-parallel walks, coordinates up to 2^62-1): 4 random clip type x fill rule combinations per case with random '
                       'PreserveCollinear/ReverseSolution, default and HI_PRECISION builds: raw rings vs model (|coord| <= 2^61), structural clause '
                       'always, bbox clause for |coord| <= 2^52; (3) general position (extracted Coq predicate) in 7 coordinate regimes and '
                       '(4) rectilinear lattice inputs: all 16 combinations, additionally the geometric clause by the extracted exact checker and '
                       'Union(EvenOdd, NonZero, Positive resp. Negative for ReverseSolution) idempotence with the same build and settings; '
                       '(5) only when model and code disagree: up to 3 (thorough 12) rounds of 4000 small-box degenerate cases x 16 combinations; '
                       'non-trivial = distinct (case, clip type, fill rule) with a non-empty closed solution')
    ctx.assumptions += ['C03_structural assumes SegmentsIntersect(a,b,c,d) = false whenever the segments share an end point; proved on paper for '
                        'binary64 (the two products cancel exactly), validated on generated configurations (leaf_shared_endpoint_cases)',
                        'int64 differences/sums of coordinates do not wrap (|coord| < 2^62) in the model of the leaves',
                        'termination of FixSelfIntersects (micro self-intersection branch grows the ring) is not proved; a FUEL answer of the model would be reported as a tie break',
                        'bbox and geometric clauses: validated on generated inputs by exact checkers, not proved',
                        'general position as decided by base/GenPos.v; rectilinear = every edge axis-parallel',
                        'Print Assumptions of the structural theorems lists the primitive float type and its operations abs/leb/ltb (Coq primitives, used only in DoSplitOp\'s area tests, which the proof treats as opaque)']
    ctx.cov['trusted_base'] = vf.TRUSTED_COMMON + ['Coq.Floats primitives (PrimFloat) for the executed binary64 leaves and the area tests of the model']
    if broken and not has_failing_input(ctx):
        if not pr['ok']:
            ctx.violation('proof-break:Properties_C03', 'Properties_C03 no longer checks: %s' % '; '.join(pr['failed'])[:800],
                          replay=dict(failed=pr['failed'], log=pr['log'][-2000:]), nofail=True)


def replay(ctx, path):
    r = json.load(open(path))['replay']
    env = setup(ctx)
    ctx.count('evaluations'); ctx.cov['distinct_nontrivial'] = 1
    kind = r.get('kind')
    if kind == 'syn':
        body = build_line(r['pc'], r['rs'], [(o, [tuple(v) for v in p]) for o, p in r['rings']])
        x = vf.run_lines(env.exes['rings'], ['SYN' + body[5:]]).stdout.strip()
        y = vf.run_lines(env.oracle, [body]).stdout.strip()
        print('C++  :', x); print('model:', y)
        st, mc, mo, _, _ = parse_build(y)
        t = x.split()
        gc, pos = vf.parse_paths(t, 2); go, pos = vf.parse_paths(t, pos)
        if st != 'OK' or (gc, go) != (mc, mo):
            ctx.violation('tie.ringfinal', 'replayed: BuildPaths64 and the model disagree', replay=r, nofail=True)
        return
    if kind == 'ani':
        v = r['line'].split()[1]
        x = vf.run_lines(vf.build_cpp(ctx, 'cx_isectnode.cpp', 'plain' if v == 'lo' else 'hi'), [r['line']]).stdout.strip()
        y = vf.run_lines(vf.oracle_build('isectnode'), [r['line']]).stdout.strip()
        print('C++  :', x); print('model:', y)
        if x != y:
            ctx.violation('tie.isect-node', 'replayed: AddNewIntersectNode and the model disagree', replay=r, nofail=True)
        return
    if kind in ('leaf', 'line'):
        exe = env.exes['rings'] if kind == 'leaf' or str(r['line']).startswith(('RINGS', 'SYN')) else env.exes['bool.' + r.get('build', 'plain')]
        p = vf.run_lines(exe, [r['line']] if isinstance(r['line'], str) else r['line'], timeout=60)
        print(p.stdout, p.stderr[-500:])
        if p.returncode != 0:
            ctx.violation('crash.execute', 'replayed crash rc=%s' % p.returncode, replay=r)
        elif kind == 'leaf' and p.stdout.split()[1] != '0':
            ctx.violation('leaf.segments-intersect-shared-endpoint', 'replayed', replay=r)
        return
    c = r['case']
    for w in ('S', 'O', 'C'):
        c[w] = [[tuple(v) for v in p] for p in c.get(w, [])]
    keys, det = eval_one(env, c, r['ct'], r['fr'], r['pc'], r['rs'], r.get('build', 'plain'), r.get('geom'))
    print('solution:', det.get('closed'))
    print('violated clauses:', sorted(keys), det.get('paths'), det.get('union'), det.get('model'))
    for k in keys:
        ctx.violation(k, 'replayed: %s' % k, replay=r, nofail=k.startswith('tie'))
