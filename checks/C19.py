"""C19 -- Minkowski sum and difference are the swept pattern (DESIGN 6 C19).

prove      coq/props/Properties_C19.v over the complete hand model coq/model/Minkowski.v of detail::Minkowski
           (translated/reflected pattern copies, quad construction order, closing pair, cyclic pattern index,
           orientation by the binary64 Area): the quads ARE the property's parallelograms (up to per-quad reversal)
correspond HM+X   detail::Minkowski(pattern, path, isSum, isClosed) == extracted model, exactly (same quads, same
                  order, same orientation), and Area<int64_t> == its model bit for bit
           SPEC+O MinkowskiSum/MinkowskiDiff (Path64 and PathD overloads) against the Coq-defined specification:
                  at sample points farther than 2 units from every parallelogram edge the net winding of the
                  result is 1 inside some parallelogram (exact cross-product test) and 0 outside all of them.
                  The PathD overloads are compared through the 64-bit model after scaling with C16's model
                  (model/Scale.v): scaled inputs, quads, and the de-scaled result must agree bit for bit."""
import json, os, struct, sys
import vf
sys.path.insert(0, os.path.join(vf.VERIF, 'gen'))
import polys

META = dict(
    text=('Coq theorems over a complete executable model of detail::Minkowski (and of the binary64 Area/IsPositive it calls): for ALL '
          'patterns and paths the quads it builds are exactly the parallelograms [a+b, a\'+b, a\'+b\', a+b\'] (a-b for the difference) '
          'spanned by every path edge (closing edge iff closed) and every cyclic pattern edge, in the code\'s order, each possibly '
          'reversed; the reversal test is exact and every emitted quad has exact area >= 0 for |coordinates| <= 2^24 (refuted at 2^27: '
          'slivers); empty pattern or path gives no quads; no out-of-bounds access, no int64 overflow up to 2^60; the cross-product '
          'membership test of the specification implies winding number +-1 around a parallelogram. The final detail::Union (Clipper64 '
          'NonZero union of the quads) is NOT proved: it is validated by a Coq-extracted sampled checker (sound by theorem) on generated '
          'inputs in general position: open and closed paths, convex / non-convex / self-intersecting patterns, 6 coordinate regimes up '
          'to 2^40, near-parallel slivers, 1/2-point inputs, Path64 overloads and PathD overloads (the PathD result is checked exactly '
          'in dyadic arithmetic and compared bit for bit with the de-scaled Path64 result through C16\'s scaling model).'),
    note=('Trusted: Coq kernel; extraction; harness/driver glue. Proved for the quad construction; "Clipper\'s Union of the quads is '
          'their NonZero union within 2 units" is validated by sampling (grid + parallelogram centres + neighbourhoods of vertices), not '
          'proved. The model is tied to the C++ by exact equality of the quads (order and orientation) on every generated case.'),
    technique='Coq proof over a faithful executable model + exact model/implementation correspondence + Coq-extracted specification oracle',
    category='proof')

TOL_TN, TOL_TD = 4, 1          # 2 units, in doubled coordinates
REGIMES = [('small', 1, 0), ('1e3', 8, 1000), ('1e6', 7919, 10 ** 6), ('2^30', 2 ** 22, 2 ** 29),
           ('2^40', 2 ** 31, 2 ** 39), ('far', 1, 2 ** 40 - 400)]
LIM = 2 ** 40


# ----------------------------------------------------------------------------- doubles
def fhex(x):
    return float(x).hex()


def bits(tok):
    t = tok.lower()
    if 'nan' in t:
        return 'nan'
    if t in ('inf', '+inf', 'infinity'):
        v = float('inf')
    elif t in ('-inf', '-infinity'):
        v = float('-inf')
    else:
        v = float.fromhex(t)
    return struct.unpack('<Q', struct.pack('<d', v))[0]


def fmt_fpath(p):
    return ' '.join([str(len(p))] + ['%s %s' % (x, y) for x, y in p])      # tokens are already hex strings


def fpath_tokens(p):
    return [(fhex(x), fhex(y)) for x, y in p]


def parse_fpaths(tok, pos=0):
    n = int(tok[pos]); pos += 1
    ps = []
    for _ in range(n):
        k = int(tok[pos]); pos += 1
        p = []
        for _ in range(k):
            p.append((tok[pos], tok[pos + 1])); pos += 2
        ps.append(p)
    return ps, pos


# ----------------------------------------------------------------------------- tools
class Tools:
    def __init__(self, ctx):
        self.ctx = ctx
        self.tie_error = None
        self.api_only = False
        try:
            self.exe = vf.build_cpp(ctx, 'cx_minkowski.cpp', 'plain')
        except vf.BuildFailure as e:
            # detail::Minkowski / Area changed signature or disappeared: keep searching through the public API
            self.tie_error = str(e)
            self.api_only = True
            self.exe = vf.build_cpp(ctx, 'cx_minkowski.cpp', 'plain', extra=['-DCX_MINK_API_ONLY'])
        self.oracle = vf.oracle_build('minkowski')
        self.region = os.path.join(vf.BIN, 'oracle_region')
        if not os.path.exists(self.region):
            self.region = vf.oracle_build('region')

    def run(self, binary, lines, chunk=None, timeout=1500):
        out, fails = vf.par_lines(binary, lines, chunk=chunk, timeout=timeout)
        return out, fails

    def impl(self, lines):
        """implementation; a crashed/hung shard is isolated to the offending line -> 'CRASH ...' """
        out, fails = vf.par_lines(self.exe, lines)
        if not fails:
            return out
        res = []
        for l in lines:                       # slow path, only after a crash
            p = vf.run_lines(self.exe, [l], timeout=120)
            o = p.stdout.strip()
            res.append(o if p.returncode == 0 and o else 'CRASH rc=%s %s' % (p.returncode, ' '.join(p.stderr[-300:].split())))
        return res

    def model(self, lines, chunk=None):
        out, fails = vf.par_lines(self.oracle, lines, chunk=chunk, timeout=1500)
        if fails:
            raise vf.Infra('minkowski oracle failed: %s' % (fails[0][2] or str(fails[0][3])[:300])[-600:])
        bad = [o for o in out if o.startswith('ERR unknown') or o.startswith('ERR Invalid') or o.startswith('ERR Failure')]
        if bad:
            raise vf.Infra('minkowski oracle rejected a command: %s' % bad[0][:300])
        return out


# ----------------------------------------------------------------------------- generators
def convex_polygon(rng, n, r):
    pts = [polys.rand_pt(rng, r) for _ in range(n + 3)]
    pts = sorted(set(pts))
    if len(pts) < 3:
        return [(0, 0), (r, 0), (0, r)]
    def half(ps):
        h = []
        for p in ps:
            while len(h) >= 2 and polys.cross(h[-2], h[-1], p) <= 0:
                h.pop()
            h.append(p)
        return h
    lo, up = half(pts), half(pts[::-1])
    return lo[:-1] + up[:-1]


PAT_KINDS = ['convex', 'star', 'selfx', 'tri', 'convex_cw', 'star_off']
PATH_KINDS = ['walk', 'walk', 'loop_star', 'loop_selfx', 'zig', 'loop_cw']


def gen_pattern(rng, kind, r=40):
    if kind == 'convex':
        return convex_polygon(rng, rng.range(3, 7), r)
    if kind == 'convex_cw':
        return convex_polygon(rng, rng.range(3, 6), r)[::-1]
    if kind == 'star':
        return polys.star_polygon(rng, rng.range(4, 7), 0, 0, r // 3, r)
    if kind == 'star_off':        # pattern not containing the origin
        return polys.star_polygon(rng, rng.range(3, 6), rng.range(-3 * r, 3 * r), rng.range(-3 * r, 3 * r), r // 3, r)
    if kind == 'selfx':
        return polys.rand_polygon(rng, rng.range(4, 6), r)
    if kind == 'tri':
        return polys.rand_polygon(rng, 3, r)
    raise ValueError(kind)


def gen_path(rng, kind, r=120):
    if kind == 'walk':
        n = rng.range(2, 7)
        return polys.rand_polygon(rng, n, r), rng.chance(1, 4)
    if kind == 'zig':
        n = rng.range(3, 7)
        x, out = -r, []
        for k in range(n):
            x += rng.range(10, 2 * r // n)
            out.append((x, rng.range(-r, r)))
        return out, False
    if kind == 'loop_star':
        return polys.star_polygon(rng, rng.range(3, 7), rng.range(-20, 20), rng.range(-20, 20), r // 3, r), True
    if kind == 'loop_cw':
        return polys.star_polygon(rng, rng.range(3, 6), 0, 0, r // 3, r)[::-1], rng.chance(3, 4)
    if kind == 'loop_selfx':
        return polys.rand_polygon(rng, rng.range(3, 6), r), True
    raise ValueError(kind)


def parallel_free(pattern, pth, closed):
    pe = polys.cyc_edges(pattern)
    ae = polys.cyc_edges(pth) if closed else list(zip(pth, pth[1:]))
    for a, a2 in ae:
        for b, b2 in pe:
            if (a2[0] - a[0]) * (b2[1] - b[1]) - (a2[1] - a[1]) * (b2[0] - b[0]) == 0:
                return False
    return True


def base_genpos(pattern, pth, closed):
    """python pre-filter; the hypothesis that counts is base/GenPos.v evaluated by the oracle on the final inputs"""
    if len(pattern) < 3 or len(pth) < 2:
        return False
    if not polys.general_position([pattern]):
        return False
    if len(pth) >= 3:
        if not polys.general_position([pth]):
            return False
    elif pth[0] == pth[1]:
        return False
    return parallel_free(pattern, pth, closed)


def regime_tf(rng, pattern, pth, reg):
    name, k, off = reg
    dx, dy = rng.choice([-1, 0, 1]) * off, rng.choice([-1, 0, 1]) * off
    pdx = pdy = 0
    if rng.chance(1, 3):      # pattern translated too (it need not contain the origin)
        pdx, pdy = rng.choice([-1, 1]) * off, rng.choice([-1, 0, 1]) * off
    P = [(x * k + pdx, y * k + pdy) for x, y in pattern]
    A = [(x * k + dx, y * k + dy) for x, y in pth]
    return P, A


def gen_genpos_cases(ctx, rng, n):
    cases = []
    tries = 0
    while len(cases) < n and tries < 200 * n + 1000:
        tries += 1
        pk = PAT_KINDS[rng.below(len(PAT_KINDS))]
        ak = PATH_KINDS[rng.below(len(PATH_KINDS))]
        pattern = gen_pattern(rng, pk)
        pth, closed = gen_path(rng, ak)
        if not base_genpos(pattern, pth, closed):
            continue
        reg = REGIMES[len(cases) % len(REGIMES)]
        P, A = regime_tf(rng, pattern, pth, reg)
        if max(abs(c) for v in P + A for c in v) > LIM:
            continue
        cases.append(dict(sum=rng.below(2), closed=1 if closed else 0, pattern=P, path=A, regime=reg[0], k=reg[1],
                          kinds='%s/%s' % (pk, ak), cls='genpos'))
    return cases


def gen_small_cases(rng, n):
    """1- and 2-point patterns and paths (degenerate quads), swept segments"""
    out = []
    for i in range(n):
        reg = REGIMES[i % len(REGIMES)]
        np_, na = rng.choice([(1, 3), (2, 3), (2, 2), (3, 1), (3, 2), (1, 1), (2, 1), (1, 2), (2, 4)])
        for _ in range(50):
            pattern = polys.rand_polygon(rng, np_, 40)
            pth = polys.rand_polygon(rng, na, 120)
            ok = len(set(pattern)) == np_ and len(set(pth)) == na
            if ok and np_ >= 2 and na >= 2:
                ok = parallel_free(pattern, pth, True)
            if ok and np_ >= 3:
                ok = polys.general_position([pattern])
            if ok and na >= 3:
                ok = polys.general_position([pth])
            if ok:
                break
        else:
            continue
        P, A = regime_tf(rng, pattern, pth, reg)
        out.append(dict(sum=rng.below(2), closed=rng.below(2), pattern=P, path=A, regime=reg[0], k=reg[1],
                        kinds='small%d/%d' % (np_, na), cls='small'))
    return out


WITNESS = dict(sum=1, closed=0, pattern=[(0, 0), (-75110867, 4266284)], path=[(56941013, -102020953), (26228893, -100276510)],
               regime='witness', k=1, kinds='witness', cls='witness')


def egcd(a, b):
    x0, y0, x1, y1 = 1, 0, 0, 1
    while b:
        q = a // b
        a, b = b, a - q * b
        x0, x1 = x1, x0 - q * x1
        y0, y1 = y1, y0 - q * y1
    return a, x0, y0


def gen_nearpar_cases(rng, n):
    """a pattern edge almost parallel to a path edge (cross product +-1..3 at coordinates up to 2^40): the quad is a
    sliver whose binary64 Area has the wrong sign or is zero (C19_quads_positive_unbounded_refuted) -- the sliver lies
    within the tolerance band, so the property must still hold"""
    out = []
    tries = 0
    while len(out) < n and tries < 100 * n + 100:
        tries += 1
        M = rng.choice([2 ** 27, 2 ** 30, 2 ** 36, 2 ** 39])
        u = (rng.range(-M, M) // 8, rng.range(-M, M) // 8)
        if u[0] == 0 or u[1] == 0:
            continue
        g, x, y = egcd(abs(u[0]), abs(u[1]))
        if g != 1:
            continue
        sx, sy = (1 if u[0] > 0 else -1), (1 if u[1] > 0 else -1)
        t = rng.choice([1, -1, 2, -2, 3, -3])
        w = (-sy * y * t, sx * x * t)
        assert u[0] * w[1] - u[1] * w[0] == t
        k = rng.range(0, 1)
        v = (w[0] + k * u[0], w[1] + k * u[1])
        o = (rng.range(-M // 2, M // 2), rng.range(-M // 2, M // 2))
        third = (rng.range(-M, M) // 16, rng.range(-M, M) // 16)
        pattern = [(0, 0), v] + ([third] if rng.chance(1, 2) else [])
        pth = [o, (o[0] + u[0], o[1] + u[1])]
        if rng.chance(1, 2):
            pth.append((pth[-1][0] + rng.range(-M, M) // 16, pth[-1][1] + rng.range(-M, M) // 16))
        if max(abs(c) for p in pattern + pth for c in p) > LIM:
            continue
        if len(set(pattern)) != len(pattern) or len(set(pth)) != len(pth):
            continue
        out.append(dict(sum=rng.below(2), closed=rng.below(2), pattern=pattern, path=pth, regime='nearpar', k=1,
                        kinds='nearpar%d/%d' % (len(pattern), len(pth)), cls='nearpar'))
    return out


def gen_tie_cases(rng, n):
    """anything goes for the exact quad correspondence: duplicates, collinear runs, parallel edges, 0..2 points"""
    out = []
    for i in range(n):
        reg = REGIMES[i % len(REGIMES)]
        style = rng.below(8)
        if style == 0:
            np_, na = rng.choice([(0, 0), (0, 3), (3, 0), (1, 1), (1, 2), (2, 1), (2, 2), (1, 5), (5, 1), (2, 5), (0, 1), (1, 0)])
            pattern, pth = polys.rand_polygon(rng, np_, 40), polys.rand_polygon(rng, na, 120)
        elif style == 1:        # tiny lattice: many duplicates / collinear / parallel
            pattern = polys.rand_polygon(rng, rng.range(1, 6), 2)
            pth = polys.rand_polygon(rng, rng.range(1, 7), 3)
        elif style == 2:        # thin and nearly parallel edges (orientation test under cancellation)
            d = (rng.range(-50, 50), rng.range(-50, 50))
            pattern = [(0, 0), (d[0] * 3 + rng.range(-1, 1), d[1] * 3 + rng.range(-1, 1)), (rng.range(-40, 40), rng.range(-40, 40))]
            pth = [(rng.range(-100, 100), rng.range(-100, 100))]
            for _ in range(rng.range(1, 4)):
                pth.append((pth[-1][0] + d[0] * rng.range(1, 2) + rng.range(-1, 1), pth[-1][1] + d[1] * rng.range(1, 2) + rng.range(-1, 1)))
        else:
            pattern = gen_pattern(rng, PAT_KINDS[rng.below(len(PAT_KINDS))])
            pth, _ = gen_path(rng, PATH_KINDS[rng.below(len(PATH_KINDS))])
            if rng.chance(1, 6) and len(pth) > 1:
                pth.insert(rng.below(len(pth)), pth[rng.below(len(pth))])
            if rng.chance(1, 6) and len(pattern) > 1:
                pattern.insert(rng.below(len(pattern)), pattern[rng.below(len(pattern))])
            if rng.chance(1, 12):
                pattern = pattern + polys.rand_polygon(rng, rng.range(3, 12), 40)
            if rng.chance(1, 12):
                pth = pth + polys.rand_polygon(rng, rng.range(3, 14), 120)
        if style == 2 and reg[0] != 'small':
            # keep the near-parallel structure but move it far away / scale
            P, A = regime_tf(rng, pattern, pth, reg)
        else:
            P, A = regime_tf(rng, pattern, pth, reg)
        if P and A and max(abs(c) for v in P + A for c in v) > LIM:
            continue
        out.append(dict(sum=rng.below(2), closed=rng.below(2), pattern=P, path=A, regime=reg[0], k=reg[1],
                        kinds='tie%d' % style, cls='tie'))
    return out


def gen_area_lines(rng, n):
    L = []
    mags = [3, 100, 10 ** 6, 2 ** 24, 2 ** 25, 2 ** 26, 2 ** 30, 2 ** 40, 2 ** 41]
    for i in range(n):
        m = mags[i % len(mags)]
        k = rng.choice([0, 1, 2, 3, 4, 4, 4, 5, 6, 7, 8, 9, 12, 17])
        if rng.chance(1, 3) and k == 4:     # thin parallelogram far from the origin
            o = (rng.range(-m, m), rng.range(-m, m))
            u = (rng.range(-m, m) // 64, rng.range(-m, m) // 64)
            v = (u[0] * 2 + rng.range(-2, 2), u[1] * 2 + rng.range(-2, 2))
            p = [o, (o[0] + u[0], o[1] + u[1]), (o[0] + u[0] + v[0], o[1] + u[1] + v[1]), (o[0] + v[0], o[1] + v[1])]
        else:
            p = [(rng.range(-m, m), rng.range(-m, m)) for _ in range(k)]
        L.append('AREA %d %s' % (len(p), vf.fmt_path(p)))
    return L


# ----------------------------------------------------------------------------- commands
def pp(p):
    return ('%d %s' % (len(p), vf.fmt_path(p))).strip()


def quads_cmd(c, word='QUADS'):
    return '%s %d %d %s %s' % (word, c['sum'], c['closed'], pp(c['pattern']), pp(c['path']))


def parse_mink(line):
    """'OK <quads> | <result>' -> (quads, result) ; None on anything else"""
    if not line.startswith('OK '):
        return None
    parts = line[3:].split('|')
    if len(parts) != 2:
        return None
    q, _ = vf.parse_paths(parts[0].split(), 0)
    r, _ = vf.parse_paths(parts[1].split(), 0)
    return q, r


def parse_ok_paths(line):
    t = line.split()
    if not t or t[0] != 'OK':
        return None
    return vf.parse_paths(t, 1)[0]


def sample_points(rng, quads, result, k, cap, extra=()):
    """DOUBLED sample points: grid over the bounding box of the parallelograms, centre of every parallelogram,
    neighbours of parallelogram and result vertices at 3..6 units and at 3..6 * k units, a few points outside"""
    vs = [v for q in quads for v in q]
    if not vs:
        vs = [(0, 0)]
    x0, y0 = min(v[0] for v in vs), min(v[1] for v in vs)
    x1, y1 = max(v[0] for v in vs), max(v[1] for v in vs)
    w, h = max(1, x1 - x0), max(1, y1 - y0)
    mx, my = w // 10 + 8, h // 10 + 8
    must = set(tuple(e) for e in extra)
    G = 14
    grid = set()
    for i in range(G):
        for j in range(G):
            x = x0 - mx + (w + 2 * mx) * i // (G - 1)
            y = y0 - my + (h + 2 * my) * j // (G - 1)
            grid.add((2 * x + 1, 2 * y + 1))
    cent = set()
    for q in quads:
        if len(q) == 4:
            cent.add((q[0][0] + q[2][0], q[0][1] + q[2][1]))      # doubled centre, exact
    near = set()
    dirs = ((1, 0), (-1, 0), (0, 1), (0, -1), (1, 1), (1, -1), (-1, 1), (-1, -1))
    rv = [v for p in result for v in p]
    for v in list(set(vs)) + rv:
        for dx, dy in dirs:
            if rng.chance(1, 2):
                d = rng.range(3, 6)
                near.add((2 * (v[0] + dx * d) + 1, 2 * (v[1] + dy * d) + 1))
            elif k > 1:
                d = rng.range(3, 6) * k
                near.add((2 * (v[0] + dx * d) + 1, 2 * (v[1] + dy * d) + 1))
    outside = set()
    for _ in range(6):
        outside.add((2 * (x0 - mx - rng.range(1, 50) * k) + 1, 2 * rng.range(y0, y1) + 1))
        outside.add((2 * rng.range(x0, x1) + 1, 2 * (y1 + my + rng.range(1, 50) * k) + 1))
    pts = list(must)
    for group, share in ((sorted(cent), cap // 4), (sorted(near), cap // 2), (sorted(grid), cap), (sorted(outside), cap)):
        g = [p for p in group if p not in must]
        rng.shuffle(g)
        room = max(0, min(share, cap - len(pts)))
        pts += g[:room]
    return sorted(set(pts))


def check_cmd(c, result, pts):
    """Path64 result: everything doubled (k = 2), tolerance 2 units = 4 doubled units"""
    return 'CHECK %d %d %s %s 2 %d %d %s %s' % (c['sum'], c['closed'], pp(c['pattern']), pp(c['path']), TOL_TN, TOL_TD,
                                                vf.fmt_paths(polys.double_paths(result)), pp(pts))


def parse_check(line):
    t = line.split()
    if not t or t[0] != 'OK':
        return None
    nfar, nins, nfail, nx = int(t[1]), int(t[2]), int(t[3]), int(t[4])
    if nx:
        raise vf.Infra('oracle inconsistent: cross-product membership and winding numbers of the parallelograms disagree at %d far points: %s' % (nx, line[:200]))
    fl = []
    pos = 5
    while len(fl) < 5 and pos + 4 <= len(t):
        fl.append(dict(point=(int(t[pos]) / 2.0, int(t[pos + 1]) / 2.0), point2=(int(t[pos]), int(t[pos + 1])),
                       w=int(t[pos + 2]), inside=t[pos + 3] == '1'))
        pos += 4
    return nfar, nins, nfail, fl


def fail_key(f):
    if f['inside']:
        return 'region.missing' if f['w'] == 0 else 'region.multi'
    return 'region.extra'


# ----------------------------------------------------------------------------- evaluation
def eval_cases(ctx, tools, cases, cap, rng=None):
    """MINK on the implementation, QUADS on the model, CHECK of the implementation's result.
    returns per case dict(impl_quads, model_quads, result, mismatch, nfar, fails, crash)"""
    rng = rng or ctx.rng.fork(len(cases) + 11)
    word = 'MINKAPI' if tools.api_only else 'MINK'
    a = tools.impl([quads_cmd(c, word) for c in cases])
    m = tools.model([quads_cmd(c) for c in cases])
    res = []
    chk, idx = [], []
    for i, (c, x, y) in enumerate(zip(cases, a, m)):
        d = dict(impl=x, model=y, mismatch=False, nfar=0, nins=0, fails=[], crash=None, result=None, npts=0)
        pr = parse_mink(x)
        mq = parse_ok_paths(y)
        if mq is None:
            raise vf.Infra('model failed on %s: %s' % (quads_cmd(c), y[:200]))
        d['model_quads'] = mq
        if pr is None:
            d['crash'] = x[:300]
        else:
            iq, r = pr
            d['impl_quads'], d['result'] = iq, r
            if not tools.api_only and iq != mq:
                d['mismatch'] = True
            pts = sample_points(rng, mq, r, c.get('k', 1), cap, extra=c.get('points2', ()))
            d['npts'] = len(pts)
            chk.append(check_cmd(c, r, pts)); idx.append(i)
        res.append(d)
    out = tools.model(chk, chunk=1)
    for i, o in zip(idx, out):
        pc = parse_check(o)
        if pc is None:
            raise vf.Infra('oracle CHECK failed: %s' % o[:300])
        res[i]['nfar'], res[i]['nins'], res[i]['nfail'], res[i]['fails'] = pc
    return res


def shrink(ctx, tools, c, key, budget=12):
    """drop pattern/path vertices while the same failure key persists"""
    cur = c
    for _ in range(budget):
        cands = []
        for k in range(len(cur['pattern'])):
            if len(cur['pattern']) > 1:
                cands.append(dict(cur, pattern=cur['pattern'][:k] + cur['pattern'][k + 1:]))
        for k in range(len(cur['path'])):
            if len(cur['path']) > 1:
                cands.append(dict(cur, path=cur['path'][:k] + cur['path'][k + 1:]))
        if not cands:
            break
        cands = [dict(x, points2=()) for x in cands]
        ev = eval_cases(ctx, tools, cands, 260, rng=vf.Rng(ctx.seed, 991))
        ok = [(x, d) for x, d in zip(cands, ev) if any(fail_key(f) == key for f in d['fails'])]
        if not ok:
            break
        cur = min(ok, key=lambda t: len(t[0]['pattern']) + len(t[0]['path']))[0]
    return cur


def report_region(ctx, tools, c, d, seen, do_shrink=True):
    for f in d['fails']:
        key = fail_key(f)
        if key in seen:
            ctx.hist('failures', key)
            continue
        seen.add(key)
        small = shrink(ctx, tools, c, key) if do_shrink else c
        e = eval_cases(ctx, tools, [small], 400, rng=vf.Rng(ctx.seed, 991))[0]
        ff = [g for g in e['fails'] if fail_key(g) == key]
        if not ff:                 # shrinking lost it with the other sample set: report the original
            small, e, ff = c, d, [f]
        g = ff[0]
        what = ('Minkowski%s(pattern=%s, path=%s, closed=%d) = %s: at (%s, %s), farther than 2 units from every parallelogram edge, '
                'the net winding of the result is %d but the point is %s the union of the parallelograms (%s)'
                % ('Sum' if small['sum'] else 'Diff', small['pattern'], small['path'], small['closed'], e['result'],
                   g['point'][0], g['point'][1], g['w'], 'inside' if g['inside'] else 'outside',
                   {'region.missing': 'part of the swept region is missing', 'region.extra': 'the result covers points outside the swept region',
                    'region.multi': 'covered more than once'}[key]))
        ctx.violation(key, what, replay=dict(kind='region', sum=small['sum'], closed=small['closed'], pattern=small['pattern'],
                                              path=small['path'], points2=[list(g['point2'])], key=key,
                                              original=dict(pattern=c['pattern'], path=c['path'])))


def explore_region(ctx, tools, cases, cap):
    ev = eval_cases(ctx, tools, cases, cap)
    seen = set()
    mism = []
    nontriv = set()
    for c, d in zip(cases, ev):
        ctx.count('evaluations')
        ctx.count('region_cases')
        ctx.hist('regime', c['regime'])
        ctx.hist('kinds', c['kinds'])
        ctx.hist('sizes', '%dx%d' % (len(c['pattern']), len(c['path'])))
        ctx.hist('mode', ('sum' if c['sum'] else 'diff') + ('/closed' if c['closed'] else '/open'))
        ctx.count('sample_points_total', d['npts'])
        ctx.count('sample_points_far', d['nfar'])
        ctx.count('sample_points_far_inside', d['nins'])
        if d['crash']:
            ctx.violation('crash.minkowski', 'MinkowskiSum/Diff crashed or threw: %s on %s' % (d['crash'], quads_cmd(c)),
                          replay=dict(kind='region', sum=c['sum'], closed=c['closed'], pattern=c['pattern'], path=c['path'], key='crash.minkowski'))
            continue
        if d['mismatch']:
            mism.append((c, d))
        if d['result'] and d['nfar'] > 0:
            nontriv.add(quads_cmd(c))
        if d['fails']:
            ctx.count('region_failing_cases')
            report_region(ctx, tools, c, d, seen)
    ctx.cov['distinct_nontrivial'] = ctx.cov.get('distinct_nontrivial', 0) + len(nontriv)
    return mism, ev


def explore_tie(ctx, tools, cases):
    """exact quad correspondence only (cheap)"""
    if tools.api_only:
        return []
    a = tools.impl([quads_cmd(c) for c in cases])
    m = tools.model([quads_cmd(c) for c in cases])
    s = tools.model([quads_cmd(c, 'SPECQ') for c in cases])
    mism = []
    for c, x, y, z in zip(cases, a, m, s):
        ctx.count('evaluations')
        ctx.count('tie_cases')
        ctx.hist('tie_regime', c['regime'])
        ctx.hist('tie_sizes', '%dx%d' % (min(len(c['pattern']), 9), min(len(c['path']), 9)))
        if y != z:
            raise vf.Infra('extracted model and extracted specification disagree (C19_quads_spec says they cannot): %s' % quads_cmd(c))
        if x != y:
            mism.append((c, dict(impl=x, model=y)))
    return mism


def empty_cases(ctx, tools):
    """empty pattern or path gives an empty result (both overloads)"""
    rng = ctx.rng.fork(5)
    L, meta = [], []
    for i in range(60):
        np_, na = rng.choice([(0, 0), (0, 1), (0, 4), (1, 0), (5, 0), (0, 2)])
        P, A = polys.rand_polygon(rng, np_, 10 ** rng.range(1, 12)), polys.rand_polygon(rng, na, 10 ** rng.range(1, 12))
        s, cl = rng.below(2), rng.below(2)
        L.append('%s %d %d %s %s' % ('MINKAPI' if tools.api_only else 'MINK', s, cl, pp(P), pp(A)))
        meta.append(('64', s, cl, P, A))
        L.append('MINKD %d %d %d %s %s' % (s, cl, rng.range(0, 4), fmt_fpath(fpath_tokens(P)), fmt_fpath(fpath_tokens(A))))
        meta.append(('D', s, cl, P, A))
    out = tools.impl(L)
    for l, o, (kind, s, cl, P, A) in zip(L, out, meta):
        ctx.count('evaluations')
        ctx.count('empty_cases')
        ok = o.startswith('OK ')
        if ok:
            last = o.split('|')[-1].split()
            ok = last == ['0']
        if not ok:
            ctx.violation('empty.nonempty-result', 'empty pattern or path must give an empty result: `%s` -> `%s`' % (l, o[:300]),
                          replay=dict(kind='line', line=l, expect_last='0', key='empty.nonempty-result'))


# ----------------------------------------------------------------------------- PathD overloads
def gen_d_cases(rng, n):
    out = []
    tries = 0
    while len(out) < n and tries < 100 * n + 100:
        tries += 1
        dec = rng.choice([0, 1, 2, 2, 2, 3, 4])
        pk = PAT_KINDS[rng.below(len(PAT_KINDS))]
        ak = PATH_KINDS[rng.below(len(PATH_KINDS))]
        pattern = gen_pattern(rng, pk)
        pth, closed = gen_path(rng, ak)
        if not base_genpos(pattern, pth, closed):
            continue
        # integer lattice of step 8 (scaled) + jitter, expressed with `dec` decimals: coordinates v / 10^dec
        k = rng.choice([1, 13, 1000, 10 ** 5])
        off = rng.choice([0, 0, 10 ** 7, 10 ** 9])
        den = 10 ** dec
        P = [((x * k * 8 + rng.range(-1, 1)) / den, (y * k * 8 + rng.range(-1, 1)) / den) for x, y in pattern]
        A = [((x * k * 8 + off + rng.range(-1, 1)) / den, (y * k * 8 - off + rng.range(-1, 1)) / den) for x, y in pth]
        if rng.chance(1, 5):      # coordinates that are not multiples of 10^-dec: rounding in ScalePath matters
            P = [(x + rng.range(-49, 49) / (100.0 * den), y) for x, y in P]
        out.append(dict(sum=rng.below(2), closed=1 if closed else 0, dec=dec, patternD=fpath_tokens(P), pathD=fpath_tokens(A),
                        kinds='D:%s/%s' % (pk, ak), regime='D k=%d off=%d dec=%d' % (k, off, dec), k=k))
    return out


def mind_cmd(c):
    return 'MINKD %d %d %d %s %s' % (c['sum'], c['closed'], c['dec'], fmt_fpath(c['patternD']), fmt_fpath(c['pathD']))


def explore_d(ctx, tools, cases, cap, n_region):
    if tools.api_only or not cases:
        return []
    out = tools.impl([mind_cmd(c) for c in cases])
    parsed = []
    for c, o in zip(cases, out):
        ctx.count('evaluations')
        ctx.count('pathd_cases')
        if not o.startswith('OK '):
            ctx.violation('crash.minkowskiD', 'PathD overload crashed or threw: %s on `%s`' % (o[:200], mind_cmd(c)),
                          replay=dict(kind='d', case=c, key='crash.minkowskiD'))
            parsed.append(None)
            continue
        parts = [p.split() for p in o[3:].split('|')]
        scale, inv = parts[0]
        pat64 = vf.parse_paths(['1'] + parts[1], 0)[0][0]
        p64 = vf.parse_paths(['1'] + parts[2], 0)[0][0]
        quads = vf.parse_paths(parts[3], 0)[0]
        r64 = vf.parse_paths(parts[4], 0)[0]
        rd = parse_fpaths(parts[5], 0)[0]
        parsed.append(dict(scale=scale, inv=inv, pat64=pat64, p64=p64, quads=quads, r64=r64, rd=rd))
    ok = [(c, p) for c, p in zip(cases, parsed) if p is not None]
    # model: pow10 table, scaling, quads, de-scaling
    L = []
    for c, p in ok:
        L += ['POW10 %d' % c['dec'], 'SCALE %s %s' % (p['scale'], fmt_fpath(c['patternD'])), 'SCALE %s %s' % (p['scale'], fmt_fpath(c['pathD'])),
              'QUADS %d %d %s %s' % (c['sum'], c['closed'], pp(p['pat64']), pp(p['p64'])),
              'DESCALE %s %s' % (p['inv'], vf.fmt_paths(p['r64']))]
    m = tools.model(L)
    mism = []
    reg_cases = []
    for n, (c, p) in enumerate(ok):
        pw, s1, s2, q, ds = m[5 * n:5 * n + 5]
        why = None
        pws = pw.split()
        if bits(pws[0]) != bits(p['scale']) or bits(pws[1]) != bits(p['inv']):
            why = 'pow(10,%d) / its inverse differ from the correctly rounded values: %s %s vs %s' % (c['dec'], p['scale'], p['inv'], pw)
        elif s1 != 'OK ' + pp(p['pat64']):
            why = 'ScalePath(pattern) differs from model/Scale.v: %s vs %s' % (pp(p['pat64']), s1)
        elif s2 != 'OK ' + pp(p['p64']):
            why = 'ScalePath(path) differs from model/Scale.v: %s vs %s' % (pp(p['p64']), s2)
        elif parse_ok_paths(q) != p['quads']:
            why = 'quads on the scaled inputs differ from the model'
        else:
            dm = parse_fpaths(ds.split(), 0)[0]
            same = len(dm) == len(p['rd']) and all(len(a) == len(b) and all(bits(u[0]) == bits(v[0]) and bits(u[1]) == bits(v[1]) for u, v in zip(a, b))
                                                   for a, b in zip(dm, p['rd']))
            if not same:
                why = 'PathD result is not the de-scaled Path64 result on the scaled inputs: %s vs %s' % (p['rd'], dm)
        if why:
            mism.append((c, why))
        mp = vf.parse_paths(['1'] + s1.split()[1:], 0)[0] if s1.startswith('OK ') else None
        ma = vf.parse_paths(['1'] + s2.split()[1:], 0)[0] if s2.startswith('OK ') else None
        if len(reg_cases) < n_region and mp and ma and max([abs(v) for pt in mp[0] + ma[0] for v in pt] + [0]) <= LIM:
            # specification inputs = the MODEL's scaled pattern/path (not the harness' values)
            reg_cases.append(dict(sum=c['sum'], closed=c['closed'], pattern=mp[0], path=ma[0], regime=c['regime'], k=c['k'],
                                  kinds=c['kinds'], cls='pathd', dcase=c, rd=p['rd'], dec=c['dec'], points2=[tuple(q) for q in c.get('points2', ())]))
    # the region clause on the PathD result itself, exactly: its binary64 coordinates times 10^dec are dyadic
    # rationals; with F = their common (power of two) denominator everything is scaled by k = 2F
    if reg_cases:
        gp = tools_genpos(tools, reg_cases)
        reg_cases = [c for c, g in zip(reg_cases, gp) if g]
        d_region(ctx, tools, reg_cases, cap)
    return mism


def d_region(ctx, tools, cases, cap):
    from fractions import Fraction
    rng = ctx.rng.fork(len(cases) + 17)
    qm = tools.model([quads_cmd(c) for c in cases])
    lines, meta = [], []
    for c, qo in zip(cases, qm):
        quads = parse_ok_paths(qo)
        den = 10 ** c['dec']
        ex = [[(Fraction(float.fromhex(x)) * den, Fraction(float.fromhex(y)) * den) for x, y in p] for p in c['rd']]
        F = 1
        for p in ex:
            for x, y in p:
                F = max(F, x.denominator, y.denominator)       # denominators are powers of two
        if F.bit_length() > 70:
            ctx.count('pathd_region_skipped_denominator')
            continue
        k = 2 * F
        outk = [[(int(x * k), int(y * k)) for x, y in p] for p in ex]
        approx = [[(int(round(x)), int(round(y))) for x, y in p] for p in ex]
        pts2 = sample_points(rng, quads, approx, c.get('k', 1), cap, extra=c.get('points2', ()))
        ptsk = [(x * F, y * F) for x, y in pts2]
        lines.append('CHECK %d %d %s %s %d %d 1 %s %s' % (c['sum'], c['closed'], pp(c['pattern']), pp(c['path']), k, 2 * k,
                                                          vf.fmt_paths(outk), pp(ptsk)))
        meta.append((c, F, len(ptsk)))
    out = tools.model(lines, chunk=1)
    seen = set()
    nontriv = set()
    for (c, F, npts), o in zip(meta, out):
        pc = parse_check(o)
        if pc is None:
            raise vf.Infra('oracle CHECK (PathD) failed: %s' % o[:300])
        nfar, nins, nfail, fails = pc
        ctx.count('evaluations')
        ctx.count('pathd_region_cases')
        ctx.count('sample_points_total', npts)
        ctx.count('sample_points_far', nfar)
        ctx.count('sample_points_far_inside', nins)
        ctx.hist('regime', c['regime'])
        ctx.hist('kinds', c['kinds'])
        ctx.hist('pathd_denominator_bits', F.bit_length() - 1)
        if c['rd'] and nfar > 0:
            nontriv.add(mind_cmd(c['dcase']))
        for f in fails:
            key = fail_key(f)
            if key in seen:
                continue
            seen.add(key)
            dc = c['dcase']
            den = 10 ** c['dec']
            # the failing point in the caller's (unscaled) coordinates
            qx, qy = Fraction(f['point2'][0], 2 * F) / den, Fraction(f['point2'][1], 2 * F) / den
            ctx.violation(key, 'Minkowski%s(PathD pattern, PathD path, closed=%d, decimals=%d) on `%s`: at (%s, %s) [= (%s, %s) in units of 10^-%d], farther than 2 units '
                          'of 10^-%d from every parallelogram edge, the net winding of the result is %d but the point is %s the union of the parallelograms; result %s'
                          % ('Sum' if c['sum'] else 'Diff', c['closed'], c['dec'], mind_cmd(dc), float(qx), float(qy), float(qx * den), float(qy * den), c['dec'],
                             c['dec'], f['w'], 'inside' if f['inside'] else 'outside', c['rd']),
                          replay=dict(kind='d', case=dc, key=key, points2=[[f['point2'][0] // F, f['point2'][1] // F]]))
    ctx.cov['distinct_nontrivial'] = ctx.cov.get('distinct_nontrivial', 0) + len(nontriv)


def tools_genpos(tools, cases):
    """the extracted Coq predicate general_position (base/GenPos.v) on the pattern and on the path (a path of
    fewer than 3 points or an open path is tested as a closed ring, which is stronger)"""
    L = []
    for c in cases:
        L.append('GENPOS ' + vf.fmt_paths([c['pattern']]))
        L.append('GENPOS ' + vf.fmt_paths([c['path']]) if len(c['path']) >= 3 else 'GENPOS 0')
    out, fails = vf.par_lines(tools.region, L)
    if fails:
        raise vf.Infra('oracle_region GENPOS failed: %s' % fails[0][2][-300:])
    return [out[2 * i].strip() == '1' and out[2 * i + 1].strip() == '1' for i in range(len(cases))]


# ----------------------------------------------------------------------------- run
def run(ctx):
    ctx.assumptions += [
        'theorems are about the hand model coq/model/Minkowski.v, tied to the C++ by exact equality of the quads (order and orientation) on every generated case, not by a semantics of C++',
        'int64 arithmetic modelled in unbounded Z (minkowski_ub_free: no overflow for |coords| <= 2^60); binary64 via Coq primitive floats, harness built with -ffp-contract=off',
        'NOT proved: that detail::Union (Clipper64, NonZero) of the quads is their union within 2 units -- validated by sampling: grid over the bounding box + centres of parallelograms + neighbourhoods of parallelogram/result vertices; the points quantifier is covered by sampling, not by a theorem',
        'general position of pattern and path as decided by base/GenPos.v (each taken as a closed ring) and no pattern edge parallel to a path edge; 1- and 2-point patterns/paths are checked as an additional class',
        'PathD overloads: scaling is C16\'s model (model/Scale.v); pow(10,dec) is compared with the correctly rounded decimal power',
        'Print Assumptions: the structural theorems depend only on the primitive float/int63 operations of the standard library (the model uses PrimFloat); '
        'C19_orientation_exact / C19_quads_positive additionally on the FloatAxioms specs (mul_spec, add_spec, leb_spec, Prim2SF_*), and through Flocq/Reals on '
        'Classical_Prop.classic, ClassicalDedekindReals.sig_forall_dec / sig_not_dec and functional_extensionality_dep',
    ]
    ctx.cov['rule'] = ('seeded random patterns (convex, clockwise convex, star-shaped non-convex, self-intersecting, triangles, patterns not containing the origin) x paths '
                       '(open walks/zigzags, closed star/self-intersecting/clockwise loops), accepted by the extracted predicate general_position and with no parallel '
                       'pattern/path edge pair, scaled/translated exactly into 6 regimes up to |coords| 2^40 (incl. tiny shapes 2^40 away), sum and diff; plus 1/2-point '
                       'patterns and paths; plus PathD inputs with 0..4 decimals; non-trivial = distinct input with a non-empty result and >= 1 sample point farther than 2 units '
                       'from every parallelogram edge; the exact quad correspondence additionally runs on unrestricted inputs (duplicates, collinear, parallel, 0..2 points, near-parallel thin quads)')
    pr = vf.coq_props(ctx, 'C19')
    broken = not pr['ok']
    tools = Tools(ctx)
    search = broken or tools.api_only
    quick = ctx.quick
    n_area = 6000 if quick else 200000
    n_tie = 8000 if quick else 300000
    n_reg = 144 if quick else 1500
    n_small = 30 if quick else 300
    n_d = 200 if quick else 4000
    n_dreg = 30 if quick else 200
    cap = 420 if quick else 900
    if search:
        n_reg, n_small, n_dreg, n_tie = n_reg * 3, n_small * 3, n_dreg * 3, n_tie * 3

    # 1. Area<int64_t> bit for bit
    area_mism = []
    if not tools.api_only:
        L = gen_area_lines(ctx.rng.fork(1), n_area)
        a, m = tools.impl(L), tools.model(L)
        ctx.count('evaluations', len(L))
        ctx.count('area_cases', len(L))
        area_mism = [(l, x, y) for l, x, y in zip(L, a, m)
                     if not (x.startswith('OK ') and y.startswith('OK ') and bits(x.split()[1]) == bits(y.split()[1]))]
    # 2. exact quad correspondence on unrestricted inputs
    tie_mism = explore_tie(ctx, tools, [dict(WITNESS)] + gen_tie_cases(ctx.rng.fork(2), n_tie) + gen_nearpar_cases(ctx.rng.fork(7), n_tie // 8))
    # 3. the property on general-position inputs (+ small degenerate class)
    cases = gen_genpos_cases(ctx, ctx.rng.fork(3), n_reg)
    gp = tools_genpos(tools, cases)
    ctx.cov['genpos_rejected_by_coq_predicate'] = sum(1 for g in gp if not g)
    cases = [c for c, g in zip(cases, gp) if g] + gen_small_cases(ctx.rng.fork(4), n_small)
    cases += [dict(WITNESS)] + gen_nearpar_cases(ctx.rng.fork(8), n_small)
    ctx.log('area %d, tie %d done; %d region cases' % (n_area, n_tie, len(cases)))
    reg_mism, ev = explore_region(ctx, tools, cases, cap)
    for c, d in list(zip(cases, ev))[:3]:
        ctx.sample(dict(sum=c['sum'], closed=c['closed'], pattern=c['pattern'], path=c['path'], regime=c['regime'],
                        quads=len(d['model_quads']), result=d['result'], sample_points=d['npts'], far=d['nfar']))
    # the refutation witness of C19_quads_positive_unbounded_refuted, replayed on the real code: the implementation
    # emits the same negatively oriented sliver as the model (it is part of the exact quad comparison above)
    wq = ev[[i for i, c in enumerate(cases) if c['cls'] == 'witness'][0]]
    def area2(q):
        return sum((q[i - 1][1] + q[i][1]) * (q[i - 1][0] - q[i][0]) for i in range(len(q)))
    ctx.cov['refutation_witness_replayed'] = dict(
        pattern=WITNESS['pattern'], path=WITNESS['path'], impl_quads=wq.get('impl_quads'), impl_equals_model=wq.get('impl_quads') == wq['model_quads'],
        exact_area2_of_impl_quads=[area2(q) for q in (wq.get('impl_quads') or [])],
        negative_quad_emitted_by_impl=any(area2(q) < 0 for q in (wq.get('impl_quads') or [])))
    ctx.log('region done')
    # 4. empty inputs, 5. PathD overloads
    empty_cases(ctx, tools)
    d_mism = explore_d(ctx, tools, gen_d_cases(ctx.rng.fork(6), n_d), cap, n_dreg)

    # a quad mismatch may or may not violate the property: look for a failing input among the mismatching cases first
    allm = reg_mism + tie_mism
    found = bool(ctx.violations) or bool(ctx.known_hits)
    if allm and not found:
        sub = [dict(c, k=c.get('k', 1)) for c, _ in allm if c['pattern'] and c['path']][:200 if quick else 2000]
        sub = [c for c in sub if len(c['pattern']) * len(c['path']) <= 80]
        gp = tools_genpos(tools, sub)
        sub = [c for c, g in zip(sub, gp) if g and (len(c['path']) < 2 or parallel_free(c['pattern'], c['path'], bool(c['closed'])))]
        if sub:
            ctx.log('quad mismatch: searching %d mismatching general-position cases for a property failure' % len(sub))
            explore_region(ctx, tools, sub, cap)
        found = bool(ctx.violations) or bool(ctx.known_hits)
    ctx.cov['quad_mismatches'] = len(allm)
    ctx.cov['area_mismatches'] = len(area_mism)
    ctx.cov['pathd_mismatches'] = len(d_mism)
    if allm:
        c, d = allm[0]
        ctx.violation('corr.quads', 'detail::Minkowski differs from the Coq model on %d cases, e.g. %s: implementation `%s` model `%s`'
                      % (len(allm), quads_cmd(c), str(d.get('impl'))[:400], str(d.get('model'))[:400]),
                      replay=dict(kind='quads', sum=c['sum'], closed=c['closed'], pattern=c['pattern'], path=c['path'], key='corr.quads'),
                      nofail=not found)
    if area_mism:
        l, x, y = area_mism[0]
        ctx.violation('corr.area', 'Area<int64_t> differs from its binary64 model on %d cases, e.g. `%s`: implementation %s model %s' % (len(area_mism), l, x, y),
                      replay=dict(kind='line2', line=l, key='corr.area'), nofail=not found)
    if d_mism:
        c, why = d_mism[0]
        ctx.violation('corr.pathd', 'PathD overload is not the Path64 overload on the scaled inputs (%d cases), e.g. `%s`: %s' % (len(d_mism), mind_cmd(c), why[:600]),
                      replay=dict(kind='d', case=c, key='corr.pathd'), nofail=not found)
    if tools.tie_error:
        ctx.violation('tie-break:cx_minkowski', 'harness no longer builds against the tree (detail::Minkowski / Area changed?): ' + tools.tie_error[-600:],
                      replay=dict(kind='build'), nofail=not found)
    if broken:
        ctx.violation('proof-break:Properties_C19', 'proof does not check: ' + ' | '.join(pr['failed'])[:1500],
                      replay=dict(kind='proof', failed=pr['failed']), nofail=not found)
    ctx.cov['exhaustive'] = False
    ctx.cov['trusted_base'] = vf.TRUSTED_COMMON + ['Coq primitive floats + Flocq (binary64 exactness lemmas)',
                                                   'oracle/drv_minkowski.ml, harness/cx_minkowski.cpp (parsing/printing)']


def replay(ctx, path):
    rp = json.load(open(path))['replay']
    tools = Tools(ctx)
    kind = rp.get('kind')
    ctx.count('evaluations', 1)
    if kind in ('region', 'quads'):
        c = dict(sum=rp['sum'], closed=rp['closed'], pattern=[tuple(v) for v in rp['pattern']], path=[tuple(v) for v in rp['path']],
                 regime='replay', kinds='replay', k=1, points2=[tuple(p) for p in rp.get('points2', [])])
        d = eval_cases(ctx, tools, [c], 900, rng=vf.Rng(ctx.seed, 991))[0]
        ctx.log('impl   %s' % d['impl'][:2000])
        ctx.log('model  %s' % d['model'][:2000])
        ctx.log('sample points %d, far %d, failures %s' % (d['npts'], d['nfar'], d['fails']))
        seen = set()
        if d['crash']:
            ctx.violation('crash.minkowski', 'replayed: %s' % d['crash'], replay=rp)
        for f in d['fails']:
            k = fail_key(f)
            if k not in seen:
                seen.add(k)
                ctx.violation(k, 'replayed: at (%s, %s) net winding %d, %s the union of the parallelograms'
                              % (f['point'][0], f['point'][1], f['w'], 'inside' if f['inside'] else 'outside'), replay=rp)
        if d['mismatch']:
            ctx.violation('corr.quads', 'replayed: implementation `%s` model `%s`' % (d['impl'].split('|')[0][:600], d['model'][:600]),
                          replay=rp, nofail=not seen)
    elif kind == 'line2':
        a, b = tools.impl([rp['line']])[0], tools.model([rp['line']])[0]
        ctx.log('%s -> impl %s model %s' % (rp['line'], a, b))
        if a != b and not (a.startswith('OK ') and b.startswith('OK ') and bits(a.split()[1]) == bits(b.split()[1])):
            ctx.violation(rp.get('key', 'corr.area'), 'replayed: `%s` implementation `%s` model `%s`' % (rp['line'], a, b), replay=rp, nofail=True)
    elif kind == 'line':
        a = tools.impl([rp['line']])[0]
        ctx.log('%s -> %s' % (rp['line'], a))
        if not (a.startswith('OK ') and a.split('|')[-1].split() == [rp.get('expect_last', '0')]):
            ctx.violation(rp.get('key', 'empty.nonempty-result'), 'replayed: `%s` -> `%s`' % (rp['line'], a[:300]), replay=rp)
    elif kind == 'd':
        m = explore_d(ctx, tools, [dict(rp['case'], points2=rp.get('points2', []))], 900, 1)
        for c, why in m:
            ctx.violation('corr.pathd', 'replayed: %s' % why[:600], replay=rp, nofail=not ctx.violations)
    else:
        ctx.log('nothing to replay for kind %s' % kind)
