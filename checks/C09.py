"""C09 -- RectClipLines returns exactly the parts of each polyline inside the rectangle.

prove      coq/props/Properties_C09.v over the complete hand model coq/model/RectLines.v
correspond HM+X  RectClipLines(rect, path) == extracted model, exactly, on every generated case
                 + every leaf function of clipper.rectclip.cpp against coq/model/RectLeaf.v
           SPEC+O the property itself on the implementation's output (coq/proofs/RectSpec.v, exact arithmetic)
           MULTI  calls with several paths (incl. empty / one-point / two-point paths; one object executed twice) ==
                  concatenation of the single-path results (C09_paths_stateless) == extracted rect_clip_lines_paths
The helpers here (tool building, leaf tie, robust runner, shrinking) are shared with checks/C08.py."""
import itertools, json, os
import vf

META = dict(
    text='RectClipLines returns the parts of each polyline inside the rectangle: on the input (1.5), inside the '
         'rectangle (1), in input order and direction, total length exact within 2 units per crossing; a call on several '
         'polylines returns the concatenation of what each gives alone (nothing is carried from one path to the next)',
    note='complete Coq model of RectClipLines64 (Execute/ExecuteInternal/GetPath, Add, GetNextLocation, GetIntersection, '
         'GetSegmentIntersection with binary64 cross products) tied by exact equality on all generated cases; structural '
         'theorems (provenance/containment, order, identity, safety, statelessness across the paths of a call) for all inputs; calls with '
         '2..4 paths incl. empty/one-point/two-point ones and a reused RectClipLines64 object compared with the single-path results; length and 1.5-unit clauses validated '
         'against an exact Liang-Barsky specification extracted from Coq',
    technique='Coq proof over a faithful executable model + exact model/implementation correspondence + Coq-extracted specification oracle',
    category='proof')

SPEC_NAMES = ['shape', 'outside-rect', 'order', 'length']


# ----------------------------------------------------------------------------- tools
class Tools:
    """builds the harness variants and the oracle; falls back to an API-only harness on a tie break"""

    def __init__(self, ctx, want_asan=True):
        self.ctx = ctx
        self.api_only = False
        self.tie_error = None
        try:
            self.exe = vf.build_cpp(ctx, 'cx_rect.cpp', 'plain')
        except vf.BuildFailure as e:
            self.tie_error = str(e)
            self.api_only = True
            self.exe = vf.build_cpp(ctx, 'cx_rect.cpp', 'plain', extra=['-DCX_RECT_API_ONLY'])
        self.asan = None
        if want_asan:
            try:
                self.asan = vf.build_cpp(ctx, 'cx_rect.cpp', 'asan', extra=['-DCX_RECT_API_ONLY'] if self.api_only else [])
            except vf.BuildFailure as e:
                self.tie_error = self.tie_error or str(e)
        self.oracle = vf.oracle_build('rect')
        self.region = os.path.join(vf.BIN, 'oracle_region')

    def impl(self, lines, asan=False, timeout=900):
        return run_robust(self.asan if asan else self.exe, lines, timeout=timeout,
                          env={'ASAN_OPTIONS': 'detect_leaks=1:abort_on_error=0', 'UBSAN_OPTIONS': 'print_stacktrace=1'} if asan else None)

    def model(self, lines, timeout=900):
        return run_robust(self.oracle, lines, timeout=timeout)


def run_robust(binary, lines, timeout=900, env=None):
    """like vf.par_lines, but a shard that crashed/hung is bisected so that the offending case is identified:
    its output becomes 'CRASH rc=<n> <stderr tail>' and all other cases keep their real output."""
    import concurrent.futures as cf
    n = len(lines)
    if n == 0:
        return []
    res = [None] * n

    def run_chunk(idx):
        p = vf.run_lines(binary, [lines[i] for i in idx], timeout=timeout, env=env)
        o = p.stdout.split('\n')
        o = o[:-1]          # the last element is '' after a complete line, or a PARTIAL line when the process was killed
        return p, o

    def solve(idx):
        if not idx:
            return
        p, o = run_chunk(idx)
        if p.returncode == 0 and len(o) == len(idx):
            for i, x in zip(idx, o):
                res[i] = x
            return
        if len(idx) == 1:
            res[idx[0]] = 'CRASH rc=%s %s' % (p.returncode, ' '.join(p.stderr[-600:].split()))
            return
        good = min(len(o), len(idx) - 1)     # complete lines printed before the crash are valid
        if p.returncode == 0:
            good = 0
        for i, x in zip(idx[:good], o[:good]):
            res[i] = x
        solve(idx[good:good + 1])
        solve(idx[good + 1:])

    chunk = max(1, (n + vf.NPROC - 1) // vf.NPROC)
    shards = [list(range(i, min(n, i + chunk))) for i in range(0, n, chunk)]
    with cf.ThreadPoolExecutor(max_workers=vf.NPROC) as ex:
        list(ex.map(solve, shards))
    if any(x is None for x in res):
        raise vf.Infra('lost outputs from %s' % binary)
    return res


def parse_ok_paths(s):
    """'OK <paths>' -> list of paths, anything else -> None"""
    t = s.split()
    if not t or t[0] != 'OK':
        return None
    ps, _ = vf.parse_paths(t, 1)
    return ps


def rect_str(r):
    return '%d %d %d %d' % tuple(r)


# ----------------------------------------------------------------------------- leaf tie (shared with C08)
def leaf_cases(rng, n_random):
    """command lines for every leaf function: exhaustive on the finite/small domains, random beyond"""
    L = []
    locs = range(5)
    for a in locs:
        for cw in (0, 1):
            L.append('ADJ %d %d' % (a, cw))
        for b in locs:
            L.append('HCW %d %d' % (a, b))
            L.append('OPP %d %d' % (a, b))
    small = [(x, y) for x in range(-1, 6) for y in range(-1, 6)]
    rects = [(0, 0, 4, 4), (1, 1, 3, 3), (0, 1, 4, 2), (2, 0, 3, 4), (1, 1, 1, 3), (3, 3, 1, 1), (0, 0, 0, 0)]
    for r in rects:
        for p in small:
            L.append('LOC %s %d %d' % (rect_str(r), p[0], p[1]))
            L.append('EDGES %d %d %s' % (p[0], p[1], rect_str(r)))
        for a in rects:
            L.append('RMISC %s %s' % (rect_str(r), rect_str(a)))
    # IsClockwise on all location pairs, points around a small rectangle
    ring = [(-1, -1), (2, -1), (5, -1), (5, 2), (5, 5), (2, 5), (-1, 5), (-1, 2), (2, 2), (0, 0), (4, 4)]
    for a in locs:
        for b in locs:
            for p in ring:
                for c in ring:
                    L.append('ISCW %d %d %d %d %d %d 2 2' % (a, b, p[0], p[1], c[0], c[1]))
    for k in range(-1, 5):
        for p in [(0, 0), (1, 0), (0, 1), (-1, 0), (0, -1), (2, 3)]:
            L.append('IHC 0 0 %d %d %d' % (p[0], p[1], k))

    def rp(mag):
        return (rng.range(-mag, mag), rng.range(-mag, mag))

    def pts(k, mag):
        return ' '.join('%d %d' % rp(mag) for _ in range(k))
    mags = [2, 3, 5, 20, 1000, 1 << 20, 1 << 25, 1 << 26, 1 << 27, 1 << 31, 1 << 40, 1 << 45, 1 << 52]
    for i in range(n_random):
        mag = mags[i % len(mags)]
        L.append('GSI %s 7 9' % pts(4, mag))
        L.append('GSIP %s 7 9' % pts(4, mag))
        L.append('CROSSF %s' % pts(3, mag))
        L.append('COLL %s' % pts(3, mag))
        L.append('HOV %s' % pts(4, mag))
        L.append('VOV %s' % pts(4, mag))
        # segment against an axis parallel rectangle side, as GetIntersection calls it; endpoints often on the side
        l, t = rp(mag)
        r, b = l + rng.range(1, max(1, mag)), t + rng.range(1, max(1, mag))
        xs = [l, r, l - 1, r + 1, (l + r) // 2, rng.range(-mag, mag), rng.range(-2 * mag, 2 * mag)]
        ys = [t, b, t - 1, b + 1, (t + b) // 2, rng.range(-mag, mag), rng.range(-2 * mag, 2 * mag)]
        p = (rng.choice(xs), rng.choice(ys))
        q = (rng.choice(xs), rng.choice(ys))
        side = rng.choice([((l, t), (l, b)), ((l, t), (r, t)), ((r, t), (r, b)), ((r, b), (l, b))])
        L.append('GSI %d %d %d %d %d %d %d %d 7 9' % (p + q + side[0] + side[1]))
        L.append('GI %d %d %d %d %d %d %d %d %d 7 9' % ((l, t, r, b) + p + q + (rng.below(5),)))
        L.append('LOC %d %d %d %d %d %d' % ((l, t, r, b) + p))
        L.append('EDGES %d %d %d %d %d %d' % (p + (l, t, r, b)))
        L.append('ISCW %d %d %d %d %d %d %d %d' % ((rng.below(5), rng.below(5)) + p + q + ((l + r) // 2, (t + b) // 2)))
        n = rng.below(7)
        L.append('SLCW %d %s' % (n, ' '.join(str(rng.below(5)) for _ in range(n))))
        n = rng.below(6)
        L.append('BOUNDS %d %s' % (n, pts(n, mag)))
        L.append('RMISC %d %d %d %d %s' % (l, t, r, b, ' '.join(str(rng.range(-mag, mag)) for _ in range(4))))
    # dense small-lattice sweep of GetSegmentIntersection (collinear / touching / crossing configurations)
    lat = [(x, y) for x in range(3) for y in range(3)]
    for c in itertools.product(lat, repeat=4):
        L.append('GSI %s 7 9' % ' '.join('%d %d' % p for p in c))
    return L


def leaf_tie(ctx, tools, n_random):
    """exact comparison of every leaf function with its model; returns list of (line, impl, model) mismatches"""
    if tools.api_only:
        return []
    lines = leaf_cases(ctx.rng.fork(77), n_random)
    a = tools.impl(lines)
    b = tools.model(lines)
    ctx.count('leaf_evaluations', len(lines))
    ctx.count('evaluations', len(lines))
    return [(l, x, y) for l, x, y in zip(lines, a, b) if x != y]


# ----------------------------------------------------------------------------- generators
def rand_rect(rng, mag):
    w = rng.choice([1, 2, 3, 10, max(2, mag // 7), max(2, mag // 2), max(2, mag)])
    h = rng.choice([1, 2, 3, 10, max(2, mag // 7), max(2, mag // 2), max(2, mag)])
    l = rng.range(-mag, mag - w)
    t = rng.range(-mag, mag - h)
    return [l, t, l + w, t + h]


def clampc(v, lim=1 << 40):
    return max(-lim, min(lim, v))


def special(rng, lo, hi, mag):
    far = rng.range(1, max(1, mag))
    k = rng.below(12)
    v = [lo - far, lo - 1, lo, lo + 1, (lo + hi) // 2, hi - 1, hi, hi + 1, hi + far,
         rng.range(lo, hi), rng.range(-mag, mag), lo - 2][k]
    return clampc(v)


def gen_polyline(rng, style, mag, rect=None):
    r = rect if rect is not None else rand_rect(rng, mag)
    l, t, rr, b = r
    n = rng.choice([2, 2, 3, 3, 4, 5, 6, 8, 12]) if not rng.chance(1, 40) else rng.range(13, 60)
    P = []
    if style == 'mixed':
        P = [(special(rng, l, rr, mag), special(rng, t, b, mag)) for _ in range(n)]
    elif style == 'cross':
        # alternate between the outside regions so that segments cross the rectangle completely
        for k in range(n):
            side = rng.below(4)
            far = rng.range(1, max(1, mag))
            if side == 0:
                P.append((l - far, special(rng, t, b, mag)))
            elif side == 1:
                P.append((special(rng, l, rr, mag), t - far))
            elif side == 2:
                P.append((rr + far, special(rng, t, b, mag)))
            else:
                P.append((special(rng, l, rr, mag), b + far))
    elif style == 'graze':
        # segments through / next to corners
        for k in range((n + 1) // 2):
            c = rng.choice([(l, t), (rr, t), (rr, b), (l, b)])
            d = (rng.range(-mag, mag) // rng.choice([1, 1, 7, 1000]), rng.range(-mag, mag) // rng.choice([1, 1, 7, 1000]))
            if rng.chance(1, 3):
                d = rng.choice([(1, 1), (1, -1), (2, 1), (1, 2), (-3, 1), (1, 0), (0, 1)])
            s, u = rng.range(1, 3), rng.range(0, 3)
            e1 = (rng.range(-1, 1), rng.range(-1, 1))
            e2 = (rng.range(-1, 1), rng.range(-1, 1)) if rng.chance(1, 2) else (0, 0)
            P.append((c[0] + s * d[0] + e1[0], c[1] + s * d[1] + e1[1]))
            P.append((c[0] - u * d[0] + e2[0], c[1] - u * d[1] + e2[1]))
    elif style == 'along':
        # vertices on the lines of the sides, running along them, leaving and coming back
        for k in range(n):
            if rng.chance(3, 4):
                if rng.chance(1, 2):
                    P.append((rng.choice([l, rr]), special(rng, t, b, mag)))
                else:
                    P.append((special(rng, l, rr, mag), rng.choice([t, b])))
            else:
                P.append((special(rng, l, rr, mag), special(rng, t, b, mag)))
    elif style == 'endon':
        P = [(special(rng, l, rr, mag), special(rng, t, b, mag)) for _ in range(n)]
        on = lambda: rng.choice([(l, rng.range(t, b)), (rr, rng.range(t, b)), (rng.range(l, rr), t), (rng.range(l, rr), b),
                                 (l, t), (rr, b)])
        if rng.chance(2, 3):
            P[-1] = on()
        if rng.chance(2, 3):
            P[0] = on()
        if n > 2 and rng.chance(1, 2):
            P[rng.range(1, n - 2)] = on()
    elif style == 'walk':
        x, y = special(rng, l, rr, mag), special(rng, t, b, mag)
        step = rng.choice([1, 2, 3, max(1, (rr - l) // 2), max(1, (rr - l))])
        for k in range(n):
            P.append((x, y))
            x += rng.range(-step, step)
            y += rng.range(-step, step)
    elif style == 'dups':
        P = [(special(rng, l, rr, mag), special(rng, t, b, mag)) for _ in range(n)]
        for k in range(1, n):
            if rng.chance(1, 3):
                P[k] = P[k - 1]
    elif style == 'nearmiss':
        # lines passing extremely close to a corner (cross products of huge operands nearly cancel)
        c = rng.choice([(l, t), (rr, t), (rr, b), (l, b)])
        for k in range((n + 1) // 2):
            d = (rng.range(-mag, mag) // 4, rng.range(-mag, mag) // 4)
            s, u = rng.range(1, 2), rng.range(1, 2)
            e = rng.choice([(0, 0), (1, 0), (0, 1), (-1, 0), (0, -1), (1, 1)])
            P.append((c[0] + s * d[0] + e[0], c[1] + s * d[1] + e[1]))
            P.append((c[0] - u * d[0], c[1] - u * d[1]))
    elif style == 'nearmiss2':
        # lines missing a corner by 1/|d| .. 7/|d| (unimodular offsets): the double cross products cancel to a few units
        c = rng.choice([(l, t), (rr, t), (rr, b), (l, b)])
        for k in range((n + 1) // 2):
            a, bb = rng.range(-mag, mag) // 2, rng.range(-mag, mag) // 2
            g, x, y = egcd(abs(a), abs(bb))
            if a == 0 or bb == 0 or g != 1:
                a, bb, x, y = 3, 2, 1, -1
            sa, sb = (1 if a > 0 else -1), (1 if bb > 0 else -1)
            kk = rng.choice([1, -1, 2, -2, 3, 5, -7, 0])
            ap, bp = -sb * y * kk, sa * x * kk
            s, u = rng.range(1, 2), rng.range(1, 2)
            pq = [(c[0] + s * a + ap, c[1] + s * bb + bp), (c[0] - u * a, c[1] - u * bb)]
            if rng.chance(1, 2):
                pq.reverse()
            P += pq
    P = [(clampc(x), clampc(y)) for x, y in P]
    return dict(rect=r, path=[list(p) for p in P], style=style, mag=mag)


def egcd(a, b):
    x0, y0, x1, y1 = 1, 0, 0, 1
    while b:
        q = a // b
        a, b = b, a - q * b
        x0, x1 = x1, x0 - q * x1
        y0, y1 = y1, y0 - q * y1
    return a, x0, y0


STYLES = ['mixed', 'cross', 'graze', 'along', 'endon', 'walk', 'dups', 'nearmiss', 'nearmiss2']
MAGS = [6, 30, 1000, 1 << 20, 1 << 25, 1 << 30, 1 << 38, 1 << 36]   # rect at <= mag, far points <= 2*mag+..., clamped to 2^40


def gen_small_exhaustive(maxn):
    pts = [(x, y) for x in range(5) for y in range(5)]
    for n in range(2, maxn + 1):
        for c in itertools.product(pts, repeat=n):
            yield dict(rect=[1, 1, 3, 3], path=[list(p) for p in c], style='lattice', mag=4)


def scale_case(c, k, dx, dy):
    r = c['rect']
    return dict(rect=[r[0] * k + dx, r[1] * k + dy, r[2] * k + dx, r[3] * k + dy],
                path=[[x * k + dx, y * k + dy] for x, y in c['path']], style=c['style'] + '*', mag=k * 4 + max(abs(dx), abs(dy)))


def load_corpus(pid):
    d = os.path.join(vf.VERIF, 'corpus', pid)
    res = []
    if os.path.isdir(d):
        for f in sorted(os.listdir(d)):
            if f.endswith('.case'):
                for line in vf.read(os.path.join(d, f)).splitlines():
                    line = line.split('#')[0].strip()
                    if not line:
                        continue
                    t = line.split()
                    r = [int(x) for x in t[:4]]
                    n = int(t[4])
                    P = [[int(t[5 + 2 * k]), int(t[6 + 2 * k])] for k in range(n)]
                    res.append(dict(rect=r, path=P, style='corpus', mag=max([abs(v) for v in r] + [1])))
    return res


# ----------------------------------------------------------------------------- evaluation of polyline cases
def lines_cmd(c):
    return 'LINES %s 1 %d %s' % (rect_str(c['rect']), len(c['path']), vf.fmt_path(c['path']))


def lspec_cmd(c, out):
    return 'LSPEC %s %d %s %s' % (rect_str(c['rect']), len(c['path']), vf.fmt_path(c['path']), vf.fmt_paths(out))


def classify_lines(spec_tokens):
    """spec line -> list of failing clause keys"""
    bits = spec_tokens[:4]
    keys = []
    for name, b in zip(SPEC_NAMES, bits):
        if b != '1':
            if name == 'length':
                ls, le, cr, lo = [int(x) for x in spec_tokens[4:8]]
                name = 'length.short' if lo < ls else 'length.long'
            keys.append('lines.' + name)
    return keys


def eval_lines(tools, cases, asan=False):
    """returns per case dict(impl=str, model=str, out=paths|None, spec=tokens|None, fail=[keys], mismatch=bool)"""
    cmds = [lines_cmd(c) for c in cases]
    a = tools.impl(cmds, asan=asan)
    b = tools.model(cmds) if not asan else [None] * len(cmds)
    outs = [parse_ok_paths(x) for x in a]
    sp_idx = [i for i, o in enumerate(outs) if o is not None]
    sp = tools.model([lspec_cmd(cases[i], outs[i]) for i in sp_idx])
    res = []
    spm = dict(zip(sp_idx, sp))
    for i, c in enumerate(cases):
        d = dict(impl=a[i], model=b[i], out=outs[i], spec=None, fail=[], mismatch=(b[i] is not None and a[i] != b[i]))
        if outs[i] is None:
            d['fail'] = ['lines.crash' if a[i].startswith('CRASH') else 'lines.exception']
        else:
            tk = spm[i].split()
            if len(tk) < 8 or tk[0] == 'ERR':
                raise vf.Infra('oracle LSPEC failed: %s -> %s' % (lspec_cmd(c, outs[i]), spm[i]))
            d['spec'] = tk
            d['fail'] = classify_lines(tk)
        res.append(d)
    # root cause classification of a known failure mode (fixed in /repo 4911de9): a failing output that is exactly what
    # the legacy model (second GetIntersection result ignored, stale ip2 emitted; ghost tag 3) produces is reported
    # under the single key lines.stale-ip2 whatever clause it trips
    fi = [i for i, d in enumerate(res) if d['fail'] and d['out'] is not None and not asan]
    if fi:
        tl = tools.model([linest_cmd(cases[i], legacy=True) for i in fi])
        for i, o in zip(fi, tl):
            if has_stale(o) and untagged(o) == res[i]['out']:
                res[i]['clauses'] = res[i]['fail']
                res[i]['fail'] = ['lines.stale-ip2']
    return res


def linest_cmd(c, legacy=False):
    return '%s %s %d %s' % ('LINESTL' if legacy else 'LINEST', rect_str(c['rect']), len(c['path']), vf.fmt_path(c['path']))


def untagged(o):
    """'OK npieces {n {x y kind idx}}' -> list of paths"""
    tk = o.split()
    if not tk or tk[0] != 'OK':
        return None
    pos, ps = 2, []
    for _ in range(int(tk[1])):
        k = int(tk[pos]); pos += 1
        p = []
        for _ in range(k):
            p.append((int(tk[pos]), int(tk[pos + 1])))
            pos += 4
        ps.append(p)
    return ps


def has_stale(o):
    tk = o.split()
    if not tk or tk[0] != 'OK':
        return False
    pos = 2
    for _ in range(int(tk[1])):
        k = int(tk[pos]); pos += 1
        for _ in range(k):
            if tk[pos + 2] == '3':
                return True
            pos += 4
    return False


def shrink_generic(case, fails_many, min_len):
    """greedy delta debugging shared by C08/C09: drop vertices, move the rectangle to the origin, halve coordinates,
    snap single coordinates; every round evaluates all candidates in one batch (fails_many: cases -> [bool])"""
    cur = dict(case)
    size = lambda c: (len(c['path']), sum(abs(v) for p in c['path'] for v in p) + sum(abs(v) for v in c['rect']))
    for _ in range(80):
        cands = []
        P = cur['path']
        r = cur['rect']
        for k in range(len(P)):
            cands.append(dict(cur, path=P[:k] + P[k + 1:]))
        if r[0] != 0 or r[1] != 0:
            cands.append(dict(cur, rect=[0, 0, r[2] - r[0], r[3] - r[1]], path=[[x - r[0], y - r[1]] for x, y in P]))
        for d in (2, 3, 10):
            cands.append(dict(cur, rect=[v // d for v in r], path=[[x // d, y // d] for x, y in P]))
        for k in range(len(P)):
            for j in (0, 1):
                v = P[k][j]
                for nv in (r[j], r[j + 2], (r[j] + r[j + 2]) // 2, r[j] - 1, r[j + 2] + 1, v - (1 if v > 0 else -1)):
                    if nv != v:
                        Q = [list(p) for p in P]
                        Q[k][j] = nv
                        cands.append(dict(cur, path=Q))
        for j in (2, 3):
            if r[j] - r[j - 2] > 1:
                rr = list(r)
                rr[j] = r[j - 2] + max(1, (r[j] - r[j - 2]) // 2)
                cands.append(dict(cur, rect=rr))
        cands = [c for c in cands if len(c['path']) >= min_len and c['rect'][0] < c['rect'][2] and c['rect'][1] < c['rect'][3]
                 and size(c) < size(cur)]
        if not cands:
            break
        res = fails_many(cands)
        ok = [c for c, f in zip(cands, res) if f]
        if not ok:
            break
        cur = min(ok, key=size)
    return cur


def record(ctx, tools, case, d):
    """turn an evaluated failing case into violations (shrunk replay per failure mode)"""
    for key in d['fail']:
        def fails_many(cs, key=key):
            return [key in e['fail'] for e in eval_lines(tools, cs)]
        small = shrink_generic(case, fails_many, 2) if not key.endswith('crash') else case
        e = eval_lines(tools, [small])[0]
        what = ('RectClipLines violates "%s"%s: rect=%s path=%s -> %s ; spec [shape within-rect order length | inside-len edge-len crossings out-len (2^-20)] = %s'
                % (key, (' (clauses ' + ','.join(e.get('clauses', [])) + '; the output is exactly that of the pre-4911de9 code: default-constructed/stale ip2 emitted because the result of the second GetIntersection call is ignored)') if key == 'lines.stale-ip2' else '',
                   small['rect'], small['path'], e['impl'], ' '.join(e['spec'] or [])))
        ctx.violation(key, what, replay=dict(kind='lines', rect=small['rect'], path=small['path'], key=key,
                                               original=dict(rect=case['rect'], path=case['path'])))


# ----------------------------------------------------------------------------- several polylines in one call
def gen_multi(rng, mag):
    """one rectangle, 2..4 paths: ordinary polylines of the nine styles mixed with empty, one-point (inside, on the boundary,
    outside) and two-point paths, in every order"""
    r = rand_rect(rng, mag)
    l, t, rr, b = r
    k = rng.range(2, 4)
    ps = []
    for _ in range(k):
        kind = rng.below(8)
        if kind == 0:
            ps.append([])
        elif kind in (1, 2):
            where = rng.below(4)
            if where == 0:
                ps.append([[rng.range(l, rr), rng.range(t, b)]])                       # inside or on the boundary
            elif where == 1:
                ps.append([list(rng.choice([(l, t), (rr, b), (l, rng.range(t, b)), (rng.range(l, rr), b)]))])
            elif where == 2:
                ps.append([[(l + rr) // 2, (t + b) // 2]])
            else:
                ps.append([[special(rng, l, rr, mag), special(rng, t, b, mag)]])
        elif kind == 3:
            ps.append([[special(rng, l, rr, mag), special(rng, t, b, mag)] for _ in range(2)])
        else:
            ps.append(gen_polyline(rng, rng.choice(STYLES), mag, rect=r)['path'])
    if all(len(p) < 2 for p in ps):
        ps[rng.below(k)] = gen_polyline(rng, rng.choice(['cross', 'mixed', 'walk']), mag, rect=r)['path']
    return dict(rect=r, paths=ps, mag=mag)


def multi_cmd(c, cmd='LINES'):
    return '%s %s %s' % (cmd, rect_str(c['rect']), vf.fmt_paths(c['paths']))


def eval_multi(tools, cases):
    """per case dict(multi=paths|None, twice=(a,b)|None, singles=[eval_lines result], expect=paths, model=str, fail=[keys])
    The property is judged on the polylines of the call: the pieces returned for the call must be exactly, in order,
    the pieces each polyline gives alone (which are judged by the single-path specification); paths of fewer than
    two points give nothing alone (C09_short_paths) and must change nothing for the others (C09_paths_short_skipped)."""
    singles = [dict(rect=c['rect'], path=p, style='multi-part', mag=c['mag']) for c in cases for p in c['paths']]
    sev = eval_lines(tools, singles)
    a = tools.impl([multi_cmd(c) for c in cases])
    a2 = tools.impl([multi_cmd(c, 'LINES2') for c in cases])
    m = tools.model([multi_cmd(c) for c in cases])
    res, pos = [], 0
    for i, c in enumerate(cases):
        se = sev[pos:pos + len(c['paths'])]
        pos += len(c['paths'])
        d = dict(impl=a[i], impl2=a2[i], model=m[i], singles=se, fail=[], mismatch=(a[i] != m[i]))
        out = parse_ok_paths(a[i])
        t2 = a2[i].split()
        two = None
        if t2 and t2[0] == 'OK' and 'T' in t2:
            k = t2.index('T')
            two = (vf.parse_paths(t2, 1)[0], vf.parse_paths(t2, k + 1)[0])
        empty_rect = c['rect'][0] >= c['rect'][2] or c['rect'][1] >= c['rect'][3]
        if out is None or (two is None and not empty_rect):
            d['fail'].append('lines.multi.crash' if (a[i] + a2[i]).find('CRASH') >= 0 else 'lines.multi.exception')
        elif all(s['out'] is not None for s in se):
            expect = [p for s in se for p in s['out']]
            d['expect'] = expect
            if out != expect:
                d['fail'].append('lines.multi-path-state')
            elif two is not None and (two[0] != expect or two[1] != expect):
                d['fail'].append('lines.object-reuse-state')
        for s in se:
            for k in s['fail']:
                if k not in d['fail']:
                    d['fail'].append(k)
        res.append(d)
    return res


def explore_multi(ctx, tools, n):
    rng = ctx.rng.fork(9)
    cases = [gen_multi(rng, MAGS[i % len(MAGS)]) for i in range(n)]
    # fixed small cases: an ordinary polyline followed / preceded by a one-point path inside, on the corner, outside; by an empty path
    R = [0, 0, 100, 100]
    A = [[-50, 5], [150, 35]]
    B = [[20, -30], [20, 50], [130, 50]]
    for extra in ([[50, 50]], [[0, 0]], [[100, 40]], [[500, 500]], [], [[10, 10], [10, 10]]):
        cases += [dict(rect=R, paths=[A, extra], mag=100), dict(rect=R, paths=[extra, A], mag=100), dict(rect=R, paths=[A, extra, B], mag=100),
                  dict(rect=R, paths=[A, B, extra, extra], mag=100), dict(rect=R, paths=[A, [[600, 5], [700, 9]], extra, B], mag=100)]
    t0 = __import__('time').time()
    ev = eval_multi(tools, cases)
    ctx.log('%d calls with several paths (%d paths) evaluated in %.1fs' % (len(cases), sum(len(c['paths']) for c in cases), __import__('time').time() - t0))
    ctx.count('evaluations', len(cases))
    ctx.count('multi_path_calls', len(cases))
    mism, shrunk, nontriv = [], set(), 0
    for c, d in zip(cases, ev):
        ctx.hist('multi_paths_per_call', len(c['paths']))
        for p in c['paths']:
            ctx.hist('multi_path_sizes', min(len(p), 3))
        short_after_output = any(len(p) < 2 and any(s['out'] for s in d['singles'][:j]) for j, p in enumerate(c['paths']))
        if short_after_output:
            ctx.count('multi_short_path_after_a_path_with_output')
        if sum(1 for s in d['singles'] if s['out']) >= 2:
            nontriv += 1
        if len(ctx.cov.get('multi_samples', [])) < 2 and short_after_output:
            ctx.sample(dict(rect=c['rect'], paths=c['paths'], out=d['impl']), key='multi_samples')
        if d['mismatch']:
            mism.append((c, d))
        for key in d['fail']:
            ctx.hist('failures', key)
            if key in shrunk:
                continue
            shrunk.add(key)
            if key.startswith('lines.multi') or key == 'lines.object-reuse-state':
                small = shrink_multi(tools, c, key)
                e = eval_multi(tools, [small])[0]
                what = ('RectClipLines on several polylines does not return exactly the pieces of its polylines (%s): rect=%s paths=%s -> `%s`'
                        ' (same object, Execute twice: `%s`); each polyline alone gives %s'
                        % (key, small['rect'], small['paths'], e['impl'], e['impl2'], [s['out'] for s in e['singles']]))
                ctx.violation(key, what, replay=dict(kind='multi', rect=small['rect'], paths=small['paths'], key=key,
                                                       original=dict(rect=c['rect'], paths=c['paths'])))
            else:
                j = [k for k, s in enumerate(d['singles']) if key in s['fail']][0]
                record(ctx, tools, dict(rect=c['rect'], path=c['paths'][j], style='multi-part', mag=c['mag']), dict(d['singles'][j], fail=[key]))
    ctx.cov['multi_calls_with_two_or_more_contributing_paths'] = nontriv
    ctx.cov['multi_model_mismatches'] = len(mism)
    return mism


def shrink_multi(tools, case, key):
    cur = dict(case)
    for _ in range(12):
        cands = []
        ps = cur['paths']
        for k in range(len(ps)):
            if len(ps) > 1:
                cands.append(dict(cur, paths=ps[:k] + ps[k + 1:]))
            for j in range(len(ps[k])):
                if len(ps[k]) > 1:
                    cands.append(dict(cur, paths=ps[:k] + [ps[k][:j] + ps[k][j + 1:]] + ps[k + 1:]))
        if not cands:
            break
        ev = eval_multi(tools, cands)
        ok = [c for c, e in zip(cands, ev) if key in e['fail']]
        if not ok:
            break
        cur = min(ok, key=lambda c: (sum(len(p) for p in c['paths']), len(c['paths'])))
    return cur


# ----------------------------------------------------------------------------- run
def generate(ctx, n_random, maxn):
    rng = ctx.rng
    cases = load_corpus('C09')
    ncorp = len(cases)
    small = list(gen_small_exhaustive(maxn))
    cases += small
    # exact scalings/translations of lattice cases into the large regimes
    srng = rng.fork(1)
    for c in small:
        if len(c['path']) <= 3:
            cases.append(scale_case(c, 1000, -2000, -2000))
    for _ in range(n_random // 3):
        c = small[srng.below(len(small))]
        k = srng.choice([3, 1000, 1 << 20, 1 << 25, 1 << 30, 1 << 37, (1 << 38) - 1])
        lim = (1 << 40) - 4 * k
        dx, dy = srng.range(-lim, lim), srng.range(-lim, lim)
        if srng.chance(1, 3):
            dx, dy = -2 * k, -2 * k
        cases.append(scale_case(c, k, dx, dy))
    grng = rng.fork(2)
    for i in range(n_random):
        cases.append(gen_polyline(grng, STYLES[i % len(STYLES)], MAGS[(i // len(STYLES)) % len(MAGS)]))
    return cases, ncorp


def explore(ctx, tools, n_random, maxn, asan_n):
    cases, ncorp = generate(ctx, n_random, maxn)
    ctx.log('%d polyline cases (%d corpus, lattice <=%d vertices exhaustive, %d random)' % (len(cases), ncorp, maxn, n_random))
    ev = eval_lines(tools, cases)
    ctx.count('evaluations', len(cases))
    ctx.count('api_cases', len(cases))
    seen = set()
    nontriv = 0
    mism = []
    nfail = 0
    shrunk = set()
    for c, d in zip(cases, ev):
        ctx.hist('sizes', len(c['path']))
        ctx.hist('style', c['style'])
        if d['spec'] is not None and int(d['spec'][6]) > 0:
            h = vf.sha(lines_cmd(c))
            if h not in seen:
                seen.add(h)
                nontriv += 1
                ctx.hist('crossings', min(int(d['spec'][6]), 8))
                if len(seen) % 5000 == 1:
                    ctx.sample(dict(rect=c['rect'], path=c['path'], out=d['out']))
        if d['mismatch']:
            mism.append((c, d))
        if d['fail']:
            nfail += 1
            newkeys = [k for k in d['fail'] if k not in shrunk]
            if newkeys:
                shrunk.update(newkeys)
                record(ctx, tools, c, dict(d, fail=newkeys))
            for key in d['fail']:
                ctx.hist('failures', key)
    ctx.cov['distinct_nontrivial'] = ctx.cov.get('distinct_nontrivial', 0) + nontriv
    ctx.cov['model_mismatches'] = len(mism)
    ctx.cov['spec_failures'] = nfail
    # how often does the second GetIntersection call of a pass-through fail (the situation in which the code before
    # /repo 4911de9 emitted a stale ip2)?  Measured with the legacy model's ghost tag; recorded so that the evidence
    # shows that the repaired branch is exercised.
    sub = [c for c in cases if c['style'] != 'lattice']
    tl = tools.model([linest_cmd(c, legacy=True) for c in sub])
    stale = 0
    for c, o in zip(sub, tl):
        if has_stale(o):
            stale += 1
            ctx.sample(dict(rect=c['rect'], path=c['path'], legacy_tagged=o), key='second_intersection_fails_samples')
    ctx.cov['second_intersection_fails_cases'] = stale
    ctx.cov['second_intersection_checked'] = len(sub)
    # sanitizer run on a subset: same outputs, no report
    if tools.asan and asan_n:
        sub = cases[:ncorp] + [cases[i] for i in range(ncorp, len(cases), max(1, (len(cases) - ncorp) // asan_n))]
        cmds = [lines_cmd(c) for c in sub]
        a = tools.impl(cmds, asan=True)
        p = tools.impl(cmds)
        ctx.count('asan_cases', len(sub))
        for c, x, y in zip(sub, a, p):
            if x != y:
                ctx.violation('lines.asan', 'ASan/UBSan build differs or reports: rect=%s path=%s plain=%s asan=%s'
                              % (c['rect'], c['path'], y[:200], x[:400]), replay=dict(kind='lines', rect=c['rect'], path=c['path'], key='lines.asan'))
                break
    return mism


def run(ctx):
    ctx.assumptions += [
        'theorems are about the hand model coq/model/RectLines.v + RectLeaf.v; the model is tied to the C++ by exact output equality on every generated case (not by a semantics of C++)',
        'int64 arithmetic modelled in unbounded Z (no overflow for |coords| <= 2^61); binary64 via Coq primitive floats, harness built with -ffp-contract=off; non CLIPPER2_HI_PRECISION build',
        'length clause and the 1.5 unit on-polyline clause are validated (exact Liang-Barsky/fixed point square roots extracted from Coq), not proved',
    ]
    ctx.cov['rule'] = ('all polylines with 2..4 vertices on the 5x5 lattice against the central rectangle (exhaustive), exact scalings/translations of those up to |coords| 2^40, '
                       'and seeded random polylines in 9 styles (mixed special coordinates, complete crossings, corner grazing, along sides, ending on the boundary, '
                       'random walks, duplicate vertices, near misses of corners incl. unimodular 1/|d| misses) x 8 magnitudes up to 2^40; '
                       'calls with 2..4 paths on one rectangle (polylines of those styles mixed with empty, one-point inside/on/outside and two-point paths), '
                       'through the public wrapper and through one RectClipLines64 object executed twice, required to equal the concatenation of the single-path results; non-trivial = the exact specification counts >= 1 boundary crossing; distinct by input')
    pr = vf.coq_props(ctx, 'C09')
    broken = not pr['ok']
    tools = Tools(ctx)
    quick = ctx.quick and not broken
    n_random = 63000 if quick else 1200000
    # 1. leaf functions
    lm = leaf_tie(ctx, tools, 3000 if quick else 60000)
    # 2. whole function: model == implementation, specification on the implementation's output
    mism = explore(ctx, tools, n_random, 4, 3000 if quick else 30000)
    # 3. several polylines per call / object reuse: result(paths) = concatenation of result(each path alone)  [C09_paths_stateless]
    mm = explore_multi(ctx, tools, 12000 if quick else 200000)
    found = bool(ctx.violations) or bool(ctx.known_hits)
    if mm:
        c, d = mm[0]
        ctx.violation('corr.lines-model-multi', 'RectClipLines on several paths differs from the Coq model rect_clip_lines_paths on %d calls, e.g. rect=%s paths=%s: implementation `%s` model `%s`'
                      % (len(mm), c['rect'], c['paths'], d['impl'], d['model']),
                      replay=dict(kind='multi', rect=c['rect'], paths=c['paths'], key='corr.lines-model-multi'), nofail=not found)
    if lm:
        l, x, y = lm[0]
        ctx.cov['leaf_mismatches'] = len(lm)
        ctx.violation('corr.leaf.' + l.split()[0], 'leaf function differs from its Coq model (%d cases), e.g. `%s`: implementation `%s` model `%s`'
                      % (len(lm), l, x, y), replay=dict(kind='leaf', line=l, impl=x, model=y), nofail=not found)
    if mism:
        c, d = mism[0]
        ctx.violation('corr.lines-model', 'RectClipLines differs from the Coq model on %d cases, e.g. rect=%s path=%s: implementation `%s` model `%s`'
                      % (len(mism), c['rect'], c['path'], d['impl'], d['model']),
                      replay=dict(kind='lines', rect=c['rect'], path=c['path'], key='corr.lines-model'), nofail=not found)
    if tools.tie_error:
        ctx.violation('tie-break:cx_rect', 'harness no longer builds against the tree (modelled function changed?): ' + tools.tie_error[-600:],
                      replay=dict(kind='build'), nofail=not found)
    if broken:
        ctx.violation('proof-break:Properties_C09', 'proof does not check: ' + ' | '.join(pr['failed'])[:1500],
                      replay=dict(kind='proof', failed=pr['failed']), nofail=not found)
    ctx.cov['exhaustive'] = False
    ctx.cov['trusted_base'] = vf.TRUSTED_COMMON + ['Coq primitive floats + Flocq (binary64 exactness lemmas)',
                                                   'oracle/drv_rect.ml, harness/cx_rect.cpp (parsing/printing, private access)']


def replay(ctx, path):
    rp = json.load(open(path))['replay']
    tools = Tools(ctx, want_asan=False)
    if rp.get('kind') == 'lines':
        c = dict(rect=rp['rect'], path=rp['path'], style='replay', mag=0)
        d = eval_lines(tools, [c])[0]
        ctx.log('impl  %s' % d['impl'])
        ctx.log('model %s' % d['model'])
        ctx.log('spec  %s' % ' '.join(d['spec'] or []))
        ctx.count('evaluations', 1)
        for key in d['fail']:
            ctx.violation(key, 'replayed: rect=%s path=%s -> %s (spec %s)' % (c['rect'], c['path'], d['impl'], ' '.join(d['spec'] or [])), replay=rp)
        if d['mismatch'] and not d['fail']:
            ctx.violation('corr.lines-model', 'replayed: implementation `%s` model `%s`' % (d['impl'], d['model']), replay=rp, nofail=True)
    elif rp.get('kind') == 'multi':
        c = dict(rect=rp['rect'], paths=rp['paths'], mag=0)
        d = eval_multi(tools, [c])[0]
        ctx.log('impl   %s' % d['impl'])
        ctx.log('twice  %s' % d['impl2'])
        ctx.log('model  %s' % d['model'])
        ctx.log('alone  %s' % [s['out'] for s in d['singles']])
        ctx.count('evaluations', 1)
        for key in d['fail']:
            ctx.violation(key, 'replayed: rect=%s paths=%s -> %s; each polyline alone: %s' % (c['rect'], c['paths'], d['impl'], [s['out'] for s in d['singles']]), replay=rp)
        if d['mismatch'] and not d['fail']:
            ctx.violation('corr.lines-model-multi', 'replayed: implementation `%s` model `%s`' % (d['impl'], d['model']), replay=rp, nofail=True)
    elif rp.get('kind') == 'leaf':
        a = tools.impl([rp['line']])[0]
        b = tools.model([rp['line']])[0]
        ctx.log('%s -> impl %s model %s' % (rp['line'], a, b))
        if a != b:
            ctx.violation('corr.leaf.' + rp['line'].split()[0], 'replayed: `%s` implementation `%s` model `%s`' % (rp['line'], a, b), replay=rp, nofail=True)
    else:
        ctx.log('nothing to replay for kind %s' % rp.get('kind'))
