"""C06 -- polygon offsetting moves the boundary by delta."""
import json, os, math
from fractions import Fraction
import vf
from checks import offset_common as oc
from checks.C07 import load_corpus, norm_case, dump_debug

META = dict(
    text='Coq theorems on faithful models of the offsetter (arc sagitta and step cap, DoRound recurrence on the circle, miter and square reach, '
         'offset edge at distance |delta| on the selected side, join selection total and exclusive, early return for |delta|<0.5, '
         'sign of delta / fill rule / reversal flag decided by the path\'s own group and the call\'s consistent orientation) + exact binary64 model of the raw offset curve tied bit-for-bit to '
         'DoGroupOffset + public API validated against the Coq-defined signed-distance specification with exact rational tests',
    note='Theorems are about Gallina models (OffsetPlan.v, OffsetGeom.v) and real-number geometry; the models are tied to the current source on '
         'every run by executed correspondence (observer callback for member values, private-access call of DoGroupOffset for raw curves, bit exact). '
         'That the union of the raw curves with Positive filling is the dilated/eroded region is validated on sampled points (exactly classified), not proved.',
    technique='Coq 8.16 proofs (Reals/Coquelicot/interval, PrimFloat) + extracted OCaml oracle (winding numbers, exact point-segment distances) + '
              'differential harness over generated simple polygons with holes',
    category='proof')

QUICK = dict(spec=1700, multi=250, inf=300, plan=500, raw=900, tiny=140, cb=260)
THOROUGH = dict(spec=14000, multi=2000, inf=2000, plan=4000, raw=8000, tiny=700, cb=2500)

DELTAS = [0.49, 0.5, 0.51, 1, 1.5, 2.25, 5]


def gen_case(rng, multi=False):
    S = rng.choice([30, 100, 300, 3000, 100000])
    polys = oc.gen_polyset(rng, S)
    reverse = rng.chance(1, 2)
    jt = rng.below(4)
    dl = rng.choice(DELTAS + [S / 20, S / 8, S / 4, S / 2, S, 2 * S])
    dl = oc.qdelta(dl) * (1 if rng.chance(1, 2) else -1)
    if multi and len(polys) >= 2:
        k = rng.range(1, len(polys) - 1)
        groups = [dict(jt=jt, et=0, paths=oc.flatten_polys(polys[:k], reverse)), dict(jt=jt, et=0, paths=oc.flatten_polys(polys[k:], reverse))]
    else:
        groups = [dict(jt=jt, et=0, paths=oc.flatten_polys(polys, reverse))]
    if multi and rng.chance(1, 3):
        # a group that contributes no polygon at all (one empty path): the region is unchanged by it
        groups.insert(rng.below(len(groups) + 1), dict(jt=jt, et=0, paths=[[]]))
    if rng.chance(1, 4):
        # the same polygons written with repeated vertices / a repeated closing vertex
        for g in groups:
            g['paths'] = [oc.add_dups(rng, p, True) for p in g['paths']]
    # the options reach the object through the constructor, through the public setters, or through the setters after an
    # Execute with other options
    return dict(ml=rng.choice([0.5, 1, 2, 5]), at=rng.choice([0, 0.25, 5]), pc=int(rng.chance(1, 6)), rev=int(rng.chance(1, 4)), delta=dl,
                groups=groups, orient=(-1 if reverse else 1), via=rng.choice([0, 0, 0, 1, 1, 2]))


def gen_far_case(rng):
    """polygons with holes in far-apart units, one or several groups: the result must be the union of the units offset alone"""
    S = rng.choice([30, 300, 3000])
    jt = rng.below(4)
    dl = oc.qdelta(rng.choice([1, 2.25, S / 20, S / 6, S / 3])) * (1 if rng.chance(1, 2) else -1)
    reverse = rng.chance(1, 3)
    ng = rng.choice([1, 2, 2, 3])
    groups, units = [], []
    x = 0
    for gi in range(ng):
        paths = []
        if rng.chance(1, 5):
            groups.append(dict(jt=jt, et=0, paths=[[]])); units.append((gi, [0]))
            continue
        for _u in range(rng.choice([1, 1, 2])):
            polys = oc.gen_polyset(rng, S, npoly=1)
            ps = oc.flatten_polys(polys, reverse)
            x0, y0, x1, y1 = oc.bbox(ps)
            ps = [oc.translate(p, int(x - x0), 0) for p in ps]
            x += (x1 - x0) + 12 * S + 8 * abs(dl) + 100
            units.append((gi, list(range(len(paths), len(paths) + len(ps)))))
            paths += ps
        groups.append(dict(jt=jt, et=0, paths=paths))
    return dict(ml=rng.choice([1, 2, 5]), at=rng.choice([0, 0.25]), pc=0, rev=0, delta=dl, groups=groups, units=units,
                orient=(-1 if reverse else 1))


def raw_cases(rng, n):
    cs = []
    for _ in range(n):
        S = rng.choice([30, 300, 3000, 1000000])
        polys = oc.gen_polyset(rng, S, npoly=1, maxholes=1)
        ps = oc.flatten_polys(polys, rng.chance(1, 2))
        dl = rng.choice([0.5, 1, 2.5, S / 16, S / 3, S]) * (1 if rng.chance(1, 2) else -1)
        if rng.chance(1, 3):
            dl = dl * (1 + rng.below(1000) / 997.0)
        if rng.chance(1, 5):
            ps = [oc.add_dups(rng, p, True) for p in ps]
        cs.append(dict(ml=rng.choice([0.5, 1, 2, 5, 1.7]), at=rng.choice([0, 0.25, 5, 0.1]), delta=dl, jt=rng.below(4), et=0, paths=ps))
    return cs


def sign_of(c):
    return c['orient'] * (-1 if c.get('rev') else 1)


def inflate_vs_execute(ctx, T, cases):
    """InflatePaths (the other observation point of the property) equals ClipperOffset::Execute for one group"""
    lines = []
    for c in cases:
        g = c['groups'][0]
        lines.append('INF %d %d %s %s %s %s' % (g['jt'], g['et'], oc.fhex(c['ml']), oc.fhex(c['at']), oc.fhex(c['delta']), vf.fmt_paths(g['paths'])))
        d = dict(c); d['pc'] = 0; d['rev'] = 0
        lines.append(oc.exe_line(d, 'RUN'))
    outs = T.H(lines)
    for i, c in enumerate(cases):
        if oc.NOTRUN in (outs[2 * i], outs[2 * i + 1]):
            continue
        a = outs[2 * i].split(); b = oc.parse_exe(outs[2 * i + 1])
        ctx.count('evaluations', 1)
        if a[0] != 'OK' or not b['ok']:
            oc.viol(ctx, 'offset.crash-or-exception', 'C06: harness answered %s / %s' % (outs[2 * i][:200], outs[2 * i + 1][:200]), replay=dict(kind='c06-inf', case=c))
            continue
        sa, _ = vf.parse_paths(a, 2)
        if sa != b['sol']:
            oc.viol(ctx, 'offset.c06.inflatepaths-differs-from-execute', 'C06: InflatePaths and ClipperOffset::Execute give different results (delta %s)' % c['delta'],
                          replay=dict(kind='c06-inf', case=c))


def c06_locality_key(case, diffs=None):
    return oc.locality_key(case, diffs)


def run_kind(ctx, T, rng, kind, cases):
    cases = [norm_case(c) if 'groups' in c else c for c in cases]
    if kind == 'c06':
        oc.region_eval(ctx, T, rng, cases, oc.c06_prepare, sign_of, oc.c06_key, 'C06 spec', 'c06')
    elif kind == 'c06-local':
        oc.locality_eval(ctx, T, cases, 'C06 locality', 'c06-local', key_of=c06_locality_key)
    elif kind == 'c06-plan':
        oc.plan_tie(ctx, T, cases, 'C06 plan', 'c06-plan')
    elif kind == 'c06-raw':
        for c in cases:
            c['paths'] = [[tuple(v) for v in p] for p in c['paths']]
        oc.raw_tie(ctx, T, cases, 'C06 raw', 'c06-raw')
    elif kind == 'c06-inf':
        inflate_vs_execute(ctx, T, cases)
    elif kind in ('c06-cbraw', 'c06-cbapi'):
        for c in cases:
            c['paths'] = [[tuple(v) for v in p] for p in c['paths']]
        if kind == 'c06-cbraw':
            oc.callback_raw_tie(ctx, T, cases, 'C06 callback raw', 'c06-cbraw')
        else:
            oc.callback_api_eval(ctx, T, cases, 'C06 callback', 'c06-cbapi')
    else:
        raise vf.Infra('unknown replay kind %r' % kind)


def search(ctx, T, rng, budget):
    cases = [gen_case(rng, multi=rng.chance(1, 4)) for _ in range(budget)]
    oc.region_eval(ctx, T, rng, cases, oc.c06_prepare, sign_of, oc.c06_key, 'C06 search', 'c06')


def run(ctx):
    B = QUICK if ctx.quick else THOROUGH
    pr = vf.coq_props(ctx, 'C06')
    ctx.log('proofs: ok=%s theorems=%d (%.1fs)' % (pr['ok'], len(pr['theorems']), pr['wall']))
    rng = ctx.rng
    try:
        T = oc.Tools(ctx)
    except vf.BuildFailure as e:
        oc.viol(ctx, 'tie-break:cx_offset-build', 'the offset harness no longer builds against the tree (a modelled member or function changed): %s' % str(e)[-600:],
                      replay=dict(kind='build'), nofail=True)
        return
    nv0 = len(ctx.violations)
    oc.float_selftest(ctx, T)

    corp = load_corpus('C06')
    by = {}
    for d in corp:
        by.setdefault(d['kind'], []).append(d['case'])
    for k, cs in by.items():
        run_kind(ctx, T, rng.fork(7), k, cs)
    ctx.count('corpus_cases', len(corp))

    # SPEC+O: single group and several groups (incl. a group without any polygon)
    r1 = rng.fork(1)
    cases = [gen_case(r1) for _ in range(B['spec'])] + [gen_case(r1, multi=True) for _ in range(B['multi'])]
    res = oc.region_eval(ctx, T, r1, cases, oc.c06_prepare, sign_of, oc.c06_key, 'C06 spec', 'c06')
    nontriv = set()
    for c, r in zip(cases, res):
        g = c['groups'][0]
        ctx.hist('join_type', oc.JT[g['jt']])
        ctx.hist('regime', 'identity' if abs(c['delta']) < 0.5 else ('inflate' if c['delta'] > 0 else 'shrink'))
        ctx.hist('npaths', sum(len(g['paths']) for g in c['groups']))
        ctx.hist('delta_decade', 'e%d' % int(math.floor(math.log10(abs(c['delta'])))))
        ctx.hist('orientation', 'reversed' if c['orient'] < 0 else 'positive')
        ctx.hist('options_via', ['constructor', 'setters', 'setters after an Execute'][c.get('via', 0)])
        if r.get('ok') and not r.get('sol') and abs(c['delta']) >= 0.5 and c['delta'] < 0:
            ctx.count('shrunk_to_nothing', 1)
        if r.get('ncover', 0) > 0 and r.get('nuncover', 0) > 0:
            nontriv.add(json.dumps(c, sort_keys=True))
    for c in cases[:3]:
        ctx.sample(dict(kind='c06', case=c))
    ctx.log('spec: %d cases, %d violations so far' % (len(cases), len(ctx.violations)))

    # InflatePaths == Execute
    r2 = rng.fork(2)
    inflate_vs_execute(ctx, T, [gen_case(r2) for _ in range(B['inf'])])

    # far-apart units: together == alone (exact); includes the two witnesses that refuted C06_orientation_plan /
    # C06_orientation_preserved before offset-delta-abs-leak.patch and offset-empty-group-orientation.patch
    r3 = rng.fork(3)
    far = [gen_far_case(r3) for _ in range(B['multi'])]
    far.append(dict(ml=2.0, at=0.0, pc=0, rev=0, delta=-10.0, orient=1,
                    groups=[dict(jt=0, et=0, paths=[[]]), dict(jt=0, et=0, paths=[[(0, 0), (100, 0), (100, 100), (0, 100)]])],
                    units=[(0, [0]), (1, [0])]))
    far.append(dict(ml=2.0, at=0.0, pc=0, rev=0, delta=10.0, orient=-1,
                    groups=[dict(jt=3, et=0, paths=[[]]), dict(jt=3, et=0, paths=[[(0, 100), (100, 100), (100, 0), (0, 0)]])],
                    units=[(0, [0]), (1, [0])]))
    nb = oc.locality_eval(ctx, T, far, 'C06 locality', 'c06-local', key_of=c06_locality_key)
    ctx.count('locality_cases', len(far)); ctx.count('locality_differences', nb)
    ctx.log('locality: %d cases, %d differ' % (len(far), nb))

    # plan tie on polygon groups (observer)
    pcs = [gen_case(r3, multi=True) for _ in range(B['plan'])] + far[:200]
    for c in pcs:
        if c.get('via') == 2:
            c['via'] = 1          # the plan model starts from the members of a fresh object
    nbreak, _ = oc.plan_tie(ctx, T, pcs, 'C06 plan', 'c06-plan')
    ctx.log('plan tie: %d breaks' % nbreak)

    # raw curve tie, bit exact
    r4 = rng.fork(4)
    nbr = oc.raw_tie(ctx, T, raw_cases(r4, B['raw']) + oc.tiny_raw_cases(r4, B['tiny'], True), 'C06 raw', 'c06-raw')
    ctx.log('raw tie: %d breaks' % nbr)

    # delta callbacks (values of either sign, zero / below floating_point_tolerance at some or all vertices): raw curves judged
    # vertex by vertex, and the public entry points Execute(cb, paths) / SetDeltaCallback / tree overload / non-empty containers
    r5 = rng.fork(5)
    cbc = [oc.gen_cb_case(r5, True) for _ in range(B['cb'])]
    ncb = oc.callback_raw_tie(ctx, T, cbc, 'C06 callback raw', 'c06-cbraw')
    ncb += oc.callback_api_eval(ctx, T, cbc, 'C06 callback', 'c06-cbapi')
    for c in cbc:
        ctx.hist('callback_selection', oc.SEL[c['sel']])
    ctx.log('delta callbacks: %d cases, %d failing' % (len(cbc), ncb))
    dump_debug(ctx)

    ties_broken = any(v['key'].startswith('tie-break') for v in ctx.violations[nv0:])
    if not pr['ok'] or ties_broken:
        search(ctx, T, rng.fork(9), 3000 if ctx.quick else 30000)
        if not pr['ok'] and not any(not v['nofail'] for v in ctx.violations):
            oc.viol(ctx, 'proof-break:Properties_C06', 'Properties_C06 no longer builds: %s' % '; '.join(pr['failed'])[:800],
                          replay=dict(kind='proof', failed=pr['failed']), nofail=True)

    ctx.cov['distinct_nontrivial'] = len(nontriv)
    ctx.cov['rule'] = ('seeded random simple polygons with holes (star-shaped, spiky and rectilinear/sheared outlines, 0-2 star holes, 1-3 polygons with random gaps, '
                       '5 coordinate scales), validity (simple, disjoint, nesting, every turn >= 10 degrees from a reversal) decided by exact integer tests; '
                       'both orientation conventions, delta in {0.49,0.5,0.51,1,...,2x scale} of both signs, 4 joins, miter limits {0.5,1,2,5}, arc tolerances {0,0.25,5}, '
                       'ReverseSolution, PreserveCollinear, options supplied by the constructor / by the public setters / by the setters after an Execute with other options; '
                       'a quarter of the inputs written with repeated vertices and a repeated closing vertex; a case is non-trivial when its sample set contains both points the property requires covered and points it '
                       'requires uncovered; distinct = distinct (configuration, input)')
    ctx.assumptions += [
        'binary64 arithmetic of the g++ -O1 -ffp-contract=off build equals Coq primitive floats (self-tested every run on %d operations)' % ctx.cov.get('ieee_ops_compared', 0),
        'libm results (acos, sin, cos, atan2) are supplied by the harness to the model, not modelled',
        'the region of the input is { wn <> 0 } (simple polygons with holes, consistently oriented); the expected winding of the result is the input sign, negated by ReverseSolution',
        'tolerance: arc tolerance (round joins only) + 2 + 0.001|delta|; miter factor max(ML, sqrt 2) because miter joins beyond the limit are squared',
        'Reals axioms of the Coq standard library (see print_assumptions) for the geometric lemmas; FloatAxioms for PrimFloat facts',
        'Area() in the Group constructor is modelled exactly over Z (valid for |coordinates| <= 2^25)',
    ]


def replay(ctx, path):
    d = json.load(open(path))
    rp = d.get('replay') or d
    ctx.sample(dict(replayed=os.path.basename(path), kind=rp.get('kind'), case=rp.get('case')))
    ctx.cov['rule'] = 'replay of one recorded case'
    T = oc.Tools(ctx)
    kind = rp.get('kind')
    if kind in ('proof', 'build'):
        pr = vf.coq_props(ctx, 'C06')
        if not pr['ok']:
            oc.viol(ctx, 'proof-break:Properties_C06', '; '.join(pr['failed'])[:800], replay=rp, nofail=True)
        return
    if kind == 'fop':
        oc.float_selftest(ctx, T)
        return
    run_kind(ctx, T, ctx.rng.fork(7), kind, [rp['case']])
