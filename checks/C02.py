"""C02 — axis-parallel inputs are clipped exactly, whatever their degeneracy (DESIGN 6 C02)."""
import json, os, sys, time, glob
import concurrent.futures as cf
import vf
sys.path.insert(0, os.path.join(vf.VERIF, 'gen'))
import rectil

META = dict(
    text=("Coq-verified exact checker rect_check (model/RectCheck.v): for rectilinear input, one evaluation per cell of the "
          "compressed coordinate grid (unbounded cells included) of the solution's net winding number against the "
          "Coq specification spec_closed, plus exact area and vertex-coordinate clauses.  Theorems: wn_cell_const "
          "(winding number of a rectilinear path is constant on every open grid cell, from the definition of edge_w), "
          "C02_rect_check_sound (rect_check = true implies net winding = [selected] at EVERY rational point off the grid "
          "lines, area2 = summed selected cell areas, every solution vertex on X x Y, every solution edge axis-parallel), "
          "C02_unit_cells, C02_spec_scale (specification commutes with integer scaling and lattice translation).  "
          "The engine itself is validated, not proved: the extracted checker is run on exhaustively enumerated small "
          "scopes (all ordered oriented rectangle pairs of a 4x4-cell lattice, all closed lattice walks of <= 8 unit steps on "
          "a 3x3-cell lattice against every rectangle; thorough: all two-subject/one-clip rectangle triples and 10^5 random "
          "degenerate walks) under all 4 clip types x 4 fill rules x PreserveCollinear on/off, at lattice scales "
          "1, 7, 2^31, 2^58 with translation."),
    note=("Trusted: Coq kernel; extraction of the checker; C++ harness; enumerators.  Proved: soundness of the checker and "
          "the algebra of the specification, for all inputs.  Not proved: that Clipper2's sweep (DoHorizontal, joins, "
          "horizontal segment merging, CleanCollinear) produces an accepted output; that part is small-scope exhaustive "
          "and generated validation (partial)."),
    technique='Coq proof (verified checker: cell constancy of the winding number) + exhaustive small-scope enumeration against the extracted checker',
    category='proof',
)

CT = {1: 'Intersection', 2: 'Union', 3: 'Difference', 4: 'Xor'}
FR = {0: 'EvenOdd', 1: 'NonZero', 2: 'Positive', 3: 'Negative'}
ALL = 0xFFFFFFFF
IDENT = (1, 0, 0, 0, 0)


def opt_index(ct, fr, pc):
    return ((ct - 1) * 4 + fr) * 2 + pc


def line_for(mask, tf, S, C):
    return 'RECTILT %d %d %d %d %d %d %s %s' % ((mask,) + tuple(tf) + (vf.fmt_paths(S), vf.fmt_paths(C)))


# ----------------------------------------------------------------------------- harness | oracle pipeline
def pipe_lines(exe, oracle, lines, jobs=None, timeout=3000):
    """Feed `lines` to `exe | oracle` in parallel shards, preserving order.  Returns (verdict_lines, failed_shards)."""
    jobs = jobs or vf.NPROC
    n = len(lines)
    if n == 0:
        return [], []
    chunk = max(1, (n + jobs * 4 - 1) // (jobs * 4))
    shards = [lines[i:i + chunk] for i in range(0, n, chunk)]
    outs, fails = [None] * len(shards), []

    def work(i):
        data = '\n'.join(shards[i]) + '\n'
        p = vf.sh(['bash', '-c', 'set -o pipefail; "%s" | "%s"' % (exe, oracle)], input=data, timeout=timeout)
        return i, p
    with cf.ThreadPoolExecutor(max_workers=jobs) as ex:
        for i, p in ex.map(work, range(len(shards))):
            o = p.stdout.split('\n')
            if o and o[-1] == '':
                o.pop()
            outs[i] = o
            if p.returncode != 0 or len(o) != len(shards[i]):
                fails.append((i, shards[i], p.returncode, p.stderr[-2000:]))
    return outs, fails


class Scope:
    def __init__(self, name, exhaustive, desc):
        self.name, self.exhaustive, self.desc = name, exhaustive, desc
        self.lines, self.meta = [], []       # meta: (base S, base C, tf, mask, class)

    def add(self, S, C, tf=IDENT, mask=ALL, cls=''):
        self.lines.append(line_for(mask, tf, S, C))
        self.meta.append((S, C, tf, mask, cls))


def shape_of(S, C):
    def one(p):
        return 'rect' if (len(p) == 4 and rectil.walk_class(p) == 'simple') else rectil.walk_class(p)
    return '+'.join(sorted(set(one(p) for p in S))) + '/' + ('+'.join(sorted(set(one(p) for p in C))) or 'none')


def run_scope(ctx, sc, exe, oracle, state):
    """run one scope; record coverage and violations (first failing case in enumeration order per key)"""
    t0 = time.time()
    outs, fails = pipe_lines(exe, oracle, sc.lines)
    if fails:
        i, shard, rc, err = fails[0]
        l, rc1, err1 = vf.isolate_failure(exe, shard, timeout=30)
        if l is not None:
            ctx.violation('crash.boolop', 'boolean operation crashed/hung on rectilinear input (rc=%s): %s' % (rc1, err1[-300:]),
                          replay=dict(scope=sc.name, line=l))
        else:
            raise vf.Infra('C02 pipeline failed in scope %s (rc=%s): %s' % (sc.name, rc, err[-800:]))
        return
    flat = [l for o in outs for l in o]
    nexec = nne = npaths = nverts = 0
    nbadcases = 0
    for (S, C, tf, mask, cls), v in zip(sc.meta, flat):
        t = v.split(';')
        h = t[0].split()
        if h[0] not in ('OK', 'BAD'):
            raise vf.Infra('C02 oracle said: %s' % v[:500])
        n, ne, np_, nv = int(h[1]), int(h[2]), int(h[3]), int(h[4])
        nexec += n; nne += ne; npaths += np_; nverts += nv
        if h[0] == 'OK':
            continue
        nbadcases += 1
        for ent in t[1:]:
            head, key, msg, outp = ent.split('|')
            idx, ct, fr, pc = [int(x) for x in head.split()]
            scale = 'k=%d' % tf[0] if tf[0] < 1000 else 'k=2^%d' % (tf[0].bit_length() - 1)
            ctx.hist('failures', '%s %s/%s pc=%d %s %s' % (key, CT[ct], FR[fr], pc, cls or shape_of(S, C), scale))
            state['fail_count'][key] = state['fail_count'].get(key, 0) + 1
            if key in state['first']:
                continue
            state['first'].add(key)
            St, Ct = rectil.apply_transform(tf, S), rectil.apply_transform(tf, C)
            sol, _ = vf.parse_paths(outp.split())
            ctx.violation(key, '%s/%s PreserveCollinear=%d scope=%s: %s; S=%s C=%s solution=%s'
                          % (CT[ct], FR[fr], pc, sc.name, msg, St, Ct, sol),
                          replay=dict(S=St, C=Ct, ct=ct, fr=fr, pc=pc, solution=sol, scope=sc.name,
                                      lattice_case=dict(S=S, C=C, transform=list(tf)), message=msg))
    wall = time.time() - t0
    ctx.count('evaluations', nexec)
    ctx.count('nonempty_solutions', nne)
    ctx.count('solution_paths_total', npaths)
    ctx.count('solution_vertices_total', nverts)
    ctx.cov.setdefault('scopes', []).append(dict(name=sc.name, inputs=len(sc.lines), executions=nexec, nonempty_solutions=nne,
                                                  failing_inputs=nbadcases, exhaustive=sc.exhaustive, wall_s=round(wall, 1),
                                                  what=sc.desc))
    ctx.log('scope %-28s %8d inputs %9d executions %9d non-empty  %d failing inputs  %.1fs'
            % (sc.name, len(sc.lines), nexec, nne, nbadcases, wall))
    if sc.meta:
        S, C, tf, mask, cls = sc.meta[len(sc.meta) // 2]
        ctx.sample(dict(scope=sc.name, S=S, C=C, transform=list(tf), option_mask=mask), limit=12)


# ----------------------------------------------------------------------------- scopes
def big_scale_variant(ctx, sc, S, C, n, i, every, cls=''):
    """rotating subset at the big scales: case i is additionally run at scale SCALES[1 + (i // every) % 3] when i % every == 0"""
    if every and i % every == 0:
        name, k = rectil.SCALES[1 + (i // every) % 3]
        sc.add(S, C, rectil.transform_for(ctx.rng, n, k), ALL, cls)


def build_scopes(ctx):
    q = ctx.quick
    scopes = []
    # (a) all ordered pairs of oriented rectangles on the 4x4-cell lattice
    R4 = rectil.oriented_rects(4)
    a1 = Scope('rectpairs-4x4', True, 'all ordered pairs (subject, clip) of the 100 rectangles of a 4x4-cell lattice, each in both '
               'orientations (200 x 200), x 16 rule combinations x PreserveCollinear on/off, scale 1')
    a2 = Scope('rectpairs-4x4-scaled', False if q else True,
               ('every %s pair of the same enumeration at scale 7 / 2^31 / 2^58 (rotating) with lattice translation, all 32 option sets'
                % ('29th' if q else '1st')))
    i = 0
    every = 29 if q else 1
    for s in R4:
        for c in R4:
            a1.add([s], [c], cls='rect/rect')
            if q:
                big_scale_variant(ctx, a2, [s], [c], 4, i, every, 'rect/rect')
            else:
                for name, k in rectil.SCALES[1:]:
                    a2.add([s], [c], rectil.transform_for(ctx.rng, 4, k), ALL, 'rect/rect')
            i += 1
    scopes += [a1, a2]
    # (b) all closed lattice walks of <= 8 unit steps on the 3x3-cell lattice as subject against every rectangle
    walks = rectil.closed_walks(3, 8, canonical=q)
    R3 = rectil.rects(3)
    b1 = Scope('walks8-3x3-vs-rect', True,
               'all %d closed lattice walks of 2..8 unit steps on the 3x3-cell lattice (%s) as subject against each of the 36 '
               'rectangles (%s) as clip, all 32 option sets, scale 1'
               % (len(walks), 'one representative per cyclic rotation class, both directions' if q else 'every start vertex, both directions',
                  'counter-clockwise' if q else 'both orientations'))
    b2 = Scope('walks8-3x3-vs-rect-sampled', False,
               'rotating subset of the same pairs: clockwise clip rectangle at scale 1, and scales 7 / 2^31 / 2^58 with translation'
               if q else 'the same pairs with collinear-merged walk vertices, and a rotating subset at scales 7 / 2^31 / 2^58')
    i = 0
    for w in walks:
        cls = rectil.walk_class(w) + '/rect'
        for r in R3:
            b1.add([w], [rectil.rect_path(r)], cls=cls)
            if q:
                if i % 17 == 0:
                    b2.add([w], [rectil.rect_path(r, True)], cls=cls)
                big_scale_variant(ctx, b2, [w], [rectil.rect_path(r, i % 2 == 1)], 3, i, 23, cls)
            else:
                b1.add([w], [rectil.rect_path(r, True)], cls=cls)
                big_scale_variant(ctx, b2, [w], [rectil.rect_path(r, i % 2 == 1)], 3, i, 11, cls)
            i += 1
        if not q:
            m = rectil.merge_collinear(w)
            if m != w and len(m) >= 2:
                for r in R3:
                    b2.add([m], [rectil.rect_path(r)], cls=cls)
    scopes += [b1, b2]
    # (c) walk as clip, rectangle as subject (Difference is not symmetric); quick: rotating subset
    c1 = Scope('rect-vs-walks8-3x3', not q,
               ('every 5th' if q else 'all') + ' (rectangle subject, walk clip) pairs of the same enumeration, all 32 option sets, scale 1')
    i = 0
    for w in walks:
        cls = 'rect/' + rectil.walk_class(w)
        for r in R3:
            if not q or i % 5 == 0:
                c1.add([rectil.rect_path(r, i % 3 == 2)], [w], cls=cls)
            i += 1
    scopes.append(c1)
    # (d) triples: two subject rectangles, one clip rectangle on the 3x3-cell lattice
    O3 = rectil.oriented_rects(3)
    if q:
        d1 = Scope('recttriples-3x3-sampled', False, 'seeded sample of (subject, subject, clip) triples of oriented rectangles on the '
                   '3x3-cell lattice, all 32 option sets, scales rotating over 1, 7, 2^31, 2^58')
        for i in range(6000):
            s1, s2, c = ctx.rng.choice(O3), ctx.rng.choice(O3), ctx.rng.choice(O3)
            name, k = rectil.SCALES[i % 4] if i % 2 else rectil.SCALES[0]
            d1.add([s1, s2], [c], IDENT if k == 1 else rectil.transform_for(ctx.rng, 3, k), ALL, 'rect+rect/rect')
    else:
        d1 = Scope('recttriples-3x3', True, 'all ordered triples (subject, subject, clip) of the 72 oriented rectangles of the 3x3-cell '
                   'lattice (72^3), all 32 option sets, scale 1')
        for s1 in O3:
            for s2 in O3:
                for c in O3:
                    d1.add([s1, s2], [c], cls='rect+rect/rect')
    scopes.append(d1)
    # (e) random degenerate walks
    nrand = 4000 if q else 100000
    e1 = Scope('random-walks', False, '%d seeded random cases: 1-3 subject and 0-2 clip paths, each a random closed rectilinear walk with '
               'reversals (zero-width sections), retraced and repeated sections, duplicate vertices, or a rectangle, on lattices of '
               '3..8 cells, scales rotating over 1, 7, 2^31, 2^58 with translation, all 32 option sets' % nrand)
    for i in range(nrand):
        n = ctx.rng.range(3, 8)
        S, C = rectil.random_case(ctx.rng, n)
        name, k = rectil.SCALES[i % 4]
        e1.add(S, C, IDENT if k == 1 else rectil.transform_for(ctx.rng, n, k), ALL)
        ctx.hist('random_input_vertices', min(60, sum(len(p) for p in S + C)) // 10 * 10)
    scopes.append(e1)
    return scopes


def corpus_scope(ctx):
    sc = Scope('corpus', True, 'minimised past failures and boundary cases from corpus/C02/*.case (run first)')
    for f in sorted(glob.glob(os.path.join(vf.VERIF, 'corpus', 'C02', '*.case'))):
        for ln in vf.read(f).splitlines():
            ln = ln.split('#')[0].strip()
            if not ln:
                continue
            t = ln.split()
            S, pos = vf.parse_paths(t, 0)
            C, pos = vf.parse_paths(t, pos)
            sc.add(S, C, cls='corpus:' + os.path.basename(f)[:-5])
            for name, k in rectil.SCALES[1:]:
                n = max([max(abs(x), abs(y)) for p in S + C for (x, y) in p] + [1])
                if n <= 8:
                    sc.add(S, C, rectil.transform_for(ctx.rng, n, k), ALL, 'corpus:' + os.path.basename(f)[:-5])
    return sc


def cross_check(ctx, exe, oracle):
    """the shared-preparation path of the oracle (RC) must agree with rect_check itself (RC1) — validates the driver glue"""
    rng = ctx.rng.fork(99)
    lines = []
    for i in range(40):
        S, C = rectil.random_case(rng, rng.range(3, 6))
        lines.append(line_for(ALL, IDENT, S, C))
    p = vf.run_lines(exe, lines)
    rc1, exp = [], []
    for l in p.stdout.splitlines():
        t = l.split()
        S, pos = vf.parse_paths(t, 1)
        C, pos = vf.parse_paths(t, pos)
        n = int(t[pos]); pos += 1
        for _ in range(n):
            ct, fr, pc, ok = [int(x) for x in t[pos:pos + 4]]
            out, pos = vf.parse_paths(t, pos + 4)
            rc1.append('RC1 %d %d %s %s %s' % (ct, fr, vf.fmt_paths(S), vf.fmt_paths(C), vf.fmt_paths(out)))
    o1 = vf.run_lines(oracle, rc1).stdout.split()
    o2 = vf.run_lines(oracle, p.stdout.splitlines()).stdout.splitlines()
    bad1 = sum(1 for x in o1 if x != '1')
    bad2 = 0
    for l in o2:
        ents = l.split(';')[1:]
        bad2 += len(set(e.split('|')[0] for e in ents if e.split('|')[1].startswith('rectil.')))
    ctx.cov['oracle_glue_crosscheck'] = dict(solutions=len(rc1), rect_check_false=bad1, shared_prep_false=bad2)
    if bad1 != bad2 or len(o1) != len(rc1):
        raise vf.Infra('C02 oracle glue: RC and RC1 disagree (%d vs %d)' % (bad2, bad1))


def run(ctx):
    pr = vf.coq_props(ctx, 'C02')
    broken = not pr['ok']
    try:
        exe = vf.build_cpp(ctx, 'cx_rectil.cpp', 'plain')
    except vf.BuildFailure as e:
        ctx.violation('tie-break:cx_rectil', 'rectilinear boolean harness no longer builds: %s' % str(e)[-600:],
                      replay=dict(error=str(e)[-2000:]), nofail=True)
        return
    oracle = vf.oracle_build('rectcheck')
    cross_check(ctx, exe, oracle)
    state = dict(first=set(), fail_count={})
    sc = corpus_scope(ctx)
    if sc.lines:
        run_scope(ctx, sc, exe, oracle, state)
    for sc in build_scopes(ctx):
        run_scope(ctx, sc, exe, oracle, state)
    ctx.cov['failures_by_key'] = state['fail_count']
    ctx.cov['distinct_nontrivial'] = ctx.cov.get('nonempty_solutions', 0)
    ctx.cov['exhaustive'] = False
    ctx.cov['exhaustive_scopes'] = [s['name'] for s in ctx.cov.get('scopes', []) if s['exhaustive']]
    ctx.cov['rule'] = ('enumerated/generated closed rectilinear inputs (see scopes[].what; scopes with exhaustive=true are enumerated '
                       'completely in this tier, in a fixed order, so the first failing case is minimal by construction); every input is '
                       'executed on a fresh Clipper64 under each of 4 clip types x 4 fill rules x PreserveCollinear on/off and every '
                       'solution is judged by the extracted Coq checker rect_check (all cells of the compressed grid incl. the unbounded '
                       'ones, exact area2, vertices on X x Y, axis-parallel edges) plus Execute = true, >= 3 vertices, no consecutive '
                       'duplicates; evaluations = executions; distinct_nontrivial = executions (distinct (input, option set) pairs) '
                       'whose solution is non-empty')
    ctx.assumptions += ['the engine is validated on enumerated small scopes and seeded random walks, not proved; the theorem is the '
                        'soundness of the checker that judges each run',
                        'coordinates at the largest scale stay within |x| <= 2^61 (Clipper2 documents +-2^62)']
    if broken and not ctx.violations:
        ctx.violation('proof-break:Properties_C02', 'Properties_C02 no longer checks: %s' % '; '.join(pr['failed'])[:800],
                      replay=dict(failed=pr['failed'], log=pr['log'][-2000:]), nofail=True)


def replay(ctx, path):
    r = json.load(open(path))['replay']
    exe = vf.build_cpp(ctx, 'cx_rectil.cpp', 'plain')
    oracle = vf.oracle_build('rectcheck')
    S = [[tuple(v) for v in p] for p in r['S']]
    C = [[tuple(v) for v in p] for p in r['C']]
    mask = 1 << opt_index(r['ct'], r['fr'], r['pc'])
    p = vf.run_lines(exe, [line_for(mask, IDENT, S, C)])
    print(p.stdout.strip())
    v = vf.run_lines(oracle, [p.stdout.strip()]).stdout.strip()
    print(v)
    ctx.count('evaluations')
    ctx.cov['distinct_nontrivial'] = 1
    for ent in v.split(';')[1:]:
        head, key, msg, outp = ent.split('|')
        ctx.violation(key, 'replayed: %s' % msg, replay=r)
