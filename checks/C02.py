"""C02 — axis-parallel inputs are clipped exactly, whatever their degeneracy (DESIGN 6 C02)."""
import json, os, re, sys, time, glob, threading
import concurrent.futures as cf
import vf
sys.path.insert(0, os.path.join(vf.VERIF, 'gen'))
import rectil

META = dict(
    text=("Coq-verified exact checker rect_check (model/RectCheck.v): for rectilinear input, one evaluation per cell of the "
          "compressed coordinate grid (unbounded cells included) of the solution's net winding number against the "
          "Coq specification spec_closed, plus exact area and vertex-coordinate clauses.  Theorems: wn_cell_const "
          "(winding number of a rectilinear path is constant on every open grid cell, from the definition of edge_w), "
          "C02_rect_check_sound (rect_check = true implies net winding = [selected] at EVERY rational point off the grid "
          "lines, area2 = summed selected cell areas, every solution vertex on X x Y, every solution edge axis-parallel), "
          "C02_area_from_winding (the area clause follows from the winding clause: discrete Green theorem), "
          "C02_unit_cells, C02_spec_scale (specification commutes with integer scaling and lattice translation).  "
          "The engine itself is validated, not proved: the extracted checker is run on exhaustively enumerated small "
          "scopes (all ordered oriented rectangle pairs of a 4x4-cell lattice, all closed lattice walks of <= 8 unit steps on "
          "a 3x3-cell lattice against every rectangle; thorough: all two-subject/one-clip rectangle triples and 10^5 random "
          "degenerate walks) under all 4 clip types x 4 fill rules x PreserveCollinear on/off, at lattice scales "
          "1, 7, 2^31, 2^58 with translation."),
    note=("Trusted: Coq kernel; extraction of the checker; C++ harness; enumerators.  Proved: soundness of the checker and "
          "the algebra of the specification, for all inputs.  Not proved: that Clipper2's sweep (DoHorizontal, joins, "
          "horizontal segment merging, CleanCollinear) produces an accepted output; that part is small-scope exhaustive "
          "and generated validation (partial)."),
    technique='Coq proof (verified checker: cell constancy of the winding number) + exhaustive small-scope enumeration against the extracted checker',
    category='proof',
)

CT = {1: 'Intersection', 2: 'Union', 3: 'Difference', 4: 'Xor'}
FR = {0: 'EvenOdd', 1: 'NonZero', 2: 'Positive', 3: 'Negative'}
ALL = 0xFFFFFFFF
IDENT = (1, 0, 0, 0, 0)
BATCH = 200000


def opt_index(ct, fr, pc):
    return ((ct - 1) * 4 + fr) * 2 + pc


_fmt_cache = {}


def fmt1(p):
    k = id(p)
    r = _fmt_cache.get(k)
    if r is None or r[0] is not p:
        r = (p, '%d %s' % (len(p), vf.fmt_path(p)) if p else '0')
        _fmt_cache[k] = r
    return r[1]


def fmt_ps(ps):
    return ' '.join([str(len(ps))] + [fmt1(p) for p in ps])


def line_for(mask, tf, S, C):
    return 'RECTILT %d %d %d %d %d %d %s %s' % (mask, tf[0], tf[1], tf[2], tf[3], tf[4], fmt_ps(S), fmt_ps(C))


# ----------------------------------------------------------------------------- harness | oracle pipeline
def shard_timeout(n):
    # generous: the machine may be shared with other checks; a genuine hang is found by isolate() with short timeouts
    load = 1.0
    try:
        load = max(1.0, os.getloadavg()[0] / (os.cpu_count() or 1))
    except OSError:
        pass
    return (40 + 0.05 * n) * min(load, 8.0)


def pipe_lines(exe, oracle, lines, jobs=None):
    """Feed `lines` to `exe | oracle` in parallel shards, preserving order.
    Returns (list of (shard_lines, verdict_lines or None), failed) — a shard whose pipeline crashed, hung or lost lines has
    verdicts None; once one shard failed the shards not yet started are skipped (verdicts None, not in `failed`)."""
    jobs = jobs or vf.NPROC
    n = len(lines)
    if n == 0:
        return [], []
    chunk = max(1, (n + jobs * 4 - 1) // (jobs * 4))
    shards = [lines[i:i + chunk] for i in range(0, n, chunk)]
    res, failed = [None] * len(shards), []
    stop = threading.Event()

    def work(i):
        if stop.is_set():
            return i, None
        data = '\n'.join(shards[i]) + '\n'
        p = vf.sh(['bash', '-c', 'set -o pipefail; "%s" | "%s"' % (exe, oracle)], input=data, timeout=shard_timeout(len(shards[i])))
        if getattr(p, 'timed_out', False):       # slow machine or a hang: one retry with four times the budget decides
            p = vf.sh(['bash', '-c', 'set -o pipefail; "%s" | "%s"' % (exe, oracle)], input=data, timeout=4 * shard_timeout(len(shards[i])))
        return i, p
    with cf.ThreadPoolExecutor(max_workers=jobs) as ex:
        for i, p in ex.map(work, range(len(shards))):
            if p is None:
                res[i] = (shards[i], None)
                continue
            o = p.stdout.split('\n')
            if o and o[-1] == '':
                o.pop()
            if p.returncode != 0 or len(o) != len(shards[i]):
                stop.set()
                failed.append((i, p.returncode, p.stderr[-1500:]))
                res[i] = (shards[i], None)
            else:
                res[i] = (shards[i], o)
    return res, failed


def isolate(exe, lines):
    """16-way parallel search for the first input line on which the harness alone crashes or hangs.
    Returns (line, kind, detail) or None when the failure does not reproduce on the harness alone."""
    cur = list(lines)

    def bad(part):
        p = vf.run_lines(exe, part, timeout=4 + 0.005 * len(part))
        return p.returncode != 0 or p.stdout.count('\n') != len(part), p
    while len(cur) > 1:
        k = min(16, len(cur))
        step = (len(cur) + k - 1) // k
        parts = [cur[i:i + step] for i in range(0, len(cur), step)]
        with cf.ThreadPoolExecutor(max_workers=16) as ex:
            rs = list(ex.map(bad, parts))
        nxt = None
        for part, (b, p) in zip(parts, rs):
            if b:
                nxt = part
                break
        if nxt is None:
            return None
        cur = nxt
    b, p = bad(cur)
    if not b:
        return None
    kind = 'hang' if getattr(p, 'timed_out', False) else 'crash'
    return cur[0], kind, 'rc=%s %s' % (p.returncode, (p.stderr or '')[-300:].strip())


class Scope:
    """streams inputs through the pipeline in batches; aggregates coverage; records the first failing case per key"""

    def __init__(self, ctx, env, name, exhaustive, desc):
        self.ctx, self.env, self.name, self.exhaustive, self.desc = ctx, env, name, exhaustive, desc
        self.lines, self.meta = [], []       # meta: (base S, base C, tf, mask, class)
        self.t0 = time.time()
        self.inputs = self.nexec = self.nne = self.npaths = self.nverts = self.nbad = self.skipped = 0
        self.sampled = None

    def add(self, S, C, tf=IDENT, mask=ALL, cls=''):
        self.lines.append(line_for(mask, tf, S, C))
        self.meta.append((S, C, tf, mask, cls))
        if len(self.lines) >= BATCH:
            self.flush()

    def flush(self):
        ctx, env = self.ctx, self.env
        lines, meta = self.lines, self.meta
        self.lines, self.meta = [], []
        if not lines:
            return
        self.inputs += len(lines)
        if self.sampled is None:
            S, C, tf, mask, cls = meta[len(meta) // 3]
            self.sampled = dict(scope=self.name, S=S, C=C, transform=list(tf), option_mask=mask)
        if env['abort']:
            self.skipped += len(lines)
            return
        res, failed = pipe_lines(env['exe'], env['oracle'], lines)
        if failed:
            i, rc, err = failed[0]
            iso = isolate(env['exe'], res[i][0])
            if iso is None:
                raise vf.Infra('C02 pipeline failed in scope %s (rc=%s) and the harness alone does not reproduce it: %s' % (self.name, rc, err[-800:]))
            l, kind, detail = iso
            t = l.split()
            mask, tf = int(t[1]), tuple(int(x) for x in t[2:7])
            S, pos = vf.parse_paths(t, 7)
            C, pos = vf.parse_paths(t, pos)
            key = '%s.boolop' % kind
            if key not in env['first']:
                env['first'].add(key)
                ctx.violation(key, 'boolean operation %s on rectilinear input (scope %s, %s): S=%s C=%s transform=%s'
                              % ('crashed' if kind == 'crash' else 'did not terminate', self.name, detail, S, C, list(tf)),
                              replay=dict(kind=kind, scope=self.name, harness_line=l, lattice_case=dict(S=S, C=C, transform=list(tf)), mask=mask))
            env['fail_count'][key] = env['fail_count'].get(key, 0) + 1
            env['crashed'] = True
        pos = 0
        for shard, verdicts in res:
            m = meta[pos:pos + len(shard)]
            pos += len(shard)
            if verdicts is None:
                self.skipped += len(shard)
                continue
            self.judge(m, verdicts)
        if env['crashed'] and time.time() - ctx.t0 > env['deadline']:
            env['abort'] = True

    def judge(self, meta, verdicts):
        ctx, env = self.ctx, self.env
        for (S, C, tf, mask, cls), v in zip(meta, verdicts):
            if v.startswith('OK '):
                h = v.split()
                self.nexec += int(h[1]); self.nne += int(h[2]); self.npaths += int(h[3]); self.nverts += int(h[4])
                continue
            t = re.split(r';(?=\d+ \d+ \d+ \d+\|)', v)      # messages may themselves contain ';'
            h = t[0].split()
            if not h or h[0] != 'BAD':
                raise vf.Infra('C02 oracle said: %s' % v[:500])
            self.nexec += int(h[1]); self.nne += int(h[2]); self.npaths += int(h[3]); self.nverts += int(h[4])
            self.nbad += 1
            for ent in t[1:]:
                parts = ent.split('|')
                if len(parts) < 4:                      # debug aid: never lose a failure to a formatting surprise
                    ctx.log('C02 oracle entry with %d fields: %r (verdict %r)' % (len(parts), ent[:300], v[:600]))
                    parts = (parts + ['', '', '0'])[:4]
                head, key, msg, outp = parts[0], parts[1], parts[2], '|'.join(parts[3:])
                idx, ct, fr, pc = [int(x) for x in head.split()]
                scale = 'k=%d' % tf[0] if tf[0] < 1000 else 'k=2^%d' % (tf[0].bit_length() - 1)
                ctx.hist('failures', '%s %s/%s pc=%d %s %s' % (key, CT[ct], FR[fr], pc, cls or shape_of(S, C), scale))
                env['fail_count'][key] = env['fail_count'].get(key, 0) + 1
                if key in env['first']:
                    continue
                env['first'].add(key)
                St, Ct = rectil.apply_transform(tf, S), rectil.apply_transform(tf, C)
                sol, _ = vf.parse_paths(outp.split())
                ctx.violation(key, '%s/%s PreserveCollinear=%d scope=%s: %s; S=%s C=%s solution=%s'
                              % (CT[ct], FR[fr], pc, self.name, msg, St, Ct, sol),
                              replay=dict(S=St, C=Ct, ct=ct, fr=fr, pc=pc, solution=sol, scope=self.name,
                                          lattice_case=dict(S=S, C=C, transform=list(tf)), message=msg))

    def close(self):
        self.flush()
        ctx = self.ctx
        wall = time.time() - self.t0
        ctx.count('evaluations', self.nexec)
        ctx.count('nonempty_solutions', self.nne)
        ctx.count('solution_paths_total', self.npaths)
        ctx.count('solution_vertices_total', self.nverts)
        ent = dict(name=self.name, inputs=self.inputs, executions=self.nexec, nonempty_solutions=self.nne,
                   failing_inputs=self.nbad, exhaustive=bool(self.exhaustive and not self.skipped), wall_s=round(wall, 1), what=self.desc)
        if self.skipped:
            ent['inputs_skipped_after_crash_or_hang'] = self.skipped
        ctx.cov.setdefault('scopes', []).append(ent)
        ctx.log('scope %-28s %8d inputs %10d executions %9d non-empty  %d failing inputs%s  %.1fs'
                % (self.name, self.inputs, self.nexec, self.nne, self.nbad,
                   ('  %d skipped' % self.skipped) if self.skipped else '', wall))
        if self.sampled:
            ctx.sample(self.sampled, limit=12)


def shape_of(S, C):
    def one(p):
        return 'rect' if (len(p) == 4 and rectil.walk_class(p) == 'simple') else rectil.walk_class(p)
    return '+'.join(sorted(set(one(p) for p in S))) + '/' + ('+'.join(sorted(set(one(p) for p in C))) or 'none')


# ----------------------------------------------------------------------------- scopes
def big_variant(ctx, sc, S, C, n, i, every, cls=''):
    """rotating subset at the big scales: case i is additionally run at scale SCALES[1 + (i // every) % 3] when i % every == 0"""
    if i % every == 0:
        name, k = rectil.SCALES[1 + (i // every) % 3]
        sc.add(S, C, rectil.transform_for(ctx.rng, n, k), ALL, cls)


def run_scopes(ctx, env):
    q = ctx.quick
    # (a) all ordered pairs of oriented rectangles on the 4x4-cell lattice
    R4 = rectil.oriented_rects(4)
    a1 = Scope(ctx, env, 'rectpairs-4x4', True, 'all ordered pairs (subject, clip) of the 100 rectangles of a 4x4-cell lattice, each in both '
               'orientations (200 x 200 inputs), x 16 rule combinations x PreserveCollinear on/off, scale 1')
    for s in R4:
        for c in R4:
            a1.add([s], [c], cls='rect/rect')
    a1.close()
    every = 5 if q else 1
    a2 = Scope(ctx, env, 'rectpairs-4x4-scaled', not q,
               ('every 5th pair of the same enumeration at one of the scales 7 / 2^31 / 2^58 (rotating)' if q else
                'every pair of the same enumeration at each of the scales 7, 2^31, 2^58') + ', with lattice translation, all 32 option sets')
    i = 0
    for s in R4:
        for c in R4:
            if q:
                big_variant(ctx, a2, [s], [c], 4, i, every, 'rect/rect')
            else:
                for name, k in rectil.SCALES[1:]:
                    a2.add([s], [c], rectil.transform_for(ctx.rng, 4, k), ALL, 'rect/rect')
            i += 1
    a2.close()
    # (b) all closed lattice walks of <= 8 unit steps on the 3x3-cell lattice as subject against every rectangle
    walks = rectil.closed_walks(3, 8, canonical=q)
    for w in walks:
        ctx.hist('walk_classes', rectil.walk_class(w))
        ctx.hist('walk_steps', len(w))
    R3 = rectil.rects(3)
    R3ccw = [rectil.rect_path(r) for r in R3]
    R3cw = [rectil.rect_path(r, True) for r in R3]
    wcls = [rectil.walk_class(w) for w in walks]
    b1 = Scope(ctx, env, 'walks8-3x3-vs-rect', True,
               'all %d closed lattice walks of 2..8 unit steps on the 3x3-cell lattice (%s; every visited lattice point is a vertex) as '
               'subject against each of the 36 rectangles in both orientations as clip, all 32 option sets, scale 1'
               % (len(walks), 'one representative per cyclic rotation class, both directions' if q else 'every start vertex, both directions'))
    for w, wc in zip(walks, wcls):
        for j in range(len(R3)):
            b1.add([w], [R3ccw[j]], cls=wc + '/rect')
            b1.add([w], [R3cw[j]], cls=wc + '/rect')
    b1.close()
    b2 = Scope(ctx, env, 'walks8-3x3-vs-rect-scaled', False,
               'rotating subset (every %s (walk, rectangle) pair) of the same enumeration at scales 7 / 2^31 / 2^58 with lattice translation'
               % ('7th' if q else '3rd'))
    i = 0
    for w, wc in zip(walks, wcls):
        for j in range(len(R3)):
            big_variant(ctx, b2, [w], [R3cw[j] if i % 2 else R3ccw[j]], 3, i, 7 if q else 3, wc + '/rect')
            i += 1
    b2.close()
    b3 = Scope(ctx, env, 'walks8-merged-vs-rect', True,
               'the same walks with the vertices inside straight runs removed (only turning and reversal vertices kept), %s, '
               'against each of the 36 counter-clockwise rectangles, all 32 option sets, scale 1'
               % ('distinct after merging'))
    seen = set()
    merged = []
    for w in walks:
        m = rectil.merge_collinear(w)
        if len(m) >= 2 and m != w and tuple(m) not in seen:
            seen.add(tuple(m))
            merged.append(m)
    for m in merged:
        mc = rectil.walk_class(m) + '/rect'
        for j in range(len(R3)):
            b3.add([m], [R3ccw[j]], cls=mc)
    b3.close()
    # (c) rectangle subject, walk clip (Difference is not symmetric)
    c1 = Scope(ctx, env, 'rect-vs-walks8-3x3', True,
               'each of the 36 rectangles (orientation alternating with the enumeration index) as subject against each of the %d walks as clip, '
               'all 32 option sets, scale 1' % len(walks))
    i = 0
    for w, wc in zip(walks, wcls):
        for j in range(len(R3)):
            c1.add([R3cw[j] if i % 3 == 2 else R3ccw[j]], [w], cls='rect/' + wc)
            i += 1
    c1.close()
    # (d) triples: two subject rectangles, one clip rectangle on the 3x3-cell lattice
    O3 = rectil.oriented_rects(3)
    if q:
        d1 = Scope(ctx, env, 'recttriples-3x3-sampled', False, 'seeded sample of 40000 (subject, subject, clip) triples of oriented rectangles on '
                   'the 3x3-cell lattice, all 32 option sets, 3 of 4 at scale 1, the rest rotating over 7, 2^31, 2^58')
        for i in range(40000):
            s1, s2, c = ctx.rng.choice(O3), ctx.rng.choice(O3), ctx.rng.choice(O3)
            k = rectil.SCALES[1 + (i // 4) % 3][1] if i % 4 == 3 else 1
            d1.add([s1, s2], [c], IDENT if k == 1 else rectil.transform_for(ctx.rng, 3, k), ALL, 'rect+rect/rect')
    else:
        d1 = Scope(ctx, env, 'recttriples-3x3', True, 'all ordered triples (subject, subject, clip) of the 72 oriented rectangles of the 3x3-cell '
                   'lattice (72^3), all 32 option sets, scale 1')
        for s1 in O3:
            for s2 in O3:
                for c in O3:
                    d1.add([s1, s2], [c], cls='rect+rect/rect')
    d1.close()
    # (e) random degenerate walks
    nrand = 24000 if q else 100000
    e1 = Scope(ctx, env, 'random-walks', False, '%d seeded random cases: 1-3 subject and 0-2 clip paths, each a random closed rectilinear walk with '
               'reversals (zero-width sections), retraced and repeated sections, duplicate vertices, or a rectangle, on lattices of '
               '3..8 cells, scales rotating over 1, 7, 2^31, 2^58 with translation, all 32 option sets' % nrand)
    for i in range(nrand):
        n = ctx.rng.range(3, 8)
        S, C = rectil.random_case(ctx.rng, n)
        name, k = rectil.SCALES[i % 4]
        e1.add(S, C, IDENT if k == 1 else rectil.transform_for(ctx.rng, n, k), ALL)
        ctx.hist('random_input_vertices', min(60, sum(len(p) for p in S + C)) // 10 * 10)
        ctx.hist('random_shapes', shape_of(S, C))
    e1.close()


def corpus_scope(ctx, env):
    sc = Scope(ctx, env, 'corpus', True, 'boundary cases and minimised past failures from corpus/C02/*.case (run first), at scale 1 and at '
               'scales 7, 2^31, 2^58')
    for f in sorted(glob.glob(os.path.join(vf.VERIF, 'corpus', 'C02', '*.case'))):
        name = 'corpus:' + os.path.basename(f)[:-5]
        for ln in vf.read(f).splitlines():
            ln = ln.split('#')[0].strip()
            if not ln:
                continue
            t = ln.split()
            S, pos = vf.parse_paths(t, 0)
            C, pos = vf.parse_paths(t, pos)
            sc.add(S, C, cls=name)
            coords = [c for p in S + C for v in p for c in v]
            if coords and min(coords) >= 0 and max(coords) <= 8:
                for sname, k in rectil.SCALES[1:]:
                    sc.add(S, C, rectil.transform_for(ctx.rng, max(coords), k), ALL, name)
    sc.close()


def cross_check(ctx, exe, oracle):
    """the shared-preparation path of the oracle (RC) must agree with rect_check itself (RC1) — validates the driver glue"""
    rng = ctx.rng.fork(99)
    lines = []
    for i in range(40):
        S, C = rectil.random_case(rng, rng.range(3, 6))
        lines.append(line_for(ALL, IDENT, S, C))
    p = vf.run_lines(exe, lines, timeout=15)
    if p.returncode != 0 or p.stdout.count('\n') != len(lines):
        ctx.cov['oracle_glue_crosscheck'] = 'skipped: harness crashed or hung on the cross-check inputs (isolated by the scopes below)'
        return
    rc1 = []
    for l in p.stdout.splitlines():
        t = l.split()
        S, pos = vf.parse_paths(t, 1)
        C, pos = vf.parse_paths(t, pos)
        n = int(t[pos]); pos += 1
        for _ in range(n):
            ct, fr, pc, ok = [int(x) for x in t[pos:pos + 4]]
            out, pos = vf.parse_paths(t, pos + 4)
            rc1.append('RC1 %d %d %s %s %s' % (ct, fr, vf.fmt_paths(S), vf.fmt_paths(C), vf.fmt_paths(out)))
    o1 = vf.run_lines(oracle, rc1).stdout.split()
    o2 = vf.run_lines(oracle, p.stdout.splitlines()).stdout.splitlines()
    bad1 = sum(1 for x in o1 if x != '1')
    bad2 = 0
    for l in o2:
        ents = l.split(';')[1:]
        bad2 += len(set(e.split('|')[0] for e in ents if e.split('|')[1].startswith('rectil.')))
    ctx.cov['oracle_glue_crosscheck'] = dict(solutions=len(rc1), rect_check_false=bad1, shared_prep_false=bad2)
    if bad1 != bad2 or len(o1) != len(rc1):
        raise vf.Infra('C02 oracle glue: RC and RC1 disagree (%d vs %d)' % (bad2, bad1))


def run(ctx):
    pr = vf.coq_props(ctx, 'C02')
    broken = not pr['ok']
    try:
        exe = vf.build_cpp(ctx, 'cx_rectil.cpp', 'plain')
    except vf.BuildFailure as e:
        ctx.violation('tie-break:cx_rectil', 'rectilinear boolean harness no longer builds: %s' % str(e)[-600:],
                      replay=dict(error=str(e)[-2000:]), nofail=True)
        return
    oracle = vf.oracle_build('rectcheck')
    cross_check(ctx, exe, oracle)
    env = dict(exe=exe, oracle=oracle, first=set(), fail_count={}, crashed=False, abort=False,
               deadline=240 if ctx.quick else 1500)
    corpus_scope(ctx, env)
    run_scopes(ctx, env)
    ctx.cov['failures_by_key'] = env['fail_count']
    ctx.cov['distinct_nontrivial'] = ctx.cov.get('nonempty_solutions', 0)
    ctx.cov['exhaustive'] = False
    ctx.cov['exhaustive_scopes'] = [s['name'] for s in ctx.cov.get('scopes', []) if s['exhaustive']]
    ctx.cov['rule'] = ('enumerated/generated closed rectilinear inputs (see scopes[].what; scopes with exhaustive=true are enumerated '
                       'completely in this tier, in a fixed order, so the first failing case is minimal by construction; the top-level '
                       'exhaustive flag is false because the run also contains sampled scopes); every input is '
                       'executed on a fresh Clipper64 under each of 4 clip types x 4 fill rules x PreserveCollinear on/off and every '
                       'solution is judged by the extracted Coq checker rect_check (all cells of the compressed grid incl. the unbounded '
                       'ones, exact area2, vertices on X x Y, axis-parallel edges) plus Execute = true, >= 3 vertices, no consecutive '
                       'duplicates; evaluations = executions; distinct_nontrivial = executions (distinct (input, option set) pairs) '
                       'whose solution is non-empty')
    ctx.assumptions += ['the engine is validated on enumerated small scopes and seeded random walks, not proved; the theorem is the '
                        'soundness of the checker that judges each run',
                        'coordinates at the largest scale stay within |x| <= 2^61 (Clipper2 documents +-2^62)']
    if broken and not ctx.violations:
        ctx.violation('proof-break:Properties_C02', 'Properties_C02 no longer checks: %s' % '; '.join(pr['failed'])[:800],
                      replay=dict(failed=pr['failed'], log=pr['log'][-2000:]), nofail=True)


def replay(ctx, path):
    r = json.load(open(path))['replay']
    exe = vf.build_cpp(ctx, 'cx_rectil.cpp', 'plain')
    oracle = vf.oracle_build('rectcheck')
    ctx.count('evaluations')
    ctx.cov['distinct_nontrivial'] = 1
    if 'harness_line' in r:
        p = vf.run_lines(exe, [r['harness_line']], timeout=30)
        print('harness rc=%s timed_out=%s' % (p.returncode, getattr(p, 'timed_out', False)))
        if p.returncode != 0 or not p.stdout.strip():
            ctx.violation('%s.boolop' % r.get('kind', 'crash'), 'replayed: harness %s' % ('hung' if getattr(p, 'timed_out', False) else 'crashed'), replay=r)
            return
        out = p.stdout.strip()
    else:
        S = [[tuple(v) for v in p] for p in r['S']]
        C = [[tuple(v) for v in p] for p in r['C']]
        mask = 1 << opt_index(r['ct'], r['fr'], r['pc'])
        out = vf.run_lines(exe, [line_for(mask, IDENT, S, C)]).stdout.strip()
    print(out)
    v = vf.run_lines(oracle, [out]).stdout.strip()
    print(v)
    for ent in v.split(';')[1:]:
        head, key, msg, outp = ent.split('|')
        ctx.violation(key, 'replayed: %s' % msg, replay=r)
