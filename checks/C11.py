"""C11 -- execution always succeeds on valid input and invalid arguments are reported.

prove      coq/props/Properties_C11.v (ErrorModel.v: CheckPrecisionRange, ScalePath(s), every PathsD wrapper prologue,
           every export prologue, over an exceptions on|off parameter; _refuted theorems carry the witnesses replayed here)
correspond exhaustive grid (precision -12..12 x coordinate magnitude class x position x sign x entry point; scale 0/tiny/huge
           for the direct kernels; every export function) in a normal build and a -fno-exceptions build: every outcome of the real
           code must equal ErrorModel's (exception / error code / empty / input returned / result bit-identical to
           descale(entry64(model's scaled arguments))) and must satisfy the property.

success    harness/cx_success.cpp: the first sentence of the property ("Execute returns true (the C export returns 0) for every set of
           paths and every clip type and fill rule", inputs as in C10: degenerate, touching, coincident, open paths) on small lattices:
           a seeded random stream (closed + open paths on 4x4..10x10 lattices, every clip type x fill rule, Clipper64 and ClipperD, Paths and
           PolyTree overloads, BooleanOp64/D(+_PolyTree) exports) and every open polyline of 3/4 lattice points against four clip shapes;
           any false / non-zero return is minimised and reported with the input as replay; NoClip must give empty solutions.

How a cell is judged ("reported", from the property text):
  * exceptions build: a Clipper2Exception carrying the code of one of the cell's invalidities is thrown;
  * -fno-exceptions build: the result is empty AND, where the entry point has an error-code channel at all (ScalePath/ScalePaths'
    int& argument, ClipperD::ErrorCode()), the bit of one of the invalidities is set.  Free functions returning PathsD/PathD,
    MakePath and PolyPathD have no such channel: for them the empty result is the report.
  * C exports: negative return value / nullptr before anything is computed (or the exception of the C++ layer).
Not judged (tie to the model only): an *empty input* (empty rectangle / no paths) together with an invalid precision -- the
answer is empty whatever the precision, nothing is computed from it, nothing is "accepted"; a coordinate of exactly 2^61.
"""
import os, json
import vf
from checks import C16 as S
from checks.C16 import viol

META = dict(
    text='Execute returns true on every run; NoClip yields empty solutions; a precision outside +-8, coordinates leaving the integer '
         'range after scaling, a zero scale and an odd coordinate count are reported by exception (or error code + empty result without '
         'exceptions); out-of-range clip type / fill rule / precision are rejected at the C boundary.',
    note='Coq ErrorModel mirrors the order of checks of every PathsD wrapper and export prologue with exceptions on/off; the grid ties '
         'the real outcomes (both builds) to the model cell by cell and judges each cell against the property; silent acceptances are '
         'proved as _refuted theorems with the witnesses that are replayed here.',
    technique='Coq model + theorems (case analysis/lia, vm_compute witnesses) + exhaustive-grid differential in two build configurations + small-lattice success stream (random and exhaustive) over every Execute overload and BooleanOp export',
    category='proof')

FAM = dict(S.FAMILY)
FAM['rectcliplines'] = FAM['rectcliplines1'] = 'rectclipD'
SCALEPATHS_USERS = {'clipperD', 'booleanopD', 'inflateD', 'rectclipD'}
BIG = {'justfits': (1 << 61) - (1 << 12), 'edge': (1 << 61), 'overflow': (1 << 61) + (1 << 12)}
MAGS = ['justfits', 'edge', 'overflow', '1e300', 'inf', 'nan']


# ----------------------------------------------------------------------------- grid of D-entry cells
def base_case(entry, p, deg=None):
    """a small valid input for `entry` in grid units, converted with the documented scale of the clamped precision"""
    pc = max(-8, min(8, p))
    s = S.spec_scale_py(entry, pc)

    def u(path):
        return [(x / s, y / s) for x, y in path]
    sq = [(0, 0), (10, 0), (10, 10), (0, 10)]
    cl = [(5, 5), (15, 5), (15, 15), (5, 15)]
    op = [(2, 2), (12, 3)]
    if entry in ('clipperD', 'clipperD_tree'):
        ct = 0 if deg == 'noclip' else 2
        return S.Case(entry, p, [ct, 1, 1, 0], [[u(sq)], [u(op)], [u(cl)]], None), s
    if entry in ('booleanop', 'booleanop_tree'):
        return S.Case(entry, p, [0 if deg == 'noclip' else 2, 1], [[u(sq)], [u(cl)]], None), s
    if entry in ('intersect', 'union', 'difference', 'xor'):
        return S.Case(entry, p, [1], [[u(sq)], [u(cl)]], None), s
    if entry == 'union1':
        return S.Case(entry, p, [1], [[u(sq)]], None), s
    if entry == 'inflate':
        delta = 0.0 if deg == 'delta0' else 2.0 / s
        return S.Case(entry, p, [0, 0, 2.0, delta, 0.0], [[u(sq)]], None), s
    if entry.startswith('rectclip'):
        rect = [2 / s, 2 / s, 8 / s, 8 / s]
        if deg == 'emptyrect':
            rect = [2 / s, 2 / s, 2 / s, 8 / s]
        paths = [u(sq)] if not entry.startswith('rectcliplines') else [u([(0, 5), (10, 5), (10, 6)])]
        if deg == 'emptypaths':
            paths = []
        return S.Case(entry, p, [], [paths], rect), s
    if entry in ('minksum', 'minkdiff'):
        return S.Case(entry, p, [1], [[u([(0, 0), (1, 0), (0, 1)])], [u([(0, 0), (5, 0), (0, 5)])]], None), s
    if entry == 'trim':
        return S.Case(entry, p, [0], [[u([(0, 0), (5, 0), (10, 0), (10, 10), (0, 10)])]], None), s
    raise ValueError(entry)


def mag_value(mag, s, sign):
    if mag in BIG:
        v = BIG[mag] / s
    elif mag == '1e300':
        v = 1e300
    elif mag == 'inf':
        v = float('inf')
    else:
        return float('nan')
    return -v if sign < 0 else v


def positions(entry):
    pos = ['s0x', 's0y']
    c, _ = base_case(entry, 2)
    if len(c.sets) >= 2:
        pos.append('lastx')
    if entry.startswith('rectclip'):
        pos.append('rect')
    return pos


def plant(case, pos, v):
    tok = S.fhex(v)
    if pos == 'rect':
        if v < 0:
            case.rect[0] = tok
        else:
            case.rect[2] = tok
        return
    k = len(case.sets) - 1 if pos == 'lastx' else 0
    if not case.sets[k] or not case.sets[k][0]:
        return
    x, y = case.sets[k][0][1]
    case.sets[k][0][1] = (tok, y) if pos in ('s0x', 'lastx') else (x, tok)


def grid_cells():
    cells = []
    for e in S.ENTRIES:
        for p in range(-12, 13):
            c, s = base_case(e, p)
            c.cell = dict(entry=e, p=p, mag='fits', pos='-', sign=0, deg=None)
            cells.append(c)
            for mag in MAGS:
                for pos in positions(e):
                    for sign in ((1,) if mag == 'nan' else (1, -1)):
                        c, s = base_case(e, p)
                        plant(c, pos, mag_value(mag, s, sign))
                        c.cell = dict(entry=e, p=p, mag=mag, pos=pos, sign=sign, deg=None)
                        cells.append(c)
            degs = {'inflate': ['delta0'], 'clipperD': ['noclip'], 'clipperD_tree': ['noclip'], 'booleanop': ['noclip'],
                    'booleanop_tree': ['noclip']}.get(e, [])
            if e.startswith('rectclip'):
                degs = ['emptyrect'] + ([] if e.endswith('1') else ['emptypaths'])
            for deg in degs:
                c, s = base_case(e, p, deg)
                c.cell = dict(entry=e, p=p, mag='fits', pos='-', sign=0, deg=deg)
                cells.append(c)
    for c in cells:
        c.tag = json.dumps(c.cell, sort_keys=True)
    return cells


def is_empty_result(D):
    if D.kind != 'OK':
        return False
    if D.shape == 'T' and len(D.struct) > 2:
        return False
    return not any(len(p) for p in D.sets[0]) and not any(len(p) for p in D.sets[1])


def tie_outcome(rec, inputs=None):
    """does the real outcome equal ErrorModel's?  returns None or a reason"""
    D, M = rec['D'], rec['M']
    if M.kind == 'THROWN':
        if D.kind != 'THROW':
            return 'model throws %d, code did not throw' % M.code
        if D.code != M.code:
            return 'model throws %d, code throws %d' % (M.code, D.code)
        if D.ec != -1 and D.ec != M.ec:
            return 'error code after throw %d, model %d' % (D.ec, M.ec)
        return None
    if D.kind != 'OK':
        return 'code outcome %s, model %s' % (D.line[:40], M.line[:40])
    if D.ec is not None and D.ec != -1 and D.ec != M.ec:
        return 'error code %d, model %d' % (D.ec, M.ec)
    if M.value == 'EMPTY':
        return None if is_empty_result(D) else 'model says empty result'
    if M.value == 'INPUT':
        inp = [inputs, []]
        return None if S.sets_bits(D.sets) == S.sets_bits(inp) else 'model says the input is returned unchanged'
    if M.value == 'UNDEF':
        return None             # undefined behaviour: nothing to compare
    if M.value == 'CALL':
        why = S.compare(D, rec.get('IM'), rec.get('expM'))
        return None if why is None else 'result differs from descale(entry64(model arguments)): ' + why
    return 'unparsed model line'


def invalidities(cell, M):
    inv = set()
    if cell.get('deg') in ('emptyrect', 'emptypaths'):
        return inv          # nothing is computed: the (empty) answer does not depend on the precision (C11_rectclip_empty_input)
    if not -8 <= cell['p'] <= 8:
        inv.add('precision')
    if cell['mag'] in ('overflow', '1e300', 'inf', 'nan'):
        if M.rng is False:
            inv.add('nan' if cell['mag'] == 'nan' else 'range')
    return inv


CODES = {'precision': 1, 'range': 64, 'nan': 64, 'zero-scale': 2, 'odd-count': 4}


def reported(D, inv, exc):
    """the property's notion of 'reported'"""
    codes = {CODES[i] for i in inv}
    if exc:
        return D.kind == 'THROW' and D.code in codes
    if D.kind != 'OK':
        return D.kind == 'THROW'
    if not is_empty_result(D):
        return False
    if D.ec is not None and D.ec != -1:
        return any(D.ec & c for c in codes)
    return True


def is_known(ctx, key):
    return any(k['key'] == key for k in ctx.known)


def has_code(D):
    return D.kind == 'OK' and D.ec is not None and D.ec != -1


def key_for(cell, inv, exc, D, M):
    """classifier of a silent acceptance, from what was observed:
       report.nan-coordinate.unchecked      a NaN coordinate passed the range test(s) into the (undefined) conversion, as the model predicts
       report.<fam>.<what>-unchecked        exceptions build: nothing thrown (what = precision-ignored | range | rect-range)
       report.<fam>.<what>-wrong-exception  exceptions build: an exception of another kind
       report.<fam>.<what>-nonempty-noexc   no-exception build: (the code, where there is one, is set but) a non-empty result is returned
       report.<fam>.<what>-code-missing-noexc  no-exception build: the entry point has an error code and its bit is not set"""
    fam = FAM[cell['entry']]
    if cell.get('deg') == 'delta0' and not exc and 'precision' in inv:
        return 'report.inflateD.delta0-before-errorcode'        # InflatePaths(PathsD): `if (!delta) return paths;` before `if (error_code)`
    if 'nan' in inv and 'precision' not in inv and D.kind == 'OK' and M.value == 'UNDEF':
        return 'report.nan-coordinate.unchecked'
    if 'precision' in inv:
        what, bit = 'precision', 1
    else:
        what, bit = ('rect-range' if cell['pos'] == 'rect' else 'range'), 64
    if exc:
        if D.kind == 'THROW':
            return 'report.%s.%s-wrong-exception' % (fam, what)
        return 'report.%s.%s' % (fam, 'precision-ignored' if what == 'precision' else what + '-unchecked')
    if has_code(D) and not D.ec & bit:
        return 'report.%s.%s-code-missing-noexc' % (fam, what)
    return 'report.%s.%s-nonempty-noexc' % (fam, what)


def judge_cell(ctx, rec, exc):
    c, D, M = rec['case'], rec['D'], rec['M']
    cell = c.cell
    build = 'exceptions' if exc else 'noexc'
    rp = dict(line=c.body(), cell=cell, build=build)
    ctx.count('evaluations')
    ctx.hist('cells_%s' % build, '%s/%s' % (FAM[cell['entry']], cell['mag'] if not cell['deg'] else cell['deg']))
    if rec.get('crashed') or D.kind == 'ERR':
        viol(ctx, 'report.%s.crash' % FAM[cell['entry']], '%s [%s]: crashed / no result on cell %s' % (cell['entry'], build, c.tag), replay=rp)
        return
    if M.kind == 'ERR':
        raise vf.Infra('oracle error on %s: %s' % (c.body()[:200], M.line[:200]))
    if M.guard is False:
        viol(ctx, 'model.range-guard', 'ScalePaths range test passed but a NaN-free coordinate converts outside +-2^61 (model level): %s' % c.body()[:300], replay=rp)
    # success clause: every Execute that ran returned true
    for r in (D, rec.get('IM')):
        if r is not None and r.kind == 'OK' and r.ret == 0:
            viol(ctx, 'success.execute-false', 'Execute returned false on %s' % c.body()[:300], replay=rp)
    # tie
    why = tie_outcome(rec, c.sets[0] if c.sets else None)
    tie_ok = why is None
    # property
    inv = invalidities(cell, M)
    violated = False
    key = None
    if inv:
        if not reported(D, inv, exc):
            violated = True
            key = key_for(cell, inv, exc, D, M)
            viol(ctx, key, '%s(precision %d, %s at %s) [%s build]: invalid %s not reported: outcome %s (model: %s)'
                          % (cell['entry'], cell['p'], cell['mag'], cell['pos'], build, '+'.join(sorted(inv)), D.line[:120], M.line[:60]),
                          replay=rp)
            ctx.hist('silent_acceptances', key)
        else:
            ctx.count('invalid_cells_reported')
    elif cell['mag'] == 'edge':
        pass                        # exactly 2^61 = MAX_COORD + 1 with a valid precision: accepted by the double comparison; tie only
    elif cell.get('deg') in ('emptyrect', 'emptypaths') and not -8 <= cell['p'] <= 8:
        pass                        # empty input + invalid precision: either answer (empty result / report) satisfies the property; tie only
    else:
        # valid cell: must succeed with the computed result (or the documented shortcut), no error
        if D.kind != 'OK' or (D.ec not in (None, -1, 0)):
            violated = True
            key = 'valid-input-rejected.%s' % FAM[cell['entry']]
            viol(ctx, key, '%s(precision %d, %s) [%s]: valid input gave %s'
                          % (cell['entry'], cell['p'], cell['mag'], build, D.line[:100]), replay=rp)
        if cell['deg'] == 'noclip' and not is_empty_result(D):
            violated = True
            key = 'noclip.nonempty'
            viol(ctx, key, '%s with ClipType::NoClip returned a non-empty solution: %s' % (cell['entry'], D.line[:120]), replay=rp)
        if tie_ok and D.kind == 'OK' and not is_empty_result(D):
            ctx.count('valid_nonempty')
    if not tie_ok and not (violated and not is_known(ctx, key)):
        # the model must predict the code everywhere -- in particular on the cells of a known finding (that is what makes the key
        # narrow: a listed finding whose cell no longer behaves as modelled is a new violation).  Where the cell already reports
        # a property violation under a key that is not listed, that report stands for the cell.
        viol(ctx, 'tie-break:%s' % cell['entry'], 'ErrorModel disagrees with the code on cell %s [%s]: %s; code: %s; model: %s'
                      % (c.tag, build, why, D.line[:100], M.line[:80]), replay=rp, nofail=not violated and not inv)
    elif not violated:
        ctx.count('cells_agreeing_and_satisfying')


# ----------------------------------------------------------------------------- direct kernels
def kernel_cells():
    """(harness-exe-kind, harness line, oracle K line, meta)"""
    out = []
    for p in list(range(-40, 41)) + [-2147483648, 2147483647, 1000, -1000]:
        for ec in (0, 2, 64):
            out.append(('err', 'CPR %d %d' % (p, ec), 'cpr %d %d' % (p, ec), dict(k='cpr', p=p, ec=ec)))
    for n in range(0, 8):
        vals = ' '.join(str(3 * i + 1) for i in range(n))
        out.append(('err', ('MAKEPATH %d %s' % (n, vals)).strip(), ('makepath %d %s' % (n, vals)).strip(), dict(k='makepath', n=n)))
        out.append(('err', ('MAKEPATHD %d %s' % (n, vals)).strip(), ('makepath %d %s' % (n, vals)).strip(), dict(k='makepathd', n=n)))
    scales = [('zero', 0.0), ('negzero', -0.0), ('one', 1.0), ('tiny', 5e-324), ('small', 1e-300), ('huge', 1e300), ('max', 1.7976931348623157e308)]
    coords = [('small', 1.5), ('mid', 1e10), ('just', float((1 << 61) - (1 << 12))), ('over', float((1 << 61) + (1 << 12))),
              ('1e300', 1e300), ('tiny', 1e-300), ('inf', float('inf')), ('nan', float('nan'))]
    for sxn, sx in scales:
        for syn, sy in scales:
            if sxn not in ('zero', 'one') and syn not in ('zero', 'one') and sxn != syn:
                continue
            for cn, cv in coords:
                for which in ('scalepath', 'scalepaths'):
                    paths = [[(1.0, 2.0), (cv, 3.0)], [(4.0, -cv if cv == cv else cv)]]
                    if which == 'scalepath':
                        paths = paths[:1]
                    l = '%s %s %s 0 %s' % (which, S.fhex(sx), S.fhex(sy), S.fmt_fpaths(paths))
                    out.append(('scale', 'K ' + l, l, dict(k=which, sx=sxn, sy=syn, coord=cn)))
        # descaling direction and PolyPathD
        ip = '1 2 3 4 -5 6'
        for which in ('descalepath', 'descalepaths'):
            l = '%s %s %s 0 %s' % (which, S.fhex(sx), S.fhex(1.0), ip)
            out.append(('scale', 'K ' + l, l, dict(k=which, sx=sxn, sy='one', coord='int')))
        l = 'polypathd %s %s' % (S.fhex(sx), ip)
        out.append(('scale', 'K ' + l, l, dict(k='polypathd', sx=sxn, sy=sxn, coord='int')))
    return out


def judge_kernel(ctx, exc, meta, hline, oline, h, o):
    build = 'exceptions' if exc else 'noexc'
    rp = dict(kernel=hline, okernel=oline, build=build, meta=meta)
    ctx.count('evaluations')
    ctx.hist('kernel_cells_%s' % build, meta['k'])
    k = meta['k']
    if k == 'cpr':
        # OK <ec> <p'>  |  THROW 1 <ec>
        if h.split() != o.split():
            viol(ctx, 'tie-break:CheckPrecisionRange', 'CheckPrecisionRange(%d, %d) [%s]: code %s model %s' % (meta['p'], meta['ec'], build, h, o), replay=rp)
        if not -8 <= meta['p'] <= 8:
            t = h.split()
            ok = (t[0] == 'THROW' and t[1] == '1') if exc else (t[0] == 'OK' and int(t[1]) & 1 and int(t[2]) in (-8, 8))
            if not ok:
                viol(ctx, 'report.checkprecisionrange.silent', 'CheckPrecisionRange(%d) [%s] did not report: %s' % (meta['p'], build, h), replay=rp)
        elif h.split()[0] != 'OK' or int(h.split()[1]) != meta['ec']:
            viol(ctx, 'valid-input-rejected.checkprecisionrange', 'CheckPrecisionRange(%d) [%s]: %s' % (meta['p'], build, h), replay=rp)
        return
    H = S.Res(h)
    O = S.Res(o) if not o.startswith('UB') else None
    ub = O is None
    tie_why = None
    if not ub:
        same = ((H.kind == O.kind == 'OK' and (H.ec == O.ec) and S.sets_bits(H.sets) == S.sets_bits(O.sets))
                or (H.kind == O.kind == 'THROW' and H.code == O.code and (H.ec == -1 or O.ec == -1 or H.ec == O.ec)))
        if not same:
            tie_why = '%s [%s]: code %s model %s' % (hline[:120], build, h[:120], o[:120])
    elif H.kind != 'OK':
        tie_why = '%s [%s]: model says unchecked conversion (UB), code %s' % (hline[:120], build, h[:120])
    key = judge_kernel_property(ctx, exc, meta, hline, h, o, H, O, ub, rp)
    if tie_why and not (key and not is_known(ctx, key)):
        viol(ctx, 'tie-break:%s' % k, tie_why, replay=rp)
    elif not tie_why and key is None:
        ctx.count('cells_agreeing_and_satisfying')


def judge_kernel_property(ctx, exc, meta, hline, h, o, H, O, ub, rp):
    """returns the key of the property violation reported for this kernel cell, or None"""
    build = 'exceptions' if exc else 'noexc'
    k = meta['k']
    # property
    inv = set()
    if k in ('makepath', 'makepathd') and meta['n'] % 2:
        inv.add('odd-count')
    if k in ('scalepath', 'scalepaths', 'descalepath', 'descalepaths', 'polypathd') and ('zero' in (meta['sx'], meta['sy']) or 'negzero' in (meta['sx'], meta['sy'])):
        inv.add('zero-scale')
    if k in ('scalepath', 'scalepaths'):
        # does a scaled coordinate leave the integer range?  decided from the model: conversion undefined, or a range error,
        # or |result| > MAX_COORD
        if ub or (O.kind == 'THROW' and O.code == 64) or (O.kind == 'OK' and O.ec is not None and O.ec & 64):
            inv.add('nan' if (ub and meta['coord'] == 'nan') else 'range')
        elif O.kind == 'OK' and any(abs(int(a)) > (1 << 61) or abs(int(b)) > (1 << 61) for s in O.sets for p in s for a, b in p):
            inv.add('range')
    if not inv:
        if H.kind != 'OK':
            viol(ctx, 'valid-input-rejected.%s' % k, '%s [%s]: %s' % (hline[:100], build, h[:100]), replay=rp)
            return 'valid-input-rejected.%s' % k
        return None
    if reported(H, inv, exc):
        ctx.count('invalid_cells_reported')
        return None
    kk = {'makepathd': 'makepath', 'polypathd': 'polypathD', 'descalepath': 'scalepath', 'descalepaths': 'scalepath'}.get(k, k)
    code_channel = has_code(H)
    if 'odd-count' in inv:
        # MakePath has no error code: without exceptions the only possible report is an empty path
        key = 'report.makepath.odd-count-silent-noexc' if not exc else 'report.makepath.odd-count-ignored'
    elif 'nan' in inv and ub and H.kind == 'OK':
        key = 'report.nan-coordinate.unchecked'
    elif 'range' in inv and (exc or not (code_channel and H.ec & 64)):
        # the range test did not fire at all (no exception / bit 64 not set)
        key = 'report.%s.range-unchecked' % kk
    elif 'zero-scale' in inv and not exc and code_channel and H.ec & 2:
        # ScalePath (also inside ScalePaths, and in the descaling direction): scale_error_i is set, the scale becomes 1 and the
        # path is returned.  (With an oversized coordinate as well: x * 0 passes ScalePaths' test on the whole set, ScalePath's own
        # test with the repaired scale 1 then empties that one path and sets bit 64 -- the other paths still come back.)
        key = 'report.scalepath.zero-scale-nonempty-noexc'
    elif 'range' in inv:
        key = 'report.%s.range-nonempty-noexc' % kk
    elif exc:
        key = 'report.%s.zero-scale-ignored' % kk
    elif not code_channel:
        key = 'report.%s.zero-scale-silent-noexc' % kk               # PolyPathD::AddChild: the code is a dead local
    elif not H.ec & 2:
        key = 'report.%s.zero-scale-code-missing-noexc' % kk
    else:
        key = 'report.%s.zero-scale-unclassified' % kk
    viol(ctx, key, '%s [%s]: invalid %s not reported: %s (model %s)' % (hline[:140], build, '+'.join(sorted(inv)), h[:100], o[:60]), replay=rp)
    ctx.hist('silent_acceptances', key)
    return key


# ----------------------------------------------------------------------------- C export layer
class XCase(S.Case):
    pass


def export_cells():
    cells = []
    sq = [(0.0, 0.0), (10.0, 0.0), (10.0, 10.0), (0.0, 10.0)]
    cl = [(5.0, 5.0), (15.0, 5.0), (15.0, 15.0), (5.0, 15.0)]
    enums = [0, 1, 2, 3, 4, 5, 6, 200, 255]
    for x in ('BooleanOp64', 'BooleanOp_PolyTree64'):
        for ct in enums:
            for fr in enums:
                cells.append(dict(x=x, ct=ct, fr=fr, p=None, mag='fits', pos='-', sign=0,
                                  hline='X %s %d %d 1 4 0 0 10 0 10 10 0 10 0 1 4 5 5 15 5 15 15 5 15' % (x, ct, fr),
                                  oline='%s %d %d' % (x, ct, fr)))
    for x in ('BooleanOpD', 'BooleanOp_PolyTreeD'):
        for p in range(-12, 13):
            for ct in enums:
                for fr in enums:
                    if not (p in (-12, -9, -8, 0, 2, 8, 9, 12) or (ct in (2, 5) and fr in (1, 4))):
                        continue
                    s = S.spec_scale_py('clipperD', max(-8, min(8, p)))
                    body = '%s %d %d %d %s 0 %s' % (x, ct, fr, p, S.fmt_fpaths([[(a / s, b / s) for a, b in sq]]), S.fmt_fpaths([[(a / s, b / s) for a, b in cl]]))
                    cells.append(dict(x=x, ct=ct, fr=fr, p=p, mag='fits', pos='-', sign=0, hline='X ' + body, oline=body))
            for mag in MAGS:
                for pos in ('s0x', 's0y', 'lastx'):
                    for sign in ((1,) if mag == 'nan' else (1, -1)):
                        s = S.spec_scale_py('clipperD', max(-8, min(8, p)))
                        A = [[(a / s, b / s) for a, b in sq]]; B = [[(a / s, b / s) for a, b in cl]]
                        v = mag_value(mag, s, sign)
                        tgt = B if pos == 'lastx' else A
                        tgt[0][1] = (v, tgt[0][1][1]) if pos != 's0y' else (tgt[0][1][0], v)
                        body = '%s 2 1 %d %s 0 %s' % (x, p, S.fmt_fpaths(A), S.fmt_fpaths(B))
                        cells.append(dict(x=x, ct=2, fr=1, p=p, mag=mag, pos=pos, sign=sign, hline='X ' + body, oline=body))
    for x in ('InflatePathsD', 'InflatePathD', 'RectClipD', 'RectClipLinesD'):
        for p in range(-12, 13):
            for mag in ['fits'] + MAGS:
                poss = ['-'] if mag == 'fits' else (['s0x', 's0y'] + (['rect'] if x.startswith('Rect') else []))
                for pos in poss:
                    for sign in ((1,) if mag in ('nan', 'fits') else (1, -1)):
                        pc = max(-8, min(8, p))
                        s = S.spec_scale_py('inflate', pc)
                        A = [[(a / s, b / s) for a, b in sq]]
                        rect = [2 / s, 2 / s, 8 / s, 8 / s]
                        if x == 'RectClipLinesD':
                            A = [[(0.0, 5 / s), (10 / s, 5 / s), (10 / s, 6 / s)]]
                        if mag != 'fits':
                            v = mag_value(mag, s, sign)
                            if pos == 'rect':
                                rect[0 if v < 0 else 2] = v
                            else:
                                A[0][1] = (v, A[0][1][1]) if pos == 's0x' else (A[0][1][0], v)
                        if x.startswith('Inflate'):
                            body = '%s %d 0 0 %s %s %s %s' % (x, p, S.fhex(2.0), S.fhex(2.0 / s), S.fhex(0.0), S.fmt_fpaths(A))
                        else:
                            body = '%s %d %s %s' % (x, p, ' '.join(S.fhex(v) for v in rect), S.fmt_fpaths(A))
                        cells.append(dict(x=x, ct=None, fr=None, p=p, mag=mag, pos=pos, sign=sign, hline='X ' + body, oline=body))
    return cells


class XRes(S.Res):
    """export result lines: RC n [P ..] | NULL | PTR P .. | THROW c ec"""

    def __init__(self, line):
        t = line.split()
        self.rc = None
        self.null = False
        if t and t[0] == 'RC':
            rc = int(t[1])
            rest = ' '.join(t[2:])
            S.Res.__init__(self, 'OK -1 -1 ' + rest if rest.startswith('P') else 'OK -1 -1 P 0 0')
            self.rc = rc
            self.has_result = rest.startswith('P')
            self.line = line
        elif t and t[0] == 'NULL':
            S.Res.__init__(self, 'OK -1 -1 P 0 0')
            self.null = True
            self.line = line
        elif t and t[0] == 'PTR':
            S.Res.__init__(self, 'OK -1 -1 ' + ' '.join(t[1:]))
            self.line = line
        else:
            S.Res.__init__(self, line)


def export_i_line(cell, call):
    x = cell['x']
    Sx = call['sets']
    if x == 'BooleanOpD':
        return 'I clipperD %d %d 1 0 %s %s %s' % (cell['ct'], cell['fr'], S.put_paths(Sx[0]), S.put_paths(Sx[1]), S.put_paths(Sx[2]))
    if x in ('InflatePathsD', 'InflatePathD'):
        return 'I inflate 0 0 %s %s %s %s' % (S.fhex(2.0), call['fl'][0], call['fl'][1], S.put_paths(Sx[0]))
    if x == 'RectClipD':
        return 'I rectclip %s %s' % (' '.join(call['rect']), S.put_paths(Sx[0]))
    if x == 'RectClipLinesD':
        return 'I rectcliplines %s %s' % (' '.join(call['rect']), S.put_paths(Sx[0]))
    return None


def run_exports(ctx, exc, xerr, xscale, oracle, cells=None):
    cells = export_cells() if cells is None else cells
    hl, f1 = vf.par_lines(xerr, [c['hline'] for c in cells], timeout=120)
    ol, f2 = vf.par_lines(oracle, ['X %d %s' % (1 if exc else 0, c['oline']) for c in cells])
    if f2:
        raise vf.Infra('oracle X failed: ' + f2[0][2][-300:])
    if f1:
        hl = []
        for c in cells:     # slow path: find the crashing cell
            p = vf.run_lines(xerr, [c['hline']], timeout=30)
            hl.append(p.stdout.strip() if p.returncode == 0 and p.stdout.strip() else 'ERR crashed rc=%s' % p.returncode)
    # tie through the 64-bit entry for cells whose model is a computed call
    ilines, idx = [], []
    parsed = []
    for k, c in enumerate(cells):
        H = XRes(hl[k])
        o = ol[k]
        M = None
        if o.startswith('RC') or o.startswith('NULL') or o.startswith('GO'):
            pass
        else:
            M = S.Model(o)
            if M.call is not None:
                il = export_i_line(c, M.call)
                if il:
                    ilines.append(il); idx.append(k)
        parsed.append((H, M, o))
    il_out, f3 = vf.par_lines(xscale, ilines, timeout=120)
    dl = []
    for j, k in enumerate(idx):
        r = S.Res(il_out[j]) if j < len(il_out) else S.Res('ERR')
        parsed[k] = parsed[k] + (r,)
        M = parsed[k][1]
        dl.append('DESCALE %s 2 %s %s' % (M.call['inv'], S.put_paths(r.sets[0]), S.put_paths(r.sets[1])) if r.kind == 'OK' else 'DESCALE 0x1p+0 2 0 0')
    dout, f4 = vf.par_lines(oracle, dl)
    exp = {}
    for j, k in enumerate(idx):
        t = dout[j].split()
        a, pos = S.take_paths(t, 0)
        b, pos = S.take_paths(t, pos)
        exp[k] = [a, b]
    for k, c in enumerate(cells):
        H, M, o = parsed[k][0], parsed[k][1], parsed[k][2]
        I = parsed[k][3] if len(parsed[k]) > 3 else None
        judge_export(ctx, exc, c, H, M, o, I, exp.get(k))


def judge_export(ctx, exc, c, H, M, o, I, expk):
    build = 'exceptions' if exc else 'noexc'
    ctx.count('evaluations')
    ctx.hist('export_cells_%s' % build, '%s/%s' % (c['x'], c['mag']))
    rp = dict(export=c['hline'], oexport=c['oline'], build=build, cell={q: c[q] for q in ('x', 'ct', 'fr', 'p', 'mag', 'pos', 'sign')})
    if H.kind == 'ERR':
        viol(ctx, 'report.export%s.crash' % c['x'], '%s [%s] crashed on %s' % (c['x'], build, c['hline'][:200]), replay=rp)
        return
    # --- tie
    why = None
    if o.startswith('RC'):
        if H.rc != int(o.split()[1]):
            why = 'model %s' % o
    elif o.startswith('GO'):
        if H.rc != 0:
            why = 'model: accepted, return 0'
    elif o.startswith('NULL'):
        if not H.null:
            why = 'model: nullptr'
    elif M.kind == 'THROWN':
        if not (H.kind == 'THROW' and H.code == M.code):
            why = 'model: throws %d' % M.code
    elif M.value == 'UNDEF':
        pass
    elif M.value == 'CALL':
        if H.kind != 'OK' or (H.rc not in (None, 0)):
            why = 'model: computed result'
        elif I is not None and c['x'] != 'BooleanOp_PolyTreeD':
            if I.kind != 'OK' or S.sets_bits(H.sets) != S.sets_bits(expk):
                why = 'result differs from descale(entry64(model arguments))'
    # --- property
    key = None
    inv = set()
    if c['ct'] is not None and c['ct'] > 4:
        inv.add('cliptype')
    if c['fr'] is not None and c['fr'] > 3:
        inv.add('fillrule')
    if c['p'] is not None and not -8 <= c['p'] <= 8:
        inv.add('precision')
    rng_bad = c['mag'] in ('overflow', '1e300', 'inf', 'nan') and M is not None and M.rng is False
    rejected = (H.rc is not None and H.rc < 0) or H.null
    if H.rc is not None:
        # C11_export_rejects on the real code: negative <-> invalid enum/precision, with the model's priority
        want = -5 if 'precision' in inv else (-4 if 'cliptype' in inv else (-3 if 'fillrule' in inv else None))
        if want is not None and H.rc != want:
            key = 'export.%s.reject-code' % c['x']
            viol(ctx, key, '%s(ct=%s fr=%s p=%s) [%s] returned %d, expected %d' % (c['x'], c['ct'], c['fr'], c['p'], build, H.rc, want), replay=rp)
        if want is None and H.rc != 0 and not rng_bad:
            key = 'export.%s.valid-rejected' % c['x']
            viol(ctx, key, '%s(ct=%s fr=%s p=%s) [%s] returned %d on valid arguments' % (c['x'], c['ct'], c['fr'], c['p'], build, H.rc), replay=rp)
    elif inv and not rejected and H.kind != 'THROW':
        key = 'export.%s.precision-accepted' % c['x']
        viol(ctx, key, '%s(p=%s) [%s] not rejected: %s' % (c['x'], c['p'], build, H.line[:80]), replay=rp)
    elif not inv and not rng_bad and H.null and not o.startswith('NULL') and M is not None and M.value == 'CALL' and I is not None and I.kind == 'OK' \
            and any(len(q) for ss in I.sets for q in ss):
        key = 'export.%s.valid-rejected' % c['x']
        viol(ctx, key, '%s(p=%s) [%s] returned nullptr on valid arguments with a non-empty expected result' % (c['x'], c['p'], build), replay=rp)
    if not inv and c['mag'] != 'edge' and rng_bad:
        rep = (H.kind == 'THROW' and H.code == 64) or rejected
        if H.kind == 'OK' and H.null and not o.startswith('NULL'):
            rep = False         # nullptr here only means "the garbage result happened to be empty": nothing was tested
        if not rep:
            boolean = c['x'].startswith('BooleanOp')
            if boolean and c['mag'] == 'nan' and M.value == 'UNDEF':
                key = 'report.nan-coordinate.unchecked'      # ScalePaths' test is there, NaN passes it
            elif boolean:
                # ClipperD did test (ErrorCode() = 64, operand dropped) but the export never reads the code and returns 0
                key = 'report.exportBooleanOpD.range-nonempty-noexc' if not exc else 'report.exportBooleanOpD.range-unchecked'
            elif c['pos'] == 'rect':
                key = 'report.exportD.rect-range-unchecked'  # ScaleRect: no test at all (NaN included)
            else:
                key = 'report.exportD.range-unchecked'       # ConvertCPathsDToPaths64 / ConvertCPathDToPath64WithScale: no test at all
            viol(ctx, key, '%s(p=%s, %s at %s) [%s]: coordinates leaving the integer range not reported: %s' % (c['x'], c['p'], c['mag'], c['pos'], build, H.line[:100]), replay=rp)
            ctx.hist('silent_acceptances', key)
        else:
            ctx.count('invalid_cells_reported')
    elif inv and key is None:
        ctx.count('invalid_cells_reported')
    if why and not (key and not is_known(ctx, key)):
        viol(ctx, 'tie-break:export.%s' % c['x'], '%s [%s]: %s; code %s' % (c['hline'][:120], build, why, H.line[:100]), replay=rp, nofail=key is None)
    elif not why and key is None and not inv and not rng_bad and c['mag'] in ('fits', 'justfits'):
        ctx.count('cells_agreeing_and_satisfying')


# ----------------------------------------------------------------------------- success clause on small lattices
API_NAMES = {1: 'Clipper64::Execute(Paths64,open)', 2: 'Clipper64::Execute(PolyTree64,open)', 4: 'ClipperD::Execute(PathsD,open)',
             8: 'ClipperD::Execute(PolyTreeD,open)', 16: 'BooleanOp64', 32: 'BooleanOp_PolyTree64', 64: 'BooleanOpD', 128: 'BooleanOp_PolyTreeD',
             256: 'NoClip solution not empty', 512: 'overloads disagree about success',
             1024: 'Clipper64 + AddReuseableData (fresh, then Clear + attach again)', 2048: 'one Clipper64 executed three times'}
API_BITS = 255 | 1024 | 2048
ALL_APIS = API_BITS


def succ_parse_case(tok):
    """'<ct> <fr> <S> <O> <C>' tokens -> (ct, fr, [S, O, C]) with integer paths"""
    ct, fr = int(tok[0]), int(tok[1])
    pos = 2
    sets = []
    for _ in range(3):
        ps, pos = S.take_paths(tok, pos)
        sets.append(ps)
    return ct, fr, sets


def succ_line(ct, fr, sets, apis=ALL_APIS):
    return 'CASE %d %d %d %s' % (apis, ct, fr, ' '.join(S.put_paths(x) for x in sets))


def succ_mask(exe, ct, fr, sets):
    out = vf.run_lines(exe, [succ_line(ct, fr, sets)], timeout=60).stdout.split()
    return int(out[1]) if len(out) >= 2 and out[0] == 'C' else -1


def succ_minimise(exe, ct, fr, sets, mask):
    """greedy: drop whole paths, then single vertices, while the same kind of failure (a bit of `mask`) persists"""
    def bad(ss):
        m = succ_mask(exe, ct, fr, ss)
        return m > 0 and (m & mask)
    changed = True
    while changed:
        changed = False
        for k in range(3):
            for i in range(len(sets[k])):
                cand = [list(x) for x in sets]
                cand[k] = cand[k][:i] + cand[k][i + 1:]
                if bad(cand):
                    sets, changed = cand, True
                    break
            if changed:
                break
        if changed:
            continue
        for k in range(3):
            for i in range(len(sets[k])):
                for j in range(len(sets[k][i])):
                    if len(sets[k][i]) <= 2:
                        continue
                    cand = [[list(p) for p in x] for x in sets]
                    del cand[k][i][j]
                    if bad(cand):
                        sets, changed = cand, True
                        break
                if changed:
                    break
            if changed:
                break
    return sets


def succ_report(ctx, exe, mask, ct, fr, sets, where):
    if exe is not None and mask > 0:
        try:
            sets = succ_minimise(exe, ct, fr, sets, mask)
            mask = succ_mask(exe, ct, fr, sets) or mask
        except Exception:
            pass
    names = [API_NAMES[b] for b in sorted(API_NAMES) if mask & b]
    line = '%d %d %s' % (ct, fr, ' '.join(S.put_paths(x) for x in sets))
    rp = dict(succ=line, mask=mask, build='exceptions', where=where)
    if mask & API_BITS:
        key = 'success.execute-false.%s' % ('with-open-paths' if sets[1] else 'closed-only')
        viol(ctx, key, 'Execute returned false / the export returned non-zero (%s) on clip type %d, fill rule %d, subjects %s, open subjects %s, clips %s'
                  % (', '.join(names), ct, fr, S.put_paths(sets[0]), S.put_paths(sets[1]), S.put_paths(sets[2])), replay=rp)
    elif mask & 256:
        viol(ctx, 'noclip.nonempty', 'ClipType::NoClip returned a non-empty solution on %s' % line, replay=rp)
    elif mask & 512:
        viol(ctx, 'success.overloads-disagree', 'the overloads disagree about success on %s' % line, replay=rp)
    else:
        viol(ctx, 'success.harness', 'cx_success could not run the case %s' % line, replay=rp, nofail=True)


def run_success(ctx, more=False):
    """success clause, "all inputs as in C10": closed and open paths on 4x4..10x10 lattices (vertices constantly on edges and
    vertices of the other paths), all clip types x fill rules, Clipper64 / ClipperD, Paths and PolyTree overloads, the four
    BooleanOp exports; plus every open polyline of 3 and 4 lattice points against four fixed clip shapes"""
    try:
        exe = vf.build_cpp(ctx, 'cx_success.cpp', 'plain')
    except vf.BuildFailure as e:
        viol(ctx, 'tie-break:harness-build-success', 'cx_success no longer builds: %s' % str(e)[-400:], replay=None, nofail=True)
        return
    r = ctx.rng.fork(11)
    scale = (1 if ctx.quick else 10) * (3 if more else 1)
    nlines, per = 64 * scale, 30000
    lines = ['GEN %d %d %d' % (r.next(), per, ALL_APIS) for _ in range(nlines)]
    nsh = 64
    for g in ((4, 5) if ctx.quick else (4, 5, 6)):
        lines += ['EXH %d %d %d' % (g, k, nsh) for k in range(nsh)]
    out, fails = vf.par_lines(exe, lines, timeout=1700, chunk=1)
    for shard, rc, err, got in fails:
        # a crash inside the library on one of these tiny inputs: report the generator line (deterministic) as the replay
        viol(ctx, 'success.crash', 'cx_success died (rc=%s) on %s: %s' % (rc, shard[0], (err or '')[-200:]), replay=dict(succgen=shard[0], build='exceptions'))
    reported = 0
    for l, o in zip(lines, out):
        t = (o or '').split()
        if not t or t[0] not in ('G', 'E'):
            continue
        if t[0] == 'G':
            n, nonempty, withopen, touch, nfail = (int(x) for x in t[1:6])
            ctx.count('success_cases_random', n); ctx.count('success_cases_with_open_paths', withopen)
            ctx.count('success_cases_open_vertex_on_closed_edge', touch)
            rest = t[6:]
        else:
            n, nonempty, nfail = (int(x) for x in t[1:4])
            ctx.count('success_cases_exhaustive', n)
            rest = t[4:]
        ctx.count('evaluations', n); ctx.count('success_cases_nonempty_result', nonempty)
        ctx.count('cells_agreeing_and_satisfying', n - nfail)
        if nfail:
            ctx.count('success_failures', nfail)
            if reported < 3 and rest and rest[0] == '|':
                reported += 1
                ct, fr, sets = succ_parse_case(rest[2:])
                succ_report(ctx, exe, int(rest[1]), ct, fr, sets, l)
    ctx.hist('success_stream', 'lines=%d' % len(lines))


# ----------------------------------------------------------------------------- driver
def run_build(ctx, variant, oracle, search=False):
    exc = variant == 'plain'
    xscale = vf.build_cpp(ctx, 'cx_scale.cpp', variant)
    xerr = vf.build_cpp(ctx, 'cx_errors.cpp', variant)
    # 1. kernels
    kc = kernel_cells()
    for kind, exe in (('err', xerr), ('scale', xscale)):
        sub = [c for c in kc if c[0] == kind]
        hl, f1 = vf.par_lines(exe, [c[1] for c in sub], timeout=120)
        ol, f2 = vf.par_lines(oracle, ['K %d %s' % (1 if exc else 0, c[2]) for c in sub])
        if f1 or f2:
            raise vf.Infra('kernel grid failed to run [%s]: %s' % (variant, ((f1 or f2)[0][2] or '')[-300:]))
        for c, h, o in zip(sub, hl, ol):
            judge_kernel(ctx, exc, c[3], c[1], c[2], h, o)
    # 2. PathsD entry points
    cells = grid_cells()
    pipe = S.Pipeline(ctx, xscale, oracle, exc=exc)
    recs = pipe.run(cells)
    for rec in recs:
        judge_cell(ctx, rec, exc)
    # 3. exports
    run_exports(ctx, exc, xerr, xscale, oracle)


def run(ctx):
    pr = S.proof_step(ctx, 'C11')
    oracle = vf.oracle_build('scale')
    for variant in ('plain', 'noexc'):
        try:
            run_build(ctx, variant, oracle, search=not pr['ok'])
        except vf.BuildFailure as e:
            viol(ctx, 'tie-break:harness-build-%s' % variant, 'harness no longer builds [%s]: %s' % (variant, str(e)[-400:]), replay=None, nofail=True)
    run_success(ctx, more=not pr['ok'])
    # (no corpus: the grid is exhaustive and deterministic -- the witnesses of the _refuted theorems and every formerly failing
    #  input are cells of it and are re-run every time)
    ctx.cov['distinct_nontrivial'] = ctx.cov.get('cells_agreeing_and_satisfying', 0)
    ctx.cov['rule'] = ('exhaustive grid: precision -12..12 x magnitude {fits, just fits (2^61-2^12), edge 2^61, just overflows (2^61+2^12), 1e300, inf, nan} '
                       'x planted position {subject x, subject y, clip x, rectangle} x sign x 17 PathsD entry points (+ delta=0, empty rectangle/paths, '
                       'NoClip variants); ScalePath/ScalePaths/PolyPathD with scale {0,-0,1,5e-324,1e-300,1e300,DBL_MAX}; CheckPrecisionRange -40..40 and '
                       'INT extremes; MakePath 0..7 values; 10 export functions with clip type/fill rule {0..6,200,255}; each in an exceptions and a '
                       '-fno-exceptions build. success clause: seeded random closed+open paths on 4x4..10x10 lattices (0-2 closed subjects, 0-2 open subjects of 2-5 '
                       'points, 0-2 clips, 40% axis rectangles, all 5 clip types x 4 fill rules) through Clipper64/ClipperD x Paths/PolyTree overloads and the '
                       'four BooleanOp exports, plus every open polyline of 3 and 4 points on the 5x5 and 6x6 lattice against 4 clip shapes x 4 clip types. '
                       'non-trivial = cell where code == ErrorModel and the property is satisfied / success case where every API reported success')
    ctx.assumptions += [
        '"integer range" = +-MAX_COORD (INT64_MAX>>2) as tested by ScalePaths; exactly 2^61 (MAX_COORD+1, accepted by the double comparison) is tied to the model but not judged',
        'for entry points without an error-code channel (free functions returning PathsD/PathD, MakePath, PolyPathD::AddChild) "reported" in a -fno-exceptions build means an empty result; where a channel exists (int& error_code, ClipperD::ErrorCode()) the bit must be set AND the result be empty',
        'an empty rectangle / empty path set with an invalid precision is not judged: the empty answer is independent of the precision (C11_rectclip_empty_input); the cell is only tied to the model',
        'a NaN coordinate counts as a coordinate that leaves the integer range (DESIGN grid: magnitude class NaN)',
        'out-of-int64 conversions (UB) are executed on x86-64 only to observe that nothing is reported; their numeric results are not compared',
        'success clause: Execute/export return values asserted on every run made here and on the small-lattice stream (degenerate, touching, coincident inputs, open paths); the all-inputs argument is C01/C10\'s sweep model']
    if not pr['ok'] and not [v for v in ctx.violations if not v['nofail']]:
        viol(ctx, 'proof-break:Properties_C11', 'Properties_C11.vo no longer builds: %s' % (pr['failed'][:1],), replay=dict(log=pr['log'][-1500:]), nofail=True)


def replay(ctx, path):
    d = json.load(open(path))
    rp = d.get('replay') or {}
    if 'succ' in rp or 'succgen' in rp:
        exe = vf.build_cpp(ctx, 'cx_success.cpp', 'plain')
        if 'succgen' in rp:
            o = vf.run_lines(exe, [rp['succgen']], timeout=1700)
            t = o.stdout.split()
            ctx.log('code  : ' + o.stdout.strip()[:400])
            if o.returncode != 0 or not t:
                viol(ctx, 'success.crash', 'cx_success died on %s' % rp['succgen'], replay=rp)
            elif '|' in t:
                k = t.index('|')
                ct, fr, sets = succ_parse_case(t[k + 2:])
                succ_report(ctx, exe, int(t[k + 1]), ct, fr, sets, rp['succgen'])
            return
        ct, fr, sets = succ_parse_case(rp['succ'].split())
        m = succ_mask(exe, ct, fr, sets)
        ctx.log('case  : ' + rp['succ'][:400])
        ctx.log('code  : fail mask %d (%s)' % (m, ', '.join(API_NAMES[b] for b in sorted(API_NAMES) if m > 0 and m & b) or 'every API succeeded'))
        ctx.count('evaluations')
        if m != 0:
            succ_report(ctx, None, m, ct, fr, sets, 'replay')
        return
    variant = 'plain' if rp.get('build', 'exceptions') == 'exceptions' else 'noexc'
    exc = variant == 'plain'
    oracle = vf.oracle_build('scale')
    xscale = vf.build_cpp(ctx, 'cx_scale.cpp', variant)
    xerr = vf.build_cpp(ctx, 'cx_errors.cpp', variant)
    if 'line' in rp:
        c = S.case_from_body(rp['line'], tag=json.dumps(rp.get('cell')))
        c.cell = rp['cell']
        rec = S.Pipeline(ctx, xscale, oracle, exc=exc).run([c])[0]
        ctx.log('build : ' + variant)
        ctx.log('code  : ' + rec['D'].line[:500])
        ctx.log('model : ' + rec['M'].line[:500])
        judge_cell(ctx, rec, exc)
    elif 'kernel' in rp:
        exe = xerr if rp['kernel'].split()[0] in ('CPR', 'MAKEPATH', 'MAKEPATHD') else xscale
        h = vf.run_lines(exe, [rp['kernel']]).stdout.strip()
        o = vf.run_lines(oracle, ['K %d %s' % (1 if exc else 0, rp['okernel'])]).stdout.strip()
        ctx.log('build : ' + variant)
        ctx.log('code  : ' + h[:400]); ctx.log('model : ' + o[:400])
        judge_kernel(ctx, exc, rp['meta'], rp['kernel'], rp['okernel'], h, o)
    elif 'export' in rp:
        cell = dict(rp['cell'])
        cell.update(hline=rp['export'], oline=rp['oexport'])
        h = vf.run_lines(xerr, [rp['export']]).stdout.strip()
        o = vf.run_lines(oracle, ['X %d %s' % (1 if exc else 0, rp['oexport'])]).stdout.strip()
        ctx.log('build : ' + variant)
        ctx.log('code  : ' + h[:400]); ctx.log('model : ' + o[:400])
        run_exports(ctx, exc, xerr, xscale, oracle, cells=[cell])
