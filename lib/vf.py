"""Shared machinery for the /verif checks (see DESIGN.md section 2).

A check is a python module checks/<ID>.py exposing run(ctx).  It uses the helpers here to
  * (re)generate translated Coq definitions from /repo and (re)build the Coq proofs it depends on,
  * build C++ harnesses from /repo's current working tree,
  * run the extracted OCaml oracles,
  * record coverage and violations, honour known_findings.txt and write evidence/<ID>.json.
"""
import fcntl, hashlib, json, os, re, shutil, subprocess, sys, time, glob

VERIF = os.path.dirname(os.path.dirname(os.path.abspath(__file__)))
REPO = os.environ.get('VERIF_REPO', '/repo')
LIB = os.path.join(REPO, 'CPP', 'Clipper2Lib')
INC = os.path.join(LIB, 'include')
SRC = os.path.join(LIB, 'src')
COQ = os.path.join(VERIF, 'coq')
BIN = os.path.join(VERIF, 'bin')
ORGEN = os.path.join(VERIF, 'oracle')       # where extraction output (gen_<fam>/) is written
# A run against a scratch copy of the repository (VERIF_REPO=..., used to try breaking changes) must not
# rewrite coq/gen, the .vo files or the oracles the registered commands (and concurrent runs) use: it gets
# its own copy of the Coq development and oracle binaries under .work/alt/<hash of the repo path>.
ALT = None
if os.path.realpath(REPO) != '/repo':
    ALT = os.path.join(VERIF, '.work', 'alt', hashlib.sha256(os.path.realpath(REPO).encode()).hexdigest()[:10])
    _main_coq, _main_bin = COQ, BIN
    COQ, BIN, ORGEN = os.path.join(ALT, 'coq'), os.path.join(ALT, 'bin'), os.path.join(ALT, 'oracle')


def alt_sync():
    """(Re)populate the private copy: sources always follow /verif/coq, compiled files are copied with their
    mtimes so that only what depends on regenerated definitions is rebuilt."""
    if not ALT:
        return
    os.makedirs(ALT, exist_ok=True)
    os.utime(ALT, None)
    for d in glob.glob(os.path.join(os.path.dirname(ALT), '*')):     # prune copies unused for 3 hours
        try:
            if d != ALT and time.time() - os.path.getmtime(d) > 3 * 3600:
                shutil.rmtree(d, ignore_errors=True)
        except OSError:
            pass
    with Lock('alt.' + os.path.basename(ALT)):
        os.makedirs(ORGEN, exist_ok=True)
        subprocess.run(['rsync', '-a', '--exclude', 'gen/Gen_*', '--exclude', 'Makefile*', '--exclude', '_CoqProject',
                        '--exclude', '.Makefile.d', '--exclude', '*.ml', '--exclude', '*.mli',
                        _main_coq + '/', COQ + '/'], check=True)
        if not os.path.exists(os.path.join(COQ, 'gen')) or not glob.glob(os.path.join(COQ, 'gen', '*.v')):
            subprocess.run(['rsync', '-a', os.path.join(_main_coq, 'gen') + '/', os.path.join(COQ, 'gen') + '/'], check=True)
        if not os.path.exists(BIN):
            subprocess.run(['rsync', '-a', _main_bin + '/', BIN + '/'], check=True)
CACHE = os.path.join(VERIF, '.cache')
NPROC = os.cpu_count() or 4
GUARD = 'CLIPPER2_VERIF'

LIB_FILES = ['include/clipper2/clipper.core.h', 'include/clipper2/clipper.engine.h',
             'include/clipper2/clipper.export.h', 'include/clipper2/clipper.h',
             'include/clipper2/clipper.minkowski.h', 'include/clipper2/clipper.offset.h',
             'include/clipper2/clipper.rectclip.h', 'include/clipper2/clipper.version.h',
             'src/clipper.engine.cpp', 'src/clipper.offset.cpp', 'src/clipper.rectclip.cpp']

TRUSTED_COMMON = [
    'Coq 8.16.1 kernel incl. vm_compute (no native_compute)',
    'OCaml 4.13.1 + Coq extraction (ExtrOcamlBasic; Z/positive/N/Q/nat kept as Coq datatypes)',
    'hand-written OCaml drivers (parsing/printing only) and python harness glue',
    'g++ 12.2 -O1 -ffp-contract=off building /repo with private members exposed by #define',
]


class Infra(Exception):
    """Infrastructure failure: reported as INFRA, exit code 2, never a violation or a pass."""


# ----------------------------------------------------------------------------- rng
class Rng:
    """splitmix64; every random choice of a check derives from VERIF_SEED through this."""
    M = (1 << 64) - 1

    def __init__(self, seed, stream=0):
        self.s = (seed * 0x9E3779B97F4A7C15 + stream * 0xBF58476D1CE4E5B9 + 0x1234567) & self.M
        # hash the initial state: without this, seed n+1 is seed n's stream advanced by one draw
        self.s = self.next() ^ ((seed * 0xD6E8FEB86659FD93 + stream) & self.M)

    def next(self):
        self.s = (self.s + 0x9E3779B97F4A7C15) & self.M
        z = self.s
        z = ((z ^ (z >> 30)) * 0xBF58476D1CE4E5B9) & self.M
        z = ((z ^ (z >> 27)) * 0x94D049BB133111EB) & self.M
        return z ^ (z >> 31)

    def below(self, n):
        return self.next() % n if n > 0 else 0

    def range(self, lo, hi):  # inclusive
        return lo + self.below(hi - lo + 1)

    def choice(self, seq):
        return seq[self.below(len(seq))]

    def chance(self, num, den):
        return self.below(den) < num

    def shuffle(self, lst):
        for i in range(len(lst) - 1, 0, -1):
            j = self.below(i + 1)
            lst[i], lst[j] = lst[j], lst[i]
        return lst

    def fork(self, k):
        return Rng(self.next(), k)


# ----------------------------------------------------------------------------- process helpers
def sh(cmd, cwd=None, timeout=600, input=None, env=None, check=False):
    e = dict(os.environ)
    if env:
        e.update(env)
    try:
        p = subprocess.run(cmd, cwd=cwd, timeout=timeout, input=input, env=e,
                           stdout=subprocess.PIPE, stderr=subprocess.PIPE,
                           shell=isinstance(cmd, str), text=True, errors='replace')
    except subprocess.TimeoutExpired as ex:
        class R:  # mimic CompletedProcess
            returncode = -9
            stdout = (ex.stdout or b'').decode(errors='replace') if isinstance(ex.stdout, bytes) else (ex.stdout or '')
            stderr = 'TIMEOUT after %ss' % timeout
            timed_out = True
        return R()
    p.timed_out = False
    if check and p.returncode != 0:
        raise Infra('command failed (%s): %s\n%s\n%s' % (p.returncode, cmd, p.stdout[-3000:], p.stderr[-3000:]))
    return p


def sha(*parts):
    h = hashlib.sha256()
    for p in parts:
        h.update(p if isinstance(p, bytes) else str(p).encode())
        h.update(b'\0')
    return h.hexdigest()


def read(path):
    with open(path, 'r', errors='replace') as f:
        return f.read()


def repo_lib_hash():
    h = hashlib.sha256()
    for f in LIB_FILES:
        p = os.path.join(LIB, f)
        h.update(f.encode())
        h.update(open(p, 'rb').read() if os.path.exists(p) else b'<missing>')
    return h.hexdigest()


class Lock:
    def __init__(self, name):
        os.makedirs(CACHE, exist_ok=True)
        self.path = os.path.join(CACHE, name + '.lock')

    def __enter__(self):
        self.f = open(self.path, 'w')
        fcntl.flock(self.f, fcntl.LOCK_EX)
        return self

    def __exit__(self, *a):
        fcntl.flock(self.f, fcntl.LOCK_UN)
        self.f.close()


# ----------------------------------------------------------------------------- C++ builds
CXX_BASE = ['-std=c++17', '-O1', '-g0', '-ffp-contract=off', '-fno-strict-aliasing', '-w',
            '-D' + GUARD, '-I' + INC, '-I' + SRC, '-I' + os.path.join(VERIF, 'harness')]
if os.environ.get('VERIF_COVERAGE'):
    # tools/coverage.py: every harness is built with gcov instrumentation (separate cache entries: the flags are part of the key);
    # the .gcda files land next to the cached binaries and are summed per library source line
    COVERAGE = ['--coverage']
else:
    COVERAGE = []
VARIANTS = {
    'plain': [],
    'z': ['-DUSINGZ'],
    'hi': ['-DCLIPPER2_HI_PRECISION=1'],
    'noexc': ['-fno-exceptions'],
    'asan': ['-fsanitize=address,undefined', '-fno-sanitize-recover=all', '-fno-omit-frame-pointer', '-g1'],
    'asanz': ['-DUSINGZ', '-fsanitize=address,undefined', '-fno-sanitize-recover=all', '-fno-omit-frame-pointer', '-g1'],
    'tsan': ['-fsanitize=thread', '-g1'],
}


def build_cpp(ctx, src, variant='plain', extra=(), compiler='g++', timeout=600):
    """Compile harness/<src> against /repo's current working tree.  The binary is cached under a
    key that hashes every library file, the harness sources and the flags, so an unchanged tree is
    not recompiled by each of the 20 checks, and any edit to /repo forces a rebuild."""
    spath = src if os.path.isabs(src) else os.path.join(VERIF, 'harness', src)
    hfiles = sorted(glob.glob(os.path.join(VERIF, 'harness', '*.h')))
    flags = CXX_BASE + VARIANTS[variant] + list(extra) + ([] if variant == 'tsan' else COVERAGE)   # gcov counters race by design
    key = sha(repo_lib_hash(), read(spath), *[read(h) for h in hfiles], compiler, *flags)[:32]
    out = os.path.join(CACHE, 'bin', '%s.%s.%s' % (os.path.basename(src).replace('.cpp', ''), variant, key))
    os.makedirs(os.path.dirname(out), exist_ok=True)
    with Lock('cpp.' + key):
        if not os.path.exists(out):
            t0 = time.time()
            tmp = out + '.tmp%d' % os.getpid()
            libs = ['-lpthread']
            p = sh([compiler] + flags + [spath, '-o', tmp] + libs, timeout=timeout)
            if p.returncode != 0:
                raise BuildFailure('C++ build of %s [%s] failed:\n%s' % (src, variant, p.stderr[-4000:]))
            os.replace(tmp, out)
            ctx.log('built %s [%s] in %.1fs' % (src, variant, time.time() - t0))
            _trim_cache()
    ctx.builds.append('%s[%s]' % (os.path.basename(src), variant))
    return out


class BuildFailure(Infra):
    """The harness does not compile against the current tree (e.g. a modelled function was
    renamed or removed): a tie break, handled by the caller."""


def _trim_cache(maxfiles=600, min_age=6 * 3600):
    """bound the binary cache without ever evicting something a concurrent run may be using: only files older
    than `min_age` seconds go, oldest first, and only beyond `maxfiles` files"""
    d = os.path.join(CACHE, 'bin')
    fs = sorted(glob.glob(os.path.join(d, '*')), key=os.path.getmtime)
    now = time.time()
    for f in fs[:-maxfiles]:
        try:
            if now - os.path.getmtime(f) > min_age:
                os.remove(f)
        except OSError:
            pass


# ----------------------------------------------------------------------------- Coq
def coq_files():
    fs = []
    for sub in ('base', 'gen', 'model', 'proofs', 'props', 'extract'):
        fs += sorted(glob.glob(os.path.join(COQ, sub, '*.v')))
    return [os.path.relpath(f, COQ) for f in fs]


def coq_makefile():
    proj = read(os.path.join(COQ, '_CoqProject.in')) + '\n'.join(coq_files()) + '\n'
    pp = os.path.join(COQ, '_CoqProject')
    if not os.path.exists(pp) or read(pp) != proj or not os.path.exists(os.path.join(COQ, 'Makefile')):
        with open(pp, 'w') as f:
            f.write(proj)
        sh(['coq_makefile', '-f', '_CoqProject', '-o', 'Makefile'], cwd=COQ, check=True)


def coq_make(targets, timeout=1500, keep_going=True):
    """Full .vo build (never -vos) of the given targets (paths relative to coq/)."""
    with Lock('coq' + (os.path.basename(ALT) if ALT else '')):
        coq_makefile()
        cmd = ['make', '-j%d' % NPROC, 'COQC=' + os.path.join(VERIF, 'tools', 'coqc_t')] + (['-k'] if keep_going else []) + list(targets)
        p = sh(cmd, cwd=COQ, timeout=timeout)
    ok = p.returncode == 0 and all(os.path.exists(os.path.join(COQ, t)) for t in targets if t.endswith('.vo'))
    return ok, (p.stdout + p.stderr)


FORBIDDEN = re.compile(r'\b(Admitted|admit|Axiom|Parameter|Conjecture|Admit Obligations|Unset Guard Checking|'
                       r'bypass_check|Unset Positivity Checking|Unset Universe Checking|type-in-type|impredicative-set)\b')


def coq_gate():
    """No Axiom/Admitted/... anywhere in the development (comments excluded)."""
    bad = []
    for f in coq_files():
        txt = re.sub(r'\(\*.*?\*\)', '', read(os.path.join(COQ, f)), flags=re.S)
        for m in FORBIDDEN.finditer(txt):
            bad.append('%s: %s' % (f, m.group(0)))
    return bad


def regen_all(log=None):
    """Regenerate every coq/gen/Gen_*.v from the current source tree (REPO): the scalar kernels
    (cpp2v.py), the export forwarding table (export_table.py) and the field/global tables (tables.py).
    Each generator caches by content hash and rewrites its files only when they change.
    Returns a list of failure strings (empty = everything translated)."""
    cdir = os.path.join(VERIF, 'cpp2v')
    if cdir not in sys.path:
        sys.path.insert(0, cdir)
    fails = []
    alt_sync()
    with Lock('regen' + (os.path.basename(ALT) if ALT else '')):
        try:
            import cpp2v as _c
            ok, fl = _c.regenerate(repo=REPO, out=os.path.join(COQ, 'gen'))
            fails += ['cpp2v: ' + f for f in fl]
        except Exception as e:
            fails.append('cpp2v crashed: %s' % str(e)[-800:])
        try:
            import export_table as _e
            _e.regenerate(INC, out_v=os.path.join(COQ, 'gen', 'Gen_export.v'))
        except Exception as e:
            fails.append('export_table: %s' % str(e)[-800:])
        try:
            import tables as _t
            _t.generate(None)
        except Exception as e:
            fails.append('tables: %s' % str(e)[-800:])
    if log and fails:
        log('regeneration failures: ' + ' | '.join(fails)[:1500])
    return fails


def coq_props(ctx, pid):
    """Regenerate gen/*.v from the current tree, build props/Properties_<pid>.vo (and everything it
    depends on), then re-compile the property file itself capturing the Print Assumptions output.
    Returns dict(ok, theorems, assumptions, log, failed)."""
    rel = 'props/Properties_%s.v' % pid
    t0 = time.time()
    ctx.regen_failures = regen_all(ctx.log)
    ok, log = coq_make([rel + 'o'])
    src = read(os.path.join(COQ, rel))
    src_nc = re.sub(r'\(\*.*?\*\)', '', src, flags=re.S)
    theorems = re.findall(r'^\s*(?:Theorem|Corollary)\s+([A-Za-z0-9_\']+)', src_nc, flags=re.M)
    res = dict(ok=ok, theorems=theorems, log=log[-6000:], assumptions={}, failed=[], wall=0.0)
    bad = coq_gate()
    if bad:
        res['ok'] = False
        res['failed'].append('forbidden constructs: ' + '; '.join(bad[:5]))
    if ok:
        with Lock('coq' + (os.path.basename(ALT) if ALT else '')):
            p = sh(['coqc', '-Q', '.', 'Clip', '-w', '-notation-overridden', rel], cwd=COQ, timeout=900)
        if p.returncode != 0:
            res['ok'] = False
            res['failed'].append('coqc %s: %s' % (rel, (p.stdout + p.stderr)[-2000:]))
        else:
            res['assumptions'] = parse_assumptions(p.stdout)
    else:
        m = re.findall(r'File "([^"]+)", line (\d+)[^\n]*\n(?:Error|\s*Error)[^\n]*\n?[^\n]*', log)
        errs = re.findall(r'(File "[^"]+", line \d+, characters [\d-]+:\nError:[^\n]*(?:\n[^\n]+){0,3})', log)
        res['failed'] = errs[:5] or ['make %so failed' % rel]
    res['wall'] = time.time() - t0
    # supporting lemmas actually compiled for this property: count Qed/Defined in files it depends on
    res['supporting'] = count_supporting(rel)
    ctx.proof = res
    return res


def parse_assumptions(out):
    """coqc prints, for each `Print Assumptions t.`, either 'Closed under the global context'
    or 'Axioms:' followed by the list.  Return {index: text}."""
    res = {}
    blocks = re.split(r'(?=Closed under the global context|Axioms:)', out)
    i = 0
    for b in blocks:
        b = b.strip()
        if b.startswith('Closed under'):
            res[i] = 'closed'
            i += 1
        elif b.startswith('Axioms:'):
            names = re.findall(r'^([A-Za-z_][A-Za-z0-9_.\']*)\s*:', b[7:], flags=re.M)
            res[i] = sorted(set(names))
            i += 1
    return res


def count_supporting(rel):
    """Number of Qed-closed statements in the files the property file (transitively) imports
    from this development."""
    seen, todo, n = set(), [rel], 0
    while todo:
        f = todo.pop()
        if f in seen or not os.path.exists(os.path.join(COQ, f)):
            continue
        seen.add(f)
        txt = re.sub(r'\(\*.*?\*\)', '', read(os.path.join(COQ, f)), flags=re.S)
        if f != rel:
            n += len(re.findall(r'\b(Qed|Defined)\s*\.', txt))
        for m in re.finditer(r'Require\s+(?:Import\s+|Export\s+)?', txt):
            rest = txt[m.end():m.end() + 2000]
            e = re.search(r'\.(\s|$)', rest)
            if not e:
                continue
            for mod in rest[:e.start()].split():
                mod = mod.replace('Clip.', '')
                if '.' in mod:
                    todo.append(mod.replace('.', '/') + '.v')
    return n


# ----------------------------------------------------------------------------- OCaml oracles
def oracle_build(fam, force=False):
    """Extract coq/extract/Extract_<fam>.v and link it with oracle/drv_<fam>.ml into bin/oracle_<fam>.
    Rebuilt when any .v of the development or the driver changed."""
    drv = os.path.join(VERIF, 'oracle', 'drv_%s.ml' % fam)
    ext = os.path.join(COQ, 'extract', 'Extract_%s.v' % fam)
    out = os.path.join(BIN, 'oracle_' + fam)
    key = sha(read(drv), read(os.path.join(VERIF, 'oracle', 'zconv.ml')), *[read(os.path.join(COQ, f)) for f in coq_files()])
    stamp = out + '.key'
    if not force and os.path.exists(out) and os.path.exists(stamp) and read(stamp) == key:
        return out
    with Lock('oracle.' + fam + (os.path.basename(ALT) if ALT else '')):
        if not force and os.path.exists(out) and os.path.exists(stamp) and read(stamp) == key:
            return out
        ok, log = coq_make(['extract/Extract_%s.vo' % fam])
        if not ok:
            raise Infra('extraction build failed for %s:\n%s' % (fam, log[-3000:]))
        gen = os.path.join(ORGEN, 'gen_' + fam)
        shutil.rmtree(gen, ignore_errors=True)
        os.makedirs(gen)
        # re-run the extraction file with cwd=gen so that the .ml/.mli land there
        p = sh(['coqc', '-Q', COQ, 'Clip', '-w', '-all', '-o', os.path.join(gen, os.path.basename(ext) + 'o'), ext], cwd=gen, timeout=900)
        if p.returncode != 0:
            raise Infra('extraction failed for %s:\n%s' % (fam, (p.stdout + p.stderr)[-3000:]))
        mls = sorted(glob.glob(os.path.join(gen, '*.ml')))
        if not mls:
            raise Infra('extraction produced no .ml for ' + fam)
        shutil.copy(drv, os.path.join(gen, 'drv.ml'))
        base = [os.path.basename(m)[:-3] for m in mls]
        extra_ml = []
        if 'm' in base:
            shutil.copy(os.path.join(VERIF, 'oracle', 'zconv.ml'), os.path.join(gen, 'zconv.ml'))
            extra_ml = ['zconv.ml']
        usesfloat = any('Float64' in read(m) or 'Uint63' in read(m) for m in mls)
        cmd = ['ocamlfind', 'ocamlopt', '-O3'] if False else ['ocamlfind', 'ocamlopt']
        cmd += ['-w', '-a', '-rectypes', '-thread', '-package', 'str,unix,zarith' + (',coq-core.kernel' if usesfloat else ''), '-linkpkg']
        for b in base:
            cmd += [b + '.mli', b + '.ml']
        cmd += extra_ml + ['drv.ml', '-o', out + '.tmp']
        os.makedirs(BIN, exist_ok=True)
        p = sh(cmd, cwd=gen, timeout=900)
        if p.returncode != 0:
            raise Infra('ocaml build failed for %s:\n%s' % (fam, (p.stdout + p.stderr)[-3000:]))
        os.replace(out + '.tmp', out)
        with open(stamp, 'w') as f:
            f.write(key)
    return out


def run_lines(binary, lines, args=(), timeout=600, env=None):
    """Feed lines to a line-protocol binary, return its output lines."""
    data = '\n'.join(lines) + '\n'
    p = sh([binary] + list(args), input=data, timeout=timeout, env=env)
    return p


def par_lines(binary, lines, args=(), timeout=900, jobs=None, env=None, chunk=None):
    """Run a line-in/line-out binary over `lines` in parallel shards, preserving order.
    Returns (out_lines, failures) where failures is a list of (shard_lines, returncode, stderr)."""
    import concurrent.futures as cf
    jobs = jobs or NPROC
    n = len(lines)
    if n == 0:
        return [], []
    chunk = chunk or max(1, (n + jobs - 1) // jobs)
    shards = [lines[i:i + chunk] for i in range(0, n, chunk)]
    outs, fails = [None] * len(shards), []

    def work(i):
        return i, run_lines(binary, shards[i], args=args, timeout=timeout, env=env)
    with cf.ThreadPoolExecutor(max_workers=jobs) as ex:
        for i, p in ex.map(work, range(len(shards))):
            outs[i] = p.stdout.split('\n')[:-1] if p.stdout.endswith('\n') else p.stdout.split('\n')
            if p.returncode != 0 or len(outs[i]) != len(shards[i]):
                fails.append((shards[i], p.returncode, p.stderr[-3000:], outs[i]))
    flat = [l for o in outs for l in o]
    return flat, fails


def isolate_failure(binary, shard, args=(), timeout=60, env=None, limit=400):
    """Find the first line of a failed shard on which the binary crashes/hangs when run alone."""
    for l in shard[:limit]:
        p = run_lines(binary, [l], args=args, timeout=timeout, env=env)
        if p.returncode != 0 or not p.stdout.strip():
            return l, p.returncode, p.stderr[-2000:]
    return None, None, ''


# ----------------------------------------------------------------------------- known findings
def load_known():
    res = []
    # VERIF_KNOWN: an additional file in the same format, used only while triaging (never by a registered command)
    for p in (os.path.join(VERIF, 'known_findings.txt'), os.environ.get('VERIF_KNOWN', '')):
        if not p or not os.path.exists(p):
            continue
        for line in read(p).splitlines():
            line = line.strip()
            m = re.match(r'finding:\s+property=(\S+)\s+key=(\S+)\s+(.*)', line)
            if m:
                res.append(dict(pid=m.group(1), key=m.group(2), what=m.group(3)))
    return res


# ----------------------------------------------------------------------------- context
class Ctx:
    def __init__(self, pid, tier, seed):
        self.pid, self.tier, self.seed = pid, tier, seed
        self.t0 = time.time()
        self.rng = Rng(seed, int(pid[1:]))
        self.cov = {}
        self.assumptions = []
        self.violations = []      # dicts key/what/replay
        self.known_hits = {}      # key -> what
        self.known = [k for k in load_known() if k['pid'] == pid]
        self.builds = []
        self.proof = None
        self.notes = []
        self.work = os.path.join(VERIF, '.work', '%s.%d' % (pid, os.getpid()))
        os.makedirs(self.work, exist_ok=True)
        self.level = 'proof'

    @property
    def quick(self):
        return self.tier == 'quick'

    def log(self, msg):
        print('[%s %6.1fs] %s' % (self.pid, time.time() - self.t0, msg), flush=True)

    def count(self, key, n=1):
        self.cov[key] = self.cov.get(key, 0) + n

    def sample(self, obj, limit=4, key='samples'):
        l = self.cov.setdefault(key, [])
        if len(l) < limit:
            l.append(obj)

    def hist(self, name, bucket, n=1):
        h = self.cov.setdefault(name, {})
        h[str(bucket)] = h.get(str(bucket), 0) + n

    def violation(self, key, what, replay=None, nofail=False):
        """Record a property violation.  `key` is the classifier key matched against
        known_findings.txt; a listed finding is reported as KNOWN-FINDING and does not count."""
        for k in self.known:
            if k['key'] == key:
                if key not in self.known_hits:
                    self.known_hits[key] = k['what']
                return False
        if len(self.violations) < 50:
            self.violations.append(dict(key=key, what=what, replay=replay, nofail=nofail))
        return True

    def finish(self):
        shutil.rmtree(self.work, ignore_errors=True)
        wall = time.time() - self.t0
        for key, what in self.known_hits.items():
            print('KNOWN-FINDING: property=%s key=%s %s' % (self.pid, key, what))
        cov = dict(self.cov)
        pr = self.proof
        if pr is not None:
            nthm = len(pr['theorems'])
            cov['obligations'] = nthm
            cov['discharged'] = nthm if pr['ok'] else 0
            cov['theorems'] = pr['theorems']
            cov['supporting_lemmas_qed'] = pr.get('supporting', 0)
            cov['print_assumptions'] = {str(k): v for k, v in pr['assumptions'].items()}
            cov['checker_cmd'] = ('make -C /verif/coq props/Properties_%s.vo && coqc -Q . Clip props/Properties_%s.v'
                                  % (self.pid, self.pid))
            cov['proof_wall_s'] = round(pr['wall'], 1)
        cov.setdefault('trusted_base', TRUSTED_COMMON)
        cov['builds'] = sorted(set(self.builds))
        cov['known_findings_hit'] = sorted(self.known_hits)
        if self.notes:
            cov['notes'] = self.notes
        # exploration-style keys are always present as well
        cov.setdefault('evaluations', 0)
        cov.setdefault('distinct_nontrivial', 0)
        cov.setdefault('rule', '')
        cov.setdefault('samples', [])
        ev = dict(property_id=self.pid, tier=self.tier, seed=self.seed, level=self.level,
                  coverage=cov, assumptions=self.assumptions, wall_s=round(wall, 2),
                  violations=len(self.violations))
        # runs against a scratch copy of the repository never overwrite the evidence/replays of /repo itself
        outroot = ALT or VERIF
        os.makedirs(os.path.join(outroot, 'evidence'), exist_ok=True)
        with open(os.path.join(outroot, 'evidence', self.pid + '.json'), 'w') as f:
            json.dump(ev, f, indent=1, sort_keys=True, default=str)
            f.write('\n')
        if not self.violations:
            self.log('OK  (%.1fs)' % wall)
            return 0
        rdir = os.path.join(outroot, 'replays', self.pid)
        os.makedirs(rdir, exist_ok=True)
        # one VIOLATION line per distinct key
        seen = set()
        for i, v in enumerate(self.violations):
            if v['key'] in seen:
                continue
            seen.add(v['key'])
            path = os.path.join(rdir, '%s-%s.json' % (self.pid, re.sub(r'[^A-Za-z0-9_.-]+', '_', v['key'])[:80]))
            with open(path, 'w') as f:
                json.dump(dict(property=self.pid, key=v['key'], what=v['what'], replay=v['replay'],
                               seed=self.seed, tier=self.tier), f, indent=1, default=str)
                f.write('\n')
            print('  %s' % v['what'])
            print('VIOLATION property=%s replay=%s%s' % (self.pid, path, ' no-failing-input-found' if v['nofail'] else ''))
        return 1


# ----------------------------------------------------------------------------- misc helpers
def canon_path(p):
    """rotate a closed path so that its lexicographically least vertex comes first"""
    if not p:
        return tuple()
    i = min(range(len(p)), key=lambda k: (p[k], k))
    # among equal minimal vertices choose the rotation giving the smallest sequence
    best = None
    m = p[i]
    for k in range(len(p)):
        if p[k] == m:
            r = tuple(p[k:] + p[:k])
            if best is None or r < best:
                best = r
    return best


def canon_paths(ps):
    return sorted(canon_path([tuple(v) for v in p]) for p in ps)


def fmt_path(p):
    return ' '.join('%d %d' % (x, y) for x, y in p)


def fmt_paths(ps):
    """<npaths> then per path <n> x y x y ..."""
    out = [str(len(ps))]
    for p in ps:
        out.append(str(len(p)))
        out.append(fmt_path(p)) if p else None
    return ' '.join(x for x in out if x is not None and x != '')


def parse_paths(tokens, pos=0):
    n = int(tokens[pos]); pos += 1
    ps = []
    for _ in range(n):
        k = int(tokens[pos]); pos += 1
        p = []
        for _ in range(k):
            p.append((int(tokens[pos]), int(tokens[pos + 1]))); pos += 2
        ps.append(p)
    return ps, pos
