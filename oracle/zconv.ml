(* Shared driver glue: decimal strings <-> extracted Coq Z (kept as the Coq datatype), token reader.
   Expects the extracted module to be called M (Extraction "m.ml" ...). Parsing/printing only. *)
module BZ = Z
open M

let rec pos_of_bz (n : BZ.t) : positive =
  if BZ.equal n BZ.one then XH
  else if BZ.testbit n 0 then XI (pos_of_bz (BZ.shift_right n 1))
  else XO (pos_of_bz (BZ.shift_right n 1))

let z_of_bz (n : BZ.t) : z =
  let s = BZ.sign n in
  if s = 0 then Z0 else if s > 0 then Zpos (pos_of_bz n) else Zneg (pos_of_bz (BZ.neg n))

let rec bz_of_pos = function
  | XH -> BZ.one
  | XO p -> BZ.shift_left (bz_of_pos p) 1
  | XI p -> BZ.succ (BZ.shift_left (bz_of_pos p) 1)

let bz_of_z = function Z0 -> BZ.zero | Zpos p -> bz_of_pos p | Zneg p -> BZ.neg (bz_of_pos p)

let z_of_string s = z_of_bz (BZ.of_string s)
let string_of_z z = BZ.to_string (bz_of_z z)
let z_of_int i = z_of_bz (BZ.of_int i)
let int_of_z z = BZ.to_int (bz_of_z z)

(* token stream over one input line *)
type toks = { a : String.t array; mutable i : int }
let toks_of_line l =
  { a = Array.of_list (List.filter (fun s -> s <> "") (String.split_on_char ' ' (String.trim l))); i = 0 }
let next t = let s = t.a.(t.i) in t.i <- t.i + 1; s
let has_more t = t.i < Array.length t.a
let next_int t = int_of_string (next t)
let next_z t = z_of_string (next t)
let next_bool t = (next t) <> "0"

let read_pt t = let x = next_z t in let y = next_z t in (x, y)
let read_list f t = let n = next_int t in List.init n (fun _ -> f t)
let read_path t = read_list read_pt t
let read_paths t = read_list read_path t

let show_pt (x, y) = string_of_z x ^ " " ^ string_of_z y
let show_path p = String.concat " " (string_of_int (List.length p) :: List.map show_pt p)
let show_paths ps = String.concat " " (string_of_int (List.length ps) :: List.map show_path ps)
let show_bool b = if b then "1" else "0"

let main_loop (handle : toks -> String.t) =
  try
    while true do
      let l = input_line stdin in
      let out = (try handle (toks_of_line l) with
                 | End_of_file -> raise End_of_file
                 | e -> "ERR " ^ Printexc.to_string e) in
      print_string out; print_char '\n'
    done
  with End_of_file -> flush stdout
