(* Driver for the extracted model/Inversions.v (C10).  Parsing/printing only.
   ISECT <n> (curr_x)*n <m> (e1 e2 ptx pty)*m
       n edges in AEL order with the curr_x observed after AdjustCurrXAndCopyToSEL, identities 0..n-1;
       m nodes as left in intersect_nodes_ by the real BuildIntersectList (pre-sort), used only for their points.
     -> "B <n> sel-order | <m> (e1 e2)* | P <status> <n> final-ael | <m> processed (e1 e2)* | D <keys distinct 0/1>"
        status: ok | ScanOverrun | SwapPrecond | OutOfFuel | nofuel(build)
   CHECK <n> ael(ids) <m> (e1 e2)*   -> "S <n> final" | "S bad"      (check_schedule on an observed processing order) *)
open M
open Zconv

let rec nat_of_int i = if i <= 0 then O else S (nat_of_int (i - 1))
let rec int_of_nat = function O -> 0 | S n -> 1 + int_of_nat n

let show_ids l = String.concat " " (string_of_int (List.length l) :: List.map (fun i -> string_of_int (int_of_nat i)) l)
let show_pairs l = String.concat " " (string_of_int (List.length l) :: List.map (fun (a, b) -> string_of_int (int_of_nat a) ^ " " ^ string_of_int (int_of_nat b)) l)

let handle t =
  match next t with
  | "ISECT" ->
    let n = next_int t in
    let l = List.init n (fun i -> let x = next_z t in (nat_of_int i, x)) in
    let m = next_int t in
    let obs = List.init m (fun _ -> let a = next_int t in let b = next_int t in let x = next_z t in let y = next_z t in ((a, b), (x, y))) in
    (match build_intersect_list l with
     | None -> "B nofuel"
     | Some (sel, nodes) ->
       let nids = node_ids nodes in
       (* attach the observed points to the model's nodes, position by position (the emission order is compared by the caller) *)
       let keyed = List.mapi (fun i nd -> match List.nth_opt obs i with Some (_, k) -> (nd, k) | None -> (nd, (Z0, Z0))) nids in
       let sorted = sort_nodes keyed in
       let distinct = keys_distinct (List.map snd keyed) in
       let p = (match process_intersect_list (ids l) (List.map fst sorted) with
           | Inl r -> "ok " ^ show_ids r.p_ael ^ " | " ^ show_pairs r.p_order
           | Inr ScanOverrun -> "ScanOverrun" | Inr SwapPrecond -> "SwapPrecond" | Inr OutOfFuel -> "OutOfFuel") in
       "B " ^ show_ids (ids sel) ^ " | " ^ show_pairs nids ^ " | P " ^ p ^ " | D " ^ (if distinct then "1" else "0"))
  | "CHECK" ->
    let n = next_int t in
    let ael = List.init n (fun _ -> nat_of_int (next_int t)) in
    let m = next_int t in
    let order = List.init m (fun _ -> let a = next_int t in let b = next_int t in (nat_of_int a, nat_of_int b)) in
    (match check_schedule ael order with Some f -> "S " ^ show_ids f | None -> "S bad")
  | c -> "ERR unknown command " ^ c

let () = main_loop handle
