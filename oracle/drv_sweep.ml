(* Oracle for the sweep model (coq/model/Sweep1D.v).  Same commands as harness/cx_sweep.cpp:
   SWC / ISECT print what the model computes; INV ct fr n (pt d wc wc2 hot open)*n -> 1 if inv_b holds. *)
open M
open Zconv

let side_of = function 0 -> None | 1 -> Some Front | _ -> Some Back
let code_of = function None -> "0" | Some Front -> "1" | Some Back -> "2"
let ptype_of = function 0 -> Subj | _ -> Clp
let read_edge t =
  let pt = ptype_of (next_int t) in let d = next_z t in let wc = next_z t in let wc2 = next_z t in
  let h = side_of (next_int t) in let o = next_bool t in
  { ep = pt; wdx = d; wc = wc; wc2 = wc2; hot = h; eopen = o }

let handle t =
  match next t with
  | "SWC" ->
      let ct = ct_of_Z (next_z t) in let fr = fr_of_Z (next_z t) in
      let n = next_int t in let es = List.init n (fun _ -> read_edge t) in
      let pos = next_int t in let pt = ptype_of (next_int t) in let d = next_z t in let o = next_bool t in
      let pre = List.filteri (fun i _ -> i < pos) es in
      let e0 = fresh pt d o in
      let e = if o then set_wind_open fr pre e0 else set_wind_closed fr pre e0 in
      let c = if o then is_contributing_open ct fr e else is_contributing_closed ct fr e in
      string_of_z e.wc ^ " " ^ string_of_z e.wc2 ^ " " ^ show_bool c
  | "ISECT" ->
      let ct = ct_of_Z (next_z t) in let fr = fr_of_Z (next_z t) in
      let same = next_bool t in let ph = side_of (next_int t) in
      let e1 = read_edge t in let e2 = read_edge t in
      (match intersect_edges ct fr ph same e1 e2 with
       | None -> "fail"
       | Some (a, b) ->
           String.concat " " ["ok"; string_of_z a.wc; string_of_z a.wc2; code_of a.hot;
                              string_of_z b.wc; string_of_z b.wc2; code_of b.hot])
  | "INV" ->
      let ct = ct_of_Z (next_z t) in let fr = fr_of_Z (next_z t) in
      let k = next_int t in
      let res = List.init k (fun _ ->
        let n = next_int t in let es = List.init n (fun _ -> read_edge t) in
        show_bool (inv_b ct fr es)) in
      String.concat " " res
  | c -> "ERR unknown command " ^ c

let () = main_loop handle
