(* RectClip oracle (property C08): the extracted model coq/model/RectClip.v of RectClip64, the translated leaf
   functions of coq/gen/Gen_rect.v, and the verified sample checker coq/model/RectClipCheck.v.
   Parsing/printing only.  Commands (rect = l t r b; <path> = n x y ...; <paths> = npaths then the paths;
   locations as their enum value 0..4):
   CLIP rect <paths>          -> OK <paths> | ERR oob|fuel       model of RectClip(rect, paths) (rect_clip_paths)
   CLIP2 rect <paths> <paths> -> OK <paths> | <paths>            two Execute calls on one RectClip64 object
   CLIPX rect <path>          -> X shortcut [pip nstart locs.. H heap H heap H heap] F <paths>   (see harness/cx_rectclip.cpp)
                                 | ERR oob|fuel
   CLIPT rect <path>          -> OK npaths {n {x y tagkind tagidx}}   output with provenance tags
                                 (0 input vertex, 1 GetIntersection result, 2 rectangle corner, 3 ip2 of a failed call)
   PIP x y <path>             -> 0 IsOn | 1 IsInside | 2 IsOutside | ERR
   P1C2 <path1> <path2>       -> 0/1
   CHK rect <path> <pathsOut> <pts>   -> the C08 verdict, see [chk] below; sample points in DOUBLED coordinates
   LOC GSI GI ADJ HCW OPP ISCW COLL   -> the translated functions, formats as in oracle/drv_rect.ml
   EDGES IHC HOV VOV SLCW BOUNDS RMISC -> the hand-modelled helpers, formats as in oracle/drv_rect.ml *)
open M
open Zconv

let read_rect t = let l = next_z t in let tp = next_z t in let r = next_z t in let b = next_z t in
  { r_left0 = l; r_top0 = tp; r_right0 = r; r_bottom0 = b }
let read_loc t = loc_of_idx (next_z t)
let show_loc l = string_of_z (loc_idx l)
let show_err = function ErrOOB -> "ERR oob" | ErrFuel -> "ERR fuel"
let rec int_of_nat = function O -> 0 | S n -> 1 + int_of_nat n
let si n = string_of_int (int_of_nat n)
let show_src = function SV i -> "0 " ^ si i | SI i -> "1 " ^ si i | SX i -> "3 " ^ si i | SC k -> "2 " ^ si k
let show_tpath p = String.concat " " (string_of_int (List.length p) :: List.map (fun (v, s) -> show_pt v ^ " " ^ show_src s) p)
let show_onat = function Some k -> si k | None -> "-1"

let show_heap h =
  let nodes = List.map (fun n -> String.concat " " [show_pt (fst n.n_pt); si n.n_owner; show_onat n.n_edge; si n.n_next; si n.n_prev]) h.h_nodes in
  let res = List.map show_onat h.h_results in
  let edges = List.map (fun l -> String.concat " " (string_of_int (List.length l) :: List.map show_onat l)) h.h_edges in
  String.concat " " (["H"; string_of_int (List.length nodes)] @ nodes @ [string_of_int (List.length res)] @ res @ edges)

let clip_paths r ps = rect_clip_paths r ps     (* the extracted model of a call on several paths *)

let handle t =
  match next t with
  | "CLIP" -> let r = read_rect t in let ps = read_paths t in
      (match clip_paths r ps with Ok o -> "OK " ^ show_paths o | Err e -> show_err e)
  | "CLIP2" -> let r = read_rect t in let ps = read_paths t in let qs = read_paths t in     (* Execute(ps); Execute(qs) on one object *)
      (match clip_paths r ps, clip_paths r qs with
       | Ok a, Ok b -> "OK " ^ show_paths a ^ " | " ^ show_paths b
       | Err e, _ | _, Err e -> show_err e)
  | "CLIPT" -> let r = read_rect t in let p = read_path t in
      (match rect_clip_t r p with
       | Ok o -> "OK " ^ String.concat " " (string_of_int (List.length o) :: List.map show_tpath o)
       | Err e -> show_err e)
  | "CLIPS" -> let r = read_rect t in let p = read_path t in      (* diagnostic variant: intersection points snapped onto the side *)
      (match rect_clip_snapped_t r p with
       | Ok o -> "OK " ^ String.concat " " (string_of_int (List.length o) :: List.map show_tpath o)
       | Err e -> show_err e)
  | "CLIPX" -> let r = read_rect t in let p = read_path t in
      let fin = (match clip_paths r [p] with Ok o -> Some (show_paths o) | Err _ -> None) in
      let sc = if rect_is_empty r then ScSkip else shortcut_of r p in
      (match sc, fin with
       | _, None -> (match clip_paths r [p] with Err e -> show_err e | Ok _ -> "ERR ?")
       | ScSkip, Some f -> "X 1 F " ^ f
       | ScCopy, Some f -> "X 2 F " ^ f
       | ScNone, Some f ->
         (match clip_stages r p with
          | Err e -> show_err e
          | Ok ((((sl, h), h0), h4), _) ->
            let pip = if rect_contains_rect (get_bounds p) r then
                (match path1_contains_path2 p (rect_as_path r) with Ok true -> "1" | Ok false -> "0" | Err _ -> "E") else "-1" in
            String.concat " " (["X 0"; pip; string_of_int (List.length sl)] @ List.map show_loc sl
                               @ [show_heap h; show_heap h0; show_heap h4; "F"; f])))
  | "PIP" -> let q = read_pt t in let p = read_path t in
      (match point_in_polygon q p with Ok IsOn -> "0" | Ok IsInside -> "1" | Ok IsOutside -> "2" | Err e -> show_err e)
  | "P1C2" -> let a = read_path t in let b = read_path t in
      (match path1_contains_path2 a b with Ok b -> show_bool b | Err e -> show_err e)
  | "CHK" -> let r = read_rect t in let p = read_path t in let out = read_paths t in let pts = read_path t in
      let v = chk r p out pts in
      let first_pt = function [] -> "0 0" | q :: _ -> show_pt q in
      let (ui, uo) = v.v_used in
      String.concat " " ["V"; string_of_z v.v_class; show_bool v.v_inside_ok; show_bool v.v_outside_ok; string_of_z v.v_reversed;
                         string_of_z ui; string_of_z uo;
                         string_of_int (List.length v.v_bad_vertices); first_pt v.v_bad_vertices;
                         string_of_int (List.length v.v_bad_new); first_pt v.v_bad_new;
                         string_of_int (List.length v.v_bad_samples);
                         (match v.v_bad_samples with [] -> "0 0 0" | (q, c) :: _ -> show_pt q ^ " " ^ string_of_z c)]
  | "LOC" -> let r = read_rect t in let p = read_pt t in
      let (b, l) = getLocation (r64 r) p (z_of_int 4) in show_bool b ^ " " ^ string_of_z l
  | "GSI" -> let p1 = read_pt t in let p2 = read_pt t in let p3 = read_pt t in let p4 = read_pt t in let ip = read_pt t in
      let (b, q) = getSegmentIntersection p1 p2 p3 p4 ip in show_bool b ^ " " ^ show_pt q
  | "GI" -> let r = read_rect t in let p = read_pt t in let p2 = read_pt t in let l = next_z t in let ip = read_pt t in
      let ((b, l'), q) = getIntersection (rPath r) p p2 l ip in show_bool b ^ " " ^ string_of_z l' ^ " " ^ show_pt q
  | "ADJ" -> let l = next_z t in let cw = next_bool t in string_of_z (getAdjacentLocation l cw)
  | "HCW" -> let a = next_z t in let b = next_z t in show_bool (headingClockwise a b)
  | "OPP" -> let a = next_z t in let b = next_z t in show_bool (areOpposites a b)
  | "ISCW" -> let a = next_z t in let b = next_z t in let p = read_pt t in let c = read_pt t in let mp = read_pt t in
      show_bool (isClockwise a b p c mp)
  | "COLL" -> let a = read_pt t in let b = read_pt t in let c = read_pt t in show_bool (isCollinear a b c)
  | "EDGES" -> let p = read_pt t in let r = read_rect t in string_of_z (get_edges_for_pt p r)
  | "IHC" -> let a = read_pt t in let b = read_pt t in let k = next_z t in show_bool (is_heading_clockwise a b k)
  | "HOV" -> let a = read_pt t in let b = read_pt t in let c = read_pt t in let d = read_pt t in show_bool (has_horz_overlap a b c d)
  | "VOV" -> let a = read_pt t in let b = read_pt t in let c = read_pt t in let d = read_pt t in show_bool (has_vert_overlap a b c d)
  | "SLCW" -> let l = read_list read_loc t in show_bool (start_locs_are_clockwise l)
  | "BOUNDS" -> let p = read_path t in let b = get_bounds p in
      String.concat " " (List.map string_of_z [b.r_left0; b.r_top0; b.r_right0; b.r_bottom0])
  | "RMISC" -> let r = read_rect t in let a = read_rect t in
      let (mx, my) = rect_midpoint r in
      String.concat " " [show_bool (rect_is_empty r); string_of_z mx; string_of_z my;
                         show_bool (rect_contains_rect r a); show_bool (rect_intersects r a)]
  | c -> "ERR unknown command " ^ c

let () = main_loop handle
