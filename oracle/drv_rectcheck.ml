(* C02 oracle: the extracted verified checker model/RectCheck.v (rect_check) applied to solutions of boolean
   operations on rectilinear input.  Parsing/printing/memoisation only; every verdict is computed by the
   extracted Coq functions.

   RC <pathsS> <pathsC> n (ct fr pc ok <pathsOut>)*n
        the line cx_rectil prints for one input under n option sets.  The per-input preparation (M.prep: subject and
        clip winding numbers at every cell centre) is computed once and shared by the n solutions; identical
        (ct, fr, out) triples are evaluated once.
        -> "OK n ne np nv"                       every solution accepted (ne = non-empty solutions, np/nv = total
                                                 solution paths / vertices)
           "BAD n ne np nv;idx ct fr pc|key|message|<pathsOut>;..."   one entry per failing (solution, clause)
   RC1 ct fr <pathsS> <pathsC> <pathsOut>   -> "1"/"0": M.rect_check itself (no sharing), used to cross-check RC
   SEL ct fr <pathsS> <pathsC>              -> selected_cell_area2 and the list of selected cell centres (doubled)
   keys: execute-returned-false, structural.short-path, structural.duplicate-vertex, rectil.vertex-off-grid,
         rectil.non-axis-parallel-edge, rectil.cell-mismatch, rectil.area *)
open M
open Zconv

let slice t i j = String.concat " " (Array.to_list (Array.sub t.a i (j - i)))

let diagnose xs ys pr ct fr out okflag : (string * string) list =
  let r = ref [] in
  let add k m = r := (k, m) :: !r in
  if not okflag then add "execute-returned-false" "Execute returned false";
  (match int_of_z (structural_code out) with
   | 1 -> add "structural.short-path" "a solution path has fewer than 3 vertices"
   | 2 -> add "structural.duplicate-vertex" "a solution path has consecutive duplicate vertices (or first = last)"
   | _ -> ());
  if not (vertices_on_grid xs ys out) then begin
    let v = List.find (fun v -> not (vertex_on_grid xs ys v)) (vertices out) in
    add "rectil.vertex-off-grid" ("solution vertex (" ^ show_pt v ^ ") has an x or y that no input vertex has")
  end;
  if not (rectilinear_allb out) then begin
    let es = List.concat_map cyc_edges out in
    let (a, b) = List.find (fun e -> not (edge_axis_parallel e)) es in
    add "rectil.non-axis-parallel-edge" ("solution edge (" ^ show_pt a ^ ")-(" ^ show_pt b ^ ") is not axis-parallel")
  end;
  if not (cells_ok ct fr pr out) then begin
    let bad = bad_cells ct fr pr out in
    let (((c, _), ws), wc) as pc = List.hd bad in
    let got = wn_paths (dbl out) c in
    add "rectil.cell-mismatch"
      (Printf.sprintf "%d cell(s) wrong; cell centre (doubled coords) (%s): wn(subject)=%s wn(clip)=%s selected=%s but net solution winding=%s"
         (List.length bad) (show_pt c) (string_of_z ws) (string_of_z wc) (show_bool (selected ct fr pc)) (string_of_z got))
  end;
  if not (area_ok ct fr pr out) then
    add "rectil.area" ("area2(solution)=" ^ string_of_z (area2_paths out) ^ " but selected cells sum to "
                       ^ string_of_z (selected_area2_prep ct fr pr));
  List.rev !r

let handle t =
  match next t with
  | "RC" ->
    let s = read_paths t in let c = read_paths t in
    let sc = s @ c in
    let xs = xs_of sc and ys = ys_of sc in
    let pr = prep s c in
    let n = next_int t in
    let memo = Hashtbl.create 64 in
    let ne = ref 0 and np = ref 0 and nv = ref 0 in
    let fails = ref [] in
    for idx = 0 to n - 1 do
      let cti = next_int t in let fri = next_int t in let pc = next_int t in let okflag = next_bool t in
      let i0 = t.i in
      let out = read_paths t in
      let key = (cti, fri, okflag, slice t i0 t.i) in
      if out <> [] then incr ne;
      np := !np + List.length out;
      List.iter (fun p -> nv := !nv + List.length p) out;
      let ds =
        match Hashtbl.find_opt memo key with
        | Some ds -> ds
        | None ->
          let ct = ct_of_Z (z_of_int cti) and fr = fr_of_Z (z_of_int fri) in
          let good = rect_check_prep xs ys pr out ct fr && okflag && int_of_z (structural_code out) = 0 in
          let ds = if good then [] else begin
              match diagnose xs ys pr ct fr out okflag with
              | [] -> [("oracle-inconsistent", "rect_check_prep = false but no clause fails")]
              | l -> l end in
          Hashtbl.add memo key ds; ds in
      List.iter (fun (k, m) ->
          fails := Printf.sprintf "%d %d %d %d|%s|%s|%s" idx cti fri pc k m (show_paths out) :: !fails) ds
    done;
    let head = Printf.sprintf "%d %d %d %d" n !ne !np !nv in
    if !fails = [] then "OK " ^ head else "BAD " ^ head ^ ";" ^ String.concat ";" (List.rev !fails)
  | "RC1" ->
    let ct = ct_of_Z (next_z t) in let fr = fr_of_Z (next_z t) in
    let s = read_paths t in let c = read_paths t in let out = read_paths t in
    show_bool (rect_check s c out ct fr)
  | "SEL" ->
    let ct = ct_of_Z (next_z t) in let fr = fr_of_Z (next_z t) in
    let s = read_paths t in let c = read_paths t in
    let pr = prep s c in
    let sel = List.filter (selected ct fr) pr in
    string_of_z (selected_area2_prep ct fr pr) ^ " " ^
    show_path (List.map (fun (((c, _), _), _) -> c) sel)
  | c -> "ERR unknown command " ^ c

let () = main_loop handle
