(* C03 oracle: extracted model of CleanCollinear/FixSelfIntersects/DoSplitOp/BuildPath64/BuildPaths64 with bit-exact
   binary64 leaves, and the exact well-formedness checkers.  Parsing/printing only.
   Commands (one per line; <paths> = npaths then per path n x y ...; <path> = n x y ...):
   BUILD pc rev <nrings> (is_open <path>)*   -> OK <closed paths> <open paths> ST <micro> <splits> | FUEL | UB
                                                (micro / splits: how often the micro self-intersection branch and
                                                 DoSplitOp were taken, counted by wrapping the leaves)
   STRUCT <paths>                            -> k (code idx)*      structural clause violations
   BBOX <paths inputs> <paths out>           -> k (code idx)*
   WFG pc rev <paths inputs> <paths out>     -> k (code idx)*      geometric clause violations
   ALL pc rev geom01 bbox01 <paths inputs> <paths out> -> k (code idx)*   struct ++ (bbox) ++ (geom)
   LEAF a b c d e (5 points)                 -> same format as harness/cx_rings LEAF
   AREA <path>                               -> hex double *)
open M
open Zconv

let rec nat_of_int n = if n <= 0 then O else S (nat_of_int (n - 1))
let show_codes l = String.concat " " (string_of_int (List.length l) :: List.map (fun (c, i) -> string_of_z c ^ " " ^ string_of_z i) l)
let hexf (f : Float64.t) = Printf.sprintf "%h" (Obj.magic f : float)

let handle t =
  match next t with
  | "BUILD" -> let pc = next_bool t in let rv = next_bool t in
      let rings = read_list (fun t -> let o = next_bool t in let p = read_path t in (o, p)) t in
      let nt = ref 0 and ns = ref 0 in
      let si a b c d = let r = seg_isect_F a b c d in (if r then incr nt); r in
      let ip a b c d = incr ns; isect_pt_F a b c d in
      (match build_paths si ip area_ring_F area_tri_F dot_neg_F pc rv (default_fuel rings) rings with
       | Ok (c, o) -> Printf.sprintf "OK %s %s ST %d %d" (show_paths c) (show_paths o) ((!nt - !ns) / 2) !ns
       | Fuel -> "FUEL" | UB -> "UB")
  | "STRUCT" -> let ps = read_paths t in show_codes (struct_check ps)
  | "BBOX" -> let i = read_paths t in let o = read_paths t in show_codes (bbox_check i o)
  | "WFG" -> let pc = next_bool t in let rv = next_bool t in
      let i = read_paths t in let o = read_paths t in show_codes (wf_geom_check pc rv i o)
  | "ALL" -> let pc = next_bool t in let rv = next_bool t in let g = next_bool t in let b = next_bool t in
      let i = read_paths t in let o = read_paths t in
      show_codes (struct_check o @ (if b then bbox_check i o else []) @ (if g then wf_geom_check pc rv i o else []))
  | "LEAF" -> let a = read_pt t in let b = read_pt t in let c = read_pt t in let d = read_pt t in let _ = read_pt t in
      let (x, y) = isect_pt_F a b c d in
      Printf.sprintf "si %s ip %s %s tri %s dot %s cross %s" (show_bool (seg_isect_F a b c d)) (string_of_z x) (string_of_z y)
        (hexf (area_tri_F a b c)) (hexf (dotF a b c)) (hexf (crossF a b c))
  | "AREA" -> let p = read_path t in hexf (area_ring_F p)
  | c -> "ERR unknown command " ^ c

let () = main_loop handle
