(* Oracle for C12: the extracted Clipper64 state machine (coq/model/ObjectSM.v, probe_run).
   Input: a line printed by `cx_history TR`:
     TR <nops> { <tok> <nnew> {id x y clip open}*nnew <nmin> {id clip open}*nmin sorted has_open pc rs succeeded scratch_empty }*
   The driver reads the operation tokens and, for adds, the minima AddPaths_ appended (ids and coordinates only for
   S/O/C: path type and openness are attached by the model; complete records for R), ignores the state columns, runs
   the model and prints a line in the same format.  The check compares the two lines for equality.
   Parsing/printing only. *)
open M
open Zconv

let b01 b = if b then "1" else "0"

let handle t =
  match next t with
  | "TR" ->
    let n = next_int t in
    let ops = ref [] in
    for _ = 1 to n do
      let tok = next t in
      let nnew = next_int t in
      let recs = List.init nnew (fun _ ->
        let id = next_z t in let x = next_z t in let y = next_z t in
        let c = next_bool t in let o = next_bool t in (id, x, y, c, o)) in
      let nmin = next_int t in
      for _ = 1 to nmin do ignore (next t); ignore (next t); ignore (next t) done;
      for _ = 1 to 6 do ignore (next t) done;
      let raw () = List.map (fun (id, x, y, _, _) -> { r_id = id; r_x = x; r_y = y }) recs in
      let digit i = z_of_int (Char.code tok.[i] - Char.code '0') in
      let op = match tok.[0] with
        | 'S' -> AddSubject (raw ())
        | 'O' -> AddOpenSubject (raw ())
        | 'C' -> AddClip (raw ())
        | 'R' -> AddReuseableData (List.map (fun (id, x, y, c, o) ->
                   { lm_id = id; lm_x = x; lm_y = y; lm_clip = c; lm_open = o }) recs)
        | 'P' -> SetPreserveCollinear (tok.[1] <> '0')
        | 'V' -> SetReverseSolution (tok.[1] <> '0')
        | 'X' -> Execute (ct_of_Z (digit 1), fr_of_Z (digit 2), ExecPaths)
        | 'T' -> Execute (ct_of_Z (digit 1), fr_of_Z (digit 2), ExecTree)
        | 'L' -> Clear
        | _ -> failwith ("bad op " ^ tok) in
      ops := (tok, op) :: !ops
    done;
    let ops = List.rev !ops in
    let states = probe_run (List.map snd ops) in
    let buf = Buffer.create 256 in
    Buffer.add_string buf ("TR " ^ string_of_int n);
    List.iter2 (fun (tok, op) s ->
      let news = op_minima op in
      Buffer.add_string buf (" " ^ tok ^ " " ^ string_of_int (List.length news));
      List.iter (fun m -> Buffer.add_string buf (" " ^ string_of_z m.lm_id ^ " " ^ string_of_z m.lm_x ^ " " ^
                   string_of_z m.lm_y ^ " " ^ b01 m.lm_clip ^ " " ^ b01 m.lm_open)) news;
      Buffer.add_string buf (" " ^ string_of_int (List.length s.c_minima));
      List.iter (fun m -> Buffer.add_string buf (" " ^ string_of_z m.lm_id ^ " " ^ b01 m.lm_clip ^ " " ^ b01 m.lm_open)) s.c_minima;
      Buffer.add_string buf (" " ^ b01 s.c_sorted ^ " " ^ b01 s.c_has_open ^ " " ^ b01 s.c_opts.o_preserve_collinear ^ " " ^
        b01 s.c_opts.o_reverse_solution ^ " " ^ b01 s.c_succeeded ^ " " ^ b01 s.c_scratch)) ops states;
    Buffer.contents buf
  | c -> "ERR unknown command " ^ c

let () = main_loop handle
