(* Offset oracle (C06, C07, OffsetPlan for C12).  Parsing/printing only; every decision is taken by extracted Coq code.
   <paths> = npaths then per path n x y ...; <pts> = n x y ...; rationals as two integers n d; doubles as hex floats.
   WN <paths> <pts>                                      winding numbers
   FAR tn td closed01 <paths> <pts>                      1 if the point is at least tn/td from every edge
   MIND2 closed01 <paths> <pts>                          minimum squared distance n/d
   AREA2 <paths>                                         twice the signed area
   C06 orient kind dn dd fn fd tn td <paths> <pts>       per point 1 = must be covered, 0 = must be uncovered, 2 = free
                                                         (kind 0 round, 1 miter/square with factor f, 2 bevel)
   C06ID tn td <paths> <pts>                             same for |delta| < 0.5 (region unchanged)
   C07 jt et mln mld dn dd tn td <paths> <pts>           stroke specification (d = |delta|)
   GROUP jt et <paths>                                   model of the Group constructor: stripped paths, lowest idx, is_reversed
   PLAN rev delta ng {jt et np len.. haslow isrev}       plan: mode fillneg revsol n {gi pi len gd jt et act stepsfor mdelta}
   RAW ml at delta jt et <paths> T n {fn a b r}          raw offset curves of one group; libm table supplied;
                                                         answers `NEED n {fn a b}` when libm values are missing, `OOB` on an
                                                         out-of-bounds access of the model
   TLIM ml                                               temp_lim_ for the miter limit in force at Execute
   NRM <path>                                            BuildNormals
   FOP n {op a b}                                        IEEE self-test
   ACC kind len                                          index schedule (kind 0 open path, 1 polygon, 2 joined): n in_bounds {arr idx} *)
open M
open Zconv

let fl s : Float64.t = Float64.of_float (float_of_string s)
let hx (f : Float64.t) = Printf.sprintf "%h" (Float64.to_float f)
let next_fl t = fl (next t)
let rec nat_of_int n = if n <= 0 then O else S (nat_of_int (n - 1))
let rec int_of_nat = function O -> 0 | S n -> 1 + int_of_nat n
let next_rat t = let n = next_z t in let d = next_z t in (n, d)

(* libm table *)
let tbl : (string * int64 * int64, float) Hashtbl.t = Hashtbl.create 64
let needs : (string * float * float) list ref = ref []
let look fn a b =
  let k = (fn, Int64.bits_of_float a, Int64.bits_of_float b) in
  match Hashtbl.find_opt tbl k with
  | Some r -> r
  | None -> (if not (List.exists (fun (f, x, y) -> f = fn && Int64.bits_of_float x = Int64.bits_of_float a
                                                    && Int64.bits_of_float y = Int64.bits_of_float b) !needs)
             then needs := (fn, a, b) :: !needs); Float.nan
let l1 fn = fun (a : Float64.t) -> Float64.of_float (look fn (Float64.to_float a) 0.0)
let l2 fn = fun (a : Float64.t) (b : Float64.t) -> Float64.of_float (look fn (Float64.to_float a) (Float64.to_float b))
let read_tbl t =
  Hashtbl.reset tbl; needs := [];
  if has_more t then begin
    let _ = next t in
    let n = next_int t in
    for _ = 1 to n do
      let fn = next t in let a = float_of_string (next t) in let b = float_of_string (next t) in
      let r = float_of_string (next t) in
      Hashtbl.replace tbl (fn, Int64.bits_of_float a, Int64.bits_of_float b) r
    done
  end
let show_needs () =
  let l = List.rev !needs in
  "NEED " ^ String.concat " " (string_of_int (List.length l) :: List.map (fun (f, a, b) -> Printf.sprintf "%s %h %h" f a b) l)

let verdicts f pts = String.concat " " (List.map (fun q -> string_of_z (z_of_verdict (f q))) pts)
let show_act = function ASkip -> "skip" | APoint true -> "circle" | APoint false -> "square" | APolygon -> "polygon"
                      | AJoined -> "joined" | AOpen -> "open"
let show_of = function None -> "none" | Some f -> hx f

let handle t =
  match next t with
  | "WN" -> let ps = read_paths t in let pts = read_path t in
      String.concat " " (List.map (fun q -> string_of_z (wn_paths ps q)) pts)
  | "FAR" -> let tn = next_z t in let td = next_z t in let c = next_bool t in
      let ps = read_paths t in let pts = read_path t in
      let es = if c then edges_closed ps else edges_open ps in
      String.concat " " (List.map (fun q -> show_bool (far_from tn td es q)) pts)
  | "MIND2" -> let c = next_bool t in let ps = read_paths t in let pts = read_path t in
      let es = if c then edges_closed ps else edges_open ps in
      String.concat " " (List.map (fun q -> match min_dist2 es q with
         | None -> "inf" | Some (n, d) -> string_of_z n ^ "/" ^ string_of_z d) pts)
  | "AREA2" -> let ps = read_paths t in string_of_z (area2_paths ps)
  | "C06" -> let orient = next_z t in let kind = next_z t in
      let d = next_rat t in let f = next_rat t in let tol = next_rat t in
      let ps = read_paths t in let pts = read_path t in
      verdicts (c06_class ps orient kind d f tol) pts
  | "C06ID" -> let tol = next_rat t in let ps = read_paths t in let pts = read_path t in
      verdicts (fun q -> c06_identity_class ps q tol) pts
  | "C07" -> let jt = jt_of_Z (next_z t) in let et = et_of_Z (next_z t) in
      let ml = next_rat t in let d = next_rat t in let tol = next_rat t in
      let ps = read_paths t in let pts = read_path t in
      verdicts (c07_class jt et ml d tol ps) pts
  | "GROUP" -> let jt = jt_of_Z (next_z t) in let et = et_of_Z (next_z t) in let ps = read_paths t in
      let g = mk_group ps jt et in
      let pin = group_paths ps et in
      let low = (match et with EPolygon -> (match lowest_path_idx pin with Some i -> int_of_nat i | None -> -1) | _ -> -1) in
      Printf.sprintf "OK %s %d %s" (show_paths pin) low (show_bool g.g_reversed)
  | "PLAN" -> let rev = next_bool t in let delta = next_fl t in let ng = next_int t in
      let gs = List.init ng (fun _ ->
        let jt = jt_of_Z (next_z t) in let et = et_of_Z (next_z t) in
        let np = next_int t in let lens = List.init np (fun _ -> nat_of_int (next_int t)) in
        let low = next_int t in let isrev = next_bool t in
        { g_lens = lens; g_join = jt; g_end = et; g_has_lowest = (low >= 0); g_reversed = isrev }) in
      let x = execute_plan rev gs delta in
      let es = (match x.x_mode with XOffset es -> es | _ -> []) in
      let mode = (match x.x_mode with XNothing -> "nothing" | XIdentity -> "identity" | XOffset _ -> "offset") in
      String.concat " " ("P" :: mode :: show_bool x.x_fill_negative :: show_bool x.x_reverse_solution
        :: string_of_int (List.length es)
        :: List.map (fun e -> Printf.sprintf "%d %d %d %s %s %s %s %s %s" (int_of_nat e.pe_group) (int_of_nat e.pe_path)
              (int_of_nat e.pe_len) (hx e.pe_delta) (string_of_z (z_of_jt e.pe_join)) (string_of_z (z_of_et e.pe_end))
              (show_act e.pe_action) (show_of e.pe_steps_for) (hx e.pe_mdelta)) es)
  | "RAW" -> let ml = next_fl t in let at = next_fl t in let delta = next_fl t in
      let jt = jt_of_Z (next_z t) in let et = et_of_Z (next_z t) in let ps = read_paths t in
      read_tbl t;
      let r = raw_group (l1 "acos") (l1 "sin") (l1 "cos") (l2 "atan2") ml at delta ps jt et in
      if !needs <> [] then show_needs ()
      else (match r with None -> "OOB" | Some raw -> "OK R " ^ show_paths raw)
  | "STEPS" -> let at = next_fl t in let gd = next_fl t in
      read_tbl t;
      let ((spr, s), c) = step_consts (l1 "acos") (l1 "sin") (l1 "cos") at gd in
      if !needs <> [] then show_needs () else Printf.sprintf "OK %s %s %s" (hx spr) (hx s) (hx c)
  | "TLIM" -> hx (temp_lim (next_fl t))
  | "NRM" -> let p = read_path t in
      let ns = build_normals p in
      String.concat " " ("OK" :: string_of_int (List.length ns) :: List.map (fun (x, y) -> hx x ^ " " ^ hx y) ns)
  | "FOP" -> let n = next_int t in
      let code = function "add" -> 0 | "sub" -> 1 | "mul" -> 2 | "div" -> 3 | "sqrt" -> 4 | "ceil" -> 5 | "abs" -> 6 | _ -> 7 in
      String.concat " " ("OK" :: List.init n (fun _ ->
        let op = next t in let a = next_fl t in let b = next_fl t in hx (fop (z_of_int (code op)) a b)))
  | "ACC" -> let kind = next_int t in let len = next_z t in
      let acc = (match kind with 0 -> open_path_accesses len | 1 -> polygon_accesses len | _ -> open_joined_accesses len) in
      let ok = List.for_all (in_bounds len) acc in
      String.concat " " (string_of_int (List.length acc) :: show_bool ok
        :: List.map (fun (a, i) -> (match a with APath -> "p" | ANorms -> "n") ^ string_of_z i) acc)
  | c -> "ERR unknown command " ^ c

let () = main_loop handle
