(* C04 oracle: extracted ownership model and exact PolyTree checker.  Parsing/printing only.
   Commands (one per line):
   OPS n k (op args)*        same syntax and output format as harness/cx_owner OPS (K g i j: g = guard_pointless); " | HANG" if the model runs out of
                             fuel (the C++ loop would not terminate)
   MTREE v N n (owner has_pts is_open bounds_empty nsplits splits...)*n I <digits> B <digits>
                             (v = shape of the owner search: bit 0 own_first, bit 1 mark_chain, bit 2 guard_pointless, see model/Owner.v; then
                             the state part of harness/cx_owner TREE's answer) -> "T m (idx parent)*m" in preorder,
                             or FUEL / NULLDEREF
   CHECK rev cnt (depth isHole nChildren <path>)*cnt <closed paths> <open paths> <tree-run open paths>
                             -> k (code idx)*      tree_check violations
   FCC cnt (depth isHole nChildren <path>)*cnt
                             -> 0/1  fully_contains: the model of CheckPolytreeFullyContainsChildren on that tree
   LEVEL n                   -> is_hole_of_level n *)
open M
open Zconv

let rec nat_of_int n = if n <= 0 then O else S (nat_of_int (n - 1))
let rec int_of_nat = function O -> 0 | S n -> 1 + int_of_nat n
let show_codes l = String.concat " " (string_of_int (List.length l) :: List.map (fun (c, i) -> string_of_z c ^ " " ^ string_of_z i) l)
let opt_idx = function None -> "-1" | Some i -> string_of_int (int_of_nat i)

let show_state buf ans (m : orec list) =
  Buffer.add_string buf (" | " ^ ans ^ " :");
  List.iter (fun r -> Buffer.add_string buf (" " ^ opt_idx r.owner)) m;
  Buffer.add_string buf " ;";
  List.iteri (fun k r -> (if k > 0 then Buffer.add_string buf " ,");
                         List.iter (fun s -> Buffer.add_string buf (" " ^ string_of_int (int_of_nat s))) r.splits) m

let handle t =
  match next t with
  | "OPS" ->
      let n = next_int t in let k = next_int t in
      let m = ref (List.init n (fun _ -> { owner = None; has_pts = true; splits = []; rsplit = None })) in
      let buf = Buffer.create 256 in
      Buffer.add_string buf "ops";
      (try
        for _ = 1 to k do
          let o = next t in
          let nn () = nat_of_int (next_int t) in
          let ans = ref "-" in
          let op = (match o with
            | "S" -> let i = nn () in let j = nn () in OpSetOwner (i, j)
            | "C" -> OpClear (nn ())
            | "R" -> OpReal (nn ())
            | "P" -> let i = nn () in let b = next_bool t in OpPts (i, b)
            | "N" -> OpNewOwned (nn ())
            | "W" -> OpNewSibling (nn ())
            | "V" -> let i = nn () in let j = nn () in
                (match is_valid_owner (fuel_of !m) !m i j with
                 | Some v -> ans := show_bool v | None -> raise Exit);
                OpValidAssign (i, j)
            | "A" -> let i = nn () in let j = nn () in OpAddSplit (i, j)
            | "M" -> let i = nn () in let j = nn () in OpMoveSplits (i, j)
            | "K" -> let g = next_bool t in let i = nn () in let j = nn () in
                let sp = (List.nth !m (int_of_nat j)).splits in
                (match check_split_owner (fun _ _ -> false) (fun _ _ -> false) g (nat_of_int 200) !m i sp with
                 | Some (m', b) -> m := m'; ans := show_bool b | None -> raise Exit);
                OpPts (i, (List.nth !m (int_of_nat i)).has_pts)       (* state already updated *)
            | "G" -> let i = nn () in
                (match get_real (fuel_of !m) !m (Some i) with
                 | Some r -> ans := opt_idx r | None -> raise Exit);
                OpPts (i, (List.nth !m (int_of_nat i)).has_pts)       (* no state change *)
            | _ -> failwith ("bad op " ^ o)) in
          (match apply_op !m op with Some m' -> m := m' | None -> raise Exit);
          show_state buf !ans !m
        done
      with Exit -> Buffer.add_string buf " | HANG");
      Buffer.contents buf
  | "MTREE" ->
      let v = next_int t in
      let own_first = (v land 1) <> 0 and mark_chain = (v land 2) <> 0 and guard = (v land 4) <> 0 in
      let _ = next t in                       (* N *)
      let n = next_int t in
      let opens = Array.make (max n 1) false and bemp = Array.make (max n 1) false in
      let m = List.init n (fun i ->
        let ow = next_int t in let hp = next_bool t in let io = next_bool t in let be = next_bool t in
        let ns = next_int t in let sp = List.init ns (fun _ -> nat_of_int (next_int t)) in
        opens.(i) <- io; bemp.(i) <- be;
        { owner = (if ow < 0 then None else Some (nat_of_int ow)); has_pts = hp; splits = sp; rsplit = None }) in
      let _ = next t in let istr = next t in let _ = next t in let bstr = next t in
      let tbl s i j = let a = int_of_nat i and b = int_of_nat j in
        if a < n && b < n && String.length s = n * n then s.[a * n + b] = '1' else false in
      let arr a i = let k = int_of_nat i in if k < n then a.(k) else false in
      let fuel = nat_of_int (4 * (n + 2) * (n + 2)) in
      (match build_tree (tbl istr) (tbl bstr) (arr bemp) (arr opens) guard own_first mark_chain fuel m with
       | None -> "FUEL"
       | Some None -> "NULLDEREF"
       | Some (Some (_, tr)) ->
           let pre = preorder (nat_of_int (n + 2)) tr None in
           String.concat " " ("T" :: string_of_int (List.length pre) ::
             List.map (fun (i, p) -> string_of_int (int_of_nat i) ^ " " ^ opt_idx p) pre))
  | "CHECK" ->
      let rv = next_bool t in
      let cnt = next_int t in
      let nodes = List.init cnt (fun _ ->
        let d = next_int t in let h = next_bool t in let _ = next_int t in let p = read_path t in
        { tn_depth = nat_of_int d; tn_hole = h; tn_path = p }) in
      let closed = read_paths t in let opened = read_paths t in let topen = read_paths t in
      show_codes (tree_check rv nodes closed opened topen)
  | "FCC" ->
      let cnt = next_int t in
      let nodes = List.init cnt (fun _ ->
        let d = next_int t in let h = next_bool t in let _ = next_int t in let p = read_path t in
        { tn_depth = nat_of_int d; tn_hole = h; tn_path = p }) in
      show_bool (fully_contains nodes)
  | "LEVEL" -> show_bool (is_hole_of_level (nat_of_int (next_int t)))
  | c -> "ERR unknown command " ^ c

let () = main_loop handle
