(* C18 specification oracle: exact specifications extracted from coq/model/CoreSpec.v, coq/base/Winding.v,
   coq/base/Geom.v (no translated code, no hand model).  Parsing/printing only.
   Commands (one per line; integers decimal, <path> = n x y ..., <paths> = npaths then per path n x y ...):
   PIP qx qy <path>            -> code                 expected PointInPolygonResult: 0 IsOn 1 IsInside 2 IsOutside
   PIPG x0 y0 x1 y1 <path>     -> string of codes      for every lattice point of [x0,x1]x[y0,y1], y outer / x inner loop
   AREA <path>                 -> <area2> <area2_abs>  exact 2*area (Clipper's sign) and sum of |terms|
   AREAS <paths>               -> <area2_paths>
   MUL a b                     -> lo hi                exact 128-bit product of two uint64
   PEQ a b c d                 -> 0/1                  a*b = c*d
   CPS p q r | COL p q r       -> -1/0/1 | 0/1         sign of cross / cross = 0
   TRI x                       -> -1/0/1
   ISV a b c d ret ipx ipy     -> parallel proper closed within1 within1eps inbox ok     (0/1 each) verdict on a result of
                                  GetSegmentIntersectPt(a,b,c,d): exact parallelism, proper / closed crossing of the segments,
                                  |ip - X|_inf <= 1, <= 1 + 2^-20, ip in the bounding box of a-b, the property's clause
   WN qx qy <path>             -> wn on_path *)
open M
open Zconv

let two20 = z_of_string "1048576"
let two20p1 = z_of_string "1048577"
let one = z_of_string "1"

let handle t =
  match next t with
  | "PIP" -> let q = read_pt t in let p = read_path t in string_of_z (pip_code (pip_spec q p))
  | "PIPG" -> let x0 = next_int t in let y0 = next_int t in let x1 = next_int t in let y1 = next_int t in
      let p = read_path t in
      let b = Buffer.create 128 in
      for y = y0 to y1 do for x = x0 to x1 do
        Buffer.add_string b (string_of_z (pip_code (pip_spec (z_of_int x, z_of_int y) p)))
      done done;
      Buffer.contents b
  | "AREA" -> let p = read_path t in string_of_z (area2 p) ^ " " ^ string_of_z (area2_abs p)
  | "AREAS" -> let ps = read_paths t in string_of_z (area2_paths ps)
  | "MUL" -> let a = next_z t in let b = next_z t in
      let (lo, hi) = spec_multiply a b in string_of_z lo ^ " " ^ string_of_z hi
  | "PEQ" -> let a = next_z t in let b = next_z t in let c = next_z t in let d = next_z t in
      show_bool (spec_products_equal a b c d)
  | "CPS" -> let p = read_pt t in let q = read_pt t in let r = read_pt t in string_of_z (spec_cross_sign p q r)
  | "COL" -> let p = read_pt t in let q = read_pt t in let r = read_pt t in show_bool (spec_collinear p q r)
  | "TRI" -> let x = next_z t in string_of_z (spec_cross_sign (z_of_int 0, z_of_int 0) (z_of_int 1, z_of_int 0) (z_of_int 1, x))
  | "ISV" -> let a = read_pt t in let b = read_pt t in let c = read_pt t in let d = read_pt t in
      let ret = next_bool t in let ip = read_pt t in
      String.concat " " (List.map show_bool
        [parallel a b c d; properly_cross a b c d; closed_cross a b c d;
         isect_within one one a b c d ip; isect_within two20p1 two20 a b c d ip; in_seg_box a b ip;
         isect_ok a b c d ret ip])
  | "WN" -> let q = read_pt t in let p = read_path t in string_of_z (wn p q) ^ " " ^ show_bool (on_path p q)
  | c -> "ERR unknown command " ^ c

let () = main_loop handle
