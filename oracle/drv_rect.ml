(* Rect oracle: extracted models of clipper.rectclip.cpp and the C08/C09 specification checkers.
   Parsing/printing only.  Commands (one per line; rect = l t r b; <paths> = npaths then per path n x y ...;
   <path> = n x y ...; locations as their enum value 0..4):
   LINES rect <paths>                 -> OK <paths> | ERR oob|fuel     model of RectClipLines(rect, paths)
   LINEST rect <path>                 -> OK npieces {n {x y tagkind tagidx}} model with provenance tags (one polyline)
   LINESTL rect <path>                -> same for the legacy (pre /repo 4911de9) behaviour; tagkind 3 = stale ip2
   LSPEC rect <path> <paths>          -> shape within order length (0/1 each: C09 verdict for output <paths>)
                                         strict edge crossings outlen (exact inside length not along / along a side,
                                         boundary crossings, output length; lengths in 2^-20 fixed point)
   LOC rect x y                       -> res loc
   GSI p1 p2 p3 p4 ip                 -> res x y         (5 points)
   GSIP p1 p2 p3 p4 ip                -> res x y         GetSegmentIntersectPt
   GI rect p p2 loc ip                -> res loc x y
   ADJ loc cw | HCW a b | OPP a b     -> loc | 0/1 | 0/1
   ISCW prev curr prev_pt curr_pt mp  -> 0/1
   EDGES x y rect                     -> n
   IHC p1 p2 idx | HOV a b c d | VOV a b c d | COLL a b c   -> 0/1
   SLCW n loc...                      -> 0/1
   BOUNDS <path>                      -> l t r b
   RMISC rect a-rect                  -> empty midx midy contains intersects
   CROSSF a b c                       -> hex double *)
open M
open Zconv

let read_rect t = let l = next_z t in let tp = next_z t in let r = next_z t in let b = next_z t in
  { r_left = l; r_top = tp; r_right = r; r_bottom = b }
let read_loc t = loc_of_idx (next_z t)
let show_loc l = string_of_z (loc_idx l)
let show_err = function ErrOOB -> "ERR oob" | ErrFuel -> "ERR fuel"
let rec int_of_nat = function O -> 0 | S n -> 1 + int_of_nat n
let show_src = function SV i -> "0 " ^ string_of_int (int_of_nat i) | SI i -> "1 " ^ string_of_int (int_of_nat i)
                      | SX i -> "3 " ^ string_of_int (int_of_nat i)
                      | SC k -> "2 " ^ string_of_int (int_of_nat k)
let show_tpath p = String.concat " " (string_of_int (List.length p) :: List.map (fun (v, s) -> show_pt v ^ " " ^ show_src s) p)

let handle t =
  match next t with
  | "LINES" -> let r = read_rect t in let ps = read_paths t in
      (match rect_clip_lines_paths r ps with Ok o -> "OK " ^ show_paths o | Err e -> show_err e)
  | "LINEST" -> let r = read_rect t in let p = read_path t in
      (match rect_clip_lines_t r p with
       | Ok o -> "OK " ^ String.concat " " (string_of_int (List.length o) :: List.map show_tpath o)
       | Err e -> show_err e)
  | "LINESTL" -> let r = read_rect t in let p = read_path t in
      (match rect_clip_lines_legacy_t r p with
       | Ok o -> "OK " ^ String.concat " " (string_of_int (List.length o) :: List.map show_tpath o)
       | Err e -> show_err e)
  | "LSPEC" -> let r = read_rect t in let p = read_path t in let o = read_paths t in
      let (((a, b), c), d) = lines_spec r p o in
      let ((ls, le), cr) = lines_inside_fx r p in
      String.concat " " (List.map show_bool [a; b; c; d] @ List.map string_of_z [ls; le; cr; out_len_fx o])
  | "LOC" -> let r = read_rect t in let p = read_pt t in
      let (b, l) = get_location r p in show_bool b ^ " " ^ show_loc l
  | "GSI" -> let p1 = read_pt t in let p2 = read_pt t in let p3 = read_pt t in let p4 = read_pt t in let ip = read_pt t in
      let (b, q) = get_segment_intersection p1 p2 p3 p4 ip in show_bool b ^ " " ^ show_pt q
  | "GSIP" -> let p1 = read_pt t in let p2 = read_pt t in let p3 = read_pt t in let p4 = read_pt t in let ip = read_pt t in
      let (b, q) = get_segment_intersect_pt p1 p2 p3 p4 ip in show_bool b ^ " " ^ show_pt q
  | "GI" -> let r = read_rect t in let p = read_pt t in let p2 = read_pt t in let l = read_loc t in let ip = read_pt t in
      let ((b, l'), q) = get_intersection r p p2 l ip in show_bool b ^ " " ^ show_loc l' ^ " " ^ show_pt q
  | "ADJ" -> let l = read_loc t in let cw = next_bool t in show_loc (get_adjacent_location l cw)
  | "HCW" -> let a = read_loc t in let b = read_loc t in show_bool (heading_clockwise a b)
  | "OPP" -> let a = read_loc t in let b = read_loc t in show_bool (are_opposites a b)
  | "ISCW" -> let a = read_loc t in let b = read_loc t in let p = read_pt t in let c = read_pt t in let mp = read_pt t in
      show_bool (is_clockwise a b p c mp)
  | "EDGES" -> let p = read_pt t in let r = read_rect t in string_of_z (get_edges_for_pt p r)
  | "IHC" -> let a = read_pt t in let b = read_pt t in let k = next_z t in show_bool (is_heading_clockwise a b k)
  | "HOV" -> let a = read_pt t in let b = read_pt t in let c = read_pt t in let d = read_pt t in show_bool (has_horz_overlap a b c d)
  | "VOV" -> let a = read_pt t in let b = read_pt t in let c = read_pt t in let d = read_pt t in show_bool (has_vert_overlap a b c d)
  | "COLL" -> let a = read_pt t in let b = read_pt t in let c = read_pt t in show_bool (is_collinear a b c)
  | "SLCW" -> let l = read_list read_loc t in show_bool (start_locs_are_clockwise l)
  | "BOUNDS" -> let p = read_path t in let b = get_bounds p in
      String.concat " " (List.map string_of_z [b.r_left; b.r_top; b.r_right; b.r_bottom])
  | "RMISC" -> let r = read_rect t in let a = read_rect t in
      let (mx, my) = rect_midpoint r in
      String.concat " " [show_bool (rect_is_empty r); string_of_z mx; string_of_z my;
                         show_bool (rect_contains_rect r a); show_bool (rect_intersects r a)]
  | "CROSSF" -> let a = read_pt t in let b = read_pt t in let c = read_pt t in
      Printf.sprintf "%h" (Float64.to_float (crossF a b c))
  | c -> "ERR unknown command " ^ c

let () = main_loop handle
