(* Oracle for the ring-assembly model (coq/model/Rings.v).  Same command as harness/cx_ringasm.cpp:
   RA nops (M e1 e2 x y swap | A e x y | X e1 e2 x y | S e1 e2)*  ->  FAIL  |  OK nrecs (N | P k x y ..) fe be ... E eo0 .. eo7 *)
open M
open Zconv

let rec nat_of_int i = if i <= 0 then O else S (nat_of_int (i - 1))
let rec int_of_nat = function O -> 0 | S n -> 1 + int_of_nat n
let show_oe = function None -> "-1" | Some e -> string_of_int (int_of_nat e)

let read_op t =
  match next t with
  | "M" -> let e1 = next_int t in let e2 = next_int t in let p = read_pt t in let sw = next_bool t in
           OMin (nat_of_int e1, nat_of_int e2, p, sw)
  | "A" -> let e = next_int t in let p = read_pt t in OAdd (nat_of_int e, p)
  | "X" -> let e1 = next_int t in let e2 = next_int t in let p = read_pt t in OMax (nat_of_int e1, nat_of_int e2, p)
  | "S" -> let e1 = next_int t in let e2 = next_int t in OSwap (nat_of_int e1, nat_of_int e2)
  | c -> failwith ("bad op " ^ c)

let handle t =
  match next t with
  | "RA" ->
      let n = next_int t in
      let ops = List.init n (fun _ -> read_op t) in
      (match run init ops with
       | None -> "FAIL"
       | Some s ->
           let rs = recs s in
           let one o = (match pts o with None -> "N" | Some d -> "P " ^ show_path d) ^ " " ^ show_oe (fe o) ^ " " ^ show_oe (be o) in
           let es = List.init 8 (fun i -> match eo s (nat_of_int i) with None -> "-1" | Some k -> string_of_int (int_of_nat k)) in
           String.concat " " (["OK"; string_of_int (List.length rs)] @ List.map one rs @ ["E"] @ es))
  | c -> "ERR unknown command " ^ c

let () = main_loop handle
