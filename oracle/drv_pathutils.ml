(* C20 oracle: runs the extracted Coq models of the path utilities (coq/model/PathUtils.v) and the extracted
   specification predicates.  Parsing/printing and dispatch only; every judgement is made by an extracted function.

   Input lines are what harness/cx_pathutils.cpp prints:   <request> = <implementation response>
   (requests/responses are documented there).  For every line:
     corr:<what>          the model's output differs from the implementation's (exact comparison, doubles bitwise)
     prop:<key>:<what>    the implementation's output violates a clause of property C20 (key = failure mode)
   Output, default mode: one line per input line:  "OK <nontrivial 0/1>"  or  "FAIL item|item|..."
   With argument -q: only failing lines are printed ("FAIL items @@ <input line>") and a final "DONE <lines> <nontrivial> <failed>".
   A line without " = " prints the model's own response (debugging / vm_compute cross-check). *)
open M
open Zconv

(* ---------- conversions ---------- *)
let rec nat_of_int n = if n <= 0 then O else S (nat_of_int (n - 1))
let rec int_of_nat = function O -> 0 | S n -> 1 + int_of_nat n
let f_of_string s = Float64.of_float (float_of_string s)
let bits f = let x = Float64.to_float f in if x <> x then 0x7ff8000000000000L else Int64.bits_of_float x
let feq a b = Int64.equal (bits a) (bits b)
let show_f f = Printf.sprintf "%h" (Float64.to_float f)
let next_f t = f_of_string (next t)
let show_flags fl = String.concat " " (string_of_int (List.length fl) :: List.map show_bool fl)
let read_flags t = read_list next_bool t
let show_res show = function Ok x -> show x | ErrOOB -> "ERR-OOB" | ErrFuel -> "ERR-FUEL"
let peq a b = path_eqb a b
let plen p = List.length p

let read_pathd t = read_list (fun t -> let x = next_f t in let y = next_f t in (x, y)) t
let show_pathd p = String.concat " " (string_of_int (List.length p) :: List.map (fun (x, y) -> show_f x ^ " " ^ show_f y) p)
let pathd_eq a b = List.length a = List.length b && List.for_all2 (fun (x, y) (u, v) -> feq x u && feq y v) a b

(* ---------- per-line verdict ---------- *)
let items : string list ref = ref []
let nontrivial = ref false
let corr what = items := ("corr:" ^ what) :: !items
let prop key what = items := ("prop:" ^ key ^ ":" ^ what) :: !items

let expect_eq t = if has_more t && t.a.(t.i) = "=" then (t.i <- t.i + 1; true) else false

let cmp_path name (m : path res) (impl : path) =
  match m with
  | Ok mp -> if not (peq mp impl) then corr (Printf.sprintf "%s model=[%s] impl=[%s]" name (show_path mp) (show_path impl))
  | e -> corr (Printf.sprintf "%s model=%s impl=[%s]" name (show_res show_path e) (show_path impl))

(* ---------- commands ---------- *)
let do_trim t =
  let o = next_bool t in let p = read_path t in
  let m = trim_collinear p o in
  if not (expect_eq t) then show_res show_path m else begin
    let out = read_path t in let out2 = read_path t in
    cmp_path "trim" m out;
    nontrivial := not (peq out p);
    if not (sublistb out p) then prop "trim.not-subsequence" "result is not a subsequence of the input";
    if o && plen p >= 2 && not (keeps_ends out p) then begin
      match p with
      | [a; b] when pt_eqb a b -> prop "trim.open-2pt-zero-length-emptied" "open 2-point path with equal points: end points not kept (empty result)"
      | _ -> prop "trim.open-ends-lost" "open path: first/last vertex not kept"
    end;
    if not o then begin
      if area2 out <> area2 p then
        prop "trim.area-changed" (Printf.sprintf "area2 in=%s out=%s" (string_of_z (area2 p)) (string_of_z (area2 out)));
      if no_cyc_dup p && no_reversal p then begin
        if not (no_cyc_collinear out) then prop "trim.collinear-triple-left" "three cyclically consecutive collinear vertices in the result";
        if not (peq out (corners_or_empty p)) then
          prop "trim.not-corners" (Printf.sprintf "corners=[%s]" (show_path (corners_or_empty p)));
        if not (peq out2 out) then prop "trim.not-idempotent" (Printf.sprintf "second=[%s]" (show_path out2))
      end
    end else begin
      if no_lin_dup p && no_lin_reversal p then begin
        if not (no_lin_collinear out) then prop "trim.open-collinear-triple-left" "three consecutive collinear vertices in the result";
        if not (peq out2 out) then prop "trim.open-not-idempotent" (Printf.sprintf "second=[%s]" (show_path out2))
      end
    end;
    ""
  end

let do_simp t =
  let eps = next_f t in let c = next_bool t in let p = read_path t in
  let m = simplify_path p eps c in
  if not (expect_eq t) then show_res show_path m else begin
    let out = read_path t in
    cmp_path "simplify" m out;
    nontrivial := not (peq out p);
    if not (sublistb out p) then prop "simplify.not-subsequence" "result is not a subsequence of the input";
    if (not c) && plen p >= 2 && not (keeps_ends out p) then begin
      if eps_sqr_ge_max eps then
        prop "simplify.open-ends-lost.eps-sqr-ge-max-dbl"
          "open path, epsilon^2 >= DBL_MAX (the pseudo distance that protects the ends): first/last vertex not kept"
      else prop "simplify.open-ends-lost" "open path: first/last vertex not kept"
    end;
    if not (simplify_fixed_f out eps c) then begin
      if plen p < 4 then prop (if c then "simplify.short-closed-path-not-simplified" else "simplify.short-open-path-not-simplified")
          "fewer than 4 points: returned unchanged although a vertex is within epsilon of the line through its neighbours"
      else prop "simplify.removable-vertex-left" "a remaining vertex is within epsilon of the line through its neighbours"
    end;
    ""
  end

let last_of l = List.nth l (List.length l - 1)
let select_flags p fl = collect true (nat_of_int (plen p)) O p fl

let do_rdp t =
  let eps = next_f t in let p = read_path t in
  let m = rdp_path p eps in let mf = rdp_path_flags p eps in
  if not (expect_eq t) then show_res show_path m ^ " " ^ show_res show_flags mf else begin
    let out = read_path t in let fl = read_flags t in
    cmp_path "rdp" m out;
    (match mf with
     | Ok f when f = fl -> ()
     | r -> corr (Printf.sprintf "rdp flags model=%s impl=%s" (show_res show_flags r) (show_flags fl)));
    (match select_flags p fl with
     | Ok s when peq s out -> ()
     | _ -> corr "RamerDouglasPeucker output differs from the vertices flagged by a direct RDP call");
    nontrivial := not (peq out p);
    (* classifier for the defect of the unrepaired code: the end-shrinking loop of RDP fires iff first == last (top-level call) *)
    let first_eq_last = (match p with a :: _ :: _ -> plen p >= 5 && pt_eqb a (last_of p) | _ -> false) in
    if not (sublistb out p) then prop "rdp.not-subsequence" "result is not a subsequence of the input";
    (* "keeps the end points": judged on the returned path (point values), as the property states it; which copy of a
       repeated point was flagged is a matter of the model comparison above, not of the property *)
    if not (keeps_ends out p) then
      prop (if first_eq_last then "rdp.first-eq-last-drops-end" else "rdp.ends-lost")
        (if first_eq_last then "the path ends where it starts: the result does not end at the input's last point (RDP un-flags the last vertex and keeps no new end)"
         else "the result does not start/end at the input's first/last point");
    (match rdp_bad_f p fl eps with
     | [] -> ()
     | bad -> prop (if first_eq_last then "rdp.first-eq-last-drops-end" else "rdp.bound")
                (Printf.sprintf "removed vertices %s are farther than epsilon from the line through their surviving neighbours (or have none)"
                   (String.concat "," (List.map (fun n -> string_of_int (int_of_nat n)) bad))));
    ""
  end

let rec adj_ok f = function a :: (b :: _ as t) -> f a b && adj_ok f t | _ -> true

let sdup_props p c out =
  if not (sublistb out p) then prop "stripdup.not-subsequence" "result is not a subsequence";
  if not (adj_ok (fun a b -> not (pt_eqb a b)) out) then prop "stripdup.adjacent-duplicate-left" "equal consecutive points remain";
  if c && plen out > 1 && pt_eqb (List.hd out) (last_of out) then prop "stripdup.closing-duplicate-left" "closed: last equals first";
  if not (List.for_all (fun q -> List.exists (pt_eqb q) out) p) then prop "stripdup.point-lost" "a point value disappeared"

let do_sdup t =
  let c = next_bool t in let p = read_path t in
  let m = strip_duplicates p c in
  if not (expect_eq t) then show_res show_path m else begin
    let out = read_path t in
    cmp_path "strip_duplicates" m out;
    nontrivial := not (peq out p);
    sdup_props p c out;
    ""
  end

let do_sdups t =
  let c = next_bool t in let ps = read_paths t in
  let m = strip_duplicates_paths ps c in
  if not (expect_eq t) then show_res show_paths m else begin
    let outs = read_paths t in
    (match m with
     | Ok mp when List.length mp = List.length outs && List.for_all2 peq mp outs -> ()
     | r -> corr (Printf.sprintf "strip_duplicates(Paths64) model=[%s] impl=[%s]" (show_res show_paths r) (show_paths outs)));
    nontrivial := true;
    if List.length outs <> List.length ps then prop "stripdup.paths-count" "Paths overload: number of paths changed"
    else List.iter2 (fun p out -> sdup_props p c out) ps outs;
    ""
  end

(* the defining equations of StripNearEqual, judged on the implementation's output (int64 and double points) *)
let snear_props p d c out =
  if not (sublistb out p) then prop "stripnear.not-subsequence" "result is not a subsequence";
  if not (adj_ok (fun a b -> not (near_equal b a d)) out) then prop "stripnear.adjacent-near-left" "near-equal consecutive points remain";
  if c && plen out > 1 && near_equal (last_of out) (List.hd out) d then
    prop "stripnear.closing-near-left" "closed: the last point of the result is still within the tolerance of the first";
  if p <> [] && (out = [] || not (pt_eqb (List.hd out) (List.hd p))) then prop "stripnear.first-lost" "first point not kept"

let ptd_eq (x, y) (u, v) = feq x u && feq y v
let rec sublist_d s l = match s, l with
  | [], _ -> true | _, [] -> false
  | a :: s', b :: l' -> if ptd_eq a b then sublist_d s' l' else sublist_d s l'
let snear_props_d p d c out =
  if not (sublist_d out p) then prop "stripnear.not-subsequence" "PathD: result is not a subsequence";
  if not (adj_ok (fun a b -> not (near_equal_d b a d)) out) then prop "stripnear.adjacent-near-left" "PathD: near-equal consecutive points remain";
  if c && List.length out > 1 && near_equal_d (last_of out) (List.hd out) d then
    prop "stripnear.closing-near-left" "PathD, closed: the last point of the result is still within the tolerance of the first";
  if p <> [] && (out = [] || not (ptd_eq (List.hd out) (List.hd p))) then prop "stripnear.first-lost" "PathD: first point not kept"

let do_snear t =
  let d = next_f t in let c = next_bool t in let p = read_path t in
  let m = strip_near_equal p d c in
  if not (expect_eq t) then show_res show_path m else begin
    let out = read_path t in
    cmp_path "strip_near_equal" m out;
    nontrivial := not (peq out p);
    snear_props p d c out;
    ""
  end

let do_sneard t =
  let d = next_f t in let c = next_bool t in let p = read_pathd t in
  let m = strip_near_equal_d p d c in
  if not (expect_eq t) then show_res show_pathd m else begin
    let out = read_pathd t in
    (match m with
     | Ok mp when pathd_eq mp out -> ()
     | r -> corr (Printf.sprintf "strip_near_equal<double> model=[%s] impl=[%s]" (show_res show_pathd r) (show_pathd out)));
    nontrivial := not (pathd_eq out p);
    snear_props_d p d c out;
    ""
  end

let show_pathsd ps = String.concat " " (string_of_int (List.length ps) :: List.map show_pathd ps)

(* Paths overloads: the model is the single-path model applied to every path; the equations are judged per path *)
let do_snears t =
  let d = next_f t in let c = next_bool t in let ps = read_paths t in
  let m = strip_near_equal_paths ps d c in
  if not (expect_eq t) then show_res show_paths m else begin
    let outs = read_paths t in
    (match m with
     | Ok mp when List.length mp = List.length outs && List.for_all2 peq mp outs -> ()
     | r -> corr (Printf.sprintf "strip_near_equal(Paths64) model=[%s] impl=[%s]" (show_res show_paths r) (show_paths outs)));
    nontrivial := true;
    if List.length outs <> List.length ps then prop "stripnear.paths-count" "Paths overload: number of paths changed"
    else List.iter2 (fun p out -> snear_props p d c out) ps outs;
    ""
  end

let do_snearsd t =
  let d = next_f t in let c = next_bool t in let ps = read_list read_pathd t in
  let m = strip_near_equal_paths_d ps d c in
  if not (expect_eq t) then show_res show_pathsd m else begin
    let outs = read_list read_pathd t in
    (match m with
     | Ok mp when List.length mp = List.length outs && List.for_all2 pathd_eq mp outs -> ()
     | r -> corr (Printf.sprintf "strip_near_equal(PathsD) model=[%s] impl=[%s]" (show_res show_pathsd r) (show_pathsd outs)));
    nontrivial := true;
    if List.length outs <> List.length ps then prop "stripnear.paths-count" "PathsD overload: number of paths changed"
    else List.iter2 (fun p out -> snear_props_d p d c out) ps outs;
    ""
  end

let do_bounds t =
  let p = read_path t in
  let (((l, tp), r), b) = get_bounds p in
  let show () = String.concat " " (List.map string_of_z [l; tp; r; b]) in
  if not (expect_eq t) then show () else begin
    let il = next_z t in let it = next_z t in let ir = next_z t in let ib = next_z t in
    if not (il = l && it = tp && ir = r && ib = b) then corr (Printf.sprintf "bounds model=%s" (show ()));
    nontrivial := plen p > 1;
    (match bbox_of p with
     | Some (((x0, y0), x1), y1) ->
       if not (il = x0 && it = y0 && ir = x1 && ib = y1) then
         prop "bounds.not-minmax" (Printf.sprintf "min/max=%s" (String.concat " " (List.map string_of_z [x0; y0; x1; y1])))
     | None -> ());
    ""
  end

let do_trans t =
  let dx = next_z t in let dy = next_z t in let p = read_path t in
  let m = translate_path p dx dy in
  if not (expect_eq t) then show_path m else begin
    let out = read_path t in
    if not (translate_ub_free p dx dy) then corr "generator error: translation overflows int64";
    cmp_path "translate" (Ok m) out;
    nontrivial := plen p > 0;
    if not (plen out = plen p && List.for_all2 (fun (x, y) (u, v) -> u = Z.add x dx && v = Z.add y dy) p out) then
      prop "translate.not-pointwise" "result is not the pointwise sum";
    ""
  end

let do_len t =
  let c = next_bool t in let p = read_path t in
  let m = path_length p c in
  if not (expect_eq t) then show_res show_f m else begin
    let il = next_f t in
    (match m with
     | Ok x when feq x il -> ()
     | r -> corr (Printf.sprintf "length model=%s impl=%s" (show_res show_f r) (show_f il)));
    nontrivial := plen p > 1;
    ""
  end

(* closeness to the ideal parametrisation, libm sin/cos of OCaml (sanity only; tolerance 0.5 rounding + drift) *)
let ell_close isint cx cy rx ry steps (pts : (float * float) list) =
  let n = List.length pts in
  if steps <= 0 || n <> steps then true else begin
    let th = 2.0 *. 3.141592653589793238 /. float_of_int steps in
    let ry = if ry <= 0.0 then rx else ry in
    let tol = (if isint then 0.5 else 0.0) +. 1e-9 *. (1.0 +. Float.abs cx +. Float.abs cy +. rx +. ry) *. float_of_int (steps + 1) in
    let ok = ref true in
    List.iteri (fun i (x, y) ->
        let ex = cx +. rx *. cos (float_of_int i *. th) and ey = cy +. ry *. sin (float_of_int i *. th) in
        if Float.abs (x -. ex) > tol || Float.abs (y -. ey) > tol then ok := false) pts;
    !ok
  end

let do_ell t =
  let c = read_pt t in let rx = next_f t in let ry = next_f t in let steps = next_z t in
  if not (expect_eq t) then
    (match ellipse_params rx ry steps with
     | None -> "none"
     | Some (_, s) -> string_of_z s ^ " " ^ show_f (ellipse_angle s))
  else begin
    let isteps = next_z t in let si = next_f t in let co = next_f t in let out = read_path t in
    (match ellipse_params rx ry steps with
     | None -> if out <> [] then corr "ellipse: model returns the empty path (radiusX <= 0)"
     | Some (_, s) ->
       if s <> isteps then corr (Printf.sprintf "ellipse steps model=%s harness=%s" (string_of_z s) (string_of_z isteps));
       let m = ellipse_i c rx ry steps si co in
       cmp_path "ellipse" (Ok m) out;
       nontrivial := plen out > 2;
       let tof z = BZ.to_float (bz_of_z z) in
       if not (ell_close true (tof (fst c)) (tof (snd c)) (Float64.to_float rx) (Float64.to_float ry) (int_of_z s)
                 (List.map (fun (x, y) -> (tof x, tof y)) out)) then
         prop "ellipse.off-curve" "a vertex is farther than rounding + drift tolerance from center + (rx cos(i t), ry sin(i t))");
    ""
  end

let do_elld t =
  let cx = next_f t in let cy = next_f t in let rx = next_f t in let ry = next_f t in let steps = next_z t in
  if not (expect_eq t) then "?" else begin
    let isteps = next_z t in let si = next_f t in let co = next_f t in let out = read_pathd t in
    (match ellipse_params rx ry steps with
     | None -> if out <> [] then corr "ellipse: model returns the empty path (radiusX <= 0)"
     | Some (_, s) ->
       if s <> isteps then corr (Printf.sprintf "ellipse steps model=%s harness=%s" (string_of_z s) (string_of_z isteps));
       let m = ellipse_d cx cy rx ry steps si co in
       if not (pathd_eq m out) then corr (Printf.sprintf "ellipseD model=[%s] impl=[%s]" (show_pathd m) (show_pathd out));
       nontrivial := List.length out > 2;
       let tf = Float64.to_float in
       if not (ell_close false (tf cx) (tf cy) (tf rx) (tf ry) (int_of_z s) (List.map (fun (x, y) -> (tf x, tf y)) out)) then
         prop "ellipse.off-curve" "a vertex is farther than the drift tolerance from center + (rx cos(i t), ry sin(i t))");
    ""
  end

let do_pd t =
  let p = read_pt t in let a = read_pt t in let b = read_pt t in
  let m = perp_d2 p a b in
  if not (expect_eq t) then show_f m else begin
    let i = next_f t in
    if not (feq m i) then corr (Printf.sprintf "perp_d2 model=%s impl=%s" (show_f m) (show_f i));
    nontrivial := true; ""
  end

let do_col t =
  let a = read_pt t in let s = read_pt t in let b = read_pt t in
  let m = is_collinear a s b in
  if not (expect_eq t) then show_bool m else begin
    let i = next_bool t in
    if m <> i then corr (Printf.sprintf "is_collinear model=%s impl=%s" (show_bool m) (show_bool i));
    if i <> (cross a s b = Z0) then prop "iscollinear.not-cross-zero" "IsCollinear differs from cross product = 0";
    nontrivial := true; ""
  end

let do_fself t =
  let a = next_f t in let b = next_f t in
  let m = [fadd a b; fsub a b; fmul a b; fdiv a b; fsqrt a] in
  if not (expect_eq t) then String.concat " " (List.map show_f m) else begin
    let i = List.map (fun _ -> next_f t) m in
    if not (List.for_all2 feq m i) then
      corr (Printf.sprintf "float self-test model=%s impl=%s" (String.concat " " (List.map show_f m)) (String.concat " " (List.map show_f i)));
    nontrivial := true; ""
  end

(* ---------- PathD / Paths overloads (models instantiated at Point<double>, compared bit for bit) ---------- *)
let read_pathsd t = read_list read_pathd t
let cmp_pathd name (m : (Float64.t * Float64.t) list res) impl =
  match m with
  | Ok mp when pathd_eq mp impl -> ()
  | r -> corr (Printf.sprintf "%s model=[%s] impl=[%s]" name (show_res show_pathd r) (show_pathd impl))
let cmp_list name eq show m impl =
  match m with
  | Ok mp when List.length mp = List.length impl && List.for_all2 eq mp impl -> ()
  | r -> corr (Printf.sprintf "%s model=[%s] impl=[%s]" name (show_res show r) (show impl))
let keeps_ends_d out p = match out, p with
  | [], [] -> true
  | a :: _, b :: _ -> ptd_eq a b && ptd_eq (last_of out) (last_of p)
  | _ -> false

let simp_props_d p eps c out =
  if not (sublist_d out p) then prop "simplify.not-subsequence" "PathD: result is not a subsequence of the input";
  if (not c) && List.length p >= 2 && not (keeps_ends_d out p) then prop "simplify.open-ends-lost" "PathD, open path: first/last vertex not kept";
  if not (simplify_fixed_d out eps c) then prop "simplify.removable-vertex-left" "PathD: a remaining vertex is within epsilon of the line through its neighbours"

let do_simpd t =
  let eps = next_f t in let c = next_bool t in let p = read_pathd t in
  let m = simplify_path_d p eps c in
  if not (expect_eq t) then show_res show_pathd m else begin
    let out = read_pathd t in
    cmp_pathd "simplify<double>" m out; nontrivial := not (pathd_eq out p); simp_props_d p eps c out; ""
  end

let do_simps t =
  let eps = next_f t in let c = next_bool t in let ps = read_paths t in
  let m = simplify_paths ps eps c in
  if not (expect_eq t) then show_res show_paths m else begin
    let outs = read_paths t in
    cmp_list "SimplifyPaths<int64>" peq show_paths m outs; nontrivial := true; ""
  end

let do_simpsd t =
  let eps = next_f t in let c = next_bool t in let ps = read_pathsd t in
  let m = simplify_paths_d ps eps c in
  if not (expect_eq t) then show_res show_pathsd m else begin
    let outs = read_pathsd t in
    cmp_list "SimplifyPaths<double>" pathd_eq show_pathsd m outs; nontrivial := true;
    if List.length outs = List.length ps then List.iter2 (fun p out -> simp_props_d p eps c out) ps outs;
    ""
  end

let do_rdpd t =
  let eps = next_f t in let p = read_pathd t in
  let m = rdp_path_d p eps in let mf = rdp_path_flags_d p eps in
  if not (expect_eq t) then show_res show_pathd m else begin
    let out = read_pathd t in let fl = read_flags t in
    cmp_pathd "rdp<double>" m out;
    (match mf with
     | Ok f when f = fl -> ()
     | r -> corr (Printf.sprintf "RDP<double> flags model=%s impl=%s" (show_res show_flags r) (show_flags fl)));
    nontrivial := not (pathd_eq out p);
    if not (sublist_d out p) then prop "rdp.not-subsequence" "PathD: result is not a subsequence of the input";
    if not (keeps_ends_d out p) then prop "rdp.ends-lost" "PathD: the result does not start/end at the input's first/last point";
    (match rdp_bad_d p fl eps with
     | [] -> ()
     | bad -> prop "rdp.bound" (Printf.sprintf "PathD: removed vertices %s are farther than epsilon from the line through their surviving neighbours (or have none)"
                (String.concat "," (List.map (fun n -> string_of_int (int_of_nat n)) bad))));
    ""
  end

let do_rdps t =
  let eps = next_f t in let ps = read_paths t in
  let m = rdp_paths ps eps in
  if not (expect_eq t) then show_res show_paths m else begin
    let outs = read_paths t in cmp_list "RamerDouglasPeucker(Paths64)" peq show_paths m outs; nontrivial := true; ""
  end

let do_rdpsd t =
  let eps = next_f t in let ps = read_pathsd t in
  let m = rdp_paths_d ps eps in
  if not (expect_eq t) then show_res show_pathsd m else begin
    let outs = read_pathsd t in cmp_list "RamerDouglasPeucker(PathsD)" pathd_eq show_pathsd m outs; nontrivial := true;
    if List.length outs = List.length ps then
      List.iter2 (fun p out -> if not (sublist_d out p && keeps_ends_d out p) then prop "rdp.ends-lost" "PathsD: not a subsequence that keeps both ends") ps outs;
    ""
  end

let do_transd t =
  let dx = next_f t in let dy = next_f t in let p = read_pathd t in
  let m = translate_path_d p dx dy in
  if not (expect_eq t) then show_pathd m else begin
    let out = read_pathd t in cmp_pathd "translate<double>" (Ok m) out; nontrivial := p <> [];
    if not (List.length out = List.length p && List.for_all2 (fun (x, y) (u, v) -> feq u (fadd x dx) && feq v (fadd y dy)) p out) then
      prop "translate.not-pointwise" "PathD: result is not the pointwise binary64 sum";
    ""
  end

let do_transs t =
  let dx = next_z t in let dy = next_z t in let ps = read_paths t in
  let m = List.map (fun p -> translate_path p dx dy) ps in
  if not (expect_eq t) then show_paths m else begin
    let outs = read_paths t in cmp_list "TranslatePaths<int64>" peq show_paths (Ok m) outs; nontrivial := true; ""
  end

let do_transsd t =
  let dx = next_f t in let dy = next_f t in let ps = read_pathsd t in
  let m = List.map (fun p -> translate_path_d p dx dy) ps in
  if not (expect_eq t) then show_pathsd m else begin
    let outs = read_pathsd t in cmp_list "TranslatePaths<double>" pathd_eq show_pathsd (Ok m) outs; nontrivial := true; ""
  end

let sdup_props_d p c out =
  if not (sublist_d out p) then prop "stripdup.not-subsequence" "PathD: result is not a subsequence";
  if not (adj_ok (fun a b -> not (ptd_eqb a b)) out) then prop "stripdup.adjacent-duplicate-left" "PathD: equal consecutive points remain";
  if c && List.length out > 1 && ptd_eqb (List.hd out) (last_of out) then prop "stripdup.closing-duplicate-left" "PathD, closed: last equals first";
  if not (List.for_all (fun q -> List.exists (ptd_eqb q) out) p) then prop "stripdup.point-lost" "PathD: a point value disappeared"

let do_sdupd t =
  let c = next_bool t in let p = read_pathd t in
  let m = strip_duplicates_d p c in
  if not (expect_eq t) then show_res show_pathd m else begin
    let out = read_pathd t in cmp_pathd "strip_duplicates<double>" m out; nontrivial := not (pathd_eq out p); sdup_props_d p c out; ""
  end

let do_sdupsd t =
  let c = next_bool t in let ps = read_pathsd t in
  let m = strip_duplicates_paths_d ps c in
  if not (expect_eq t) then show_res show_pathsd m else begin
    let outs = read_pathsd t in cmp_list "strip_duplicates(PathsD)" pathd_eq show_pathsd m outs; nontrivial := true;
    if List.length outs = List.length ps then List.iter2 (fun p out -> sdup_props_d p c out) ps outs;
    ""
  end

(* TrimCollinear(PathD, precision, open) = descale (TrimCollinear64 (round (path * scale))), scale = pow(10, precision) as reported *)
let pow10 = [| 1.0; 10.0; 100.0; 1000.0; 10000.0; 100000.0; 1000000.0; 10000000.0; 100000000.0 |]
let do_trimd t =
  let prec = next_int t in let o = next_bool t in let p = read_pathd t in
  if not (expect_eq t) then "?" else begin
    let scale = next_f t in let out = read_pathd t in
    if prec >= 0 && prec <= 8 && not (feq scale (Float64.of_float pow10.(prec))) then corr "TrimCollinear(PathD): pow(10, precision) is not the exact power of ten";
    if prec < 0 && prec >= -8 && Float.abs (Float64.to_float scale *. pow10.(-prec) -. 1.0) > 1e-15 then corr "TrimCollinear(PathD): pow(10, precision) is off";
    cmp_pathd "TrimCollinear(PathD)" (trim_collinear_d p scale o) out;
    nontrivial := not (pathd_eq out p);
    if o && List.length p >= 2 && List.length out < 2 then prop "trimd.open-ends-lost" "TrimCollinear(PathD), open path: fewer than two points returned";
    ""
  end

let do_ellr t =
  let l = next_z t in let tp = next_z t in let r = next_z t in let b = next_z t in let steps = next_z t in
  if not (expect_eq t) then "?" else begin
    let isteps = next_z t in let si = next_f t in let co = next_f t in let out = read_path t in
    let (rx, ry) = ellipse_rect_radii_i l tp r b in
    (match ellipse_params rx ry steps with
     | None -> if out <> [] then corr "Ellipse(Rect64): model returns the empty path (width <= 0)"
     | Some (_, s) ->
       if s <> isteps then corr (Printf.sprintf "Ellipse(Rect64) steps model=%s harness=%s" (string_of_z s) (string_of_z isteps));
       cmp_path "Ellipse(Rect64)" (Ok (ellipse_rect_i l tp r b steps si co)) out;
       nontrivial := plen out > 2);
    ""
  end

let do_ellrd t =
  let l = next_f t in let tp = next_f t in let r = next_f t in let b = next_f t in let steps = next_z t in
  if not (expect_eq t) then "?" else begin
    let isteps = next_z t in let si = next_f t in let co = next_f t in let out = read_pathd t in
    let (rx, ry) = ellipse_rect_radii_d l tp r b in
    (match ellipse_params rx ry steps with
     | None -> if out <> [] then corr "Ellipse(RectD): model returns the empty path (width <= 0)"
     | Some (_, s) ->
       if s <> isteps then corr (Printf.sprintf "Ellipse(RectD) steps model=%s harness=%s" (string_of_z s) (string_of_z isteps));
       cmp_pathd "Ellipse(RectD)" (Ok (ellipse_rect_d l tp r b steps si co)) out;
       nontrivial := List.length out > 2);
    ""
  end

let do_tfid t =
  let p = read_path t in
  if not (expect_eq t) then show_pathd (transform_path_id p) else begin
    let out = read_pathd t in cmp_pathd "TransformPath<double,int64>" (Ok (transform_path_id p)) out; nontrivial := p <> []; ""
  end
let do_tfdi t =
  let p = read_pathd t in
  if not (expect_eq t) then show_path (transform_path_di p) else begin
    let out = read_path t in cmp_path "TransformPath<int64,double>" (Ok (transform_path_di p)) out; nontrivial := p <> []; ""
  end
let do_tfids t =
  let ps = read_paths t in
  if not (expect_eq t) then "?" else begin
    let outs = read_pathsd t in cmp_list "TransformPaths<double,int64>" pathd_eq show_pathsd (Ok (List.map transform_path_id ps)) outs; nontrivial := true; ""
  end

let handle t =
  match next t with
  | "TRIM" -> do_trim t
  | "SIMP" -> do_simp t
  | "RDP" -> do_rdp t
  | "SDUP" -> do_sdup t
  | "SNEAR" -> do_snear t
  | "SNEARD" -> do_sneard t
  | "SNEARS" -> do_snears t
  | "SNEARSD" -> do_snearsd t
  | "SDUPS" -> do_sdups t
  | "SIMPD" -> do_simpd t | "SIMPS" -> do_simps t | "SIMPSD" -> do_simpsd t
  | "RDPD" -> do_rdpd t | "RDPS" -> do_rdps t | "RDPSD" -> do_rdpsd t
  | "TRANSD" -> do_transd t | "TRANSS" -> do_transs t | "TRANSSD" -> do_transsd t
  | "SDUPD" -> do_sdupd t | "SDUPSD" -> do_sdupsd t
  | "TRIMD" -> do_trimd t | "ELLR" -> do_ellr t | "ELLRD" -> do_ellrd t
  | "TFID" -> do_tfid t | "TFDI" -> do_tfdi t | "TFIDS" -> do_tfids t
  | "BOUNDS" -> do_bounds t
  | "TRANS" -> do_trans t
  | "LEN" -> do_len t
  | "ELL" -> do_ell t
  | "ELLD" -> do_elld t
  | "PD" -> do_pd t
  | "COL" -> do_col t
  | "FSELF" -> do_fself t
  | c -> corr ("unknown command " ^ c); ""

let () =
  let quiet = Array.length Sys.argv > 1 && Sys.argv.(1) = "-q" in
  let n = ref 0 and nt = ref 0 and nf = ref 0 in
  (try
     while true do
       let l = input_line stdin in
       items := []; nontrivial := false;
       let t = toks_of_line l in
       let isq = List.mem "=" (Array.to_list t.a) in
       let model_out =
         (try
            if Array.length t.a > 0 && List.mem "EXC" (Array.to_list t.a) then (corr "implementation raised an exception"; "")
            else handle t
          with e -> corr ("driver exception " ^ Printexc.to_string e); "") in
       incr n;
       if !nontrivial then incr nt;
       if not isq && !items = [] then (print_string model_out; print_char '\n')
       else if !items = [] then (if not quiet then (print_string ("OK " ^ show_bool !nontrivial); print_char '\n'))
       else begin
         incr nf;
         let s = "FAIL " ^ String.concat "|" (List.rev !items) in
         print_string (if quiet then s ^ " @@ " ^ l else s); print_char '\n'
       end
     done
   with End_of_file -> ());
  if quiet then Printf.printf "DONE %d %d %d\n" !n !nt !nf;
  flush stdout
