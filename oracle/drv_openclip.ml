(* C05 oracle driver (parsing/printing only; every decision is made by code extracted from
   coq/model/OpenClipSpec.v).  Commands, one per line (<paths> = npaths then per path n x y ...):
   GP <pathsS> <pathsC> <pathsO>
        -> "<general_position closed> <gp_open> <general_position_C05>"
   OPEN tn td m <pathsS> <pathsC> <pathsO> k (ct fr <pathsOpenSolution>)*k
        tolerances: vertices within tn/td, m units around a cut, m units of length per cut (the property: 3 2 3)
        -> "gp=0"                                         (closed paths not in general position, or a degenerate open polyline:
                                                           not judged, nothing else is computed)
         | "gp=1 const=<0|1> oself=1 segs=<n> pieces=<n>"  strict class (general_position_C05): run-based checks [check_open]
         | "gp=2 const=1 oself=0 segs=<n> pieces=<n>"      broad class (judged_broad only: open polylines near closed edges,
                                                           close crossings, fold-backs): robust pointwise checks
                                                           [check_open_robust]; L is always ok, K = robustly kept sample points
           then for each of the k solutions
           " | V n [x y] S n [x1 y1 x2 y2] E n [x1 y1 x2 y2] M n [ax ay bx by lo hi] L ok sollo solhi keptlo kepthi cuts K keptruns"
           V: solution vertices farther than 3/2 from every open subject segment (count, first one)
           S: solution segments without a single subject segment within 3/2 of both end points
           E: solution segments over a dropped part (beyond 3 units of a cut)
           M: kept runs not covered (subject segment, run parameters as decimals)
           L: length check verdict, enclosures of solution and kept length in units of 2^-32, number of cuts
           K: number of kept runs
   SPEC ct fr <pathsS> <pathsC> <pathsO>
        -> for each open segment "ax ay bx by : (lo hi kept locut hicut)*" (parameters as decimals)
   WNDIFF tn td <pathsA> <pathsB> <pts>
        -> "n [x y]": sample points farther than tn/td from every edge of A and B at which the winding numbers differ *)
module ZQ = Q
open M
open Zconv

let qf (q : M.q) : float = ZQ.to_float (ZQ.make (bz_of_z q.qnum) (bz_of_pos q.qden))
let show_seg ((a, b) : (z * z) * (z * z)) = show_pt a ^ " " ^ show_pt b
let first n show l = match l with [] -> string_of_int n | x :: _ -> string_of_int n ^ " " ^ show x

let show_report (r : report) =
  let nv = List.length r.rp_off_vertex and ns = List.length r.rp_off_seg
  and ne = List.length r.rp_extra and nm = List.length r.rp_missing in
  String.concat " " [
    "V"; first nv show_pt r.rp_off_vertex;
    "S"; first ns show_seg r.rp_off_seg;
    "E"; first ne show_seg r.rp_extra;
    "M"; first nm (fun (s, (ru : run)) -> Printf.sprintf "%s %.9f %.9f" (show_seg s) (qf ru.r_lo) (qf ru.r_hi)) r.rp_missing;
    "L"; show_bool r.rp_len_ok; string_of_z (fst r.rp_sol_len); string_of_z (snd r.rp_sol_len);
    string_of_z (fst r.rp_kept_len); string_of_z (snd r.rp_kept_len); string_of_z r.rp_cuts;
    "K"; string_of_z r.rp_kept_runs ]

let handle t =
  match next t with
  | "GP" -> let s = read_paths t in let c = read_paths t in let o = read_paths t in
      show_bool (general_position (s @ c)) ^ " " ^ show_bool (gp_open (s @ c) o) ^ " " ^ show_bool (general_position_C05 s c o)
  | "OPEN" -> let tn = next_z t in let td = next_z t in let m = next_z t in
      let tl = { tl_nn = tn; tl_nd = td; tl_m = m } in
      let s = read_paths t in let c = read_paths t in let o = read_paths t in
      let k = next_int t in
      let sols = List.init k (fun _ ->
        let ct = ct_of_Z (next_z t) in let fr = fr_of_Z (next_z t) in let sol = read_paths t in (ct, fr, sol)) in
      if not (judged_broad s c o) then "gp=0"
      else if general_position_C05 s c o then begin
        let sp = open_spec s c o in
        let np = List.fold_left (fun a (ss : sseg) -> a + List.length ss.ss_pieces) 0 sp in
        let head = Printf.sprintf "gp=1 const=%s oself=1 segs=%d pieces=%d" (show_bool (spec_consistent sp)) (List.length sp) np in
        String.concat " | " (head :: List.map (fun (ct, fr, sol) -> show_report (check_open tl ct fr sp sol)) sols)
      end else begin
        let smp = open_samples s c o in
        let np = List.fold_left (fun a (_, l) -> a + List.length l) 0 smp in
        let head = Printf.sprintf "gp=2 const=1 oself=0 segs=%d pieces=%d" (List.length smp) (np / 3) in
        String.concat " | " (head :: List.map (fun (ct, fr, sol) -> show_report (check_open_robust ct fr s c smp sol)) sols)
      end
  | "SPEC" -> let ct = ct_of_Z (next_z t) in let fr = fr_of_Z (next_z t) in
      let s = read_paths t in let c = read_paths t in let o = read_paths t in
      let sp = spec_runs ct fr (open_spec s c o) in
      String.concat " ; " (List.map (fun (sg, rs) ->
        show_seg sg ^ " : " ^ String.concat " " (List.map (fun (r : run) ->
          Printf.sprintf "(%.6f %.6f %s %s %s)" (qf r.r_lo) (qf r.r_hi) (show_bool r.r_kept) (show_bool r.r_locut) (show_bool r.r_hicut)) rs)) sp)
  | "WNDIFF" -> let tn = next_z t in let td = next_z t in
      let a = read_paths t in let b = read_paths t in let pts = read_path t in
      let l = wn_diff tn td a b pts in first (List.length l) show_pt l
  | c -> "ERR unknown command " ^ c

let () = main_loop handle
