(* AddNewIntersectNode model oracle.  Same line protocol as harness/cx_isectnode.cpp:
   ANI lo|hi b1x b1y t1x t1y b2x b2y t2x t2y bot_y top_y   -> "x y k"   (k = repair branch code, see model/IsectNode.v) *)
open M
open Zconv

let handle t =
  match next t with
  | "ANI" -> let v = next t in
      let b1 = read_pt t in let t1 = read_pt t in let b2 = read_pt t in let t2 = read_pt t in
      let by = next_z t in let ty = next_z t in
      let hi = (v = "hi") in
      show_pt (ani hi b1 t1 b2 t2 by ty) ^ " " ^ string_of_z (ani_kind hi b1 t1 b2 t2 by ty)
  | c -> "ERR unknown command " ^ c

let () = main_loop handle
