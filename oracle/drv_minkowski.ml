(* Minkowski oracle (C19): the extracted model of detail::Minkowski / Area, the specification list of
   parallelograms and the sampled region checker.  Parsing/printing only; every decision is extracted Coq.
   Commands (one per line; <path> = n x y ...; <paths> = npaths then per path n x y ...; doubles as hex floats):
   QUADS sum01 closed01 <pattern> <path>     -> OK <paths> | ERR oob|fuel      model of detail::Minkowski
   SPECQ sum01 closed01 <pattern> <path>     -> OK <paths>                     map orient4 (para_quads ...): the
                                                specification's parallelograms, oriented by the float Area
   UBFREE sum01 closed01 <pattern> <path>    -> 0/1                            no int64 overflow in the run
   AREA <path>                               -> OK <hex double> | ERR ..       model of Area<int64_t>(Path64)
   AREA2 <path>                              -> exact twice-area (Z)
   CHECK sum01 closed01 <pattern> <path> k tn td <outk> <ptsk>
        -> OK nfar ninside nfail nx {x y w ins}*(first 5 failures) | ERR ..
        pattern/path in original coordinates; outk (result paths), ptsk (sample points) and the tolerance tn/td in
        coordinates SCALED BY k (k = 2: half-integer sample points; k = 2*2^j: dyadic PathD results, exactly);
        nfar = sample points farther than the tolerance from every parallelogram edge, ninside = those strictly
        inside some parallelogram, failure = far point where the net winding w of the result is not [ins ? 1 : 0],
        nx = far points where the cross-product membership test and "some parallelogram has non-zero winding
        number" disagree (must be 0: consistency of the oracle itself)
   SCALE <scale> <pathD>                     -> OK <path> | UNDEF              Scale.scale_path scale scale
   DESCALE <inv> <paths>                     -> <pathsD>                       Scale.descale_paths inv inv
   POW10 p                                   -> hex double (correctly rounded 10^p), and inv_of of it *)
open M
open Zconv

let fl_of_string (s : string) : Float64.t =
  Float64.of_float (match String.lowercase_ascii s with
  | "nan" | "-nan" | "+nan" -> Float.nan
  | "inf" | "+inf" | "infinity" -> Float.infinity
  | "-inf" | "-infinity" -> Float.neg_infinity
  | _ -> float_of_string s)
let show_fl (f : Float64.t) : string =
  let f = Float64.to_float f in
  if Float.is_nan f then "nan" else if f = Float.infinity then "inf" else if f = Float.neg_infinity then "-inf"
  else Printf.sprintf "%h" f
let next_fl t = fl_of_string (next t)
let read_fpt t = let x = next_fl t in let y = next_fl t in (x, y)
let read_fpath t = read_list read_fpt t
let show_fpt (x, y) = show_fl x ^ " " ^ show_fl y
let show_fpath p = String.concat " " (string_of_int (List.length p) :: List.map show_fpt p)
let show_fpaths ps = String.concat " " (string_of_int (List.length ps) :: List.map show_fpath ps)
let show_err = function MOob -> "ERR oob" | MFuel -> "ERR fuel"
let rec int_of_nat = function O -> 0 | S n -> 1 + int_of_nat n
let rec take n = function [] -> [] | x :: r -> if n <= 0 then [] else x :: take (n - 1) r

let handle t =
  match next t with
  | "QUADS" -> let s = next_bool t in let c = next_bool t in let pat = read_path t in let p = read_path t in
      (match minkowski pat p s c with MOk q -> "OK " ^ show_paths q | MErr e -> show_err e)
  | "SPECQ" -> let s = next_bool t in let c = next_bool t in let pat = read_path t in let p = read_path t in
      "OK " ^ show_paths (List.map orient4 (para_quads s c pat p))
  | "UBFREE" -> let s = next_bool t in let c = next_bool t in let pat = read_path t in let p = read_path t in
      show_bool (minkowski_ub_free pat p s c)
  | "AREA" -> let p = read_path t in
      (match areaF p with MOk a -> "OK " ^ show_fl a | MErr e -> show_err e)
  | "AREA2" -> let p = read_path t in string_of_z (area2 p)
  | "CHECK" -> let s = next_bool t in let c = next_bool t in let pat = read_path t in let p = read_path t in
      let k = next_z t in let tn = next_z t in let td = next_z t in let outk = read_paths t in let ptsk = read_path t in
      (match check_minkowski pat p s c k tn td outk ptsk with
       | MOk ev ->
           let fails = mink_fails ev in
           String.concat " " (["OK"; string_of_int (List.length ev); string_of_int (List.length (mink_inside ev));
                               string_of_int (List.length fails); string_of_int (List.length (mink_xcheck pat p s c k ev))]
             @ List.map (fun ((q, w), ins) -> show_pt q ^ " " ^ string_of_z w ^ " " ^ show_bool ins) (take 5 fails))
       | MErr e -> show_err e)
  | "SCALE" -> let s = next_fl t in let p = read_fpath t in
      (match scale_path s s p with Some q -> "OK " ^ show_path q | None -> "UNDEF")
  | "DESCALE" -> let iv = next_fl t in let ps = read_paths t in show_fpaths (descale_paths iv iv ps)
  | "POW10" -> let p = next_z t in let s = pow10_spec p in show_fl s ^ " " ^ show_fl (inv_of s)
  | c -> "ERR unknown command " ^ c

let () = main_loop handle
