(* Oracle for C17: the extracted array-layout model (model/Export.v) and the forwarding / prologue
   evaluators over the translated table (gen/Gen_export.v).  Parsing and printing only.
   e = I (int64 elements) | F (double elements given as 64-bit patterns); D = values per vertex.
   <paths> = npaths then per path: n then n*D values.   <arr> = NULL | n then n values.
   <tree>  = C then C nodes, node = N C then N*D values then C nodes.
   ENC  e D <paths>  -> array written by the bounds-checked model of CreateCPathsFromPathsT (ERR on overflow)
   ENCN e D <paths>  -> same for the D creators (NULL for an empty set)
   ENCR e D <paths>  -> the documented layout as a caller builds it: every path an entry, empty ones as `0 0` (enc_paths_raw)
   DEC  e D <arr>    -> paths decoded by the checked model of ConvertCPathsToPathsT | NONE
   DECP e D <arr>    -> path decoded by the model of ConvertCPathToPathT | NONE
   ENCP e D <path>   -> the documented CPath layout
   ENCT e D <tree>   -> array of CreateCPolyTree64/D | NULL | ERR
   DECT e D <arr>    -> tree | NONE
   FWD               -> failing forwarding rows of the translated table: fn|key|callee;...  (empty = all ok)
   PRO z fn ct fr prec null rectempty -> PASS | INT k | NULL | UNKNOWN   and  OK/BAD for codes_ok_at *)
open M
open Zconv

let rec nat_of_int n = if n <= 0 then O else S (nat_of_int (n - 1))
let rec int_of_nat = function O -> 0 | S n -> 1 + int_of_nat n

let coq_string_of (s : String.t) : M.string =
  let n = String.length s in
  let rec go i = if i >= n then EmptyString else
    let c = Char.code s.[i] in
    let b k = (c lsr k) land 1 = 1 in
    String (Ascii (b 0, b 1, b 2, b 3, b 4, b 5, b 6, b 7), go (i + 1)) in
  go 0
let rec ocaml_string_of (s : M.string) : String.t =
  match s with
  | EmptyString -> ""
  | String (Ascii (b0, b1, b2, b3, b4, b5, b6, b7), r) ->
    let v b k = if b then 1 lsl k else 0 in
    let c = v b0 0 + v b1 1 + v b2 2 + v b3 3 + v b4 4 + v b5 5 + v b6 6 + v b7 7 in
    String.make 1 (Char.chr c) ^ ocaml_string_of r

type inst = { ofc : z -> z; toc : z -> z option }
let inst_of = function
  | "I" -> { ofc = ofc_i64; toc = toc_i64 }
  | "F" -> { ofc = ofc_f64; toc = toc_f64 }
  | s -> failwith ("bad element instance " ^ s)

let read_vertex d t = List.init d (fun _ -> next_z t)
let read_cpath d t = let n = next_int t in List.init n (fun _ -> read_vertex d t)
let read_cpaths d t = let n = next_int t in List.init n (fun _ -> read_cpath d t)
let read_arr t = if t.a.(t.i) = "NULL" then (t.i <- t.i + 1; None)
  else (let n = next_int t in Some (List.init n (fun _ -> next_z t)))
let rec read_node d t =
  let n = next_int t in let c = next_int t in
  let poly = List.init n (fun _ -> read_vertex d t) in
  let ch = List.init c (fun _ -> read_node d t) in
  PNode (poly, ch)
let read_tree d t = let c = next_int t in PNode ([], List.init c (fun _ -> read_node d t))

let show_arr a = String.concat " " (string_of_int (List.length a) :: List.map string_of_z a)
let show_cpath p = String.concat " " (string_of_int (List.length p) :: List.map string_of_z (List.concat p))
let show_cpaths ps = String.concat " " (string_of_int (List.length ps) :: List.map show_cpath ps)
let rec show_node (PNode (poly, ch)) =
  String.concat " " ((string_of_int (List.length poly) ^ " " ^ string_of_int (List.length ch))
                     :: (List.map string_of_z (List.concat poly)) @ List.map show_node ch)
let show_tree (PNode (_, ch)) = String.concat " " (string_of_int (List.length ch) :: List.map show_node ch)

let find_fn z name =
  let tbl = if z then table_z else table in
  List.find (fun f -> ocaml_string_of (f_name f) = name) tbl

let handle t =
  match next t with
  | "ENC" -> let i = inst_of (next t) in let d = next_int t in let ps = read_cpaths d t in
      (match enc_paths_buf i.ofc Z0 (nat_of_int d) ps with
       | Some (buf, cur) ->
         let pure = enc_paths i.ofc Z0 (nat_of_int d) ps in
         if int_of_nat cur <> List.length buf then "ERR cursor " ^ string_of_int (int_of_nat cur)
         else if buf <> pure then "ERR buffer-differs-from-layout"
         else show_arr buf
       | None -> "ERR overflow")
  | "ENCN" -> let i = inst_of (next t) in let d = next_int t in let ps = read_cpaths d t in
      (match enc_paths_d i.ofc Z0 (nat_of_int d) ps with None -> "NULL" | Some a -> show_arr a)
  | "ENCR" -> let i = inst_of (next t) in let d = next_int t in let ps = read_cpaths d t in
      show_arr (enc_paths_raw i.ofc Z0 ps)
  | "DEC" -> let i = inst_of (next t) in let d = next_int t in let a = read_arr t in
      (match dec_paths_opt i.toc (nat_of_int d) a with Some ps -> show_cpaths ps | None -> "NONE")
  | "DECP" -> let i = inst_of (next t) in let d = next_int t in let a = read_arr t in
      (match a with
       | None -> "0"
       | Some a -> (match dec_path i.toc (nat_of_int d) a with Some p -> show_cpath p | None -> "NONE"))
  | "ENCP" -> let i = inst_of (next t) in let d = next_int t in let p = read_cpath d t in
      show_arr (enc_path i.ofc Z0 p)
  | "ENCT" -> let i = inst_of (next t) in let d = next_int t in let tr = read_tree d t in
      (match enc_tree_buf i.ofc Z0 (nat_of_int d) tr with
       | None -> "ERR overflow"
       | Some None -> "NULL"
       | Some (Some (buf, cur)) ->
         if int_of_nat cur <> List.length buf then "ERR cursor " ^ string_of_int (int_of_nat cur)
         else (match enc_tree i.ofc (nat_of_int d) tr with
             | Some pure when pure = buf -> show_arr buf
             | _ -> "ERR buffer-differs-from-layout"))
  | "DECT" -> let i = inst_of (next t) in let d = next_int t in let a = read_arr t in
      (match dec_tree_opt i.toc (nat_of_int d) a with Some tr -> show_tree tr | None -> "NONE")
  | "FWD" ->
      let rows tag tbl = List.concat_map (fun f ->
          List.map (fun (k, c) -> tag ^ "|" ^ ocaml_string_of (f_name f) ^ "|" ^ ocaml_string_of k ^ "|" ^ ocaml_string_of c)
            (fwd_failures f)) tbl in
      String.concat ";" (rows "plain" table @ rows "z" table_z)
  | "PRO" -> let z = next_bool t in let name = next t in
      let ct = next_z t in let fr = next_z t in let prec = next_z t in
      let nul = next_bool t in let re = next_bool t in
      let f = find_fn z name in
      let en = { pe_int = (fun n -> let s = ocaml_string_of n in
                            if s = "cliptype" then ct else if s = "fillrule" then fr else prec);
                 pe_null = (fun _ -> nul); pe_rect_empty = (fun _ -> re) } in
      let r = (match run_prologue en (f_prologue f) with
          | PPass -> "PASS" | PRetInt k -> "INT " ^ string_of_z k | PRetNull -> "NULL" | PUnknown -> "UNKNOWN") in
      r ^ (if codes_ok_at f en then " OK" else " BAD")
  | c -> "ERR unknown command " ^ c

let () = main_loop handle
