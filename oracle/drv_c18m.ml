(* C18 model oracle: extracted hand models of PointInPolygon / Area (coq/model/Pip.v) and the translated
   GetSegmentIntersectPt (coq/gen/Gen_core.v).  Parsing/printing only; same line protocol as harness/cx_c18.cpp.
   PIP qx qy <path>            -> code    (0 IsOn 1 IsInside 2 IsOutside, -1 = model error: bounds / fuel)
   PIPG x0 y0 x1 y1 <path>     -> string of codes (E for the error value), y outer / x inner loop
   AREA <path> | AREAS <paths> -> hex double | ERR
   IS lo|hi a b c d ipx ipy    -> ret x y *)
open M
open Zconv

let show_float f = Printf.sprintf "%h" (Float64.to_float f)
let code r = let s = string_of_z (pip_code r) in if s = "-1" then "E" else s

let handle t =
  match next t with
  | "PIP" -> let q = read_pt t in let p = read_path t in string_of_z (pip_code (pointInPolygon q p))
  | "PIPG" -> let x0 = next_int t in let y0 = next_int t in let x1 = next_int t in let y1 = next_int t in
      let p = read_path t in
      let b = Buffer.create 128 in
      for y = y0 to y1 do for x = x0 to x1 do
        Buffer.add_string b (code (pointInPolygon (z_of_int x, z_of_int y) p))
      done done;
      Buffer.contents b
  | "AREA" -> let p = read_path t in (match area p with Some f -> show_float f | None -> "ERR")
  | "AREAS" -> let ps = read_paths t in (match areaPaths ps with Some f -> show_float f | None -> "ERR")
  | "IS" -> let v = next t in
      let a = read_pt t in let b = read_pt t in let c = read_pt t in let d = read_pt t in let ip = read_pt t in
      let (r, q) = (if v = "hi" then getSegmentIntersectPt_hi else getSegmentIntersectPt_lo) a b c d ip in
      show_bool r ^ " " ^ show_pt q
  | c -> "ERR unknown command " ^ c

let () = main_loop handle
