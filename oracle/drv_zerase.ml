(* C15 oracle: extracted Z-carrying kernel models (model/ZErase.v).  Same commands/formats as the z build of
   harness/cx_z.cpp: SETZ SPLITZ EQ STRIP TRANSL TRIM MINK.  Points are read as "x y z".  Parsing/printing only. *)
open M
open Zconv

let read_pt3 t = let x = next_z t in let y = next_z t in let z = next_z t in ((x, y), z)
let read_path3 t = read_list read_pt3 t
let show3 ((x, y), z) = string_of_z x ^ " " ^ string_of_z y ^ " " ^ string_of_z z
let show_xy p = String.concat " " (string_of_int (List.length p) :: List.map (fun (q, _) -> show_pt q) p)
let show_zs ps = String.concat "" (List.map (fun p -> String.concat "" (List.map (fun (_, z) -> " " ^ string_of_z z) p)) ps)
let out1 p = show_xy p ^ " Z" ^ show_zs [p]
let res f = function Ok a -> f a | ErrOOB -> "MODEL-OOB" | ErrFuel -> "MODEL-FUEL"

let handle t =
  match next t with
  | "SETZ" -> let t1 = next_bool t in let t2 = next_bool t in let cb = next_int t in let dz = next_z t in
      let b1 = read_pt3 t in let tp1 = read_pt3 t in let b2 = read_pt3 t in let tp2 = read_pt3 t in let ip = read_pt3 t in
      let log = ref "" and n = ref 0 in
      let f a b c d p = incr n;
        log := !log ^ " " ^ show3 a ^ " " ^ show3 b ^ " " ^ show3 c ^ " " ^ show3 d ^ " " ^ string_of_z (snd p);
        if cb = 1 then (fst p, z_of_int 777) else p in
      let r = set_z (if cb = 0 then None else Some f) dz { e_clip = t1; e_bot = b1; e_top = tp1 } { e_clip = t2; e_bot = b2; e_top = tp2 } ip in
      string_of_z (snd r) ^ " " ^ string_of_int !n ^ !log
  | "SPLITZ" -> (* SPLITZ cb <ring x y z ...> G ipx ipy ipz small keep  ->  K <ring|-1> N <ring|-1> L ncalls [4 pts, zin]* *)
      let cb = next_int t in let ring = read_path3 t in
      let _ = next t in let ip = read_pt3 t in let small = next_bool t in let keep = next_bool t in
      let log = ref "" and n = ref 0 in
      let f a b c d p = incr n;
        log := !log ^ " " ^ show3 a ^ " " ^ show3 b ^ " " ^ show3 c ^ " " ^ show3 d ^ " " ^ string_of_z (snd p);
        if cb = 1 then (fst p, z_of_int 777) else p in
      let show_ring = function None -> "-1" | Some r -> String.concat " " (string_of_int (List.length r) :: List.map show3 r) in
      (match do_split_op_z (if cb = 0 then None else Some f) ring { sg_ip = ip; sg_small = small; sg_keep = keep } with
       | None -> "MODEL-SHORT-RING"
       | Some (k, nw) -> "K " ^ show_ring k ^ " N " ^ show_ring nw ^ " L " ^ string_of_int !n ^ !log)
  | "EQ" -> let a = read_pt3 t in let b = read_pt3 t in
      let e = point_eqb3 a b in show_bool e ^ " " ^ show_bool (not e)
  | "STRIP" -> let closed = next_bool t in let p = read_path3 t in res out1 (strip_duplicates_z p closed)
  | "TRANSL" -> let dx = next_z t in let dy = next_z t in let p = read_path3 t in out1 (translate_path_z p dx dy)
  | "TRIM" -> let op = next_bool t in let p = read_path3 t in res out1 (trim_collinear_z p op)
  | "MINK" -> let sum = next_bool t in let closed = next_bool t in let pat = read_path3 t in let p = read_path3 t in
      res (fun qs -> String.concat " " (string_of_int (List.length qs) :: List.map show_xy qs) ^ " Z" ^ show_zs qs) (minkowski_z sum pat p closed)
  | c -> "ERR unknown command " ^ c

let () = main_loop handle
