(* Oracle for C16 / C11: the extracted scaling model (Scale.v) and error/wrapper model (ErrorModel.v).
   Parsing/printing only; every decision is made by extracted Coq code.  Doubles are hex floats.
   Commands (one per line):
   CHKLIBM 25 {p pow10 ilogb pow2 scaleD invD}*   -> OK | BAD <what>...   (libm table read from the implementation
                                                     against the correctly rounded decimal powers / exact ilogb)
   SELFTEST                                       -> OK | BAD ...         (scaleD_model pow10_spec = scaleD_spec on -8..8)
   ENTRY <exc01> <entry> <precision> <args>       -> <outcome> | DOM d RNG r      (args exactly as the harness' D line)
        outcome = OK <value> | THROWN <code> <ec> | CODE <code> <value>
        value   = EMPTY | INPUT | UNDEF | CALL <nsets> <paths>* <hasrect> [l t r b] <nfl> <fl>* <inv>
        d = 1 iff every input coordinate times the documented scale lies within +-2^52 (exact arithmetic)
        r = 1 iff ... within +-MAX_COORD
   DESCALE <inv> <nsets> <paths>*                 -> <pathsD>*            (Scale.descale_paths)
   K <exc01> <kernel> <args>                      -> THROW c ec | OK ec <result> | UB    (direct kernels)
   X <exc01> <export> <args>                      -> RC n | NULL | <outcome>
   ARITH a b z                                    -> a*b 1/a (double)z (double)z*b round_cast(a*b)|UB *)
open M
open Zconv

let fl_of_string (s : string) : Float64.t =
  Float64.of_float (match String.lowercase_ascii s with
  | "nan" | "-nan" | "+nan" -> Float.nan
  | "inf" | "+inf" | "infinity" -> Float.infinity
  | "-inf" | "-infinity" -> Float.neg_infinity
  | _ -> float_of_string s)
let show_fl (f : Float64.t) : string =
  let f = Float64.to_float f in
  if Float.is_nan f then "nan" else if f = Float.infinity then "inf" else if f = Float.neg_infinity then "-inf"
  else Printf.sprintf "%h" f
let next_fl t = fl_of_string (next t)
let read_fpt t = let x = next_fl t in let y = next_fl t in (x, y)
let read_fpath t = read_list read_fpt t
let read_fpaths t = read_list read_fpath t
let show_fpt (x, y) = show_fl x ^ " " ^ show_fl y
let show_fpath p = String.concat " " (string_of_int (List.length p) :: List.map show_fpt p)
let show_fpaths ps = String.concat " " (string_of_int (List.length ps) :: List.map show_fpath ps)
let same_bits (a : Float64.t) (b : Float64.t) =
  Int64.equal (Int64.bits_of_float (Float64.to_float a)) (Int64.bits_of_float (Float64.to_float b))
let first_or_empty = function [] -> [] | p :: _ -> p
let read_frect t = let l = next_fl t in let tp = next_fl t in let r = next_fl t in let b = next_fl t in (((l, tp), r), b)

let pow10 = pow10_spec

let show_value = function
  | VEmpty -> "EMPTY"
  | VInput -> "INPUT"
  | VUndef -> "UNDEF"
  | VCall c ->
      let rect = match c.c_rect with
        | None -> "0"
        | Some (((l, tp), r), b) -> String.concat " " ["1"; string_of_z l; string_of_z tp; string_of_z r; string_of_z b] in
      String.concat " "
        (["CALL"; string_of_int (List.length c.c_paths)] @ List.map show_paths c.c_paths @ [rect]
         @ [string_of_int (List.length c.c_fl)] @ List.map show_fl c.c_fl @ [show_fl c.c_inv])

let show_res (show : 'a -> string) (r : (z * 'a) res) : string =
  match r with
  | Throw (c, ec) -> "THROWN " ^ string_of_z c ^ " " ^ string_of_z ec
  | Val (ec, v) -> if int_of_z ec = 0 then "OK " ^ show v else "CODE " ^ string_of_z ec ^ " " ^ show v

let clamp_p p = let i = int_of_z p in if i > 8 then z_of_int 8 else if i < -8 then z_of_int (-8) else p

(* classification of the inputs w.r.t. the documented scale, and the call the property prescribes *)
let classify (s : Float64.t) (sets : fpaths list) (rect : frect option) : string =
  let extra = match rect with None -> [] | Some (((l, tp), r), b) -> [[(l, tp); (r, b)]] in
  let all = List.concat sets @ extra in
  " | DOM " ^ show_bool (in_domain_C16 s all) ^ " RNG " ^ show_bool (in_coord_range s all)
  ^ " GUARD " ^ show_bool (List.for_all (range_guard_check s s) sets)

let show_call c =
  let rect = match c.c_rect with
    | None -> "0"
    | Some (((l, tp), r), b) -> String.concat " " ["1"; string_of_z l; string_of_z tp; string_of_z r; string_of_z b] in
  String.concat " "
    (["CALL"; string_of_int (List.length c.c_paths)] @ List.map show_paths c.c_paths @ [rect]
     @ [string_of_int (List.length c.c_fl)] @ List.map show_fl c.c_fl @ [show_fl c.c_inv])

let spec k pc sets rect fls =
  " | SPEC " ^ (match spec_call k pc sets rect fls with Some c -> show_call c | None -> "NONE")

let entry exc t =
  let en = next t in
  let p = next_z t in
  let pc = clamp_p p in
  match en with
  | "clipperD" | "clipperD_tree" ->
      let _ct = next t and _fr = next t and _pc = next t and _rs = next t in
      let s = read_fpaths t in let o = read_fpaths t in let c = read_fpaths t in
      show_res show_value (clipperD_run exc pow10 p true true true s o c) ^ classify (scaleD_spec pc) [s; o; c] None
      ^ spec KPow2 pc [s; o; c] None []
  | "booleanop" | "booleanop_tree" | "intersect" | "union" | "difference" | "xor" ->
      if en = "booleanop" || en = "booleanop_tree" then ignore (next t);
      let _fr = next t in
      let s = read_fpaths t in let c = read_fpaths t in
      show_res show_value (booleanopD exc pow10 p s c) ^ classify (scaleD_spec pc) [s; c] None
      ^ spec KPow2 pc [s; []; c] None []
  | "union1" ->
      let _fr = next t in
      let s = read_fpaths t in
      show_res show_value (union1D exc pow10 p s) ^ classify (scaleD_spec pc) [s] None
      ^ spec KPow2 pc [s; []; []] None []
  | "inflate" ->
      let _jt = next t and _et = next t and _ml = next t in
      let delta = next_fl t in let arc = next_fl t in
      let ps = read_fpaths t in
      show_res show_value (inflateD exc pow10 p ps delta arc) ^ classify (pow10_spec pc) [ps] None
      ^ spec KDec pc [ps] None [delta; arc]
  | "rectclip" | "rectclip1" | "rectcliplines" | "rectcliplines1" ->
      let r = read_frect t in
      let ps = read_fpaths t in
      let ps' = if en = "rectclip1" || en = "rectcliplines1" then [first_or_empty ps] else ps in
      show_res show_value (rectclipD exc pow10 p r ps') ^ classify (pow10_spec pc) [ps'] (Some r)
      ^ spec KDec pc [ps'] (Some r) []
  | "minksum" | "minkdiff" ->
      let _closed = next t in
      let pat = first_or_empty (read_fpaths t) in let pth = first_or_empty (read_fpaths t) in
      show_res show_value (minkowskiD exc pow10 p pat pth) ^ classify (pow10_spec pc) [[pat]; [pth]] None
      ^ spec KDec pc [[pat]; [pth]] None []
  | "trim" ->
      let _open = next t in
      let pth = first_or_empty (read_fpaths t) in
      show_res show_value (trimcollinearD exc pow10 p pth) ^ classify (pow10_spec pc) [[pth]] None
      ^ spec KDec pc [[pth]] None []
  | _ -> "ERR unknown entry " ^ en

let kernel exc t =
  let k = next t in
  let opt_paths = function None -> "UB" | Some ps -> "P " ^ show_paths ps ^ " 0" in
  match k with
  | "scalepath" | "scalepaths" ->
      let sx = next_fl t in let sy = next_fl t in let ec = next_z t in let ps = read_fpaths t in
      if k = "scalepath" then
        (match scale_path_E exc sx sy (first_or_empty ps) ec with
         | Throw (c, e) -> "THROW " ^ string_of_z c ^ " " ^ string_of_z e
         | Val (None, e) -> "UB " ^ string_of_z e
         | Val (Some q, e) -> "OK " ^ string_of_z e ^ " -1 " ^ opt_paths (Some [q]))
      else
        (match scale_paths_E exc sx sy ps ec with
         | Throw (c, e) -> "THROW " ^ string_of_z c ^ " " ^ string_of_z e
         | Val (None, e) -> "UB " ^ string_of_z e
         | Val (Some q, e) -> "OK " ^ string_of_z e ^ " -1 " ^ opt_paths (Some q))
  | "descalepath" | "descalepaths" ->
      let sx = next_fl t in let sy = next_fl t in let ec = next_z t in let ps = read_paths t in
      if k = "descalepath" then
        (match descale_path_E exc sx sy (first_or_empty ps) ec with
         | Throw (c, e) -> "THROW " ^ string_of_z c ^ " " ^ string_of_z e
         | Val (q, e) -> "OK " ^ string_of_z e ^ " -1 P " ^ show_fpaths [q] ^ " 0")
      else
        (match descale_paths_E exc sx sy ps ec with
         | Throw (c, e) -> "THROW " ^ string_of_z c ^ " " ^ string_of_z e
         | Val (q, e) -> "OK " ^ string_of_z e ^ " -1 P " ^ show_fpaths q ^ " 0")
  | "scalerect" ->
      let s = next_fl t in let r = read_frect t in
      (match scale_rect s r with
       | None -> "UB -1"
       | Some (((l, tp), rr), b) -> String.concat " " ["OK -1 -1 R"; string_of_z l; string_of_z tp; string_of_z rr; string_of_z b])
  | "point" ->
      let x = next_fl t in let y = next_fl t in
      (match round_cast x, round_cast y with
       | Some a, Some b -> "OK -1 -1 P 1 1 " ^ string_of_z a ^ " " ^ string_of_z b ^ " 0"
       | _, _ -> "UB -1")
  | "polypathd" ->
      let s = next_fl t in let ps = read_paths t in
      (match polypathD_child exc s (first_or_empty ps) with
       | Throw (c, _) -> "THROW " ^ string_of_z c ^ " -1"
       | Val (_, q) -> "OK -1 -1 P " ^ show_fpaths [q] ^ " 0")
  | "cpr" ->
      let p = next_z t in let ec = next_z t in
      (match check_precision_range exc p ec with
       | Throw (c, e) -> "THROW " ^ string_of_z c ^ " " ^ string_of_z e
       | Val (p', e) -> "OK " ^ string_of_z e ^ " " ^ string_of_z p')
  | "makepath" ->
      let vals = read_list next_z t in
      (match make_path exc vals with
       | Throw (c, _) -> "THROW " ^ string_of_z c ^ " -1"
       | Val q -> "OK -1 -1 P " ^ show_paths [q] ^ " 0")
  | _ -> "ERR unknown kernel " ^ k

let export exc t =
  let x = next t in
  match x with
  | "BooleanOp64" | "BooleanOp_PolyTree64" ->
      let ct = next_z t in let fr = next_z t in
      (match export_booleanop64_pre ct fr with Some rc -> "RC " ^ string_of_z rc | None -> "GO")
  | "BooleanOpD" | "BooleanOp_PolyTreeD" ->
      let ct = next_z t in let fr = next_z t in let p = next_z t in
      let s = read_fpaths t in let o = read_fpaths t in let c = read_fpaths t in
      (match export_booleanopD exc pow10 ct fr p s o c with
       | Inr rc -> "RC " ^ string_of_z rc
       | Inl r -> show_res show_value r ^ classify (scaleD_spec (clamp_p p)) [s; o; c] None)
  | "InflatePathsD" | "InflatePathD" ->
      let p = next_z t in
      let _jt = next t and _et = next t and _ml = next t in
      let delta = next_fl t in let arc = next_fl t in
      let ps = read_fpaths t in
      let ps = if x = "InflatePathD" then [first_or_empty ps] else ps in
      (match export_inflateD pow10 p ps delta arc with
       | Inr () -> "NULL"
       | Inl r -> show_res show_value r ^ classify (pow10_spec (clamp_p p)) [ps] None)
  | "RectClipD" | "RectClipLinesD" ->
      let p = next_z t in let r = read_frect t in let ps = read_fpaths t in
      (match export_rectD pow10 p r ps with
       | Inr () -> "NULL"
       | Inl rr -> show_res show_value rr ^ classify (pow10_spec (clamp_p p)) [ps] (Some r))
  | _ -> "ERR unknown export " ^ x

let chklibm t =
  let n = next_int t in
  let bad = ref [] in
  let note p what = bad := (Printf.sprintf "p=%d:%s" p what) :: !bad in
  for _ = 1 to n do
    let p = next_int t in
    let pz = z_of_int p in
    let pw = next_fl t in
    let il = next_int t in
    let p2 = next_fl t in
    let sd = next t in let iv = next t in
    let spec = pow10_spec pz in
    if not (same_bits pw spec) then note p (Printf.sprintf "pow(10,p)=%s-but-correctly-rounded=%s" (show_fl pw) (show_fl spec));
    if il <> int_of_z (ilogb_model spec) then note p (Printf.sprintf "ilogb=%d-expected=%d" il (int_of_z (ilogb_model spec)));
    if not (same_bits p2 (pow2f (z_of_int (il + 1)))) then note p (Printf.sprintf "pow(2,%d)=%s-inexact" (il + 1) (show_fl p2));
    if sd <> "-" then begin
      let sd = fl_of_string sd and iv = fl_of_string iv in
      let want = scaleD_spec pz in
      if not (same_bits sd want) then note p (Printf.sprintf "ClipperD.scale_=%s-but-smallest-power-of-two-above-10^p=%s" (show_fl sd) (show_fl want));
      if not (same_bits iv (inv_of want)) then note p (Printf.sprintf "ClipperD.invScale_=%s-expected=%s" (show_fl iv) (show_fl (inv_of want)))
    end
  done;
  if !bad = [] then "OK" else "BAD " ^ String.concat " " (List.rev !bad)

let selftest () =
  let bad = ref [] in
  for p = -8 to 8 do
    let pz = z_of_int p in
    if not (same_bits (scaleD_model pow10_spec pz) (scaleD_spec pz)) then bad := string_of_int p :: !bad
  done;
  if !bad = [] then "OK" else "BAD scaleD_model<>scaleD_spec at " ^ String.concat "," !bad

let handle t =
  match next t with
  | "ENTRY" -> let exc = next_bool t in entry exc t
  | "DESCALE" ->
      let inv = next_fl t in
      let sets = read_list read_paths t in
      String.concat " " (List.map (fun ps -> show_fpaths (descale_paths inv inv ps)) sets)
  | "K" -> let exc = next_bool t in kernel exc t
  | "X" -> let exc = next_bool t in export exc t
  | "CHKLIBM" -> chklibm t
  | "SELFTEST" -> selftest ()
  | "ARITH" ->
      let a = next_fl t in let b = next_fl t in let z = next_z t in
      let prod = Float64.mul a b in
      String.concat " " ["A"; show_fl prod; show_fl (Float64.div (Float64.of_float 1.0) a); show_fl (z2F z); show_fl (descale_coord b z);
                         (match round_cast prod with Some r -> string_of_z r | None -> "UB")]
  | c -> "ERR unknown command " ^ c

let () = main_loop handle
