(* C13 oracle: extracted model of AddPaths_/LocMinSorter/stable_sort (model/LocMin.v) and the Coq-defined
   comparison of solution regions (proofs/SpecAlgebra.v).  Parsing/printing only.
   ADD1 <path>            -> "NONE" | "R n (x y flags)*n M k idx*k"      (same format as harness/cx_locmin ADD1)
   SORTED <pathsS> <pathsC> -> "k (x y isclip n (x y flags)*n)*k"         minima after AddSubject, AddClip, Reset
   REL tn td <pathsS> <pathsC> <pts> nrel rel*      all coordinates as given (the caller doubles them)
        rel = X <X> <U> <I>           Xor = Union minus Intersection
            | P <D> <I> <Sb>          Difference (+) Intersection = subject region
            | M kind a b <out> <out'> out' = solution of the mapped input; kind 0 translate (a,b) 1 transpose
                                      2 mirror x 3 mirror y 4 scale a
        -> "<nfar>" then per rel "| nbad x y" (first bad sample point) *)
open M
open Zconv

let rec int_of_nat = function O -> 0 | S n -> 1 + int_of_nat n

let show_ring r =
  String.concat " " (string_of_int (List.length r) ::
    List.map (fun (p, f) -> show_pt p ^ " " ^ string_of_z (flags_code f)) r)

let handle t =
  match next t with
  | "ADD1" -> let p = read_path t in
      (match add_path p with
       | NotLinked -> "NONE"
       | Ring (r, ms) ->
         "R " ^ show_ring r ^ " M " ^
         String.concat " " (string_of_int (List.length ms) :: List.map (fun i -> string_of_int (int_of_nat i)) ms))
  | "SORTED" -> let s = read_paths t in let c = read_paths t in
      let l = sorted_minima s c in
      String.concat " " (string_of_int (List.length l) ::
        List.map (fun m -> show_pt m.lm_pt ^ " " ^ show_bool m.lm_clip ^ " " ^ show_ring m.lm_ring) l)
  | "REL" -> let tn = next_z t in let td = next_z t in
      let s = read_paths t in let c = read_paths t in let pts = read_path t in
      let far = far_pts s c tn td pts in
      let k = next_int t in
      let show = function [] -> "| 0" | (q :: _) as l -> "| " ^ string_of_int (List.length l) ^ " " ^ show_pt q in
      let res = List.init k (fun _ ->
        match next t with
        | "X" -> let x = read_paths t in let u = read_paths t in let i = read_paths t in show (bad_xor far x u i)
        | "P" -> let d = read_paths t in let i = read_paths t in let sb = read_paths t in show (bad_partition far d i sb)
        | "M" -> let kind = next_int t in let a = next_z t in let b = next_z t in
            let m = (match kind with 0 -> MTranslate (a, b) | 1 -> MTranspose | 2 -> MMirrorX | 3 -> MMirrorY | _ -> MScale a) in
            let o = read_paths t in let o' = read_paths t in show (bad_map m far o o')
        | r -> failwith ("unknown relation " ^ r)) in
      String.concat " " (string_of_int (List.length far) :: res)
  | c -> "ERR unknown command " ^ c

let () = main_loop handle
