(* Region oracle: exact winding numbers, specification membership and distance tests.
   Commands (one per line; <paths> = npaths then per path n x y ...; <pts> = n x y ...):
   WN <paths> <pts>                      -> winding number of the path set at each point
   ONP <paths> <pts>                     -> 1 if the point lies on an edge of a closed path
   FAR tn td closed01 <paths> <pts>      -> 1 if dist(point, every edge) >= tn/td
   NEAR tn td closed01 <paths> <pts>     -> 1 if dist(point, some edge) <= tn/td
   SPEC ct fr <pathsS> <pathsC> <pts>    -> 1 if the point is in the specified result region
   AREA2 <paths>                         -> twice the signed area
   MIND2 closed01 <paths> <pts>          -> num/den of the minimum squared distance
   GENPOS <paths>                        -> 1 if the closed path set is in general position (base/GenPos.v)
   REGION tn td <pathsS> <pathsC> <pts> k (ct fr rev <pathsOut>)*k
        -> "<nfar>" then per solution "| nbad x y" (first failing sample point, if any); all coordinates
           as given (the caller doubles them to express half-integer sample points) *)
open M
open Zconv

let flags f pts = String.concat " " (List.map (fun q -> show_bool (f q)) pts)

let handle t =
  match next t with
  | "WN" -> let ps = read_paths t in let pts = read_path t in
      String.concat " " (List.map (fun q -> string_of_z (wn_paths ps q)) pts)
  | "ONP" -> let ps = read_paths t in let pts = read_path t in flags (on_paths ps) pts
  | "FAR" -> let tn = next_z t in let td = next_z t in let c = next_bool t in
      let ps = read_paths t in let pts = read_path t in
      let es = if c then edges_closed ps else edges_open ps in flags (far_from tn td es) pts
  | "NEAR" -> let tn = next_z t in let td = next_z t in let c = next_bool t in
      let ps = read_paths t in let pts = read_path t in
      let es = if c then edges_closed ps else edges_open ps in flags (near_some tn td es) pts
  | "SPEC" -> let ct = ct_of_Z (next_z t) in let fr = fr_of_Z (next_z t) in
      let s = read_paths t in let c = read_paths t in let pts = read_path t in
      flags (spec_closed ct fr s c) pts
  | "AREA2" -> let ps = read_paths t in string_of_z (area2_paths ps)
  | "MIND2" -> let c = next_bool t in let ps = read_paths t in let pts = read_path t in
      let es = if c then edges_closed ps else edges_open ps in
      String.concat " " (List.map (fun q -> match min_dist2 es q with
         | None -> "inf" | Some (n, d) -> string_of_z n ^ "/" ^ string_of_z d) pts)
  | "GENPOS" -> let ps = read_paths t in show_bool (general_position ps)
  | "REGION" -> let tn = next_z t in let td = next_z t in
      let s = read_paths t in let c = read_paths t in let pts = read_path t in
      let pr = prep s c tn td pts in
      let k = next_int t in
      let res = List.init k (fun _ ->
        let ct = ct_of_Z (next_z t) in let fr = fr_of_Z (next_z t) in let rev = next_bool t in
        let out = read_paths t in
        match check_prep ct fr rev pr out with
        | [] -> "| 0"
        | (q :: _) as l -> "| " ^ string_of_int (List.length l) ^ " " ^ show_pt q) in
      String.concat " " (string_of_int (List.length pr) :: res)
  | c -> "ERR unknown command " ^ c

let () = main_loop handle
