(* Driver for the extracted model/VertexAlloc.v (C10).  Parsing/printing only.
   AP <is_open 0|1> <paths>
     -> "A <total> <consumed> (x y next prev)*total"     next/prev: slot index or -1 (nullptr); same format as
                                                          harness/cx_addpaths.cpp
      | "A 0 0"                                           nothing allocated (total_vertex_count == 0)
      | "OOB"                                             the bounds-checked model left the array *)
open M
open Zconv

let rec int_of_nat = function O -> 0 | S n -> 1 + int_of_nat n
let show_idx = function None -> "-1" | Some i -> string_of_int (int_of_nat i)

let handle t =
  match next t with
  | "AP" ->
    let is_open = next_bool t in
    let ps = read_paths t in
    (match add_paths_alloc is_open ps with
     | None -> "OOB"
     | Some (a, v) ->
       String.concat " " (("A " ^ string_of_int (List.length a) ^ " " ^ string_of_int (int_of_nat v)) ::
         List.map (fun s -> show_pt s.s_pt ^ " " ^ show_idx s.s_next ^ " " ^ show_idx s.s_prev) a))
  | c -> "ERR unknown command " ^ c

let () = main_loop handle
