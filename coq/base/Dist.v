(* Exact squared distance from a point to a segment, as a rational num/den (den > 0),
   and tolerance comparisons without square roots. *)
From Clip Require Import base.Geom.
Local Open Scope Z_scope.

Definition sq (z : Z) : Z := z * z.
Definition dist2_pp (a b : pt) : Z := sq (px a - px b) + sq (py a - py b).

(* (num, den) with den > 0 *)
Definition dist2_pt_seg (q : pt) (e : pt * pt) : Z * Z :=
  let (a, b) := e in
  let L := dist2_pp a b in
  let t := (px q - px a) * (px b - px a) + (py q - py a) * (py b - py a) in
  if L =? 0 then (dist2_pp q a, 1)
  else if t <=? 0 then (dist2_pp q a, 1)
  else if L <=? t then (dist2_pp q b, 1)
  else (sq (cross a b q), L).

Lemma dist2_den_pos q e : 0 < snd (dist2_pt_seg q e).
Proof.
  destruct e as [a b]; unfold dist2_pt_seg; cbv zeta.
  destruct (dist2_pp a b =? 0) eqn:E0; [cbn [snd]; lia|].
  apply Z.eqb_neq in E0.
  repeat match goal with |- context [if ?c then _ else _] => destruct c end; cbn [snd]; try lia.
  unfold dist2_pp, sq in *.
  pose proof (Z.square_nonneg (px a - px b)). pose proof (Z.square_nonneg (py a - py b)). lia.
Qed.

Lemma sq_nonneg z : 0 <= sq z.
Proof. apply Z.square_nonneg. Qed.

Lemma dist2_num_nonneg q e : 0 <= fst (dist2_pt_seg q e).
Proof.
  destruct e as [a b]; unfold dist2_pt_seg; cbv zeta.
  repeat match goal with |- context [if ?c then _ else _] => destruct c end; cbn [fst];
  unfold dist2_pp; repeat match goal with |- context [sq ?z] => pose proof (sq_nonneg z); generalize dependent (sq z); intros end; lia.
Qed.

(* dist(q, e) >= tn/td  (tn >= 0, td > 0) *)
Definition seg_far (tn td : Z) (q : pt) (e : pt * pt) : bool :=
  let (n, d) := dist2_pt_seg q e in sq tn * d <=? n * sq td.

(* dist(q, e) <= tn/td *)
Definition seg_near (tn td : Z) (q : pt) (e : pt * pt) : bool :=
  let (n, d) := dist2_pt_seg q e in n * sq td <=? sq tn * d.

Definition far_from (tn td : Z) (es : list (pt * pt)) (q : pt) : bool := forallb (seg_far tn td q) es.
Definition near_some (tn td : Z) (es : list (pt * pt)) (q : pt) : bool := existsb (seg_near tn td q) es.

Definition edges_closed (ps : paths) : list (pt * pt) := flat_map cyc_edges ps.
Definition edges_open (ps : paths) : list (pt * pt) := flat_map open_edges ps.

(* minimum squared distance to a list of edges (as a rational), None for no edges *)
Definition qle (x y : Z * Z) : bool := fst x * snd y <=? fst y * snd x.
Definition min_dist2 (es : list (pt * pt)) (q : pt) : option (Z * Z) :=
  fold_left (fun acc e => let d := dist2_pt_seg q e in
                          match acc with None => Some d | Some m => if qle d m then Some d else Some m end)
            es None.
