(* Fill rules, clip types and the specification region of a boolean operation. *)
From Clip Require Import base.Geom base.Winding.
Local Open Scope Z_scope.

Inductive fill_rule := EvenOdd | NonZero | Positive | Negative.
Inductive clip_type := NoClip | Intersection | Union | Difference | Xor.

Definition inside (fr : fill_rule) (w : Z) : bool :=
  match fr with
  | EvenOdd => Z.odd w
  | NonZero => negb (w =? 0)
  | Positive => 0 <? w
  | Negative => w <? 0
  end.

Definition combine_ct (ct : clip_type) (a b : bool) : bool :=
  match ct with
  | NoClip => false
  | Intersection => a && b
  | Union => a || b
  | Difference => a && negb b
  | Xor => xorb a b
  end.

Definition in_result (ct : clip_type) (fr : fill_rule) (wS wC : Z) : bool :=
  combine_ct ct (inside fr wS) (inside fr wC).

(* where an open subject path survives, given the closed-subject and clip winding numbers *)
Definition open_in_result (ct : clip_type) (fr : fill_rule) (wS wC : Z) : bool :=
  match ct with
  | NoClip => false
  | Intersection => inside fr wC
  | Union => negb (inside fr wS) && negb (inside fr wC)
  | Difference | Xor => negb (inside fr wC)
  end.

Definition spec_closed (ct : clip_type) (fr : fill_rule) (S C : paths) (q : pt) : bool :=
  in_result ct fr (wn_paths S q) (wn_paths C q).

Definition fill_rule_eqb (a b : fill_rule) : bool :=
  match a, b with
  | EvenOdd, EvenOdd | NonZero, NonZero | Positive, Positive | Negative, Negative => true
  | _, _ => false
  end.

Definition fr_of_Z (z : Z) : fill_rule :=
  if z =? 0 then EvenOdd else if z =? 1 then NonZero else if z =? 2 then Positive else Negative.
Definition ct_of_Z (z : Z) : clip_type :=
  if z =? 0 then NoClip else if z =? 1 then Intersection else if z =? 2 then Union
  else if z =? 3 then Difference else Xor.

(* ---------- algebra of the specification (pointwise) ---------- *)

Lemma spec_xor fr wS wC :
  in_result Xor fr wS wC = in_result Union fr wS wC && negb (in_result Intersection fr wS wC).
Proof. unfold in_result, combine_ct. destruct (inside fr wS), (inside fr wC); reflexivity. Qed.

Lemma spec_partition fr wS wC :
  xorb (in_result Difference fr wS wC) (in_result Intersection fr wS wC) = inside fr wS
  /\ in_result Difference fr wS wC && in_result Intersection fr wS wC = false.
Proof. unfold in_result, combine_ct. destruct (inside fr wS), (inside fr wC); split; reflexivity. Qed.

Lemma spec_swap ct fr wS wC : ct = Intersection \/ ct = Union \/ ct = Xor ->
  in_result ct fr wS wC = in_result ct fr wC wS.
Proof.
  intros [-> | [-> | ->]]; unfold in_result, combine_ct;
  destruct (inside fr wS), (inside fr wC); reflexivity.
Qed.

Definition flip_fr (fr : fill_rule) : fill_rule :=
  match fr with Positive => Negative | Negative => Positive | x => x end.

Lemma inside_neg fr w : inside fr (- w) = inside (flip_fr fr) w.
Proof.
  destruct fr; unfold inside, flip_fr.
  - rewrite Z.odd_opp. reflexivity.
  - f_equal. destruct (w =? 0) eqn:E1, (- w =? 0) eqn:E2; lia.
  - destruct (0 <? - w) eqn:E1, (w <? 0) eqn:E2; lia.
  - destruct (- w <? 0) eqn:E1, (0 <? w) eqn:E2; lia.
Qed.

Lemma spec_reverse ct fr wS wC :
  in_result ct fr (- wS) (- wC) = in_result ct (flip_fr fr) wS wC.
Proof. unfold in_result. rewrite !inside_neg. reflexivity. Qed.
