(* Winding number by ray casting (half-open rule), defined only through [cross].
   No Jordan curve theorem is used anywhere: properties are stated in terms of [wn]. *)
From Clip Require Import base.Geom.
From Coq Require Import Permutation.
Local Open Scope Z_scope.

(* Contribution of the directed edge a->b to the winding number around q. *)
Definition edge_w (q : pt) (e : pt * pt) : Z :=
  let (a, b) := e in
  if (py a <=? py q) && (py q <? py b) then (if 0 <? cross a b q then 1 else 0)
  else if (py b <=? py q) && (py q <? py a) then (if cross a b q <? 0 then -1 else 0)
  else 0.

Definition wsum (q : pt) (es : list (pt * pt)) : Z := zsum (map (edge_w q) es).

Definition wn (p : path) (q : pt) : Z := wsum q (cyc_edges p).

Definition wn_paths (ps : paths) (q : pt) : Z := zsum (map (fun p => wn p q) ps).

(* q lies on the closed segment a-b *)
Definition on_seg (q : pt) (e : pt * pt) : bool :=
  let (a, b) := e in
  (cross a b q =? 0)
  && (Z.min (px a) (px b) <=? px q) && (px q <=? Z.max (px a) (px b))
  && (Z.min (py a) (py b) <=? py q) && (py q <=? Z.max (py a) (py b)).

Definition on_path (p : path) (q : pt) : bool := existsb (on_seg q) (cyc_edges p).
Definition on_paths (ps : paths) (q : pt) : bool := existsb (fun p => on_path p q) ps.

(* ---------- laws ---------- *)

Definition eswap (e : pt * pt) : pt * pt := (snd e, fst e).

Lemma edge_w_swap q e : edge_w q (eswap e) = - edge_w q e.
Proof.
  destruct e as [a b]; unfold edge_w, eswap; cbn [fst snd].
  rewrite (cross_swap12 a b q).
  destruct (py a <=? py q) eqn:E1, (py q <? py b) eqn:E2,
           (py b <=? py q) eqn:E3, (py q <? py a) eqn:E4; cbn [andb]; try lia;
  destruct (0 <? cross a b q) eqn:E5; destruct (cross a b q <? 0) eqn:E6;
  destruct (- cross a b q <? 0) eqn:E7; destruct (0 <? - cross a b q) eqn:E8; lia.
Qed.

Lemma wsum_app q l1 l2 : wsum q (l1 ++ l2) = wsum q l1 + wsum q l2.
Proof. unfold wsum. rewrite map_app, zsum_app. reflexivity. Qed.

Lemma wsum_rev q l : wsum q (rev l) = wsum q l.
Proof. unfold wsum. rewrite map_rev, zsum_rev. reflexivity. Qed.

Lemma wsum_swap q l : wsum q (map eswap l) = - wsum q l.
Proof.
  unfold wsum. rewrite map_map. rewrite <- zsum_map_opp.
  apply zsum_map_ext. intros e _. apply edge_w_swap.
Qed.

Lemma wsum_perm q l l' : Permutation l l' -> wsum q l = wsum q l'.
Proof.
  unfold wsum. induction 1; cbn [map zsum] in *; lia.
Qed.

Lemma wn_rot1 a t q : wn (t ++ [a]) q = wn (a :: t) q.
Proof.
  unfold wn. destruct t as [|b t]; [reflexivity|].
  assert (cyc_edges ((b :: t) ++ [a]) = open_edges ((b :: t) ++ [a; b])) as ->.
  { cbn [app cyc_edges]. rewrite <- app_assoc. reflexivity. }
  rewrite open_edges_snoc.
  assert (cyc_edges (a :: b :: t) = (a, b) :: open_edges ((b :: t) ++ [a])) as -> by reflexivity.
  rewrite wsum_app. unfold wsum. cbn [map zsum]. lia.
Qed.

Fixpoint rotl {A} (k : nat) (l : list A) : list A :=
  match k, l with
  | O, _ => l
  | S k', [] => []
  | S k', a :: t => rotl k' (t ++ [a])
  end.

Theorem wn_rotate k p q : wn (rotl k p) q = wn p q.
Proof.
  revert p; induction k as [|k IH]; intros p; [reflexivity|].
  destruct p as [|a t]; [reflexivity|]. cbn [rotl]. rewrite IH. apply wn_rot1.
Qed.

Lemma open_edges_rev l : open_edges (rev l) = map eswap (rev (open_edges l)).
Proof.
  induction l as [|a l IH]; [reflexivity|].
  destruct l as [|b l]; [reflexivity|].
  cbn [rev] in *. rewrite <- app_assoc. cbn [app].
  rewrite open_edges_snoc. rewrite IH.
  cbn [open_edges rev]. rewrite !map_app. reflexivity.
Qed.

Theorem wn_rev p q : wn (rev p) q = - wn p q.
Proof.
  destruct p as [|a t]; [reflexivity|].
  cbn [rev]. rewrite wn_rot1.
  unfold wn. 
  assert (cyc_edges (a :: rev t) = open_edges (rev ((a :: t) ++ [a]))) as ->.
  { rewrite rev_app_distr. cbn [rev app]. reflexivity. }
  rewrite open_edges_rev, wsum_swap, wsum_rev. reflexivity.
Qed.

Lemma edge_w_translate d q a b :
  edge_w (padd q d) (padd a d, padd b d) = edge_w q (a, b).
Proof.
  unfold edge_w. rewrite cross_translate.
  unfold padd, px, py; cbn [fst snd].
  replace (snd a + snd d <=? snd q + snd d) with (snd a <=? snd q) by lia.
  replace (snd q + snd d <? snd b + snd d) with (snd q <? snd b) by lia.
  replace (snd b + snd d <=? snd q + snd d) with (snd b <=? snd q) by lia.
  replace (snd q + snd d <? snd a + snd d) with (snd q <? snd a) by lia.
  reflexivity.
Qed.

Lemma open_edges_map (f : pt -> pt) l :
  open_edges (map f l) = map (fun e => (f (fst e), f (snd e))) (open_edges l).
Proof.
  induction l as [|a l IH]; [reflexivity|]. destruct l as [|b l]; [reflexivity|].
  cbn [map open_edges] in *. rewrite IH. reflexivity.
Qed.

Lemma cyc_edges_map (f : pt -> pt) p :
  cyc_edges (map f p) = map (fun e => (f (fst e), f (snd e))) (cyc_edges p).
Proof.
  destruct p as [|a t]; [reflexivity|]. cbn [map cyc_edges].
  change (f a :: map f t) with (map f (a :: t)).
  change [f a] with (map f [a]). rewrite <- map_app. apply open_edges_map.
Qed.

Theorem wn_translate d p q : wn (map (fun v => padd v d) p) (padd q d) = wn p q.
Proof.
  unfold wn, wsum. rewrite cyc_edges_map, map_map.
  apply f_equal, map_ext. intros [a b]. cbn [fst snd]. apply edge_w_translate.
Qed.

Lemma edge_w_scale k q a b : 0 < k ->
  edge_w (pscale k q) (pscale k a, pscale k b) = edge_w q (a, b).
Proof.
  intros Hk. unfold edge_w. rewrite cross_scale.
  unfold pscale, px, py; cbn [fst snd].
  replace (k * snd a <=? k * snd q) with (snd a <=? snd q) by nia.
  replace (k * snd q <? k * snd b) with (snd q <? snd b) by nia.
  replace (k * snd b <=? k * snd q) with (snd b <=? snd q) by nia.
  replace (k * snd q <? k * snd a) with (snd q <? snd a) by nia.
  replace (0 <? k * k * cross a b q) with (0 <? cross a b q) by nia.
  replace (k * k * cross a b q <? 0) with (cross a b q <? 0) by nia.
  reflexivity.
Qed.

Theorem wn_scale k p q : 0 < k -> wn (map (pscale k) p) (pscale k q) = wn p q.
Proof.
  intros Hk. unfold wn, wsum. rewrite cyc_edges_map, map_map.
  apply f_equal, map_ext. intros [a b]. cbn [fst snd]. apply edge_w_scale, Hk.
Qed.

Theorem wn_paths_perm ps ps' q : Permutation ps ps' -> wn_paths ps q = wn_paths ps' q.
Proof.
  unfold wn_paths. induction 1; cbn [map zsum] in *; lia.
Qed.

Theorem wn_paths_app ps ps' q : wn_paths (ps ++ ps') q = wn_paths ps q + wn_paths ps' q.
Proof. unfold wn_paths. rewrite map_app, zsum_app. reflexivity. Qed.

(* an edge whose y-range does not contain qy in the half-open sense contributes 0;
   in particular everything is 0 above/below the bounding box *)
Lemma edge_w_far_y q a b : (py q < Z.min (py a) (py b) \/ Z.max (py a) (py b) <= py q) -> edge_w q (a, b) = 0.
Proof.
  intros H. unfold edge_w.
  destruct (py a <=? py q) eqn:E1, (py q <? py b) eqn:E2,
           (py b <=? py q) eqn:E3, (py q <? py a) eqn:E4; cbn [andb]; try reflexivity; lia.
Qed.

(* inserting a duplicate vertex does not change the winding number *)
Lemma edge_w_degenerate q a : edge_w q (a, a) = 0.
Proof.
  unfold edge_w.
  destruct (py a <=? py q) eqn:E1, (py q <? py a) eqn:E2; cbn [andb]; try reflexivity; lia.
Qed.
