(* Decidable "general position" for a set of closed integer paths, exactly the hypothesis of C01/C13/C19:
   every vertex and every pairwise proper edge crossing is at least 3 units away from every edge it does
   not lie on by construction; no touching, no T-junctions, no collinear overlap, no triple points. *)
From Clip Require Import base.Geom base.Dist.
Local Open Scope Z_scope.

(* an edge tagged with (path index, edge index, number of edges in its path) *)
Record tedge := { te_path : nat; te_idx : nat; te_n : nat; te_a : pt; te_b : pt }.

Definition tag_path (pi : nat) (p : path) : list tedge :=
  let es := cyc_edges p in
  let n := length es in
  map (fun '(i, (a, b)) => {| te_path := pi; te_idx := i; te_n := n; te_a := a; te_b := b |})
      (combine (seq 0 n) es).

Fixpoint tag_paths_from (pi : nat) (ps : paths) : list tedge :=
  match ps with [] => [] | p :: t => tag_path pi p ++ tag_paths_from (S pi) t end.

Definition tag_paths (ps : paths) : list tedge := tag_paths_from 0 ps.

Definition same_edge (e f : tedge) : bool :=
  Nat.eqb (te_path e) (te_path f) && Nat.eqb (te_idx e) (te_idx f).

(* cyclically adjacent edges of the same path (share a vertex by construction) *)
Definition adjacent (e f : tedge) : bool :=
  Nat.eqb (te_path e) (te_path f) &&
  (Nat.eqb (S (te_idx e) mod te_n e) (te_idx f) || Nat.eqb (S (te_idx f) mod te_n f) (te_idx e)).

Definition tol3 : Z := 3.

(* vertex te_a of e against edge f: required when f is not e and f does not start or end at that vertex by construction *)
Definition vertex_ok (e f : tedge) : bool :=
  if same_edge e f then true
  else if Nat.eqb (te_path e) (te_path f) && Nat.eqb (S (te_idx f) mod te_n f) (te_idx e) then true  (* f ends at e's start *)
  else seg_far tol3 1 (te_a e) (te_a f, te_b f).

Definition sgn_cross (a b c : pt) : Z := Z.sgn (cross a b c).

Definition properly_cross (e f : tedge) : bool :=
  (sgn_cross (te_a e) (te_b e) (te_a f) * sgn_cross (te_a e) (te_b e) (te_b f) <? 0) &&
  (sgn_cross (te_a f) (te_b f) (te_a e) * sgn_cross (te_a f) (te_b f) (te_b e) <? 0).

(* crossing point of the supporting lines as (xn, yn, d): x = xn/d, y = yn/d; d <> 0 when they properly cross *)
Definition cross_point (e f : tedge) : Z * Z * Z :=
  let a := te_a e in let b := te_b e in let c := te_a f in let d_ := te_b f in
  let dx1 := px b - px a in let dy1 := py b - py a in
  let dx2 := px d_ - px c in let dy2 := py d_ - py c in
  let det := dx1 * dy2 - dy1 * dx2 in
  let t := (px c - px a) * dy2 - (py c - py a) * dx2 in   (* t/det along e *)
  (px a * det + t * dx1, py a * det + t * dy1, det).

Definition crossing_ok (all : list tedge) (e f : tedge) : bool :=
  if properly_cross e f then
    let '(xn, yn, d) := cross_point e f in
    let ad := Z.abs d in
    let q := (xn * Z.sgn d, yn * Z.sgn d) in          (* scaled by |d| *)
    forallb (fun g => same_edge g e || same_edge g f ||
                      seg_far (tol3 * ad) 1 q (pscale ad (te_a g), pscale ad (te_b g))) all
  else true.

Definition nondegenerate (p : path) : bool :=
  (3 <=? Z.of_nat (length p)) && forallb (fun '(a, b) => negb (pt_eqb a b)) (cyc_edges p).

Fixpoint forall_pairs {A} (f : A -> A -> bool) (l : list A) : bool :=
  match l with
  | [] => true
  | x :: t => forallb (f x) t && forall_pairs f t
  end.

Definition general_position (ps : paths) : bool :=
  let all := tag_paths ps in
  forallb nondegenerate ps
  && forallb (fun e => forallb (vertex_ok e) all) all
  && forall_pairs (fun e f => adjacent e f || crossing_ok all e f) all.

Example gp_square : general_position [[(0,0);(10,0);(10,10);(0,10)]; [(5,5);(15,5);(15,15);(5,15)]] = true.
Proof. vm_compute. reflexivity. Qed.
Example gp_touch : general_position [[(0,0);(10,0);(10,10);(0,10)]; [(10,5);(15,5);(15,15)]] = false.
Proof. vm_compute. reflexivity. Qed.
