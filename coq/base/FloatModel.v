(* binary64 model of C++ double arithmetic: Coq primitive floats (IEEE-754 binary64,
   round-to-nearest-even) + conversions to/from Z defined through SpecFloat. *)
From Coq Require Export ZArith Floats.
From Coq Require Import SpecFloat Lia.
Local Open Scope Z_scope.

(* static_cast<double>(int64_t): correctly rounded *)
Definition Z2F (z : Z) : float := SF2Prim (binary_normalize 53 1024 z 0 false).

(* value of a finite float as sign * m * 2^e *)
Definition F_decode (x : float) : option (bool * Z * Z) :=
  match Prim2SF x with
  | S754_zero s => Some (s, 0, 0)
  | S754_finite s m e => Some (s, Z.pos m, e)
  | _ => None
  end.

Definition apply_sign (s : bool) (z : Z) : Z := if s then - z else z.

(* static_cast<int64_t>(double): truncation toward zero; None = inf/nan.
   (Out-of-int64-range results are UB in C++; callers check [in_i64].) *)
Definition F2Z_trunc (x : float) : option Z :=
  match F_decode x with
  | Some (s, m, e) =>
      Some (apply_sign s (if 0 <=? e then m * 2 ^ e else m / 2 ^ (- e)))
  | None => None
  end.

(* std::round: half away from zero *)
Definition F2Z_round (x : float) : option Z :=
  match F_decode x with
  | Some (s, m, e) =>
      Some (apply_sign s (if 0 <=? e then m * 2 ^ e else (m + 2 ^ (- e - 1)) / 2 ^ (- e)))
  | None => None
  end.

(* nearbyint in the default rounding mode: half to even *)
Definition F2Z_rne (x : float) : option Z :=
  match F_decode x with
  | Some (s, m, e) =>
      Some (apply_sign s
        (if 0 <=? e then m * 2 ^ e
         else let d := 2 ^ (- e) in
              let q := m / d in let r := m mod d in
              if 2 * r <? d then q
              else if d <? 2 * r then q + 1
              else if Z.even q then q else q + 1))
  | None => None
  end.

Definition in_i64 (z : Z) : bool := (- 2 ^ 63 <=? z) && (z <? 2 ^ 63).
Definition in_i32 (z : Z) : bool := (- 2 ^ 31 <=? z) && (z <? 2 ^ 31).

Definition odflt (d : Z) (o : option Z) : Z := match o with Some z => z | None => d end.

(* conversions that mirror x86-64 behaviour on out-of-range (cvttsd2si returns INT64_MIN):
   used only to keep models total; the UB guard is stated separately. *)
Definition i64_min : Z := - 2 ^ 63.
Definition F2I64_trunc (x : float) : Z :=
  match F2Z_trunc x with Some z => if in_i64 z then z else i64_min | None => i64_min end.
Definition F2I64_round (x : float) : Z :=
  match F2Z_round x with Some z => if in_i64 z then z else i64_min | None => i64_min end.
Definition F2I64_rne (x : float) : Z :=
  match F2Z_rne x with Some z => if in_i64 z then z else i64_min | None => i64_min end.

Definition feqb (a b : float) : bool := PrimFloat.eqb a b.
Definition fltb (a b : float) : bool := PrimFloat.ltb a b.
Definition fleb (a b : float) : bool := PrimFloat.leb a b.

(* sanity *)
Example Z2F_ex : Z2F 3 = 3%float. Proof. reflexivity. Qed.
Example F2Z_trunc_ex : F2Z_trunc (-2.75)%float = Some (-2). Proof. reflexivity. Qed.
Example F2Z_round_ex : F2Z_round (2.5)%float = Some 3 /\ F2Z_round (-2.5)%float = Some (-3). Proof. split; reflexivity. Qed.
Example F2Z_rne_ex : F2Z_rne (2.5)%float = Some 2 /\ F2Z_rne (3.5)%float = Some 4 /\ F2Z_rne (-2.5)%float = Some (-2). Proof. repeat split; reflexivity. Qed.
