(* Shared exact geometry over Z: points, paths, cross/dot products, shoelace area.
   Everything here is computable and is extracted for the oracles. *)
From Coq Require Export ZArith List Bool Lia.
Export ListNotations.
Local Open Scope Z_scope.

Definition pt := (Z * Z)%type.
Definition path := list pt.
Definition paths := list path.

Definition px (p : pt) : Z := fst p.
Definition py (p : pt) : Z := snd p.

Definition pt_eqb (a b : pt) : bool := (px a =? px b) && (py a =? py b).

Lemma pt_eqb_eq a b : pt_eqb a b = true <-> a = b.
Proof.
  destruct a as [ax ay], b as [bx by_]; unfold pt_eqb, px, py; cbn [fst snd].
  rewrite andb_true_iff, !Z.eqb_eq. split; [intros [-> ->]; reflexivity|intros H; inversion H; auto].
Qed.

Lemma pt_eqb_refl a : pt_eqb a a = true.
Proof. apply pt_eqb_eq; reflexivity. Qed.

Lemma pt_eqb_neq a b : pt_eqb a b = false <-> a <> b.
Proof.
  split.
  - intros H E. apply pt_eqb_eq in E. congruence.
  - intros H. destruct (pt_eqb a b) eqn:E; [apply pt_eqb_eq in E; contradiction|reflexivity].
Qed.

(* Clipper2's CrossProduct(pt1,pt2,pt3) = (p2-p1) x (p3-p2); equals the usual isLeft(p1,p2,p3). *)
Definition cross (a b c : pt) : Z :=
  (px b - px a) * (py c - py b) - (py b - py a) * (px c - px b).

Definition dot (a b c : pt) : Z :=
  (px b - px a) * (px c - px b) + (py b - py a) * (py c - py b).

Lemma cross_isleft a b c :
  cross a b c = (px b - px a) * (py c - py a) - (px c - px a) * (py b - py a).
Proof. unfold cross; ring. Qed.

Lemma cross_swap12 a b c : cross b a c = - cross a b c.
Proof. unfold cross; ring. Qed.

Lemma cross_rot a b c : cross b c a = cross a b c.
Proof. unfold cross; ring. Qed.

Definition collinear (a b c : pt) : bool := cross a b c =? 0.

Definition padd (a b : pt) : pt := (px a + px b, py a + py b).
Definition psub (a b : pt) : pt := (px a - px b, py a - py b).
Definition pneg (a : pt) : pt := (- px a, - py a).
Definition pscale (k : Z) (a : pt) : pt := (k * px a, k * py a).

Lemma cross_translate d a b c : cross (padd a d) (padd b d) (padd c d) = cross a b c.
Proof. unfold cross, padd, px, py; cbn [fst snd]; ring. Qed.

Lemma cross_scale k a b c : cross (pscale k a) (pscale k b) (pscale k c) = k * k * cross a b c.
Proof. unfold cross, pscale, px, py; cbn [fst snd]; ring. Qed.

(* Consecutive edges of an open polyline. *)
Fixpoint open_edges (p : path) : list (pt * pt) :=
  match p with
  | a :: t => match t with b :: _ => (a, b) :: open_edges t | [] => [] end
  | [] => []
  end.

(* Cyclic edge list of a closed path: (p0,p1) ... (p_{n-1},p0). *)
Definition cyc_edges (p : path) : list (pt * pt) :=
  match p with
  | [] => []
  | a :: _ => open_edges (p ++ [a])
  end.

Lemma open_edges_cons2 a b l : open_edges (a :: b :: l) = (a, b) :: open_edges (b :: l).
Proof. reflexivity. Qed.

Lemma open_edges_snoc l x y : open_edges (l ++ [x; y]) = open_edges (l ++ [x]) ++ [(x, y)].
Proof.
  induction l as [|a l IH]; [reflexivity|].
  destruct l as [|b l]; [reflexivity|].
  cbn [app] in *. rewrite !open_edges_cons2, IH. reflexivity.
Qed.

Fixpoint zsum (l : list Z) : Z := match l with [] => 0 | x :: t => x + zsum t end.

Lemma zsum_app l1 l2 : zsum (l1 ++ l2) = zsum l1 + zsum l2.
Proof. induction l1 as [|x l1 IH]; cbn [zsum app]; lia. Qed.

Lemma zsum_rev l : zsum (rev l) = zsum l.
Proof. induction l as [|x l IH]; [reflexivity|]. cbn [rev]. rewrite zsum_app, IH. cbn [zsum]. lia. Qed.

Lemma zsum_map_opp {A} (f : A -> Z) l : zsum (map (fun x => - f x) l) = - zsum (map f l).
Proof. induction l as [|x l IH]; [reflexivity|]. cbn [map zsum]. lia. Qed.

Lemma zsum_map_ext {A} (f g : A -> Z) l : (forall x, In x l -> f x = g x) -> zsum (map f l) = zsum (map g l).
Proof.
  induction l as [|x l IH]; intros H; [reflexivity|]. cbn [map zsum].
  rewrite (H x (or_introl eq_refl)), IH; [reflexivity|].
  intros y Hy; apply H; right; exact Hy.
Qed.

(* Twice the signed area with Clipper2's convention:
   Area(path) = 1/2 * sum (y_prev + y_cur) * (x_prev - x_cur). *)
Definition edge_area2 (e : pt * pt) : Z :=
  let (a, b) := e in (py a + py b) * (px a - px b).

Definition area2 (p : path) : Z := zsum (map edge_area2 (cyc_edges p)).

Definition area2_paths (ps : paths) : Z := zsum (map area2 ps).

Definition bbox_of (l : list pt) : option (Z * Z * Z * Z) :=
  match l with
  | [] => None
  | a :: t =>
    Some (fold_left (fun '(x0, y0, x1, y1) p =>
            (Z.min x0 (px p), Z.min y0 (py p), Z.max x1 (px p), Z.max y1 (py p)))
          t (px a, py a, px a, py a))
  end.

Definition in_box (b : Z * Z * Z * Z) (p : pt) : bool :=
  let '(x0, y0, x1, y1) := b in
  (x0 <=? px p) && (px p <=? x1) && (y0 <=? py p) && (py p <=? y1).
