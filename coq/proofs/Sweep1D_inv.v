(* The sweep invariant over whole AELs: list lemmas, GetPrevHotEdge, swap and remove steps. *)
From Clip Require Import base.Geom base.Region model.Sweep1D
     proofs.Sweep1D_contrib proofs.Sweep1D_arith proofs.Sweep1D_bool proofs.Sweep1D_swap proofs.Sweep1D_open.
From Coq Require Import ZifyBool Lia.
Local Open Scope Z_scope.

Lemma Wsum_app pt l1 l2 : Wsum pt (l1 ++ l2) = Wsum pt l1 + Wsum pt l2.
Proof. unfold Wsum. rewrite map_app, zsum_app. reflexivity. Qed.

Lemma Wsum_cons pt e l : Wsum pt (e :: l) = contrib pt e + Wsum pt l.
Proof. reflexivity. Qed.

Lemma inv_from_app ct fr ws wcl l1 l2 :
  inv_from ct fr ws wcl (l1 ++ l2) =
  inv_from ct fr ws wcl l1 && inv_from ct fr (ws + Wsum Subj l1) (wcl + Wsum Clp l1) l2.
Proof.
  revert ws wcl; induction l1 as [|e l1 IH]; intros ws wcl.
  - cbn [app inv_from andb]. unfold Wsum; cbn [map zsum]. rewrite !Z.add_0_r. reflexivity.
  - cbn [app inv_from]. rewrite IH, !Wsum_cons, Bool.andb_assoc, !Z.add_assoc. reflexivity.
Qed.

Lemma gin_zero ct fr : in_result ct fr 0 0 = false.
Proof. destruct ct, fr; reflexivity. Qed.

(* GetPrevHotEdge agrees with the region left of the position *)
Lemma prev_hot_ok_gen ct fr l : forall ws wcl acc,
  inv_from ct fr ws wcl l = true -> ph_ok acc (in_result ct fr ws wcl) = true ->
  ph_ok (fold_left (fun acc x => if eopen x then acc else match hot x with Some s => Some s | None => acc end) l acc)
        (in_result ct fr (ws + Wsum Subj l) (wcl + Wsum Clp l)) = true.
Proof.
  induction l as [|e l IH]; intros ws wcl acc Hinv Hacc.
  - unfold Wsum; cbn [map zsum fold_left]. rewrite !Z.add_0_r. exact Hacc.
  - cbn [inv_from] in Hinv. apply andb_prop in Hinv. destruct Hinv as [He Hl].
    cbn [fold_left]. rewrite !Wsum_cons, !Z.add_assoc. apply IH; [exact Hl|].
    destruct (eopen e) eqn:Ho.
    + rewrite !contrib_open, !Z.add_0_r by exact Ho. exact Hacc.
    + apply edge_ok_closed in He; [|exact Ho]. destruct He as [_ _ _ Hh].
      pose proof (own_after (ep e) ws wcl e Ho eq_refl) as [Eo Ex]. unfold st_s, st_c in Eo, Ex.
      rewrite (gin_gsel ct fr (ep e)) in Hacc |- *. rewrite Eo, Ex, Hh.
      destruct (gsel ct (issub (ep e)) (inside fr (own_w (ep e) ws wcl)) (inside fr (oth_w (ep e) ws wcl))),
               (gsel ct (issub (ep e)) (inside fr (own_w (ep e) ws wcl + wdx e)) (inside fr (oth_w (ep e) ws wcl)));
        cbn [boundary_side ph_ok negb]; try reflexivity; exact Hacc.
Qed.

Lemma prev_hot_ok ct fr l : inv_from ct fr 0 0 l = true ->
  ph_ok (prev_hot l) (in_result ct fr (Wsum Subj l) (Wsum Clp l)) = true.
Proof.
  intros H. pose proof (prev_hot_ok_gen ct fr l 0 0 None H) as P.
  rewrite gin_zero in P. rewrite !Z.add_0_l in P. apply P. reflexivity.
Qed.

Lemma firstn_skipn_cons2 {A} i (a : list A) e1 e2 post :
  skipn i a = e1 :: e2 :: post -> a = firstn i a ++ e1 :: e2 :: post.
Proof. intros H. rewrite <- H. symmetry. apply firstn_skipn. Qed.

(* ---------- swap ---------- *)

Lemma swap_any ct fr ph same ws wcl e1 e2 :
  ct <> NoClip ->
  edge_ok ct fr ws wcl e1 = true -> edge_ok ct fr (st_s ws e1) (st_c wcl e1) e2 = true ->
  ph_ok ph (in_result ct fr ws wcl) = true ->
  exists e1' e2', intersect_edges ct fr ph same e1 e2 = Some (e1', e2') /\
                  swap_post ct fr ws wcl e1 e2 e1' e2'.
Proof.
  intros Hct H1 H2 Hph.
  destruct (eopen e1) eqn:Ho1, (eopen e2) eqn:Ho2.
  - apply swap_open_open; assumption.
  - apply swap_open_closed; try assumption. rewrite Ho1, Ho2. reflexivity.
  - apply swap_open_closed; try assumption. rewrite Ho1, Ho2. reflexivity.
  - pose proof H1 as S1. pose proof H2 as S2.
    apply edge_ok_closed in S1; [|exact Ho1]. apply edge_ok_closed in S2; [|exact Ho2].
    destruct (ptype_eqb (ep e1) (ep e2)) eqn:Ept.
    + apply swap_closed_same; try assumption. destruct (ep e1), (ep e2); try reflexivity; discriminate.
    + apply swap_closed_diff; try assumption. destruct (ep e1), (ep e2); try discriminate; congruence.
Qed.

Lemma contrib_same pt e e' : ep e' = ep e -> wdx e' = wdx e -> eopen e' = eopen e -> contrib pt e' = contrib pt e.
Proof. intros H1 H2 H3. unfold contrib. rewrite H1, H2, H3. reflexivity. Qed.

Theorem swap_preserves ct fr a i same :
  ct <> NoClip -> inv_b ct fr a = true -> wf_event a (ESwap i same) = true ->
  exists a', step ct fr a (ESwap i same) = Some a' /\ inv_b ct fr a' = true /\ length a' = length a.
Proof.
  intros Hct Hinv Hwf. unfold inv_b in *. cbn [wf_event] in Hwf.
  cbn [step].
  destruct (skipn i a) as [|e1 [|e2 post]] eqn:Es.
  - exfalso. assert (length (skipn i a) = 0%nat) as L by (rewrite Es; reflexivity). rewrite skipn_length in L. lia.
  - exfalso. assert (length (skipn i a) = 1%nat) as L by (rewrite Es; reflexivity). rewrite skipn_length in L. lia.
  - pose proof (firstn_skipn_cons2 i a e1 e2 post Es) as Ea.
    set (pre := firstn i a) in *.
    rewrite Ea in Hinv. rewrite inv_from_app in Hinv. apply andb_prop in Hinv. destruct Hinv as [Hpre Hrest].
    rewrite !Z.add_0_l in Hrest. cbn [inv_from] in Hrest.
    apply andb_prop in Hrest. destruct Hrest as [H1 Hrest].
    apply andb_prop in Hrest. destruct Hrest as [H2 Hpost].
    pose proof (prev_hot_ok ct fr pre Hpre) as Hph.
    destruct (swap_any ct fr (prev_hot pre) same _ _ e1 e2 Hct H1 H2 Hph) as (e1' & e2' & Ei & Hp).
    rewrite Ei. eexists; split; [reflexivity|].
    destruct Hp as (P1 & P2 & P3 & P4 & P5 & P6 & K2 & K1).
    split.
    + rewrite inv_from_app, Hpre, !Z.add_0_l. cbn [andb inv_from]. rewrite K2. unfold st_s, st_c in K1. rewrite K1. cbn [andb].
      rewrite !(contrib_same _ e2 e2'), !(contrib_same _ e1 e1') by assumption.
      replace (Wsum Subj pre + contrib Subj e2 + contrib Subj e1) with (Wsum Subj pre + contrib Subj e1 + contrib Subj e2) by ring.
      replace (Wsum Clp pre + contrib Clp e2 + contrib Clp e1) with (Wsum Clp pre + contrib Clp e1 + contrib Clp e2) by ring.
      exact Hpost.
    + transitivity (length (pre ++ e1 :: e2 :: post)); [rewrite !app_length; reflexivity | rewrite <- Ea; reflexivity].
Qed.

(* ---------- remove ---------- *)

Theorem remove_preserves ct fr a i :
  inv_b ct fr a = true -> wf_event a (ERemove i) = true ->
  exists a', step ct fr a (ERemove i) = Some a' /\ inv_b ct fr a' = true.
Proof.
  intros Hinv Hwf. unfold inv_b in *. cbn [wf_event] in Hwf. cbn [step].
  destruct (skipn i a) as [|e1 [|e2 post]] eqn:Es; try discriminate Hwf.
  pose proof (firstn_skipn_cons2 i a e1 e2 post Es) as Ea.
  set (pre := firstn i a) in *.
  rewrite Ea in Hinv. rewrite inv_from_app in Hinv. apply andb_prop in Hinv. destruct Hinv as [Hpre Hrest].
  rewrite !Z.add_0_l in Hrest. cbn [inv_from] in Hrest.
  apply andb_prop in Hrest. destruct Hrest as [H1 Hrest].
  apply andb_prop in Hrest. destruct Hrest as [H2 Hpost].
  apply andb_prop in Hwf. destruct Hwf as [Hwf Hd]. apply andb_prop in Hwf. destruct Hwf as [Hpt Hop].
  assert (ep e1 = ep e2) as Ept by (destruct (ep e1), (ep e2); try reflexivity; discriminate).
  apply Bool.eqb_prop in Hop.
  assert (forall pt, contrib pt e1 + contrib pt e2 = 0) as Hz.
  { intros pt. unfold contrib. rewrite <- Hop, <- Ept. destruct (eopen e1), (ptype_eqb (ep e1) pt); lia. }
  assert (inv_from ct fr 0 0 (pre ++ post) = true) as Hnew.
  { rewrite inv_from_app, Hpre, !Z.add_0_l. cbn [andb].
    replace (Wsum Subj pre) with (Wsum Subj pre + contrib Subj e1 + contrib Subj e2) by (pose proof (Hz Subj); lia).
    replace (Wsum Clp pre) with (Wsum Clp pre + contrib Clp e1 + contrib Clp e2) by (pose proof (Hz Clp); lia).
    exact Hpost. }
  destruct (is_hot e1) eqn:Eh; [|eexists; split; [reflexivity|exact Hnew]].
  assert (max_ok e1 e2 = true) as Hm.
  { unfold max_ok. unfold is_hot in Eh.
    destruct (eopen e1) eqn:Ho1.
    - assert (eopen e2 = true) as Ho2 by (symmetry; exact Hop).
      apply edge_ok_open in H1; [|exact Ho1].
      apply edge_ok_open in H2; [|exact Ho2]. destruct H1 as [Hd1 _ Hh1], H2 as [Hd2 _ Hh2].
      unfold st_s, st_c in Hh2. rewrite !contrib_open, !Z.add_0_r in Hh2 by exact Ho1.
      rewrite Hh1, Hh2 in *. destruct (open_in_result ct fr (Wsum Subj pre) (Wsum Clp pre)); [|discriminate].
      unfold open_side. unfold pm1 in *.
      destruct (0 <? wdx e1) eqn:A, (0 <? wdx e2) eqn:B; cbn; try reflexivity; lia.
    - assert (eopen e2 = false) as Ho2 by (symmetry; exact Hop).
      apply edge_ok_closed in H1; [|exact Ho1]. apply edge_ok_closed in H2; [|exact Ho2].
      destruct H1 as [Hd1 _ _ Hh1], H2 as [Hd2 _ _ Hh2].
      pose proof (own_after (ep e1) (Wsum Subj pre) (Wsum Clp pre) e1 Ho1 eq_refl) as [Eo Ex].
      unfold st_s, st_c in Eo, Ex. rewrite <- Ept, Eo, Ex in Hh2.
      replace (own_w (ep e1) (Wsum Subj pre) (Wsum Clp pre) + wdx e1 + wdx e2) with (own_w (ep e1) (Wsum Subj pre) (Wsum Clp pre)) in Hh2 by lia.
      rewrite Hh1, Hh2 in *.
      destruct (gsel ct (issub (ep e1)) (inside fr (own_w (ep e1) (Wsum Subj pre) (Wsum Clp pre))) (inside fr (oth_w (ep e1) (Wsum Subj pre) (Wsum Clp pre)))),
               (gsel ct (issub (ep e1)) (inside fr (own_w (ep e1) (Wsum Subj pre) (Wsum Clp pre) + wdx e1)) (inside fr (oth_w (ep e1) (Wsum Subj pre) (Wsum Clp pre))));
        cbn in *; try reflexivity; discriminate. }
  rewrite Hm. eexists; split; [reflexivity|exact Hnew].
Qed.

Theorem remove1_preserves ct fr a i :
  inv_b ct fr a = true -> wf_event a (ERemove1 i) = true ->
  exists a', step ct fr a (ERemove1 i) = Some a' /\ inv_b ct fr a' = true.
Proof.
  intros Hinv Hwf. unfold inv_b in *. cbn [wf_event] in Hwf. cbn [step].
  destruct (nth_error a i) as [e|] eqn:En; [|discriminate].
  destruct (nth_error_split a i En) as (l1 & l2 & Ea & Hl).
  assert (skipn i a = e :: l2) as Es.
  { rewrite Ea, <- Hl. rewrite skipn_app, skipn_all, Nat.sub_diag. reflexivity. }
  assert (firstn i a = l1) as Ef.
  { rewrite Ea, <- Hl. rewrite firstn_app, firstn_all, Nat.sub_diag. cbn. apply app_nil_r. }
  rewrite Es, Ef. eexists; split; [reflexivity|].
  rewrite Ea, inv_from_app in Hinv. apply andb_prop in Hinv. destruct Hinv as [H1 H2].
  cbn [inv_from] in H2. apply andb_prop in H2. destruct H2 as [_ H2].
  rewrite !contrib_open, !Z.add_0_r in H2 by exact Hwf.
  rewrite inv_from_app, H1. exact H2.
Qed.
