(* Ellipse: the rotation recurrence of the model ([ell_rec], the very term the binary64 model runs),
   read over the reals with co = cos t, si = sin t, enumerates (cos (i t), sin (i t)). *)
From Coq Require Import Reals List Lia Floats ZArith.
From Clip Require Import base.Geom base.FloatModel model.PathUtils.
Import ListNotations.

Section Ideal.
  Local Open Scope R_scope.
  Definition ell_R := ell_rec R Rplus Rminus Rmult.

  Lemma ell_R_angles t : forall n k,
    ell_R n (cos t) (sin t) (cos (INR k * t)) (sin (INR k * t)) =
    map (fun j => (cos (INR (k + j) * t), sin (INR (k + j) * t))) (seq 0 n).
  Proof.
    induction n as [|n IH]; intros k; [reflexivity|].
    unfold ell_R in *. cbn [ell_rec seq map]. rewrite Nat.add_0_r. f_equal.
    replace (cos (INR k * t) * cos t - sin (INR k * t) * sin t) with (cos (INR (S k) * t))
      by (rewrite S_INR, Rmult_plus_distr_r, Rmult_1_l, cos_plus; reflexivity).
    replace (sin (INR k * t) * cos t + cos (INR k * t) * sin t) with (sin (INR (S k) * t))
      by (rewrite S_INR, Rmult_plus_distr_r, Rmult_1_l, sin_plus; reflexivity).
    rewrite IH. rewrite <- seq_shift, map_map. apply map_ext. intros j.
    replace (S k + j)%nat with (k + S j)%nat by lia. reflexivity.
  Qed.

  (* vertex i (1 <= i < steps) of the ideal ellipse uses the unit vector (cos (i t), sin (i t)) *)
  Theorem ellipse_recurrence t n i : (i < n)%nat ->
    nth i (ell_R n (cos t) (sin t) (cos t) (sin t)) (0, 0) = (cos (INR (S i) * t), sin (INR (S i) * t)).
  Proof.
    intros Hi. pose proof (ell_R_angles t n 1) as H. cbn [INR] in H. rewrite !Rmult_1_l in H. rewrite H.
    set (f := fun j : nat => (cos (INR (1 + j) * t), sin (INR (1 + j) * t))).
    rewrite (nth_indep _ (0, 0) (f 0%nat)) by (rewrite map_length, seq_length; exact Hi).
    rewrite (map_nth f). rewrite seq_nth by exact Hi. reflexivity.
  Qed.
End Ideal.

(* the binary64 model: shape of the result *)
Lemma ell_rec_length T a s m n co si dx dy : length (ell_rec T a s m n co si dx dy) = n.
Proof. revert dx dy; induction n as [|n IH]; intros dx dy; cbn [ell_rec length]; [reflexivity|]. rewrite IH. reflexivity. Qed.

Theorem ellipse_d_shape cx cy rx ry steps si co ry' steps' :
  ellipse_params rx ry steps = Some (ry', steps') -> (1 <= steps')%Z ->
  length (ellipse_d cx cy rx ry steps si co) = Z.to_nat steps' /\
  hd_error (ellipse_d cx cy rx ry steps si co) = Some (cx + rx, cy)%float /\
  forall i, (i < Z.to_nat steps' - 1)%nat ->
    nth_error (ellipse_d cx cy rx ry steps si co) (S i) =
    option_map (fun u => (cx + rx * fst u, cy + ry' * snd u)%float) (nth_error (ell_units (Z.to_nat (steps' - 1)) co si) i).
Proof.
  intros Hp Hs. unfold ellipse_d. rewrite Hp. cbn [length hd_error nth_error].
  rewrite map_length. unfold ell_units. rewrite ell_rec_length. repeat split.
  - lia.
  - intros i _. apply nth_error_map.
Qed.

Theorem ellipse_empty cx cy rx ry steps si co :
  (rx <=? 0)%float = true -> ellipse_d cx cy rx ry steps si co = [].
Proof. intros H. unfold ellipse_d, ellipse_params. rewrite H. reflexivity. Qed.
