(* C17, the part proved about the table regenerated from clipper.export.h on every run
   (gen/Gen_export.v): parameter forwarding and validation prologues of the 14 exported functions. *)
From Coq Require Import ZArith List Bool Lia String.
From Clip Require Import model.Export gen.Gen_export.
Import ListNotations.
Local Open Scope Z_scope.

(* every option and every data argument of every exported function reaches the native callee's formal
   of the same meaning (delta and arc_tolerance scaled by 10^precision where the function scales the
   coordinates itself); a callee option the export does not expose receives its declared default *)
Lemma fwd_all : forallb fwd_ok (table ++ table_z) = true.
Proof. vm_compute. reflexivity. Qed.

Lemma fwd_table : forallb fwd_ok table = true.
Proof. vm_compute. reflexivity. Qed.

(* USINGZ: each of the four boolean exports hands the registration global of its family (dllCallback64 for the
   Clipper64 ones, dllCallbackD for the ClipperD ones) to SetZCallback of the clipper it executes, once and in front
   of Execute; nothing else registers a callback, and the plain configuration never does *)
Lemma zcb_all : forallb (zcb_ok true) table_z = true /\ forallb (zcb_ok false) table = true.
Proof. vm_compute. split; reflexivity. Qed.

(* the statement is not vacuous: exactly the four boolean exports are constrained *)
Lemma zcb_constrained :
  map f_name (filter (fun f => match zcb_family (f_name f) with Some _ => true | None => false end) table_z) =
    ["BooleanOp64"; "BooleanOpD"; "BooleanOp_PolyTree64"; "BooleanOp_PolyTreeD"]%string.
Proof. vm_compute. reflexivity. Qed.

(* all 14 functions are present in both configurations *)
Lemma table_names :
  map f_name table = map f_name table_z /\
  map f_name table =
    ["BooleanOp64"; "BooleanOpD"; "BooleanOp_PolyTree64"; "BooleanOp_PolyTreeD";
     "InflatePaths64"; "InflatePathsD"; "InflatePath64"; "InflatePathD";
     "RectClip64"; "RectClipD"; "RectClipLines64"; "RectClipLinesD";
     "MinkowskiSum64"; "MinkowskiDiff64"]%string.
Proof. vm_compute. split; reflexivity. Qed.

(* the validation prologue: for every value of the parameters
     - an int-returning function answers a negative code exactly when clip type > 4 (Xor), fill rule > 3
       (Negative) or precision outside [-8, 8] (as far as it has these parameters), and otherwise goes on;
     - a pointer-returning function answers nullptr in its prologue exactly when its precision is outside
       [-8, 8], its input array is null or its rectangle is empty (as far as it has these parameters). *)
Definition codes_ok (f : efn) : Prop := forall en, codes_ok_at f en = true.

Ltac solve_codes :=
  intros en;
  cbv -[Z.ltb Z.leb Z.eqb Z.modulo Z.opp Z.lt Z.le pe_int pe_null pe_rect_empty];
  repeat match goal with
         | |- context [Z.modulo ?a ?b] =>
             let v := eval vm_compute in (Z.modulo a b) in change (Z.modulo a b) with v
         end;
  repeat match goal with
         | |- context [Z.ltb ?a ?b] => destruct (Z.ltb_spec a b)
         | |- context [Z.leb ?a ?b] => destruct (Z.leb_spec a b)
         | |- context [Z.eqb ?a ?b] => destruct (Z.eqb_spec a b)
         | |- context [pe_null ?e ?p] => destruct (pe_null e p)
         | |- context [pe_rect_empty ?e ?p] => destruct (pe_rect_empty e p)
         end;
  cbn; try reflexivity; lia.

(* the prologue property does not depend on the call list: prove it on the table without calls *)
Definition slim (f : efn) : efn := mk_efn (f_name f) (f_ret f) (f_params f) (f_prologue f) [].

Lemma codes_slim f : codes_ok (slim f) -> codes_ok f.
Proof. intros H en. specialize (H en). destruct f. exact H. Qed.

Lemma codes_all : Forall codes_ok (table ++ table_z).
Proof.
  assert (H : Forall codes_ok (map slim (table ++ table_z))).
  { let t := eval vm_compute in (map slim (table ++ table_z)) in
    change (map slim (table ++ table_z)) with t.
    repeat (apply Forall_cons; [solve [solve_codes]|]). apply Forall_nil. }
  apply Forall_forall. intros f Hf. apply codes_slim.
  rewrite Forall_forall in H. apply H. apply in_map. exact Hf.
Qed.

(* the hypotheses of codes_ok are satisfiable both ways: a concrete rejected and a concrete accepted call *)
Definition env_of (ct fr prec : Z) : penv :=
  mk_penv (fun n => if String.eqb n "cliptype" then ct else if String.eqb n "fillrule" then fr else prec)
          (fun _ => false) (fun _ => false).

Example codes_ex :
  match table with
  | f :: g :: _ =>
      run_prologue (env_of 5 0 2) (f_prologue f) = PRetInt (-4) /\
      run_prologue (env_of 4 4 2) (f_prologue f) = PRetInt (-3) /\
      run_prologue (env_of 4 3 2) (f_prologue f) = PPass /\
      run_prologue (env_of 9 9 9) (f_prologue g) = PRetInt (-5) /\
      run_prologue (env_of 9 9 (-8)) (f_prologue g) = PRetInt (-4)
  | _ => False
  end.
Proof. vm_compute. repeat split. Qed.
