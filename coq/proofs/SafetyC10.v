(* C10 -- small facts that belong to no other property, stated so that Properties_C10.v does not depend on the exact
   form of lemmas that other properties are still refining. *)
From Coq Require Import ZArith List Bool Floats.
From Clip Require Import base.Geom base.FloatModel model.PathUtils proofs.PathUtilsInst.
From Clip Require model.OffsetGeom.
Import ListNotations.
Local Open Scope Z_scope.

(* RamerDouglasPeucker: the fuelled, bounds-checked model never fails for an epsilon whose square is >= 0 (every epsilon
   but NaN).  Before /repo 75ed759 the code recursed for ever on NaN (`max_d <= NaN` is false, idx stays 0; checks/C10.py
   key rdp.nan-epsilon.unbounded-recursion); C20 owns the model of the repaired test. *)
Lemma rdp_safe_nonnan (p : path) (eps : float) :
  (0 <=? fsqr eps)%float = true -> exists r : path, rdp_path p eps = Ok r.
Proof. intros H. first [exact (rdp_path_safe p eps H) | exact (rdp_path_safe p eps)]. Qed.

(* OffsetOpenPath / OffsetOpenJoined on an EMPTY path: the very first access is path[0] / norms[0] of an empty vector.
   Before /repo e710a8d DoGroupOffset passed empty paths on to them (key offset.empty-path.open-end-type). *)
Lemma offset_open_empty_out_of_bounds :
  forallb (OffsetGeom.in_bounds 0) (OffsetGeom.open_path_accesses 0) = false /\
  In (OffsetGeom.APath, 0) (OffsetGeom.open_path_accesses 0).
Proof. split; [reflexivity|left; reflexivity]. Qed.

Lemma offset_joined_empty_out_of_bounds :
  forallb (OffsetGeom.in_bounds 0) (OffsetGeom.open_joined_accesses 0) = false.
Proof. reflexivity. Qed.
