(* C10 -- small facts that belong to no other property: what the faithful models say about the defects found by the
   C10 sanitizer runs. *)
From Coq Require Import ZArith List Bool Floats.
From Clip Require Import base.Geom base.FloatModel model.PathUtils.
Import ListNotations.
Local Open Scope Z_scope.

(* RamerDouglasPeucker(path, NaN): `if (max_d <= epsSqrd) return;` is false for epsSqrd = NaN even when no vertex was
   selected (idx = 0, max_d = 0), so RDP(path, 0, end) calls itself with the same arguments: the fuelled model of the
   recursion (model/PathUtils.v) runs out of fuel.  proofs/PathUtilsInst.rdp_path_safe excludes exactly this case by
   its hypothesis 0 <= eps^2.  On the real code: stack overflow (checks/C10.py key rdp.nan-epsilon.unbounded-recursion). *)
Lemma rdp_nan_out_of_fuel : rdp_path [(0, 0); (1, 0); (2, 0); (3, 0); (4, 0)] nan = ErrFuel.
Proof. vm_compute. reflexivity. Qed.

Lemma rdp_nan_hypothesis_fails : (0 <=? fsqr nan)%float = false.
Proof. vm_compute. reflexivity. Qed.
