(* The C14 lemmas that depend on the regenerated tables (kept apart so that a change of the library's static objects
   or of the writers of shared classes breaks exactly this file). *)
From Coq Require Import List Bool String.
From Clip Require Import gen.Gen_globals gen.Gen_fields model.Threads.

Lemma globals_immutable : forallb immutable Gen_globals.table = true.
Proof. vm_compute. reflexivity. Qed.

Lemma shared_writes_ok : forallb shared_write_ok Gen_fields.shared_writes = true /\ vertex_members_listed = true.
Proof. split; vm_compute; reflexivity. Qed.
