(* Lemmas about the binary64 geometry model (model/OffsetGeom.v) that do not need real-number reasoning:
   the join selection of OffsetPoint, the index schedule of the open-path routines, the in-place normal reversal,
   single-point shapes. *)
From Coq Require Import ZArith List Bool Floats Lia.
From Clip Require Import base.Geom base.FloatModel model.OffsetPlan model.OffsetGeom.
Import ListNotations.
Local Open Scope Z_scope.
#[local] Set Warnings "-inexact-float".

(* ------------------------------------------------------------------ join selection *)
(* the condition under which each branch of OffsetPoint is taken, written out independently of the if-cascade *)
Definition branch_cond (jt : join_type) (tlim gd sin_a cos_a : float) (b : join_branch) : bool :=
  let tiny := PrimFloat.leb (PrimFloat.abs gd) fp_tol in
  let conc := fgt cos_a (-0.999)%float && PrimFloat.ltb (sin_a * gd)%float 0%float in
  let flat := fgt cos_a 0.999%float && negb (jt_eqb jt JRound) in
  let mit := fgt cos_a (tlim - 1)%float in
  let rest := negb tiny && negb conc && negb flat in
  match b with
  | BTiny => tiny
  | BConcave => negb tiny && conc
  | BMiterFlat => negb tiny && negb conc && flat
  | BMiter => rest && jt_eqb jt JMiter && mit
  | BSquareML => rest && jt_eqb jt JMiter && negb mit
  | BRound => rest && jt_eqb jt JRound
  | BBevel => rest && jt_eqb jt JBevel
  | BSquare => rest && jt_eqb jt JSquare
  end.

(* exactly one branch: the branch taken is the unique one whose condition holds *)
Theorem join_selection_total jt tlim gd sin_a cos_a b :
  branch_cond jt tlim gd sin_a cos_a b = true <-> select_join jt tlim gd sin_a cos_a = b.
Proof.
  unfold branch_cond, select_join.
  generalize (PrimFloat.leb (PrimFloat.abs gd) fp_tol) as tiny.
  generalize (fgt cos_a (-0.999)%float) as c1.
  generalize (PrimFloat.ltb (sin_a * gd)%float 0%float) as c2.
  generalize (fgt cos_a 0.999%float) as c3.
  generalize (fgt cos_a (tlim - 1)%float) as c4.
  intros c4 c3 c2 c1 tiny.
  destruct jt, tiny, c1, c2, c3, c4, b; cbn; split; intros H; try reflexivity; try discriminate.
Qed.

(* concave iff cos_a > -0.999 /\ sin_a * delta < 0 (and the offset is not negligible) *)
Corollary join_concave_iff jt tlim gd sin_a cos_a :
  select_join jt tlim gd sin_a cos_a = BConcave <->
  PrimFloat.leb (PrimFloat.abs gd) fp_tol = false /\ fgt cos_a (-0.999)%float = true /\ PrimFloat.ltb (sin_a * gd)%float 0%float = true.
Proof.
  rewrite <- join_selection_total. unfold branch_cond.
  destruct (PrimFloat.leb (PrimFloat.abs gd) fp_tol), (fgt cos_a (-0.999)%float), (PrimFloat.ltb (sin_a * gd)%float 0%float);
    cbn; intuition congruence.
Qed.

(* a miter is produced only when near-straight or when join = Miter and the miter-limit test passes *)
Corollary join_miter_iff jt tlim gd sin_a cos_a :
  select_join jt tlim gd sin_a cos_a = BMiter -> jt = JMiter /\ fgt cos_a (tlim - 1)%float = true.
Proof.
  rewrite <- join_selection_total. unfold branch_cond. intros H.
  repeat (apply andb_true_iff in H; destruct H as [H ?]).
  split; [apply jt_eqb_eq; assumption|assumption].
Qed.

(* the miter threshold every vertex of a call is tested against is derived from the miter limit in force at that
   Execute (ExecuteInternal recomputes temp_lim_ from miter_limit_; the harness supplies the limit through the
   constructor and through the MiterLimit setter alike and compares temp_lim_ after the call) *)
Theorem ctx_temp_lim acos_f sin_f cos_f miter_limit arc_tolerance e :
  c_tlim (ctx_of acos_f sin_f cos_f miter_limit arc_tolerance e) = temp_lim miter_limit.
Proof. unfold ctx_of. destruct (pe_steps_for e); [destruct (step_consts _ _ _ _ _) as [[? ?] ?]|]; reflexivity. Qed.

(* ------------------------------------------------------------------ index schedule *)
Lemma forallb_flat_map {A B} (p : B -> bool) (f : A -> list B) l :
  forallb p (flat_map f l) = forallb (fun x => forallb p (f x)) l.
Proof. induction l as [|a l IH]; [reflexivity|]. cbn [flat_map forallb]. rewrite forallb_app, IH. reflexivity. Qed.

Lemma in_bounds_iff len a i : in_bounds len (a, i) = true <-> 0 <= i < len.
Proof. unfold in_bounds; cbn [snd]. rewrite andb_true_iff, Z.leb_le, Z.ltb_lt. reflexivity. Qed.

(* OffsetOpenPath reads path[i] / norms[i] only inside [0, len) when the path has at least two points *)
Theorem open_accesses_in_bounds len : 2 <= len -> forallb (in_bounds len) (open_path_accesses len) = true.
Proof.
  intros Hlen. unfold open_path_accesses, cap_accesses, point_accesses.
  rewrite !forallb_app, !forallb_flat_map.
  assert (P2 : forall a b : arr * Z, in_bounds len a = true -> in_bounds len b = true -> forallb (in_bounds len) [a; b] = true)
    by (intros a b Ha Hb; cbn [forallb]; rewrite Ha, Hb; reflexivity).
  assert (P4 : forall a b c d : arr * Z, in_bounds len a = true -> in_bounds len b = true -> in_bounds len c = true ->
                in_bounds len d = true -> forallb (in_bounds len) [a; b; c; d] = true)
    by (intros a b c d Ha Hb Hc Hd; cbn [forallb]; rewrite Ha, Hb, Hc, Hd; reflexivity).
  rewrite !andb_true_iff. repeat split.
  - apply P2; apply in_bounds_iff; lia.
  - apply forallb_forall. intros j Hj. apply in_seq in Hj. apply P4; apply in_bounds_iff; lia.
  - apply forallb_forall. intros j Hj. apply in_rev, in_seq in Hj. apply P2; apply in_bounds_iff; lia.
  - apply P2; apply in_bounds_iff; lia.
  - apply P2; apply in_bounds_iff; lia.
  - apply forallb_forall. intros j Hj. apply in_rev, in_seq in Hj. apply P4; apply in_bounds_iff; lia.
Qed.

(* ... and not for an empty path: the very first access is path[0] of an empty vector *)
Theorem open_accesses_in_bounds_refuted :
  exists len, 0 <= len /\ forallb (in_bounds len) (open_path_accesses len) = false /\ In (APath, 0) (open_path_accesses len).
Proof. exists 0. split; [lia|]. split; [reflexivity|left; reflexivity]. Qed.

Theorem polygon_accesses_in_bounds len : 0 <= len -> forallb (in_bounds len) (polygon_accesses len) = true.
Proof.
  intros Hlen. unfold polygon_accesses, point_accesses. rewrite forallb_flat_map.
  apply forallb_forall. intros j Hj. apply in_seq in Hj. cbv zeta.
  assert (P4 : forall a b c d : arr * Z, in_bounds len a = true -> in_bounds len b = true -> in_bounds len c = true ->
                in_bounds len d = true -> forallb (in_bounds len) [a; b; c; d] = true)
    by (intros a b c d Ha Hb Hc Hd; cbn [forallb]; rewrite Ha, Hb, Hc, Hd; reflexivity).
  destruct (Z.of_nat j =? 0) eqn:E; [apply Z.eqb_eq in E|apply Z.eqb_neq in E];
    apply P4; apply in_bounds_iff; lia.
Qed.

Theorem joined_accesses_in_bounds len : 1 <= len -> forallb (in_bounds len) (open_joined_accesses len) = true.
Proof.
  intros Hlen. unfold open_joined_accesses. rewrite !forallb_app, polygon_accesses_in_bounds by lia.
  cbn [forallb andb]. rewrite !andb_true_r. apply in_bounds_iff. lia.
Qed.

Theorem joined_accesses_in_bounds_refuted : forallb (in_bounds 0) (open_joined_accesses 0) = false.
Proof. reflexivity. Qed.

(* the executable model agrees: on an empty path the open-path routines hit an out-of-bounds access (None),
   whereas OffsetPolygon does nothing *)
Lemma offset_open_path_empty atan2_f c ns : offset_open_path atan2_f c [] ns = None.
Proof.
  unfold offset_open_path, cap. cbn [length Z.of_nat].
  destruct (PrimFloat.leb (PrimFloat.abs (c_gd c)) fp_tol); [reflexivity|].
  destruct (c_et c); reflexivity.
Qed.

Lemma offset_open_joined_empty atan2_f c : offset_open_joined atan2_f c [] (build_normals []) = None.
Proof. reflexivity. Qed.

Lemma offset_polygon_empty atan2_f c ns : offset_polygon atan2_f c [] ns = Some [].
Proof. reflexivity. Qed.

(* ------------------------------------------------------------------ in-place reversal of the normals *)
Definition negd (v : ptd) : ptd := ((- fst v)%float, (- snd v)%float).

Lemma nth_error_firstn {A} (l : list A) : forall n i, (i < n)%nat -> nth_error (firstn n l) i = nth_error l i.
Proof.
  induction l as [|a l IH]; intros n i H; [destruct n, i; reflexivity|].
  destruct n; [lia|]. destruct i; [reflexivity|]. cbn. apply IH. lia.
Qed.

Lemma nth_error_skipn {A} (l : list A) : forall n i, nth_error (skipn n l) i = nth_error l (n + i).
Proof.
  induction l as [|a l IH]; intros n i; [destruct n, i; reflexivity|].
  destruct n; [reflexivity|]. cbn. apply IH.
Qed.

Lemma last_nth_error {A} (l : list A) (d : A) : forall n, length l = S n -> Some (last l d) = nth_error l n.
Proof.
  induction l as [|a l IH]; intros n H; [discriminate|].
  destruct l as [|b l'].
  - cbn in H. injection H as <-. reflexivity.
  - destruct n; [cbn in H; lia|]. cbn [last nth_error]. apply IH. cbn [length] in *. lia.
Qed.

(* after `for (i = highI; i > 0; --i) norms[i] = -norms[i-1]; norms[0] = norms[highI];`
   norms'[i] = - norms[i-1] for 1 <= i <= highI, norms'[0] = norms'[highI], everything above highI is untouched *)
Theorem normals_reversed (ns ns' : list ptd) (highI : Z) :
  1 <= highI -> reversed_norms ns highI = Some ns' ->
  length ns' = length ns /\
  (forall i, 1 <= i <= highI -> getn ns' i = option_map negd (getn ns (i - 1))) /\
  getn ns' 0 = getn ns' highI /\
  (forall i, highI < i -> getn ns' i = getn ns i).
Proof.
  intros Hh H. unfold reversed_norms in H. cbv zeta in H.
  destruct (highI <? 0) eqn:E0; [discriminate|].
  destruct (Z.of_nat (length ns) <=? highI) eqn:E1; [discriminate|].
  apply Z.leb_gt in E1.
  remember (Z.to_nat highI) as h eqn:Eh0.
  assert (Hh' : (1 <= h)%nat) by lia.
  assert (Hlen : (h < length ns)%nat) by lia.
  destruct h as [|h0]; [lia|].
  set (body := map (fun v : ptd => ((- fst v)%float, (- snd v)%float)) (firstn (S h0) ns)) in *.
  set (tl := skipn (S (S h0)) ns) in *.
  assert (Ens : ns' = last body (0%float, 0%float) :: body ++ tl) by congruence.
  subst ns'. clear H.
  assert (Lb : length body = S h0) by (unfold body; rewrite map_length, firstn_length; lia).
  assert (Nb : forall k, (k < S h0)%nat -> nth_error body k = option_map negd (nth_error ns k)).
  { intros k Hk. unfold body. rewrite nth_error_map, nth_error_firstn by lia. reflexivity. }
  assert (Ebody : forall k, (k < S h0)%nat ->
            nth_error (last body (0%float, 0%float) :: body ++ tl) (S k) = option_map negd (nth_error ns k)).
  { intros k Hk. cbn [nth_error]. rewrite nth_error_app1 by lia. apply Nb, Hk. }
  split; [|split; [|split]].
  - cbn [length]. rewrite app_length, Lb. unfold tl. rewrite skipn_length. lia.
  - intros i Hi. unfold getn.
    destruct (i <? 0) eqn:Ei; [lia|]. destruct (i - 1 <? 0) eqn:Ei1; [lia|].
    replace (Z.to_nat i) with (S (Z.to_nat (i - 1))) by lia.
    apply Ebody. lia.
  - unfold getn. cbn [Z.ltb Z.compare Z.to_nat]. destruct (highI <? 0); [discriminate|].
    rewrite <- Eh0.
    rewrite Ebody by lia.
    cbn [nth_error].
    rewrite <- (Nb h0) by lia.
    apply last_nth_error, Lb.
  - intros i Hi. unfold getn. destruct (i <? 0) eqn:Ei; [lia|].
    replace (Z.to_nat i) with (S (S h0 + (Z.to_nat i - S (S h0))))%nat by lia.
    cbn [nth_error]. rewrite nth_error_app2 by lia. rewrite Lb.
    replace (S h0 + (Z.to_nat i - S (S h0)) - S h0)%nat with (Z.to_nat i - S (S h0))%nat by lia.
    unfold tl. rewrite nth_error_skipn.
    replace (S (S h0) + (Z.to_nat i - S (S h0)))%nat with (S (S h0 + (Z.to_nat i - S (S h0))))%nat by lia.
    reflexivity.
Qed.

Example normals_reversed_sat : reversed_norms [(1, 2); (3, 4); (5, 6)]%float 2 = Some [(-3, -4); (-1, -2); (-3, -4)]%float.
Proof. reflexivity. Qed.

(* ------------------------------------------------------------------ single points *)
(* every join type except Round: the square with half-side d = ceil(|group_delta_|) around the point *)
Theorem single_point_square sin_f cos_f c jt v :
  jt <> JRound ->
  let d := F2Z_ceil (PrimFloat.abs (c_gd c)) in
  single_point sin_f cos_f c jt v = [ (px v - d, py v - d); (px v + d, py v - d); (px v + d, py v + d); (px v - d, py v + d) ].
Proof.
  intros Hjt. unfold single_point.
  destruct (jt_eqb jt JRound) eqn:E; [apply jt_eqb_eq in E; contradiction|reflexivity].
Qed.

Example ceil_ex : F2Z_ceil 2.25%float = 3 /\ F2Z_ceil 10%float = 10 /\ F2Z_ceil 0.5%float = 1 /\ F2Z_ceil (-2.25)%float = -2.
Proof. repeat split; reflexivity. Qed.

(* round join: Ellipse with radius |group_delta_| and ceil(steps_per_rad_ * 2 PI) steps *)
Theorem single_point_circle sin_f cos_f c v :
  single_point sin_f cos_f c JRound v =
  ellipse sin_f cos_f v (PrimFloat.abs (c_gd c)) (PrimFloat.abs (c_gd c))
          (if fgt (c_spr c) 0%float then F2Z_ceil (c_spr c * 2 * PI)%float else 0).
Proof. reflexivity. Qed.

(* ------------------------------------------------------------------ ... is the normal list of the reversed path *)
(* For any normal function that is antisymmetric in its two points (true of GetUnitNormal up to the sign of zero),
   the entries the backward pass of OffsetOpenPath reads -- norms'[j] for 1 <= j <= highI -- are the normals of the
   reversed path: norms'[j] = N(p_j, p_{j-1}) = normals(rev p)[highI - j]. *)
Section ReversedPath.
Variable N : pt -> pt -> ptd.
Hypothesis N_anti : forall a b, N b a = negd (N a b).

Definition normalsN (p : path) : list ptd := map (fun e => N (fst e) (snd e)) (cyc_edges p).

Lemma open_edges_nth (l : path) : forall i a b,
  nth_error l i = Some a -> nth_error l (S i) = Some b -> nth_error (open_edges l) i = Some (a, b).
Proof.
  induction l as [|x l IH]; intros i a b Ha Hb; [destruct i; discriminate|].
  destruct l as [|y l']; [destruct i; cbn in Hb; [discriminate|destruct i; discriminate]|].
  destruct i as [|i].
  - cbn in Ha, Hb. injection Ha as <-. injection Hb as <-. reflexivity.
  - rewrite open_edges_cons2. cbn [nth_error]. apply IH; assumption.
Qed.

Lemma cyc_edges_nth (p : path) i a b :
  nth_error p i = Some a -> nth_error p (S i) = Some b -> nth_error (cyc_edges p) i = Some (a, b).
Proof.
  intros Ha Hb. destruct p as [|x t]; [destruct i; discriminate|].
  unfold cyc_edges. apply open_edges_nth.
  - rewrite nth_error_app1; [exact Ha|]. apply nth_error_Some. congruence.
  - rewrite nth_error_app1; [exact Hb|]. apply nth_error_Some. congruence.
Qed.

Lemma nth_error_rev {A} (l : list A) i : (i < length l)%nat -> nth_error (rev l) i = nth_error l (length l - S i).
Proof.
  intros H.
  destruct (nth_error l (length l - S i)) as [x|] eqn:E; [|apply nth_error_None in E; lia].
  rewrite (nth_error_nth' (rev l) x) by (rewrite rev_length; exact H).
  rewrite rev_nth by exact H.
  rewrite (nth_error_nth' l x) in E by lia. congruence.
Qed.

Theorem normals_reversed_path (p : path) (ns' : list ptd) :
  (2 <= length p)%nat ->
  let highI := Z.of_nat (length p) - 1 in
  reversed_norms (normalsN p) highI = Some ns' ->
  forall j, 1 <= j <= highI -> getn ns' j = getn (normalsN (rev p)) (highI - j).
Proof.
  intros Hn highI Hr j Hj.
  assert (Hh : 1 <= highI) by (unfold highI; lia).
  destruct (normals_reversed (normalsN p) ns' highI Hh Hr) as (_ & Hrev & _ & _).
  rewrite (Hrev j Hj).
  unfold getn. destruct (j - 1 <? 0) eqn:E1; [lia|]. destruct (highI - j <? 0) eqn:E2; [lia|].
  set (n := length p) in *.
  set (jn := Z.to_nat j).
  assert (Hjn : (1 <= jn <= n - 1)%nat) by (unfold jn, highI in *; lia).
  replace (Z.to_nat (j - 1)) with (jn - 1)%nat by (unfold jn; lia).
  replace (Z.to_nat (highI - j)) with (n - 1 - jn)%nat by (unfold jn, highI; lia).
  destruct (nth_error p (jn - 1)) as [a|] eqn:Ea; [|apply nth_error_None in Ea; fold n in Ea; lia].
  destruct (nth_error p jn) as [b|] eqn:Eb; [|apply nth_error_None in Eb; fold n in Eb; lia].
  unfold normalsN. rewrite !nth_error_map.
  rewrite (cyc_edges_nth p (jn - 1) a b Ea) by (replace (S (jn - 1)) with jn by lia; exact Eb).
  rewrite (cyc_edges_nth (rev p) (n - 1 - jn) b a).
  - cbn [option_map fst snd]. rewrite (N_anti a b). reflexivity.
  - rewrite nth_error_rev by (fold n; lia). fold n. replace (n - S (n - 1 - jn))%nat with jn by lia. exact Eb.
  - rewrite nth_error_rev by (fold n; lia). fold n. replace (n - S (S (n - 1 - jn)))%nat with (jn - 1)%nat by lia. exact Ea.
Qed.
End ReversedPath.
