(* C10 -- lemmas about model/Inversions.v.  Multiset reasoning is done with count_occ (sums + lia) and turned into
   Permutation statements at the end. *)
From Coq Require Import ZArith List Bool Arith Lia Permutation Sorted.
From Clip Require Import model.Inversions.
Import ListNotations.
Local Open Scope Z_scope.

(* ================================================================== generic facts about inversions *)
Section InvFacts.
  Context {A : Type} (A_dec : forall x y : A, {x = y} + {x <> y}) (key : A -> Z).

  Definition P_dec : forall x y : A * A, {x = y} + {x <> y}.
  Proof. decide equality. Defined.

  Notation cnt := (count_occ P_dec).
  Notation inv := (inv_pairs key).
  Notation cross := (cross_pairs key).
  Notation sorted := (StronglySorted (key_le key)).

  Lemma cnt_app l1 l2 n : cnt (l1 ++ l2) n = (cnt l1 n + cnt l2 n)%nat.
  Proof. apply count_occ_app. Qed.

  Lemma cnt_cons x l n : cnt (x :: l) n = (cnt [x] n + cnt l n)%nat.
  Proof. change (x :: l) with ([x] ++ l). apply cnt_app. Qed.

  Lemma cnt_perm l1 l2 : Permutation l1 l2 -> forall n, cnt l1 n = cnt l2 n.
  Proof. intros H n. apply (Permutation_count_occ P_dec); exact H. Qed.

  Lemma perm_of_cnt l1 l2 : (forall n, cnt l1 n = cnt l2 n) -> Permutation l1 l2.
  Proof. intros H. apply (Permutation_count_occ P_dec); exact H. Qed.

  Lemma filter_perm (f : A -> bool) l l' : Permutation l l' -> Permutation (filter f l) (filter f l').
  Proof.
    induction 1 as [|x l l' _ IH|x y l|l l' l'' _ IH1 _ IH2]; cbn [filter].
    - constructor.
    - destruct (f x); [constructor; exact IH|exact IH].
    - destruct (f x), (f y); try apply Permutation_refl. apply perm_swap.
    - eapply Permutation_trans; eassumption.
  Qed.

  Lemma cross_nil_r p : cross p [] = [].
  Proof. unfold cross_pairs. induction p as [|a p IH]; cbn [flat_map filter map app]; [reflexivity|exact IH]. Qed.

  Lemma cross_cons_l a p l : cross (a :: p) l = map (pair a) (filter (fun b => key b <? key a) l) ++ cross p l.
  Proof. reflexivity. Qed.

  Lemma cross_app_l p q l : cross (p ++ q) l = cross p l ++ cross q l.
  Proof. unfold cross_pairs. apply flat_map_app. Qed.

  Lemma cnt_cross_perm_l p p' l : Permutation p p' -> forall n, cnt (cross p l) n = cnt (cross p' l) n.
  Proof.
    induction 1 as [|x p p' _ IH|x y p|p p' p'' _ IH1 _ IH2]; intros n.
    - reflexivity.
    - rewrite !cross_cons_l, !cnt_app, IH. reflexivity.
    - rewrite !cross_cons_l, !cnt_app. lia.
    - rewrite IH1. apply IH2.
  Qed.

  Lemma cnt_cross_perm_r p l l' : Permutation l l' -> forall n, cnt (cross p l) n = cnt (cross p l') n.
  Proof.
    intros H n. induction p as [|a p IH]; [reflexivity|].
    rewrite !cross_cons_l, !cnt_app, IH. f_equal.
    apply cnt_perm, Permutation_map, filter_perm, H.
  Qed.

  Lemma cnt_cross_app_r p l1 l2 n : cnt (cross p (l1 ++ l2)) n = (cnt (cross p l1) n + cnt (cross p l2) n)%nat.
  Proof.
    induction p as [|a p IH]; [reflexivity|].
    rewrite !cross_cons_l, !cnt_app, IH, filter_app, map_app, cnt_app. lia.
  Qed.

  (* inversions of a concatenation *)
  Lemma cnt_inv_app p l n : cnt (inv (p ++ l)) n = (cnt (inv p) n + cnt (cross p l) n + cnt (inv l) n)%nat.
  Proof.
    induction p as [|a p IH]; [reflexivity|].
    cbn [app inv_pairs]. rewrite cross_cons_l, !cnt_app, IH, filter_app, map_app, cnt_app. lia.
  Qed.

  Lemma sorted_inv_nil l : sorted l -> inv l = [].
  Proof.
    induction 1 as [|a l Hs IH Ha]; [reflexivity|]. cbn [inv_pairs]. rewrite IH, app_nil_r.
    replace (filter (fun b => key b <? key a) l) with (@nil A); [reflexivity|].
    symmetry. clear -Ha. induction l as [|b l IH]; [reflexivity|].
    inversion Ha as [|? ? Hab Hl]; subst. cbn [filter].
    unfold key_le in Hab. destruct (key b <? key a) eqn:E; [apply Z.ltb_lt in E; lia|]. apply IH, Hl.
  Qed.

  Lemma inv_nil_sorted l : inv l = [] -> sorted l.
  Proof.
    induction l as [|a l IH]; [constructor|]. cbn [inv_pairs]. intros H.
    apply app_eq_nil in H. destruct H as [H1 H2]. constructor; [apply IH, H2|].
    apply Forall_forall. intros b Hb. unfold key_le.
    destruct (key b <? key a) eqn:E; [|apply Z.ltb_ge in E; lia].
    assert (Hin : In b (filter (fun b => key b <? key a) l)) by (apply filter_In; auto).
    apply (in_map (pair a)) in Hin. rewrite H1 in Hin. destruct Hin.
  Qed.

  (* membership: an inversion pair is a pair of positions *)
  Lemma in_inv_split a b l : In (a, b) (inv l) ->
    exists l1 l2 l3, l = l1 ++ a :: l2 ++ b :: l3 /\ key b < key a.
  Proof.
    induction l as [|c l IH]; [intros []|]. cbn [inv_pairs]. intros H. apply in_app_or in H. destruct H as [H|H].
    - apply in_map_iff in H. destruct H as [b' [E Hb]]. inversion E; subst c b'. apply filter_In in Hb.
      destruct Hb as [Hb Hk]. apply Z.ltb_lt in Hk. apply in_split in Hb. destruct Hb as [l2 [l3 ->]].
      exists [], l2, l3. split; [reflexivity|exact Hk].
    - destruct (IH H) as [l1 [l2 [l3 [-> Hk]]]]. exists (c :: l1), l2, l3. split; [reflexivity|exact Hk].
  Qed.

  Lemma split_in_inv a b l1 l2 l3 : key b < key a -> In (a, b) (inv (l1 ++ a :: l2 ++ b :: l3)).
  Proof.
    intros Hk. induction l1 as [|c l1 IH]; cbn [app inv_pairs]; apply in_or_app.
    - left. apply in_map, filter_In. split; [apply in_or_app; right; left; reflexivity|apply Z.ltb_lt, Hk].
    - right. exact IH.
  Qed.

  (* an unsorted list has an ADJACENT inversion *)
  Lemma adjacent_inversion l : inv l <> [] ->
    exists p a b s, l = p ++ a :: b :: s /\ key b < key a.
  Proof.
    induction l as [|a l IH]; [intros H; exfalso; apply H; reflexivity|].
    intros H. destruct l as [|b s].
    - exfalso. apply H. reflexivity.
    - destruct (Z_lt_dec (key b) (key a)) as [Hlt|Hge].
      + exists [], a, b, s. split; [reflexivity|exact Hlt].
      + assert (D : inv (b :: s) = [] \/ inv (b :: s) <> []) by (destruct (inv (b :: s)); [left; reflexivity|right; discriminate]).
        destruct D as [E|NE].
        * (* tail sorted and a <= b: whole list sorted, contradiction *)
          exfalso. apply H. apply sorted_inv_nil. apply inv_nil_sorted in E.
          constructor; [exact E|]. inversion E as [|? ? Hs Hb]; subst. constructor; [unfold key_le; lia|].
          eapply Forall_impl; [|exact Hb]. unfold key_le. intros c Hc. lia.
        * destruct (IH NE) as [p [a' [b' [s' [E Hk]]]]]. exists (a :: p), a', b', s'. rewrite E. split; [reflexivity|exact Hk].
  Qed.

  (* swapping an adjacent inverted pair removes exactly that inversion *)
  Lemma cnt_inv_swap p a b s n : key b < key a ->
    cnt (inv (p ++ a :: b :: s)) n = (cnt [(a, b)] n + cnt (inv (p ++ b :: a :: s)) n)%nat.
  Proof.
    intros Hk. rewrite !cnt_inv_app.
    rewrite (cnt_cross_perm_r p (a :: b :: s) (b :: a :: s) (perm_swap b a s) n).
    cbn [inv_pairs filter].
    assert (E1 : (key b <? key a) = true) by (apply Z.ltb_lt; exact Hk).
    assert (E2 : (key a <? key b) = false) by (apply Z.ltb_ge; lia).
    rewrite E1, E2. cbn [map app]. rewrite (cnt_cons (a, b)), !cnt_app. lia.
  Qed.

  Lemma filter_lt_nil a l : Forall (key_le key a) l -> filter (fun b => key b <? key a) l = [].
  Proof.
    induction 1 as [|b l Hab _ IH]; [reflexivity|]. cbn [filter]. unfold key_le in Hab.
    destruct (key b <? key a) eqn:E; [apply Z.ltb_lt in E; lia|exact IH].
  Qed.

  Lemma cnt_cross_cons_r_all p b l n : Forall (fun t => key b < key t) p ->
    cnt (cross p (b :: l)) n = (cnt (map (fun t => (t, b)) p) n + cnt (cross p l) n)%nat.
  Proof.
    induction 1 as [|t p Ht _ IH]; [reflexivity|].
    rewrite !cross_cons_l. cbn [filter map]. apply Z.ltb_lt in Ht. rewrite Ht. cbn [map app].
    rewrite (cnt_cons (t, b)), (cnt_cons (t, b) (map _ p)), !cnt_app, IH. lia.
  Qed.

  Lemma filter_key_swap (f : A -> bool) p a b s : (f a && f b = false)%bool ->
    filter f (p ++ a :: b :: s) = filter f (p ++ b :: a :: s).
  Proof.
    intros H. rewrite !filter_app. f_equal. cbn [filter].
    destruct (f a), (f b); try reflexivity. discriminate H.
  Qed.
End InvFacts.

(* uniqueness of the position of an element of a duplicate-free list *)
Lemma NoDup_split_unique {A} (a : A) l1 r1 l2 r2 :
  NoDup (l1 ++ a :: r1) -> l1 ++ a :: r1 = l2 ++ a :: r2 -> l1 = l2 /\ r1 = r2.
Proof.
  revert l2. induction l1 as [|x l1 IH]; intros l2 Hnd E.
  - destruct l2 as [|y l2]; cbn [app] in E.
    + injection E as Et. auto.
    + injection E as Ey Et. subst y. exfalso. cbn [app] in Hnd. inversion Hnd as [|? ? Hn _]; subst.
      apply Hn. apply in_or_app; right; left; reflexivity.
  - destruct l2 as [|y l2]; cbn [app] in E.
    + injection E as Ex Et. subst x. exfalso. cbn [app] in Hnd. inversion Hnd as [|? ? Hn _]; subst.
      apply Hn. apply in_or_app; right; left; reflexivity.
    + injection E as Ex Et. subst y. cbn [app] in Hnd. inversion Hnd as [|? ? _ Hnd']; subst.
      destruct (IH l2 Hnd' Et) as [-> ->]. auto.
Qed.

(* ================================================================== BuildIntersectList *)
Definition elt_dec : forall x y : elt, {x = y} + {x <> y}.
Proof. decide equality; [apply Z.eq_dec|apply Nat.eq_dec]. Defined.

Notation esorted := (StronglySorted (key_le ex)).
Notation ecnt := (count_occ (P_dec elt_dec)).
Notation einv := (inv_pairs ex).
Notation ecross := (cross_pairs ex).

(* a filter that selects (part of) one key class: used to state stability *)
Definition one_key (f : elt -> bool) : Prop := forall a b, f a = true -> f b = true -> ex a = ex b.

Lemma merge_nil_l R : merge [] R = (R, []).
Proof. destruct R; reflexivity. Qed.
Lemma merge_nil_r L : merge L [] = (L, []).
Proof. destruct L; reflexivity. Qed.
Lemma merge_cons a L' b R' :
  merge (a :: L') (b :: R') =
  if ex b <? ex a
  then let '(m, ns) := merge (a :: L') R' in (b :: m, map (fun t => (t, b)) (rev (a :: L')) ++ ns)
  else let '(m, ns) := merge L' (b :: R') in (a :: m, ns).
Proof. reflexivity. Qed.

Lemma sorted_head_le a l : esorted (a :: l) -> Forall (key_le ex a) l.
Proof. intros H. inversion H; assumption. Qed.
Lemma sorted_tail a l : esorted (a :: l) -> esorted l.
Proof. intros H. inversion H; assumption. Qed.

Lemma filter_one_key_nil (f : elt -> bool) b l : one_key f -> f b = true ->
  Forall (fun t => ex b < ex t) l -> filter f l = [].
Proof.
  intros Hf Hb. induction 1 as [|t l Ht _ IH]; [reflexivity|]. cbn [filter].
  destruct (f t) eqn:E; [pose proof (Hf _ _ Hb E); lia|exact IH].
Qed.

Definition merge_post (L R : list elt) (res : list elt * list node) : Prop :=
  esorted (fst res) /\ Permutation (fst res) (L ++ R) /\
  (forall n, ecnt (snd res) n = ecnt (ecross L R) n) /\
  (forall f, one_key f -> filter f (fst res) = filter f L ++ filter f R).

Lemma merge_spec L : forall R, esorted L -> esorted R -> merge_post L R (merge L R).
Proof.
  induction L as [|a L' IHL].
  - intros R _ HR. rewrite merge_nil_l. repeat split; cbn [fst snd app]; auto.
  - induction R as [|b R' IHR]; intros HL HR.
    + rewrite merge_nil_r. repeat split; cbn [fst snd]; auto.
      * rewrite app_nil_r. apply Permutation_refl.
      * intros n. rewrite cross_nil_r. reflexivity.
      * intros f _. cbn [filter]. rewrite app_nil_r. reflexivity.
    + rewrite merge_cons. destruct (ex b <? ex a) eqn:E.
      * (* right element moves in front of the whole remaining left run *)
        apply Z.ltb_lt in E.
        specialize (IHR HL (sorted_tail _ _ HR)).
        destruct (merge (a :: L') R') as [m ns]. destruct IHR as [Hs [Hp [Hc Hf]]]. cbn [fst snd] in *.
        assert (HbL : Forall (fun t => ex b < ex t) (a :: L')).
        { constructor; [exact E|]. eapply Forall_impl; [|exact (sorted_head_le _ _ HL)]. unfold key_le. intros t Ht. lia. }
        repeat split; cbn [fst snd].
        -- constructor; [exact Hs|]. apply (Permutation_Forall (Permutation_sym Hp)). apply Forall_app. split.
           ++ eapply Forall_impl; [|exact HbL]. unfold key_le. intros t Ht. lia.
           ++ exact (sorted_head_le _ _ HR).
        -- apply Permutation_sym. eapply Permutation_trans; [apply Permutation_sym, Permutation_middle|].
           constructor. apply Permutation_sym, Hp.
        -- intros n. rewrite count_occ_app, Hc.
           rewrite (cnt_cross_cons_r_all elt_dec ex (a :: L') b R' n HbL).
           f_equal. apply (Permutation_count_occ (P_dec elt_dec)), Permutation_map, Permutation_sym, Permutation_rev.
        -- intros f Hf1. change (filter f (b :: m)) with (if f b then b :: filter f m else filter f m).
           change (filter f (b :: R')) with (if f b then b :: filter f R' else filter f R').
           rewrite (Hf f Hf1). destruct (f b) eqn:Eb; [|reflexivity].
           rewrite (filter_one_key_nil f b (a :: L') Hf1 Eb HbL). reflexivity.
      * (* left element stays *)
        apply Z.ltb_ge in E.
        specialize (IHL (b :: R') (sorted_tail _ _ HL) HR).
        destruct (merge L' (b :: R')) as [m ns]. destruct IHL as [Hs [Hp [Hc Hf]]]. cbn [fst snd] in *.
        assert (HaR : Forall (key_le ex a) (b :: R')).
        { constructor; [unfold key_le; lia|]. eapply Forall_impl; [|exact (sorted_head_le _ _ HR)]. unfold key_le. intros t Ht. lia. }
        repeat split; cbn [fst snd].
        -- constructor; [exact Hs|]. apply (Permutation_Forall (Permutation_sym Hp)). apply Forall_app. split.
           ++ exact (sorted_head_le _ _ HL).
           ++ exact HaR.
        -- cbn [app]. constructor. exact Hp.
        -- intros n. rewrite Hc, cross_cons_l, count_occ_app, (filter_lt_nil ex a (b :: R') HaR). reflexivity.
        -- intros f Hf1. change (filter f (a :: m)) with (if f a then a :: filter f m else filter f m).
           change (filter f (a :: L')) with (if f a then a :: filter f L' else filter f L').
           rewrite (Hf f Hf1). destruct (f a); reflexivity.
Qed.

(* ------------------------------------------------------------------ one pass over the runs *)
Lemma pass_cons2 r1 r2 rest :
  pass (r1 :: r2 :: rest) =
  let '(m, ns) := merge r1 r2 in let '(rs, ns') := pass rest in (m :: rs, ns ++ ns').
Proof. reflexivity. Qed.

Definition pass_post (runs : list (list elt)) (res : list (list elt) * list node) : Prop :=
  Forall (fun r => esorted r) (fst res) /\
  Permutation (concat (fst res)) (concat runs) /\
  (forall n, (ecnt (snd res) n + ecnt (einv (concat (fst res))) n)%nat = ecnt (einv (concat runs)) n) /\
  (forall f, one_key f -> filter f (concat (fst res)) = filter f (concat runs)) /\
  length (fst res) = Nat.div2 (S (length runs)).

Lemma pass_spec : forall n runs, (length runs <= n)%nat -> Forall (fun r => esorted r) runs -> pass_post runs (pass runs).
Proof.
  induction n as [|n IH]; intros runs Hlen Hs.
  - destruct runs; [|cbn [length] in Hlen; lia]. repeat split; cbn [fst snd pass]; auto.
  - destruct runs as [|r1 [|r2 rest]].
    + repeat split; cbn [fst snd pass]; auto.
    + repeat split; cbn [fst snd pass]; auto.
    + rewrite pass_cons2.
      inversion Hs as [|? ? Hr1 Hs1]; subst. inversion Hs1 as [|? ? Hr2 Hs2]; subst.
      pose proof (merge_spec r1 r2 Hr1 Hr2) as Hm.
      assert (Hl : (length rest <= n)%nat) by (cbn [length] in Hlen; lia).
      specialize (IH rest Hl Hs2).
      destruct (merge r1 r2) as [m ns]. destruct (pass rest) as [rs ns'].
      destruct Hm as [Hms [Hmp [Hmc Hmf]]]. destruct IH as [Hps [Hpp [Hpc [Hpf Hpl]]]]. cbn [fst snd] in *.
      assert (Hp2 : Permutation (m ++ concat rs) ((r1 ++ r2) ++ concat rest)) by (apply Permutation_app; assumption).
      repeat split; cbn [fst snd concat].
      * constructor; assumption.
      * rewrite app_assoc. exact Hp2.
      * intros x. rewrite (app_assoc r1 r2). rewrite !count_occ_app.
        rewrite !(cnt_inv_app elt_dec ex).
        rewrite (sorted_inv_nil ex m Hms), (sorted_inv_nil ex r1 Hr1), (sorted_inv_nil ex r2 Hr2).
        rewrite (cnt_cross_perm_l elt_dec ex m (r1 ++ r2) (concat rs) Hmp x).
        rewrite (cnt_cross_perm_r elt_dec ex (r1 ++ r2) (concat rs) (concat rest) Hpp x).
        specialize (Hpc x). specialize (Hmc x). cbn [count_occ]. unfold node in *. lia.
      * intros f Hf. rewrite (app_assoc r1 r2), !filter_app, (Hmf f Hf), (Hpf f Hf). reflexivity.
      * cbn [length]. rewrite Hpl. reflexivity.
Qed.

(* ------------------------------------------------------------------ all passes *)
Lemma div2_S_lt n : (2 <= n)%nat -> (Nat.div2 (S n) < n)%nat.
Proof.
  intros H. destruct n as [|[|n]]; try lia.
  change (Nat.div2 (S (S (S n)))) with (S (Nat.div2 (S n))).
  pose proof (Nat.div2_decr (S n) n (le_n _)). lia.
Qed.

Definition passes_post (runs : list (list elt)) (res : list (list elt) * list node) : Prop :=
  esorted (concat (fst res)) /\
  Permutation (concat (fst res)) (concat runs) /\
  (forall n, ecnt (snd res) n = ecnt (einv (concat runs)) n) /\
  (forall f, one_key f -> filter f (concat (fst res)) = filter f (concat runs)).

Lemma passes_spec : forall fuel runs, (length runs <= S fuel)%nat -> Forall (fun r => esorted r) runs ->
  exists res, passes fuel runs = Some res /\ passes_post runs res.
Proof.
  induction fuel as [|fuel IH]; intros runs Hlen Hs.
  - destruct runs as [|r [|r2 rest]]; [| |cbn [length] in Hlen; lia].
    + exists ([], []). split; [reflexivity|]. repeat split; cbn [fst snd concat]; auto. constructor.
    + exists ([r], []). split; [reflexivity|]. inversion Hs; subst. repeat split; cbn [fst snd concat]; auto.
      * rewrite app_nil_r. assumption.
      * intros n. rewrite app_nil_r, (sorted_inv_nil ex r); [reflexivity|assumption].
  - destruct runs as [|r [|r2 rest]].
    + exists ([], []). split; [reflexivity|]. repeat split; cbn [fst snd concat]; auto. constructor.
    + exists ([r], []). split; [reflexivity|]. inversion Hs; subst. repeat split; cbn [fst snd concat]; auto.
      * rewrite app_nil_r. assumption.
      * intros n. rewrite app_nil_r, (sorted_inv_nil ex r); [reflexivity|assumption].
    + set (runs := r :: r2 :: rest) in *.
      pose proof (pass_spec (length runs) runs (le_n _) Hs) as Hp.
      change (passes (S fuel) runs) with
        (let '(rs, ns) := pass runs in
         match passes fuel rs with Some (rs', ns') => Some (rs', ns ++ ns') | None => None end).
      destruct (pass runs) as [rs ns]. destruct Hp as [Hps [Hpp [Hpc [Hpf Hpl]]]]. cbn [fst snd] in *.
      assert (Hl : (length rs <= S fuel)%nat).
      { rewrite Hpl. assert (2 <= length runs)%nat by (subst runs; cbn [length]; lia).
        pose proof (div2_S_lt (length runs) H). lia. }
      destruct (IH rs Hl Hps) as [[rs' ns'] [E [Hs' [Hp' [Hc' Hf']]]]]. cbn [fst snd] in *.
      rewrite E. exists (rs', ns ++ ns'). split; [reflexivity|]. repeat split; cbn [fst snd].
      * exact Hs'.
      * eapply Permutation_trans; eassumption.
      * intros n. rewrite count_occ_app, Hc'. apply Hpc.
      * intros f Hf. rewrite (Hf' f Hf). apply Hpf, Hf.
Qed.

Lemma concat_singletons (l : list elt) : concat (map (fun e => [e]) l) = l.
Proof. induction l as [|a l IH]; [reflexivity|]. cbn [map concat app]. rewrite IH. reflexivity. Qed.

Lemma singletons_sorted (l : list elt) : Forall (fun r => esorted r) (map (fun e => [e]) l).
Proof. induction l as [|a l IH]; constructor; [repeat constructor|exact IH]. Qed.

(* BuildIntersectList: never out of fuel; emits exactly the inversion pairs of the curr_x sequence (as a multiset:
   once for each pair of positions); leaves the SEL sorted, and stably so. *)
Lemma build_intersect_list_spec (l : list elt) :
  exists s ns, build_intersect_list l = Some (s, ns) /\
    Permutation ns (einv l) /\
    Permutation s l /\ esorted s /\
    (forall k, filter (fun e => ex e =? k) s = filter (fun e => ex e =? k) l).
Proof.
  unfold build_intersect_list.
  destruct (passes_spec (length l) (map (fun e => [e]) l)) as [[rs ns] [E [Hs [Hp [Hc Hf]]]]].
  - rewrite map_length. lia.
  - apply singletons_sorted.
  - rewrite E. rewrite concat_singletons in *. cbn [fst snd] in *.
    exists (concat rs), ns. split; [reflexivity|]. repeat split; auto.
    + apply (Permutation_count_occ (P_dec elt_dec)). exact Hc.
    + intros k. apply Hf. intros a b Ha Hb. apply Z.eqb_eq in Ha, Hb. lia.
Qed.

(* ================================================================== ProcessIntersectList *)
Lemma adjacent_split l a b : adjacent l a b = true ->
  exists p s, l = p ++ a :: b :: s \/ l = p ++ b :: a :: s.
Proof.
  induction l as [|c l IH]; [discriminate|]. destruct l as [|d t]; [discriminate|].
  change (adjacent (c :: d :: t) a b) with
    (((c =? a)%nat && (d =? b)%nat) || ((c =? b)%nat && (d =? a)%nat) || adjacent (d :: t) a b).
  intros H. apply orb_true_iff in H. destruct H as [H|H].
  - apply orb_true_iff in H. destruct H as [H|H]; apply andb_true_iff in H; destruct H as [H1 H2];
      apply Nat.eqb_eq in H1, H2; subst; exists [], t; [left|right]; reflexivity.
  - destruct (IH H) as [p [s [E|E]]]; exists (c :: p), s; rewrite E; [left|right]; reflexivity.
Qed.

Lemma split_adjacent p a b s : adjacent (p ++ a :: b :: s) a b = true.
Proof.
  induction p as [|c p IH].
  - cbn [app adjacent]. rewrite !Nat.eqb_refl. reflexivity.
  - destruct p as [|d p].
    + cbn [app] in *. change (adjacent (c :: a :: b :: s) a b) with
        (((c =? a)%nat && (a =? b)%nat) || ((c =? b)%nat && (a =? a)%nat) || adjacent (a :: b :: s) a b).
      rewrite IH. apply orb_true_r.
    + cbn [app] in *. change (adjacent (c :: d :: p ++ a :: b :: s) a b) with
        (((c =? a)%nat && (d =? b)%nat) || ((c =? b)%nat && (d =? a)%nat) || adjacent (d :: p ++ a :: b :: s) a b).
      rewrite IH. apply orb_true_r.
Qed.

Lemma swap_adj_split p a b s : NoDup (p ++ a :: b :: s) -> swap_adj (p ++ a :: b :: s) a b = Some (p ++ b :: a :: s).
Proof.
  induction p as [|c p IH]; intros Hnd.
  - cbn [app swap_adj]. rewrite !Nat.eqb_refl. reflexivity.
  - assert (Hca : c <> a).
    { intros ->. cbn [app] in Hnd. inversion Hnd as [|? ? Hn _]; subst. apply Hn, in_or_app. right; left; reflexivity. }
    assert (Hnd' : NoDup (p ++ a :: b :: s)) by (cbn [app] in Hnd; inversion Hnd; assumption).
    specialize (IH Hnd').
    destruct p as [|d p]; cbn [app] in *.
    + change (swap_adj (c :: a :: b :: s) a b) with
        (if (c =? a)%nat && (a =? b)%nat then Some (a :: c :: b :: s) else option_map (cons c) (swap_adj (a :: b :: s) a b)).
      apply Nat.eqb_neq in Hca. rewrite Hca. cbn [andb]. rewrite IH. reflexivity.
    + change (swap_adj (c :: d :: p ++ a :: b :: s) a b) with
        (if (c =? a)%nat && (d =? b)%nat then Some (d :: c :: p ++ a :: b :: s)
         else option_map (cons c) (swap_adj (d :: p ++ a :: b :: s) a b)).
      apply Nat.eqb_neq in Hca. rewrite Hca. cbn [andb]. rewrite IH. reflexivity.
Qed.

Lemma find_adj_exists ael ns a b : In (a, b) ns -> adjacent ael a b = true -> exists j, find_adj ael ns = Some j.
Proof.
  induction ns as [|[c d] ns IH]; [intros []|]. intros Hin Hadj. cbn [find_adj].
  destruct (adjacent ael c d) eqn:E; [exists O; reflexivity|].
  destruct Hin as [Hin|Hin]; [inversion Hin; subst; congruence|].
  destruct (IH Hin Hadj) as [j ->]. exists (S j). reflexivity.
Qed.

Lemma find_adj_spec ael ns j : find_adj ael ns = Some j ->
  (j < length ns)%nat /\ forall d, adjacent ael (fst (nth j ns d)) (snd (nth j ns d)) = true.
Proof.
  revert j. induction ns as [|[c e] ns IH]; [discriminate|]. intros j. cbn [find_adj].
  destruct (adjacent ael c e) eqn:E.
  - intros H. inversion H; subst j. split; [cbn [length]; lia|]. intros d. exact E.
  - destruct (find_adj ael ns) as [j'|] eqn:F; [|discriminate]. intros H. inversion H; subst j.
    destruct (IH j' eq_refl) as [Hl Ha]. split; [cbn [length]; lia|]. intros d. apply Ha.
Qed.

Lemma set_nth_perm {X} (v d : X) : forall t j, (j < length t)%nat -> Permutation (v :: t) (nth j t d :: set_nth j t v).
Proof.
  induction t as [|h t IH]; intros j Hj; [cbn [length] in Hj; lia|].
  destruct j as [|j]; cbn [nth set_nth].
  - apply perm_swap.
  - cbn [length] in Hj. assert (Hj' : (j < length t)%nat) by lia. specialize (IH j Hj').
    eapply Permutation_trans; [apply perm_swap|].
    eapply Permutation_trans; [apply perm_skip, IH|]. apply perm_swap.
Qed.

Lemma swap_nodes_spec (ns : list inode) j d : (j < length ns)%nat ->
  exists rest, swap_nodes ns j = nth j ns d :: rest /\ Permutation ns (nth j ns d :: rest).
Proof.
  intros Hj. destruct ns as [|n0 t]; [cbn [length] in Hj; lia|]. destruct j as [|j].
  - exists t. split; reflexivity.
  - cbn [length] in Hj. assert (Hj' : (j < length t)%nat) by lia.
    exists (set_nth j t n0). cbn [swap_nodes nth]. rewrite (nth_indep t n0 d Hj'). split; [reflexivity|].
    apply set_nth_perm, Hj'.
Qed.

Lemma process_unfold f ael ns : ns <> [] ->
  process (S f) ael ns =
  match find_adj ael ns with
  | None => inr ScanOverrun
  | Some j =>
      match swap_nodes ns j with
      | (a, b) :: rest =>
          match swap_adj ael a b with
          | None => inr SwapPrecond
          | Some ael' =>
              match process f ael' rest with
              | inl r => inl (mkP (p_ael r) ((a, b) :: p_order r) ((j, length ns) :: p_scans r))
              | inr e => inr e
              end
          end
      | [] => inr OutOfFuel
      end
  end.
Proof. destruct ns; [congruence|reflexivity]. Qed.

Section Process.
  Variable x : nat -> Z.           (* curr_x at the top of the scanbeam: the order the AEL has to reach *)
  Notation ninv := (inv_pairs x).
  Notation ncnt := (count_occ (P_dec Nat.eq_dec)).

  (* one step: the scan succeeds inside the vector and the node found has its edges adjacent, left edge first *)
  Lemma process_step ael ns : NoDup ael -> Permutation ns (ninv ael) -> ns <> [] ->
    exists j a b rest p s,
      find_adj ael ns = Some j /\ (j < length ns)%nat /\ swap_nodes ns j = (a, b) :: rest /\
      Permutation ns ((a, b) :: rest) /\ ael = p ++ a :: b :: s /\ x b < x a.
  Proof.
    intros Hnd Hperm Hne.
    assert (Hinv : ninv ael <> []).
    { intros E. rewrite E in Hperm. apply Permutation_sym, Permutation_nil in Hperm. contradiction. }
    destruct (adjacent_inversion x ael Hinv) as [p0 [a0 [b0 [s0 [E0 Hk0]]]]].
    assert (Hin0 : In (a0, b0) ns).
    { apply (Permutation_in _ (Permutation_sym Hperm)). rewrite E0.
      change (a0 :: b0 :: s0) with (a0 :: [] ++ b0 :: s0). apply split_in_inv, Hk0. }
    assert (Hadj0 : adjacent ael a0 b0 = true) by (rewrite E0; apply split_adjacent).
    destruct (find_adj_exists ael ns a0 b0 Hin0 Hadj0) as [j Hj].
    destruct (find_adj_spec ael ns j Hj) as [Hlt Hadj].
    destruct (swap_nodes_spec ns j (O, O) Hlt) as [rest [Hsw Hp]].
    specialize (Hadj (O, O)).
    unfold inode in *. remember (nth j ns (O, O)) as nd eqn:En. destruct nd as [a b]. cbn [fst snd] in Hadj.
    assert (Hin : In (a, b) (ninv ael)).
    { apply (Permutation_in _ Hperm). rewrite En. apply nth_In, Hlt. }
    destruct (in_inv_split x a b ael Hin) as [l1 [l2 [l3 [E Hk]]]].
    destruct (adjacent_split ael a b Hadj) as [p [s [E'|E']]].
    - (* a immediately before b *)
      exists j, a, b, rest, p, s. repeat split; auto.
    - (* b immediately before a: impossible, a also occurs before b and the list is duplicate free *)
      exfalso. rewrite E in Hnd.
      assert (E2 : l1 ++ a :: l2 ++ b :: l3 = (p ++ [b]) ++ a :: s).
      { rewrite <- app_assoc. cbn [app]. rewrite <- E'. symmetry. exact E. }
      destruct (NoDup_split_unique a l1 (l2 ++ b :: l3) (p ++ [b]) s Hnd E2) as [E3 _].
      subst l1.
      replace ((p ++ [b]) ++ a :: l2 ++ b :: l3) with (((p ++ [b]) ++ a :: l2) ++ b :: l3) in Hnd
        by (rewrite <- !app_assoc; reflexivity).
      apply NoDup_remove_2 in Hnd. apply Hnd.
      apply in_or_app. left. apply in_or_app. left. apply in_or_app. right. left. reflexivity.
  Qed.

  Theorem process_safe : forall n ael ns, length ns = n -> NoDup ael -> Permutation ns (ninv ael) ->
    exists r, process n ael ns = inl r /\
      Permutation (p_order r) ns /\ check_schedule ael (p_order r) = Some (p_ael r) /\
      Forall (fun jn => (fst jn < snd jn)%nat) (p_scans r) /\ length (p_scans r) = n /\
      Permutation (p_ael r) ael /\ ninv (p_ael r) = [] /\
      (forall k, filter (fun e => x e =? k) (p_ael r) = filter (fun e => x e =? k) ael).
  Proof.
    induction n as [|n IH]; intros ael ns Hlen Hnd Hperm.
    - destruct ns; [|discriminate]. exists (mkP ael [] []). cbn [process p_order p_ael p_scans check_schedule length].
      repeat split; auto. apply Permutation_nil, Hperm.
    - assert (Hne : ns <> []) by (intros ->; discriminate).
      destruct (process_step ael ns Hnd Hperm Hne) as [j [a [b [rest [p [s [Hf [Hlt [Hsw [Hp [E Hk]]]]]]]]]]].
      rewrite (process_unfold n ael ns Hne), Hf, Hsw.
      rewrite E in Hnd |- *. rewrite (swap_adj_split p a b s Hnd).
      set (ael' := p ++ b :: a :: s).
      assert (Hpa : Permutation ael' (p ++ a :: b :: s)) by (apply Permutation_app_head, perm_swap).
      assert (Hnd' : NoDup ael') by (apply (Permutation_NoDup (Permutation_sym Hpa)), Hnd).
      assert (Hrest : Permutation rest (ninv ael')).
      { apply (perm_of_cnt Nat.eq_dec). intros m.
        pose proof (cnt_perm Nat.eq_dec _ _ Hp m) as H1. pose proof (cnt_perm Nat.eq_dec _ _ Hperm m) as H2.
        rewrite E in H2. rewrite (cnt_inv_swap Nat.eq_dec x p a b s m Hk) in H2.
        rewrite (cnt_cons Nat.eq_dec (a, b) rest m) in H1. fold ael' in H2. lia. }
      assert (Hlr : length rest = n).
      { apply Permutation_length in Hp. cbn [length] in Hp. lia. }
      destruct (IH ael' rest Hlr Hnd' Hrest) as [r [Hr [Ho [Hc [Hs [Hsl [Hpa' [Hi Hfk]]]]]]]].
      rewrite Hr. eexists. split; [reflexivity|]. cbn [p_order p_ael p_scans].
      repeat split.
      + eapply Permutation_trans; [apply perm_skip, Ho|]. apply Permutation_sym, Hp.
      + cbn [check_schedule]. rewrite (swap_adj_split p a b s Hnd). exact Hc.
      + constructor; [cbn [fst snd]; exact Hlt|exact Hs].
      + cbn [length]. rewrite Hsl. reflexivity.
      + eapply Permutation_trans; [exact Hpa'|exact Hpa].
      + exact Hi.
      + intros k. rewrite (Hfk k). unfold ael'. symmetry. apply filter_key_swap.
        destruct (x a =? k) eqn:Ea; [|reflexivity]. destruct (x b =? k) eqn:Eb; [|reflexivity].
        apply Z.eqb_eq in Ea, Eb. lia.
  Qed.
End Process.

(* the form "an unsorted list has an inversion at two consecutive indices" *)
Lemma adjacent_inversion_index {A} (key : A -> Z) (l : list A) :
  ~ StronglySorted (key_le key) l ->
  exists i a b, nth_error l i = Some a /\ nth_error l (S i) = Some b /\ key b < key a.
Proof.
  intros H.
  assert (Hinv : inv_pairs key l <> []) by (intros E; apply H, inv_nil_sorted, E).
  destruct (adjacent_inversion key l Hinv) as [p [a [b [s [-> Hk]]]]].
  exists (length p), a, b. repeat split; [| |exact Hk].
  - rewrite nth_error_app2, Nat.sub_diag; [reflexivity|lia].
  - rewrite nth_error_app2; [|lia]. replace (S (length p) - length p)%nat with 1%nat by lia. reflexivity.
Qed.

(* ================================================================== both phases together *)
(* curr_x of an identity *)
Definition xof (l : list elt) (i : nat) : Z :=
  match find (fun e => (eid e =? i)%nat) l with Some e => ex e | None => 0 end.

Lemma xof_in l e : NoDup (ids l) -> In e l -> xof l (eid e) = ex e.
Proof.
  unfold xof, ids. induction l as [|a l IH]; [intros _ []|]. cbn [map find]. intros Hnd Hin.
  inversion Hnd as [|? ? Hn Hnd']; subst. destruct Hin as [->|Hin].
  - rewrite Nat.eqb_refl. reflexivity.
  - destruct (eid a =? eid e)%nat eqn:E; [|apply IH; assumption].
    apply Nat.eqb_eq in E. exfalso. apply Hn. rewrite E. apply in_map, Hin.
Qed.

Lemma map_filter_ids (x : nat -> Z) (a : elt) (l : list elt) : (forall e, In e l -> x (eid e) = ex e) ->
  map (fun b => (eid a, eid b)) (filter (fun b => ex b <? ex a) l) =
  map (pair (eid a)) (filter (fun i => x i <? ex a) (map eid l)).
Proof.
  induction l as [|b l IH]; [reflexivity|]. intros Hl. cbn [filter map].
  rewrite (Hl b (or_introl eq_refl)).
  specialize (IH (fun e He => Hl e (or_intror He))).
  destruct (ex b <? ex a); cbn [map]; rewrite IH; reflexivity.
Qed.

Lemma node_ids_inv (x : nat -> Z) (l : list elt) : (forall e, In e l -> x (eid e) = ex e) ->
  node_ids (inv_pairs ex l) = inv_pairs x (ids l).
Proof.
  unfold node_ids, ids. induction l as [|a l IH]; [reflexivity|]. intros Hx. cbn [inv_pairs map].
  rewrite map_app, IH by (intros e He; apply Hx; right; exact He). f_equal.
  rewrite map_map. cbn [fst snd].
  rewrite (Hx a (or_introl eq_refl)).
  apply map_filter_ids. intros e He. apply Hx. right. exact He.
Qed.

(* Whatever order std::sort leaves the nodes in, processing the nodes recorded by BuildIntersectList on the AEL they
   were recorded from never leaves intersect_nodes_, never violates SwapPositionsInAEL's precondition, and ends with
   the AEL stably sorted by curr_x. *)
Theorem intersections_safe (l : list elt) : NoDup (ids l) ->
  exists s ns, build_intersect_list l = Some (s, ns) /\
    forall ns', Permutation ns' (node_ids ns) ->
      exists r, process_intersect_list (ids l) ns' = inl r /\
        Forall (fun jn => (fst jn < snd jn)%nat) (p_scans r) /\
        Permutation (p_ael r) (ids l) /\
        StronglySorted (key_le (xof l)) (p_ael r) /\
        (forall k, filter (fun i => xof l i =? k) (p_ael r) = filter (fun i => xof l i =? k) (ids l)).
Proof.
  intros Hnd. destruct (build_intersect_list_spec l) as [s [ns [E [Hns _]]]].
  exists s, ns. split; [exact E|]. intros ns' Hp.
  assert (Hp' : Permutation ns' (inv_pairs (xof l) (ids l))).
  { eapply Permutation_trans; [exact Hp|]. rewrite <- (node_ids_inv (xof l) l (fun e He => xof_in l e Hnd He)).
    unfold node_ids. apply Permutation_map, Hns. }
  destruct (process_safe (xof l) (length ns') (ids l) ns' eq_refl Hnd Hp') as [r [Hr [_ [_ [Hs [_ [Hpa [Hi Hf]]]]]]]].
  exists r. unfold process_intersect_list. repeat split; auto. apply inv_nil_sorted, Hi.
Qed.
