(* Specification oracles for the offset properties C06 / C07, exact over Z (no square roots, no floats).

   All lengths are rationals (n, d) with d > 0, given in the same (possibly doubled) unit as the coordinates.
   C06: the region of a set of simple polygons with holes is R = { wn <> 0 }; sd is the signed distance to R
   (negative inside).  [c06_class] says, for a point q, whether the property REQUIRES q to be covered by the
   result, requires it to be uncovered, or leaves it free (tolerance band).
   C07: the stroke of open polylines as a union of edge rectangles, vertex discs and caps; [c07_class] likewise. *)
From Coq Require Import ZArith List Bool Lia.
From Clip Require Import base.Geom base.Winding base.Dist model.OffsetPlan.
Import ListNotations.
Local Open Scope Z_scope.

Definition rat := (Z * Z)%type.   (* (n, d), d > 0 *)

(* x >= y * sqrt L   for integers x y and L >= 0 *)
Definition ge_sqrt (x y L : Z) : bool :=
  if 0 <=? x then (if y <=? 0 then true else y * y * L <=? x * x)
  else (if y <? 0 then x * x <=? y * y * L else false).

(* x <= y * sqrt L *)
Definition le_sqrt (x y L : Z) : bool := ge_sqrt (- x) (- y) L.

(* t >= m * sqrt L  for a rational m *)
Definition ge_rsqrt (t : Z) (m : rat) (L : Z) : bool := ge_sqrt (t * snd m) (fst m) L.
Definition le_rsqrt (t : Z) (m : rat) (L : Z) : bool := le_sqrt (t * snd m) (fst m) L.

Definition radd (a b : rat) : rat := (fst a * snd b + fst b * snd a, snd a * snd b).
Definition rsub (a b : rat) : rat := (fst a * snd b - fst b * snd a, snd a * snd b).
Definition rmul (a b : rat) : rat := (fst a * fst b, snd a * snd b).
Definition rneg (a : rat) : rat := (- fst a, snd a).
Definition rle (a b : rat) : bool := fst a * snd b <=? fst b * snd a.
Definition rlt (a b : rat) : bool := fst a * snd b <? fst b * snd a.
Definition rmin (a b : rat) : rat := if rle a b then a else b.
Definition rmax (a b : rat) : rat := if rle a b then b else a.
Definition rabs (a : rat) : rat := (Z.abs (fst a), snd a).
Definition r0 : rat := (0, 1).

(* dist(q, v) <= r  /  >= r   (r < 0: never / always) *)
Definition pt_within (q v : pt) (r : rat) : bool := (0 <=? fst r) && (dist2_pp q v * sq (snd r) <=? sq (fst r)).
Definition pt_beyond (q v : pt) (r : rat) : bool := (fst r <=? 0) || (sq (fst r) <=? dist2_pp q v * sq (snd r)).

(* ------------------------------------------------------------------ C06: signed distance to a polygon region *)

Definition inR (ps : paths) (q : pt) : bool := negb (wn_paths ps q =? 0).

(* m = squared distance (n, d); dist <= r, dist >= r for r >= 0 *)
Definition d2_le (m : rat) (r : rat) : bool := fst m * sq (snd r) <=? sq (fst r) * snd m.
Definition d2_ge (m : rat) (r : rat) : bool := sq (fst r) * snd m <=? fst m * sq (snd r).

(* sd(q) <= r, given m = squared distance to the boundary (None: no boundary at all) and ins = q in R *)
Definition sd_le_m (m : option rat) (ins : bool) (r : rat) : bool :=
  match m with
  | None => false
  | Some m => if 0 <=? fst r then ins || d2_le m r else ins && d2_ge m (rneg r)
  end.

(* sd(q) >= r   (conservative on the boundary itself for r = 0) *)
Definition sd_ge_m (m : option rat) (ins : bool) (r : rat) : bool :=
  match m with
  | None => true
  | Some m => if 0 <=? fst r then negb ins && d2_ge m r else negb ins || d2_le m (rneg r)
  end.

Definition sd_le (ps : paths) (q : pt) (r : rat) : bool := sd_le_m (min_dist2 (edges_closed ps) q) (inR ps q) r.
Definition sd_ge (ps : paths) (q : pt) (r : rat) : bool := sd_ge_m (min_dist2 (edges_closed ps) q) (inR ps q) r.

Inductive verdict := MustCover | MustUncover | Free.

(* q lies in the rectangle swept by edge e = (a, b) moved along its normal:
   side = +1: the side where cross(a,b,q) > 0 (left), -1: right;  0 <= height <= h;
   foot within the edge, at least m0 from a and m1 from b (measured along the edge; negative = extension).
   With L = |ab|^2, c = side * cross a b q = height * |ab| and t = (q-a).(b-a) = foot * |ab|, so
   height <= h  <->  c <= h * sqrt L,  foot >= m0  <->  t >= m0 * sqrt L,  |ab| - foot >= m1  <->  L - t >= m1 * sqrt L. *)
Definition in_rect (e : pt * pt) (side : Z) (h m0 m1 : rat) (q : pt) : bool :=
  let (a, b) := e in
  let L := dist2_pp a b in
  let c := side * cross a b q in
  let t := (px q - px a) * (px b - px a) + (py q - py a) * (py b - py a) in
  negb (L =? 0) && (0 <=? c) && (0 <=? fst h) && le_rsqrt c h L
  && ge_rsqrt t m0 L && ge_rsqrt (L - t) m1 L.

(* two-sided rectangle: |height| <= h *)
Definition in_rect2 (e : pt * pt) (h m0 m1 : rat) (q : pt) : bool :=
  in_rect e 1 h m0 m1 q || in_rect e (-1) h m0 m1 q.

(* q is outside the two-sided rectangle of half-width h extended by x0 before a and x1 after b
   (everything already including the tolerance): foot < -x0 or foot > len + x1 or |height| >= h *)
Definition out_rect2 (e : pt * pt) (h x0 x1 : rat) (q : pt) : bool :=
  let (a, b) := e in
  let L := dist2_pp a b in
  let c := Z.abs (cross a b q) in
  let t := (px q - px a) * (px b - px a) + (py q - py a) * (py b - py a) in
  if L =? 0 then pt_beyond q a h
  else ge_rsqrt c h L || negb (ge_rsqrt t (rneg x0) L) || negb (ge_rsqrt (L - t) (rneg x1) L).

(* join kinds of the property statement: 0 round, 1 miter/square (factor f), 2 bevel *)
Definition c06_class (ps : paths) (orient : Z) (kind : Z) (delta f tol : rat) (q : pt) : verdict :=
  let fd := rmul f delta in
  let es := edges_closed ps in
  let m := min_dist2 es q in
  let ins := inR ps q in
  if kind =? 2 then
    (* bevel: between the polygon moved along its edge normals and the round result *)
    let h := rsub (rabs delta) tol in
    if 0 <? fst delta then
      if sd_le_m m ins (rneg tol) || existsb (fun e => in_rect e (- orient) h tol tol q) es then MustCover
      else if sd_ge_m m ins (radd delta tol) then MustUncover else Free
    else
      if sd_le_m m ins (rsub delta tol) then MustCover
      else if sd_ge_m m ins tol || existsb (fun e => in_rect e orient h tol tol q) es then MustUncover
      else Free
  else
    let lo := rsub (rmin delta fd) tol in
    let hi := radd (rmax delta fd) tol in
    if sd_le_m m ins lo then MustCover else if sd_ge_m m ins hi then MustUncover else Free.

(* |delta| < 0.5: region unchanged *)
Definition c06_identity_class (ps : paths) (q : pt) (tol : rat) : verdict :=
  if sd_le ps q (rneg tol) then MustCover else if sd_ge ps q tol then MustUncover else Free.

(* ------------------------------------------------------------------ C07: stroke of open paths *)

Record stroke_cfg := mkCfg {
  sc_closed : bool;        (* Joined with >= 3 points: the path is a ring *)
  sc_discs : bool;         (* joins contain the round join (every join type except Bevel) *)
  sc_fj : rat;             (* reach factor of joins: 1 round/bevel, sqrt2 square, max(ML, sqrt2) miter (upper bounds) *)
  sc_ext_lo : rat;         (* flat extension at the ends contained in the result: |delta| for Square ends else 0 *)
  sc_ext_hi : rat;         (* flat extension at the ends containing the result *)
  sc_enddisc_lo : bool;    (* round cap contained in the result *)
  sc_fe : option rat       (* Some f: the caps lie within f*|delta| of the end point; None: caps are flat (rectangles only) *)
}.

Definition sqrt2_ub : rat := (14142135624, 10000000000).   (* > sqrt 2 *)

Definition fj_of (jt : join_type) (ml : rat) : rat :=
  match jt with
  | JRound | JBevel => (1, 1)
  | JSquare => sqrt2_ub
  | JMiter => rmax ml sqrt2_ub
  end.

(* configuration for a path of length len (>= 2) in a group (jt, et); d = |delta| *)
Definition cfg_of (jt : join_type) (et : end_type) (ml : rat) (d : rat) (len : nat) : stroke_cfg :=
  let discs := negb (jt_eqb jt JBevel) in
  let fj := fj_of jt ml in
  match et with
  | EJoined | EPolygon =>
      if (len <=? 2)%nat
      then (* a two-point ring is a there-and-back segment whose ends are full reversals (outside the angle bound of
              the property); accepted: anything between the flat-ended stroke and a square/round capped one *)
           mkCfg false discs fj r0 d false (Some (rmax fj sqrt2_ub))
      else mkCfg true discs fj r0 r0 false None
  | EButt => mkCfg false discs fj r0 r0 false None
  | ESquare => mkCfg false discs fj d d false None
  | ERound => mkCfg false discs fj r0 r0 true (Some (1, 1))
  end.

Fixpoint index_from {A} (i : nat) (l : list A) : list (nat * A) :=
  match l with [] => [] | a :: t => (i, a) :: index_from (S i) t end.

Definition path_edges (closed : bool) (p : path) : list (pt * pt) := if closed then cyc_edges p else open_edges p.

(* interior (joined) vertices and end vertices *)
Definition interior_vertices (closed : bool) (p : path) : list pt :=
  if closed then p else match p with [] => [] | _ :: t => removelast t end.
Definition end_vertices (closed : bool) (p : path) : list pt :=
  if closed then [] else match p with [] => [] | a :: t => match t with [] => [a] | _ => [a; last t a] end end.

(* sqrt D + t <= sqrt L   for integers D, L >= 0 and a rational t >= 0 *)
Definition sqrt_plus_le (D : Z) (t : rat) (L : Z) : bool :=
  let X := L * sq (snd t) - D * sq (snd t) - sq (fst t) in
  (0 <=? X) && (4 * sq (fst t) * sq (snd t) * D <=? X * X).

(* r <= sqrt L  for a rational r >= 0 *)
Definition r_le_sqrt (r : rat) (L : Z) : bool := sq (fst r) <=? L * sq (snd r).

Definition nthZ (l : list Z) (i : nat) : Z := nth i l 0.

(* must-cover set of one path (len >= 2).  Sound for arbitrarily short edges:
   - an edge rectangle shrunk by tol on every side lies in the ideal stroke; at an interior vertex whose two edges are
     both at least d long (and whose join contains the round join) the whole disc of radius d around the vertex lies in
     the stroke, so there the rectangle needs no margin along the edge;
   - around a vertex the disc of radius min(d, adjacent edge lengths) lies in the stroke (joins other than Bevel;
     end vertices only for round ends);
   - with round joins and round (or joined) ends the stroke is exactly the set of points within d of the path. *)
Definition stroke_lo (c : stroke_cfg) (exact : bool) (d tol : rat) (p : path) (q : pt) : bool :=
  let es := path_edges (sc_closed c) p in
  let n := length es in
  let ls := map (fun e => dist2_pp (fst e) (snd e)) es in
  let h := rsub d tol in
  let mend := rsub tol (sc_ext_lo c) in
  let closed := sc_closed c in
  let prev_i := fun i : nat => match i with O => Nat.pred n | S i' => i' end in
  let next_i := fun i : nat => if Nat.eqb (S i) n then O else S i in
  let long2 := fun i j : nat => sc_discs c && r_le_sqrt d (nthZ ls i) && r_le_sqrt d (nthZ ls j) in
  (0 <=? fst h) &&
  (existsb (fun ie => let '(i, e) := ie in
             let m0 := if closed || negb (Nat.eqb i 0) then (if long2 (prev_i i) i then r0 else tol) else mend in
             let m1 := if closed || negb (Nat.eqb (S i) n) then (if long2 i (next_i i) then r0 else tol) else mend in
             in_rect2 e h m0 m1 q) (index_from 0 es)
   || (sc_discs c &&
       existsb (fun ie => let '(i, e) := ie in
                  (closed || negb (Nat.eqb i 0)) &&
                  let v := fst e in let D := dist2_pp q v in
                  pt_within q v h && sqrt_plus_le D tol (nthZ ls (prev_i i)) && sqrt_plus_le D tol (nthZ ls i))
               (index_from 0 es))
   || (sc_enddisc_lo c && negb closed &&
       existsb (fun ie => let '(i, e) := ie in
                  (Nat.eqb i 0 && (let v := fst e in pt_within q v h && sqrt_plus_le (dist2_pp q v) tol (nthZ ls i)))
                  || (Nat.eqb (S i) n && (let v := snd e in pt_within q v h && sqrt_plus_le (dist2_pp q v) tol (nthZ ls i))))
               (index_from 0 es))
   || (exact && near_some (fst h) (snd h) es q)).

(* must-uncover set of one path (len >= 2): q is outside every enlarged piece *)
Definition stroke_out (c : stroke_cfg) (d tol : rat) (p : path) (q : pt) : bool :=
  let es := path_edges (sc_closed c) p in
  let n := length es in
  let h := radd d tol in
  forallb (fun ie => let '(i, e) := ie in
             let x0 := if negb (sc_closed c) && Nat.eqb i 0 then radd (sc_ext_hi c) tol else tol in
             let x1 := if negb (sc_closed c) && Nat.eqb (S i) n then radd (sc_ext_hi c) tol else tol in
             out_rect2 e h x0 x1 q) (index_from 0 es)
  && forallb (fun v => pt_beyond q v (radd (rmul (sc_fj c) d) tol)) (interior_vertices (sc_closed c) p)
  && match sc_fe c with
     | Some f => forallb (fun v => pt_beyond q v (radd (rmul f d) tol)) (end_vertices (sc_closed c) p)
     | None => true
     end.

(* single point: circle (round join) or square of "radius" d; nothing is required below d = 1 (the code emits nothing) *)
Definition point_lo (d tol : rat) (v : pt) (q : pt) : bool := rle (1, 1) d && pt_within q v (rsub d tol).
Definition point_out (jt : join_type) (d tol : rat) (v : pt) (q : pt) : bool :=
  pt_beyond q v (radd (rmul (if jt_eqb jt JRound then (1, 1) else sqrt2_ub) d) tol).

Definition path_lo jt et ml d tol (p : path) q : bool :=
  match p with
  | [] => false
  | [v] => point_lo d tol v q
  | _ => stroke_lo (cfg_of jt et ml d (length p))
                   (jt_eqb jt JRound && (et_eqb et ERound || et_eqb et EJoined || et_eqb et EPolygon)) d tol p q
  end.
Definition path_out jt et ml d tol (p : path) q : bool :=
  match p with
  | [] => true
  | [v] => point_out jt d tol v q
  | _ => stroke_out (cfg_of jt et ml d (length p)) d tol p q
  end.

(* the paths are stripped of duplicates as the Group constructor does *)
Definition c07_class (jt : join_type) (et : end_type) (ml d tol : rat) (ps0 : paths) (q : pt) : verdict :=
  let ps := group_paths ps0 et in
  if existsb (fun p => path_lo jt et ml d tol p q) ps then MustCover
  else if forallb (fun p => path_out jt et ml d tol p q) ps then MustUncover else Free.

Definition Z_of_verdict (v : verdict) : Z := match v with MustCover => 1 | MustUncover => 0 | Free => 2 end.
