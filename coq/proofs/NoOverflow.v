(* C10 -- "arithmetic is free of signed overflow up to 2^29", for the scalar kernels that cpp2v regenerates from the
   sources on every run (coq/gen/Gen_core.v, Gen_engine.v).

   The translation maps int64 arithmetic to unbounded Z (cpp2v/README.md: signed overflow is UB and is excluded by
   separate range side conditions).  This file supplies those side conditions.  For every kernel K:
     K_chk         a checked re-statement: every SIGNED int64 + - * of the C++ body goes through `chk`, which fails
                   when the mathematical result leaves [-2^63, 2^63); __int128 products through `chk128`;
     K_chk_sound   K_chk args = Some r -> r = K args      -- K_chk computes the translated function, so the checked
                   operations are the ones the translated body performs (the proof unfolds the GENERATED definition:
                   a change of what the C++ computes breaks it);
     K_chk_total   all coordinates within 2^29 in absolute value -> K_chk args <> None.
   Unsigned (uint64) arithmetic wraps and is no UB; double arithmetic cannot overflow into UB.  Conversions
   double -> int64 (TopX, GetSegmentIntersectPt, GetClosestPointOnSegment) are NOT covered: their range depends on
   binary64 rounding of quotients (TopX_chk takes the converted value as a parameter: `_partial`). *)
From Coq Require Import ZArith Lia Bool Floats.
From Clip Require Import base.Geom base.FloatModel base.CSem gen.Gen_core gen.Gen_engine.
Local Open Scope Z_scope.

Definition i64_ok (z : Z) : bool := (-9223372036854775808 <=? z) && (z <=? 9223372036854775807).
Definition i128_ok (z : Z) : bool :=
  (-170141183460469231731687303715884105728 <=? z) && (z <=? 170141183460469231731687303715884105727).
Definition chk (z : Z) : option Z := if i64_ok z then Some z else None.
Definition chk128 (z : Z) : option Z := if i128_ok z then Some z else None.

Lemma i64_ok_range : -9223372036854775808 = - 2 ^ 63 /\ 9223372036854775807 = 2 ^ 63 - 1.
Proof. split; reflexivity. Qed.
Lemma i128_ok_range : -170141183460469231731687303715884105728 = - 2 ^ 127 /\
                      170141183460469231731687303715884105727 = 2 ^ 127 - 1.
Proof. split; reflexivity. Qed.

Lemma chk_some z : -9223372036854775808 <= z <= 9223372036854775807 -> chk z = Some z.
Proof. intros H. unfold chk, i64_ok. replace (_ && _) with true; [reflexivity|]. symmetry. apply andb_true_iff. split; apply Z.leb_le; lia. Qed.
Lemma chk128_some z : -170141183460469231731687303715884105728 <= z <= 170141183460469231731687303715884105727 -> chk128 z = Some z.
Proof. intros H. unfold chk128, i128_ok. replace (_ && _) with true; [reflexivity|]. symmetry. apply andb_true_iff. split; apply Z.leb_le; lia. Qed.
Lemma chk_inv z r : chk z = Some r -> r = z.
Proof. unfold chk. destruct (i64_ok z); intros H; inversion H; reflexivity. Qed.
Lemma chk128_inv z r : chk128 z = Some r -> r = z.
Proof. unfold chk128. destruct (i128_ok z); intros H; inversion H; reflexivity. Qed.

Notation "'do' x <- e ; k" := (match e with Some x => k | None => None end) (at level 200, x name, e at level 100, k at level 200).

(* 2^29 = 536870912 *)
Definition small (p : pt) : Prop := Z.abs (px p) <= 536870912 /\ Z.abs (py p) <= 536870912.
Lemma small_bound : 536870912 = 2 ^ 29. Proof. reflexivity. Qed.

Ltac inv_chk :=
  repeat match goal with
         | H : match chk ?z with Some _ => _ | None => None end = Some _ |- _ =>
             let E := fresh "E" in destruct (chk z) eqn:E; [apply chk_inv in E; subst|discriminate H]
         | H : match chk128 ?z with Some _ => _ | None => None end = Some _ |- _ =>
             let E := fresh "E" in destruct (chk128 z) eqn:E; [apply chk128_inv in E; subst|discriminate H]
         end.
Lemma some_inj {A} (x y : A) : Some x = Some y -> x = y.
Proof. intros H. inversion H. reflexivity. Qed.
Ltac sound K G := intros H; unfold K in H; inv_chk; apply some_inj in H; rewrite <- H; unfold G; reflexivity.
Lemma mul_in_i128 a b : Z.abs a <= 1073741824 -> Z.abs b <= 1073741824 ->
  -170141183460469231731687303715884105728 <= a * b <= 170141183460469231731687303715884105727.
Proof.
  intros Ha Hb. assert (H : Z.abs (a * b) <= 1073741824 * 1073741824) by (rewrite Z.abs_mul; apply Z.mul_le_mono_nonneg; lia).
  lia.
Qed.
Lemma mul_sign_in_i64 a b : -1 <= a <= 1 -> -1 <= b <= 1 -> -9223372036854775808 <= a * b <= 9223372036854775807.
Proof.
  intros Ha Hb. assert (H : Z.abs (a * b) <= 1 * 1) by (rewrite Z.abs_mul; apply Z.mul_le_mono_nonneg; lia). lia.
Qed.
Ltac bounds := unfold small, px, py in *; cbn [fst snd] in *; lia.
Ltac total := repeat (first [rewrite chk_some by bounds | rewrite chk128_some by (apply mul_in_i128; bounds)]); eexists; reflexivity.

(* ------------------------------------------------------------------ MidPoint: (p1.x + p2.x) / 2 *)
Definition MidPoint_chk (p1 p2 : pt) : option pt :=
  do sx <- chk (px p1 + px p2); do sy <- chk (py p1 + py p2); Some (Z.quot sx 2, Z.quot sy 2).
Lemma MidPoint_chk_sound p1 p2 r : MidPoint_chk p1 p2 = Some r -> r = MidPoint p1 p2.
Proof. sound MidPoint_chk MidPoint. Qed.
Lemma MidPoint_chk_total p1 p2 : small p1 -> small p2 -> exists r, MidPoint_chk p1 p2 = Some r.
Proof. intros [? ?] [? ?]. unfold MidPoint_chk. total. Qed.

(* ------------------------------------------------------------------ CrossProductSign (__int128 branch) *)
Definition CrossProductSign_int128_chk (pt1 pt2 pt3 : pt) : option Z :=
  do a <- chk (px pt2 - px pt1); do b <- chk (py pt3 - py pt2);
  do c <- chk (py pt2 - py pt1); do d <- chk (px pt3 - px pt2);
  do ab <- chk128 (a * b); do cd <- chk128 (c * d);
  Some (if cd <? ab then 1 else if ab <? cd then (-1) else 0).
Lemma CrossProductSign_int128_chk_sound p1 p2 p3 r :
  CrossProductSign_int128_chk p1 p2 p3 = Some r -> r = CrossProductSign_int128 p1 p2 p3.
Proof. sound CrossProductSign_int128_chk CrossProductSign_int128. Qed.
Lemma CrossProductSign_int128_chk_total p1 p2 p3 : small p1 -> small p2 -> small p3 ->
  exists r, CrossProductSign_int128_chk p1 p2 p3 = Some r.
Proof. intros [? ?] [? ?] [? ?]. unfold CrossProductSign_int128_chk. total. Qed.

(* ------------------------------------------------------------------ CrossProductSign (portable branch): the signed
   operations are the four differences, std::abs of them (undefined for INT64_MIN) and TriSign(a) * TriSign(b) (int) *)
Definition abs_chk (z : Z) : option Z := chk (Z.abs z).
Definition CrossProductSign_portable_chk (pt1 pt2 pt3 : pt) : option Z :=
  do a <- chk (px pt2 - px pt1); do b <- chk (py pt3 - py pt2);
  do c <- chk (py pt2 - py pt1); do d <- chk (px pt3 - px pt2);
  do aa <- chk (Z.abs a); do ab_ <- chk (Z.abs b); do ac <- chk (Z.abs c); do ad <- chk (Z.abs d);
  do sab <- chk (TriSign a * TriSign b); do scd <- chk (TriSign c * TriSign d);
  Some (let ab := Multiply (wrap64 aa) (wrap64 ab_) in
        let cd := Multiply (wrap64 ac) (wrap64 ad) in
        if sab =? scd then
          (let k := fun (result : Z) => if 0 <? sab then result else Z.opp result in
           if u128_hi ab =? u128_hi cd then
             (if u128_lo ab =? u128_lo cd then 0 else
              let result := if u128_lo cd <? u128_lo ab then 1 else (-1) in
              k result) else
           let result := if u128_hi cd <? u128_hi ab then 1 else (-1) in
           k result)
        else if scd <? sab then 1 else (-1)).
Lemma CrossProductSign_portable_chk_sound p1 p2 p3 r :
  CrossProductSign_portable_chk p1 p2 p3 = Some r -> r = CrossProductSign_portable p1 p2 p3.
Proof. sound CrossProductSign_portable_chk CrossProductSign_portable. Qed.
Lemma TriSign_range x : -1 <= TriSign x <= 1.
Proof. unfold TriSign, b2z. destruct (0 <? x), (x <? 0); lia. Qed.
Lemma CrossProductSign_portable_chk_total p1 p2 p3 : small p1 -> small p2 -> small p3 ->
  exists r, CrossProductSign_portable_chk p1 p2 p3 = Some r.
Proof.
  intros [? ?] [? ?] [? ?]. unfold CrossProductSign_portable_chk.
  repeat (rewrite chk_some by bounds).
  rewrite (chk_some (TriSign _ * TriSign _)) by (apply mul_sign_in_i64; apply TriSign_range).
  rewrite (chk_some (TriSign _ * TriSign _)) by (apply mul_sign_in_i64; apply TriSign_range).
  eexists; reflexivity.
Qed.

(* ------------------------------------------------------------------ IsCollinear *)
Definition IsCollinear_chk (pt1 sharedPt pt2 : pt) : option bool :=
  do a <- chk (px sharedPt - px pt1); do b <- chk (py pt2 - py sharedPt);
  do c <- chk (py sharedPt - py pt1); do d <- chk (px pt2 - px sharedPt);
  do ab <- chk128 (a * b); do cd <- chk128 (c * d); Some (ab =? cd).
Lemma IsCollinear_chk_sound p1 p2 p3 r : IsCollinear_chk p1 p2 p3 = Some r -> r = IsCollinear p1 p2 p3.
Proof. intros H; unfold IsCollinear_chk in H; inv_chk; apply some_inj in H; rewrite <- H; unfold IsCollinear, ProductsAreEqual_int128; reflexivity. Qed.
Lemma IsCollinear_chk_total p1 p2 p3 : small p1 -> small p2 -> small p3 -> exists r, IsCollinear_chk p1 p2 p3 = Some r.
Proof. intros [? ?] [? ?] [? ?]. unfold IsCollinear_chk. total. Qed.

(* ------------------------------------------------------------------ CrossProduct / DotProduct: the differences are formed
   in int64 before the conversion to double *)
Definition CrossProduct_chk (pt1 pt2 pt3 : pt) : option float :=
  do a <- chk (px pt2 - px pt1); do b <- chk (py pt3 - py pt2);
  do c <- chk (py pt2 - py pt1); do d <- chk (px pt3 - px pt2);
  Some ((Z2F a * Z2F b) - (Z2F c * Z2F d))%float.
Lemma CrossProduct_chk_sound p1 p2 p3 r : CrossProduct_chk p1 p2 p3 = Some r -> r = CrossProduct p1 p2 p3.
Proof. sound CrossProduct_chk CrossProduct. Qed.
Lemma CrossProduct_chk_total p1 p2 p3 : small p1 -> small p2 -> small p3 -> exists r, CrossProduct_chk p1 p2 p3 = Some r.
Proof. intros [? ?] [? ?] [? ?]. unfold CrossProduct_chk. total. Qed.

Definition DotProduct_chk (pt1 pt2 pt3 : pt) : option float :=
  do a <- chk (px pt2 - px pt1); do b <- chk (px pt3 - px pt2);
  do c <- chk (py pt2 - py pt1); do d <- chk (py pt3 - py pt2);
  Some ((Z2F a * Z2F b) + (Z2F c * Z2F d))%float.
Lemma DotProduct_chk_sound p1 p2 p3 r : DotProduct_chk p1 p2 p3 = Some r -> r = DotProduct p1 p2 p3.
Proof. sound DotProduct_chk DotProduct. Qed.
Lemma DotProduct_chk_total p1 p2 p3 : small p1 -> small p2 -> small p3 -> exists r, DotProduct_chk p1 p2 p3 = Some r.
Proof. intros [? ?] [? ?] [? ?]. unfold DotProduct_chk. total. Qed.

(* ------------------------------------------------------------------ PerpendicDistFromLineSqrd *)
Definition PerpendicDistFromLineSqrd_chk (pt_ line1 line2 : pt) : option float :=
  do a <- chk (px pt_ - px line1); do b <- chk (py pt_ - py line1);
  do c <- chk (px line2 - px line1); do d <- chk (py line2 - py line1);
  Some (let a := Z2F a in let b := Z2F b in let c := Z2F c in let d := Z2F d in
        if (c =? 0)%float && (d =? 0)%float then 0%float
        else (Sqr_d ((a * d) - (c * b)) / ((c * c) + (d * d)))%float).
Lemma PerpendicDistFromLineSqrd_chk_sound p1 p2 p3 r :
  PerpendicDistFromLineSqrd_chk p1 p2 p3 = Some r -> r = PerpendicDistFromLineSqrd p1 p2 p3.
Proof. sound PerpendicDistFromLineSqrd_chk PerpendicDistFromLineSqrd. Qed.
Lemma PerpendicDistFromLineSqrd_chk_total p1 p2 p3 : small p1 -> small p2 -> small p3 ->
  exists r, PerpendicDistFromLineSqrd_chk p1 p2 p3 = Some r.
Proof. intros [? ?] [? ?] [? ?]. unfold PerpendicDistFromLineSqrd_chk. total. Qed.

(* ------------------------------------------------------------------ GetDx (clipper.engine.cpp) *)
Definition GetDx_chk (pt1 pt2 : pt) : option float :=
  do dyi <- chk (py pt2 - py pt1);
  let dy := Z2F dyi in
  if negb (dy =? 0)%float then (do dxi <- chk (px pt2 - px pt1); Some (Z2F dxi / dy)%float)
  else Some (if px pt1 <? px pt2 then PrimFloat.opp DBL_MAX else DBL_MAX).
Lemma GetDx_chk_sound p1 p2 r : GetDx_chk p1 p2 = Some r -> r = GetDx p1 p2.
Proof.
  intros H. unfold GetDx_chk, GetDx in *. cbv zeta in *. inv_chk.
  destruct (negb (Z2F (py p2 - py p1) =? 0)%float); inv_chk; inversion H; reflexivity.
Qed.
Lemma GetDx_chk_total p1 p2 : small p1 -> small p2 -> exists r, GetDx_chk p1 p2 = Some r.
Proof.
  intros [? ?] [? ?]. unfold GetDx_chk. rewrite chk_some by bounds. cbv zeta.
  destruct (negb (Z2F (py p2 - py p1) =? 0)%float); [rewrite chk_some by bounds|]; eexists; reflexivity.
Qed.

(* ------------------------------------------------------------------ PtsReallyClose: std::llabs(pt1.x - pt2.x) *)
Definition PtsReallyClose_chk (pt1 pt2 : pt) : option bool :=
  do dx <- chk (px pt1 - px pt2); do ax <- chk (Z.abs dx);
  if ax <? 2 then (do dy <- chk (py pt1 - py pt2); do ay <- chk (Z.abs dy); Some (ay <? 2)) else Some false.
Lemma PtsReallyClose_chk_sound p1 p2 r : PtsReallyClose_chk p1 p2 = Some r -> r = PtsReallyClose p1 p2.
Proof.
  intros H. unfold PtsReallyClose_chk, PtsReallyClose in *. inv_chk.
  destruct (Z.abs (px p1 - px p2) <? 2); inv_chk; inversion H; reflexivity.
Qed.
Lemma PtsReallyClose_chk_total p1 p2 : small p1 -> small p2 -> exists r, PtsReallyClose_chk p1 p2 = Some r.
Proof.
  intros [? ?] [? ?]. unfold PtsReallyClose_chk. repeat (rewrite chk_some by bounds).
  destruct (Z.abs (px p1 - px p2) <? 2); [repeat (rewrite chk_some by bounds)|]; eexists; reflexivity.
Qed.

(* ------------------------------------------------------------------ TopX: integer part only.  `conv` stands for
   static_cast<int64_t>(std::nearbyint(ae.dx * (currentY - ae.bot.y))); that it is within 2^62 is a hypothesis here
   (for currentY inside the edge's y range it is bounded by the edge's x extent up to rounding; not proved). *)
Definition TopX_chk (ae : Active) (currentY : Z) (conv : float -> Z) : option Z :=
  if (currentY =? py (top ae)) || (px (top ae) =? px (bot ae)) then Some (px (top ae))
  else if currentY =? py (bot ae) then Some (px (bot ae))
  else do dy <- chk (currentY - py (bot ae)); chk (px (bot ae) + conv (dx ae * Z2F dy)%float).
Lemma TopX_chk_sound ae y r : TopX_chk ae y F2I64_rne = Some r -> r = TopX ae y.
Proof.
  intros H. unfold TopX_chk, TopX in *.
  destruct ((y =? py (top ae)) || (px (top ae) =? px (bot ae))); [inversion H; reflexivity|].
  destruct (y =? py (bot ae)); [inversion H; reflexivity|]. inv_chk. apply chk_inv in H. exact H.
Qed.
Lemma TopX_chk_total_partial ae y conv : small (bot ae) -> small (top ae) -> Z.abs y <= 536870912 ->
  (forall x, Z.abs (conv x) <= 4611686018427387904) -> exists r, TopX_chk ae y conv = Some r.
Proof.
  intros [? ?] [? ?] Hy Hc. unfold TopX_chk.
  destruct ((y =? py (top ae)) || (px (top ae) =? px (bot ae))); [eexists; reflexivity|].
  destruct (y =? py (bot ae)); [eexists; reflexivity|].
  rewrite chk_some by bounds.
  pose proof (Hc (dx ae * Z2F (y - py (bot ae)))%float).
  rewrite chk_some by bounds. eexists; reflexivity.
Qed.

(* ------------------------------------------------------------------ all together *)
Theorem no_overflow_2p29 (p1 p2 p3 : pt) : small p1 -> small p2 -> small p3 ->
  (exists r, MidPoint_chk p1 p2 = Some r /\ r = MidPoint p1 p2) /\
  (exists r, CrossProductSign_int128_chk p1 p2 p3 = Some r /\ r = CrossProductSign_int128 p1 p2 p3) /\
  (exists r, CrossProductSign_portable_chk p1 p2 p3 = Some r /\ r = CrossProductSign_portable p1 p2 p3) /\
  (exists r, IsCollinear_chk p1 p2 p3 = Some r /\ r = IsCollinear p1 p2 p3) /\
  (exists r, CrossProduct_chk p1 p2 p3 = Some r /\ r = CrossProduct p1 p2 p3) /\
  (exists r, DotProduct_chk p1 p2 p3 = Some r /\ r = DotProduct p1 p2 p3) /\
  (exists r, PerpendicDistFromLineSqrd_chk p1 p2 p3 = Some r /\ r = PerpendicDistFromLineSqrd p1 p2 p3) /\
  (exists r, GetDx_chk p1 p2 = Some r /\ r = GetDx p1 p2) /\
  (exists r, PtsReallyClose_chk p1 p2 = Some r /\ r = PtsReallyClose p1 p2).
Proof.
  intros H1 H2 H3.
  repeat split;
    [destruct (MidPoint_chk_total p1 p2 H1 H2) as [r E]; exists r; split; [exact E|apply MidPoint_chk_sound, E]
    |destruct (CrossProductSign_int128_chk_total p1 p2 p3 H1 H2 H3) as [r E]; exists r; split; [exact E|apply CrossProductSign_int128_chk_sound, E]
    |destruct (CrossProductSign_portable_chk_total p1 p2 p3 H1 H2 H3) as [r E]; exists r; split; [exact E|apply CrossProductSign_portable_chk_sound, E]
    |destruct (IsCollinear_chk_total p1 p2 p3 H1 H2 H3) as [r E]; exists r; split; [exact E|apply IsCollinear_chk_sound, E]
    |destruct (CrossProduct_chk_total p1 p2 p3 H1 H2 H3) as [r E]; exists r; split; [exact E|apply CrossProduct_chk_sound, E]
    |destruct (DotProduct_chk_total p1 p2 p3 H1 H2 H3) as [r E]; exists r; split; [exact E|apply DotProduct_chk_sound, E]
    |destruct (PerpendicDistFromLineSqrd_chk_total p1 p2 p3 H1 H2 H3) as [r E]; exists r; split; [exact E|apply PerpendicDistFromLineSqrd_chk_sound, E]
    |destruct (GetDx_chk_total p1 p2 H1 H2) as [r E]; exists r; split; [exact E|apply GetDx_chk_sound, E]
    |destruct (PtsReallyClose_chk_total p1 p2 H1 H2) as [r E]; exists r; split; [exact E|apply PtsReallyClose_chk_sound, E]].
Qed.

(* the hypothesis is satisfiable, and the checks are not vacuous: at 2^62 the difference of two coordinates leaves int64 *)
Example small_sat : small (536870912, -536870912).
Proof. split; cbn; lia. Qed.
Example chk_not_vacuous : CrossProduct_chk (-4611686018427387904, 0) (4611686018427387904, 0) (0, 1) = None.
Proof. reflexivity. Qed.
