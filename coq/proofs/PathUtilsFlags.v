(* GetNext / GetPrior: specification of the fuelled, bounds-checked models.
   With at least one unflagged index <= high they return (never ErrOOB / ErrFuel) the cyclically next / previous
   unflagged index. *)
From Coq Require Import ZArith List Bool Lia Arith.
From Clip Require Import base.Geom model.PathUtils proofs.PathUtilsBase.
Import ListNotations.
Local Open Scope nat_scope.

Definition flagged (fl : list bool) (i : nat) : Prop := nth_error fl i = Some true.
Definition unflagged (fl : list bool) (i : nat) : Prop := nth_error fl i = Some false.

Lemma flag_cases fl i : i < length fl -> flagged fl i \/ unflagged fl i.
Proof.
  intros H. unfold flagged, unflagged. destruct (nth_error fl i) as [[|]|] eqn:E; auto.
  apply nth_error_None in E. lia.
Qed.

Lemma flagged_not_unflagged fl i : flagged fl i -> unflagged fl i -> False.
Proof. unfold flagged, unflagged. congruence. Qed.

(* c' is the first unflagged index cyclically after c *)
Definition next_spec (fl : list bool) (high c c' : nat) : Prop :=
  c' <= high /\ unflagged fl c' /\
  ((c < c' /\ forall j, c < j < c' -> flagged fl j) \/
   (c' <= c /\ (forall j, c < j <= high -> flagged fl j) /\ (forall j, j < c' -> flagged fl j))).

(* c' is the first unflagged index cyclically before c *)
Definition prior_spec (fl : list bool) (high c c' : nat) : Prop :=
  c' <= high /\ unflagged fl c' /\
  ((c' < c /\ forall j, c' < j < c -> flagged fl j) \/
   (c <= c' /\ (forall j, j < c -> flagged fl j) /\ (forall j, c' < j <= high -> flagged fl j))).

Section Scan.
  Variable fl : list bool.
  Variable high : nat.
  Hypothesis Hlen : length fl = S high.

  Lemma scan_up_spec : forall fuel c, c <= S high -> S high - c < fuel ->
    exists c', scan_up fuel c high fl = Ok c' /\ c <= c' <= S high /\
               (forall j, c <= j < c' -> flagged fl j) /\ (c' <= high -> unflagged fl c').
  Proof.
    induction fuel as [|fuel IH]; intros c Hc Hf; [lia|].
    cbn [scan_up]. destruct (c <=? high) eqn:E.
    - apply Nat.leb_le in E.
      destruct (flag_cases fl c ltac:(lia)) as [Hfc|Hfc].
      + unfold rd. rewrite Hfc. cbn [bind].
        destruct (IH (S c) ltac:(lia) ltac:(lia)) as (c' & H1 & H2 & H3 & H4).
        exists c'. split; [first [assumption|reflexivity]|]. split; [lia|]. split; [|auto; intros; lia].
        intros j Hj. destruct (Nat.eq_dec j c) as [->|]; [exact Hfc|apply H3; lia].
      + unfold rd. rewrite Hfc. cbn [bind]. exists c. split; [first [assumption|reflexivity]|]. split; [lia|]. split; [|auto; intros; lia].
        intros j Hj; lia.
    - apply Nat.leb_gt in E. exists c. split; [reflexivity|]. split; [lia|]. split; [intros j Hj; lia|intros; lia].
  Qed.

  Lemma scan_up_nl_spec u : u <= high -> unflagged fl u ->
    forall fuel c, c <= u -> u - c < fuel ->
    exists c', scan_up_nl fuel c fl = Ok c' /\ c <= c' <= u /\
               (forall j, c <= j < c' -> flagged fl j) /\ unflagged fl c'.
  Proof.
    intros Hu Hfu. induction fuel as [|fuel IH]; intros c Hc Hf; [lia|].
    cbn [scan_up_nl].
    destruct (flag_cases fl c ltac:(lia)) as [Hfc|Hfc].
    - unfold rd. rewrite Hfc. cbn [bind].
      assert (c <> u) by (intros ->; eapply flagged_not_unflagged; eauto).
      destruct (IH (S c) ltac:(lia) ltac:(lia)) as (c' & H1 & H2 & H3 & H4).
      exists c'. split; [first [assumption|reflexivity]|]. split; [lia|]. split; [|auto; intros; lia].
      intros j Hj. destruct (Nat.eq_dec j c) as [->|]; [exact Hfc|apply H3; lia].
    - unfold rd. rewrite Hfc. cbn [bind]. exists c. split; [first [assumption|reflexivity]|]. split; [lia|]. split; [|auto; intros; lia].
      intros j Hj; lia.
  Qed.

  Lemma get_next_spec c u : c <= high -> u <= high -> unflagged fl u ->
    exists c', get_next c high fl = Ok c' /\ next_spec fl high c c'.
  Proof.
    intros Hc Hu Hfu. unfold get_next.
    destruct (scan_up_spec (S (S high)) (S c) ltac:(lia) ltac:(lia)) as (c1 & H1 & H2 & H3 & H4).
    rewrite H1. cbn [bind]. destruct (c1 <=? high) eqn:E.
    - apply Nat.leb_le in E. exists c1. split; [reflexivity|].
      split; [lia|]. split; [auto|]. left. split; [lia|]. intros j Hj; apply H3; lia.
    - apply Nat.leb_gt in E. assert (c1 = S high) by lia; subst c1.
      assert (Huc : u <= c).
      { destruct (le_lt_dec u c); [assumption|]. exfalso.
        eapply flagged_not_unflagged; [apply (H3 u); lia|exact Hfu]. }
      destruct (scan_up_nl_spec u Hu Hfu (S (S high)) 0 ltac:(lia) ltac:(lia)) as (c' & G1 & G2 & G3 & G4).
      exists c'. split; [exact G1|]. split; [lia|]. split; [exact G4|]. right.
      split; [lia|]. split; [intros j Hj; apply H3; lia|intros j Hj; apply G3; lia].
  Qed.

  Lemma scan_down_spec : forall fuel c, c <= high -> c < fuel ->
    exists c', scan_down fuel c fl = Ok c' /\ c' <= c /\
               (forall j, c' < j <= c -> flagged fl j) /\ (0 < c' -> unflagged fl c').
  Proof.
    induction fuel as [|fuel IH]; intros c Hc Hf; [lia|].
    cbn [scan_down]. destruct (0 <? c) eqn:E.
    - apply Nat.ltb_lt in E.
      destruct (flag_cases fl c ltac:(lia)) as [Hfc|Hfc].
      + unfold rd. rewrite Hfc. cbn [bind].
        destruct (IH (c - 1) ltac:(lia) ltac:(lia)) as (c' & H1 & H2 & H3 & H4).
        exists c'. split; [first [assumption|reflexivity]|]. split; [lia|]. split; [|auto; intros; lia].
        intros j Hj. destruct (Nat.eq_dec j c) as [->|]; [exact Hfc|apply H3; lia].
      + unfold rd. rewrite Hfc. cbn [bind]. exists c. split; [first [assumption|reflexivity]|]. split; [lia|]. split; [|auto; intros; lia].
        intros j Hj; lia.
    - apply Nat.ltb_ge in E. exists c. split; [reflexivity|]. split; [lia|]. split; [intros j Hj; lia|intros; lia].
  Qed.

  Lemma scan_down_nl_spec u : unflagged fl u ->
    forall fuel c, u <= c -> c <= high -> c - u < fuel ->
    exists c', scan_down_nl fuel c fl = Ok c' /\ u <= c' <= c /\
               (forall j, c' < j <= c -> flagged fl j) /\ unflagged fl c'.
  Proof.
    intros Hfu. induction fuel as [|fuel IH]; intros c Huc Hc Hf; [lia|].
    cbn [scan_down_nl].
    destruct (flag_cases fl c ltac:(lia)) as [Hfc|Hfc].
    - unfold rd. rewrite Hfc. cbn [bind].
      assert (c <> u) by (intros ->; eapply flagged_not_unflagged; eauto).
      destruct c as [|c0]; [lia|].
      destruct (IH c0 ltac:(lia) ltac:(lia) ltac:(lia)) as (c' & H1 & H2 & H3 & H4).
      exists c'. split; [first [assumption|reflexivity]|]. split; [lia|]. split; [|auto; intros; lia].
      intros j Hj. destruct (Nat.eq_dec j (S c0)) as [->|]; [exact Hfc|apply H3; lia].
    - unfold rd. rewrite Hfc. cbn [bind]. exists c. split; [first [assumption|reflexivity]|]. split; [lia|]. split; [|auto; intros; lia].
      intros j Hj; lia.
  Qed.

  Lemma get_prior_spec c u : c <= high -> u <= high -> unflagged fl u ->
    exists c', get_prior c high fl = Ok c' /\ prior_spec fl high c c'.
  Proof.
    intros Hc Hu Hfu. unfold get_prior.
    destruct (c =? 0) eqn:E0.
    - apply Nat.eqb_eq in E0; subst c.
      destruct (scan_down_spec (S (S high)) high ltac:(lia) ltac:(lia)) as (c1 & H1 & H2 & H3 & H4).
      rewrite H1. cbn [bind].
      destruct (flag_cases fl c1 ltac:(lia)) as [Hf1|Hf1]; unfold rd; rewrite Hf1; cbn [bind negb].
      + (* c1 = 0 and flagged: everything in [0, high] is flagged, impossible *)
        assert (c1 = 0).
        { destruct c1; [reflexivity|]. exfalso. eapply flagged_not_unflagged; [exact Hf1|apply H4; lia]. }
        subst c1. exfalso.
        destruct (Nat.eq_dec u 0) as [->|]; [eapply flagged_not_unflagged; eauto|].
        eapply flagged_not_unflagged; [apply (H3 u); lia|exact Hfu].
      + exists c1. split; [reflexivity|]. split; [lia|]. split; [exact Hf1|]. right.
        split; [lia|]. split; [intros j Hj; lia|intros j Hj; apply H3; lia].
    - apply Nat.eqb_neq in E0.
      destruct (scan_down_spec (S (S high)) (c - 1) ltac:(lia) ltac:(lia)) as (c1 & H1 & H2 & H3 & H4).
      rewrite H1. cbn [bind].
      destruct (flag_cases fl c1 ltac:(lia)) as [Hf1|Hf1]; unfold rd; rewrite Hf1; cbn [bind negb].
      + assert (c1 = 0).
        { destruct c1; [reflexivity|]. exfalso. eapply flagged_not_unflagged; [exact Hf1|apply H4; lia]. }
        subst c1.
        assert (Hall : forall j, j < c -> flagged fl j).
        { intros j Hj. destruct (Nat.eq_dec j 0) as [->|]; [exact Hf1|apply H3; lia]. }
        assert (Huc : c <= u).
        { destruct (le_lt_dec c u); [assumption|]. exfalso.
          eapply flagged_not_unflagged; [apply (Hall u); lia|exact Hfu]. }
        destruct (scan_down_nl_spec u Hfu (S (S high)) high ltac:(lia) ltac:(lia) ltac:(lia)) as (c' & G1 & G2 & G3 & G4).
        exists c'. split; [exact G1|]. split; [lia|]. split; [exact G4|]. right.
        split; [lia|]. split; [exact Hall|intros j Hj; apply G3; lia].
      + exists c1. split; [reflexivity|]. split; [lia|]. split; [exact Hf1|]. left.
        split; [lia|]. intros j Hj; apply H3; lia.
  Qed.
End Scan.

(* ------------------------------------------------------------------ consequences of the specs *)
Lemma next_spec_self fl high c : next_spec fl high c c ->
  forall u, u <= high -> u <> c -> flagged fl u.
Proof.
  intros (H1 & H2 & [[H3 _]|(H3 & H4 & H5)]) u Hu Hne; [lia|].
  destruct (lt_dec u c); [apply H5; lia|apply H4; lia].
Qed.

Lemma next_spec_unique fl high c c1 c2 : next_spec fl high c c1 -> next_spec fl high c c2 -> c1 = c2.
Proof.
  intros (A1 & A2 & A3) (B1 & B2 & B3).
  destruct (Nat.eq_dec c1 c2) as [|Hne]; [assumption|exfalso].
  destruct A3 as [[A3 A4]|(A3 & A4 & A5)], B3 as [[B3 B4]|(B3 & B4 & B5)].
  - destruct (lt_dec c1 c2).
    + eapply flagged_not_unflagged; [apply (B4 c1); lia|exact A2].
    + eapply flagged_not_unflagged; [apply (A4 c2); lia|exact B2].
  - eapply flagged_not_unflagged; [apply (B4 c1); lia|exact A2].
  - eapply flagged_not_unflagged; [apply (A4 c2); lia|exact B2].
  - destruct (lt_dec c1 c2).
    + eapply flagged_not_unflagged; [apply (B5 c1); lia|exact A2].
    + eapply flagged_not_unflagged; [apply (A5 c2); lia|exact B2].
Qed.

Lemma prior_spec_unique fl high c c1 c2 : prior_spec fl high c c1 -> prior_spec fl high c c2 -> c1 = c2.
Proof.
  intros (A1 & A2 & A3) (B1 & B2 & B3).
  destruct (Nat.eq_dec c1 c2) as [|Hne]; [assumption|exfalso].
  destruct A3 as [[A3 A4]|(A3 & A4 & A5)], B3 as [[B3 B4]|(B3 & B4 & B5)].
  - destruct (lt_dec c1 c2).
    + eapply flagged_not_unflagged; [apply (A4 c2); lia|exact B2].
    + eapply flagged_not_unflagged; [apply (B4 c1); lia|exact A2].
  - eapply flagged_not_unflagged; [apply (B4 c1); lia|exact A2].
  - eapply flagged_not_unflagged; [apply (A4 c2); lia|exact B2].
  - destruct (lt_dec c1 c2).
    + eapply flagged_not_unflagged; [apply (A5 c2); lia|exact B2].
    + eapply flagged_not_unflagged; [apply (B5 c1); lia|exact A2].
Qed.

(* number of unflagged entries *)
Fixpoint count_false (fl : list bool) : nat :=
  match fl with [] => 0 | b :: t => (if b then 0 else 1) + count_false t end.

Lemma count_false_upd fl i fl' : unflagged fl i -> upd fl i true = Ok fl' -> S (count_false fl') = count_false fl.
Proof.
  revert i fl'; induction fl as [|b fl IH]; intros i fl' Hu H; [discriminate|].
  destruct i; cbn [upd] in H.
  - inversion H; subst. unfold unflagged in Hu. cbn in Hu. inversion Hu; subst. reflexivity.
  - apply bind_Ok in H as (t' & Ht & H). inversion H; subst. cbn [count_false].
    rewrite <- (IH i t' Hu Ht). lia.
Qed.

Lemma count_false_pos fl i : unflagged fl i -> 0 < count_false fl.
Proof.
  revert i; induction fl as [|b fl IH]; intros i H; [destruct i; discriminate|].
  destruct i; cbn in H.
  - inversion H; subst. cbn. lia.
  - cbn [count_false]. specialize (IH i H). lia.
Qed.

Lemma count_false_repeat n : count_false (repeat false n) = n.
Proof. induction n; cbn [repeat count_false]; lia. Qed.

Lemma unflagged_repeat n i : i < n -> unflagged (repeat false n) i.
Proof.
  intros H. unfold unflagged. rewrite (nth_error_nth' _ false) by (rewrite repeat_length; lia).
  f_equal. apply nth_repeat.
Qed.

Lemma unflagged_upd_other fl i j fl' : upd fl i true = Ok fl' -> j <> i -> unflagged fl j -> unflagged fl' j.
Proof. intros H Hn Hu. unfold unflagged. rewrite (upd_nth_other _ _ _ _ _ H Hn). exact Hu. Qed.
