(* C08 -- GetSegmentIntersection against an axis-parallel rectangle side, |coordinates| <= 2^25: every point it returns with
   result true lies within ONE unit of that side (perpendicular coordinate within 1 of the side's line, the other one within
   [min - 1, max + 1] of the side's extent).
   Combines the exact case analysis of proofs/RectClipLeaf.v (gsi_on_rect_partial) with the accuracy theorem for
   GetSegmentIntersectPt proved for C18 (proofs/Core_isect_acc.v: isect_accuracy_small_lo, within 1 + 2^-20 per axis of the
   exact crossing, which here has an integer perpendicular coordinate). *)
From Clip Require Import base.Geom base.FloatModel base.Winding base.CSem gen.Gen_core gen.Gen_rect.
From Clip Require Import model.CoreSpec proofs.Core_isect proofs.Core_isect_acc proofs.RectClipLeaf.
From Clip Require proofs.RectFloat.
From Coq Require Import ZArith List Bool Lia.
Local Open Scope Z_scope.

(* q is within one unit of the closed axis-parallel segment a-b, coordinate-wise *)
Definition near_side (a b q : pt) : Prop :=
  (px a = px b -> Z.abs (px q - px a) <= 1 /\ Z.min (py a) (py b) - 1 <= py q <= Z.max (py a) (py b) + 1)
  /\ (py a = py b -> Z.abs (py q - py a) <= 1 /\ Z.min (px a) (px b) - 1 <= px q <= Z.max (px a) (px b) + 1).

Lemma on_seg_near a b q : on_seg q (a, b) = true -> near_side a b q.
Proof.
  unfold on_seg, near_side, cross. intros H. b2p.
  split; intros E; nia.
Qed.

Lemma project_near a b q : axis_side a b -> near_side a b (project_on_side a b q).
Proof.
  unfold near_side, project_on_side, axis_side. intros Hax.
  destruct (px a =? px b) eqn:E1; [|destruct (py a =? py b) eqn:E2]; b2p; unfold px, py in *; cbn [fst snd];
    split; intros E; lia.
Qed.

(* cross-product form of "crossing properly" = the rational-parameter form of model/CoreSpec.v *)
Lemma proper_cross_spec p1 p2 p3 p4 : proper_cross p1 p2 p3 p4 -> properly_cross p1 p2 p3 p4 = true.
Proof.
  unfold proper_cross, properly_cross, frac_in_open. cbv zeta. intros [H1 H2].
  assert (T1 : cross p1 p3 p4 = - isect_tnum p1 p2 p3 p4) by (unfold cross, isect_tnum; ring).
  assert (T2 : cross p2 p3 p4 = isect_det p1 p2 p3 p4 - isect_tnum p1 p2 p3 p4) by (unfold cross, isect_tnum, isect_det; ring).
  assert (U1 : cross p3 p1 p2 = isect_unum p1 p2 p3 p4) by (unfold cross, isect_unum; ring).
  assert (U2 : cross p4 p1 p2 = isect_unum p1 p2 p3 p4 - isect_det p1 p2 p3 p4) by (unfold cross, isect_unum, isect_det; ring).
  rewrite T1, T2 in H1. rewrite U1, U2 in H2.
  set (D := isect_det p1 p2 p3 p4) in *. set (T := isect_tnum p1 p2 p3 p4) in *. set (U := isect_unum p1 p2 p3 p4) in *.
  assert (D <> 0) by nia.
  destruct (Z.lt_trichotomy D 0) as [Hd|[Hd|Hd]]; [|contradiction|].
  - rewrite (Z.sgn_neg D Hd), (Z.abs_neq D) by lia.
    repeat (apply andb_true_iff; split); try (apply negb_true_iff, Z.eqb_neq; assumption); apply Z.ltb_lt; nia.
  - rewrite (Z.sgn_pos D Hd), (Z.abs_eq D) by lia.
    repeat (apply andb_true_iff; split); try (apply negb_true_iff, Z.eqb_neq; assumption); apply Z.ltb_lt; nia.
Qed.

(* the accuracy clause of C18, read for a crossing with an axis-parallel segment c-d *)
Lemma within_near a b c d ip :
  axis_side c d -> properly_cross a b c d = true ->
  isect_within (2 ^ 20 + 1) (2 ^ 20) a b c d ip = true -> near_side c d ip.
Proof.
  unfold properly_cross, frac_in_open, isect_within, near_side, axis_side. cbv zeta. intros Hax PC W.
  b2p. repeat match goal with H : negb _ = true |- _ => apply negb_true_iff in H end. b2p.
  set (D := isect_det a b c d) in *. set (T := isect_tnum a b c d) in *. set (U := isect_unum a b c d) in *.
  (* the exact crossing is a + (T/D)(b - a) = c + (U/D)(d - c) *)
  assert (EX : T * (px b - px a) = (px c - px a) * D + U * (px d - px c)) by (unfold T, U, D, isect_tnum, isect_unum, isect_det; ring).
  assert (EY : T * (py b - py a) = (py c - py a) * D + U * (py d - py c)) by (unfold T, U, D, isect_tnum, isect_unum, isect_det; ring).
  change (2 ^ 20) with 1048576 in *.
  assert (HD : 0 < Z.abs D) by lia.
  split; intros E.
  - (* vertical side: x is the perpendicular coordinate *)
    assert (PX : (px ip - px a) * D - T * (px b - px a) = (px ip - px c) * D) by (rewrite EX, E; ring).
    assert (PY : (py ip - py a) * D - T * (py b - py a) = (py ip - py c) * D - U * (py d - py c)) by (rewrite EY; ring).
    rewrite PX in *. rewrite PY in *. rewrite Z.abs_mul in *.
    split; [nia|].
    destruct (Z.lt_trichotomy D 0) as [Hd|[Hd|Hd]]; [|lia|];
      [rewrite (Z.sgn_neg D Hd), (Z.abs_neq D) in * by lia|rewrite (Z.sgn_pos D Hd), (Z.abs_eq D) in * by lia];
      destruct (Z.le_gt_cases (py c) (py d)); try rewrite Z.min_l by lia; try rewrite Z.max_r by lia;
      try rewrite Z.min_r by lia; try rewrite Z.max_l by lia; nia.
  - assert (PY : (py ip - py a) * D - T * (py b - py a) = (py ip - py c) * D) by (rewrite EY, E; ring).
    assert (PX : (px ip - px a) * D - T * (px b - px a) = (px ip - px c) * D - U * (px d - px c)) by (rewrite EX; ring).
    rewrite PX in *. rewrite PY in *. rewrite Z.abs_mul in *.
    split; [nia|].
    destruct (Z.lt_trichotomy D 0) as [Hd|[Hd|Hd]]; [|lia|];
      [rewrite (Z.sgn_neg D Hd), (Z.abs_neq D) in * by lia|rewrite (Z.sgn_pos D Hd), (Z.abs_eq D) in * by lia];
      destruct (Z.le_gt_cases (px c) (px d)); try rewrite Z.min_l by lia; try rewrite Z.max_r by lia;
      try rewrite Z.min_r by lia; try rewrite Z.max_l by lia; nia.
Qed.

Lemma small_coords p1 p2 p3 p4 :
  RectFloat.small_pt p1 -> RectFloat.small_pt p2 -> RectFloat.small_pt p3 -> RectFloat.small_pt p4 -> coords_le (2 ^ 25) p1 p2 p3 p4.
Proof. unfold RectFloat.small_pt, coords_le, pt_le. tauto. Qed.

Theorem gsi_on_rect p1 p2 p3 p4 ip q :
  RectFloat.small_pt p1 -> RectFloat.small_pt p2 -> RectFloat.small_pt p3 -> RectFloat.small_pt p4 -> axis_side p3 p4 ->
  GetSegmentIntersection p1 p2 p3 p4 ip = (true, q) -> near_side p3 p4 q.
Proof.
  intros S1 S2 S3 S4 Hax H.
  destruct (gsi_on_rect_partial p1 p2 p3 p4 ip q S1 S2 S3 S4 Hax H) as [(A & _ & _)|(PC & q0 & G & [-> | ->])].
  - apply on_seg_near, A.
  - pose proof (proper_cross_spec _ _ _ _ PC) as PC'.
    destruct (isect_accuracy_small_lo p1 p2 p3 p4 ip (small_coords _ _ _ _ S1 S2 S3 S4) PC') as (_ & _ & W).
    rewrite G in W. cbn [snd] in W. apply (within_near p1 p2 p3 p4 q0 Hax PC' W).
  - apply project_near, Hax.
Qed.

(* the hypotheses are satisfiable (the crossing of this edge with the side x = 10 of Rect64(-20,-26,10,4) used to be returned as
   (9,-16), one unit off the side, before GetSegmentIntersection projected the point onto the side) *)
Example gsi_on_rect_sat :
  RectFloat.small_pt (98, -27) /\ axis_side (10, -26) (10, 4)
  /\ fst (GetSegmentIntersection (98, -27) (-69, -7) (10, -26) (10, 4) (0, 0)) = true
  /\ near_side (10, -26) (10, 4) (snd (GetSegmentIntersection (98, -27) (-69, -7) (10, -26) (10, 4) (0, 0))).
Proof.
  split; [unfold RectFloat.small_pt; cbn; lia|]. split; [left; cbn; lia|].
  destruct (GetSegmentIntersection (98, -27) (-69, -7) (10, -26) (10, 4) (0, 0)) as [b q] eqn:E.
  vm_compute in E. inversion E; subst. split; [reflexivity|].
  unfold near_side, px, py; cbn [fst snd]. lia.
Qed.
