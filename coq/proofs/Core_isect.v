(* C18, GetSegmentIntersectPt (both variants, as regenerated in coq/gen/Gen_core.v):
     - parallelism is reported exactly for |coordinates| <= 2^25 (every product of two coordinate
       differences is an integer below 2^53, so the double determinant is the exact one);
     - the accuracy clause of the property is false at |coordinates| <= 2^40 (witnesses, vm_compute), and,
       for the truncating variant, already false by a hair at |coordinates| <= 2^25.
   The proofs unfold the generated definitions and reason about whatever float expression is compared
   with 0, so renaming locals or reordering independent statements does not disturb them. *)
From Coq Require Import ZArith Lia Bool Floats.
From Clip Require Import base.Geom base.FloatModel base.CSem gen.Gen_core model.CoreSpec proofs.Core_float.
Local Open Scope Z_scope.

(* ------------------------------------------------------------------ integer value of a float expression *)
Ltac zof e :=
  lazymatch e with
  | Z2F ?z => constr:(z)
  | PrimFloat.mul ?a ?b => let x := zof a in let y := zof b in constr:(x * y)
  | PrimFloat.add ?a ?b => let x := zof a in let y := zof b in constr:(x + y)
  | PrimFloat.sub ?a ?b => let x := zof a in let y := zof b in constr:(x - y)
  | 0%float => constr:(0)
  | 1%float => constr:(1)
  end.

(* proves [fint e z] for z = zof e, leaving the [small] side conditions *)
Ltac fint_prove :=
  lazymatch goal with
  | |- fint (Z2F _) _ => apply Z2F_fint
  | |- fint (PrimFloat.mul _ _) _ => apply fint_mul; [fint_prove | fint_prove | ]
  | |- fint (PrimFloat.add _ _) _ => apply fint_add; [fint_prove | fint_prove | ]
  | |- fint (PrimFloat.sub _ _) _ => apply fint_sub; [fint_prove | fint_prove | ]
  | |- fint 0%float _ => exact fint_zero
  | |- fint 1%float _ => exact fint_one
  end.

Lemma abs_mul_le x y X Y : Z.abs x <= X -> Z.abs y <= Y -> Z.abs (x * y) <= X * Y.
Proof. intros. rewrite Z.abs_mul. apply Z.mul_le_mono_nonneg; lia. Qed.
Lemma abs_sub_le x y X Y : Z.abs x <= X -> Z.abs y <= Y -> Z.abs (x - y) <= X + Y.
Proof. lia. Qed.
Lemma abs_add_le x y X Y : Z.abs x <= X -> Z.abs y <= Y -> Z.abs (x + y) <= X + Y.
Proof. lia. Qed.

(* bounds |e| <= K for polynomial e over atoms whose bounds |atom| <= B are hypotheses; K is computed *)
Ltac abs_bound :=
  lazymatch goal with
  | |- Z.abs (_ * _) <= _ => apply abs_mul_le; abs_bound
  | |- Z.abs (_ - _) <= _ => apply abs_sub_le; abs_bound
  | |- Z.abs (_ + _) <= _ => apply abs_add_le; abs_bound
  | |- _ => eassumption
  end.
(* |e| <= K for a given closed K *)
Ltac abs_le := eapply Z.le_trans; [abs_bound | apply Z.leb_le; vm_compute; reflexivity].

(* ------------------------------------------------------------------ hypotheses *)
Definition coords_le (B : Z) (a b c d : pt) : Prop := pt_le B a /\ pt_le B b /\ pt_le B c /\ pt_le B d.

Ltac open_coords H :=
  let Ha := fresh "Ha" in let Hb := fresh "Hb" in let Hc := fresh "Hc" in let Hd := fresh "Hd" in
  destruct H as (Ha & Hb & Hc & Hd); unfold pt_le in Ha, Hb, Hc, Hd;
  destruct Ha, Hb, Hc, Hd.

(* ------------------------------------------------------------------ parallelism *)
(* the float compared with 0 in the first test is the exact determinant (up to sign) *)
Ltac det_exact :=
  match goal with
  | |- context [PrimFloat.eqb ?e 0%float] =>
    let z := zof e in
    let F := fresh "F" in
    assert (F : fint e z) by (fint_prove; unfold small; abs_le);
    rewrite (fint_eqb _ _ _ _ F fint_zero)
  end.

Theorem isect_parallel_exact_lo a b c d ip :
  coords_le (2 ^ 25) a b c d ->
  fst (GetSegmentIntersectPt_lo a b c d ip) = negb (parallel a b c d).
Proof.
  intros H. open_coords H.
  unfold GetSegmentIntersectPt_lo, parallel, isect_det. cbv zeta.
  det_exact.
  match goal with |- context [?z =? 0] =>
    replace ((py b - py a) * (px d - px c) - (py d - py c) * (px b - px a)) with z by ring;
    destruct (z =? 0) end; [reflexivity|].
  repeat match goal with |- context [if ?c then _ else _] => destruct c end; reflexivity.
Qed.

Theorem isect_parallel_exact_hi a b c d ip :
  coords_le (2 ^ 25) a b c d ->
  fst (GetSegmentIntersectPt_hi a b c d ip) = negb (parallel a b c d).
Proof.
  intros H. open_coords H.
  unfold GetSegmentIntersectPt_hi, parallel, isect_det. cbv zeta.
  det_exact.
  match goal with |- context [?z =? 0] =>
    assert (E : ((py b - py a) * (px d - px c) - (py d - py c) * (px b - px a) =? 0) = (z =? 0))
      by (destruct (z =? 0) eqn:?, ((py b - py a) * (px d - px c) - (py d - py c) * (px b - px a) =? 0) eqn:?; try reflexivity; exfalso; nia);
    rewrite E; destruct (z =? 0) end; reflexivity.
Qed.

Example coords_le_sat : coords_le (2 ^ 25) (0, 0) (2 ^ 25, - 2 ^ 25) (3, 4) (-5, 2 ^ 25).
Proof. unfold coords_le, pt_le, px, py; cbn [fst snd]. lia. Qed.

(* ------------------------------------------------------------------ the accuracy clause is false at 2^40
   The property's clause for one call: parallelism reported exactly, and for properly crossing segments a
   point in the bounding box of the first segment within one unit per axis of the exact crossing
   ([CoreSpec.isect_ok]).  Witnesses found by checks/C18.py's generators; evaluated by the kernel on the
   translated functions; replayed on the compiled C++ by the check. *)
Ltac coords_by_computation := unfold coords_le, pt_le, px, py; cbn [fst snd]; repeat split; vm_compute; discriminate.

Definition w40_a : pt := (-708993549980, -190376432168).
Definition w40_b : pt := (708993549979, 190376432168).
Definition w40_c : pt := (-708993545511, -190376430968).
Definition w40_d : pt := (708993594777, 190376444197).

(* properly crossing segments reported parallel (both variants) *)
Theorem isect_2p40_false_parallel :
  coords_le (2 ^ 40) w40_a w40_b w40_c w40_d /\ properly_cross w40_a w40_b w40_c w40_d = true /\
  fst (GetSegmentIntersectPt_lo w40_a w40_b w40_c w40_d (0, 0)) = false /\
  fst (GetSegmentIntersectPt_hi w40_a w40_b w40_c w40_d (0, 0)) = false.
Proof. split; [coords_by_computation|]. vm_compute. auto. Qed.

Definition f40_a : pt := (-693827181386, 620970031357).
Definition f40_b : pt := (693827181386, -620970031357).
Definition f40_c : pt := (-693827181385, 620970031354).
Definition f40_d : pt := (693827181389, -620970031357).

(* properly crossing segments, result more than 10^6 units from the crossing (both variants) *)
Theorem isect_2p40_far :
  coords_le (2 ^ 40) f40_a f40_b f40_c f40_d /\ properly_cross f40_a f40_b f40_c f40_d = true /\
  (let r := GetSegmentIntersectPt_lo f40_a f40_b f40_c f40_d (0, 0) in
   fst r = true /\ isect_within 1000000 1 f40_a f40_b f40_c f40_d (snd r) = false) /\
  (let r := GetSegmentIntersectPt_hi f40_a f40_b f40_c f40_d (0, 0) in
   fst r = true /\ isect_within 1000000 1 f40_a f40_b f40_c f40_d (snd r) = false).
Proof. split; [coords_by_computation|]. vm_compute. auto. Qed.

Theorem isect_accuracy_2p40_refuted_lo :
  exists a b c d ip, coords_le (2 ^ 40) a b c d /\ properly_cross a b c d = true /\
    let r := GetSegmentIntersectPt_lo a b c d ip in
    fst r = false \/ isect_within 1 1 a b c d (snd r) = false.
Proof.
  exists w40_a, w40_b, w40_c, w40_d, (0, 0). destruct isect_2p40_false_parallel as (H1 & H2 & H3 & _).
  cbv zeta. auto.
Qed.

Theorem isect_accuracy_2p40_refuted_hi :
  exists a b c d ip, coords_le (2 ^ 40) a b c d /\ properly_cross a b c d = true /\
    let r := GetSegmentIntersectPt_hi a b c d ip in
    fst r = false \/ isect_within 1 1 a b c d (snd r) = false.
Proof.
  exists w40_a, w40_b, w40_c, w40_d, (0, 0). destruct isect_2p40_false_parallel as (H1 & H2 & _ & H3).
  cbv zeta. auto.
Qed.

(* ------------------------------------------------------------------ truncation: one unit is exceeded by a hair
   The default variant truncates a + t (b - a) computed in binary64.  When the exact crossing lies just
   above an integer k and the computed value just below it, the result k - 1 is 1 + O(2^-47) away:
   the literal "within one unit per axis" fails already for |coordinates| <= 2^25 (but 1 + 2^-20 holds). *)
Definition e25_a : pt := (-3369935, -9108372).
Definition e25_b : pt := (22437127, 9519943).
Definition e25_c : pt := (3620683, -10728030).
Definition e25_d : pt := (3620681, 2603362).

Theorem isect_accuracy_small_lo_refuted :
  exists a b c d ip, coords_le (2 ^ 25) a b c d /\ properly_cross a b c d = true /\
    let r := GetSegmentIntersectPt_lo a b c d ip in
    fst r = true /\ isect_within 1 1 a b c d (snd r) = false /\
    isect_within (2 ^ 20 + 1) (2 ^ 20) a b c d (snd r) = true.
Proof.
  exists e25_a, e25_b, e25_c, e25_d, (0, 0). split; [coords_by_computation|]. vm_compute. auto.
Qed.
