(* PerpendicDistFromLineSqrd<int64_t> is never NaN when the coordinate differences it takes are at most 2^64 in
   magnitude (always, for int64 coordinates): the four converted differences are finite and <= 2^64, the products
   <= 2^128, their difference <= 2^129, its square <= 2^258 < 2^1024 (no overflow, hence no inf - inf and no inf / inf),
   and c*c + d*d >= 1 as soon as c or d is a non-zero integer (no 0 / 0).  Through Flocq's correctness theorems for
   binary64 operations.  Discharges the no-NaN hypothesis of the RDP distance bound for int64 paths. *)
From Coq Require Import ZArith Lia Floats SpecFloat Reals Lra Bool List.
From Flocq Require Import Core IEEE754.BinarySingleNaN.
From Flocq Require IEEE754.PrimFloat.
From Clip Require Import base.Geom base.FloatModel model.PathUtils proofs.PathUtilsFloat.
Import ListNotations.

Section NoNan.
Notation prec := FloatOps.prec.
Notation emax := FloatOps.emax.
Notation bf := (binary_float prec emax).
Notation Hprec := Flocq.IEEE754.PrimFloat.Hprec.
Notation Hmax := Flocq.IEEE754.PrimFloat.Hmax.
Notation fx := (SpecFloat.fexp prec emax).
Notation rnd := (round radix2 fx ZnearestE).
Notation Bm := (@Bmult prec emax Hprec Hmax mode_NE).
Notation Bp := (@Bplus prec emax Hprec Hmax mode_NE).
Notation Bs := (@Bminus prec emax Hprec Hmax mode_NE).
Notation Bd := (@Bdiv prec emax Hprec Hmax mode_NE).

Definition fin_le (k : Z) (x : bf) : Prop :=
  BinarySingleNaN.is_finite x = true /\ (Rabs (B2R x) <= bpow radix2 k)%R.

Lemma fmt_bpow k : (-1074 <= k)%Z -> generic_format radix2 fx (bpow radix2 k).
Proof. intros H. apply (@generic_format_FLT_bpow radix2 (-1074) prec Hprec). exact H. Qed.

Lemma rnd_abs_le x k : (-1074 <= k)%Z -> (Rabs x <= bpow radix2 k)%R -> (Rabs (rnd x) <= bpow radix2 k)%R.
Proof.
  intros Hk H. apply abs_round_le_generic.
  - apply (@fexp_correct prec emax Hprec).
  - auto with typeclass_instances.
  - apply fmt_bpow; exact Hk.
  - exact H.
Qed.

Lemma lt_emax x k : (k < 1024)%Z -> (Rabs x <= bpow radix2 k)%R -> Rlt_bool (Rabs x) (bpow radix2 emax) = true.
Proof. intros Hk H. apply Rlt_bool_true. eapply Rle_lt_trans; [exact H|]. apply bpow_lt. exact Hk. Qed.

Lemma mult_fin j k x y : fin_le j x -> fin_le k y -> (-1074 <= j + k < 1024)%Z -> fin_le (j + k) (Bm x y).
Proof.
  intros [Fx Hx] [Fy Hy] Hjk.
  assert (Hxy : (Rabs (B2R x * B2R y) <= bpow radix2 (j + k))%R).
  { rewrite Rabs_mult, bpow_plus. apply Rmult_le_compat; try apply Rabs_pos; assumption. }
  pose proof (Bmult_correct prec emax Hprec Hmax mode_NE x y) as H.
  cbn [round_mode] in H.
  assert (Hr : (Rabs (rnd (B2R x * B2R y)) <= bpow radix2 (j + k))%R) by (apply rnd_abs_le; [lia|exact Hxy]).
  rewrite (lt_emax _ (j + k) ltac:(lia) Hr) in H.
  destruct H as (H1 & H2 & _). split.
  - rewrite H2, Fx, Fy. reflexivity.
  - rewrite H1. exact Hr.
Qed.

Lemma bpow_S k : bpow radix2 (k + 1) = (2 * bpow radix2 k)%R.
Proof. rewrite bpow_plus_1. reflexivity. Qed.

Lemma plus_fin k x y : fin_le k x -> fin_le k y -> (-1074 <= k + 1 < 1024)%Z -> fin_le (k + 1) (Bp x y).
Proof.
  intros [Fx Hx] [Fy Hy] Hk.
  assert (Hxy : (Rabs (B2R x + B2R y) <= bpow radix2 (k + 1))%R).
  { rewrite bpow_S. eapply Rle_trans; [apply Rabs_triang|]. lra. }
  assert (Hr : (Rabs (rnd (B2R x + B2R y)) <= bpow radix2 (k + 1))%R) by (apply rnd_abs_le; [lia|exact Hxy]).
  pose proof (Bplus_correct prec emax Hprec Hmax mode_NE x y Fx Fy) as H. cbn [round_mode] in H.
  rewrite (lt_emax _ (k + 1) ltac:(lia) Hr) in H.
  destruct H as (H1 & H2 & _). split; [exact H2|]. rewrite H1. exact Hr.
Qed.

Lemma minus_fin k x y : fin_le k x -> fin_le k y -> (-1074 <= k + 1 < 1024)%Z -> fin_le (k + 1) (Bs x y).
Proof.
  intros [Fx Hx] [Fy Hy] Hk.
  assert (Hxy : (Rabs (B2R x - B2R y) <= bpow radix2 (k + 1))%R).
  { rewrite bpow_S. unfold Rminus. eapply Rle_trans; [apply Rabs_triang|]. rewrite Rabs_Ropp. lra. }
  assert (Hr : (Rabs (rnd (B2R x - B2R y)) <= bpow radix2 (k + 1))%R) by (apply rnd_abs_le; [lia|exact Hxy]).
  pose proof (Bminus_correct prec emax Hprec Hmax mode_NE x y Fx Fy) as H. cbn [round_mode] in H.
  rewrite (lt_emax _ (k + 1) ltac:(lia) Hr) in H.
  destruct H as (H1 & H2 & _). split; [exact H2|]. rewrite H1. exact Hr.
Qed.

(* ---- int64 differences converted to double ---- *)
Notation bn z := (@BinarySingleNaN.binary_normalize prec emax Hprec Hmax mode_NE z 0 false).

Lemma Prim2B_Z2F z : Flocq.IEEE754.PrimFloat.Prim2B (Z2F z) = bn z.
Proof.
  unfold Z2F.
  change (SpecFloat.binary_normalize 53 1024 z 0 false) with (SpecFloat.binary_normalize FloatOps.prec FloatOps.emax z 0 false).
  rewrite Flocq.IEEE754.PrimFloat.binary_normalize_equiv.
  apply Flocq.IEEE754.PrimFloat.Prim2B_B2Prim.
Qed.

Lemma bn_spec z : (Z.abs z <= 2 ^ 64)%Z ->
  fin_le 64 (bn z) /\ B2R (bn z) = rnd (IZR z).
Proof.
  intros Hz.
  assert (Hx : F2R (Float radix2 z 0) = IZR z) by (unfold F2R; cbn; ring).
  assert (Hb : (Rabs (IZR z) <= bpow radix2 64)%R).
  { rewrite <- abs_IZR. change (bpow radix2 64) with (IZR (2 ^ 64)). apply IZR_le. exact Hz. }
  assert (Hr : (Rabs (rnd (IZR z)) <= bpow radix2 64)%R) by (apply rnd_abs_le; [lia|exact Hb]).
  pose proof (BinarySingleNaN.binary_normalize_correct prec emax Hprec Hmax mode_NE z 0 false) as H.
  cbn zeta in H. cbn [round_mode] in H. rewrite Hx in H.
  rewrite (lt_emax _ 64 ltac:(lia) Hr) in H. destruct H as (H1 & H2 & _).
  split; [split; [exact H2|rewrite H1; exact Hr]|exact H1].
Qed.

Lemma fmt_1 : generic_format radix2 fx 1.
Proof. change 1%R with (bpow radix2 0). apply fmt_bpow. lia. Qed.

Lemma rnd_ge_1 x : (1 <= x)%R -> (1 <= rnd x)%R.
Proof.
  intros H. apply round_ge_generic; [apply (@fexp_correct prec emax Hprec)|auto with typeclass_instances|apply fmt_1|exact H].
Qed.

Lemma rnd_ge_0 x : (0 <= x)%R -> (0 <= rnd x)%R.
Proof.
  intros H. apply round_ge_generic; [apply (@fexp_correct prec emax Hprec)|auto with typeclass_instances|apply generic_format_0|exact H].
Qed.

Lemma rnd_le_m1 x : (x <= -1)%R -> (rnd x <= -1)%R.
Proof.
  intros H. apply round_le_generic; [apply (@fexp_correct prec emax Hprec)|auto with typeclass_instances| |exact H].
  apply generic_format_opp. apply fmt_1.
Qed.

Lemma bn_abs_ge_1 z : (Z.abs z <= 2 ^ 64)%Z -> z <> 0%Z -> (1 <= Rabs (B2R (bn z)))%R.
Proof.
  intros Hz Hnz. destruct (bn_spec z Hz) as (_ & ->).
  destruct (Z_lt_le_dec z 0) as [Hneg|Hpos].
  - assert (H : (IZR z <= -1)%R) by (apply IZR_le; lia).
    apply rnd_le_m1 in H. rewrite Rabs_left by lra. lra.
  - assert (H : (1 <= IZR z)%R) by (apply IZR_le; lia).
    apply rnd_ge_1 in H. rewrite Rabs_right by lra. exact H.
Qed.

(* the square of a finite number (no overflow) is >= 0, and >= 1 when the number is >= 1 in magnitude *)
Lemma sq_facts k x : fin_le k x -> (-1074 <= k + k < 1024)%Z ->
  fin_le (k + k) (Bm x x) /\ (0 <= B2R (Bm x x))%R /\ ((1 <= Rabs (B2R x))%R -> (1 <= B2R (Bm x x))%R).
Proof.
  intros Hx Hk. pose proof (mult_fin k k x x Hx Hx Hk) as Hm. split; [exact Hm|].
  destruct Hx as [Fx Hx].
  assert (Hxy : (Rabs (B2R x * B2R x) <= bpow radix2 (k + k))%R).
  { rewrite Rabs_mult, bpow_plus. apply Rmult_le_compat; try apply Rabs_pos; assumption. }
  assert (Hr : (Rabs (rnd (B2R x * B2R x)) <= bpow radix2 (k + k))%R) by (apply rnd_abs_le; [lia|exact Hxy]).
  pose proof (Bmult_correct prec emax Hprec Hmax mode_NE x x) as H. cbn [round_mode] in H.
  rewrite (lt_emax _ (k + k) ltac:(lia) Hr) in H. destruct H as (H1 & _). rewrite H1. split.
  - apply rnd_ge_0. nra.
  - intros H. apply rnd_ge_1. replace (B2R x * B2R x)%R with (Rabs (B2R x) * Rabs (B2R x))%R.
    + nra.
    + rewrite <- Rabs_mult. apply Rabs_right. nra.
Qed.

Lemma fin_not_nan (x : bf) : BinarySingleNaN.is_finite x = true -> BinarySingleNaN.is_nan x = false.
Proof. destruct x; try discriminate; reflexivity. Qed.

Lemma div_not_nan (x y : bf) : BinarySingleNaN.is_finite x = true -> B2R y <> 0%R -> BinarySingleNaN.is_nan (Bd x y) = false.
Proof.
  intros Fx Hy. pose proof (Bdiv_correct prec emax Hprec Hmax mode_NE x y Hy) as H.
  destruct (Rlt_bool _ _).
  - destruct H as (_ & H2 & _). apply fin_not_nan. rewrite H2. exact Fx.
  - unfold binary_overflow, overflow_to_inf in H. destruct (Bd x y); cbn in H; try discriminate; reflexivity.
Qed.

(* PerpendicDistFromLineSqrd of points whose coordinate differences fit 65 bits is never NaN *)
Theorem perp_d2_not_nan (p l1 l2 : pt) :
  (Z.abs (px p - px l1) <= 2 ^ 64)%Z -> (Z.abs (py p - py l1) <= 2 ^ 64)%Z ->
  (Z.abs (px l2 - px l1) <= 2 ^ 64)%Z -> (Z.abs (py l2 - py l1) <= 2 ^ 64)%Z ->
  not_nan (perp_d2 p l1 l2) = true.
Proof.
  intros Ha Hb Hc Hd. unfold perp_d2. rewrite !Z2Ff_eq.
  set (za := (px p - px l1)%Z) in *. set (zb := (py p - py l1)%Z) in *.
  set (zc := (px l2 - px l1)%Z) in *. set (zd := (py l2 - py l1)%Z) in *.
  destruct ((Z2F zc =? 0) && (Z2F zd =? 0))%float eqn:E; [reflexivity|].
  assert (Hnz : zc <> 0%Z \/ zd <> 0%Z).
  { destruct (Z.eq_dec zc 0) as [Ec|Ec]; [|left; exact Ec]. destruct (Z.eq_dec zd 0) as [Ed|Ed]; [|right; exact Ed].
    rewrite Ec, Ed in E. vm_compute in E. discriminate. }
  unfold not_nan, fsqr. rewrite Flocq.IEEE754.PrimFloat.eqb_equiv, Beqb_refl.
  rewrite Flocq.IEEE754.PrimFloat.div_equiv, Flocq.IEEE754.PrimFloat.add_equiv, !Flocq.IEEE754.PrimFloat.mul_equiv,
    Flocq.IEEE754.PrimFloat.sub_equiv, !Flocq.IEEE754.PrimFloat.mul_equiv, !Prim2B_Z2F.
  destruct (bn_spec za Ha) as (Fa & _). destruct (bn_spec zb Hb) as (Fb & _).
  destruct (bn_spec zc Hc) as (Fc & _). destruct (bn_spec zd Hd) as (Fd & _).
  pose proof (mult_fin 64 64 _ _ Fa Fd ltac:(lia)) as Fad. pose proof (mult_fin 64 64 _ _ Fc Fb ltac:(lia)) as Fcb.
  pose proof (minus_fin 128 _ _ Fad Fcb ltac:(lia)) as Fn.
  pose proof (mult_fin 129 129 _ _ Fn Fn ltac:(lia)) as Fnn.
  destruct (sq_facts 64 _ Fc ltac:(lia)) as (Fcc & Pcc & Gcc).
  destruct (sq_facts 64 _ Fd ltac:(lia)) as (Fdd & Pdd & Gdd).
  pose proof (plus_fin 128 _ _ Fcc Fdd ltac:(lia)) as Fs.
  apply Bool.negb_true_iff. apply div_not_nan; [apply Fnn|].
  (* the denominator is >= 1 *)
  destruct Fcc as [Fcc1 Fcc2], Fdd as [Fdd1 Fdd2].
  assert (Hsum : (Rabs (B2R (Bm (bn zc) (bn zc)) + B2R (Bm (bn zd) (bn zd))) <= bpow radix2 (128 + 1))%R).
  { rewrite bpow_S. eapply Rle_trans; [apply Rabs_triang|]. change (64 + 64)%Z with 128%Z in *. lra. }
  assert (Hr : (Rabs (rnd (B2R (Bm (bn zc) (bn zc)) + B2R (Bm (bn zd) (bn zd)))) <= bpow radix2 (128 + 1))%R)
    by (apply rnd_abs_le; [lia|exact Hsum]).
  pose proof (Bplus_correct prec emax Hprec Hmax mode_NE _ _ Fcc1 Fdd1) as H. cbn [round_mode] in H.
  rewrite (lt_emax _ (128 + 1) ltac:(lia) Hr) in H. destruct H as (H1 & _). rewrite H1.
  assert (H1le : (1 <= rnd (B2R (Bm (bn zc) (bn zc)) + B2R (Bm (bn zd) (bn zd))))%R).
  { apply rnd_ge_1. destruct Hnz as [Hz|Hz].
    - pose proof (Gcc (bn_abs_ge_1 zc Hc Hz)). lra.
    - pose proof (Gdd (bn_abs_ge_1 zd Hd Hz)). lra. }
  lra.
Qed.
End NoNan.

(* ------------------------------------------------------------------ paths with int64 coordinates *)
Definition coords_i64 (p : path) : Prop := forall q, In q p -> in_i64 (px q) = true /\ in_i64 (py q) = true.

Lemma i64_diff a b : in_i64 a = true -> in_i64 b = true -> (Z.abs (a - b) <= 2 ^ 64)%Z.
Proof.
  unfold in_i64. intros Ha Hb. apply andb_prop in Ha as [Ha1 Ha2]. apply andb_prop in Hb as [Hb1 Hb2].
  apply Z.leb_le in Ha1, Hb1. apply Z.ltb_lt in Ha2, Hb2. lia.
Qed.

Theorem perp_d2_not_nan_i64 (p : path) : coords_i64 p ->
  forall a b c, In a p -> In b p -> In c p -> not_nan (perp_d2 a b c) = true.
Proof.
  intros Hp a b c Ha Hb Hc. destruct (Hp a Ha), (Hp b Hb), (Hp c Hc).
  apply perp_d2_not_nan; apply i64_diff; assumption.
Qed.
