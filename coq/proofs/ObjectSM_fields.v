(* The only C12 lemma that depends on the regenerated member table: kept in a file of its own so that a change in the
   library's members breaks exactly this file (and the theorem C12_fields_covered) and nothing else. *)
From Coq Require Import List Bool String.
From Clip Require Import gen.Gen_fields model.ObjectSM.

Lemma fields_covered : forallb field_ok Gen_fields.table = true.
Proof. vm_compute. reflexivity. Qed.

(* the policy mentions no member that does not exist (a renamed or removed member leaves a stale entry) *)
Lemma no_stale_policy : stale_policies = nil.
Proof. vm_compute. reflexivity. Qed.
