(* RDP / RamerDouglasPeucker: subsequence, safety (for epsilon^2 >= 0), the first vertex is always kept, the last one
   is kept when no earlier vertex coincides with it, and the two refutations (un-flagged end point). *)
From Coq Require Import ZArith List Bool Lia Arith Floats.
From Clip Require Import base.Geom base.FloatModel model.PathUtils proofs.PathUtilsBase proofs.PathUtilsFlags
  proofs.PathUtilsTrim proofs.PathUtilsSimplify.
Import ListNotations.
Local Open Scope nat_scope.

Lemma select_true_negb (p : path) fl : select true p fl = select false p (map negb fl).
Proof.
  revert fl; induction p as [|a t IH]; intros fl; [reflexivity|].
  destruct fl as [|f fl]; [reflexivity|].
  unfold select in *. cbn [map combine filter snd].
  destruct f; cbn [negb Bool.eqb map fst]; rewrite IH; reflexivity.
Qed.

Section Rdp.
  Variable D : Type.
  Variable d2 : pt -> pt -> pt -> D.
  Variable leD : D -> D -> bool.
  Variable dzero : D.

  Theorem rdp_subseq p e r : rdp_gen D d2 leD dzero p e = Ok r -> sublist r p.
  Proof.
    unfold rdp_gen. destruct (length p <? 5); intros H.
    - inversion H. apply sublist_refl.
    - apply bind_Ok in H as (fl & _ & H). apply collect_sublist in H. exact H.
  Qed.

  Variable p : path.
  Variable eps : D.
  Hypothesis Heps : leD dzero eps = true.        (* 0 <= epsilon^2 *)

  (* R: any property of the flags preserved by the two kinds of writes RDP performs *)
  Variable R : list bool -> Prop.
  Hypothesis R_set : forall fl i fl', upd fl i true = Ok fl' -> R fl -> R fl'.
  Hypothesis R_unset : forall fl b e fl' a,
    b < e -> nth_error p b = Some a -> nth_error p e = Some a -> upd fl e false = Ok fl' -> R fl -> R fl'.

  Lemma rdp_unflag_ok : forall fuel begin end_ fl,
    begin <= end_ -> end_ < length p -> length fl = length p -> end_ - begin < fuel -> R fl ->
    exists e' fl', rdp_unflag fuel p begin end_ fl = Ok (e', fl') /\ begin <= e' <= end_ /\
                   length fl' = length p /\ R fl'.
  Proof.
    induction fuel as [|fuel IH]; intros begin end_ fl Hbe He Hl Hf HR; [lia|].
    cbn [rdp_unflag]. destruct (begin <? end_) eqn:E.
    - apply Nat.ltb_lt in E.
      destruct (nth_error_lt_Some p begin ltac:(lia)) as [a Ha].
      destruct (nth_error_lt_Some p end_ ltac:(lia)) as [b Hb].
      rewrite (rd_Some _ _ _ Ha), (rd_Some _ _ _ Hb). cbn [bind].
      destruct (pt_eqb a b) eqn:Eab.
      + apply pt_eqb_eq in Eab; subst b.
        destruct (upd_lt fl end_ false ltac:(lia)) as [fl1 Hu]. rewrite Hu. cbn [bind].
        destruct (IH begin (end_ - 1) fl1 ltac:(lia) ltac:(lia)
                    ltac:(rewrite (upd_length _ _ _ _ Hu); exact Hl) ltac:(lia)
                    (R_unset _ _ _ _ _ E Ha Hb Hu HR)) as (e' & fl' & H1 & H2 & H3 & H4).
        exists e', fl'. repeat split; try lia; assumption.
      + exists end_, fl. repeat split; try lia; assumption.
    - apply Nat.ltb_ge in E. exists end_, fl. repeat split; try lia; assumption.
  Qed.

  Lemma rdp_scan_ok begin end_ : begin < length p -> end_ < length p ->
    forall n i idx m, n = 0 \/ i + n <= end_ ->
    exists idx' m', rdp_scan D d2 leD n i p begin end_ idx m = Ok (idx', m') /\
                    ((idx' = idx /\ m' = m) \/ i <= idx' < i + n).
  Proof.
    intros Hb He. induction n as [|n IH]; intros i idx m Hn; cbn [rdp_scan].
    - exists idx, m. split; [reflexivity|left; auto].
    - destruct Hn as [Hn|Hn]; [discriminate|].
      destruct (rd_lt p i ltac:(lia)) as [a ->]. destruct (rd_lt p begin Hb) as [b ->].
      destruct (rd_lt p end_ He) as [c ->]. cbn [bind].
      destruct (leD (d2 a b c) m).
      + destruct (IH (S i) idx m ltac:(lia)) as (idx' & m' & H1 & H2).
        exists idx', m'. split; [exact H1|]. destruct H2; [left; assumption|right; lia].
      + destruct (IH (S i) i (d2 a b c) ltac:(lia)) as (idx' & m' & H1 & H2).
        exists idx', m'. split; [exact H1|]. right. destruct H2 as [[-> _]|]; lia.
  Qed.

  Lemma rdp_ok : forall fuel begin end_ fl,
    begin <= end_ -> end_ < length p -> length fl = length p -> end_ - begin < fuel -> R fl ->
    exists fl', rdp D d2 leD dzero fuel p begin end_ eps fl = Ok fl' /\ length fl' = length p /\ R fl'.
  Proof.
    induction fuel as [|fuel IH]; intros begin end_ fl Hbe He Hl Hf HR; [lia|].
    cbn [rdp].
    destruct (rdp_unflag_ok (S (length p)) begin end_ fl Hbe He Hl ltac:(lia) HR) as (e1 & fl1 & H1 & H2 & H3 & H4).
    rewrite H1. cbn [bind].
    destruct (rdp_scan_ok begin e1 ltac:(lia) ltac:(lia) (e1 - (begin + 1)) (begin + 1) 0 dzero ltac:(lia))
      as (idx & m & S1 & S2).
    rewrite S1. cbn [bind].
    destruct S2 as [[-> ->]|S2]; [rewrite Heps; eauto|].
    destruct (leD m eps); [eauto|].
    destruct (upd_lt fl1 idx true ltac:(lia)) as [fl2 Hu2]. rewrite Hu2. cbn [bind].
    assert (Hl2 : length fl2 = length p) by (rewrite (upd_length _ _ _ _ Hu2); exact H3).
    assert (HR2 : R fl2) by (eapply R_set; eassumption).
    assert (Hleft : exists fl3, (if begin + 1 <? idx then rdp D d2 leD dzero fuel p begin idx eps fl2 else Ok fl2) = Ok fl3 /\
                                length fl3 = length p /\ R fl3).
    { destruct (begin + 1 <? idx); [|eauto]. apply IH; try lia; assumption. }
    destruct Hleft as (fl3 & -> & Hl3 & HR3). cbn [bind].
    destruct (e1 =? 0) eqn:E0; [apply Nat.eqb_eq in E0; lia|].
    destruct (idx <? e1 - 1); [|eauto]. apply IH; try lia; assumption.
  Qed.
End Rdp.

Section RdpThm.
  Variable D : Type.
  Variable d2 : pt -> pt -> pt -> D.
  Variable leD : D -> D -> bool.
  Variable dzero : D.
  Variable eps : D.
  Hypothesis Heps : leD dzero eps = true.

  Lemma rdp_flags_ok p (R : list bool -> Prop) : 5 <= length p ->
    (forall fl i fl', upd fl i true = Ok fl' -> R fl -> R fl') ->
    (forall fl b e fl' a, b < e -> nth_error p b = Some a -> nth_error p e = Some a -> upd fl e false = Ok fl' -> R fl -> R fl') ->
    (forall fl, length fl = length p -> flagged fl 0 -> flagged fl (length p - 1) -> R fl) ->
    exists fl, rdp_flags D d2 leD dzero p eps = Ok fl /\ length fl = length p /\ R fl.
  Proof.
    intros Hlen R1 R2 R0. unfold rdp_flags.
    destruct (upd_lt (repeat false (length p)) 0 true ltac:(rewrite repeat_length; lia)) as [f1 Hu1].
    rewrite Hu1. cbn [bind].
    assert (Hl1 : length f1 = length p) by (rewrite (upd_length _ _ _ _ Hu1); apply repeat_length).
    destruct (upd_lt f1 (length p - 1) true ltac:(lia)) as [f2 Hu2]. rewrite Hu2. cbn [bind].
    assert (Hl2 : length f2 = length p) by (rewrite (upd_length _ _ _ _ Hu2); exact Hl1).
    apply (rdp_ok D d2 leD dzero p eps Heps R R1 R2); try lia.
    apply R0; [exact Hl2| |].
    - unfold flagged. rewrite (upd_nth_other _ _ _ _ _ Hu2) by lia. eapply upd_nth_same; exact Hu1.
    - unfold flagged. eapply upd_nth_same; exact Hu2.
  Qed.

  (* no out-of-bounds access and no fuel exhaustion (recursion depth <= len) when 0 <= epsilon^2 *)
  Theorem rdp_safe p : exists r, rdp_gen D d2 leD dzero p eps = Ok r.
  Proof.
    unfold rdp_gen. destruct (length p <? 5) eqn:E; [eauto|]. apply Nat.ltb_ge in E.
    destruct (rdp_flags_ok p (fun _ => True) E) as (fl & Hf & Hl & _); auto.
    rewrite Hf. cbn [bind]. rewrite collect_full by exact Hl. eauto.
  Qed.

  Lemma select_true_hd (p : path) fl a t : p = a :: t -> length fl = length p -> flagged fl 0 ->
    hd_pt (select true p fl) = Some a.
  Proof.
    intros -> Hl H0. destruct fl as [|f fl]; [discriminate|]. unfold flagged in H0. cbn in H0. inversion H0; subst.
    reflexivity.
  Qed.

  (* the first vertex is always kept *)
  Theorem rdp_keeps_first p : 1 <= length p ->
    exists r, rdp_gen D d2 leD dzero p eps = Ok r /\ hd_pt r = hd_pt p.
  Proof.
    intros Hlen. unfold rdp_gen. destruct (length p <? 5) eqn:E; [eauto|]. apply Nat.ltb_ge in E.
    destruct (rdp_flags_ok p (fun fl => flagged fl 0) E) as (fl & Hf & Hl & H0).
    - intros fl i fl' Hu H. unfold flagged in *. destruct (Nat.eq_dec i 0) as [->|Hn].
      + eapply upd_nth_same; exact Hu.
      + rewrite (upd_nth_other _ _ _ _ _ Hu) by lia. exact H.
    - intros fl b e fl' a Hbe _ _ Hu H. unfold flagged in *.
      rewrite (upd_nth_other _ _ _ _ _ Hu) by lia. exact H.
    - auto.
    - rewrite Hf. cbn [bind]. rewrite collect_full by exact Hl. eexists; split; [reflexivity|].
      destruct p as [|a t]; [cbn in Hlen; lia|]. eapply select_true_hd; eauto.
  Qed.

  (* both end points are kept when no earlier vertex coincides with the last one
     (partial: the unconditional statement is refuted below) *)
  Theorem rdp_keeps_ends_partial p : 2 <= length p ->
    (forall i a, i < length p - 1 -> nth_error p i = Some a -> nth_error p (length p - 1) <> Some a) ->
    exists r, rdp_gen D d2 leD dzero p eps = Ok r /\ keeps_ends r p = true.
  Proof.
    intros Hlen Hdistinct. unfold rdp_gen. destruct (length p <? 5) eqn:E.
    - exists p. split; [reflexivity|]. destruct p as [|a t]; [cbn in Hlen; lia|].
      unfold keeps_ends, hd_pt, last_pt, opt_pt_eqb. rewrite !pt_eqb_refl. reflexivity.
    - apply Nat.ltb_ge in E.
      destruct (rdp_flags_ok p (fun fl => flagged fl 0 /\ flagged fl (length p - 1)) E) as (fl & Hf & Hl & H0 & Hh).
      + intros fl i fl' Hu [H1 H2]. unfold flagged in *. split.
        * destruct (Nat.eq_dec i 0) as [->|Hn]; [eapply upd_nth_same; exact Hu|].
          rewrite (upd_nth_other _ _ _ _ _ Hu) by lia. exact H1.
        * destruct (Nat.eq_dec i (length p - 1)) as [->|Hn]; [eapply upd_nth_same; exact Hu|].
          rewrite (upd_nth_other _ _ _ _ _ Hu) by lia. exact H2.
      + intros fl b e fl' a Hbe Hb He Hu [H1 H2]. unfold flagged in *.
        assert (He' : e < length p) by (apply nth_error_Some; congruence).
        assert (e <> length p - 1).
        { intros ->. eapply (Hdistinct b a); [lia|exact Hb|exact He]. }
        split; rewrite (upd_nth_other _ _ _ _ _ Hu) by lia; assumption.
      + auto.
      + rewrite Hf. cbn [bind]. rewrite collect_full by exact Hl. eexists; split; [reflexivity|].
        (* select true = select false on negated flags; reuse the end point lemma *)
        assert (Hsel : select true p fl = select false p (map negb fl)) by apply select_true_negb.
        rewrite Hsel. apply (select_keeps_ends p (map negb fl) (length p - 1)).
        * lia.
        * rewrite map_length. lia.
        * unfold unflagged, flagged in *. rewrite nth_error_map, H0. reflexivity.
        * unfold unflagged, flagged in *. rewrite nth_error_map, Hh. reflexivity.
  Qed.
End RdpThm.

(* ------------------------------------------------------------------ refutations on the code's own binary64 functions *)
(* a path that ends where it starts: the loop `while (end > begin && path[begin] == path[end]) flags[end--] = false;`
   un-keeps the last vertex and never keeps the new end *)
Definition rdp_witness : path := [(0, 0); (10, 10); (20, 0); (30, 10); (40, 0); (0, 0)]%Z.

Theorem rdp_keeps_ends_refuted :
  exists p eps, 2 <= length p /\ (0 <=? eps)%float = true /\
    exists r, rdp_path p eps = Ok r /\ keeps_ends r p = false.
Proof.
  exists rdp_witness, 1%float. split; [cbn; lia|]. split; [reflexivity|].
  exists [(0, 0); (10, 10); (20, 0); (30, 10)]%Z. split; vm_compute; reflexivity.
Qed.

(* ... and a removed vertex ((40,0), index 4) is 40 units from the line through its surviving neighbour(s):
   the spec predicate reports the removed vertices 4 and 5.
   (The loop can only fire in the top-level call: a split vertex has a non-zero distance from the chord, so it
   never coincides with an end of its sub-range.  The failure mode is therefore exactly "first == last".) *)
Theorem rdp_bound_refuted :
  exists p eps, (0 <=? eps)%float = true /\
    exists fl, rdp_path_flags p eps = Ok fl /\ rdp_bad_f p fl eps <> [].
Proof.
  exists rdp_witness, 1%float. split; [reflexivity|].
  exists [true; true; true; true; false; false]. split; [vm_compute; reflexivity|].
  intros H; vm_compute in H; discriminate H.
Qed.
