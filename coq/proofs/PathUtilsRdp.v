(* RDP / RamerDouglasPeucker (as repaired: `while (end > begin && path[begin] == path[end]) --end; flags[end] = true;`):
   subsequence, safety (for epsilon^2 >= 0), both end vertices are always kept, and the distance bound: every removed
   vertex is within epsilon (the code's own distance function and comparison) of the line through the nearest kept
   vertices before and after it. *)
From Coq Require Import ZArith List Bool Lia Arith Floats Wf_nat.
From Clip Require Import base.Geom base.FloatModel model.PathUtils proofs.PathUtilsBase proofs.PathUtilsFlags
  proofs.PathUtilsTrim proofs.PathUtilsSimplify.
Import ListNotations.
Local Open Scope nat_scope.

Lemma select_true_negb (p : path) fl : select true p fl = select false p (map negb fl).
Proof.
  revert fl; induction p as [|a t IH]; intros fl; [reflexivity|].
  destruct fl as [|f fl]; [reflexivity|].
  unfold select in *. cbn [map combine filter snd].
  destruct f; cbn [negb Bool.eqb map fst]; rewrite IH; reflexivity.
Qed.

Lemma nth_error_eq_nth {A} (l : list A) i j d :
  i < length l -> nth_error l i = nth_error l j -> nth i l d = nth j l d.
Proof.
  intros Hi H. destruct (nth_error l i) eqn:E; [|apply nth_error_None in E; lia].
  rewrite (nth_error_nth _ _ d E). symmetry in H. rewrite (nth_error_nth _ _ d H). reflexivity.
Qed.

Lemma filter_none {A} (f : A -> bool) l : (forall x, In x l -> f x = false) -> filter f l = [].
Proof.
  induction l as [|x l IH]; intros H; [reflexivity|]. cbn [filter].
  rewrite (H x (or_introl eq_refl)). apply IH. intros y Hy. apply H. right; exact Hy.
Qed.

(* while (end > begin && path[begin] == path[end]) --end; *)
Lemma rdp_shrink_ok (p : path) : forall fuel begin end_,
  begin <= end_ -> end_ < length p -> end_ - begin < fuel ->
  exists e', rdp_shrink pt pt_eqb fuel p begin end_ = Ok e' /\ begin <= e' <= end_ /\
             forall i, e' < i <= end_ -> nth_error p i = nth_error p begin.
Proof.
  induction fuel as [|fuel IH]; intros begin end_ Hbe He Hf; [lia|].
  cbn [rdp_shrink]. destruct (begin <? end_) eqn:E.
  - apply Nat.ltb_lt in E.
    destruct (nth_error_lt_Some p begin ltac:(lia)) as [a Ha].
    destruct (nth_error_lt_Some p end_ ltac:(lia)) as [b Hb].
    rewrite (proj2 (rd_Ok _ _ _) Ha), (proj2 (rd_Ok _ _ _) Hb). cbn [bind].
    destruct (pt_eqb a b) eqn:Eab.
    + apply pt_eqb_eq in Eab; subst b.
      destruct (IH begin (end_ - 1) ltac:(lia) ltac:(lia) ltac:(lia)) as (e' & H1 & H2 & H3).
      exists e'. split; [exact H1|]. split; [lia|].
      intros i Hi. destruct (Nat.eq_dec i end_) as [->|Hne]; [congruence|]. apply H3. lia.
    + exists end_. split; [reflexivity|]. split; [lia|]. intros i Hi; lia.
  - apply Nat.ltb_ge in E. exists end_. split; [reflexivity|]. split; [lia|]. intros i Hi; lia.
Qed.

Section Rdp.
  Variable D : Type.
  Variable d2 : pt -> pt -> pt -> D.
  Variable leD : D -> D -> bool.
  Variable dzero : D.

  Theorem rdp_subseq p e r : rdp_gen pt pt_eqb D d2 leD dzero p e = Ok r -> sublist r p.
  Proof.
    unfold rdp_gen. destruct (length p <? 5); intros H.
    - inversion H. apply sublist_refl.
    - apply bind_Ok in H as (fl & _ & H). apply collect_sublist in H. exact H.
  Qed.

  Variable p : path.
  Variable eps : D.
  Hypothesis Heps : leD dzero eps = true.        (* 0 <= epsilon^2 *)

  (* R: any property of the flags preserved by the only kind of write RDP performs (flags[i] = true) *)
  Variable R : list bool -> Prop.
  Hypothesis R_set : forall fl i fl', upd fl i true = Ok fl' -> R fl -> R fl'.

  Lemma rdp_scan_ok begin end_ : begin < length p -> end_ < length p ->
    forall n i idx m, n = 0 \/ i + n <= end_ ->
    exists idx' m', rdp_scan pt D d2 leD n i p begin end_ idx m = Ok (idx', m') /\
                    ((idx' = idx /\ m' = m) \/ i <= idx' < i + n).
  Proof.
    intros Hb He. induction n as [|n IH]; intros i idx m Hn; cbn [rdp_scan].
    - exists idx, m. split; [reflexivity|left; auto].
    - destruct Hn as [Hn|Hn]; [discriminate|].
      destruct (rd_lt p i ltac:(lia)) as [a ->]. destruct (rd_lt p begin Hb) as [b ->].
      destruct (rd_lt p end_ He) as [c ->]. cbn [bind].
      destruct (leD (d2 a b c) m).
      + destruct (IH (S i) idx m ltac:(lia)) as (idx' & m' & H1 & H2).
        exists idx', m'. split; [exact H1|]. destruct H2; [left; assumption|right; lia].
      + destruct (IH (S i) i (d2 a b c) ltac:(lia)) as (idx' & m' & H1 & H2).
        exists idx', m'. split; [exact H1|]. right. destruct H2 as [[-> _]|]; lia.
  Qed.

  Lemma rdp_ok : forall fuel begin end_ fl,
    begin <= end_ -> end_ < length p -> length fl = length p -> end_ - begin < fuel -> R fl ->
    exists fl', rdp pt pt_eqb D d2 leD dzero fuel p begin end_ eps fl = Ok fl' /\ length fl' = length p /\ R fl'.
  Proof.
    induction fuel as [|fuel IH]; intros begin end_ fl Hbe He Hl Hf HR; [lia|].
    cbn [rdp].
    destruct (rdp_shrink_ok p (S (length p)) begin end_ Hbe He ltac:(lia)) as (e1 & H1 & H2 & _).
    rewrite H1. cbn [bind].
    destruct (upd_lt fl e1 true ltac:(lia)) as [fl1 Hu1]. rewrite Hu1. cbn [bind].
    assert (H3 : length fl1 = length p) by (rewrite (upd_length _ _ _ _ Hu1); exact Hl).
    assert (H4 : R fl1) by (eapply R_set; eassumption).
    destruct (rdp_scan_ok begin e1 ltac:(lia) ltac:(lia) (e1 - (begin + 1)) (begin + 1) 0 dzero ltac:(lia))
      as (idx & m & S1 & S2).
    rewrite S1. cbn [bind].
    destruct S2 as [[-> ->]|S2]; [rewrite Heps; eauto|].
    destruct (leD m eps); [eauto|].
    destruct (upd_lt fl1 idx true ltac:(lia)) as [fl2 Hu2]. rewrite Hu2. cbn [bind].
    assert (Hl2 : length fl2 = length p) by (rewrite (upd_length _ _ _ _ Hu2); exact H3).
    assert (HR2 : R fl2) by (eapply R_set; eassumption).
    assert (Hleft : exists fl3, (if begin + 1 <? idx then rdp pt pt_eqb D d2 leD dzero fuel p begin idx eps fl2 else Ok fl2) = Ok fl3 /\
                                length fl3 = length p /\ R fl3).
    { destruct (begin + 1 <? idx); [|eauto]. apply IH; try lia; assumption. }
    destruct Hleft as (fl3 & -> & Hl3 & HR3). cbn [bind].
    destruct (e1 =? 0) eqn:E0; [apply Nat.eqb_eq in E0; lia|].
    destruct (idx <? e1 - 1); [|eauto]. apply IH; try lia; assumption.
  Qed.
End Rdp.

Section RdpThm.
  Variable D : Type.
  Variable d2 : pt -> pt -> pt -> D.
  Variable leD : D -> D -> bool.
  Variable dzero : D.
  Variable eps : D.
  Hypothesis Heps : leD dzero eps = true.

  Lemma rdp_flags_ok p (R : list bool -> Prop) : 5 <= length p ->
    (forall fl i fl', upd fl i true = Ok fl' -> R fl -> R fl') ->
    (forall fl, length fl = length p -> flagged fl 0 -> flagged fl (length p - 1) -> R fl) ->
    exists fl, rdp_flags pt pt_eqb D d2 leD dzero p eps = Ok fl /\ length fl = length p /\ R fl.
  Proof.
    intros Hlen R1 R0. unfold rdp_flags.
    destruct (upd_lt (repeat false (length p)) 0 true ltac:(rewrite repeat_length; lia)) as [f1 Hu1].
    rewrite Hu1. cbn [bind].
    assert (Hl1 : length f1 = length p) by (rewrite (upd_length _ _ _ _ Hu1); apply repeat_length).
    destruct (upd_lt f1 (length p - 1) true ltac:(lia)) as [f2 Hu2]. rewrite Hu2. cbn [bind].
    assert (Hl2 : length f2 = length p) by (rewrite (upd_length _ _ _ _ Hu2); exact Hl1).
    apply (rdp_ok D d2 leD dzero p eps Heps R R1); try lia.
    apply R0; [exact Hl2| |].
    - unfold flagged. rewrite (upd_nth_other _ _ _ _ _ Hu2) by lia. eapply upd_nth_same; exact Hu1.
    - unfold flagged. eapply upd_nth_same; exact Hu2.
  Qed.

  (* no out-of-bounds access and no fuel exhaustion (recursion depth <= len) when 0 <= epsilon^2 *)
  Theorem rdp_safe p : exists r, rdp_gen pt pt_eqb D d2 leD dzero p eps = Ok r.
  Proof.
    unfold rdp_gen. destruct (length p <? 5) eqn:E; [eauto|]. apply Nat.ltb_ge in E.
    destruct (rdp_flags_ok p (fun _ => True) E) as (fl & Hf & Hl & _); auto.
    rewrite Hf. cbn [bind]. rewrite collect_full by exact Hl. eauto.
  Qed.

  Lemma flagged_set fl i fl' j : upd fl i true = Ok fl' -> flagged fl j -> flagged fl' j.
  Proof.
    intros Hu H. unfold flagged in *. destruct (Nat.eq_dec j i) as [->|Hn].
    - eapply upd_nth_same; exact Hu.
    - rewrite (upd_nth_other _ _ _ _ _ Hu) by exact Hn. exact H.
  Qed.

  (* both end vertices are kept, for every path *)
  Theorem rdp_keeps_ends p :
    exists r, rdp_gen pt pt_eqb D d2 leD dzero p eps = Ok r /\ keeps_ends r p = true.
  Proof.
    unfold rdp_gen. destruct (length p <? 5) eqn:E.
    - exists p. split; [reflexivity|]. destruct p as [|a t]; [reflexivity|].
      unfold keeps_ends, hd_pt, last_pt, opt_pt_eqb. rewrite !pt_eqb_refl. reflexivity.
    - apply Nat.ltb_ge in E.
      destruct (rdp_flags_ok p (fun fl => flagged fl 0 /\ flagged fl (length p - 1)) E) as (fl & Hf & Hl & H0 & Hh).
      + intros fl i fl' Hu [H1 H2]. split; eapply flagged_set; eassumption.
      + auto.
      + rewrite Hf. cbn [bind]. rewrite collect_full by exact Hl. eexists; split; [reflexivity|].
        (* select true = select false on negated flags; reuse the end point lemma *)
        assert (Hsel : select true p fl = select false p (map negb fl)) by apply select_true_negb.
        rewrite Hsel. apply (select_keeps_ends p (map negb fl) (length p - 1)).
        * lia.
        * rewrite map_length. lia.
        * unfold unflagged, flagged in *. rewrite nth_error_map, H0. reflexivity.
        * unfold unflagged, flagged in *. rewrite nth_error_map, Hh. reflexivity.
  Qed.
End RdpThm.

(* ------------------------------------------------------------------ the distance bound *)
Section RdpBound.
  Variable D : Type.
  Variable d2 : pt -> pt -> pt -> D.
  Variable leD : D -> D -> bool.
  Variable dzero : D.
  Variable p : path.
  Variable eps : D.
  Hypothesis Heps : leD dzero eps = true.
  (* leD is a total preorder on the values that compare <= to themselves (binary64: everything but NaN) *)
  Hypothesis Hrefl0 : leD dzero dzero = true.
  Hypothesis Htrans : forall a b c, leD a b = true -> leD b c = true -> leD a c = true.
  Hypothesis Htotal : forall a b, leD a a = true -> leD b b = true -> leD a b = false -> leD b a = true.
  (* no distance between vertices of the path is NaN *)
  Hypothesis Hnn : forall a b c, In a p -> In b p -> In c p -> leD (d2 a b c) (d2 a b c) = true.
  (* a vertex that coincides with the far end of the chord is within epsilon of it *)
  Hypothesis Hsame : forall x a, In x p -> In a p -> leD (d2 x a x) eps = true.

  Definition pn (i : nat) : pt := nth i p (0, 0)%Z.

  Lemma pn_In i : i < length p -> In (pn i) p.
  Proof. intros H. apply nth_In. exact H. Qed.

  Lemma rd_pn i : i < length p -> rd p i = Ok (pn i).
  Proof. intros H. apply rd_nth. exact H. Qed.

  (* a, b are kept, everything strictly between is removed and within eps of the line through p[a], p[b] *)
  Definition seg_ok (fl : list bool) (a b : nat) : Prop :=
    a < b /\ b < length p /\ flagged fl a /\ flagged fl b /\
    forall i, a < i < b -> unflagged fl i /\ leD (d2 (pn i) (pn a) (pn b)) eps = true.

  Inductive covered (fl : list bool) : nat -> nat -> Prop :=
  | cov_refl a : flagged fl a -> covered fl a a
  | cov_seg a b : seg_ok fl a b -> covered fl a b
  | cov_split a m b : covered fl a m -> covered fl m b -> covered fl a b.

  Lemma covered_le fl a b : covered fl a b -> a <= b.
  Proof. induction 1 as [a H|a b H|a m b _ IH1 _ IH2]; [lia|destruct H; lia|lia]. Qed.

  Lemma covered_ext fl fl' a b :
    covered fl a b -> (forall i, a <= i <= b -> nth_error fl' i = nth_error fl i) -> covered fl' a b.
  Proof.
    induction 1 as [a H|a b H|a m b H1 IH1 H2 IH2]; intros Hext.
    - apply cov_refl. unfold flagged in *. rewrite Hext by lia. exact H.
    - apply cov_seg. destruct H as (H1 & H2 & H3 & H4 & H5). unfold seg_ok, flagged, unflagged in *.
      split; [exact H1|]. split; [exact H2|]. split; [rewrite Hext by lia; exact H3|].
      split; [rewrite Hext by lia; exact H4|].
      intros i Hi. rewrite Hext by lia. apply H5; exact Hi.
    - pose proof (covered_le _ _ _ H1). pose proof (covered_le _ _ _ H2).
      eapply cov_split; [apply IH1|apply IH2]; intros i Hi; apply Hext; lia.
  Qed.

  Lemma covered_first fl a c : covered fl a c -> a = c \/ exists b, seg_ok fl a b /\ covered fl b c.
  Proof.
    induction 1 as [a H|a b H|a m b H1 IH1 H2 IH2].
    - left; reflexivity.
    - right. exists b. split; [exact H|]. apply cov_refl. apply H.
    - destruct IH1 as [->|(b' & Hs & Hc)]; [exact IH2|].
      right. exists b'. split; [exact Hs|]. eapply cov_split; eassumption.
  Qed.

  (* the scan: the final maximum dominates every distance of the range *)
  Lemma rdp_scan_bound b e : b < length p -> e < length p ->
    forall n i idx m, n = 0 \/ i + n <= e -> leD m m = true ->
    exists idx' m', rdp_scan pt D d2 leD n i p b e idx m = Ok (idx', m') /\
      leD m m' = true /\ leD m' m' = true /\
      (forall j, i <= j < i + n -> leD (d2 (pn j) (pn b) (pn e)) m' = true) /\
      ((idx' = idx /\ m' = m) \/ i <= idx' < i + n).
  Proof.
    intros Hb He. induction n as [|n IH]; intros i idx m Hn Hm; cbn [rdp_scan].
    - exists idx, m. split; [reflexivity|]. split; [exact Hm|]. split; [exact Hm|].
      split; [intros j Hj; lia|left; auto].
    - destruct Hn as [Hn|Hn]; [discriminate|].
      rewrite (rd_pn i) by lia. rewrite (rd_pn b Hb), (rd_pn e He). cbn [bind].
      set (d := d2 (pn i) (pn b) (pn e)).
      assert (Hd : leD d d = true) by (apply Hnn; apply pn_In; lia).
      destruct (leD d m) eqn:E.
      + destruct (IH (S i) idx m ltac:(lia) Hm) as (idx' & m' & H1 & H2 & H3 & H4 & H5).
        exists idx', m'. split; [exact H1|]. split; [exact H2|]. split; [exact H3|]. split.
        * intros j Hj. destruct (Nat.eq_dec j i) as [->|Hne]; [eapply Htrans; eassumption|apply H4; lia].
        * destruct H5; [left; assumption|right; lia].
      + pose proof (Htotal d m Hd Hm E) as Hmd.
        destruct (IH (S i) i d ltac:(lia) Hd) as (idx' & m' & H1 & H2 & H3 & H4 & H5).
        exists idx', m'. split; [exact H1|]. split; [eapply Htrans; eassumption|]. split; [exact H3|]. split.
        * intros j Hj. destruct (Nat.eq_dec j i) as [->|Hne]; [exact H2|apply H4; lia].
        * right. destruct H5 as [[-> _]|]; lia.
  Qed.

  Lemma seg_ok_adjacent fl a : S a < length p -> flagged fl a -> flagged fl (S a) -> seg_ok fl a (S a).
  Proof. intros H1 H2 H3. repeat split; try assumption; try lia; intros; lia. Qed.

  (* the recursion: the range [b, e] ends up partitioned into segments that satisfy the bound; nothing outside
     the open range (b, e) is written *)
  Lemma rdp_cov : forall fuel b e fl,
    b <= e -> e < length p -> length fl = length p -> e - b < fuel ->
    flagged fl b -> flagged fl e -> (forall i, b < i < e -> unflagged fl i) ->
    exists fl', rdp pt pt_eqb D d2 leD dzero fuel p b e eps fl = Ok fl' /\ length fl' = length p /\
      (forall i, i <= b \/ e <= i -> nth_error fl' i = nth_error fl i) /\ covered fl' b e.
  Proof.
    induction fuel as [|fuel IH]; intros b e fl Hbe He Hl Hf Hfb Hfe Hun; [lia|].
    cbn [rdp].
    destruct (rdp_shrink_ok p (S (length p)) b e Hbe He ltac:(lia)) as (e1 & Hs & He1 & Hdup).
    rewrite Hs. cbn [bind].
    destruct (upd_lt fl e1 true ltac:(lia)) as [fl1 Hu1]. rewrite Hu1. cbn [bind].
    assert (Hl1 : length fl1 = length p) by (rewrite (upd_length _ _ _ _ Hu1); exact Hl).
    assert (Hfe1 : flagged fl1 e1) by (eapply upd_nth_same; exact Hu1).
    assert (Hframe1 : forall i, i <= b \/ e <= i -> nth_error fl1 i = nth_error fl i).
    { intros i Hi. destruct (Nat.eq_dec i e1) as [->|Hne].
      - rewrite Hfe1. symmetry. destruct Hi; [replace e1 with b by lia; exact Hfb|replace e1 with e by lia; exact Hfe].
      - eapply upd_nth_other; eassumption. }
    assert (Hfb1 : flagged fl1 b) by (unfold flagged; rewrite Hframe1 by lia; exact Hfb).
    assert (Hfee : flagged fl1 e) by (unfold flagged; rewrite Hframe1 by lia; exact Hfe).
    assert (Hun1 : forall i, b < i < e -> i <> e1 -> unflagged fl1 i).
    { intros i Hi Hne. eapply unflagged_upd_other; [exact Hu1|exact Hne|apply Hun; exact Hi]. }
    (* the trailing copies of p[b] *)
    assert (Htail : covered fl1 e1 e).
    { destruct (Nat.eq_dec e1 e) as [->|Hne]; [apply cov_refl; exact Hfe1|].
      apply cov_seg. split; [lia|]. split; [exact He|]. split; [exact Hfe1|]. split; [exact Hfee|].
      intros i Hi. split; [apply Hun1; lia|].
      assert (Hpi : pn i = pn e).
      { unfold pn. apply nth_error_eq_nth; [lia|]. rewrite (Hdup i) by lia. rewrite (Hdup e) by lia. reflexivity. }
      rewrite Hpi. apply Hsame; apply pn_In; lia. }
    destruct (rdp_scan_bound b e1 ltac:(lia) ltac:(lia) (e1 - (b + 1)) (b + 1) 0 dzero ltac:(lia) Hrefl0)
      as (idx & m & S1 & _ & Hmm & Hall & Hidx).
    rewrite S1. cbn [bind].
    destruct (leD m eps) eqn:Em.
    - (* leaf *)
      exists fl1. split; [reflexivity|]. split; [exact Hl1|]. split; [exact Hframe1|].
      eapply cov_split; [|exact Htail].
      destruct (Nat.eq_dec b e1) as [<-|Hne]; [apply cov_refl; exact Hfb1|].
      apply cov_seg. split; [lia|]. split; [lia|]. split; [exact Hfb1|]. split; [exact Hfe1|].
      intros i Hi. split; [apply Hun1; lia|]. eapply Htrans; [apply Hall; lia|exact Em].
    - destruct Hidx as [[-> ->]|Hidx]; [rewrite Heps in Em; discriminate|].
      destruct (upd_lt fl1 idx true ltac:(lia)) as [fl2 Hu2]. rewrite Hu2. cbn [bind].
      assert (Hl2 : length fl2 = length p) by (rewrite (upd_length _ _ _ _ Hu2); exact Hl1).
      assert (Hfi2 : flagged fl2 idx) by (eapply upd_nth_same; exact Hu2).
      assert (Hframe2 : forall i, i <> idx -> nth_error fl2 i = nth_error fl1 i).
      { intros i Hi. eapply upd_nth_other; eassumption. }
      assert (Hleft : exists fl3,
        (if b + 1 <? idx then rdp pt pt_eqb D d2 leD dzero fuel p b idx eps fl2 else Ok fl2) = Ok fl3 /\
        length fl3 = length p /\ (forall i, i <= b \/ idx <= i -> nth_error fl3 i = nth_error fl2 i) /\
        covered fl3 b idx).
      { destruct (b + 1 <? idx) eqn:E.
        - apply Nat.ltb_lt in E. apply IH; try lia; try assumption.
          + unfold flagged. rewrite Hframe2 by lia. exact Hfb1.
          + intros i Hi. unfold unflagged. rewrite Hframe2 by lia. apply Hun1; lia.
        - apply Nat.ltb_ge in E. exists fl2. split; [reflexivity|]. split; [exact Hl2|]. split; [auto|].
          replace idx with (S b) in * by lia. apply cov_seg, seg_ok_adjacent; [lia| |exact Hfi2].
          unfold flagged. rewrite Hframe2 by lia. exact Hfb1. }
      destruct Hleft as (fl3 & -> & Hl3 & Hframe3 & Hcov3). cbn [bind].
      destruct (e1 =? 0) eqn:E0; [apply Nat.eqb_eq in E0; lia|].
      assert (Hfi3 : flagged fl3 idx) by (unfold flagged; rewrite Hframe3 by lia; exact Hfi2).
      assert (Hfe3 : flagged fl3 e1) by (unfold flagged; rewrite Hframe3, Hframe2 by lia; exact Hfe1).
      assert (Hright : exists fl4,
        (if idx <? e1 - 1 then rdp pt pt_eqb D d2 leD dzero fuel p idx e1 eps fl3 else Ok fl3) = Ok fl4 /\
        length fl4 = length p /\ (forall i, i <= idx \/ e1 <= i -> nth_error fl4 i = nth_error fl3 i) /\
        covered fl4 idx e1).
      { destruct (idx <? e1 - 1) eqn:E.
        - apply Nat.ltb_lt in E. apply IH; try lia; try assumption.
          intros i Hi. unfold unflagged. rewrite Hframe3, Hframe2 by lia. apply Hun1; lia.
        - apply Nat.ltb_ge in E. exists fl3. split; [reflexivity|]. split; [exact Hl3|]. split; [auto|].
          replace e1 with (S idx) in * by lia. apply cov_seg, seg_ok_adjacent; [lia|exact Hfi3|exact Hfe3]. }
      destruct Hright as (fl4 & -> & Hl4 & Hframe4 & Hcov4).
      exists fl4. split; [reflexivity|]. split; [exact Hl4|]. split.
      + intros i Hi. rewrite Hframe4, Hframe3, Hframe2 by lia. apply Hframe1; exact Hi.
      + eapply cov_split; [|eapply cov_split; [exact Hcov4|]].
        * eapply covered_ext; [exact Hcov3|]. intros i Hi. apply Hframe4. lia.
        * eapply covered_ext; [exact Htail|]. intros i Hi. rewrite Hframe4, Hframe3, Hframe2 by lia. reflexivity.
  Qed.

  Lemma rdp_flags_cov : 5 <= length p ->
    exists fl, rdp_flags pt pt_eqb D d2 leD dzero p eps = Ok fl /\ length fl = length p /\ covered fl 0 (length p - 1).
  Proof.
    intros Hlen. unfold rdp_flags.
    destruct (upd_lt (repeat false (length p)) 0 true ltac:(rewrite repeat_length; lia)) as [f1 Hu1].
    rewrite Hu1. cbn [bind].
    assert (Hl1 : length f1 = length p) by (rewrite (upd_length _ _ _ _ Hu1); apply repeat_length).
    destruct (upd_lt f1 (length p - 1) true ltac:(lia)) as [f2 Hu2]. rewrite Hu2. cbn [bind].
    assert (Hl2 : length f2 = length p) by (rewrite (upd_length _ _ _ _ Hu2); exact Hl1).
    destruct (rdp_cov (S (length p)) 0 (length p - 1) f2 ltac:(lia) ltac:(lia) Hl2 ltac:(lia))
      as (fl & H1 & H2 & _ & H4).
    - unfold flagged. rewrite (upd_nth_other _ _ _ _ _ Hu2) by lia. eapply upd_nth_same; exact Hu1.
    - unfold flagged. eapply upd_nth_same; exact Hu2.
    - intros i Hi. unfold unflagged. rewrite (upd_nth_other _ _ _ _ _ Hu2) by lia.
      rewrite (upd_nth_other _ _ _ _ _ Hu1) by lia. apply unflagged_repeat. lia.
    - exists fl. auto.
  Qed.

  (* ---- from the partition to the executable specification predicate [rdp_bad] ---- *)
  Definition pend (a i : nat) : list (nat * pt) := map (fun j => (j, pn j)) (seq (S a) (i - S a)).

  Lemma pend_snoc a i : a < i -> pend a (S i) = pend a i ++ [(i, pn i)].
  Proof.
    intros H. unfold pend. replace (S i - S a) with (S (i - S a)) by lia.
    rewrite seq_S, map_app. cbn [map]. replace (S a + (i - S a)) with i by lia. reflexivity.
  Qed.

  Lemma bad_walk fl : length fl = length p ->
    forall k i a b, length p - i = k -> a < i -> i <= b -> seg_ok fl a b -> covered fl b (length p - 1) ->
    rdp_bad_aux pt D d2 leD i (skipn i p) (skipn i fl) (Some (pn a)) (pend a i) eps = [].
  Proof.
    intros Hl. induction k as [k IH] using lt_wf_ind. intros i a b Hk Hai Hib Hseg Hcov.
    pose proof Hseg as (Hab & Hbl & Hfa & Hfb & Hint).
    assert (Hpi : nth_error p i = Some (pn i)) by (apply nth_error_nth'; lia).
    rewrite (skipn_nth_cons p i _ Hpi).
    destruct (Nat.eq_dec i b) as [->|Hne].
    - rewrite (skipn_nth_cons fl b true Hfb). cbn [rdp_bad_aux].
      rewrite filter_none; [cbn [map app]|].
      + destruct (covered_first _ _ _ Hcov) as [Heq|(b' & Hseg' & Hcov')].
        * rewrite (skipn_all2 p) by lia. reflexivity.
        * change (@nil (nat * pt)) with (map (fun j => (j, pn j)) (seq (S b) 0)).
          replace 0 with (S b - S b) by lia. fold (pend b (S b)).
          apply (IH (length p - S b) ltac:(lia) (S b) b b'); try lia; try assumption. destruct Hseg'; lia.
      + intros [j x] Hin. unfold pend in Hin. apply in_map_iff in Hin as (j' & Hj' & Hin).
        inversion Hj'; subst. apply in_seq in Hin. cbn [snd].
        destruct (Hint j ltac:(lia)) as (_ & Hle). rewrite Hle. reflexivity.
    - destruct (Hint i ltac:(lia)) as (Hui & _).
      rewrite (skipn_nth_cons fl i false Hui). cbn [rdp_bad_aux].
      rewrite <- pend_snoc by lia.
      apply (IH (length p - S i) ltac:(lia) (S i) a b); try lia; assumption.
  Qed.

  Theorem rdp_bound_gen fl : 5 <= length p ->
    rdp_flags pt pt_eqb D d2 leD dzero p eps = Ok fl -> rdp_bad pt D d2 leD p fl eps = [].
  Proof.
    intros Hlen Hfl. destruct (rdp_flags_cov Hlen) as (fl0 & H1 & Hl & Hcov).
    rewrite Hfl in H1. inversion H1; subst fl0. clear H1.
    destruct (covered_first _ _ _ Hcov) as [Heq|(b & Hseg & Hcov')]; [lia|].
    pose proof Hseg as (Hab & Hbl & Hf0 & _).
    unfold rdp_bad.
    assert (Hp0 : nth_error p 0 = Some (pn 0)) by (apply nth_error_nth'; lia).
    pose proof (skipn_nth_cons p 0 _ Hp0) as Hp. pose proof (skipn_nth_cons fl 0 true Hf0) as Hf.
    cbn [skipn] in Hp, Hf. rewrite Hp at 1. rewrite Hf at 1. cbn [rdp_bad_aux map app].
    change (@nil (nat * pt)) with (pend 0 1).
    apply (bad_walk fl Hl (length p - 1) 1 0 b); try lia; assumption.
  Qed.
End RdpBound.

(* paths of fewer than 5 points are returned unchanged: nothing is removed *)
Lemma rdp_bad_all_true D d2 leD (eps : D) : forall l i lastk,
  rdp_bad_aux pt D d2 leD i l (repeat true (length l)) lastk [] eps = [].
Proof.
  induction l as [|x l IH]; intros i lastk; [reflexivity|].
  cbn [length repeat rdp_bad_aux]. destruct lastk; cbn [map filter app]; apply IH.
Qed.
