(* Soundness of the exact well-formedness checkers of model/WfGeom.v with respect to the vocabulary of the
   C03 theorems (model/RingFinal.v: no_cyc_dup) and base/Geom, base/Winding, base/Dist. *)
From Clip Require Import base.Geom base.Winding base.Dist model.RingFinal model.WfGeom.
From Coq Require Import ZArith List Bool Lia.
Import ListNotations.
Local Open Scope Z_scope.

Lemma no_adj_dup_snoc l x : l <> [] ->
  no_adj_dup (l ++ [x]) = no_adj_dup l && negb (pt_eqb (last l x) x).
Proof.
  induction l as [|a l IH]; intros Hne; [contradiction|].
  destruct l as [|b l].
  - cbn. rewrite andb_true_r. reflexivity.
  - change ((a :: b :: l) ++ [x]) with (a :: ((b :: l) ++ [x])).
    change (no_adj_dup (a :: (b :: l) ++ [x])) with (negb (pt_eqb a b) && no_adj_dup ((b :: l) ++ [x])).
    rewrite IH by discriminate.
    change (no_adj_dup (a :: b :: l)) with (negb (pt_eqb a b) && no_adj_dup (b :: l)).
    change (last (a :: b :: l) x) with (last (b :: l) x).
    rewrite andb_assoc. reflexivity.
Qed.

Lemma lin_no_dup_eq l : lin_no_dup l = no_adj_dup l.
Proof.
  induction l as [|a l IH]; [reflexivity|]. destruct l as [|b l]; [reflexivity|].
  change (lin_no_dup (a :: b :: l)) with (negb (pt_eqb a b) && lin_no_dup (b :: l)).
  rewrite IH. reflexivity.
Qed.

Lemma pt_eqb_sym a b : pt_eqb a b = pt_eqb b a.
Proof.
  destruct (pt_eqb a b) eqn:E.
  - apply pt_eqb_eq in E. subst. symmetry. apply pt_eqb_refl.
  - symmetry. apply pt_eqb_neq. apply pt_eqb_neq in E. congruence.
Qed.

Lemma last_indep (l : list pt) x y : l <> [] -> last l x = last l y.
Proof.
  induction l as [|a l IH]; intros H; [contradiction|].
  destruct l as [|b l]; [reflexivity|]. apply IH. discriminate.
Qed.

Lemma struct_ok_path p :
  (3 <= length p)%nat -> lin_no_dup p = true -> closing_ok p = true -> no_cyc_dup p = true.
Proof.
  intros Hlen Hlin Hcl. destruct p as [|a t]; [reflexivity|].
  unfold no_cyc_dup. rewrite no_adj_dup_snoc by discriminate.
  rewrite <- lin_no_dup_eq, Hlin. cbn [andb].
  unfold closing_ok in Hcl. destruct t as [|b t]; [cbn in Hlen; lia|].
  rewrite pt_eqb_sym. exact Hcl.
Qed.

Lemma struct_path_nil i p : struct_path (i, p) = [] ->
  (3 <= length p)%nat /\ no_cyc_dup p = true.
Proof.
  unfold struct_path. intros H.
  apply app_eq_nil in H. destruct H as [H1 H2].
  apply app_eq_nil in H2. destruct H2 as [H2 H3].
  destruct (length p <? 3)%nat eqn:E1; [discriminate|].
  destruct (lin_no_dup p) eqn:E2; [|discriminate].
  destruct (closing_ok p) eqn:E3; [|discriminate].
  apply Nat.ltb_ge in E1. split; [exact E1|]. apply struct_ok_path; assumption.
Qed.

Lemma flat_map_nil {A B} (f : A -> list B) l : flat_map f l = [] -> forall x, In x l -> f x = [].
Proof.
  induction l as [|a l IH]; intros H x Hx; [contradiction|].
  cbn [flat_map] in H. apply app_eq_nil in H. destruct H as [Ha Hl].
  destruct Hx as [->|Hx]; [exact Ha|]. apply IH; assumption.
Qed.

Lemma indexed_from_In {A} (l : list A) : forall i x, In x l -> exists j, In (j, x) (indexed_from i l).
Proof.
  induction l as [|a l IH]; intros i x Hx; [contradiction|].
  destruct Hx as [->|Hx].
  - exists i. left. reflexivity.
  - destruct (IH (i + 1) x Hx) as [j Hj]. exists j. right. exact Hj.
Qed.

Theorem struct_check_sound out : struct_check out = [] ->
  Forall (fun p => (3 <= length p)%nat /\ no_cyc_dup p = true) out.
Proof.
  intros H. apply Forall_forall. intros p Hp.
  destruct (indexed_from_In out 0 p Hp) as [j Hj].
  apply (struct_path_nil j). exact (flat_map_nil _ _ H (j, p) Hj).
Qed.
