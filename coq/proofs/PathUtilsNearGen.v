(* StripNearEqual<T> for any point type (model.PathUtils.strip_near_equal_g): defining equations.
   The forward pass is the greedy "keep iff not near the last kept point"; for a closed path the result is the prefix of
   the forward pass that is left after popping EVERY trailing point near the first one (`while`, not `if`): all popped
   points are near the first point and the point the loop stops at is not (or only the first point is left).
   [strip_near_equal] (int64 points) and [strip_near_equal_d] (double points) are instances. *)
From Coq Require Import ZArith List Bool Lia Arith Floats.
From Clip Require Import base.Geom base.FloatModel model.PathUtils proofs.PathUtilsBase.
Import ListNotations.
Local Open Scope nat_scope.

Lemma nth_firstn_lt {A} (l : list A) n j d : j < n -> nth j (firstn n l) d = nth j l d.
Proof.
  revert l j; induction n as [|n IH]; intros l j H; [lia|].
  destruct l as [|x l]; [destruct j; reflexivity|]. cbn [firstn]. destruct j; [reflexivity|]. cbn [nth]. apply IH. lia.
Qed.

Lemma last_firstn {A} (l : list A) k d : 1 <= k -> k <= length l -> last (firstn k l) d = nth (k - 1) l d.
Proof.
  revert l; induction k as [|k IH]; intros l H1 H2; [lia|].
  destruct l as [|x l]; [cbn in H2; lia|]. cbn [firstn length] in *.
  destruct k as [|k'].
  - cbn. reflexivity.
  - destruct l as [|y l']; [cbn in H2; lia|].
    change (last (x :: firstn (S k') (y :: l')) d) with (last (firstn (S k') (y :: l')) d).
    rewrite IH by (cbn [length] in *; lia). cbn [Nat.sub nth]. rewrite Nat.sub_0_r. reflexivity.
Qed.

Section NearGen.
  Variable P : Type.
  Variable nearb : P -> P -> bool.

  Fixpoint no_adj_g (R : P -> P -> Prop) (l : list P) : Prop :=
    match l with
    | a :: ((b :: _) as t) => ~ R a b /\ no_adj_g R t
    | _ => True
    end.

  Definition nearR (a b : P) : Prop := nearb a b = true.
  Notation from := (strip_near_from_g P nearb).

  Lemma from_sublist a l : sublist (from a l) l.
  Proof.
    revert a; induction l as [|x l IH]; intros a; cbn [strip_near_from_g]; [apply sl_nil|].
    destruct (negb (nearb x a)); auto using sl_keep, sl_skip.
  Qed.

  (* consecutive kept points are not near: NearEqual(next, previous kept) is false *)
  Lemma from_no_adj a l : no_adj_g (fun x y => nearR y x) (a :: from a l).
  Proof.
    revert a; induction l as [|x l IH]; intros a; cbn [strip_near_from_g]; [exact I|].
    destruct (nearb x a) eqn:E; cbn [negb]; [apply IH|].
    split; [unfold nearR; congruence|apply IH].
  Qed.

  (* every dropped point is near the kept point before it *)
  Lemma from_dropped a l x : In x l -> In x (from a l) \/ exists k, In k (a :: l) /\ nearR x k.
  Proof.
    revert a; induction l as [|y l IH]; intros a; [intros []|]. cbn [strip_near_from_g].
    destruct (nearb y a) eqn:E; cbn [negb].
    - intros [->|H].
      + right. exists a. split; [left; reflexivity|exact E].
      + destruct (IH a H) as [H1|(k & Hk & Hn)]; [left; exact H1|].
        right. exists k. split; [|exact Hn]. destruct Hk; [left; assumption|right; right; assumption].
    - intros [->|H]; [left; left; reflexivity|].
      destruct (IH y H) as [H1|(k & Hk & Hn)]; [left; right; exact H1|].
      right. exists k. split; [right; exact Hk|exact Hn].
  Qed.

  Lemma no_adj_firstn R k l : no_adj_g R l -> no_adj_g R (firstn k l).
  Proof.
    revert l; induction k as [|k IH]; intros l H; [exact I|].
    destruct l as [|a l]; [exact I|]. cbn [firstn]. destruct l as [|b l']; [destruct k; exact I|].
    destruct k as [|k']; [exact I|]. cbn [firstn]. destruct H as [H1 H2]. split; [exact H1|].
    change (b :: firstn k' l') with (firstn (S k') (b :: l')). apply IH. exact H2.
  Qed.

  (* while (result.size() > 1 && NearEqual(result.back(), first_pt, max_dist_sqrd)) result.pop_back(); *)
  Lemma pop_spec first d : forall fuel l, length l < fuel ->
    exists k, pop_back_near_g P nearb fuel first l = Ok (firstn k l) /\ k <= length l /\ (1 <= length l -> 1 <= k) /\
      (1 < k -> nearb (nth (k - 1) l d) first = false) /\
      (forall j, k <= j < length l -> nearb (nth j l d) first = true).
  Proof.
    induction fuel as [|fuel IH]; intros l Hl; [lia|]. cbn [pop_back_near_g].
    destruct (1 <? length l) eqn:E.
    - apply Nat.ltb_lt in E. rewrite (rd_nth l (length l - 1) d) by lia. cbn [bind].
      destruct (nearb (nth (length l - 1) l d) first) eqn:En.
      + assert (Hrl : removelast l = firstn (length l - 1) l).
        { rewrite removelast_firstn_len. f_equal. lia. }
        assert (Hlen : length (removelast l) = length l - 1).
        { rewrite Hrl, firstn_length. lia. }
        destruct (IH (removelast l) ltac:(lia)) as (k & H1 & H2 & H3 & H4 & H5).
        exists k. rewrite H1, Hrl, firstn_firstn. replace (Nat.min k (length l - 1)) with k by lia.
        split; [reflexivity|]. split; [lia|]. split; [intros _; apply H3; lia|]. split.
        * intros Hk. specialize (H4 Hk). rewrite Hrl, nth_firstn_lt in H4 by lia. exact H4.
        * intros j Hj. destruct (Nat.eq_dec j (length l - 1)) as [->|Hne]; [exact En|].
          specialize (H5 j ltac:(lia)). rewrite Hrl, nth_firstn_lt in H5 by lia. exact H5.
      + exists (length l). rewrite firstn_all. split; [reflexivity|]. split; [lia|]. split; [lia|].
        split; [intros _; exact En|]. intros j Hj; lia.
    - apply Nat.ltb_ge in E. exists (length l). rewrite firstn_all. split; [reflexivity|]. split; [lia|]. split; [lia|].
      split; [lia|]. intros j Hj; lia.
  Qed.

  (* the defining equations *)
  Theorem strip_near_equal_g_spec p closed d :
    exists r, strip_near_equal_g P nearb p closed = Ok r /\
      sublist r p /\ no_adj_g (fun x y => nearR y x) r /\ hd_error r = hd_error p /\
      (closed = false -> forall x, In x p -> In x r \/ exists k, In k p /\ nearR x k) /\
      (closed = true -> 1 < length r -> nearb (last r d) (hd d r) = false) /\
      (closed = true -> forall first t, p = first :: t ->
         let r0 := first :: from first t in
         exists k, r = firstn k r0 /\ 1 <= k <= length r0 /\ forall j, k <= j < length r0 -> nearb (nth j r0 d) first = true).
  Proof.
    unfold strip_near_equal_g. destruct p as [|first t].
    - exists []. split; [reflexivity|]. split; [apply sl_nil|]. split; [exact I|]. split; [reflexivity|].
      split; [intros _ x []|]. split; [intros _ H; cbn in H; lia|]. intros _ f t' H; discriminate.
    - cbv zeta. set (r0 := first :: from first t).
      assert (H1 : sublist r0 (first :: t)) by (apply sl_keep, from_sublist).
      assert (H2 : no_adj_g (fun x y => nearR y x) r0) by apply from_no_adj.
      destruct closed; cbn [negb].
      + destruct (pop_spec first d (S (length r0)) r0 (Nat.lt_succ_diag_r _)) as (k & Hk1 & Hk2 & Hk3 & Hk4 & Hk5).
        assert (Hk : 1 <= k) by (apply Hk3; unfold r0; cbn [length]; lia).
        exists (firstn k r0). split; [exact Hk1|].
        split; [eapply sublist_trans; [apply sublist_firstn|exact H1]|].
        split; [apply no_adj_firstn; exact H2|].
        split; [unfold r0; destruct k; [lia|reflexivity]|].
        split; [discriminate|]. split.
        * intros _ Hlen. rewrite firstn_length in Hlen.
          rewrite last_firstn by lia.
          replace (hd d (firstn k r0)) with first by (unfold r0; destruct k; [lia|reflexivity]).
          apply Hk4. lia.
        * intros _ f t' Heq. inversion Heq; subst f t'. exists k. split; [reflexivity|]. split; [split; [exact Hk|exact Hk2]|exact Hk5].
      + exists r0. split; [reflexivity|]. split; [exact H1|]. split; [exact H2|]. split; [reflexivity|].
        split; [|split; discriminate]. intros _ x [->|Hin]; [left; left; reflexivity|].
        destruct (from_dropped first t x Hin) as [H|H]; [left; right; exact H|right; exact H].
  Qed.
End NearGen.

(* ------------------------------------------------------------------ the int64 model is the generic one *)
Lemma strip_near_from_is_g maxd : forall l a,
  strip_near_from a l maxd = strip_near_from_g pt (fun x y => near_equal x y maxd) a l.
Proof. induction l as [|x l IH]; intros a; [reflexivity|]. cbn [strip_near_from strip_near_from_g]. rewrite !IH. reflexivity. Qed.

Lemma pop_back_near_is_g maxd first : forall fuel l,
  pop_back_near fuel first l maxd = pop_back_near_g pt (fun x y => near_equal x y maxd) fuel first l.
Proof.
  induction fuel as [|fuel IH]; intros l; [reflexivity|]. cbn [pop_back_near pop_back_near_g].
  destruct (1 <? length l); [|reflexivity]. destruct (rd l (length l - 1)); cbn [bind]; try reflexivity.
  rewrite IH. reflexivity.
Qed.

Theorem strip_near_equal_is_g p maxd closed :
  strip_near_equal p maxd closed = strip_near_equal_g pt (fun x y => near_equal x y maxd) p closed.
Proof.
  unfold strip_near_equal, strip_near_equal_g. destruct p as [|first t]; [reflexivity|]. cbv zeta.
  rewrite strip_near_from_is_g. destruct closed; cbn [negb]; [apply pop_back_near_is_g|reflexivity].
Qed.

(* the Paths overloads: one result path per input path, each the single-path result *)
Lemma map_res_spec {A B} (f : A -> res B) (g : A -> B) : (forall x, f x = Ok (g x)) ->
  forall l, map_res f l = Ok (map g l).
Proof. intros H. induction l as [|x l IH]; [reflexivity|]. cbn [map_res map]. rewrite H, IH. reflexivity. Qed.

Lemma map_res_Ok {A B} (f : A -> res B) : forall l r, map_res f l = Ok r ->
  length r = length l /\ forall i x, nth_error l i = Some x -> exists y, nth_error r i = Some y /\ f x = Ok y.
Proof.
  induction l as [|a l IH]; intros r H; cbn [map_res] in H.
  - inversion H. split; [reflexivity|]. intros i x Hx. destruct i; discriminate.
  - apply bind_Ok in H as (y & Hy & H). apply bind_Ok in H as (r' & Hr & H). inversion H; subst r.
    destruct (IH r' Hr) as (Hl & Hn). split; [cbn [length]; lia|].
    intros [|i] x Hx; cbn [nth_error] in *.
    + inversion Hx; subst x. eauto.
    + apply Hn. exact Hx.
Qed.

(* ------------------------------------------------------------------ satisfiability / the seeded shape *)
Example strip_near_fan_d :
  strip_near_equal_d [(0, 0); (10, 0); (10, 10); (0, 10); (-0x1.999999999999ap-2, 0); (0, -0x1.999999999999ap-2); (0x1.999999999999ap-2, 0)]%float 0.25%float true
  = Ok [(0, 0); (10, 0); (10, 10); (0, 10)]%float.
Proof. vm_compute. reflexivity. Qed.

(* ------------------------------------------------------------------ defining equations of the PathD instantiations *)
Lemma translate_path_d_spec p dx dy :
  length (translate_path_d p dx dy) = length p /\
  forall i, nth_error (translate_path_d p dx dy) i = option_map (fun q => (fst q + dx, snd q + dy)%float) (nth_error p i).
Proof. split; [apply map_length|intros i; apply nth_error_map]. Qed.

(* TrimCollinear(PathD, precision, open) = descale (TrimCollinear64 (round (path * scale))), never an error *)
Lemma trim_collinear_d_spec (trim_total : forall p o, exists r, trim_collinear p o = Ok r) p scale o :
  let p64 := map (fun q => (F2I64_round (fst q * scale), F2I64_round (snd q * scale))%float) p in
  exists r64, trim_collinear p64 o = Ok r64 /\
    trim_collinear_d p scale o = Ok (map (fun q => (Z2Ff (px q) * (1 / scale), Z2Ff (py q) * (1 / scale))%float) r64).
Proof.
  cbv zeta. destruct (trim_total (map (fun q => (F2I64_round (fst q * scale), F2I64_round (snd q * scale))%float) p) o) as [r Hr].
  exists r. split; [exact Hr|]. unfold trim_collinear_d. rewrite Hr. reflexivity.
Qed.

Lemma ellipse_rect_i_spec l t r b steps si co :
  ellipse_rect_i l t r b steps si co =
  ellipse_i (Z.quot (l + r) 2, Z.quot (t + b) 2) (Z2Ff (r - l) * 0.5)%float (Z2Ff (b - t) * 0.5)%float steps si co.
Proof. reflexivity. Qed.

Lemma ellipse_rect_d_spec l t r b steps si co :
  ellipse_rect_d l t r b steps si co =
  ellipse_d ((l + r) / 2)%float ((t + b) / 2)%float ((r - l) * 0.5)%float ((b - t) * 0.5)%float steps si co.
Proof. reflexivity. Qed.
