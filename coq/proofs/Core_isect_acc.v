(* C18, GetSegmentIntersectPt: accuracy for |coordinates| <= 2^25 and properly crossing segments.

   Truncating variant (GetSegmentIntersectPt_lo, the default build): returns true and a point in the bounding
   box of the first segment within 1 + 2^-20 per axis of the exact crossing X = a + (tnum/det)(b - a)
   ([isect_accuracy_small_lo]).  The literal bound 1 is false ([Core_isect.isect_accuracy_small_lo_refuted]).

   Structure of the argument:
     - det and the numerator of t are exact integers below 2^53 ([Core_float.fint]); det <> 0;
     - t_f = RN(tnum/det) with 2^-53 <= tnum/det < 1, so t_f > 0 (the first early exit is dead) and
       t_f >= 1 only if 1 - t <= 2^-52 (then the end point b is returned, 2^-26 from the crossing);
     - otherwise x_f = RN(a.x + RN(t_f dx1)) is within 2^-24 of X.x (absolute error of each rounding,
       Flocq's [error_N_FLT]) and lies between a.x and b.x (monotonicity of rounding, integers are
       representable); F2I64_trunc is Flocq's Ztrunc on finite values below 2^63, monotone, fixes integers,
       moves by less than 1;
     - the real inequality is turned into the integer form of [CoreSpec.isect_within].
   The proofs identify sub-terms of the generated definitions by shape (after [cbv zeta]). *)
From Coq Require Import ZArith Reals Floats Lia Lra Bool.
From Clip Require Import base.Geom base.FloatModel base.CSem gen.Gen_core model.CoreSpec proofs.Core_float proofs.Core_isect.
From Flocq Require Import Core.Core IEEE754.BinarySingleNaN IEEE754.PrimFloat.
From Flocq Require Import Relative.
Local Open Scope Z_scope.


(* ------------------------------------------------------------------ rounding to nearest even in binary64 *)
Definition RN (x : R) : R := round radix2 (fexp prec emax) (round_mode mode_NE) x.

(* f is finite and its real value is r *)
Definition freal (f : PrimFloat.float) (r : R) : Prop :=
  BinarySingleNaN.is_finite (Prim2B f) = true /\ B2R (Prim2B f) = r.

Lemma fint_freal f z : fint f z -> freal f (IZR z).
Proof. exact (fun H => H). Qed.

Lemma RN_le x y : (x <= y)%R -> (RN x <= RN y)%R.
Proof. intros H. apply round_le; [apply fexp_correct; reflexivity|apply valid_rnd_round_mode|exact H]. Qed.

Lemma RN_int z : small z -> RN (IZR z) = IZR z.
Proof. exact (round_int z). Qed.

Lemma RN_0 : RN 0 = 0%R.
Proof. apply (RN_int 0). unfold small; cbn; lia. Qed.

Lemma RN_1 : RN 1 = 1%R.
Proof. apply (RN_int 1). unfold small; cbn; lia. Qed.

Lemma bpow_IZR e : 0 <= e -> bpow radix2 e = IZR (2 ^ e).
Proof. intros H. rewrite <- IZR_Zpower by exact H. reflexivity. Qed.

(* no overflow below 2^100 *)
Lemma RN_abs_le100 x : (Rabs x <= IZR (2 ^ 100))%R -> (Rabs (RN x) <= IZR (2 ^ 100))%R.
Proof.
  intros H. rewrite <- (bpow_IZR 100) in * by lia.
  apply abs_round_le_generic; [apply fexp_correct; reflexivity|apply valid_rnd_round_mode| |exact H].
  apply generic_format_bpow. unfold fexp, emin, prec, emax. lia.
Qed.

Lemma RN_lt_emax x : (Rabs x <= IZR (2 ^ 100))%R -> Rlt_bool (Rabs (RN x)) (bpow radix2 emax) = true.
Proof.
  intros H. apply Rlt_bool_true.
  apply Rle_lt_trans with (1 := RN_abs_le100 x H).
  rewrite <- (bpow_IZR 100) by lia. apply bpow_lt. unfold emax. lia.
Qed.

Lemma freal_mul f g x y : freal f x -> freal g y -> (Rabs (x * y) <= IZR (2 ^ 100))%R ->
  freal (f * g)%float (RN (x * y)).
Proof.
  intros [Ff Rf] [Fg Rg] S. unfold freal. rewrite mul_equiv.
  pose proof (Bmult_correct prec emax Hprec Hmax mode_NE (Prim2B f) (Prim2B g)) as C.
  rewrite Rf, Rg in C. fold (RN (x * y)) in C. rewrite (RN_lt_emax _ S) in C.
  destruct C as (C1 & C2 & _). rewrite Ff, Fg in C2. split; assumption.
Qed.

Lemma freal_add f g x y : freal f x -> freal g y -> (Rabs (x + y) <= IZR (2 ^ 100))%R ->
  freal (f + g)%float (RN (x + y)).
Proof.
  intros [Ff Rf] [Fg Rg] S. unfold freal. rewrite add_equiv.
  pose proof (Bplus_correct prec emax Hprec Hmax mode_NE (Prim2B f) (Prim2B g) Ff Fg) as C.
  rewrite Rf, Rg in C. fold (RN (x + y)) in C. rewrite (RN_lt_emax _ S) in C.
  destruct C as (C1 & C2 & _). split; assumption.
Qed.

Lemma freal_div f g x y : freal f x -> freal g y -> y <> 0%R -> (Rabs (x / y) <= IZR (2 ^ 100))%R ->
  freal (f / g)%float (RN (x / y)).
Proof.
  intros [Ff Rf] [Fg Rg] NZ S. unfold freal. rewrite div_equiv.
  rewrite <- Rg in NZ.
  pose proof (Bdiv_correct prec emax Hprec Hmax mode_NE (Prim2B f) (Prim2B g) NZ) as C.
  rewrite Rf, Rg in C. fold (RN (x / y)) in C. rewrite (RN_lt_emax _ S) in C.
  destruct C as (C1 & C2 & _). rewrite Ff in C2. split; assumption.
Qed.

Lemma freal_leb f g x y : freal f x -> freal g y -> (f <=? g)%float = Rle_bool x y.
Proof.
  intros [Ff Rf] [Fg Rg]. rewrite leb_equiv, (Bleb_correct _ _ _ _ Ff Fg), Rf, Rg. reflexivity.
Qed.

(* absolute error of one rounding *)
Lemma RN_err x B : (Rabs x <= B)%R -> (Rabs (RN x - x) <= B * / IZR (2 ^ 53) + / IZR (2 ^ 1000))%R.
Proof.
  intros H.
  destruct (error_N_FLT radix2 emin prec eq_refl (fun x => negb (Z.even x)) x) as (eps & eta & He & Ht & _ & E).
  change (round radix2 (FLT_exp emin prec) ZnearestE x) with (RN x) in E.
  rewrite E.
  replace (x * (1 + eps) + eta - x)%R with (x * eps + eta)%R by ring.
  apply Rle_trans with (1 := Rabs_triang _ _).
  apply Rplus_le_compat.
  - rewrite Rabs_mult.
    assert (Rabs eps <= / IZR (2 ^ 53))%R.
    { eapply Rle_trans; [exact He|]. change (- prec + 1) with (Z.opp 52).
      rewrite (bpow_opp radix2 52), (bpow_IZR 52) by lia.
      apply Req_le. change (2^53) with (2 * 2^52). rewrite mult_IZR.
      field. apply not_0_IZR. lia. }
    apply Rmult_le_compat; try apply Rabs_pos; assumption.
  - eapply Rle_trans; [exact Ht|].
    change emin with (Z.opp 1074). rewrite (bpow_opp radix2 1074), (bpow_IZR 1074) by lia.
    assert (P : (0 < IZR (2 ^ 1000))%R) by (apply IZR_lt; lia).
    replace (2 ^ 1074) with (2 ^ 1000 * 2 ^ 74) by (rewrite <- Z.pow_add_r by lia; reflexivity).
    rewrite mult_IZR.
    assert (Q : (1 <= IZR (2 ^ 74))%R) by (apply IZR_le; lia).
    rewrite Rinv_mult.
    assert (/ IZR (2 ^ 74) <= 1)%R. { rewrite <- Rinv_1. apply Rinv_le_contravar; lra. }
    assert (0 < / IZR (2 ^ 1000))%R by (apply Rinv_0_lt_compat; exact P).
    nra.
Qed.


Lemma F2R_pos_split m e :
  F2R (Float radix2 m e) = if 0 <=? e then IZR (m * 2 ^ e) else (IZR m / IZR (2 ^ (- e)))%R.
Proof.
  unfold F2R; cbn [Fnum Fexp]. destruct (0 <=? e) eqn:E.
  - apply Z.leb_le in E. rewrite mult_IZR, (bpow_IZR e E). reflexivity.
  - apply Z.leb_gt in E. replace e with (- - e) at 1 by lia.
    rewrite bpow_opp, (bpow_IZR (- e)) by lia. reflexivity.
Qed.

Lemma Ztrunc_F2R s m e :
  Ztrunc (F2R (Float radix2 (cond_Zopp s (Z.pos m)) e)) =
  apply_sign s (if 0 <=? e then Z.pos m * 2 ^ e else Z.pos m / 2 ^ (- e)).
Proof.
  rewrite F2R_cond_Zopp.
  assert (P : Ztrunc (F2R (Float radix2 (Z.pos m) e)) = if 0 <=? e then Z.pos m * 2 ^ e else Z.pos m / 2 ^ (- e)).
  { rewrite F2R_pos_split. destruct (0 <=? e) eqn:E.
    - apply Ztrunc_IZR.
    - apply Z.leb_gt in E.
      assert (Q : 0 < 2 ^ (- e)) by (apply Z.pow_pos_nonneg; lia).
      rewrite Ztrunc_floor.
      + apply Zfloor_div. lia.
      + apply Rmult_le_pos; [apply IZR_le; lia|]. apply Rlt_le, Rinv_0_lt_compat, IZR_lt. exact Q. }
  destruct s; cbn [cond_Ropp apply_sign].
  - rewrite Ztrunc_opp, P. reflexivity.
  - exact P.
Qed.

Lemma Ztrunc_abs_le x : (Rabs (IZR (Ztrunc x)) <= Rabs x)%R.
Proof.
  destruct (Rle_or_lt 0 x) as [H|H].
  - rewrite (Ztrunc_floor x H). pose proof (Zfloor_lb x). 
    assert (0 <= IZR (Zfloor x))%R. { apply IZR_le. apply Zfloor_lub. exact H. }
    rewrite !Rabs_pos_eq; lra.
  - rewrite (Ztrunc_ceil x) by lra. pose proof (Zceil_ub x).
    assert (IZR (Zceil x) <= 0)%R. { apply IZR_le. apply Zceil_glb. lra. }
    rewrite !Rabs_left1; lra.
Qed.

Lemma F2I64_trunc_real f r : freal f r -> (Rabs r < IZR (2 ^ 63))%R -> F2I64_trunc f = Ztrunc r.
Proof.
  intros [Ff Rf] B.
  assert (I : in_i64 (Ztrunc r) = true).
  { pose proof (Ztrunc_abs_le r) as T. rewrite <- abs_IZR in T.
    assert (Z.abs (Ztrunc r) < 2 ^ 63) by (apply lt_IZR; lra).
    unfold in_i64. apply andb_true_iff. split; [apply Z.leb_le|apply Z.ltb_lt]; lia. }
  unfold F2I64_trunc, F2Z_trunc, F_decode. rewrite <- B2SF_Prim2B.
  destruct (Prim2B f) as [s|s| |s m e He]; cbn [BinarySingleNaN.is_finite] in Ff; try discriminate Ff;
    cbn [B2SF B2R] in *.
  - subst r. rewrite Ztrunc_IZR in *. cbn [Z.leb]. destruct s; reflexivity.
  - subst r. rewrite Ztrunc_F2R in *. rewrite I. reflexivity.
Qed.

(* truncation is monotone, fixes integers, and moves by less than one *)
Lemma Ztrunc_between x lo hi : (IZR lo <= x <= IZR hi)%R -> lo <= Ztrunc x <= hi.
Proof.
  intros [H1 H2]. split.
  - rewrite <- (Ztrunc_IZR lo). apply Ztrunc_le. exact H1.
  - rewrite <- (Ztrunc_IZR hi). apply Ztrunc_le. exact H2.
Qed.

Lemma Ztrunc_err x : (Rabs (IZR (Ztrunc x) - x) < 1)%R.
Proof.
  destruct (Rle_or_lt 0 x) as [H|H].
  - rewrite (Ztrunc_floor x H). pose proof (Zfloor_lb x). pose proof (Zfloor_ub x).
    apply Rabs_def1; lra.
  - rewrite (Ztrunc_ceil x) by lra. pose proof (Zceil_ub x). pose proof (Zceil_lb x).
    apply Rabs_def1; lra.
Qed.


(* turn IZR (2 ^ k) into a literal so that lra can compute with it *)
Ltac pow2 :=
  repeat match goal with
  | |- context [IZR (2 ^ ?k)] => let v := eval vm_compute in (2 ^ k) in change (2 ^ k) with v
  | H : context [IZR (2 ^ ?k)] |- _ => let v := eval vm_compute in (2 ^ k) in change (2 ^ k) with v in H
  end.

Lemma RN_err60 x B : (Rabs x <= B)%R -> (Rabs (RN x - x) <= B * / IZR (2 ^ 53) + / IZR (2 ^ 60))%R.
Proof.
  intros H. eapply Rle_trans; [apply (RN_err x B H)|].
  apply Rplus_le_compat_l. apply Rinv_le_contravar; [apply IZR_lt; lia|apply IZR_le].
  apply Z.pow_le_mono_r; lia.
Qed.

(* ------------------------------------------------------------------ the parameter t *)
Lemma t_facts tnum det :
  det <> 0 -> 0 < tnum * Z.sgn det < Z.abs det -> Z.abs det <= 2 ^ 53 ->
  (/ IZR (2 ^ 53) <= IZR tnum / IZR det < 1)%R.
Proof.
  intros NZ [P Q] B.
  assert (E : (IZR tnum / IZR det = IZR (tnum * Z.sgn det) / IZR (Z.abs det))%R).
  { destruct (Z.lt_trichotomy det 0) as [L|[L|L]]; [|lia|].
    - rewrite (Z.sgn_neg det L), (Z.abs_neq det) by lia.
      rewrite mult_IZR, !opp_IZR. field. apply not_0_IZR. lia.
    - rewrite (Z.sgn_pos det L), (Z.abs_eq det) by lia.
      rewrite mult_IZR. field. apply not_0_IZR. lia. }
  rewrite E. set (n := tnum * Z.sgn det) in *. set (m := Z.abs det) in *.
  assert (Hm : (0 < IZR m)%R) by (apply IZR_lt; lia).
  assert (Hn : (1 <= IZR n)%R) by (apply IZR_le; lia).
  assert (Hnm : (IZR n < IZR m)%R) by (apply IZR_lt; lia).
  assert (Hb : (IZR m <= IZR (2 ^ 53))%R) by (apply IZR_le; lia).
  assert (Hi : (0 < / IZR m)%R) by (apply Rinv_0_lt_compat; exact Hm).
  split.
  - apply Rle_trans with (/ IZR m)%R.
    + apply Rinv_le_contravar; assumption.
    + unfold Rdiv. nra.
  - apply Rmult_lt_reg_r with (IZR m); [exact Hm|]. unfold Rdiv. rewrite Rmult_assoc, Rinv_l by lra. lra.
Qed.

Lemma RN_t_pos t : (/ IZR (2 ^ 53) <= t)%R -> (0 < RN t)%R.
Proof.
  intros H. apply Rlt_le_trans with (RN (/ IZR (2 ^ 53))); [|apply RN_le; exact H].
  rewrite <- (bpow_IZR 53), <- bpow_opp by lia.
  unfold RN. rewrite round_generic.
  - apply bpow_gt_0.
  - apply valid_rnd_round_mode.
  - apply generic_format_bpow. unfold fexp, emin, prec, emax. lia.
Qed.

Lemma RN_t_close t : (0 <= t <= 1)%R -> (Rabs (RN t - t) <= / IZR (2 ^ 52))%R.
Proof.
  intros H. assert (A : (Rabs t <= 1)%R) by (apply Rabs_le; lra).
  pose proof (RN_err60 t 1 A) as E. pow2. lra.
Qed.

Lemma RN_t_le1 t : (t <= 1)%R -> (RN t <= 1)%R.
Proof. intros H. rewrite <- RN_1. apply RN_le. exact H. Qed.

Lemma RN_le_int x z : small z -> (x <= IZR z)%R -> (RN x <= IZR z)%R.
Proof. intros S H. rewrite <- (RN_int z S). apply RN_le. exact H. Qed.
Lemma RN_ge_int x z : small z -> (IZR z <= x)%R -> (IZR z <= RN x)%R.
Proof. intros S H. rewrite <- (RN_int z S). apply RN_le. exact H. Qed.

(* ------------------------------------------------------------------ one coordinate, real analysis *)
Section Axis.
Variables a b : Z.
Hypothesis Ha : Z.abs a <= 2 ^ 25.
Hypothesis Hb : Z.abs b <= 2 ^ 25.
Variable tf : R.
Hypothesis Htf : (0 <= tf <= 1)%R.

Definition axis_m : R := RN (tf * IZR (b - a)).
Definition axis_x : R := RN (IZR a + axis_m).

Lemma small_a : small a. Proof. unfold small. lia. Qed.
Lemma small_b : small b. Proof. unfold small. lia. Qed.
Lemma small_d : small (b - a). Proof. unfold small. lia. Qed.

Lemma axis_bounds_R : (Rabs (IZR a) <= IZR (2 ^ 25) /\ Rabs (IZR b) <= IZR (2 ^ 25) /\ Rabs (IZR (b - a)) <= IZR (2 ^ 26))%R.
Proof. rewrite <- !abs_IZR. repeat split; apply IZR_le; lia. Qed.

Lemma axis_m_between :
  (a <= b -> (0 <= axis_m <= IZR (b - a))%R) /\ (b <= a -> (IZR (b - a) <= axis_m <= 0)%R).
Proof.
  unfold axis_m. split; intros L.
  - assert (0 <= IZR (b - a))%R by (apply IZR_le; lia).
    split.
    + rewrite <- RN_0. apply RN_le. nra.
    + apply RN_le_int; [exact small_d|nra].
  - assert (IZR (b - a) <= 0)%R by (apply IZR_le; lia).
    split.
    + apply RN_ge_int; [exact small_d|nra].
    + rewrite <- RN_0. apply RN_le. nra.
Qed.

Lemma axis_x_between : (IZR (Z.min a b) <= axis_x <= IZR (Z.max a b))%R.
Proof.
  destruct axis_m_between as [P Q]. unfold axis_x.
  assert (Eb : IZR b = (IZR a + IZR (b - a))%R) by (rewrite minus_IZR; ring).
  destruct (Z.le_ge_cases a b) as [L|L].
  - rewrite (Z.min_l a b L), (Z.max_r a b L). specialize (P L).
    split; [apply RN_ge_int|apply RN_le_int]; try exact small_a; try exact small_b; lra.
  - rewrite (Z.min_r a b L), (Z.max_l a b L). specialize (Q L).
    split; [apply RN_ge_int|apply RN_le_int]; try exact small_a; try exact small_b; lra.
Qed.

Lemma axis_x_err t : (Rabs (tf - t) <= / IZR (2 ^ 52))%R ->
  (Rabs (axis_x - (IZR a + t * IZR (b - a))) <= / IZR (2 ^ 24))%R.
Proof.
  intros Ht. destruct axis_bounds_R as (Ba & Bb & Bd).
  set (D := IZR (b - a)) in *. set (A := IZR a) in *.
  assert (Btd : (Rabs (tf * D) <= IZR (2 ^ 26))%R).
  { rewrite Rabs_mult. rewrite (Rabs_pos_eq tf) by lra. pose proof (Rabs_pos D). nra. }
  pose proof (RN_err60 _ _ Btd) as E1. fold D in E1.
  assert (E1' : (Rabs (axis_m - tf * D) <= / IZR (2 ^ 26))%R).
  { unfold axis_m. fold D. pow2. lra. }
  assert (Bm : (Rabs axis_m <= IZR (2 ^ 26) + 1)%R).
  { replace axis_m with ((axis_m - tf * D) + tf * D)%R by ring.
    eapply Rle_trans; [apply Rabs_triang|]. pow2. lra. }
  assert (Bam : (Rabs (A + axis_m) <= IZR (2 ^ 27))%R).
  { eapply Rle_trans; [apply Rabs_triang|]. pow2. lra. }
  pose proof (RN_err60 _ _ Bam) as E2. change (RN (A + axis_m)) with axis_x in E2.
  assert (E3 : (Rabs ((tf - t) * D) <= / IZR (2 ^ 26))%R).
  { rewrite Rabs_mult. pose proof (Rabs_pos (tf - t)). pose proof (Rabs_pos D). pow2. nra. }
  replace (axis_x - (A + t * D))%R with ((axis_x - (A + axis_m)) + (axis_m - tf * D) + (tf - t) * D)%R by ring.
  eapply Rle_trans; [apply Rabs_triang|]. 
  eapply Rle_trans; [apply Rplus_le_compat_r, Rabs_triang|].
  pow2. lra.
Qed.
End Axis.


(* ------------------------------------------------------------------ from the real bound to the integer form of isect_within *)
Lemma within_of_real tn td a d tnum det ip :
  det <> 0 -> 0 < td ->
  (Rabs (IZR ip - (IZR a + IZR tnum / IZR det * IZR d)) <= IZR tn / IZR td)%R ->
  td * Z.abs ((ip - a) * det - tnum * d) <= tn * Z.abs det.
Proof.
  intros NZ Ptd H.
  assert (NZr : IZR det <> 0%R) by (apply not_0_IZR; exact NZ).
  assert (Pr : (0 < IZR td)%R) by (apply IZR_lt; exact Ptd).
  apply le_IZR. rewrite !mult_IZR, !abs_IZR.
  assert (E : IZR ((ip - a) * det - tnum * d) =
              (IZR det * (IZR ip - (IZR a + IZR tnum / IZR det * IZR d)))%R).
  { rewrite minus_IZR, !mult_IZR, minus_IZR. field. exact NZr. }
  rewrite E, Rabs_mult.
  set (v := Rabs (IZR ip - (IZR a + IZR tnum / IZR det * IZR d))) in *.
  pose proof (Rabs_pos (IZR det)) as Pu. set (u := Rabs (IZR det)) in *.
  assert (H' : (IZR td * v <= IZR tn)%R).
  { apply Rmult_le_compat_l with (r := IZR td) in H; [|lra].
    unfold Rdiv in H. replace (IZR td * (IZR tn * / IZR td))%R with (IZR tn) in H by (field; lra). exact H. }
  nra.
Qed.

Section AxisZ.
Variables a b tnum det : Z.
Hypothesis Ha : Z.abs a <= 2 ^ 25.
Hypothesis Hb : Z.abs b <= 2 ^ 25.
Hypothesis NZ : det <> 0.
Hypothesis Hfrac : 0 < tnum * Z.sgn det < Z.abs det.
Hypothesis Hdet : Z.abs det <= 2 ^ 53.

Let t : R := (IZR tnum / IZR det)%R.

Lemma axis_main xf :
  (0 < RN t < 1)%R -> freal xf (axis_x a b (RN t)) ->
  let ip := F2I64_trunc xf in
  Z.min a b <= ip <= Z.max a b /\
  2 ^ 20 * Z.abs ((ip - a) * det - tnum * (b - a)) <= (2 ^ 20 + 1) * Z.abs det.
Proof.
  intros Htf Fx. cbv zeta.
  assert (Htf' : (0 <= RN t <= 1)%R) by lra.
  pose proof (axis_x_between a b Ha Hb (RN t) Htf') as Bx.
  pose proof (t_facts tnum det NZ Hfrac Hdet) as Tf. fold t in Tf.
  assert (P53 : (0 < / IZR (2 ^ 53))%R) by (apply Rinv_0_lt_compat, IZR_lt; lia).
  assert (Tc : (Rabs (RN t - t) <= / IZR (2 ^ 52))%R) by (apply RN_t_close; lra).
  pose proof (axis_x_err a b Ha Hb (RN t) Htf' t Tc) as Ex.
  set (x := axis_x a b (RN t)) in *.
  assert (Bmin : - 2 ^ 25 <= Z.min a b) by lia.
  assert (Bmax : Z.max a b <= 2 ^ 25) by lia.
  assert (Bxx : (Rabs x < IZR (2 ^ 63))%R).
  { apply IZR_le in Bmin, Bmax. rewrite opp_IZR in Bmin. apply Rabs_def1; pow2; lra. }
  rewrite (F2I64_trunc_real xf x Fx Bxx).
  split; [apply Ztrunc_between; exact Bx|].
  apply within_of_real; [exact NZ|lia|]. fold t.
  pose proof (Ztrunc_err x) as Et.
  replace (IZR (Ztrunc x) - (IZR a + t * IZR (b - a)))%R
    with ((IZR (Ztrunc x) - x) + (x - (IZR a + t * IZR (b - a))))%R by ring.
  eapply Rle_trans; [apply Rabs_triang|]. rewrite plus_IZR. pow2. lra.
Qed.

(* the computed parameter reaches 1: the end point b is returned; the crossing is within 2^-26 of it *)
Lemma axis_end_b :
  (1 <= RN t)%R ->
  2 ^ 20 * Z.abs ((b - a) * det - tnum * (b - a)) <= (2 ^ 20 + 1) * Z.abs det.
Proof.
  intros H1.
  pose proof (t_facts tnum det NZ Hfrac Hdet) as Tf. fold t in Tf.
  assert (P53 : (0 < / IZR (2 ^ 53))%R) by (apply Rinv_0_lt_compat, IZR_lt; lia).
  assert (Tc : (Rabs (RN t - t) <= / IZR (2 ^ 52))%R) by (apply RN_t_close; lra).
  apply within_of_real; [exact NZ|lia|]. fold t.
  destruct (axis_bounds_R a b Ha Hb) as (_ & _ & Bd).
  rewrite minus_IZR in *.
  replace (IZR b - (IZR a + t * (IZR b - IZR a)))%R with ((1 - t) * (IZR b - IZR a))%R by ring.
  rewrite Rabs_mult.
  assert (Rabs (1 - t) <= / IZR (2 ^ 52))%R.
  { apply Rabs_le. apply Rabs_le_inv in Tc. lra. }
  pose proof (Rabs_pos (1 - t)). pose proof (Rabs_pos (IZR b - IZR a)).
  rewrite plus_IZR. pow2. nra.
Qed.
End AxisZ.

(* ------------------------------------------------------------------ the hypotheses in integer form *)
Lemma frac_in_open_iff num den : frac_in_open num den = true <-> 0 < num * Z.sgn den < Z.abs den.
Proof. unfold frac_in_open. rewrite andb_true_iff, !Z.ltb_lt. tauto. Qed.

Lemma properly_cross_t a b c d :
  properly_cross a b c d = true ->
  isect_det a b c d <> 0 /\
  0 < isect_tnum a b c d * Z.sgn (isect_det a b c d) < Z.abs (isect_det a b c d).
Proof.
  unfold properly_cross. cbv zeta. rewrite !andb_true_iff, negb_true_iff, Z.eqb_neq, !frac_in_open_iff.
  tauto.
Qed.


Lemma axis_freal a b tf tq :
  Z.abs a <= 2 ^ 25 -> Z.abs b <= 2 ^ 25 -> (0 <= tf <= 1)%R -> freal tq tf ->
  freal (Z2F a + tq * Z2F (b - a))%float (axis_x a b tf).
Proof.
  intros Ha Hb Htf Ft. unfold axis_x.
  destruct (axis_bounds_R a b Ha Hb) as (Ba & Bb & Bd).
  assert (Bm : (Rabs (axis_m a b tf) <= IZR (2 ^ 26))%R).
  { destruct (axis_m_between a b Ha Hb tf Htf) as [P Q].
    apply Rabs_le_inv in Bd.
    destruct (Z.le_ge_cases a b) as [L|L]; [specialize (P L)|specialize (Q L)]; apply Rabs_le; lra. }
  apply freal_add.
  - apply fint_freal, Z2F_fint, small_a; assumption.
  - unfold axis_m. apply freal_mul.
    + exact Ft.
    + apply fint_freal, Z2F_fint, small_d; assumption.
    + rewrite Rabs_mult, (Rabs_pos_eq tf) by lra. pose proof (Rabs_pos (IZR (b - a))). pow2. nra.
  - eapply Rle_trans; [apply Rabs_triang|]. pow2. lra.
Qed.

Ltac red_pxy :=
  repeat match goal with
  | |- context [px (?x, ?y)] => change (px (x, y)) with x
  | |- context [py (?x, ?y)] => change (py (x, y)) with y
  end.

Theorem isect_accuracy_small_lo a b c d ip :
  coords_le (2 ^ 25) a b c d -> properly_cross a b c d = true ->
  let r := GetSegmentIntersectPt_lo a b c d ip in
  fst r = true /\ in_seg_box a b (snd r) = true /\
  isect_within (2 ^ 20 + 1) (2 ^ 20) a b c d (snd r) = true.
Proof.
  intros H PC. apply properly_cross_t in PC. destruct PC as [NZ Hfrac].
  open_coords H.
  assert (Hdet : Z.abs (isect_det a b c d) <= 2 ^ 53) by (unfold isect_det; abs_le).
  pose proof (t_facts _ _ NZ Hfrac Hdet) as Tf.
  unfold GetSegmentIntersectPt_lo. cbv zeta.
  det_exact.
  match goal with |- context [?z =? 0] =>
    assert (Ez : z = isect_det a b c d) by (unfold isect_det; ring); rewrite Ez in * end.
  destruct (isect_det a b c d =? 0) eqn:E0; [apply Z.eqb_eq in E0; contradiction|]. clear E0.
  match goal with |- context [PrimFloat.div ?n ?e] =>
    let z := zof n in
    assert (Fn : fint n z) by (fint_prove; unfold small; abs_le);
    assert (En : z = isect_tnum a b c d) by (unfold isect_tnum; ring); rewrite En in Fn;
    set (tq := PrimFloat.div n e) in *;
    assert (Ft : freal tq (RN (IZR (isect_tnum a b c d) / IZR (isect_det a b c d))))
  end.
  { apply freal_div; [exact Fn|exact F|apply not_0_IZR; exact NZ|].
    assert (P53 : (0 < / IZR (2 ^ 53))%R) by (apply Rinv_0_lt_compat, IZR_lt; lia).
    rewrite Rabs_pos_eq by lra. pow2. lra. }
  clear En Ez.
  set (t := (IZR (isect_tnum a b c d) / IZR (isect_det a b c d))%R) in *.
  rewrite (freal_leb tq 0 _ _ Ft fint_zero), (freal_leb 1 tq _ _ fint_one Ft).
  destruct (Rle_bool_spec (RN t) 0) as [L0|L0].
  { exfalso. pose proof (RN_t_pos t (proj1 Tf)). lra. }
  destruct (Rle_bool_spec 1 (RN t)) as [L1|L1]; cbn [fst snd].
  - split; [reflexivity|]. split.
    + unfold in_seg_box. rewrite !andb_true_iff, !Z.leb_le. lia.
    + unfold isect_within. cbv zeta. rewrite andb_true_iff, !Z.leb_le.
      split; apply axis_end_b; assumption.
  - split; [reflexivity|]. red_pxy.
    assert (Htf : (0 < RN t < 1)%R) by lra.
    assert (Htf' : (0 <= RN t <= 1)%R) by lra.
    match goal with |- context [F2I64_trunc (PrimFloat.add (Z2F (px a)) ?m)] =>
      pose proof (axis_main (px a) (px b) _ _ H H1 NZ Hfrac Hdet _ Htf
                    (axis_freal (px a) (px b) _ tq H H1 Htf' Ft)) as [Bx Wx] end.
    match goal with |- context [F2I64_trunc (PrimFloat.add (Z2F (py a)) ?m)] =>
      pose proof (axis_main (py a) (py b) _ _ H0 H2 NZ Hfrac Hdet _ Htf
                    (axis_freal (py a) (py b) _ tq H0 H2 Htf' Ft)) as [By Wy] end.
    split.
    + unfold in_seg_box. red_pxy. rewrite !andb_true_iff, !Z.leb_le. lia.
    + unfold isect_within. cbv zeta. red_pxy. rewrite andb_true_iff, !Z.leb_le.
      split; assumption.
Qed.
