(* C18, GetSegmentIntersectPt: accuracy for |coordinates| <= 2^25 and properly crossing segments.

   Truncating variant (GetSegmentIntersectPt_lo, the default build): returns true and a point in the bounding
   box of the first segment within 1 + 2^-20 per axis of the exact crossing X = a + (tnum/det)(b - a)
   ([isect_accuracy_small_lo]).  The literal bound 1 is false ([Core_isect.isect_accuracy_small_lo_refuted]).
     - det and the numerator of t are exact integers below 2^53 ([Core_float.fint]); det <> 0;
     - t_f = RN(tnum/det) with 2^-53 <= tnum/det < 1, so t_f > 0 (the first early exit is dead) and
       t_f >= 1 only if 1 - t <= 2^-52 (then the end point b is returned, 2^-26 from the crossing);
     - otherwise x_f = RN(a.x + RN(t_f dx1)) is within 2^-24 of X.x (absolute error of each rounding,
       Flocq's [error_N_FLT]) and lies between a.x and b.x (monotonicity of rounding, integers are
       representable); F2I64_trunc is Flocq's Ztrunc on finite values below 2^63, monotone, fixes integers,
       moves by less than 1;
     - the real inequality is turned into the integer form of [CoreSpec.isect_within].

   Rounding variant (GetSegmentIntersectPt_hi, -DCLIPPER2_HI_PRECISION=1): the literal clause holds
   ([isect_accuracy_small_hi], and with [Core_isect.isect_parallel_exact_hi] the whole [CoreSpec.isect_ok],
   [isect_ok_small_hi]).
     - the origin o is the floor of the centre of the intersection of the two bounding boxes; the constants
       ln0c, ln1c are the values at o of the linear forms vanishing on the two lines; because the end points
       of each segment are strictly on opposite sides of the other line, 2|lnc| <= |det| + |dx| + |dy|
       ([origin_line]: a piecewise linear fact proved by lia after pushing the linear form through min/max);
     - hence each product ln_dx * ln_c is below 2^25 |det| + 2^52: exact when |det| <= 2^27, and of
       absolute error <= 2^-26 |det| otherwise ([prod_approx]); the quotient is within 2^-22 of X - o
       ([hi_tail]); F2I64_rne is Flocq's ZnearestE, so the result is within 1/2 + 2^-22 of X, and in the box
       because the box has integer corners ([hi_finish]).
   The proofs identify sub-terms of the generated definitions by shape (after [cbv zeta]). *)
From Coq Require Import ZArith Reals Floats Lia Lra Bool.
From Clip Require Import base.Geom base.FloatModel base.CSem gen.Gen_core model.CoreSpec proofs.Core_float proofs.Core_isect.
From Flocq Require Import Core.Core IEEE754.BinarySingleNaN IEEE754.PrimFloat.
From Flocq Require Import Relative.
Local Open Scope Z_scope.


(* ------------------------------------------------------------------ rounding to nearest even in binary64 *)
Definition RN (x : R) : R := round radix2 (fexp prec emax) (round_mode mode_NE) x.

(* f is finite and its real value is r *)
Definition freal (f : PrimFloat.float) (r : R) : Prop :=
  BinarySingleNaN.is_finite (Prim2B f) = true /\ B2R (Prim2B f) = r.

Lemma fint_freal f z : fint f z -> freal f (IZR z).
Proof. exact (fun H => H). Qed.

Lemma RN_le x y : (x <= y)%R -> (RN x <= RN y)%R.
Proof. intros H. apply round_le; [apply fexp_correct; reflexivity|apply valid_rnd_round_mode|exact H]. Qed.

Lemma RN_int z : small z -> RN (IZR z) = IZR z.
Proof. exact (round_int z). Qed.

Lemma RN_0 : RN 0 = 0%R.
Proof. apply (RN_int 0). unfold small; cbn; lia. Qed.

Lemma RN_1 : RN 1 = 1%R.
Proof. apply (RN_int 1). unfold small; cbn; lia. Qed.

Lemma bpow_IZR e : 0 <= e -> bpow radix2 e = IZR (2 ^ e).
Proof. intros H. rewrite <- IZR_Zpower by exact H. reflexivity. Qed.

(* no overflow below 2^100 *)
Lemma RN_abs_le100 x : (Rabs x <= IZR (2 ^ 100))%R -> (Rabs (RN x) <= IZR (2 ^ 100))%R.
Proof.
  intros H. rewrite <- (bpow_IZR 100) in * by lia.
  apply abs_round_le_generic; [apply fexp_correct; reflexivity|apply valid_rnd_round_mode| |exact H].
  apply generic_format_bpow. unfold fexp, emin, prec, emax. lia.
Qed.

Lemma RN_lt_emax x : (Rabs x <= IZR (2 ^ 100))%R -> Rlt_bool (Rabs (RN x)) (bpow radix2 emax) = true.
Proof.
  intros H. apply Rlt_bool_true.
  apply Rle_lt_trans with (1 := RN_abs_le100 x H).
  rewrite <- (bpow_IZR 100) by lia. apply bpow_lt. unfold emax. lia.
Qed.

Lemma freal_mul f g x y : freal f x -> freal g y -> (Rabs (x * y) <= IZR (2 ^ 100))%R ->
  freal (f * g)%float (RN (x * y)).
Proof.
  intros [Ff Rf] [Fg Rg] S. unfold freal. rewrite mul_equiv.
  pose proof (Bmult_correct prec emax Hprec Hmax mode_NE (Prim2B f) (Prim2B g)) as C.
  rewrite Rf, Rg in C. fold (RN (x * y)) in C. rewrite (RN_lt_emax _ S) in C.
  destruct C as (C1 & C2 & _). rewrite Ff, Fg in C2. split; assumption.
Qed.

Lemma freal_add f g x y : freal f x -> freal g y -> (Rabs (x + y) <= IZR (2 ^ 100))%R ->
  freal (f + g)%float (RN (x + y)).
Proof.
  intros [Ff Rf] [Fg Rg] S. unfold freal. rewrite add_equiv.
  pose proof (Bplus_correct prec emax Hprec Hmax mode_NE (Prim2B f) (Prim2B g) Ff Fg) as C.
  rewrite Rf, Rg in C. fold (RN (x + y)) in C. rewrite (RN_lt_emax _ S) in C.
  destruct C as (C1 & C2 & _). split; assumption.
Qed.

Lemma freal_div f g x y : freal f x -> freal g y -> y <> 0%R -> (Rabs (x / y) <= IZR (2 ^ 100))%R ->
  freal (f / g)%float (RN (x / y)).
Proof.
  intros [Ff Rf] [Fg Rg] NZ S. unfold freal. rewrite div_equiv.
  rewrite <- Rg in NZ.
  pose proof (Bdiv_correct prec emax Hprec Hmax mode_NE (Prim2B f) (Prim2B g) NZ) as C.
  rewrite Rf, Rg in C. fold (RN (x / y)) in C. rewrite (RN_lt_emax _ S) in C.
  destruct C as (C1 & C2 & _). rewrite Ff in C2. split; assumption.
Qed.

Lemma freal_leb f g x y : freal f x -> freal g y -> (f <=? g)%float = Rle_bool x y.
Proof.
  intros [Ff Rf] [Fg Rg]. rewrite leb_equiv, (Bleb_correct _ _ _ _ Ff Fg), Rf, Rg. reflexivity.
Qed.

(* absolute error of one rounding *)
Lemma RN_err x B : (Rabs x <= B)%R -> (Rabs (RN x - x) <= B * / IZR (2 ^ 53) + / IZR (2 ^ 1000))%R.
Proof.
  intros H.
  destruct (error_N_FLT radix2 emin prec eq_refl (fun x => negb (Z.even x)) x) as (eps & eta & He & Ht & _ & E).
  change (round radix2 (FLT_exp emin prec) ZnearestE x) with (RN x) in E.
  rewrite E.
  replace (x * (1 + eps) + eta - x)%R with (x * eps + eta)%R by ring.
  apply Rle_trans with (1 := Rabs_triang _ _).
  apply Rplus_le_compat.
  - rewrite Rabs_mult.
    assert (Rabs eps <= / IZR (2 ^ 53))%R.
    { eapply Rle_trans; [exact He|]. change (- prec + 1) with (Z.opp 52).
      rewrite (bpow_opp radix2 52), (bpow_IZR 52) by lia.
      apply Req_le. change (2^53) with (2 * 2^52). rewrite mult_IZR.
      field. apply not_0_IZR. lia. }
    apply Rmult_le_compat; try apply Rabs_pos; assumption.
  - eapply Rle_trans; [exact Ht|].
    change emin with (Z.opp 1074). rewrite (bpow_opp radix2 1074), (bpow_IZR 1074) by lia.
    assert (P : (0 < IZR (2 ^ 1000))%R) by (apply IZR_lt; lia).
    replace (2 ^ 1074) with (2 ^ 1000 * 2 ^ 74) by (rewrite <- Z.pow_add_r by lia; reflexivity).
    rewrite mult_IZR.
    assert (Q : (1 <= IZR (2 ^ 74))%R) by (apply IZR_le; lia).
    rewrite Rinv_mult.
    assert (/ IZR (2 ^ 74) <= 1)%R. { rewrite <- Rinv_1. apply Rinv_le_contravar; lra. }
    assert (0 < / IZR (2 ^ 1000))%R by (apply Rinv_0_lt_compat; exact P).
    nra.
Qed.


Lemma F2R_pos_split m e :
  F2R (Float radix2 m e) = if 0 <=? e then IZR (m * 2 ^ e) else (IZR m / IZR (2 ^ (- e)))%R.
Proof.
  unfold F2R; cbn [Fnum Fexp]. destruct (0 <=? e) eqn:E.
  - apply Z.leb_le in E. rewrite mult_IZR, (bpow_IZR e E). reflexivity.
  - apply Z.leb_gt in E. replace e with (- - e) at 1 by lia.
    rewrite bpow_opp, (bpow_IZR (- e)) by lia. reflexivity.
Qed.

Lemma Ztrunc_F2R s m e :
  Ztrunc (F2R (Float radix2 (cond_Zopp s (Z.pos m)) e)) =
  apply_sign s (if 0 <=? e then Z.pos m * 2 ^ e else Z.pos m / 2 ^ (- e)).
Proof.
  rewrite F2R_cond_Zopp.
  assert (P : Ztrunc (F2R (Float radix2 (Z.pos m) e)) = if 0 <=? e then Z.pos m * 2 ^ e else Z.pos m / 2 ^ (- e)).
  { rewrite F2R_pos_split. destruct (0 <=? e) eqn:E.
    - apply Ztrunc_IZR.
    - apply Z.leb_gt in E.
      assert (Q : 0 < 2 ^ (- e)) by (apply Z.pow_pos_nonneg; lia).
      rewrite Ztrunc_floor.
      + apply Zfloor_div. lia.
      + apply Rmult_le_pos; [apply IZR_le; lia|]. apply Rlt_le, Rinv_0_lt_compat, IZR_lt. exact Q. }
  destruct s; cbn [cond_Ropp apply_sign].
  - rewrite Ztrunc_opp, P. reflexivity.
  - exact P.
Qed.

Lemma Ztrunc_abs_le x : (Rabs (IZR (Ztrunc x)) <= Rabs x)%R.
Proof.
  destruct (Rle_or_lt 0 x) as [H|H].
  - rewrite (Ztrunc_floor x H). pose proof (Zfloor_lb x). 
    assert (0 <= IZR (Zfloor x))%R. { apply IZR_le. apply Zfloor_lub. exact H. }
    rewrite !Rabs_pos_eq; lra.
  - rewrite (Ztrunc_ceil x) by lra. pose proof (Zceil_ub x).
    assert (IZR (Zceil x) <= 0)%R. { apply IZR_le. apply Zceil_glb. lra. }
    rewrite !Rabs_left1; lra.
Qed.

Lemma F2I64_trunc_real f r : freal f r -> (Rabs r < IZR (2 ^ 63))%R -> F2I64_trunc f = Ztrunc r.
Proof.
  intros [Ff Rf] B.
  assert (I : in_i64 (Ztrunc r) = true).
  { pose proof (Ztrunc_abs_le r) as T. rewrite <- abs_IZR in T.
    assert (Z.abs (Ztrunc r) < 2 ^ 63) by (apply lt_IZR; lra).
    unfold in_i64. apply andb_true_iff. split; [apply Z.leb_le|apply Z.ltb_lt]; lia. }
  unfold F2I64_trunc, F2Z_trunc, F_decode. rewrite <- B2SF_Prim2B.
  destruct (Prim2B f) as [s|s| |s m e He]; cbn [BinarySingleNaN.is_finite] in Ff; try discriminate Ff;
    cbn [B2SF B2R] in *.
  - subst r. rewrite Ztrunc_IZR in *. cbn [Z.leb]. destruct s; reflexivity.
  - subst r. rewrite Ztrunc_F2R in *. rewrite I. reflexivity.
Qed.

(* truncation is monotone, fixes integers, and moves by less than one *)
Lemma Ztrunc_between x lo hi : (IZR lo <= x <= IZR hi)%R -> lo <= Ztrunc x <= hi.
Proof.
  intros [H1 H2]. split.
  - rewrite <- (Ztrunc_IZR lo). apply Ztrunc_le. exact H1.
  - rewrite <- (Ztrunc_IZR hi). apply Ztrunc_le. exact H2.
Qed.

Lemma Ztrunc_err x : (Rabs (IZR (Ztrunc x) - x) < 1)%R.
Proof.
  destruct (Rle_or_lt 0 x) as [H|H].
  - rewrite (Ztrunc_floor x H). pose proof (Zfloor_lb x). pose proof (Zfloor_ub x).
    apply Rabs_def1; lra.
  - rewrite (Ztrunc_ceil x) by lra. pose proof (Zceil_ub x). pose proof (Zceil_lb x).
    apply Rabs_def1; lra.
Qed.


(* turn IZR (2 ^ k) into a literal so that lra can compute with it *)
Ltac pow2 :=
  repeat match goal with
  | |- context [IZR (2 ^ ?k)] => let v := eval vm_compute in (2 ^ k) in change (2 ^ k) with v
  | H : context [IZR (2 ^ ?k)] |- _ => let v := eval vm_compute in (2 ^ k) in change (2 ^ k) with v in H
  end.

Lemma RN_err60 x B : (Rabs x <= B)%R -> (Rabs (RN x - x) <= B * / IZR (2 ^ 53) + / IZR (2 ^ 60))%R.
Proof.
  intros H. eapply Rle_trans; [apply (RN_err x B H)|].
  apply Rplus_le_compat_l. apply Rinv_le_contravar; [apply IZR_lt; lia|apply IZR_le].
  apply Z.pow_le_mono_r; lia.
Qed.

(* ------------------------------------------------------------------ the parameter t *)
Lemma t_facts tnum det :
  det <> 0 -> 0 < tnum * Z.sgn det < Z.abs det -> Z.abs det <= 2 ^ 53 ->
  (/ IZR (2 ^ 53) <= IZR tnum / IZR det < 1)%R.
Proof.
  intros NZ [P Q] B.
  assert (E : (IZR tnum / IZR det = IZR (tnum * Z.sgn det) / IZR (Z.abs det))%R).
  { destruct (Z.lt_trichotomy det 0) as [L|[L|L]]; [|lia|].
    - rewrite (Z.sgn_neg det L), (Z.abs_neq det) by lia.
      rewrite mult_IZR, !opp_IZR. field. apply not_0_IZR. lia.
    - rewrite (Z.sgn_pos det L), (Z.abs_eq det) by lia.
      rewrite mult_IZR. field. apply not_0_IZR. lia. }
  rewrite E. set (n := tnum * Z.sgn det) in *. set (m := Z.abs det) in *.
  assert (Hm : (0 < IZR m)%R) by (apply IZR_lt; lia).
  assert (Hn : (1 <= IZR n)%R) by (apply IZR_le; lia).
  assert (Hnm : (IZR n < IZR m)%R) by (apply IZR_lt; lia).
  assert (Hb : (IZR m <= IZR (2 ^ 53))%R) by (apply IZR_le; lia).
  assert (Hi : (0 < / IZR m)%R) by (apply Rinv_0_lt_compat; exact Hm).
  split.
  - apply Rle_trans with (/ IZR m)%R.
    + apply Rinv_le_contravar; assumption.
    + unfold Rdiv. nra.
  - apply Rmult_lt_reg_r with (IZR m); [exact Hm|]. unfold Rdiv. rewrite Rmult_assoc, Rinv_l by lra. lra.
Qed.

Lemma RN_t_pos t : (/ IZR (2 ^ 53) <= t)%R -> (0 < RN t)%R.
Proof.
  intros H. apply Rlt_le_trans with (RN (/ IZR (2 ^ 53))); [|apply RN_le; exact H].
  rewrite <- (bpow_IZR 53), <- bpow_opp by lia.
  unfold RN. rewrite round_generic.
  - apply bpow_gt_0.
  - apply valid_rnd_round_mode.
  - apply generic_format_bpow. unfold fexp, emin, prec, emax. lia.
Qed.

Lemma RN_t_close t : (0 <= t <= 1)%R -> (Rabs (RN t - t) <= / IZR (2 ^ 52))%R.
Proof.
  intros H. assert (A : (Rabs t <= 1)%R) by (apply Rabs_le; lra).
  pose proof (RN_err60 t 1 A) as E. pow2. lra.
Qed.

Lemma RN_le_int x z : small z -> (x <= IZR z)%R -> (RN x <= IZR z)%R.
Proof. intros S H. rewrite <- (RN_int z S). apply RN_le. exact H. Qed.
Lemma RN_ge_int x z : small z -> (IZR z <= x)%R -> (IZR z <= RN x)%R.
Proof. intros S H. rewrite <- (RN_int z S). apply RN_le. exact H. Qed.

(* ------------------------------------------------------------------ one coordinate, real analysis *)
Section Axis.
Variables a b : Z.
Hypothesis Ha : Z.abs a <= 2 ^ 25.
Hypothesis Hb : Z.abs b <= 2 ^ 25.
Variable tf : R.
Hypothesis Htf : (0 <= tf <= 1)%R.

Definition axis_m : R := RN (tf * IZR (b - a)).
Definition axis_x : R := RN (IZR a + axis_m).

Lemma small_a : small a. Proof. unfold small. lia. Qed.
Lemma small_b : small b. Proof. unfold small. lia. Qed.
Lemma small_d : small (b - a). Proof. unfold small. lia. Qed.

Lemma axis_bounds_R : (Rabs (IZR a) <= IZR (2 ^ 25) /\ Rabs (IZR b) <= IZR (2 ^ 25) /\ Rabs (IZR (b - a)) <= IZR (2 ^ 26))%R.
Proof. rewrite <- !abs_IZR. repeat split; apply IZR_le; lia. Qed.

Lemma axis_m_between :
  (a <= b -> (0 <= axis_m <= IZR (b - a))%R) /\ (b <= a -> (IZR (b - a) <= axis_m <= 0)%R).
Proof.
  unfold axis_m. split; intros L.
  - assert (0 <= IZR (b - a))%R by (apply IZR_le; lia).
    split.
    + rewrite <- RN_0. apply RN_le. nra.
    + apply RN_le_int; [exact small_d|nra].
  - assert (IZR (b - a) <= 0)%R by (apply IZR_le; lia).
    split.
    + apply RN_ge_int; [exact small_d|nra].
    + rewrite <- RN_0. apply RN_le. nra.
Qed.

Lemma axis_x_between : (IZR (Z.min a b) <= axis_x <= IZR (Z.max a b))%R.
Proof.
  destruct axis_m_between as [P Q]. unfold axis_x.
  assert (Eb : IZR b = (IZR a + IZR (b - a))%R) by (rewrite minus_IZR; ring).
  destruct (Z.le_ge_cases a b) as [L|L].
  - rewrite (Z.min_l a b L), (Z.max_r a b L). specialize (P L).
    split; [apply RN_ge_int|apply RN_le_int]; try exact small_a; try exact small_b; lra.
  - rewrite (Z.min_r a b L), (Z.max_l a b L). specialize (Q L).
    split; [apply RN_ge_int|apply RN_le_int]; try exact small_a; try exact small_b; lra.
Qed.

Lemma axis_x_err t : (Rabs (tf - t) <= / IZR (2 ^ 52))%R ->
  (Rabs (axis_x - (IZR a + t * IZR (b - a))) <= / IZR (2 ^ 24))%R.
Proof.
  intros Ht. destruct axis_bounds_R as (Ba & Bb & Bd).
  set (D := IZR (b - a)) in *. set (A := IZR a) in *.
  assert (Btd : (Rabs (tf * D) <= IZR (2 ^ 26))%R).
  { rewrite Rabs_mult. rewrite (Rabs_pos_eq tf) by lra. pose proof (Rabs_pos D). nra. }
  pose proof (RN_err60 _ _ Btd) as E1. fold D in E1.
  assert (E1' : (Rabs (axis_m - tf * D) <= / IZR (2 ^ 26))%R).
  { unfold axis_m. fold D. pow2. lra. }
  assert (Bm : (Rabs axis_m <= IZR (2 ^ 26) + 1)%R).
  { replace axis_m with ((axis_m - tf * D) + tf * D)%R by ring.
    eapply Rle_trans; [apply Rabs_triang|]. pow2. lra. }
  assert (Bam : (Rabs (A + axis_m) <= IZR (2 ^ 27))%R).
  { eapply Rle_trans; [apply Rabs_triang|]. pow2. lra. }
  pose proof (RN_err60 _ _ Bam) as E2. change (RN (A + axis_m)) with axis_x in E2.
  assert (E3 : (Rabs ((tf - t) * D) <= / IZR (2 ^ 26))%R).
  { rewrite Rabs_mult. pose proof (Rabs_pos (tf - t)). pose proof (Rabs_pos D). pow2. nra. }
  replace (axis_x - (A + t * D))%R with ((axis_x - (A + axis_m)) + (axis_m - tf * D) + (tf - t) * D)%R by ring.
  eapply Rle_trans; [apply Rabs_triang|]. 
  eapply Rle_trans; [apply Rplus_le_compat_r, Rabs_triang|].
  pow2. lra.
Qed.
End Axis.


(* ------------------------------------------------------------------ from the real bound to the integer form of isect_within *)
Lemma within_of_real tn td a d tnum det ip :
  det <> 0 -> 0 < td ->
  (Rabs (IZR ip - (IZR a + IZR tnum / IZR det * IZR d)) <= IZR tn / IZR td)%R ->
  td * Z.abs ((ip - a) * det - tnum * d) <= tn * Z.abs det.
Proof.
  intros NZ Ptd H.
  assert (NZr : IZR det <> 0%R) by (apply not_0_IZR; exact NZ).
  assert (Pr : (0 < IZR td)%R) by (apply IZR_lt; exact Ptd).
  apply le_IZR. rewrite !mult_IZR, !abs_IZR.
  assert (E : IZR ((ip - a) * det - tnum * d) =
              (IZR det * (IZR ip - (IZR a + IZR tnum / IZR det * IZR d)))%R).
  { rewrite minus_IZR, !mult_IZR, minus_IZR. field. exact NZr. }
  rewrite E, Rabs_mult.
  set (v := Rabs (IZR ip - (IZR a + IZR tnum / IZR det * IZR d))) in *.
  pose proof (Rabs_pos (IZR det)) as Pu. set (u := Rabs (IZR det)) in *.
  assert (H' : (IZR td * v <= IZR tn)%R).
  { apply Rmult_le_compat_l with (r := IZR td) in H; [|lra].
    unfold Rdiv in H. replace (IZR td * (IZR tn * / IZR td))%R with (IZR tn) in H by (field; lra). exact H. }
  nra.
Qed.

Section AxisZ.
Variables a b tnum det : Z.
Hypothesis Ha : Z.abs a <= 2 ^ 25.
Hypothesis Hb : Z.abs b <= 2 ^ 25.
Hypothesis NZ : det <> 0.
Hypothesis Hfrac : 0 < tnum * Z.sgn det < Z.abs det.
Hypothesis Hdet : Z.abs det <= 2 ^ 53.

Let t : R := (IZR tnum / IZR det)%R.

Lemma axis_main xf :
  (0 < RN t < 1)%R -> freal xf (axis_x a b (RN t)) ->
  let ip := F2I64_trunc xf in
  Z.min a b <= ip <= Z.max a b /\
  2 ^ 20 * Z.abs ((ip - a) * det - tnum * (b - a)) <= (2 ^ 20 + 1) * Z.abs det.
Proof.
  intros Htf Fx. cbv zeta.
  assert (Htf' : (0 <= RN t <= 1)%R) by lra.
  pose proof (axis_x_between a b Ha Hb (RN t) Htf') as Bx.
  pose proof (t_facts tnum det NZ Hfrac Hdet) as Tf. fold t in Tf.
  assert (P53 : (0 < / IZR (2 ^ 53))%R) by (apply Rinv_0_lt_compat, IZR_lt; lia).
  assert (Tc : (Rabs (RN t - t) <= / IZR (2 ^ 52))%R) by (apply RN_t_close; lra).
  pose proof (axis_x_err a b Ha Hb (RN t) Htf' t Tc) as Ex.
  set (x := axis_x a b (RN t)) in *.
  assert (Bmin : - 2 ^ 25 <= Z.min a b) by lia.
  assert (Bmax : Z.max a b <= 2 ^ 25) by lia.
  assert (Bxx : (Rabs x < IZR (2 ^ 63))%R).
  { apply IZR_le in Bmin, Bmax. rewrite opp_IZR in Bmin. apply Rabs_def1; pow2; lra. }
  rewrite (F2I64_trunc_real xf x Fx Bxx).
  split; [apply Ztrunc_between; exact Bx|].
  apply within_of_real; [exact NZ|lia|]. fold t.
  pose proof (Ztrunc_err x) as Et.
  replace (IZR (Ztrunc x) - (IZR a + t * IZR (b - a)))%R
    with ((IZR (Ztrunc x) - x) + (x - (IZR a + t * IZR (b - a))))%R by ring.
  eapply Rle_trans; [apply Rabs_triang|]. rewrite plus_IZR. pow2. lra.
Qed.

(* the computed parameter reaches 1: the end point b is returned; the crossing is within 2^-26 of it *)
Lemma axis_end_b :
  (1 <= RN t)%R ->
  2 ^ 20 * Z.abs ((b - a) * det - tnum * (b - a)) <= (2 ^ 20 + 1) * Z.abs det.
Proof.
  intros H1.
  pose proof (t_facts tnum det NZ Hfrac Hdet) as Tf. fold t in Tf.
  assert (P53 : (0 < / IZR (2 ^ 53))%R) by (apply Rinv_0_lt_compat, IZR_lt; lia).
  assert (Tc : (Rabs (RN t - t) <= / IZR (2 ^ 52))%R) by (apply RN_t_close; lra).
  apply within_of_real; [exact NZ|lia|]. fold t.
  destruct (axis_bounds_R a b Ha Hb) as (_ & _ & Bd).
  rewrite minus_IZR in *.
  replace (IZR b - (IZR a + t * (IZR b - IZR a)))%R with ((1 - t) * (IZR b - IZR a))%R by ring.
  rewrite Rabs_mult.
  assert (Rabs (1 - t) <= / IZR (2 ^ 52))%R.
  { apply Rabs_le. apply Rabs_le_inv in Tc. lra. }
  pose proof (Rabs_pos (1 - t)). pose proof (Rabs_pos (IZR b - IZR a)).
  rewrite plus_IZR. pow2. nra.
Qed.
End AxisZ.

(* ------------------------------------------------------------------ the hypotheses in integer form *)
Lemma frac_in_open_iff num den : frac_in_open num den = true <-> 0 < num * Z.sgn den < Z.abs den.
Proof. unfold frac_in_open. rewrite andb_true_iff, !Z.ltb_lt. tauto. Qed.

Lemma properly_cross_t a b c d :
  properly_cross a b c d = true ->
  isect_det a b c d <> 0 /\
  0 < isect_tnum a b c d * Z.sgn (isect_det a b c d) < Z.abs (isect_det a b c d).
Proof.
  unfold properly_cross. cbv zeta. rewrite !andb_true_iff, negb_true_iff, Z.eqb_neq, !frac_in_open_iff.
  tauto.
Qed.


Lemma axis_freal a b tf tq :
  Z.abs a <= 2 ^ 25 -> Z.abs b <= 2 ^ 25 -> (0 <= tf <= 1)%R -> freal tq tf ->
  freal (Z2F a + tq * Z2F (b - a))%float (axis_x a b tf).
Proof.
  intros Ha Hb Htf Ft. unfold axis_x.
  destruct (axis_bounds_R a b Ha Hb) as (Ba & Bb & Bd).
  assert (Bm : (Rabs (axis_m a b tf) <= IZR (2 ^ 26))%R).
  { destruct (axis_m_between a b Ha Hb tf Htf) as [P Q].
    apply Rabs_le_inv in Bd.
    destruct (Z.le_ge_cases a b) as [L|L]; [specialize (P L)|specialize (Q L)]; apply Rabs_le; lra. }
  apply freal_add.
  - apply fint_freal, Z2F_fint, small_a; assumption.
  - unfold axis_m. apply freal_mul.
    + exact Ft.
    + apply fint_freal, Z2F_fint, small_d; assumption.
    + rewrite Rabs_mult, (Rabs_pos_eq tf) by lra. pose proof (Rabs_pos (IZR (b - a))). pow2. nra.
  - eapply Rle_trans; [apply Rabs_triang|]. pow2. lra.
Qed.

Ltac red_pxy :=
  repeat match goal with
  | |- context [px (?x, ?y)] => change (px (x, y)) with x
  | |- context [py (?x, ?y)] => change (py (x, y)) with y
  end.

Theorem isect_accuracy_small_lo a b c d ip :
  coords_le (2 ^ 25) a b c d -> properly_cross a b c d = true ->
  let r := GetSegmentIntersectPt_lo a b c d ip in
  fst r = true /\ in_seg_box a b (snd r) = true /\
  isect_within (2 ^ 20 + 1) (2 ^ 20) a b c d (snd r) = true.
Proof.
  intros H PC. apply properly_cross_t in PC. destruct PC as [NZ Hfrac].
  open_coords H.
  assert (Hdet : Z.abs (isect_det a b c d) <= 2 ^ 53) by (unfold isect_det; abs_le).
  pose proof (t_facts _ _ NZ Hfrac Hdet) as Tf.
  unfold GetSegmentIntersectPt_lo. cbv zeta.
  det_exact.
  match goal with |- context [?z =? 0] =>
    assert (Ez : z = isect_det a b c d) by (unfold isect_det; ring); rewrite Ez in * end.
  destruct (isect_det a b c d =? 0) eqn:E0; [apply Z.eqb_eq in E0; contradiction|]. clear E0.
  match goal with |- context [PrimFloat.div ?n ?e] =>
    let z := zof n in
    assert (Fn : fint n z) by (fint_prove; unfold small; abs_le);
    assert (En : z = isect_tnum a b c d) by (unfold isect_tnum; ring); rewrite En in Fn;
    set (tq := PrimFloat.div n e) in *;
    assert (Ft : freal tq (RN (IZR (isect_tnum a b c d) / IZR (isect_det a b c d))))
  end.
  { apply freal_div; [exact Fn|exact F|apply not_0_IZR; exact NZ|].
    assert (P53 : (0 < / IZR (2 ^ 53))%R) by (apply Rinv_0_lt_compat, IZR_lt; lia).
    rewrite Rabs_pos_eq by lra. pow2. lra. }
  clear En Ez.
  set (t := (IZR (isect_tnum a b c d) / IZR (isect_det a b c d))%R) in *.
  rewrite (freal_leb tq 0 _ _ Ft fint_zero), (freal_leb 1 tq _ _ fint_one Ft).
  destruct (Rle_bool_spec (RN t) 0) as [L0|L0].
  { exfalso. pose proof (RN_t_pos t (proj1 Tf)). lra. }
  destruct (Rle_bool_spec 1 (RN t)) as [L1|L1]; cbn [fst snd].
  - split; [reflexivity|]. split.
    + unfold in_seg_box. rewrite !andb_true_iff, !Z.leb_le. lia.
    + unfold isect_within. cbv zeta. rewrite andb_true_iff, !Z.leb_le.
      split; apply axis_end_b; assumption.
  - split; [reflexivity|]. red_pxy.
    assert (Htf : (0 < RN t < 1)%R) by lra.
    assert (Htf' : (0 <= RN t <= 1)%R) by lra.
    match goal with |- context [F2I64_trunc (PrimFloat.add (Z2F (px a)) ?m)] =>
      pose proof (axis_main (px a) (px b) _ _ H H1 NZ Hfrac Hdet _ Htf
                    (axis_freal (px a) (px b) _ tq H H1 Htf' Ft)) as [Bx Wx] end.
    match goal with |- context [F2I64_trunc (PrimFloat.add (Z2F (py a)) ?m)] =>
      pose proof (axis_main (py a) (py b) _ _ H0 H2 NZ Hfrac Hdet _ Htf
                    (axis_freal (py a) (py b) _ tq H0 H2 Htf' Ft)) as [By Wy] end.
    split.
    + unfold in_seg_box. red_pxy. rewrite !andb_true_iff, !Z.leb_le. lia.
    + unfold isect_within. cbv zeta. red_pxy. rewrite andb_true_iff, !Z.leb_le.
      split; assumption.
Qed.

(* ================================================================== the rounding variant *)

(* ------------------------------------------------------------------ F2I64_rne is ZnearestE *)

Definition rne_pos (m e : Z) : Z :=
  if 0 <=? e then m * 2 ^ e
  else let d := 2 ^ (- e) in
       let q := m / d in let r := m mod d in
       if 2 * r <? d then q
       else if d <? 2 * r then q + 1
       else if Z.even q then q else q + 1.

Lemma ZnearestE_frac m dd : 0 < dd ->
  ZnearestE (IZR m / IZR dd) =
  let q := m / dd in let r := m mod dd in
  if 2 * r <? dd then q else if dd <? 2 * r then q + 1 else if Z.even q then q else q + 1.
Proof.
  intros Pd. cbv zeta.
  assert (Pr : (0 < IZR dd)%R) by (apply IZR_lt; exact Pd).
  pose proof (Z.div_mod m dd ltac:(lia)) as DM.
  pose proof (Z.mod_pos_bound m dd Pd) as MB.
  set (q := m / dd) in *. set (r := m mod dd) in *.
  assert (Ex : (IZR m / IZR dd = IZR q + IZR r / IZR dd)%R).
  { rewrite DM, plus_IZR, mult_IZR. field. lra. }
  assert (Fl : Zfloor (IZR m / IZR dd) = q) by (apply Zfloor_div; lia).
  unfold Znearest. rewrite Fl, Ex.
  replace (IZR q + IZR r / IZR dd - IZR q)%R with (IZR r / IZR dd)%R by ring.
  assert (Hr : (0 <= IZR r < IZR dd)%R) by (split; [apply IZR_le|apply IZR_lt]; lia).
  destruct (2 * r <? dd) eqn:E1.
  - apply Z.ltb_lt in E1. apply IZR_lt in E1. rewrite mult_IZR in E1.
    rewrite Rcompare_Lt; [reflexivity|].
    apply Rmult_lt_reg_r with (IZR dd); [exact Pr|]. unfold Rdiv. rewrite Rmult_assoc, Rinv_l by lra. lra.
  - apply Z.ltb_ge in E1.
    assert (Cl : Zceil (IZR q + IZR r / IZR dd) = q + 1).
    { apply Zceil_imp. replace (q + 1 - 1) with q by ring. rewrite plus_IZR.
      assert (0 < IZR r)%R by (apply IZR_lt; lia).
      assert (0 < IZR r / IZR dd < 1)%R.
      { split; [apply Rdiv_lt_0_compat; lra|].
        apply Rmult_lt_reg_r with (IZR dd); [exact Pr|]. unfold Rdiv. rewrite Rmult_assoc, Rinv_l by lra. lra. }
      lra. }
    destruct (dd <? 2 * r) eqn:E2.
    + apply Z.ltb_lt in E2. apply IZR_lt in E2. rewrite mult_IZR in E2.
      rewrite Rcompare_Gt; [exact Cl|].
      apply Rmult_lt_reg_r with (IZR dd); [exact Pr|]. unfold Rdiv. rewrite Rmult_assoc, Rinv_l by lra. lra.
    + apply Z.ltb_ge in E2. assert (E : dd = 2 * r) by lia.
      rewrite Rcompare_Eq.
      * rewrite Cl. destruct (Z.even q); reflexivity.
      * rewrite E, mult_IZR. field. rewrite E, mult_IZR in Pr. lra.
Qed.

Lemma ZnearestE_IZR n : ZnearestE (IZR n) = n.
Proof. apply (@Zrnd_IZR _ (valid_rnd_N (fun x => negb (Z.even x)))). Qed.

Lemma ZnearestE_le x y : (x <= y)%R -> ZnearestE x <= ZnearestE y.
Proof. apply (@Zrnd_le _ (valid_rnd_N (fun x => negb (Z.even x)))). Qed.

Lemma ZnearestE_F2R_pos m e : ZnearestE (F2R (Float radix2 (Z.pos m) e)) = rne_pos (Z.pos m) e.
Proof.
  rewrite F2R_pos_split. unfold rne_pos. destruct (0 <=? e) eqn:E.
  - apply ZnearestE_IZR.
  - apply Z.leb_gt in E. apply ZnearestE_frac. apply Z.pow_pos_nonneg; lia.
Qed.

Lemma ZnearestE_opp x : ZnearestE (- x) = - ZnearestE x.
Proof.
  rewrite Znearest_opp. f_equal.
  unfold Znearest. destruct (Rcompare _ _); try reflexivity.
  rewrite negb_involutive. rewrite Z.even_opp, Z.even_add. cbn [Z.even].
  destruct (Z.even (Zfloor x)); reflexivity.
Qed.

Lemma ZnearestE_abs_le x : (Rabs (IZR (ZnearestE x)) <= Rabs x + / 2)%R.
Proof.
  pose proof (Znearest_half (fun x => negb (Z.even x)) x) as H.
  replace (IZR (ZnearestE x)) with (x - (x - IZR (ZnearestE x)))%R by ring.
  eapply Rle_trans; [apply Rabs_triang|]. rewrite Rabs_Ropp. lra.
Qed.

Lemma F2I64_rne_real f r : freal f r -> (Rabs r < IZR (2 ^ 62))%R -> F2I64_rne f = ZnearestE r.
Proof.
  intros [Ff Rf] B.
  assert (I : in_i64 (ZnearestE r) = true).
  { pose proof (ZnearestE_abs_le r) as T. rewrite <- abs_IZR in T.
    assert (Z.abs (ZnearestE r) < 2 ^ 63).
    { apply lt_IZR. eapply Rle_lt_trans; [exact T|]. pow2. lra. }
    unfold in_i64. apply andb_true_iff. split; [apply Z.leb_le|apply Z.ltb_lt]; lia. }
  unfold F2I64_rne, F2Z_rne, F_decode. rewrite <- B2SF_Prim2B.
  destruct (Prim2B f) as [s|s| |s m e He]; cbn [BinarySingleNaN.is_finite] in Ff; try discriminate Ff;
    cbn [B2SF B2R] in *.
  - subst r. rewrite ZnearestE_IZR in *. cbn [Z.leb]. destruct s; reflexivity.
  - subst r. rewrite F2R_cond_Zopp in *.
    fold (rne_pos (Z.pos m) e).
    assert (E : ZnearestE (cond_Ropp s (F2R (Float radix2 (Z.pos m) e))) = apply_sign s (rne_pos (Z.pos m) e)).
    { destruct s; cbn [cond_Ropp apply_sign]; [rewrite ZnearestE_opp|]; rewrite ZnearestE_F2R_pos; reflexivity. }
    rewrite E in *. rewrite I. reflexivity.
Qed.


(* ------------------------------------------------------------------ geometry of the origin (integers only) *)
(* sum of the end points of the intersection of two intervals, through a monotone affine map *)
Lemma ends_sum k y1 y2 y3 y4 :
  k * Z.max (Z.min y1 y2) (Z.min y3 y4) + k * Z.min (Z.max y1 y2) (Z.max y3 y4) =
  Z.max (Z.min (k * y1) (k * y2)) (Z.min (k * y3) (k * y4)) +
  Z.min (Z.max (k * y1) (k * y2)) (Z.max (k * y3) (k * y4)).
Proof.
  destruct (Z.le_ge_cases 0 k) as [K|K].
  - repeat first [rewrite Z.mul_max_distr_nonneg_l by (exact K) | rewrite Z.mul_min_distr_nonneg_l by (exact K)].
    reflexivity.
  - assert (K' : k <= 0) by lia.
    repeat first [rewrite Z.mul_max_distr_nonpos_l by (exact K') | rewrite Z.mul_min_distr_nonpos_l by (exact K')].
    lia.
Qed.

(* the piecewise linear core: p + r and q + s of opposite signs *)
Lemma ends_core p q r s w :
  (p + r < 0 < q + s \/ q + s < 0 < p + r) ->
  Z.abs (Z.max (Z.min p q) (Z.min 0 w) + Z.min (Z.max p q) (Z.max 0 w) +
         (Z.max (Z.min r s) (Z.min 0 (- w)) + Z.min (Z.max r s) (Z.max 0 (- w))))
  <= Z.abs (q + s - (p + r)).
Proof. lia. Qed.

(* o = floor of the centre of the intersection of the bounding boxes of a-b and c-d; f = the linear form
   vanishing on the line c-d.  If a and b are strictly on opposite sides of that line, then
   2 |f(o)| <= |f(b) - f(a)| + |dx2| + |dy2|. *)
Lemma shift_max_min a b c d z : Z.max (Z.min a b) (Z.min c d) - z = Z.max (Z.min (a - z) (b - z)) (Z.min (c - z) (d - z)).
Proof. lia. Qed.
Lemma shift_min_max a b c d z : Z.min (Z.max a b) (Z.max c d) - z = Z.min (Z.max (a - z) (b - z)) (Z.max (c - z) (d - z)).
Proof. lia. Qed.

Lemma origin_line ax ay bx by_ cx cy dx dy ox oy rx ry :
  let kx := dx - cx in let ky := dy - cy in
  let fa := (ax - cx) * ky - (ay - cy) * kx in
  let fb := (bx - cx) * ky - (by_ - cy) * kx in
  (fa < 0 < fb \/ fb < 0 < fa) ->
  2 * ox = Z.max (Z.min ax bx) (Z.min cx dx) + Z.min (Z.max ax bx) (Z.max cx dx) - rx -> 0 <= rx <= 1 ->
  2 * oy = Z.max (Z.min ay by_) (Z.min cy dy) + Z.min (Z.max ay by_) (Z.max cy dy) - ry -> 0 <= ry <= 1 ->
  2 * Z.abs ((ox - cx) * ky - (oy - cy) * kx) <= Z.abs (fb - fa) + Z.abs kx + Z.abs ky.
Proof.
  intros kx ky fa fb Hs Hox Hrx Hoy Hry.
  assert (Lx : Z.max (Z.min ax bx) (Z.min cx dx) - cx = Z.max (Z.min (ax - cx) (bx - cx)) (Z.min 0 (dx - cx))) by (rewrite shift_max_min, Z.sub_diag; reflexivity).
  assert (Hx : Z.min (Z.max ax bx) (Z.max cx dx) - cx = Z.min (Z.max (ax - cx) (bx - cx)) (Z.max 0 (dx - cx))) by (rewrite shift_min_max, Z.sub_diag; reflexivity).
  assert (Ly : Z.max (Z.min ay by_) (Z.min cy dy) - cy = Z.max (Z.min (ay - cy) (by_ - cy)) (Z.min 0 (dy - cy))) by (rewrite shift_max_min, Z.sub_diag; reflexivity).
  assert (Hy : Z.min (Z.max ay by_) (Z.max cy dy) - cy = Z.min (Z.max (ay - cy) (by_ - cy)) (Z.max 0 (dy - cy))) by (rewrite shift_min_max, Z.sub_diag; reflexivity).
  pose proof (ends_sum ky (ax - cx) (bx - cx) 0 (dx - cx)) as E1.
  pose proof (ends_sum (- kx) (ay - cy) (by_ - cy) 0 (dy - cy)) as E2.
  assert (Hs' : ky * (ax - cx) + - kx * (ay - cy) < 0 < ky * (bx - cx) + - kx * (by_ - cy) \/
                ky * (bx - cx) + - kx * (by_ - cy) < 0 < ky * (ax - cx) + - kx * (ay - cy)).
  { replace (ky * (ax - cx) + - kx * (ay - cy)) with fa by (unfold fa; ring).
    replace (ky * (bx - cx) + - kx * (by_ - cy)) with fb by (unfold fb; ring). exact Hs. }
  pose proof (ends_core _ _ _ _ (ky * (dx - cx)) Hs') as C.
  replace (ky * (bx - cx) + - kx * (by_ - cy) - (ky * (ax - cx) + - kx * (ay - cy))) with (fb - fa) in C
    by (unfold fa, fb; ring).
  replace (- kx * (dy - cy)) with (- (ky * (dx - cx))) in E2 by (unfold kx, ky; ring).
  rewrite Z.mul_0_r in E1, E2.
  rewrite <- E1, <- E2 in C.
  rewrite <- Lx, <- Hx, <- Ly, <- Hy in C.
  set (lx := Z.max (Z.min ax bx) (Z.min cx dx)) in *. set (hx := Z.min (Z.max ax bx) (Z.max cx dx)) in *.
  set (ly := Z.max (Z.min ay by_) (Z.min cy dy)) in *. set (hy := Z.min (Z.max ay by_) (Z.max cy dy)) in *.
  assert (E : 2 * ((ox - cx) * ky - (oy - cy) * kx) =
              ky * (lx - cx) + ky * (hx - cx) + (- kx * (ly - cy) + - kx * (hy - cy)) - rx * ky + ry * kx).
  { replace (2 * ((ox - cx) * ky - (oy - cy) * kx)) with ((2 * ox - 2 * cx) * ky - (2 * oy - 2 * cy) * kx) by ring.
    rewrite Hox, Hoy. ring. }
  assert (Rx : rx = 0 \/ rx = 1) by lia. assert (Ry : ry = 0 \/ ry = 1) by lia.
  clear Hox Hoy Lx Hx Ly Hy E1 E2 Hs Hs'. clearbody lx hx ly hy fa fb.
  set (F := (ox - cx) * ky - (oy - cy) * kx) in *.
  set (t1 := ky * (lx - cx)) in *. set (t2 := ky * (hx - cx)) in *.
  set (t3 := - kx * (ly - cy)) in *. set (t4 := - kx * (hy - cy)) in *.
  clearbody F t1 t2 t3 t4.
  destruct Rx as [-> | ->], Ry as [-> | ->]; lia.
Qed.


Lemma freal_sub f g x y : freal f x -> freal g y -> (Rabs (x - y) <= IZR (2 ^ 100))%R ->
  freal (f - g)%float (RN (x - y)).
Proof.
  intros [Ff Rf] [Fg Rg] S. unfold freal. rewrite sub_equiv.
  pose proof (Bminus_correct prec emax Hprec Hmax mode_NE (Prim2B f) (Prim2B g) Ff Fg) as C.
  rewrite Rf, Rg in C. fold (RN (x - y)) in C. rewrite (RN_lt_emax _ S) in C.
  destruct C as (C1 & C2 & _). split; assumption.
Qed.

(* a product of two exact integers: exact while it fits, relative error 2^-53 otherwise *)
Lemma prod_approx f g x y D :
  fint f x -> fint g y -> 1 <= D <= 2 ^ 53 -> Z.abs (x * y) <= 2 ^ 25 * D + 2 ^ 52 ->
  exists P, freal (f * g)%float P /\ (Rabs (P - IZR (x * y)) <= IZR D / IZR (2 ^ 26))%R.
Proof.
  intros Ff Fg HD Hxy.
  assert (PD : (1 <= IZR D)%R) by (apply IZR_le; lia).
  destruct (Z_le_gt_dec D (2 ^ 27)) as [L|G].
  - exists (IZR (x * y)). split.
    + apply fint_freal, fint_mul; [exact Ff|exact Fg|]. unfold small. lia.
    + replace (IZR (x * y) - IZR (x * y))%R with 0%R by ring. rewrite Rabs_R0. pow2. lra.
  - assert (B : (Rabs (IZR x * IZR y) <= IZR (2 ^ 26) * IZR D)%R).
    { rewrite <- !mult_IZR, <- abs_IZR. apply IZR_le. lia. }
    assert (D53 : (IZR D <= IZR (2 ^ 53))%R) by (apply IZR_le; lia).
    exists (RN (IZR x * IZR y)). split.
    + apply freal_mul; [exact Ff|exact Fg|]. eapply Rle_trans; [exact B|]. pow2. lra.
    + rewrite mult_IZR. pose proof (RN_err60 _ _ B) as E. pow2. lra.
Qed.

Lemma ZnearestE_ge_int h n : (IZR n - 1 < h - / 2)%R -> n <= ZnearestE h.
Proof.
  intros H. pose proof (Znearest_half (fun x => negb (Z.even x)) h) as Hh. apply Rabs_le_inv in Hh.
  assert (n - 1 < ZnearestE h); [|lia]. apply lt_IZR. rewrite minus_IZR. lra.
Qed.
Lemma ZnearestE_le_int h n : (h + / 2 < IZR n + 1)%R -> ZnearestE h <= n.
Proof.
  intros H. pose proof (Znearest_half (fun x => negb (Z.even x)) h) as Hh. apply Rabs_le_inv in Hh.
  assert (ZnearestE h < n + 1); [|lia]. apply lt_IZR. rewrite plus_IZR. lra.
Qed.

Section AxisHi.
Variables a b o tnum det N : Z.
Hypothesis NZ : det <> 0.
Hypothesis Hfrac : 0 < tnum * Z.sgn det < Z.abs det.
Hypothesis Hdet : Z.abs det <= 2 ^ 53.
Hypothesis HN : N = (a - o) * det + tnum * (b - a).

Let t : R := (IZR tnum / IZR det)%R.
Let q : R := (IZR N / IZR det)%R.

Lemma hi_q_eq : q = (IZR (a - o) + t * IZR (b - a))%R.
Proof.
  unfold q, t. rewrite HN, plus_IZR, !mult_IZR. field. apply not_0_IZR. exact NZ.
Qed.

Lemma hi_q_between : (IZR (Z.min a b - o) <= q <= IZR (Z.max a b - o))%R.
Proof.
  rewrite hi_q_eq.
  pose proof (t_facts tnum det NZ Hfrac Hdet) as Tf. fold t in Tf.
  assert (P53 : (0 < / IZR (2 ^ 53))%R) by (apply Rinv_0_lt_compat, IZR_lt; lia).
  rewrite !minus_IZR.
  destruct (Z.le_ge_cases a b) as [L|L].
  - rewrite (Z.min_l a b L), (Z.max_r a b L). apply IZR_le in L. nra.
  - rewrite (Z.min_r a b L), (Z.max_l a b L). apply IZR_le in L. nra.
Qed.

Hypothesis Ha : Z.abs a <= 2 ^ 25.
Hypothesis Hb : Z.abs b <= 2 ^ 25.
Hypothesis Ho : Z.abs o <= 2 ^ 25.

(* h approximates q = X - o to 2^-22: the rounded result is in the box and within one unit *)

Lemma hi_finish hf hr :
  freal hf hr -> (Rabs (hr - q) <= / IZR (2 ^ 22))%R ->
  let ip := o + F2I64_rne hf in
  Z.min a b <= ip <= Z.max a b /\
  1 * Z.abs ((ip - a) * det - tnum * (b - a)) <= 1 * Z.abs det.
Proof.
  intros Fh Eh. cbv zeta.
  pose proof hi_q_between as [Q1 Q2].
  assert (B1 : - 2 ^ 26 <= Z.min a b - o) by lia. assert (B2 : Z.max a b - o <= 2 ^ 26) by lia.
  apply IZR_le in B1, B2. rewrite opp_IZR in B1.
  apply Rabs_le_inv in Eh.
  assert (Bh : (Rabs hr < IZR (2 ^ 62))%R) by (apply Rabs_def1; pow2; lra).
  rewrite (F2I64_rne_real _ _ Fh Bh).
  split.
  - assert (Z.min a b - o <= ZnearestE hr) by (apply ZnearestE_ge_int; pow2; lra).
    assert (ZnearestE hr <= Z.max a b - o) by (apply ZnearestE_le_int; pow2; lra).
    lia.
  - apply within_of_real; [exact NZ|lia|]. fold t.
    pose proof (Znearest_half (fun x => negb (Z.even x)) hr) as Hh.
    rewrite plus_IZR.
    replace (IZR o + IZR (ZnearestE hr) - (IZR a + t * IZR (b - a)))%R
      with (- (hr - IZR (ZnearestE hr)) + (hr - q))%R
      by (rewrite hi_q_eq, minus_IZR; ring).
    eapply Rle_trans; [apply Rabs_triang|]. rewrite Rabs_Ropp.
    assert (Rabs (hr - q) <= / IZR (2 ^ 22))%R by (apply Rabs_le; lra).
    pow2. lra.
Qed.

Lemma hi_tail F1 F2 df P1 P2 p1 p2 :
  N = p1 - p2 ->
  freal F1 P1 -> freal F2 P2 -> fint df det ->
  (Rabs (P1 - IZR p1) <= IZR (Z.abs det) / IZR (2 ^ 26))%R ->
  (Rabs (P2 - IZR p2) <= IZR (Z.abs det) / IZR (2 ^ 26))%R ->
  let ip := o + F2I64_rne ((F1 - F2) / df)%float in
  Z.min a b <= ip <= Z.max a b /\
  1 * Z.abs ((ip - a) * det - tnum * (b - a)) <= 1 * Z.abs det.
Proof.
  intros EN Fr1 Fr2 Fd E1 E2.
  pose proof hi_q_between as [Q1 Q2].
  assert (B1 : - 2 ^ 26 <= Z.min a b - o) by lia. assert (B2 : Z.max a b - o <= 2 ^ 26) by lia.
  apply IZR_le in B1, B2. rewrite opp_IZR in B1.
  assert (NZr : IZR det <> 0%R) by (apply not_0_IZR; exact NZ).
  rewrite abs_IZR in E1, E2.
  assert (PD : (1 <= Rabs (IZR det))%R). { rewrite <- abs_IZR. apply IZR_le. lia. }
  assert (D53 : (Rabs (IZR det) <= IZR (2 ^ 53))%R). { rewrite <- abs_IZR. apply IZR_le. lia. }
  set (Dr := Rabs (IZR det)) in *.
  assert (EqN : IZR N = (q * IZR det)%R) by (unfold q; field; exact NZr).
  assert (BN : (Rabs (IZR N) <= IZR (2 ^ 26) * Dr)%R).
  { rewrite EqN, Rabs_mult. fold Dr. apply Rmult_le_compat_r; [lra|]. apply Rabs_le. lra. }
  (* the subtraction *)
  assert (EV : (Rabs ((P1 - P2) - IZR N) <= Dr / IZR (2 ^ 25))%R).
  { rewrite EN, minus_IZR. replace (P1 - P2 - (IZR p1 - IZR p2))%R with ((P1 - IZR p1) - (P2 - IZR p2))%R by ring.
    eapply Rle_trans; [apply Rabs_triang|]. rewrite Rabs_Ropp. pow2. lra. }
  assert (BV : (Rabs (P1 - P2) <= IZR (2 ^ 27) * Dr)%R).
  { replace (P1 - P2)%R with (((P1 - P2) - IZR N) + IZR N)%R by ring.
    eapply Rle_trans; [apply Rabs_triang|]. pow2. lra. }
  assert (Fs : freal (F1 - F2)%float (RN (P1 - P2))).
  { apply freal_sub; [exact Fr1|exact Fr2|]. eapply Rle_trans; [exact BV|]. pow2. lra. }
  pose proof (RN_err60 _ _ BV) as Es.
  set (nf := RN (P1 - P2)) in *.
  assert (En : (Rabs (nf - IZR N) <= Dr / IZR (2 ^ 24))%R).
  { replace (nf - IZR N)%R with ((nf - (P1 - P2)) + ((P1 - P2) - IZR N))%R by ring.
    eapply Rle_trans; [apply Rabs_triang|]. pow2. lra. }
  (* the division *)
  assert (Ew : (Rabs (nf / IZR det - q) <= / IZR (2 ^ 24))%R).
  { replace (nf / IZR det - q)%R with ((nf - IZR N) / IZR det)%R by (unfold q; field; exact NZr).
    unfold Rdiv. rewrite Rabs_mult, Rabs_inv. fold Dr.
    apply Rmult_le_reg_r with Dr; [lra|]. rewrite Rmult_assoc, Rinv_l by lra. pow2. lra. }
  assert (Bw : (Rabs (nf / IZR det) <= IZR (2 ^ 27))%R).
  { replace (nf / IZR det)%R with ((nf / IZR det - q) + q)%R by ring.
    eapply Rle_trans; [apply Rabs_triang|].
    assert (Rabs q <= IZR (2 ^ 26))%R by (apply Rabs_le; lra). pow2. lra. }
  assert (Fh : freal ((F1 - F2) / df)%float (RN (nf / IZR det))).
  { apply freal_div; [exact Fs|exact Fd|exact NZr|]. eapply Rle_trans; [exact Bw|]. pow2. lra. }
  pose proof (RN_err60 _ _ Bw) as Eh.
  apply (hi_finish _ _ Fh).
  replace (RN (nf / IZR det) - q)%R with ((RN (nf / IZR det) - nf / IZR det) + (nf / IZR det - q))%R by ring.
  eapply Rle_trans; [apply Rabs_triang|]. pow2. lra.
Qed.
End AxisHi.


Lemma prod_bound z w D : Z.abs z <= 2 ^ 26 -> 2 * Z.abs w <= D + 2 ^ 27 -> Z.abs (z * w) <= 2 ^ 25 * D + 2 ^ 52.
Proof. intros Hz Hw. rewrite Z.abs_mul. pose proof (Z.abs_nonneg z). pose proof (Z.abs_nonneg w). nia. Qed.

Lemma hi_axis_full a b o tnum det f1 g1 f2 g2 df z1 w1 z2 w2 :
  det <> 0 -> 0 < tnum * Z.sgn det < Z.abs det -> Z.abs det <= 2 ^ 53 ->
  Z.abs a <= 2 ^ 25 -> Z.abs b <= 2 ^ 25 -> Z.abs o <= 2 ^ 25 ->
  fint f1 z1 -> fint g1 w1 -> fint f2 z2 -> fint g2 w2 -> fint df det ->
  Z.abs z1 <= 2 ^ 26 -> Z.abs z2 <= 2 ^ 26 ->
  2 * Z.abs w1 <= Z.abs det + 2 ^ 27 -> 2 * Z.abs w2 <= Z.abs det + 2 ^ 27 ->
  z1 * w1 - z2 * w2 = (a - o) * det + tnum * (b - a) ->
  let ip := o + F2I64_rne ((f1 * g1 - f2 * g2) / df)%float in
  Z.min a b <= ip <= Z.max a b /\
  1 * Z.abs ((ip - a) * det - tnum * (b - a)) <= 1 * Z.abs det.
Proof.
  intros NZ Hfrac Hdet Ha Hb Ho F1 G1 F2 G2 Fd Z1 Z2 W1 W2 HN.
  assert (HD : 1 <= Z.abs det <= 2 ^ 53) by lia.
  destruct (prod_approx f1 g1 z1 w1 _ F1 G1 HD (prod_bound _ _ _ Z1 W1)) as (P1 & Fr1 & E1).
  destruct (prod_approx f2 g2 z2 w2 _ F2 G2 HD (prod_bound _ _ _ Z2 W2)) as (P2 & Fr2 & E2).
  exact (hi_tail a b o tnum det (z1 * w1 - z2 * w2) NZ Hfrac Hdet HN Ha Hb Ho _ _ df P1 P2 _ _ eq_refl Fr1 Fr2 Fd E1 E2).
Qed.

Lemma ite_min u v : (if u <? v then u else v) = Z.min u v.
Proof. destruct (Z.ltb_spec u v); lia. Qed.
Lemma ite_max u v : (if u <? v then v else u) = Z.max u v.
Proof. destruct (Z.ltb_spec u v); lia. Qed.
Lemma shiftr1_spec e : 2 * Z.shiftr e 1 = e - e mod 2 /\ 0 <= e mod 2 <= 1.
Proof.
  rewrite Z.shiftr_div_pow2 by lia. change (2 ^ 1) with 2.
  pose proof (Z.div_mod e 2 ltac:(lia)). pose proof (Z.mod_pos_bound e 2 ltac:(lia)). lia.
Qed.
Lemma origin_swap x1 x2 x3 x4 :
  Z.max (Z.min x1 x2) (Z.min x3 x4) + Z.min (Z.max x1 x2) (Z.max x3 x4) =
  Z.max (Z.min x3 x4) (Z.min x1 x2) + Z.min (Z.max x3 x4) (Z.max x1 x2).
Proof. lia. Qed.
Lemma origin_abs x1 x2 x3 x4 o r B :
  Z.abs x1 <= B -> Z.abs x2 <= B -> Z.abs x3 <= B -> Z.abs x4 <= B ->
  2 * o = Z.max (Z.min x1 x2) (Z.min x3 x4) + Z.min (Z.max x1 x2) (Z.max x3 x4) - r -> 0 <= r <= 1 ->
  Z.abs o <= B.
Proof. lia. Qed.

Lemma properly_cross_u a b c d :
  properly_cross a b c d = true ->
  0 < isect_unum a b c d * Z.sgn (isect_det a b c d) < Z.abs (isect_det a b c d).
Proof.
  unfold properly_cross. cbv zeta. rewrite !andb_true_iff, negb_true_iff, Z.eqb_neq, !frac_in_open_iff.
  tauto.
Qed.

Lemma opp_sides n d : 0 < n * Z.sgn d < Z.abs d ->
  (n < 0 < n - d \/ n - d < 0 < n) /\ (- n < 0 < d - n \/ d - n < 0 < - n).
Proof. intros H. destruct (Z.sgn_spec d) as [[? E]|[[? E]|[? E]]]; rewrite E in H; lia. Qed.

(* both auxiliary constants ln0c, ln1c of the hi variant are at most (|det| + 2^27) / 2 *)
Lemma origin_bounds a b c d ox oy rx ry :
  coords_le (2 ^ 25) a b c d -> properly_cross a b c d = true ->
  2 * ox = Z.max (Z.min (px a) (px b)) (Z.min (px c) (px d)) + Z.min (Z.max (px a) (px b)) (Z.max (px c) (px d)) - rx ->
  0 <= rx <= 1 ->
  2 * oy = Z.max (Z.min (py a) (py b)) (Z.min (py c) (py d)) + Z.min (Z.max (py a) (py b)) (Z.max (py c) (py d)) - ry ->
  0 <= ry <= 1 ->
  2 * Z.abs ((ox - px c) * (py d - py c) - (oy - py c) * (px d - px c)) <= Z.abs (isect_det a b c d) + 2 ^ 27 /\
  2 * Z.abs ((ox - px a) * (py b - py a) - (oy - py a) * (px b - px a)) <= Z.abs (isect_det a b c d) + 2 ^ 27.
Proof.
  intros H PC.
  pose proof (properly_cross_t _ _ _ _ PC) as [_ Ht]. pose proof (properly_cross_u _ _ _ _ PC) as Hu.
  destruct (opp_sides _ _ Ht) as [S1 _]. destruct (opp_sides _ _ Hu) as [_ S2]. clear Ht Hu PC.
  open_coords H.
  assert (K1 : Z.abs (px d - px c) + Z.abs (py d - py c) <= 2 ^ 27) by (clear S1 S2; lia).
  assert (K2 : Z.abs (px b - px a) + Z.abs (py b - py a) <= 2 ^ 27) by (clear S1 S2 K1; lia).
  intros Hox Hrx Hoy Hry.
  split.
  - pose proof (origin_line (px a) (py a) (px b) (py b) (px c) (py c) (px d) (py d) ox oy rx ry) as L.
    cbv zeta in L.
    assert (Ea : (px a - px c) * (py d - py c) - (py a - py c) * (px d - px c) = isect_tnum a b c d)
      by (unfold isect_tnum; ring).
    assert (Eb : (px b - px c) * (py d - py c) - (py b - py c) * (px d - px c) = isect_tnum a b c d - isect_det a b c d)
      by (unfold isect_tnum, isect_det; ring).
    rewrite Ea, Eb in L.
    specialize (L S1 Hox Hrx Hoy Hry).
    replace (isect_tnum a b c d - isect_det a b c d - isect_tnum a b c d) with (- isect_det a b c d) in L by ring.
    rewrite Z.abs_opp in L.
    clear - L K1. lia.
  - pose proof (origin_line (px c) (py c) (px d) (py d) (px a) (py a) (px b) (py b) ox oy rx ry) as L.
    cbv zeta in L.
    assert (Ea : (px c - px a) * (py b - py a) - (py c - py a) * (px b - px a) = - isect_unum a b c d)
      by (unfold isect_unum; ring).
    assert (Eb : (px d - px a) * (py b - py a) - (py d - py a) * (px b - px a) = isect_det a b c d - isect_unum a b c d)
      by (unfold isect_unum, isect_det; ring).
    rewrite Ea, Eb in L.
    rewrite <- (origin_swap (px a) (px b) (px c) (px d)), <- (origin_swap (py a) (py b) (py c) (py d)) in L.
    specialize (L S2 Hox Hrx Hoy Hry).
    replace (isect_det a b c d - isect_unum a b c d - - isect_unum a b c d) with (isect_det a b c d) in L by ring.
    clear - L K2. lia.
Qed.


(* 2 |w| <= |det| + 2^27 for w = +- one of the two forms bounded by [origin_bounds] *)
Ltac lnc_bound G0 G1 :=
  first
  [ exact G0 | exact G1
  | match type of G0 with 2 * Z.abs ?F <= _ =>
      match goal with |- 2 * Z.abs ?w <= _ =>
        first [ replace w with F by ring; exact G0
              | replace w with (- F) by ring; rewrite Z.abs_opp; exact G0 ] end end
  | match type of G1 with 2 * Z.abs ?F <= _ =>
      match goal with |- 2 * Z.abs ?w <= _ =>
        first [ replace w with F by ring; exact G1
              | replace w with (- F) by ring; rewrite Z.abs_opp; exact G1 ] end end ].

Theorem isect_accuracy_small_hi a b c d ip :
  coords_le (2 ^ 25) a b c d -> properly_cross a b c d = true ->
  let r := GetSegmentIntersectPt_hi a b c d ip in
  fst r = true /\ in_seg_box a b (snd r) = true /\ isect_within 1 1 a b c d (snd r) = true.
Proof.
  intros H PC.
  pose proof (origin_bounds a b c d) as OB. specialize (fun ox oy rx ry => OB ox oy rx ry H PC).
  apply properly_cross_t in PC. destruct PC as [NZ Hfrac].
  open_coords H.
  assert (Hdet : Z.abs (isect_det a b c d) <= 2 ^ 53) by (unfold isect_det; abs_le).
  unfold GetSegmentIntersectPt_hi. cbv zeta.
  det_exact.
  match goal with |- context [?z =? 0] =>
    assert (Ez : z = isect_det a b c d) by (unfold isect_det; ring); rewrite Ez in * end.
  destruct (isect_det a b c d =? 0) eqn:E0; [apply Z.eqb_eq in E0; contradiction|]. clear E0 Ez.
  (* the origin: x *)
  match goal with |- context [Z.shiftr ?e 1] =>
    assert (Eox : e = Z.max (Z.min (px a) (px b)) (Z.min (px c) (px d)) +
                      Z.min (Z.max (px a) (px b)) (Z.max (px c) (px d)))
      by (clear; rewrite ?ite_min, ?ite_max; lia);
    destruct (shiftr1_spec e) as [Sox Rox]; rewrite Eox in Sox at 2;
    set (rx := e mod 2) in *; set (ox := Z.shiftr e 1) in *; clearbody rx ox; clear Eox
  end.
  match goal with |- context [Z.shiftr ?e 1] =>
    assert (Eoy : e = Z.max (Z.min (py a) (py b)) (Z.min (py c) (py d)) +
                      Z.min (Z.max (py a) (py b)) (Z.max (py c) (py d)))
      by (clear; rewrite ?ite_min, ?ite_max; lia);
    destruct (shiftr1_spec e) as [Soy Roy]; rewrite Eoy in Soy at 2;
    set (ry := e mod 2) in *; set (oy := Z.shiftr e 1) in *; clearbody ry oy; clear Eoy
  end.
  destruct (OB ox oy rx ry Sox Rox Soy Roy) as [G1 G0]. clear OB.
  pose proof (origin_abs _ _ _ _ _ _ _ H H1 H3 H5 Sox Rox) as Hox.
  pose proof (origin_abs _ _ _ _ _ _ _ H0 H2 H4 H6 Soy Roy) as Hoy.
  clear Sox Rox Soy Roy.
  cbn [fst snd]. red_pxy. split; [reflexivity|].
  match goal with
  | |- context [(?ox' + F2I64_rne (PrimFloat.div (PrimFloat.sub (PrimFloat.mul ?f1 ?g1) (PrimFloat.mul ?f2 ?g2)) ?ex),
                 ?oy' + F2I64_rne (PrimFloat.div (PrimFloat.sub (PrimFloat.mul ?f3 ?g3) (PrimFloat.mul ?f4 ?g4)) ?ey))] =>
    let z1 := zof f1 in let w1 := zof g1 in let z2 := zof f2 in let w2 := zof g2 in
    let z3 := zof f3 in let w3 := zof g3 in let z4 := zof f4 in let w4 := zof g4 in
    assert (Ff1 : fint f1 z1) by (fint_prove; unfold small; abs_le);
    assert (Fg1 : fint g1 w1) by (fint_prove; unfold small; abs_le);
    assert (Ff2 : fint f2 z2) by (fint_prove; unfold small; abs_le);
    assert (Fg2 : fint g2 w2) by (fint_prove; unfold small; abs_le);
    assert (Ff3 : fint f3 z3) by (fint_prove; unfold small; abs_le);
    assert (Fg3 : fint g3 w3) by (fint_prove; unfold small; abs_le);
    assert (Ff4 : fint f4 z4) by (fint_prove; unfold small; abs_le);
    assert (Fg4 : fint g4 w4) by (fint_prove; unfold small; abs_le);
    assert (Z1 : Z.abs z1 <= 2 ^ 26) by abs_le;
    assert (Z2 : Z.abs z2 <= 2 ^ 26) by abs_le;
    assert (Z3 : Z.abs z3 <= 2 ^ 26) by abs_le;
    assert (Z4 : Z.abs z4 <= 2 ^ 26) by abs_le;
    assert (W1 : 2 * Z.abs w1 <= Z.abs (isect_det a b c d) + 2 ^ 27) by lnc_bound G0 G1;
    assert (W2 : 2 * Z.abs w2 <= Z.abs (isect_det a b c d) + 2 ^ 27) by lnc_bound G0 G1;
    assert (W3 : 2 * Z.abs w3 <= Z.abs (isect_det a b c d) + 2 ^ 27) by lnc_bound G0 G1;
    assert (W4 : 2 * Z.abs w4 <= Z.abs (isect_det a b c d) + 2 ^ 27) by lnc_bound G0 G1;
    assert (Ex : z1 * w1 - z2 * w2 = (px a - ox') * isect_det a b c d + isect_tnum a b c d * (px b - px a))
      by (unfold isect_det, isect_tnum; ring);
    assert (Ey : z3 * w3 - z4 * w4 = (py a - oy') * isect_det a b c d + isect_tnum a b c d * (py b - py a))
      by (unfold isect_det, isect_tnum; ring);
    match goal with Hox' : Z.abs ox' <= 2 ^ 25, Hoy' : Z.abs oy' <= 2 ^ 25 |- _ =>
      pose proof (hi_axis_full (px a) (px b) ox' _ _ f1 g1 f2 g2 ex _ _ _ _ NZ Hfrac Hdet H H1 Hox'
                    Ff1 Fg1 Ff2 Fg2 F Z1 Z2 W1 W2 Ex) as [Bx Wx];
      pose proof (hi_axis_full (py a) (py b) oy' _ _ f3 g3 f4 g4 ey _ _ _ _ NZ Hfrac Hdet H0 H2 Hoy'
                    Ff3 Fg3 Ff4 Fg4 F Z3 Z4 W3 W4 Ey) as [By Wy]
    end
  end.
  split.
  - unfold in_seg_box. red_pxy. rewrite !andb_true_iff, !Z.leb_le. lia.
  - unfold isect_within. cbv zeta. red_pxy. rewrite andb_true_iff, !Z.leb_le.
    split; assumption.
Qed.

(* the whole accuracy clause of the property for the rounding variant *)
Theorem isect_ok_small_hi a b c d ip :
  coords_le (2 ^ 25) a b c d ->
  let r := GetSegmentIntersectPt_hi a b c d ip in
  isect_ok a b c d (fst r) (snd r) = true.
Proof.
  intros H. cbv zeta. unfold isect_ok.
  rewrite (isect_parallel_exact_hi a b c d ip H).
  destruct (parallel a b c d); [reflexivity|]. cbn [negb andb].
  destruct (properly_cross a b c d) eqn:PC; [|reflexivity].
  destruct (isect_accuracy_small_hi a b c d ip H PC) as (_ & B & W).
  rewrite B, W. reflexivity.
Qed.

(* the hypotheses are satisfiable *)
Example isect_accuracy_small_sat :
  coords_le (2 ^ 25) e25_a e25_b e25_c e25_d /\ properly_cross e25_a e25_b e25_c e25_d = true.
Proof. split; [coords_by_computation|vm_compute; reflexivity]. Qed.
