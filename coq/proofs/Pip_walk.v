(* C18, PointInPolygon, part 1: the "walk" -- what the loop of clipper.core.h's PointInPolygon does, seen as one
   step per vertex of the cyclic vertex sequence that starts after [first] -- and the proof that a walk over
   f :: rest ++ [f] decides exactly the specification (on the boundary / parity of the winding number).
   Part 2 (proofs/Pip_loop.v) shows that the index/iterator model coq/model/Pip.v performs this walk. *)
From Coq Require Import ZArith List Bool Lia Floats.
From Clip Require Import base.Geom base.Winding base.FloatModel base.CSem gen.Gen_core
  model.CoreSpec model.Pip proofs.Core_float proofs.Core_isect.
Import ListNotations.
Local Open Scope Z_scope.

(* ------------------------------------------------------------------ one vertex *)
(* the edge test with the exact cross product *)
Definition cross_updZ (p c q : pt) (ab : bool) (v : Z) : option Z :=
  let d := cross p c q in
  if d =? 0 then None else Some (if Bool.eqb (d <? 0) ab then 1 - v else v).

(* what happens to (is_above, val) when the vertex c is reached with predecessor prev; [None] = return IsOn.
   [upd] is the edge test (the float one of the model or the exact one) *)
Definition pip_vertex (upd : pt -> pt -> pt -> bool -> Z -> option Z)
                      (q prev c : pt) (ab : bool) (v : Z) : option (bool * Z) :=
  if (if ab then py c <? py q else py q <? py c) then Some (ab, v)                   (* skipped by the inner while *)
  else if py c =? py q then
    if (px c =? px q) || ((py c =? py prev) && negb (Bool.eqb (px q <? px prev) (px q <? px c))) then None
    else Some (ab, v)
  else if (px q <? px c) && (px q <? px prev) then Some (negb ab, v)
  else if (px prev <? px q) && (px c <? px q) then Some (negb ab, 1 - v)
  else match upd prev c q ab v with None => None | Some v' => Some (negb ab, v') end.

Fixpoint pip_walk upd (q prev : pt) (l : list pt) (ab : bool) (v : Z) : option (pt * bool * Z) :=
  match l with
  | [] => Some (prev, ab, v)
  | c :: l' =>
    match pip_vertex upd q prev c ab v with
    | None => None
    | Some (ab', v') => pip_walk upd q c l' ab' v'
    end
  end.

(* ------------------------------------------------------------------ exactness of the float edge test *)
Lemma CrossProduct_fint p c q :
  pt_le (2 ^ 25) p -> pt_le (2 ^ 25) c -> pt_le (2 ^ 25) q -> fint (CrossProduct p c q) (cross p c q).
Proof.
  unfold pt_le. intros [? ?] [? ?] [? ?]. unfold CrossProduct, cross.
  fint_prove; unfold small; abs_le.
Qed.

Lemma cross_update_exact p c q ab v :
  pt_le (2 ^ 25) p -> pt_le (2 ^ 25) c -> pt_le (2 ^ 25) q ->
  pip_cross_update p c q ab v = cross_updZ p c q ab v.
Proof.
  intros Hp Hc Hq. pose proof (CrossProduct_fint p c q Hp Hc Hq) as F.
  unfold pip_cross_update, cross_updZ. cbv zeta.
  rewrite (fint_eqb _ _ _ _ F fint_zero), (fint_ltb _ _ _ _ F fint_zero). reflexivity.
Qed.

(* ------------------------------------------------------------------ geometry of one edge against the ray *)
Lemma cross_online_b a b q : py b = py q -> cross a b q = (py a - py b) * (px q - px b).
Proof. intros E. unfold cross. rewrite <- E. ring. Qed.

Lemma cross_online_a a b q : py a = py q -> cross a b q = (py b - py a) * (px a - px q).
Proof. intros E. unfold cross. rewrite <- E. ring. Qed.

(* q strictly left of both end points of an edge whose y-range contains q.y *)
Lemma cross_left_up a b q :
  py a <= py q <= py b -> py a < py b -> px q < px a -> px q < px b -> 0 < cross a b q.
Proof.
  intros Hy Hab Ha Hb. unfold cross.
  set (u := py b - py a) in *. set (t := py b - py q) in *.
  replace ((px b - px a) * (py q - py b) - u * (px q - px b))
    with (u * (px b - px q) - t * (px b - px a)) by (subst u t; ring).
  assert (0 < u) by (subst u; lia). assert (0 <= t <= u) by (subst u t; lia).
  destruct (Z_le_gt_dec (px a) (px b)) as [L|G].
  - assert (t * (px b - px a) <= u * (px b - px a)) by (apply Z.mul_le_mono_nonneg_r; lia).
    assert (u * (px b - px a) < u * (px b - px q)) by (apply Z.mul_lt_mono_pos_l; lia). lia.
  - assert (0 <= t * (px a - px b)) by (apply Z.mul_nonneg_nonneg; lia).
    assert (0 < u * (px b - px q)) by (apply Z.mul_pos_pos; lia).
    replace (t * (px b - px a)) with (- (t * (px a - px b))) by ring. lia.
Qed.

Lemma cross_right_up a b q :
  py a <= py q <= py b -> py a < py b -> px a < px q -> px b < px q -> cross a b q < 0.
Proof.
  intros Hy Hab Ha Hb. unfold cross.
  set (u := py b - py a) in *. set (t := py b - py q) in *.
  replace ((px b - px a) * (py q - py b) - u * (px q - px b))
    with (- (u * (px q - px b) - t * (px a - px b))) by (subst u t; ring).
  assert (0 < u) by (subst u; lia). assert (0 <= t <= u) by (subst u t; lia).
  destruct (Z_le_gt_dec (px b) (px a)) as [L|G].
  - assert (t * (px a - px b) <= u * (px a - px b)) by (apply Z.mul_le_mono_nonneg_r; lia).
    assert (u * (px a - px b) < u * (px q - px b)) by (apply Z.mul_lt_mono_pos_l; lia). lia.
  - assert (0 <= t * (px b - px a)) by (apply Z.mul_nonneg_nonneg; lia).
    assert (0 < u * (px q - px b)) by (apply Z.mul_pos_pos; lia).
    replace (t * (px a - px b)) with (- (t * (px b - px a))) by ring. lia.
Qed.

Lemma cross_left_down a b q :
  py b <= py q <= py a -> py b < py a -> px q < px a -> px q < px b -> cross a b q < 0.
Proof.
  intros. pose proof (cross_left_up b a q). rewrite (cross_swap12 a b q) in *. lia.
Qed.

Lemma cross_right_down a b q :
  py b <= py q <= py a -> py b < py a -> px a < px q -> px b < px q -> 0 < cross a b q.
Proof.
  intros. pose proof (cross_right_up b a q). rewrite (cross_swap12 a b q) in *. lia.
Qed.

(* ------------------------------------------------------------------ the invariant and the step *)
(* sign of the cross product when an end point of the edge is level with q *)
Lemma cross_level_a a b q : py a = py q ->
  (py a < py b -> (0 < cross a b q <-> px q < px a) /\ (cross a b q < 0 <-> px a < px q)) /\
  (py b < py a -> (0 < cross a b q <-> px a < px q) /\ (cross a b q < 0 <-> px q < px a)) /\
  (py a = py b -> cross a b q = 0).
Proof. intros E. rewrite (cross_online_a a b q E). repeat split; intros; nia. Qed.

Lemma cross_level_b a b q : py b = py q ->
  (py b < py a -> (0 < cross a b q <-> px b < px q) /\ (cross a b q < 0 <-> px q < px b)) /\
  (py a < py b -> (0 < cross a b q <-> px q < px b) /\ (cross a b q < 0 <-> px b < px q)) /\
  (py a = py b -> cross a b q = 0).
Proof. intros E. rewrite (cross_online_b a b q E). repeat split; intros; nia. Qed.

(* the winding contribution of an edge, by position of its end points against the level of q *)
Lemma ew_up a b q : py a <= py q -> py q < py b -> edge_w q (a, b) = if 0 <? cross a b q then 1 else 0.
Proof.
  intros H1 H2. unfold edge_w.
  replace (py a <=? py q) with true by (symmetry; apply Z.leb_le; lia).
  replace (py q <? py b) with true by (symmetry; apply Z.ltb_lt; lia). reflexivity.
Qed.

Lemma ew_down a b q : py b <= py q -> py q < py a -> edge_w q (a, b) = if cross a b q <? 0 then -1 else 0.
Proof.
  intros H1 H2. unfold edge_w.
  replace (py a <=? py q) with false by (symmetry; apply Z.leb_gt; lia).
  replace (py b <=? py q) with true by (symmetry; apply Z.leb_le; lia).
  replace (py q <? py a) with true by (symmetry; apply Z.ltb_lt; lia). reflexivity.
Qed.

Lemma ew_above a b q : py a <= py q -> py b <= py q -> edge_w q (a, b) = 0.
Proof.
  intros H1 H2. unfold edge_w.
  replace (py q <? py b) with false by (symmetry; apply Z.ltb_ge; lia).
  replace (py q <? py a) with false by (symmetry; apply Z.ltb_ge; lia).
  rewrite !andb_false_r. reflexivity.
Qed.

Lemma ew_below a b q : py q < py a -> py q < py b -> edge_w q (a, b) = 0.
Proof.
  intros H1 H2. unfold edge_w.
  replace (py a <=? py q) with false by (symmetry; apply Z.leb_gt; lia).
  replace (py b <=? py q) with false by (symmetry; apply Z.leb_gt; lia). reflexivity.
Qed.

(* [on_seg] as a proposition *)
Lemma on_seg_true q a b : on_seg q (a, b) = true <->
  cross a b q = 0 /\ Z.min (px a) (px b) <= px q <= Z.max (px a) (px b) /\
  Z.min (py a) (py b) <= py q <= Z.max (py a) (py b).
Proof.
  unfold on_seg. rewrite !andb_true_iff, Z.eqb_eq, !Z.leb_le. tauto.
Qed.

Lemma on_seg_false q a b : on_seg q (a, b) = false <->
  ~ (cross a b q = 0 /\ Z.min (px a) (px b) <= px q <= Z.max (px a) (px b) /\
     Z.min (py a) (py b) <= py q <= Z.max (py a) (py b)).
Proof. rewrite <- on_seg_true. destruct (on_seg q (a, b)); split; congruence. Qed.

Definition sb (q v : pt) : bool := py v <=? py q.
Definition pend (q prev : pt) (ab : bool) : bool := negb ab && (py prev =? py q) && (px prev <? px q).

Record Inv (q f prev : pt) (ab : bool) (v : Z) (P : bool) : Prop := {
  inv_v : v = 0 \/ v = 1;
  inv_ne : py prev = py q -> px prev <> px q;
  inv_side : if ab then py prev <= py q else py q <= py prev;
  inv_par : Z.odd v = xorb (xorb P (xorb (sb q f) (sb q prev))) (pend q prev ab) }.

(* bookkeeping of the parity equation: P, F arbitrary *)
Lemma par_step (P F S S' pd pd' R o o' : bool) :
  o = xorb (xorb P (xorb F S)) pd ->
  o' = xorb o (xorb R (xorb (xorb S S') (xorb pd pd'))) ->
  o' = xorb (xorb (xorb P R) (xorb F S')) pd'.
Proof. intros -> ->. destruct P, F, S, S', pd, pd', R; reflexivity. Qed.

(* decide comparisons occurring in the goal by lia where possible *)
Ltac cmp_true c := replace c with true by (symmetry; first [apply Z.ltb_lt | apply Z.leb_le | apply Z.eqb_eq]; lia).
Ltac cmp_false c := replace c with false by (symmetry; first [apply Z.ltb_ge | apply Z.leb_gt | apply Z.eqb_neq]; lia).
Ltac decide_cmps :=
  repeat match goal with
         | |- context [?x <? ?y] => first [cmp_true (x <? y) | cmp_false (x <? y)]
         | |- context [?x <=? ?y] => first [cmp_true (x <=? y) | cmp_false (x <=? y)]
         | |- context [?x =? ?y] => first [cmp_true (x =? y) | cmp_false (x =? y)]
         end.

Lemma odd_flip v : v = 0 \/ v = 1 -> Z.odd (1 - v) = negb (Z.odd v) /\ (1 - v = 0 \/ 1 - v = 1).
Proof. intros [-> | ->]; cbn; auto. Qed.

Section Step.
Variables (q f prev c : pt) (v : Z) (P : bool).

(* is_above, vertex above: skipped *)
Lemma step_skip_above :
  Inv q f prev true v P -> py c < py q ->
  on_seg q (prev, c) = false /\ Inv q f c true v (xorb P (Z.odd (edge_w q (prev, c)))).
Proof.
  intros [Hv Hne Hside Hpar] Hc. cbn [negb] in *.
  pose proof (cross_level_a prev c q) as LA.
  split.
  - apply on_seg_false. intros (X0 & Hx & Hy). assert (py prev = py q) by lia. specialize (Hne H). lia.
  - rewrite ew_above by lia. constructor; try assumption; try lia.
    eapply par_step; [exact Hpar|]. unfold sb, pend. cbn [negb andb Z.odd xorb]. decide_cmps. destruct (Z.odd v); reflexivity.
Qed.

(* not is_above, vertex below: skipped *)
Lemma step_skip_below :
  Inv q f prev false v P -> py q < py c ->
  on_seg q (prev, c) = false /\ Inv q f c false v (xorb P (Z.odd (edge_w q (prev, c)))).
Proof.
  intros [Hv Hne Hside Hpar] Hc. cbn [negb] in *.
  pose proof (cross_level_a prev c q) as LA.
  split.
  - apply on_seg_false. intros (X0 & Hx & Hy). assert (E : py prev = py q) by lia. specialize (Hne E).
    destruct (LA E) as (L1 & _ & _). lia.
  - constructor; try assumption; try lia.
    eapply par_step; [exact Hpar|]. unfold sb, pend. cbn [negb andb].
    destruct (Z.eq_dec (py prev) (py q)) as [E|NE].
    + rewrite ew_up by lia. destruct (LA E) as (L1 & _ & _). specialize (Hne E).
      decide_cmps. destruct (0 <? cross prev c q) eqn:?, (px prev <? px q) eqn:?; cbn [Z.odd xorb];
        try (destruct (Z.odd v); reflexivity); exfalso; lia.
    + rewrite ew_below by lia. decide_cmps. cbn [Z.odd xorb andb]. destruct (Z.odd v); reflexivity.
Qed.

(* vertex level with q: the boundary test of the code *)
Definition level_test : bool :=
  (px c =? px q) || ((py c =? py prev) && negb (Bool.eqb (px q <? px prev) (px q <? px c))).

Lemma step_level_on ab :
  Inv q f prev ab v P -> py c = py q -> level_test = true -> on_seg q (prev, c) = true.
Proof.
  intros [Hv Hne Hside Hpar] Hc T. unfold level_test in T.
  apply on_seg_true. rewrite (cross_online_b prev c q Hc).
  apply orb_true_iff in T. destruct T as [T|T].
  - apply Z.eqb_eq in T. rewrite T. split; [ring|]. lia.
  - apply andb_true_iff in T. destruct T as [T1 T2]. apply Z.eqb_eq in T1.
    replace (py prev - py c) with 0 by lia. split; [ring|].
    destruct (px q <? px prev) eqn:?, (px q <? px c) eqn:?; cbn in T2; try discriminate; lia.
Qed.

Lemma step_level_off ab :
  Inv q f prev ab v P -> py c = py q -> level_test = false ->
  on_seg q (prev, c) = false /\ Inv q f c ab v (xorb P (Z.odd (edge_w q (prev, c)))).
Proof.
  intros [Hv Hne Hside Hpar] Hc T. unfold level_test in T.
  apply orb_false_iff in T. destruct T as [T1 T2]. apply Z.eqb_neq in T1.
  pose proof (cross_level_b prev c q Hc) as (LB1 & LB2 & _).
  assert (Hst : py prev = py c -> (px q < px prev <-> px q < px c)).
  { intros E. assert (E' : (py c =? py prev) = true) by (apply Z.eqb_eq; lia). rewrite E' in T2. cbn [andb] in T2. apply negb_false_iff in T2.
    apply eqb_prop in T2. rewrite <- !Z.ltb_lt. rewrite T2. tauto. }
  assert (Hon : on_seg q (prev, c) = false).
  { apply on_seg_false. intros (X0 & Hx & Hy).
    destruct (Z.lt_trichotomy (py prev) (py c)) as [L|[E|G]].
    - specialize (LB2 L). lia.
    - specialize (Hst E). assert (px prev <> px q) by (apply Hne; lia). lia.
    - specialize (LB1 G). lia. }
  split; [exact Hon|].
  constructor; try assumption.
  - intros _. exact T1.
  - destruct ab; lia.
  - eapply par_step; [exact Hpar|]. unfold sb, pend.
    destruct ab; cbn [negb andb] in *.
    + rewrite ew_above by lia. decide_cmps. cbn [Z.odd xorb]. destruct (Z.odd v); reflexivity.
    + destruct (Z.eq_dec (py prev) (py q)) as [E|NE].
      * rewrite ew_above by lia. assert (px prev <> px q) by (apply Hne; lia).
        assert (Hst' : px q < px prev <-> px q < px c) by (apply Hst; lia).
        decide_cmps. cbn [Z.odd xorb andb].
        destruct (px prev <? px q) eqn:?, (px c <? px q) eqn:?; cbn [xorb];
          try (destruct (Z.odd v); reflexivity); exfalso; lia.
      * rewrite ew_down by lia. assert (G : py c < py prev) by lia. specialize (LB1 G).
        decide_cmps. cbn [andb].
        destruct (cross prev c q <? 0) eqn:?, (px c <? px q) eqn:?; cbn [Z.odd xorb];
          try (destruct (Z.odd v); reflexivity); exfalso; lia.
Qed.

(* crossing from above to below; tog = whether the code toggles val *)
Lemma step_cross_up tog :
  Inv q f prev true v P -> py q < py c -> cross prev c q <> 0 -> tog = (cross prev c q <? 0) ->
  on_seg q (prev, c) = false /\
  Inv q f c false (if tog then 1 - v else v) (xorb P (Z.odd (edge_w q (prev, c)))).
Proof.
  intros [Hv Hne Hside Hpar] Hc X0 Ht. cbn [negb] in *.
  split; [apply on_seg_false; tauto|].
  destruct (odd_flip v Hv) as (Of & Vf).
  constructor.
  - destruct tog; assumption.
  - lia.
  - lia.
  - eapply par_step; [exact Hpar|]. unfold sb, pend. cbn [negb andb].
    rewrite ew_up by lia. decide_cmps. cbn [andb xorb]. subst tog.
    destruct (cross prev c q <? 0) eqn:?, (0 <? cross prev c q) eqn:?; cbn [Z.odd xorb]; rewrite ?Of;
      try (destruct (Z.odd v); reflexivity); exfalso; lia.
Qed.

(* crossing from below (or from the level of q, coming from below) to above *)
Lemma step_cross_down tog :
  Inv q f prev false v P -> py c < py q -> cross prev c q <> 0 -> tog = negb (cross prev c q <? 0) ->
  on_seg q (prev, c) = false /\
  Inv q f c true (if tog then 1 - v else v) (xorb P (Z.odd (edge_w q (prev, c)))).
Proof.
  intros [Hv Hne Hside Hpar] Hc X0 Ht. cbn [negb] in *.
  split; [apply on_seg_false; tauto|].
  destruct (odd_flip v Hv) as (Of & Vf).
  constructor.
  - destruct tog; assumption.
  - lia.
  - lia.
  - eapply par_step; [exact Hpar|]. unfold sb, pend. cbn [negb andb].
    destruct (Z.eq_dec (py prev) (py q)) as [E|NE].
    + rewrite ew_above by lia. destruct (cross_level_a prev c q E) as (_ & LA & _). specialize (Hne E).
      assert (G : py c < py prev) by lia. specialize (LA G).
      decide_cmps. cbn [andb xorb Z.odd]. subst tog.
      destruct (cross prev c q <? 0) eqn:?, (px prev <? px q) eqn:?; cbn [negb xorb]; rewrite ?Of;
        try (destruct (Z.odd v); reflexivity); exfalso; lia.
    + rewrite ew_down by lia. decide_cmps. cbn [andb xorb]. subst tog.
      destruct (cross prev c q <? 0) eqn:?; cbn [negb Z.odd xorb]; rewrite ?Of; destruct (Z.odd v); reflexivity.
Qed.

(* an edge crossing the level of q, q not strictly left or right of both ends, cross product 0: q is on it *)
Lemma cross_on :
  (py prev <= py q <= py c \/ py c <= py q <= py prev) -> cross prev c q = 0 ->
  (px q <? px c) && (px q <? px prev) = false -> (px prev <? px q) && (px c <? px q) = false ->
  on_seg q (prev, c) = true.
Proof.
  intros Hy X0 A B. apply on_seg_true. split; [exact X0|].
  apply andb_false_iff in A. apply andb_false_iff in B. rewrite !Z.ltb_ge in A, B. lia.
Qed.

(* ------------------------------------------------------------------ the step *)
Lemma vertex_step ab :
  Inv q f prev ab v P ->
  match pip_vertex cross_updZ q prev c ab v with
  | None => on_seg q (prev, c) = true
  | Some (ab', v') => on_seg q (prev, c) = false /\ Inv q f c ab' v' (xorb P (Z.odd (edge_w q (prev, c))))
  end.
Proof.
  intros I. unfold pip_vertex.
  destruct ab.
  - (* is_above *)
    destruct (py c <? py q) eqn:E1; [apply step_skip_above; [exact I|lia]|].
    destruct (py c =? py q) eqn:E2.
    { fold level_test. destruct level_test eqn:T; [eapply step_level_on; eauto; lia|eapply step_level_off; eauto; lia]. }
    assert (Hc : py q < py c) by lia.
    pose proof (inv_side _ _ _ _ _ _ I) as Hside. cbn in Hside.
    destruct ((px q <? px c) && (px q <? px prev)) eqn:A.
    { apply andb_true_iff in A. rewrite !Z.ltb_lt in A.
      pose proof (cross_left_up prev c q). apply (step_cross_up false); try assumption; try lia;
        try (symmetry; apply Z.ltb_ge; lia). }
    destruct ((px prev <? px q) && (px c <? px q)) eqn:B.
    { apply andb_true_iff in B. rewrite !Z.ltb_lt in B.
      pose proof (cross_right_up prev c q). apply (step_cross_up true); try assumption; try lia;
        try (symmetry; apply Z.ltb_lt; lia). }
    unfold cross_updZ. cbv zeta. destruct (cross prev c q =? 0) eqn:X0.
    { apply cross_on; try assumption; lia. }
    apply (step_cross_up (Bool.eqb (cross prev c q <? 0) true)); try assumption; try lia;
      try (destruct (cross prev c q <? 0); reflexivity).
  - (* not is_above *)
    destruct (py q <? py c) eqn:E1; [apply step_skip_below; [exact I|lia]|].
    destruct (py c =? py q) eqn:E2.
    { fold level_test. destruct level_test eqn:T; [eapply step_level_on; eauto; lia|eapply step_level_off; eauto; lia]. }
    assert (Hc : py c < py q) by lia.
    pose proof (inv_side _ _ _ _ _ _ I) as Hside. cbn in Hside.
    pose proof (inv_ne _ _ _ _ _ _ I) as Hne.
    destruct ((px q <? px c) && (px q <? px prev)) eqn:A.
    { apply andb_true_iff in A. rewrite !Z.ltb_lt in A.
      pose proof (cross_left_down prev c q). apply (step_cross_down false); try assumption; try lia;
        try (replace (cross prev c q <? 0) with true; [reflexivity|]; symmetry; apply Z.ltb_lt; lia). }
    destruct ((px prev <? px q) && (px c <? px q)) eqn:B.
    { apply andb_true_iff in B. rewrite !Z.ltb_lt in B.
      pose proof (cross_right_down prev c q). apply (step_cross_down true); try assumption; try lia;
        try (replace (cross prev c q <? 0) with false; [reflexivity|]; symmetry; apply Z.ltb_ge; lia). }
    unfold cross_updZ. cbv zeta. destruct (cross prev c q =? 0) eqn:X0.
    { apply cross_on; try assumption; lia. }
    apply (step_cross_down (Bool.eqb (cross prev c q <? 0) false)); try assumption; try lia;
      try (destruct (cross prev c q <? 0); reflexivity).
Qed.
End Step.

(* ------------------------------------------------------------------ the walk *)
Lemma odd_add_xorb a b : Z.odd (a + b) = xorb (Z.odd a) (Z.odd b).
Proof. apply Z.odd_add. Qed.

Lemma last_cons {A} : forall (l : list A) a d, last (a :: l) d = last l a.
Proof. induction l as [|b l IH]; intros a d; [reflexivity|]. change (last (a :: b :: l) d) with (last (b :: l) d). rewrite !IH. reflexivity. Qed.

Lemma walk_spec q f : forall l prev ab v P,
  Inv q f prev ab v P ->
  match pip_walk cross_updZ q prev l ab v with
  | None => existsb (on_seg q) (open_edges (prev :: l)) = true
  | Some (prev', ab', v') =>
    prev' = last l prev /\ existsb (on_seg q) (open_edges (prev :: l)) = false /\
    Inv q f prev' ab' v' (xorb P (Z.odd (wsum q (open_edges (prev :: l)))))
  end.
Proof.
  induction l as [|c l IH]; intros prev ab v P I.
  - cbn [pip_walk open_edges existsb last]. unfold wsum. cbn [map zsum Z.odd]. rewrite xorb_false_r. auto.
  - cbn [pip_walk]. pose proof (vertex_step q f prev c v P ab I) as S.
    destruct (pip_vertex cross_updZ q prev c ab v) as [[ab' v']|].
    + destruct S as (Hon & I'). specialize (IH c ab' v' _ I').
      rewrite open_edges_cons2. cbn [existsb]. rewrite Hon. cbn [orb].
      destruct (pip_walk cross_updZ q c l ab' v') as [[[p2 ab2] v2]|].
      * destruct IH as (E & Hon2 & I2). split; [|split].
        { rewrite E. symmetry. apply last_cons. }
        { exact Hon2. }
        { unfold wsum in *. cbn [map zsum]. rewrite odd_add_xorb, xorb_assoc in *. exact I2. }
      * exact IH.
    + rewrite open_edges_cons2. cbn [existsb]. rewrite S. reflexivity.
Qed.

(* the code after the loop: one more edge test when the walk ended on the other side of q's level *)
Definition pip_final (upd : pt -> pt -> pt -> bool -> Z -> option Z) (q prev f : pt) (ab : bool) (v : Z) : option Z :=
  if Bool.eqb ab (py f <? py q) then Some v else upd prev f q ab v.

Definition pip_fin (v : Z) : pip_result := if v =? 0 then IsOutside else IsInside.

(* the whole computation on the polygon f :: rest, f not level with q *)
Definition pip_flat upd (q f : pt) (rest : list pt) : pip_result :=
  match pip_walk upd q f rest (py f <? py q) 0 with
  | None => IsOn
  | Some (prev, ab, v) =>
    match pip_final upd q prev f ab v with None => IsOn | Some v' => pip_fin v' end
  end.

(* cross product 0 within the y-range of a non-horizontal edge: within the x-range as well *)
Lemma cross0_in_range a b q :
  cross a b q = 0 -> (py a <= py q <= py b /\ py a < py b) \/ (py b <= py q <= py a /\ py b < py a) ->
  on_seg q (a, b) = true.
Proof.
  intros X0 Hy. apply on_seg_true. split; [exact X0|].
  pose proof (cross_left_up a b q). pose proof (cross_right_up a b q).
  pose proof (cross_left_down a b q). pose proof (cross_right_down a b q). lia.
Qed.

Lemma final_step q f prev ab v P :
  py f <> py q -> Inv q f prev ab v P ->
  match pip_final cross_updZ q prev f ab v with
  | None => on_seg q (prev, f) = true
  | Some v' => on_seg q (prev, f) = false /\ exists ab', Inv q f f ab' v' (xorb P (Z.odd (edge_w q (prev, f))))
  end.
Proof.
  intros Hf I. unfold pip_final.
  pose proof (inv_side _ _ _ _ _ _ I) as Hside.
  destruct ab; cbn [Bool.eqb] in *.
  - destruct (py f <? py q) eqn:E.
    + destruct (step_skip_above q f prev f v P I) as (A & B); [lia|]. split; [exact A|eauto].
    + unfold cross_updZ. cbv zeta. destruct (cross prev f q =? 0) eqn:X0.
      * apply cross0_in_range; lia.
      * assert (T : Bool.eqb (cross prev f q <? 0) true = (cross prev f q <? 0)) by (destruct (cross prev f q <? 0); reflexivity).
        destruct (step_cross_up q f prev f v P _ I ltac:(lia) ltac:(lia) T) as (A & B).
        split; [exact A|eauto].
  - destruct (py f <? py q) eqn:E.
    + unfold cross_updZ. cbv zeta. destruct (cross prev f q =? 0) eqn:X0.
      * apply cross0_in_range; lia.
      * assert (T : Bool.eqb (cross prev f q <? 0) false = negb (cross prev f q <? 0)) by (destruct (cross prev f q <? 0); reflexivity).
        destruct (step_cross_down q f prev f v P _ I ltac:(lia) ltac:(lia) T) as (A & B).
        split; [exact A|eauto].
    + destruct (step_skip_below q f prev f v P I) as (A & B); [lia|]. split; [exact A|eauto].
Qed.

Lemma open_edges_last a l b : open_edges ((a :: l) ++ [b]) = open_edges (a :: l) ++ [(last l a, b)].
Proof.
  revert a. induction l as [|c l IH]; intros a; [reflexivity|].
  change ((a :: c :: l) ++ [b]) with (a :: (c :: l) ++ [b]).
  change (open_edges (a :: (c :: l) ++ [b])) with ((a, c) :: open_edges ((c :: l) ++ [b])).
  rewrite IH, open_edges_cons2, last_cons. reflexivity.
Qed.

Theorem pip_flat_spec q f rest :
  py f <> py q -> pip_flat cross_updZ q f rest = pip_spec q (f :: rest).
Proof.
  intros Hf. unfold pip_flat, pip_spec, on_path, wn.
  assert (I0 : Inv q f f (py f <? py q) 0 false).
  { constructor; [auto|intros; contradiction| |].
    - destruct (py f <? py q) eqn:E; lia.
    - unfold sb, pend. rewrite xorb_nilpotent. replace (py f =? py q) with false by (symmetry; apply Z.eqb_neq; exact Hf).
      rewrite andb_false_r. reflexivity. }
  pose proof (walk_spec q f rest f _ 0 false I0) as W.
  change (cyc_edges (f :: rest)) with (open_edges ((f :: rest) ++ [f])). rewrite open_edges_last.
  rewrite existsb_app, wsum_app. cbn [existsb]. rewrite orb_false_r.
  destruct (pip_walk cross_updZ q f rest (py f <? py q) 0) as [[[prev ab] v]|].
  - destruct W as (E & Hon & I). rewrite Hon. cbn [orb]. rewrite <- E.
    pose proof (final_step q f prev ab v _ Hf I) as F.
    destruct (pip_final cross_updZ q prev f ab v) as [v'|].
    + destruct F as (Hon2 & ab' & [Hv _ _ Hpar]). rewrite Hon2.
      unfold wsum at 2. cbn [map zsum]. rewrite Z.add_0_r, odd_add_xorb.
      rewrite xorb_false_l in Hpar. unfold sb, pend in Hpar. rewrite xorb_nilpotent, xorb_false_r in Hpar.
      replace (py f =? py q) with false in Hpar by (symmetry; apply Z.eqb_neq; exact Hf).
      rewrite andb_false_r, andb_false_l, xorb_false_r in Hpar. rewrite <- Hpar.
      unfold pip_fin. destruct Hv as [-> | ->]; reflexivity.
    + rewrite F. reflexivity.
  - rewrite W. reflexivity.
Qed.

(* ------------------------------------------------------------------ float edge test = exact edge test *)
Lemma pip_vertex_ext upd1 upd2 q prev c ab v :
  upd1 prev c q ab v = upd2 prev c q ab v -> pip_vertex upd1 q prev c ab v = pip_vertex upd2 q prev c ab v.
Proof. intros E. unfold pip_vertex. rewrite E. reflexivity. Qed.

Lemma pip_walk_float q : forall l prev ab v,
  pt_le (2 ^ 25) q -> pt_le (2 ^ 25) prev -> Forall (pt_le (2 ^ 25)) l ->
  pip_walk pip_cross_update q prev l ab v = pip_walk cross_updZ q prev l ab v.
Proof.
  induction l as [|c l IH]; intros prev ab v Hq Hp Hl; [reflexivity|].
  inversion Hl as [|? ? Hc Hl']; subst. cbn [pip_walk].
  rewrite (pip_vertex_ext pip_cross_update cross_updZ) by (apply cross_update_exact; assumption).
  destruct (pip_vertex cross_updZ q prev c ab v) as [[ab' v']|]; [apply IH; assumption|reflexivity].
Qed.

Lemma walk_last upd q : forall l prev ab v p ab' v',
  pip_walk upd q prev l ab v = Some (p, ab', v') -> p = last l prev.
Proof.
  induction l as [|c l IH]; intros prev ab v p ab' v' H; cbn [pip_walk] in H.
  - inversion H. reflexivity.
  - destruct (pip_vertex upd q prev c ab v) as [[a2 v2]|]; [|discriminate].
    rewrite (IH _ _ _ _ _ _ H). symmetry. apply last_cons.
Qed.

Lemma last_in {A} : forall (l : list A) d, last l d = d \/ In (last l d) l.
Proof.
  induction l as [|a l IH]; intros d; [left; reflexivity|]. right.
  rewrite last_cons. destruct (IH a) as [E|I]; [rewrite E; left; reflexivity|right; exact I].
Qed.

Theorem pip_flat_float q f rest :
  pt_le (2 ^ 25) q -> pt_le (2 ^ 25) f -> Forall (pt_le (2 ^ 25)) rest ->
  pip_flat pip_cross_update q f rest = pip_flat cross_updZ q f rest.
Proof.
  intros Hq Hf Hr. unfold pip_flat. rewrite pip_walk_float by assumption.
  destruct (pip_walk cross_updZ q f rest (py f <? py q) 0) as [[[prev ab] v]|] eqn:W; [|reflexivity].
  unfold pip_final. rewrite cross_update_exact; try assumption; [reflexivity|].
  apply walk_last in W. subst prev. destruct (last_in rest f) as [E|I]; [rewrite E; exact Hf|].
  rewrite Forall_forall in Hr. apply Hr. exact I.
Qed.
