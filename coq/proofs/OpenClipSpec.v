(* Lemmas about model/OpenClipSpec.v (C05). *)
From Clip Require Import base.Geom base.Winding base.Region base.Dist base.GenPos model.OpenClipSpec.
From Coq Require Import QArith.
Local Open Scope Z_scope.

(* The table open_in_result is the property text: an open subject point survives
   - Intersection: iff it is inside the clip region,
   - Difference, Xor: iff it is outside the clip region,
   - Union: iff it is outside both the closed-subject region and the clip region. *)
Lemma open_in_result_spec fr wS wC :
  open_in_result Intersection fr wS wC = inside fr wC /\
  open_in_result Difference fr wS wC = negb (inside fr wC) /\
  open_in_result Xor fr wS wC = negb (inside fr wC) /\
  open_in_result Union fr wS wC = negb (inside fr wS || inside fr wC) /\
  open_in_result Union fr wS wC = negb (in_result Union fr wS wC).
Proof.
  unfold open_in_result, in_result, combine_ct.
  destruct (inside fr wS), (inside fr wC); repeat split; reflexivity.
Qed.
