(* Lemmas about model/OpenClipSpec.v (C05). *)
From Clip Require Import base.Geom base.Winding base.Region base.Dist base.GenPos model.OpenClipSpec.
From Coq Require Import QArith Lia List.
Import ListNotations.
Local Open Scope Z_scope.

(* The table open_in_result is the property text: an open subject point survives
   - Intersection: iff it is inside the clip region,
   - Difference, Xor: iff it is outside the clip region,
   - Union: iff it is outside both the closed-subject region and the clip region. *)
Lemma open_in_result_spec fr wS wC :
  open_in_result Intersection fr wS wC = inside fr wC /\
  open_in_result Difference fr wS wC = negb (inside fr wC) /\
  open_in_result Xor fr wS wC = negb (inside fr wC) /\
  open_in_result Union fr wS wC = negb (inside fr wS || inside fr wC) /\
  open_in_result Union fr wS wC = negb (in_result Union fr wS wC).
Proof.
  unfold open_in_result, in_result, combine_ct.
  destruct (inside fr wS), (inside fr wC); repeat split; reflexivity.
Qed.

(* ---------- the pieces partition [0,1] ---------- *)
Lemma chain_head lo ts : exists hi r, chain lo ts = (lo, hi) :: r.
Proof. destruct ts as [|t r]; cbn [chain]; eauto. Qed.

Lemma chain_last lo ts d : snd (last (chain lo ts) d) = 1%Q.
Proof.
  revert lo. induction ts as [|t r IH]; intro lo; cbn [chain].
  - reflexivity.
  - destruct (chain_head t r) as (hi & r' & E). specialize (IH t). rewrite E in *. exact IH.
Qed.

Lemma chain_linked lo ts : linked (chain lo ts).
Proof.
  revert lo. induction ts as [|t r IH]; intro lo; cbn [chain linked]; auto.
  destruct (chain_head t r) as (hi & r' & E). specialize (IH t). rewrite E in *. cbn [linked fst snd]. split; auto.
Qed.

Lemma mk_pieces_partition ts :
  (exists hi r, mk_pieces ts = (0%Q, hi) :: r) /\ linked (mk_pieces ts) /\ snd (last (mk_pieces ts) (0%Q, 0%Q)) = 1%Q.
Proof. unfold mk_pieces. split; [apply chain_head|split; [apply chain_linked|apply chain_last]]. Qed.

(* ---------- the crossing parameter ---------- *)
(* cross c d is affine along the open segment: at the integer-scaled point of [lerp] *)
Lemma cross_lerp a b c d (t : Q) :
  let m := lerp (a, b) t in
  cross (pscale (snd m) c) (pscale (snd m) d) (fst m)
  = snd m * (Zpos (Qden t) * cross c d a + Qnum t * (cross c d b - cross c d a)).
Proof. destruct a, b, c, d. unfold lerp, cross, pscale, px, py. cbn [fst snd]. ring. Qed.

(* for a proper crossing the parameter is strictly inside (0,1) and the point at that parameter lies exactly on the
   supporting line of the closed edge *)
Lemma cross_par_spec a b c d :
  proper_cross (a, b) (c, d) = true ->
  let t := cross_par (a, b) (c, d) in
  (0 < Qnum t < Zpos (Qden t)) /\
  let m := lerp (a, b) t in cross (pscale (snd m) c) (pscale (snd m) d) (fst m) = 0.
Proof.
  intros H t. unfold proper_cross in H. apply andb_prop in H. destruct H as [_ H]. apply Z.ltb_lt in H.
  assert (E : Zpos (Qden t) * cross c d a + Qnum t * (cross c d b - cross c d a) = 0 /\ 0 < Qnum t < Zpos (Qden t)).
  { unfold t, cross_par. set (f0 := cross c d a) in *. set (f1 := cross c d b) in *.
    destruct (0 <? f0 - f1) eqn:E1; cbn [Qnum Qden].
    - apply Z.ltb_lt in E1. rewrite Z2Pos.id by lia. split; [ring|].
      destruct (Z.sgn_spec f0) as [(?&S0)|[(?&S0)|(?&S0)]], (Z.sgn_spec f1) as [(?&S1)|[(?&S1)|(?&S1)]]; rewrite S0, S1 in H; lia.
    - apply Z.ltb_ge in E1.
      destruct (Z.sgn_spec f0) as [(?&S0)|[(?&S0)|(?&S0)]], (Z.sgn_spec f1) as [(?&S1)|[(?&S1)|(?&S1)]]; rewrite S0, S1 in H; try lia;
      try (rewrite Z2Pos.id by lia; split; [ring|lia]). }
  destruct E as [E R]. split; [exact R|]. intro m. unfold m. rewrite cross_lerp. fold t. rewrite E. ring.
Qed.

(* ---------- soundness of the interval-cover test ---------- *)
Local Open Scope Q_scope.

Lemma Qmaxb_ge_l c s : c <= Qmaxb c s.
Proof. unfold Qmaxb. destruct (Qle_bool c s) eqn:E; [apply Qle_bool_iff in E; exact E|apply Qle_refl]. Qed.

Lemma sweep_inv all lo : forall ivs cur,
  incl ivs all -> Cov all lo cur -> Cov all lo (sweep ivs cur) /\ cur <= sweep ivs cur.
Proof.
  unfold sweep. induction ivs as [|iv r IH]; intros cur Hin Hc; cbn [fold_left].
  - split; [exact Hc|apply Qle_refl].
  - assert (Hr : incl r all) by (intros x Hx; apply Hin; right; exact Hx).
    destruct (Qle_bool (fst iv) cur) eqn:E.
    + apply Qle_bool_iff in E.
      assert (Hc' : Cov all lo (Qmaxb cur (snd iv))).
      { intros q Hlo Hhi. unfold Qmaxb in Hhi. destruct (Qle_bool cur (snd iv)) eqn:E2.
        - destruct (Qlt_le_dec cur q) as [Hlt|Hle].
          + exists iv. split; [apply Hin; left; reflexivity|]. split; [|exact Hhi].
            apply Qle_trans with cur; [exact E|apply Qlt_le_weak; exact Hlt].
          + apply Hc; assumption.
        - apply Hc; assumption. }
      destruct (IH _ Hr Hc') as [H1 H2]. split; [exact H1|].
      apply Qle_trans with (Qmaxb cur (snd iv)); [apply Qmaxb_ge_l|exact H2].
    + apply IH; assumption.
Qed.

Lemma extend_inv all lo : forall fuel cur,
  Cov all lo cur -> Cov all lo (extend fuel all cur) /\ cur <= extend fuel all cur.
Proof.
  induction fuel as [|f IH]; intros cur Hc; cbn [extend].
  - split; [exact Hc|apply Qle_refl].
  - destruct (sweep_inv all lo all cur (incl_refl _) Hc) as [H1 H2].
    destruct (Qle_bool (sweep all cur) cur); [split; [exact Hc|apply Qle_refl]|].
    destruct (IH _ H1) as [H3 H4]. split; [exact H3|apply Qle_trans with (sweep all cur); assumption].
Qed.

(* [covered] only says yes when a start interval accepted by start_ok is chained by overlapping intervals to an end point
   accepted by end_ok, and then every parameter from that start to that end lies in one of the intervals *)
Lemma covered_sound start_ok end_ok ivs :
  covered start_ok end_ok ivs = true ->
  exists a b, start_ok a = true /\ end_ok b = true /\ Cov ivs a b.
Proof.
  unfold covered. intro H. apply existsb_exists in H. destruct H as (iv & Hin & H).
  apply andb_prop in H. destruct H as [Hs He].
  exists (fst iv), (extend (length ivs) ivs (snd iv)). split; [exact Hs|split; [exact He|]].
  apply extend_inv. intros q H1 H2. exists iv. auto.
Qed.

(* ---------- the hypothesis ---------- *)
Local Open Scope Z_scope.
Lemma general_position_C05_open S C O : general_position_C05 S C O = true ->
  general_position (S ++ C) = true /\ gp_open (S ++ C) O = true /\ open_self_clear O = true /\ gp_joint (S ++ C) O = true.
Proof.
  unfold general_position_C05, general_position_open, open_general. intro H.
  apply andb_prop in H. destruct H as [H1 H2]. apply andb_prop in H1. apply andb_prop in H2.
  destruct H1, H2. auto.
Qed.

(* an open polyline that folds back on itself (two overlapping collinear segments) is not in general position, although it
   is in general position relative to the closed paths: the minimised input of triage/C05.md (horizontal spike) *)
Lemma foldback_not_general :
  let C := [[(40,-10);(60,-10);(60,16);(40,16)]] in let O := [[(0,40);(100,10);(0,10);(90,10);(95,40)]] in
  general_position_open [] C O = true /\ general_position_C05 [] C O = false.
Proof. vm_compute. split; reflexivity. Qed.
