(* binary64 facts used by C08/C09 (through Flocq's interface to Coq's primitive floats):
   for |coordinates| <= 2^25 the double cross products of clipper.rectclip.cpp are computed exactly
   (all intermediate values are integers of magnitude <= 2^53), hence their sign tests are the exact ones. *)
From Coq Require Import ZArith Reals Floats SpecFloat Lia Lra Bool.
From Flocq Require Import Core.Zaux Core.Raux Core.Defs Core.Float_prop Core.Generic_fmt Core.FLT Core.Round_NE
     IEEE754.BinarySingleNaN IEEE754.PrimFloat.
From Clip Require Import base.Geom base.FloatModel model.RectLeaf.
Local Open Scope Z_scope.

Notation fexp64 := (SpecFloat.fexp prec emax).
Notation rnd64 := (round radix2 fexp64 (round_mode mode_NE)).
Notation bfin := (@BinarySingleNaN.is_finite prec emax).

(* x is a finite double whose value is the integer z *)
Definition exact_int (x : float) (z : Z) : Prop :=
  bfin (Prim2B x) = true /\ B2R (Prim2B x) = IZR z.

Lemma int_format z : Z.abs z <= 2 ^ 53 -> generic_format radix2 fexp64 (IZR z).
Proof.
  intros Hz. apply (generic_format_FLT radix2 (SpecFloat.emin prec emax) prec).
  destruct (Z.eq_dec (Z.abs z) (2 ^ 53)) as [He|Hne].
  - exists (Float radix2 (z / 2) 1).
    + unfold F2R; cbn [Fnum Fexp]. change (bpow radix2 1) with 2%R.
      assert (z = 2 * (z / 2)) as E.
      { apply Z.div_exact; [lia|]. destruct (Z.abs_eq_or_opp z) as [A|A]; rewrite A in He.
        - rewrite He. reflexivity.
        - replace z with (- 2 ^ 53) by lia. reflexivity. }
      rewrite E at 1. rewrite mult_IZR. lra.
    + cbn [Fnum]. change (radix2 ^ prec) with (2 ^ 53).
      assert (Z.abs (z / 2) = 2 ^ 52); [|lia].
      destruct (Z.abs_eq_or_opp z) as [A|A]; rewrite A in He.
      * rewrite He. reflexivity.
      * replace z with (- 2 ^ 53) by lia. reflexivity.
    + cbn [Fexp]. unfold SpecFloat.emin, prec, emax. lia.
  - exists (Float radix2 z 0).
    + unfold F2R; cbn [Fnum Fexp bpow]. lra.
    + cbn [Fnum]. change (radix2 ^ prec) with (2 ^ 53). lia.
    + cbn [Fexp]. unfold SpecFloat.emin, prec, emax. lia.
Qed.

Lemma int_round z : Z.abs z <= 2 ^ 53 -> rnd64 (IZR z) = IZR z.
Proof. intros Hz. apply round_generic; [apply valid_rnd_round_mode|apply int_format; exact Hz]. Qed.

Lemma int_lt_emax z : Z.abs z <= 2 ^ 53 -> (Rabs (IZR z) < bpow radix2 emax)%R.
Proof.
  intros Hz. rewrite <- abs_IZR. apply Rle_lt_trans with (IZR (2 ^ 53)); [apply IZR_le; exact Hz|].
  change (2 ^ 53) with (Zpower radix2 53). rewrite IZR_Zpower by lia. apply bpow_lt. unfold emax. lia.
Qed.

Lemma exact_Z2F z : Z.abs z <= 2 ^ 53 -> exact_int (Z2F z) z.
Proof.
  intros Hz. unfold exact_int, Z2F.
  change (SpecFloat.binary_normalize 53 1024 z 0 false) with (SpecFloat.binary_normalize prec emax z 0 false).
  rewrite binary_normalize_equiv. fold (B2Prim (BinarySingleNaN.binary_normalize prec emax Hprec Hmax mode_NE z 0 false)).
  rewrite Prim2B_B2Prim.
  pose proof (binary_normalize_correct prec emax Hprec Hmax mode_NE z 0 false) as H. cbv zeta in H.
  assert (Hx : F2R (Float radix2 z 0) = IZR z) by (unfold F2R; cbn [Fnum Fexp bpow]; lra).
  rewrite Hx, (int_round z Hz) in H. rewrite (Rlt_bool_true _ _ (int_lt_emax z Hz)) in H.
  destruct H as [H1 [H2 _]]. split; assumption.
Qed.

Lemma exact_mul x y a b : exact_int x a -> exact_int y b -> Z.abs (a * b) <= 2 ^ 53 -> exact_int (x * y)%float (a * b).
Proof.
  intros [Fx Rx] [Fy Ry] Hz. unfold exact_int. rewrite mul_equiv.
  pose proof (Bmult_correct prec emax Hprec Hmax mode_NE (Prim2B x) (Prim2B y)) as H.
  rewrite Rx, Ry, <- mult_IZR, (int_round _ Hz), (Rlt_bool_true _ _ (int_lt_emax _ Hz)), Fx, Fy in H.
  destruct H as [H1 [H2 _]]. split; assumption.
Qed.

Lemma exact_sub x y a b : exact_int x a -> exact_int y b -> Z.abs (a - b) <= 2 ^ 53 -> exact_int (x - y)%float (a - b).
Proof.
  intros [Fx Rx] [Fy Ry] Hz. unfold exact_int. rewrite sub_equiv.
  pose proof (Bminus_correct prec emax Hprec Hmax mode_NE (Prim2B x) (Prim2B y) Fx Fy) as H.
  rewrite Rx, Ry, <- minus_IZR, (int_round _ Hz), (Rlt_bool_true _ _ (int_lt_emax _ Hz)) in H.
  destruct H as [H1 [H2 _]]. split; assumption.
Qed.

Lemma Prim2B_zero : Prim2B f0 = B754_zero false.
Proof. unfold f0. change 0%float with zero. rewrite zero_equiv. apply Prim2B_B2Prim. Qed.

(* sign tests on an exactly represented integer *)
Lemma exact_sign x z : exact_int x z ->
  feq0 x = (z =? 0) /\ fgt0 x = (0 <? z) /\ flt0 x = (z <? 0).
Proof.
  intros [Fx Rx]. unfold feq0, fgt0, flt0, feqb, fltb.
  rewrite eqb_equiv, !ltb_equiv, Prim2B_zero.
  assert (F0 : bfin (B754_zero false) = true) by reflexivity.
  rewrite (Beqb_correct _ _ _ _ Fx F0), (Bltb_correct _ _ _ _ F0 Fx), (Bltb_correct _ _ _ _ Fx F0), Rx.
  cbn [B2R]. split; [|split].
  - destruct (Req_bool_spec (IZR z) 0) as [H|H].
    + apply eq_IZR in H. subst z. reflexivity.
    + symmetry. apply Z.eqb_neq. intros ->. apply H. reflexivity.
  - destruct (Rlt_bool_spec 0 (IZR z)) as [H|H].
    + apply lt_IZR in H. symmetry. apply Z.ltb_lt. exact H.
    + apply le_IZR in H. symmetry. apply Z.ltb_ge. exact H.
  - destruct (Rlt_bool_spec (IZR z) 0) as [H|H].
    + apply lt_IZR in H. symmetry. apply Z.ltb_lt. exact H.
    + apply le_IZR in H. symmetry. apply Z.ltb_ge. exact H.
Qed.

(* |coordinates| <= 2^25 *)
Definition small_pt (p : pt) : Prop := Z.abs (px p) <= 2 ^ 25 /\ Z.abs (py p) <= 2 ^ 25.

Lemma prod_bound a b : Z.abs a <= 2 ^ 26 -> Z.abs b <= 2 ^ 26 -> Z.abs (a * b) <= 2 ^ 52.
Proof. intros Ha Hb. rewrite Z.abs_mul. change (2 ^ 52) with (2 ^ 26 * 2 ^ 26). apply Z.mul_le_mono_nonneg; lia. Qed.

(* the double CrossProduct is the exact integer cross product *)
Theorem crossF_exact_int p1 p2 p3 : small_pt p1 -> small_pt p2 -> small_pt p3 ->
  exact_int (crossF p1 p2 p3) (cross p1 p2 p3).
Proof.
  intros [H1x H1y] [H2x H2y] [H3x H3y]. unfold crossF, cross.
  assert (Ha : Z.abs (px p2 - px p1) <= 2 ^ 26) by lia.
  assert (Hb : Z.abs (py p3 - py p2) <= 2 ^ 26) by lia.
  assert (Hc : Z.abs (py p2 - py p1) <= 2 ^ 26) by lia.
  assert (Hd : Z.abs (px p3 - px p2) <= 2 ^ 26) by lia.
  pose proof (prod_bound _ _ Ha Hb) as Hab. pose proof (prod_bound _ _ Hc Hd) as Hcd.
  apply exact_sub; [apply exact_mul; [apply exact_Z2F; lia|apply exact_Z2F; lia|lia]
                   |apply exact_mul; [apply exact_Z2F; lia|apply exact_Z2F; lia|lia]|lia].
Qed.

(* numerically equal to the correctly rounded (here: exact) conversion of the integer cross product *)
Theorem crossF_exact p1 p2 p3 : small_pt p1 -> small_pt p2 -> small_pt p3 ->
  PrimFloat.eqb (crossF p1 p2 p3) (Z2F (cross p1 p2 p3)) = true.
Proof.
  intros S1 S2 S3. destruct (crossF_exact_int p1 p2 p3 S1 S2 S3) as [F1 R1].
  assert (Hc : Z.abs (cross p1 p2 p3) <= 2 ^ 53).
  { destruct S1 as [H1x H1y], S2 as [H2x H2y], S3 as [H3x H3y]. unfold cross.
    assert (Ha : Z.abs (px p2 - px p1) <= 2 ^ 26) by lia.
    assert (Hb : Z.abs (py p3 - py p2) <= 2 ^ 26) by lia.
    assert (Hcc : Z.abs (py p2 - py p1) <= 2 ^ 26) by lia.
    assert (Hd : Z.abs (px p3 - px p2) <= 2 ^ 26) by lia.
    pose proof (prod_bound _ _ Ha Hb). pose proof (prod_bound _ _ Hcc Hd). lia. }
  destruct (exact_Z2F _ Hc) as [F2 R2].
  rewrite eqb_equiv, (Beqb_correct _ _ _ _ F1 F2), R1, R2. apply Req_bool_true. reflexivity.
Qed.

Theorem crossF_sign_exact p1 p2 p3 : small_pt p1 -> small_pt p2 -> small_pt p3 ->
  feq0 (crossF p1 p2 p3) = (cross p1 p2 p3 =? 0) /\ fgt0 (crossF p1 p2 p3) = (0 <? cross p1 p2 p3)
  /\ flt0 (crossF p1 p2 p3) = (cross p1 p2 p3 <? 0).
Proof. intros S1 S2 S3. apply exact_sign. apply crossF_exact_int; assumption. Qed.

Example small_pt_sat : small_pt (33554432, -33554432) /\ crossF (33554432, -33554432) (-33554432, 33554432) (33554432, 33554431) = (-4503599560261632)%float.
Proof. split; [unfold small_pt; cbn; lia|vm_compute; reflexivity]. Qed.
