(* Float facts used by the C20 development:
   - [Z2Ff_eq]: the fast int64->double conversion of the model equals FloatModel.Z2F;
   - order facts about binary64 comparisons used to instantiate the generic theorems. *)
From Coq Require Import ZArith Lia Floats SpecFloat Uint63.
From Clip Require Import base.Geom base.FloatModel model.PathUtils.
Local Open Scope Z_scope.

Lemma SFopp_binary_round mx ex :
  SFopp (binary_round prec emax false mx ex) = binary_round prec emax true mx ex.
Proof.
  unfold binary_round, binary_round_aux.
  destruct (shl_align mx ex _) as [mz ez].
  destruct (shr_fexp prec emax (Z.pos mz) ez loc_Exact) as [mrs' e'].
  destruct (shr_fexp prec emax _ e' loc_Exact) as [mrs'' e''].
  destruct (shr_m mrs'') as [|m|m]; [reflexivity| |reflexivity].
  destruct (Zle_bool e'' (emax - prec)); reflexivity.
Qed.

Lemma of_uint63_Z2F z : 0 <= z < 2 ^ 62 -> of_uint63 (Uint63.of_Z z) = Z2F z.
Proof.
  intros Hz. unfold Z2F.
  rewrite <- (SF2Prim_Prim2SF (of_uint63 (of_Z z))), of_uint63_spec.
  rewrite of_Z_spec. rewrite Z.mod_small; [reflexivity|].
  unfold wB, size. change (2 ^ Z.of_nat 63) with (2 * 2 ^ 62). lia.
Qed.

Lemma Z2F_opp z : 0 < z < 2 ^ 62 -> Z2F (- z) = (- of_uint63 (Uint63.of_Z z))%float.
Proof.
  intros Hz.
  rewrite <- (SF2Prim_Prim2SF (- of_uint63 (of_Z z))), opp_spec, of_uint63_spec.
  rewrite of_Z_spec, Z.mod_small.
  2:{ unfold wB, size. change (2 ^ Z.of_nat 63) with (2 * 2 ^ 62). lia. }
  unfold Z2F. destruct z as [|p|p]; try lia.
  cbn [Z.opp binary_normalize]. change 53 with prec. change 1024 with emax.
  rewrite SFopp_binary_round. reflexivity.
Qed.

Lemma Z2Ff_eq z : Z2Ff z = Z2F z.
Proof.
  unfold Z2Ff. change 4611686018427387904 with (2 ^ 62).
  destruct (Z.abs z <? 2 ^ 62) eqn:Ha; [|reflexivity].
  apply Z.ltb_lt in Ha.
  destruct (0 <=? z) eqn:Hs.
  - apply Z.leb_le in Hs. apply of_uint63_Z2F. lia.
  - apply Z.leb_gt in Hs. rewrite <- Z2F_opp by lia. f_equal. lia.
Qed.
