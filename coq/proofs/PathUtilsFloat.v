(* Float facts used by the C20 development:
   - [Z2Ff_eq]: the fast int64->double conversion of the model equals FloatModel.Z2F;
   - order facts about binary64 comparisons used to instantiate the generic theorems. *)
From Coq Require Import ZArith Lia Floats SpecFloat Uint63 Reals Lra.
From Flocq Require Import Core.Raux IEEE754.BinarySingleNaN.
From Flocq Require IEEE754.PrimFloat.
From Clip Require Import base.Geom base.FloatModel model.PathUtils.
Local Open Scope Z_scope.

Lemma SFopp_binary_round mx ex :
  SFopp (binary_round prec emax false mx ex) = binary_round prec emax true mx ex.
Proof.
  unfold binary_round, binary_round_aux.
  destruct (shl_align mx ex _) as [mz ez].
  destruct (shr_fexp prec emax (Z.pos mz) ez loc_Exact) as [mrs' e'].
  destruct (shr_fexp prec emax _ e' loc_Exact) as [mrs'' e''].
  destruct (shr_m mrs'') as [|m|m]; [reflexivity| |reflexivity].
  destruct (Zle_bool e'' (emax - prec)); reflexivity.
Qed.

Lemma of_uint63_Z2F z : 0 <= z < 2 ^ 62 -> of_uint63 (Uint63.of_Z z) = Z2F z.
Proof.
  intros Hz. unfold Z2F.
  rewrite <- (SF2Prim_Prim2SF (of_uint63 (of_Z z))), of_uint63_spec.
  rewrite of_Z_spec. rewrite Z.mod_small; [reflexivity|].
  unfold wB, size. change (2 ^ Z.of_nat 63) with (2 * 2 ^ 62). lia.
Qed.

Lemma Z2F_opp z : 0 < z < 2 ^ 62 -> Z2F (- z) = (- of_uint63 (Uint63.of_Z z))%float.
Proof.
  intros Hz.
  rewrite <- (SF2Prim_Prim2SF (- of_uint63 (of_Z z))), opp_spec, of_uint63_spec.
  rewrite of_Z_spec, Z.mod_small.
  2:{ unfold wB, size. change (2 ^ Z.of_nat 63) with (2 * 2 ^ 62). lia. }
  unfold Z2F. destruct z as [|p|p]; try lia.
  cbn [Z.opp binary_normalize]. change 53 with prec. change 1024 with emax.
  rewrite SFopp_binary_round. reflexivity.
Qed.

Lemma Z2Ff_eq z : Z2Ff z = Z2F z.
Proof.
  unfold Z2Ff. change 4611686018427387904 with (2 ^ 62).
  destruct (Z.abs z <? 2 ^ 62) eqn:Ha; [|reflexivity].
  apply Z.ltb_lt in Ha.
  destruct (0 <=? z) eqn:Hs.
  - apply Z.leb_le in Hs. apply of_uint63_Z2F. lia.
  - apply Z.leb_gt in Hs. rewrite <- Z2F_opp by lia. f_equal. lia.
Qed.

(* ------------------------------------------------------------------ binary64 comparisons (through Flocq) *)
Section Cmp.
Let prec := 53%Z.
Let emax := 1024%Z.

Ltac inf_case a b e :=
  destruct a as [[|]|[|]| |[|] ? ? ?], b as [[|]|[|]| |[|] ? ? ?], e as [[|]|[|]| |[|] ? ? ?];
  try discriminate; intros _ _ _; unfold Bltb, Bleb, SFltb, SFleb; cbn [B2SF SFcompare];
  try reflexivity; try discriminate.

Lemma Bltb_gt_trans (a b e : binary_float prec emax) :
  Bltb a b = true -> Bltb e b = false -> Bltb e a = false.
Proof.
  destruct (BinarySingleNaN.is_finite a) eqn:Fa, (BinarySingleNaN.is_finite b) eqn:Fb, (BinarySingleNaN.is_finite e) eqn:Fe.
  - rewrite !Bltb_correct by assumption.
    repeat case Rlt_bool_spec; intros; try reflexivity; try discriminate; exfalso; lra.
  - revert Fa Fb Fe; inf_case a b e.
  - revert Fa Fb Fe; inf_case a b e.
  - revert Fa Fb Fe; inf_case a b e.
  - revert Fa Fb Fe; inf_case a b e.
  - revert Fa Fb Fe; inf_case a b e.
  - revert Fa Fb Fe; inf_case a b e.
  - revert Fa Fb Fe; inf_case a b e.
Qed.

(* a <= b is total on non-NaN values, transitive everywhere *)
Lemma Bleb_trans (a b c : binary_float prec emax) :
  Bleb a b = true -> Bleb b c = true -> Bleb a c = true.
Proof.
  destruct (BinarySingleNaN.is_finite a) eqn:Fa, (BinarySingleNaN.is_finite b) eqn:Fb, (BinarySingleNaN.is_finite c) eqn:Fe.
  - rewrite !Bleb_correct by assumption.
    repeat case Rle_bool_spec; intros; try reflexivity; try discriminate; exfalso; lra.
  - revert Fa Fb Fe; inf_case a b c.
  - revert Fa Fb Fe; inf_case a b c.
  - revert Fa Fb Fe; inf_case a b c.
  - revert Fa Fb Fe; inf_case a b c.
  - revert Fa Fb Fe; inf_case a b c.
  - revert Fa Fb Fe; inf_case a b c.
  - revert Fa Fb Fe; inf_case a b c.
Qed.

Lemma Bleb_total (a b : binary_float prec emax) :
  BinarySingleNaN.is_nan a = false -> BinarySingleNaN.is_nan b = false -> Bleb a b = false -> Bleb b a = true.
Proof.
  destruct (BinarySingleNaN.is_finite a) eqn:Fa, (BinarySingleNaN.is_finite b) eqn:Fb.
  - rewrite !Bleb_correct by assumption.
    repeat case Rle_bool_spec; intros; try reflexivity; try discriminate; exfalso; lra.
  - revert Fa Fb. destruct a as [[|]|[|]| |[|] ? ? ?], b as [[|]|[|]| |[|] ? ? ?];
      try discriminate; intros _ _; unfold Bleb, SFleb; cbn [B2SF SFcompare BinarySingleNaN.is_nan]; try reflexivity; try discriminate.
  - revert Fa Fb. destruct a as [[|]|[|]| |[|] ? ? ?], b as [[|]|[|]| |[|] ? ? ?];
      try discriminate; intros _ _; unfold Bleb, SFleb; cbn [B2SF SFcompare BinarySingleNaN.is_nan]; try reflexivity; try discriminate.
  - revert Fa Fb. destruct a as [[|]|[|]| |[|] ? ? ?], b as [[|]|[|]| |[|] ? ? ?];
      try discriminate; intros _ _; unfold Bleb, SFleb; cbn [B2SF SFcompare BinarySingleNaN.is_nan]; try reflexivity; try discriminate.
Qed.
End Cmp.

Lemma ltb_gt_trans (a b e : float) : (a <? b)%float = true -> (e <? b)%float = false -> (e <? a)%float = false.
Proof. rewrite !PrimFloat.ltb_equiv. apply Bltb_gt_trans. Qed.

Lemma leb_trans (a b c : float) : (a <=? b)%float = true -> (b <=? c)%float = true -> (a <=? c)%float = true.
Proof. rewrite !PrimFloat.leb_equiv. apply Bleb_trans. Qed.

Definition not_nan (x : float) : bool := (x =? x)%float.

Lemma leb_total (a b : float) : not_nan a = true -> not_nan b = true -> (a <=? b)%float = false -> (b <=? a)%float = true.
Proof.
  unfold not_nan. rewrite !PrimFloat.eqb_equiv, !PrimFloat.leb_equiv, !Beqb_refl.
  intros Ha Hb. apply Bleb_total.
  - apply Bool.negb_true_iff in Ha; exact Ha.
  - apply Bool.negb_true_iff in Hb; exact Hb.
Qed.

(* the squared epsilon of the property's quantifier (epsilon >= 0, not NaN) is >= 0 *)
Lemma MAX_DBL_not_nan : not_nan MAX_DBL = true.
Proof. reflexivity. Qed.
