(* Float facts used by the C20 development:
   - [Z2Ff_eq]: the fast int64->double conversion of the model equals FloatModel.Z2F;
   - order facts about binary64 comparisons used to instantiate the generic theorems. *)
From Coq Require Import ZArith Lia Floats SpecFloat Uint63 Reals Lra.
From Flocq Require Import Core.Raux IEEE754.BinarySingleNaN.
From Flocq Require IEEE754.PrimFloat.
From Clip Require Import base.Geom base.FloatModel model.PathUtils.
Local Open Scope Z_scope.

Lemma SFopp_binary_round mx ex :
  SFopp (binary_round prec emax false mx ex) = binary_round prec emax true mx ex.
Proof.
  unfold binary_round, binary_round_aux.
  destruct (shl_align mx ex _) as [mz ez].
  destruct (shr_fexp prec emax (Z.pos mz) ez loc_Exact) as [mrs' e'].
  destruct (shr_fexp prec emax _ e' loc_Exact) as [mrs'' e''].
  destruct (shr_m mrs'') as [|m|m]; [reflexivity| |reflexivity].
  destruct (Zle_bool e'' (emax - prec)); reflexivity.
Qed.

Lemma of_uint63_Z2F z : 0 <= z < 2 ^ 62 -> of_uint63 (Uint63.of_Z z) = Z2F z.
Proof.
  intros Hz. unfold Z2F.
  rewrite <- (SF2Prim_Prim2SF (of_uint63 (of_Z z))), of_uint63_spec.
  rewrite of_Z_spec. rewrite Z.mod_small; [reflexivity|].
  unfold wB, size. change (2 ^ Z.of_nat 63) with (2 * 2 ^ 62). lia.
Qed.

Lemma Z2F_opp z : 0 < z < 2 ^ 62 -> Z2F (- z) = (- of_uint63 (Uint63.of_Z z))%float.
Proof.
  intros Hz.
  rewrite <- (SF2Prim_Prim2SF (- of_uint63 (of_Z z))), opp_spec, of_uint63_spec.
  rewrite of_Z_spec, Z.mod_small.
  2:{ unfold wB, size. change (2 ^ Z.of_nat 63) with (2 * 2 ^ 62). lia. }
  unfold Z2F. destruct z as [|p|p]; try lia.
  cbn [Z.opp binary_normalize]. change 53 with prec. change 1024 with emax.
  rewrite SFopp_binary_round. reflexivity.
Qed.

Lemma Z2Ff_eq z : Z2Ff z = Z2F z.
Proof.
  unfold Z2Ff. change 4611686018427387904 with (2 ^ 62).
  destruct (Z.abs z <? 2 ^ 62) eqn:Ha; [|reflexivity].
  apply Z.ltb_lt in Ha.
  destruct (0 <=? z) eqn:Hs.
  - apply Z.leb_le in Hs. apply of_uint63_Z2F. lia.
  - apply Z.leb_gt in Hs. rewrite <- Z2F_opp by lia. f_equal. lia.
Qed.

(* ------------------------------------------------------------------ binary64 comparisons (through Flocq) *)
Section Cmp.
Let prec := 53%Z.
Let emax := 1024%Z.

Ltac inf_case a b e :=
  destruct a as [[|]|[|]| |[|] ? ? ?], b as [[|]|[|]| |[|] ? ? ?], e as [[|]|[|]| |[|] ? ? ?];
  try discriminate; intros _ _ _; unfold Bltb, Bleb, SFltb, SFleb; cbn [B2SF SFcompare];
  try reflexivity; try discriminate.

Lemma Bltb_gt_trans (a b e : binary_float prec emax) :
  Bltb a b = true -> Bltb e b = false -> Bltb e a = false.
Proof.
  destruct (BinarySingleNaN.is_finite a) eqn:Fa, (BinarySingleNaN.is_finite b) eqn:Fb, (BinarySingleNaN.is_finite e) eqn:Fe.
  - rewrite !Bltb_correct by assumption.
    repeat case Rlt_bool_spec; intros; try reflexivity; try discriminate; exfalso; lra.
  - revert Fa Fb Fe; inf_case a b e.
  - revert Fa Fb Fe; inf_case a b e.
  - revert Fa Fb Fe; inf_case a b e.
  - revert Fa Fb Fe; inf_case a b e.
  - revert Fa Fb Fe; inf_case a b e.
  - revert Fa Fb Fe; inf_case a b e.
  - revert Fa Fb Fe; inf_case a b e.
Qed.

(* a <= b is total on non-NaN values, transitive everywhere *)
Lemma Bleb_trans (a b c : binary_float prec emax) :
  Bleb a b = true -> Bleb b c = true -> Bleb a c = true.
Proof.
  destruct (BinarySingleNaN.is_finite a) eqn:Fa, (BinarySingleNaN.is_finite b) eqn:Fb, (BinarySingleNaN.is_finite c) eqn:Fe.
  - rewrite !Bleb_correct by assumption.
    repeat case Rle_bool_spec; intros; try reflexivity; try discriminate; exfalso; lra.
  - revert Fa Fb Fe; inf_case a b c.
  - revert Fa Fb Fe; inf_case a b c.
  - revert Fa Fb Fe; inf_case a b c.
  - revert Fa Fb Fe; inf_case a b c.
  - revert Fa Fb Fe; inf_case a b c.
  - revert Fa Fb Fe; inf_case a b c.
  - revert Fa Fb Fe; inf_case a b c.
Qed.

Lemma Bleb_total (a b : binary_float prec emax) :
  BinarySingleNaN.is_nan a = false -> BinarySingleNaN.is_nan b = false -> Bleb a b = false -> Bleb b a = true.
Proof.
  destruct (BinarySingleNaN.is_finite a) eqn:Fa, (BinarySingleNaN.is_finite b) eqn:Fb.
  - rewrite !Bleb_correct by assumption.
    repeat case Rle_bool_spec; intros; try reflexivity; try discriminate; exfalso; lra.
  - revert Fa Fb. destruct a as [[|]|[|]| |[|] ? ? ?], b as [[|]|[|]| |[|] ? ? ?];
      try discriminate; intros _ _; unfold Bleb, SFleb; cbn [B2SF SFcompare BinarySingleNaN.is_nan]; try reflexivity; try discriminate.
  - revert Fa Fb. destruct a as [[|]|[|]| |[|] ? ? ?], b as [[|]|[|]| |[|] ? ? ?];
      try discriminate; intros _ _; unfold Bleb, SFleb; cbn [B2SF SFcompare BinarySingleNaN.is_nan]; try reflexivity; try discriminate.
  - revert Fa Fb. destruct a as [[|]|[|]| |[|] ? ? ?], b as [[|]|[|]| |[|] ? ? ?];
      try discriminate; intros _ _; unfold Bleb, SFleb; cbn [B2SF SFcompare BinarySingleNaN.is_nan]; try reflexivity; try discriminate.
Qed.
End Cmp.

Lemma ltb_gt_trans (a b e : float) : (a <? b)%float = true -> (e <? b)%float = false -> (e <? a)%float = false.
Proof. rewrite !PrimFloat.ltb_equiv. apply Bltb_gt_trans. Qed.

Lemma leb_trans (a b c : float) : (a <=? b)%float = true -> (b <=? c)%float = true -> (a <=? c)%float = true.
Proof. rewrite !PrimFloat.leb_equiv. apply Bleb_trans. Qed.

Definition not_nan (x : float) : bool := (x =? x)%float.

Lemma leb_total (a b : float) : not_nan a = true -> not_nan b = true -> (a <=? b)%float = false -> (b <=? a)%float = true.
Proof.
  unfold not_nan. rewrite !PrimFloat.eqb_equiv, !PrimFloat.leb_equiv, !Beqb_refl.
  intros Ha Hb. apply Bleb_total.
  - apply Bool.negb_true_iff in Ha; exact Ha.
  - apply Bool.negb_true_iff in Hb; exact Hb.
Qed.

(* the squared epsilon of the property's quantifier (epsilon >= 0, not NaN) is >= 0 *)
Lemma MAX_DBL_not_nan : not_nan MAX_DBL = true.
Proof. reflexivity. Qed.

(* ------------------------------------------------------------------ SimplifyPath's clamped squared tolerance *)
(* epsSqr = (std::min)(Sqr(epsilon), MAX_DBL * 0.5) is below MAX_DBL, the pseudo distance that protects the ends of an
   open path, for every epsilon whose square is not NaN (every epsilon other than NaN, +inf included) *)
Lemma clamp_lt_max (x : float) :
  (0 <=? x)%float = true -> (HALF_MAX_DBL <? x)%float = false -> (x <? MAX_DBL)%float = true.
Proof.
  rewrite leb_spec, !ltb_spec.
  replace (Prim2SF 0) with (S754_zero false) by (vm_compute; reflexivity).
  replace (Prim2SF HALF_MAX_DBL) with (S754_finite false 9007199254740991 970) by (vm_compute; reflexivity).
  replace (Prim2SF MAX_DBL) with (S754_finite false 9007199254740991 971) by (vm_compute; reflexivity).
  destruct (Prim2SF x) as [s|s| |s m e]; unfold SFleb, SFltb; cbn [SFcompare];
    try destruct s; try discriminate; try reflexivity.
  intros _. destruct (Z.compare_spec 970 e) as [He|He|He]; try discriminate.
  - subst e. reflexivity.
  - intros _. replace (e ?= 971) with Lt by (symmetry; apply Z.compare_lt_iff; lia). reflexivity.
Qed.

Lemma simp_eps_sqr_lt_max eps :
  (0 <=? fsqr eps)%float = true -> (simp_eps_sqr eps <? MAX_DBL)%float = true.
Proof.
  intros H. unfold simp_eps_sqr. destruct (HALF_MAX_DBL <? fsqr eps)%float eqn:E.
  - vm_compute. reflexivity.
  - apply clamp_lt_max; assumption.
Qed.

(* the clamp does not change the tolerance unless it exceeds MAX_DBL / 2 = 8.98e307 (epsilon > 9.48e153) *)
Lemma simp_eps_sqr_id eps : (HALF_MAX_DBL <? fsqr eps)%float = false -> simp_eps_sqr eps = fsqr eps.
Proof. intros H. unfold simp_eps_sqr. rewrite H. reflexivity. Qed.

(* ------------------------------------------------------------------ facts used by the RDP distance bound *)
Local Open Scope float_scope.

Lemma SFsub_diag (x : spec_float) :
  SF64sub x x = S754_zero false \/ SF64sub x x = S754_nan.
Proof.
  unfold SF64sub. destruct x as [s|s| |s m e]; cbn [SFsub].
  - left. destruct s; reflexivity.
  - right. destruct s; reflexivity.
  - right. reflexivity.
  - left. rewrite Z.sub_diag. reflexivity.
Qed.

Lemma sqr_sub_diag_div (t y : float) :
  let r := (fsqr (t - t) / y)%float in not_nan r = true -> (r <=? 0)%float = true.
Proof.
  intros r. unfold not_nan, r, fsqr. rewrite eqb_spec, leb_spec, div_spec, mul_spec, sub_spec.
  replace (Prim2SF 0) with (S754_zero false) by (vm_compute; reflexivity).
  destruct (SFsub_diag (Prim2SF t)) as [-> | ->].
  - unfold SF64mul, SF64div. cbn [SFmul xorb]. destruct (Prim2SF y) as [s|s| |s m e]; cbn [SFdiv];
      unfold SFeqb, SFleb; cbn [SFcompare]; intros H; try discriminate H; reflexivity.
  - unfold SF64mul, SF64div. cbn [SFmul SFdiv]. unfold SFeqb; cbn [SFcompare]. discriminate.
Qed.

Lemma leb_refl_not_nan x : not_nan x = true -> (x <=? x)%float = true.
Proof.
  intros H. destruct (x <=? x)%float eqn:E; [reflexivity|]. pose proof (leb_total x x H H E) as E'. congruence.
Qed.

Lemma leb_refl_inv x : (x <=? x)%float = true -> not_nan x = true.
Proof.
  unfold not_nan. rewrite leb_spec, eqb_spec. unfold SFleb, SFeqb.
  destruct (SFcompare (Prim2SF x) (Prim2SF x)) as [[| |]|] eqn:E; try discriminate; try reflexivity.
  intros _. exfalso. revert E. destruct (Prim2SF x) as [s|s| |s m e]; cbn [SFcompare]; try destruct s; try discriminate.
  - rewrite Z.compare_refl, Pos.compare_cont_refl. discriminate.
  - rewrite Z.compare_refl. rewrite Pos.compare_cont_refl. discriminate.
Qed.

Lemma perp_d2_same_end x a : not_nan (perp_d2 x a x) = true -> (perp_d2 x a x <=? 0)%float = true.
Proof.
  unfold perp_d2.
  destruct ((Z2Ff (px x - px a) =? 0) && (Z2Ff (py x - py a) =? 0))%float; [reflexivity|].
  apply sqr_sub_diag_div.
Qed.
