(* C13: facts about the definitions REGENERATED from clipper.engine.cpp (gen/Gen_engine.v): the local-minima
   comparator is the model's, and the contribution table treats subject and clip symmetrically (for Intersection,
   Union, Xor) and is invariant under reversing every path when Positive and Negative are exchanged. *)
From Coq Require Import ZArith Lia Bool.
From Clip Require Import base.Geom base.Region base.CSem gen.Gen_core gen.Gen_engine model.LocMin model.Sweep1D
     proofs.Sweep1D_gen.
Local Open Scope Z_scope.

Lemma locmin_sorter_is_translated a b : locmin_before a b = LocMinSorter_call a b.
Proof. reflexivity. Qed.

(* exchanging the roles of subject and clip paths: the edge keeps its counts, its path type flips *)
Definition swap_type (e : Active) : Active :=
  mkActive (bot e) (top e) (curr_x e) (dx e) (wind_dx e) (wind_cnt e) (wind_cnt2 e)
           (if polytype e =? PathType_Subject then PathType_Clip else PathType_Subject) (is_open e).

Theorem table_symmetric ct fr e :
  ct = Intersection \/ ct = Union \/ ct = Xor ->
  IsContributingClosed (ct_code ct) (fr_code fr) (swap_type e) = IsContributingClosed (ct_code ct) (fr_code fr) e.
Proof.
  intros [-> | [-> | ->]]; unfold IsContributingClosed, swap_type; cbn [wind_cnt wind_cnt2 ct_code];
    cbv [ClipType_NoClip ClipType_Intersection ClipType_Union ClipType_Difference ClipType_Xor];
    cbn [Z.eqb Pos.eqb]; reflexivity.
Qed.

(* reversing every path negates every wind_dx, hence every winding count *)
Definition negate (e : Active) : Active :=
  mkActive (bot e) (top e) (curr_x e) (dx e) (- wind_dx e) (- wind_cnt e) (- wind_cnt2 e) (polytype e) (is_open e).

Definition flip (fr : fill_rule) : fill_rule :=
  match fr with Positive => Negative | Negative => Positive | x => x end.

Theorem table_reverse ct fr e :
  IsContributingClosed (ct_code ct) (fr_code (flip fr)) (negate e) = IsContributingClosed (ct_code ct) (fr_code fr) e.
Proof.
  unfold IsContributingClosed, GetPolyType, negate. cbn [wind_cnt wind_cnt2 polytype].
  destruct ct, fr; cbn [ct_code fr_code flip];
    cbv [ClipType_NoClip ClipType_Intersection ClipType_Union ClipType_Difference ClipType_Xor
         FillRule_EvenOdd FillRule_NonZero FillRule_Positive FillRule_Negative];
    cbn [Z.eqb Pos.eqb]; rewrite ?Z.abs_opp;
    repeat match goal with
           | |- context [?a =? ?b] => destruct (Z.eqb_spec a b)
           | |- context [?a <? ?b] => destruct (Z.ltb_spec a b)
           | |- context [?a <=? ?b] => destruct (Z.leb_spec a b)
           end; cbn [negb]; try reflexivity; try lia.
Qed.

Theorem open_table_reverse ct fr e :
  IsContributingOpen (ct_code ct) (fr_code (flip fr)) (negate e) = IsContributingOpen (ct_code ct) (fr_code fr) e.
Proof.
  unfold IsContributingOpen, negate. cbn [wind_cnt wind_cnt2].
  destruct ct, fr; cbn [ct_code fr_code flip];
    cbv [ClipType_NoClip ClipType_Intersection ClipType_Union ClipType_Difference ClipType_Xor
         FillRule_EvenOdd FillRule_NonZero FillRule_Positive FillRule_Negative];
    cbn [Z.eqb Pos.eqb];
    repeat match goal with
           | |- context [?a =? ?b] => destruct (Z.eqb_spec a b)
           | |- context [?a <? ?b] => destruct (Z.ltb_spec a b)
           end; cbn [negb andb]; try reflexivity; try lia.
Qed.
