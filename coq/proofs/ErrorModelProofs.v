(* ErrorModelProofs.v -- lemmas about model/ErrorModel.v: which invalid arguments are reported, which are silently
   accepted (witnesses), the export prologues, and the shape of the PathsD wrappers on valid input (C16). *)
From Clip Require Import base.Geom.
From Clip Require Import base.FloatModel.
From Clip Require Import model.Scale.
From Clip Require Import model.ErrorModel.
From Clip Require Import proofs.ScaleProofs.
From Coq Require Import ZArith List Floats Bool Lia.
Import ListNotations.
Local Open Scope Z_scope.

Definition bad_precision (p : Z) : Prop := ~ (- 8 <= p <= 8).

(* ---------- CheckPrecisionRange ---------- *)
Lemma cpr_valid exc p ec : - 8 <= p <= 8 -> check_precision_range exc p ec = Val (p, ec).
Proof.
  intros H. unfold check_precision_range.
  destruct (- 8 <=? p) eqn:E1; [|lia]. destruct (p <=? 8) eqn:E2; [|lia]. reflexivity.
Qed.

Lemma cpr_invalid_on p ec : bad_precision p -> check_precision_range true p ec = Throw 1 (Z.lor ec 1).
Proof.
  unfold bad_precision. intros H. unfold check_precision_range.
  destruct (- 8 <=? p) eqn:E1; destruct (p <=? 8) eqn:E2; try lia; reflexivity.
Qed.

Lemma cpr_invalid_off p ec : bad_precision p ->
  check_precision_range false p ec = Val (if 0 <? p then 8 else - 8, Z.lor ec 1).
Proof.
  unfold bad_precision. intros H. unfold check_precision_range.
  destruct (- 8 <=? p) eqn:E1; destruct (p <=? 8) eqn:E2; try lia; reflexivity.
Qed.

Lemma lor1_bit0 ec : Z.testbit (Z.lor ec 1) 0 = true.
Proof. rewrite Z.lor_spec. cbn. apply orb_true_r. Qed.

Lemma lor1_nonzero ec : 0 <= ec -> (Z.lor ec 1 =? 0) = false.
Proof.
  intros H. apply Z.eqb_neq. intro E. pose proof (lor1_bit0 ec) as B. rewrite E in B. cbn in B. discriminate.
Qed.

Lemma clamp_valid p : - 8 <= (if 0 <? p then 8 else - 8) <= 8.
Proof. destruct (0 <? p); lia. Qed.

(* ---------- precision: the wrappers that do report ---------- *)
Section Reported.
  Variable pow10 : Z -> float.

  Lemma booleanopD_precision_on p S C : bad_precision p -> to_outcome (booleanopD true pow10 p S C) = Thrown 1.
  Proof. intros H. unfold booleanopD. rewrite (cpr_invalid_on p 0 H). reflexivity. Qed.

  Lemma booleanopD_precision_off p S C : bad_precision p -> to_outcome (booleanopD false pow10 p S C) = Code 1 VEmpty.
  Proof. intros H. unfold booleanopD. rewrite (cpr_invalid_off p 0 H). reflexivity. Qed.

  Lemma union1D_precision_on p S : bad_precision p -> to_outcome (union1D true pow10 p S) = Thrown 1.
  Proof. intros H. unfold union1D. rewrite (cpr_invalid_on p 0 H). reflexivity. Qed.

  Lemma union1D_precision_off p S : bad_precision p -> to_outcome (union1D false pow10 p S) = Code 1 VEmpty.
  Proof. intros H. unfold union1D. rewrite (cpr_invalid_off p 0 H). reflexivity. Qed.

  Lemma inflateD_precision_on p ps d a : bad_precision p -> to_outcome (inflateD true pow10 p ps d a) = Thrown 1.
  Proof. intros H. unfold inflateD. rewrite (cpr_invalid_on p 0 H). reflexivity. Qed.

  Lemma inflateD_precision_off p ps d a : bad_precision p ->
    to_outcome (inflateD false pow10 p ps d a) = Code 1 VEmpty.
  Proof. intros H. unfold inflateD. rewrite (cpr_invalid_off p 0 H). reflexivity. Qed.

  Lemma rectclipD_precision_on p r ps : bad_precision p -> rect_is_empty r = false -> ps <> [] ->
    to_outcome (rectclipD true pow10 p r ps) = Thrown 1.
  Proof.
    intros H Hr Hp. unfold rectclipD. rewrite Hr. destruct ps; [contradiction|]. cbn [orb].
    rewrite (cpr_invalid_on p 0 H). reflexivity.
  Qed.

  Lemma rectclipD_precision_off p r ps : bad_precision p -> rect_is_empty r = false -> ps <> [] ->
    to_outcome (rectclipD false pow10 p r ps) = Code 1 VEmpty.
  Proof.
    intros H Hr Hp. unfold rectclipD. rewrite Hr. destruct ps; [contradiction|]. cbn [orb].
    rewrite (cpr_invalid_off p 0 H). reflexivity.
  Qed.

  Lemma trimcollinearD_precision_on p pth : bad_precision p -> to_outcome (trimcollinearD true pow10 p pth) = Thrown 1.
  Proof. intros H. unfold trimcollinearD. rewrite (cpr_invalid_on p 0 H). reflexivity. Qed.

  Lemma trimcollinearD_precision_off p pth : bad_precision p -> to_outcome (trimcollinearD false pow10 p pth) = Code 1 VEmpty.
  Proof. intros H. unfold trimcollinearD. rewrite (cpr_invalid_off p 0 H). reflexivity. Qed.

  Lemma minkowskiD_precision_on p pat pth : bad_precision p -> to_outcome (minkowskiD true pow10 p pat pth) = Thrown 1.
  Proof. intros H. unfold minkowskiD. rewrite (cpr_invalid_on p 0 H). reflexivity. Qed.

  Lemma minkowskiD_precision_off p pat pth : bad_precision p -> to_outcome (minkowskiD false pow10 p pat pth) = Code 1 VEmpty.
  Proof. intros H. unfold minkowskiD. rewrite (cpr_invalid_off p 0 H). reflexivity. Qed.

  (* an empty rectangle or an empty set of paths is answered (with nothing) before the precision is looked at: no result is
     computed from the precision, in either build *)
  Lemma rectclipD_empty_shortcut exc p r ps : rect_is_empty r = true \/ ps = [] -> rectclipD exc pow10 p r ps = Val (0, VEmpty).
  Proof.
    intros [H|H]; unfold rectclipD.
    - rewrite H. reflexivity.
    - subst ps. rewrite orb_true_r. reflexivity.
  Qed.

  Lemma clipperD_precision_on p aS aO aC S O C : bad_precision p ->
    to_outcome (clipperD_run true pow10 p aS aO aC S O C) = Thrown 1.
  Proof. intros H. unfold clipperD_run, clipperD_ctor. rewrite (cpr_invalid_on p 0 H). reflexivity. Qed.
End Reported.

(* ---------- precision: silent acceptances of the faithful model (witnesses) ---------- *)
Definition sq : fpath := [(0%float, 0%float); (10%float, 0%float); (10%float, 10%float); (0%float, 10%float)].
Definition tri : fpath := [(0%float, 0%float); (1%float, 0%float); (0%float, 1%float)].

Definition is_call (o : outcome value) : bool := match o with Ok (VCall _) => true | _ => false end.

(* ClipperD used directly, exceptions disabled: the code is set but a (clamped) result is computed *)
Lemma clipperD_precision_noexc :
  bad_precision 12 /\
  exists c, to_outcome (clipperD_run false pow10_spec 12 true true true [sq] [] []) = Code 1 (VCall c)
            /\ c_paths c <> [[]; []; []].
Proof.
  split; [unfold bad_precision; lia|]. eexists. split; [vm_compute; reflexivity|]. cbn. discriminate.
Qed.

(* ---------- range ---------- *)
Lemma scale_paths_range_on sx sy ps ec : range_ok sx sy ps = false ->
  scale_paths_E true sx sy ps ec = Throw 64 (Z.lor ec 64).
Proof. intros H. unfold scale_paths_E. rewrite H. reflexivity. Qed.

Lemma scale_paths_range_off sx sy ps ec : range_ok sx sy ps = false ->
  scale_paths_E false sx sy ps ec = Val (Some [], Z.lor ec 64).
Proof. intros H. unfold scale_paths_E. rewrite H. reflexivity. Qed.

(* ScalePath: the same test on the one path (nonzero scales; for a zero scale see below) *)
Lemma scale_path_range_on sx sy p ec : feqb sx 0 || feqb sy 0 = false -> range_ok sx sy [p] = false ->
  scale_path_E true sx sy p ec = Throw 64 (Z.lor ec 64).
Proof. intros Hz H. unfold scale_path_E, scale_path_ranged. rewrite Hz, H. reflexivity. Qed.

Lemma scale_path_range_off sx sy p ec : feqb sx 0 || feqb sy 0 = false -> range_ok sx sy [p] = false ->
  scale_path_E false sx sy p ec = Val (Some [], Z.lor ec 64).
Proof. intros Hz H. unfold scale_path_E, scale_path_ranged. rewrite Hz, H. reflexivity. Qed.

(* a zero scale without exceptions: scale_error_i, the scale becomes 1, and then the range test is made with that 1 *)
Lemma scale_path_zero_then_range_off p ec : range_ok 1 1 [p] = false ->
  scale_path_E false 0 0 p ec = Val (Some [], Z.lor (Z.lor ec 2) 64).
Proof.
  intros H. unfold scale_path_E.
  change (feqb 0 0 || feqb 0 0) with true. change (fix_zero 0) with 1%float.
  cbv iota. unfold do_error, bind, scale_path_ranged. rewrite H. reflexivity.
Qed.

Lemma lor64_nonzero ec : (Z.lor ec 64 =? 0) = false.
Proof.
  apply Z.eqb_neq. intro E. assert (B : Z.testbit (Z.lor ec 64) 6 = true) by (rewrite Z.lor_spec; cbn; apply orb_true_r).
  rewrite E in B. cbn in B. discriminate.
Qed.

(* without exceptions the error code only accumulates: every scaling step returns its input code or-ed with something *)
Lemma scale_path_ranged_off_acc sx sy p ec : exists v k, scale_path_ranged false sx sy p ec = Val (v, Z.lor ec k).
Proof.
  unfold scale_path_ranged. destruct (range_ok sx sy [p]); cbn [negb bind do_error].
  - exists (scale_path sx sy p), 0. rewrite Z.lor_0_r. reflexivity.
  - exists (Some []), 64. reflexivity.
Qed.

Lemma scale_path_E_off_acc sx sy p ec : exists v k, scale_path_E false sx sy p ec = Val (v, Z.lor ec k).
Proof.
  unfold scale_path_E. destruct (feqb sx 0 || feqb sy 0); cbn [bind do_error].
  - destruct (scale_path_ranged_off_acc (fix_zero sx) (fix_zero sy) p (Z.lor ec scale_error_i)) as [v [k E]].
    exists v, (Z.lor scale_error_i k). rewrite E. rewrite Z.lor_assoc. reflexivity.
  - apply scale_path_ranged_off_acc.
Qed.

Lemma scale_each_off_acc sx sy ps : forall ec, exists v k, scale_each false sx sy ps ec = Val (v, Z.lor ec k).
Proof.
  induction ps as [|p r IH]; intros ec; cbn [scale_each].
  - exists (Some []), 0. rewrite Z.lor_0_r. reflexivity.
  - destruct (scale_path_E_off_acc sx sy p ec) as [v1 [k1 E1]]. rewrite E1. cbn [bind].
    destruct (IH (Z.lor ec k1)) as [v2 [k2 E2]]. rewrite E2. cbn [bind].
    eexists. exists (Z.lor k1 k2). rewrite Z.lor_assoc. reflexivity.
Qed.

Lemma scale_paths_E_off_acc sx sy ps ec : exists v k, scale_paths_E false sx sy ps ec = Val (v, Z.lor ec k).
Proof.
  unfold scale_paths_E. destruct (range_ok sx sy ps); cbn [negb bind do_error].
  - apply scale_each_off_acc.
  - exists (Some []), 64. reflexivity.
Qed.

Lemma lor_lor64_nonzero a k : (Z.lor (Z.lor a 64) k =? 0) = false.
Proof.
  apply Z.eqb_neq. intro E.
  assert (B : Z.testbit (Z.lor (Z.lor a 64) k) 6 = true) by (rewrite !Z.lor_spec; cbn; rewrite orb_true_r; reflexivity).
  rewrite E in B. cbn in B. discriminate.
Qed.

Lemma lor64_bit6 a : Z.testbit (Z.lor a 64) 6 = true.
Proof. rewrite Z.lor_spec. change (Z.testbit 64 6) with true. apply orb_true_r. Qed.

Lemma lor_lor64_bit6 a k : Z.testbit (Z.lor (Z.lor a 64) k) 6 = true.
Proof. rewrite Z.lor_spec, lor64_bit6. reflexivity. Qed.

Section RangeReported.
  Variable pow10 : Z -> float.

  Lemma inflateD_range p ps d a : - 8 <= p <= 8 ->
    range_ok (pow10 p) (pow10 p) ps = false ->
    to_outcome (inflateD true pow10 p ps d a) = Thrown 64 /\
    to_outcome (inflateD false pow10 p ps d a) = Code 64 VEmpty.
  Proof.
    intros Hp Hr. unfold inflateD. rewrite !(cpr_valid _ p 0 Hp). cbn [bind Z.eqb negb].
    rewrite (scale_paths_range_on _ _ _ 0 Hr), (scale_paths_range_off _ _ _ 0 Hr). split; reflexivity.
  Qed.

  Lemma rectclipD_range p r r64 ps : - 8 <= p <= 8 -> rect_is_empty r = false -> ps <> [] ->
    rect_range_ok (pow10 p) r = true -> scale_rect (pow10 p) r = Some r64 ->
    range_ok (pow10 p) (pow10 p) ps = false ->
    to_outcome (rectclipD true pow10 p r ps) = Thrown 64 /\
    to_outcome (rectclipD false pow10 p r ps) = Code 64 VEmpty.
  Proof.
    intros Hp Hre Hne Hrr Hr64 Hr. unfold rectclipD. rewrite Hre. destruct ps; [contradiction|]. cbn [orb].
    rewrite !(cpr_valid _ p 0 Hp). cbn [bind Z.eqb negb]. rewrite Hrr. cbn [negb]. rewrite Hr64.
    rewrite (scale_paths_range_on _ _ _ 0 Hr), (scale_paths_range_off _ _ _ 0 Hr). split; reflexivity.
  Qed.

  (* the rectangle itself *)
  Lemma rectclipD_rect_range p r ps : - 8 <= p <= 8 -> rect_is_empty r = false -> ps <> [] ->
    rect_range_ok (pow10 p) r = false ->
    to_outcome (rectclipD true pow10 p r ps) = Thrown 64 /\
    to_outcome (rectclipD false pow10 p r ps) = Code 64 VEmpty.
  Proof.
    intros Hp Hre Hne Hrr. unfold rectclipD. rewrite Hre. destruct ps; [contradiction|]. cbn [orb].
    rewrite !(cpr_valid _ p 0 Hp). cbn [bind Z.eqb negb]. rewrite Hrr. split; reflexivity.
  Qed.

  Lemma clipperD_range_on p S O C : - 8 <= p <= 8 ->
    range_ok (scaleD_model pow10 p) (scaleD_model pow10 p) S = false ->
    to_outcome (clipperD_run true pow10 p true true true S O C) = Thrown 64.
  Proof.
    intros Hp Hr. unfold clipperD_run, clipperD_ctor. rewrite (cpr_valid _ p 0 Hp). cbn [bind].
    rewrite (scale_paths_range_on _ _ _ 0 Hr). reflexivity.
  Qed.

  Lemma booleanopD_range_on p S C : - 8 <= p <= 8 ->
    range_ok (scaleD_model pow10 p) (scaleD_model pow10 p) S = false ->
    to_outcome (booleanopD true pow10 p S C) = Thrown 64.
  Proof.
    intros Hp Hr. unfold booleanopD. rewrite (cpr_valid _ p 0 Hp). cbn [bind Z.eqb negb].
    unfold clipperD_run, clipperD_ctor. rewrite (cpr_valid _ p 0 Hp). cbn [bind].
    rewrite (scale_paths_range_on _ _ _ 0 Hr). reflexivity.
  Qed.

  (* exceptions disabled: BooleanOp(PathsD) / Union(subjects) look at the ClipperD's code after the Add* calls and
     return nothing when either operand failed the range test *)
  Lemma booleanopD_range_off p S C : - 8 <= p <= 8 ->
    range_ok (scaleD_model pow10 p) (scaleD_model pow10 p) S = false \/
    range_ok (scaleD_model pow10 p) (scaleD_model pow10 p) C = false ->
    to_outcome (booleanopD false pow10 p S C) = Ok VEmpty.
  Proof.
    intros Hp Hr. unfold booleanopD. rewrite (cpr_valid _ p 0 Hp). cbn [bind Z.eqb negb].
    unfold clipperD_run, clipperD_ctor. rewrite (cpr_valid _ p 0 Hp). cbn [bind].
    set (s := scaleD_model pow10 p) in *.
    destruct Hr as [Hr|Hr].
    - rewrite (scale_paths_range_off _ _ _ 0 Hr). cbn [bind].
      destruct (scale_paths_E_off_acc s s C (Z.lor 0 64)) as [v [k E]]. rewrite E. cbn [bind after_adds].
      rewrite lor_lor64_nonzero. reflexivity.
    - destruct (scale_paths_E_off_acc s s S 0) as [v [k E]]. rewrite E. cbn [bind].
      rewrite (scale_paths_range_off _ _ _ _ Hr). cbn [bind after_adds].
      rewrite lor64_nonzero. reflexivity.
  Qed.

  Lemma union1D_range_off p S : - 8 <= p <= 8 ->
    range_ok (scaleD_model pow10 p) (scaleD_model pow10 p) S = false ->
    to_outcome (union1D false pow10 p S) = Ok VEmpty.
  Proof.
    intros Hp Hr. unfold union1D. rewrite (cpr_valid _ p 0 Hp). cbn [bind Z.eqb negb].
    unfold clipperD_run, clipperD_ctor. rewrite (cpr_valid _ p 0 Hp). cbn [bind].
    rewrite (scale_paths_range_off _ _ _ 0 Hr). cbn [bind after_adds]. reflexivity.
  Qed.

  (* TrimCollinear(PathD) and MinkowskiSum/Diff(PathD) go through ScalePath, which now has the test *)
  Lemma trimcollinearD_range p pth : - 8 <= p <= 8 -> feqb (pow10 p) 0 = false ->
    range_ok (pow10 p) (pow10 p) [pth] = false ->
    to_outcome (trimcollinearD true pow10 p pth) = Thrown 64 /\
    to_outcome (trimcollinearD false pow10 p pth) = Code 64 VEmpty.
  Proof.
    intros Hp Hz Hr. unfold trimcollinearD. rewrite !(cpr_valid _ p 0 Hp). cbn [bind Z.eqb negb].
    assert (Hz2 : feqb (pow10 p) 0 || feqb (pow10 p) 0 = false) by (rewrite Hz; reflexivity).
    rewrite (scale_path_range_on _ _ _ 0 Hz2 Hr), (scale_path_range_off _ _ _ 0 Hz2 Hr). split; reflexivity.
  Qed.

  Lemma minkowskiD_range p pat pth : - 8 <= p <= 8 -> feqb (pow10 p) 0 = false ->
    range_ok (pow10 p) (pow10 p) [pat] = false \/ range_ok (pow10 p) (pow10 p) [pth] = false ->
    (exists ec, minkowskiD true pow10 p pat pth = Throw 64 ec) /\
    (exists ec, minkowskiD false pow10 p pat pth = Val (ec, VEmpty) /\ Z.testbit ec 6 = true).
  Proof.
    intros Hp Hz Hr. unfold minkowskiD. rewrite !(cpr_valid _ p 0 Hp). cbn [bind Z.eqb negb].
    set (s := pow10 p) in *.
    assert (Hz2 : feqb s 0 || feqb s 0 = false) by (rewrite Hz; reflexivity).
    destruct Hr as [Hr|Hr].
    - rewrite (scale_path_range_on _ _ _ 0 Hz2 Hr), (scale_path_range_off _ _ _ 0 Hz2 Hr). cbn [bind].
      split; [eexists; reflexivity|].
      destruct (scale_path_E_off_acc s s pth (Z.lor 0 64)) as [v [k E]]. rewrite E. cbn [bind].
      rewrite lor_lor64_nonzero. cbn [negb]. eexists. split; [reflexivity|]. apply lor_lor64_bit6.
    - split.
      + unfold scale_path_E at 1. rewrite Hz2. unfold scale_path_ranged at 1.
        destruct (range_ok s s [pat]); cbn [negb bind do_error].
        * rewrite (scale_path_range_on _ _ _ 0 Hz2 Hr). eexists; reflexivity.
        * eexists; reflexivity.
      + destruct (scale_path_E_off_acc s s pat 0) as [v [k E]]. rewrite E. cbn [bind].
        rewrite (scale_path_range_off _ _ _ _ Hz2 Hr). cbn [bind]. rewrite lor64_nonzero. cbn [negb].
        eexists. split; [reflexivity|]. apply lor64_bit6.
  Qed.
End RangeReported.

Definition huge_sq : fpath := [(0%float, 0%float); (0x1p+300%float, 0%float); (10%float, 10%float); (0%float, 10%float)].
Definition nan_sq : fpath := [(0%float, 0%float); (nan, 0%float); (10%float, 10%float); (0%float, 10%float)].
(* 2^62 / 100: scaled by 100 it is far beyond MAX_COORD = 2^61-1 yet still an int64 *)
Definition big_sq : fpath := [(0%float, 0%float); (0x1.47ae147ae147bp+55%float, 0%float); (10%float, 10%float); (0%float, 10%float)].

(* the hypotheses of the range lemmas are satisfiable, and the former silent acceptances are now reported *)
Example range_hyps_sat :
  range_ok 100 100 [huge_sq] = false /\ range_ok 100 100 [big_sq] = false /\ in_coord_range (pow10_spec 2) [big_sq] = false /\
  rect_range_ok 100 (0%float, 0%float, 0x1p+300%float, 5%float) = false /\
  rect_range_ok 100 (0%float, 0%float, 5%float, 5%float) = true /\
  feqb (pow10_spec 2) 0 = false.
Proof. repeat split; vm_compute; reflexivity. Qed.

Example range_now_reported :
  (scale_path_E true 100 100 huge_sq 0 = Throw 64 64 /\ scale_path_E false 100 100 big_sq 0 = Val (Some [], 64)) /\
  (to_outcome (trimcollinearD true pow10_spec 2 big_sq) = Thrown 64 /\ to_outcome (trimcollinearD false pow10_spec 2 huge_sq) = Code 64 VEmpty) /\
  (to_outcome (minkowskiD true pow10_spec 2 tri big_sq) = Thrown 64 /\ to_outcome (minkowskiD false pow10_spec 2 tri huge_sq) = Code 64 VEmpty) /\
  (to_outcome (rectclipD true pow10_spec 2 (0%float, 0%float, 0x1p+300%float, 5%float) [sq]) = Thrown 64 /\
   to_outcome (rectclipD false pow10_spec 2 (0%float, 0%float, 0x1p+300%float, 5%float) [sq]) = Code 64 VEmpty) /\
  to_outcome (booleanopD false pow10_spec 2 [huge_sq] [sq]) = Ok VEmpty.
Proof. repeat split; vm_compute; reflexivity. Qed.

(* ClipperD used directly, exceptions disabled: the oversized subject is dropped (code 64 is set) and a result is
   computed from the remaining operands *)
Lemma clipperD_range_noexc :
  exists c, to_outcome (clipperD_run false pow10_spec 2 true true true [huge_sq] [] [sq]) = Code 64 (VCall c)
            /\ nth 2 (c_paths c) [] <> [].
Proof. eexists. split; [vm_compute; reflexivity|]. cbn. discriminate. Qed.

(* the C export of the same (BooleanOpD / BooleanOp_PolyTreeD never read ClipperD::ErrorCode()): return code 0 *)
Lemma export_booleanopD_range_noexc :
  exists c, export_booleanopD false pow10_spec 2 1 2 [huge_sq] [] [sq] = inl (Val (0, VCall c)) /\ nth 0 (c_paths c) [] = []
            /\ nth 2 (c_paths c) [] <> [].
Proof. eexists. split; [vm_compute; reflexivity|]. split; [reflexivity|]. cbn. discriminate. Qed.

(* NaN passes the range tests (all comparisons with NaN are false, GetBounds never selects it): undefined conversion,
   nothing reported, in both builds *)
Lemma scale_paths_nan_unchecked : forall exc, scale_paths_E exc 100 100 [nan_sq] 0 = Val (None, 0).
Proof. intros [|]; vm_compute; reflexivity. Qed.

Lemma scale_path_nan_unchecked : forall exc, scale_path_E exc 100 100 nan_sq 0 = Val (None, 0).
Proof. intros [|]; vm_compute; reflexivity. Qed.

Lemma booleanopD_nan_unchecked : forall exc, to_outcome (booleanopD exc pow10_spec 2 [nan_sq] [sq]) = Ok VUndef.
Proof. intros [|]; vm_compute; reflexivity. Qed.

Lemma rectclipD_rect_nan_unchecked :
  forall exc, to_outcome (rectclipD exc pow10_spec 2 (0%float, 0%float, nan, 5%float) [sq]) = Ok VUndef.
Proof. intros [|]; vm_compute; reflexivity. Qed.

(* the C exports convert with Point64(double,double) / ScaleRect and no range test *)
Lemma export_inflateD_range_unchecked :
  export_inflateD pow10_spec 2 [huge_sq] 1 0 = inl (Val (0, VUndef)) /\
  exists c, export_inflateD pow10_spec 2 [big_sq] 1 0 = inl (Val (0, VCall c)).
Proof. split; [vm_compute; reflexivity|]. eexists. vm_compute. reflexivity. Qed.

Lemma export_rectD_range_unchecked :
  export_rectD pow10_spec 2 (0%float, 0%float, 5%float, 5%float) [huge_sq] = inl (Val (0, VUndef)) /\
  export_rectD pow10_spec 2 (0%float, 0%float, 0x1p+300%float, 5%float) [sq] = inl (Val (0, VUndef)) /\
  exists c, export_rectD pow10_spec 2 (0%float, 0%float, 0x1.47ae147ae147bp+55%float, 5%float) [sq] = inl (Val (0, VCall c)).
Proof. split; [vm_compute; reflexivity|]. split; [vm_compute; reflexivity|]. eexists. vm_compute. reflexivity. Qed.

(* ---------- zero scale ---------- *)
Lemma scale_path_zero_on sx sy p ec : feqb sx 0 || feqb sy 0 = true ->
  scale_path_E true sx sy p ec = Throw 2 (Z.lor ec 2).
Proof. intros H. unfold scale_path_E. rewrite H. reflexivity. Qed.

Lemma descale_path_zero_on sx sy p ec : feqb sx 0 || feqb sy 0 = true ->
  descale_path_E true sx sy p ec = Throw 2 (Z.lor ec 2).
Proof. intros H. unfold descale_path_E. rewrite H. reflexivity. Qed.

Lemma polypathD_zero_on p : polypathD_child true 0 p = Throw 2 2.
Proof. reflexivity. Qed.

(* exceptions disabled: the error bit is set but the path is scaled by 1 and returned *)
Lemma scale_path_zero_off :
  scale_path_E false 0 0 [(1.5%float, 2%float)] 0 = Val (Some [(2, 2)], 2).
Proof. vm_compute; reflexivity. Qed.

(* PolyPathD::AddChild: even the error bit is lost *)
Lemma polypathD_zero_off :
  polypathD_child false 0 [(3, 4)] = Val (0, [(3%float, 4%float)]).
Proof. vm_compute; reflexivity. Qed.

(* ---------- odd count ---------- *)
Lemma make_path_odd_on vals : Z.odd (Z.of_nat (length vals)) = true -> make_path true vals = Throw 4 0.
Proof.
  intros H. unfold make_path.
  set (n := Z.of_nat (length vals)) in *.
  assert (Hm : n mod 2 = 1).
  { rewrite Zmod_odd. rewrite H. reflexivity. }
  rewrite Hm. replace (n =? n - 1) with false by (symmetry; apply Z.eqb_neq; lia). reflexivity.
Qed.

Lemma make_path_odd_off : make_path false [1; 2; 3] = Val [(1, 2)].
Proof. reflexivity. Qed.

Lemma make_path_even_ok exc vals : Z.odd (Z.of_nat (length vals)) = false -> exists p, make_path exc vals = Val p.
Proof.
  intros H. unfold make_path.
  set (n := Z.of_nat (length vals)) in *.
  assert (Hm : n mod 2 = 0).
  { rewrite Zmod_odd. rewrite H. reflexivity. }
  rewrite Hm. rewrite Z.sub_0_r, Z.eqb_refl. cbn [negb bind].
  clear. generalize (length vals). intros fuel. revert vals.
  induction fuel as [|f IH]; intros vals.
  - eexists; reflexivity.
  - destruct vals as [|x [|y r]]; try (eexists; reflexivity).
    destruct (IH r) as [t Ht]. exists ((x, y) :: t). rewrite Ht. reflexivity.
Qed.

(* ---------- export prologues ---------- *)
Lemma export_booleanopD_pre_spec ct fr p :
  export_booleanopD_pre ct fr p =
  if (p <? - 8) || (8 <? p) then Some (- 5) else if 4 <? ct then Some (- 4) else if 3 <? fr then Some (- 3) else None.
Proof. reflexivity. Qed.

Lemma export_booleanopD_rejects ct fr p :
  (exists rc, export_booleanopD_pre ct fr p = Some rc /\ rc < 0) <-> (ct > 4 \/ fr > 3 \/ ~ (- 8 <= p <= 8)).
Proof.
  unfold export_booleanopD_pre.
  destruct (p <? - 8) eqn:E1; destruct (8 <? p) eqn:E2; cbn [orb];
    destruct (4 <? ct) eqn:E3; destruct (3 <? fr) eqn:E4;
    split; intros H; try (eexists; split; [reflexivity|lia]); try lia;
    destruct H as [rc [H1 H2]]; try discriminate; lia.
Qed.

Lemma export_booleanopD_priority ct fr p :
  (~ (- 8 <= p <= 8) -> export_booleanopD_pre ct fr p = Some (- 5)) /\
  (- 8 <= p <= 8 -> ct > 4 -> export_booleanopD_pre ct fr p = Some (- 4)) /\
  (- 8 <= p <= 8 -> ct <= 4 -> fr > 3 -> export_booleanopD_pre ct fr p = Some (- 3)) /\
  (- 8 <= p <= 8 -> ct <= 4 -> fr <= 3 -> export_booleanopD_pre ct fr p = None).
Proof.
  unfold export_booleanopD_pre.
  destruct (p <? - 8) eqn:E1; destruct (8 <? p) eqn:E2; cbn [orb];
    destruct (4 <? ct) eqn:E3; destruct (3 <? fr) eqn:E4; repeat split; intros; try reflexivity; lia.
Qed.

Lemma export_booleanop64_rejects ct fr :
  (exists rc, export_booleanop64_pre ct fr = Some rc /\ rc < 0) <-> (ct > 4 \/ fr > 3).
Proof.
  unfold export_booleanop64_pre.
  destruct (4 <? ct) eqn:E3; destruct (3 <? fr) eqn:E4;
    split; intros H; try (eexists; split; [reflexivity|lia]); try lia;
    destruct H as [rc [H1 H2]]; try discriminate; lia.
Qed.

Lemma export_booleanop64_priority ct fr :
  (ct > 4 -> export_booleanop64_pre ct fr = Some (- 4)) /\
  (ct <= 4 -> fr > 3 -> export_booleanop64_pre ct fr = Some (- 3)) /\
  (ct <= 4 -> fr <= 3 -> export_booleanop64_pre ct fr = None).
Proof.
  unfold export_booleanop64_pre.
  destruct (4 <? ct) eqn:E3; destruct (3 <? fr) eqn:E4; repeat split; intros; try reflexivity; lia.
Qed.

Lemma export_pointer_rejects p r :
  (~ (- 8 <= p <= 8) -> export_inflateD_pre p false = true /\ export_rectD_pre r false p = true) /\
  (- 8 <= p <= 8 -> export_inflateD_pre p false = false).
Proof.
  unfold export_inflateD_pre, export_rectD_pre. destruct r as [[[l t] rr] b].
  destruct (p <? - 8) eqn:E1; destruct (8 <? p) eqn:E2; cbn [orb]; split; intros H; try lia;
    try (split; [reflexivity|]); try reflexivity;
    destruct (fleb rr l || fleb b t || false); reflexivity.
Qed.

(* ---------- NoClip ---------- *)
Lemma execute_noclip sweep fr inputs : execute sweep 0 fr inputs = (true, ([], [])).
Proof. reflexivity. Qed.

(* ====================================================================================================== *)
(* C16: the shape of the wrappers on valid input *)

Lemma scale_path_E_valid exc s p ec : feqb s 0 = false -> range_ok s s [p] = true ->
  scale_path_E exc s s p ec = Val (scale_path s s p, ec).
Proof. intros Hs Hr. unfold scale_path_E, scale_path_ranged. rewrite Hs, Hr. reflexivity. Qed.

Lemma scale_each_nonzero exc s ps ec : feqb s 0 = false -> each_range_ok s s ps = true ->
  scale_each exc s s ps ec = Val (scale_paths_raw s s ps, ec).
Proof.
  intros Hs. revert ec. induction ps as [|p r IH]; intros ec He; cbn [scale_each].
  - reflexivity.
  - unfold each_range_ok in He. cbn [forallb] in He. apply andb_true_iff in He. destruct He as [H1 H2].
    rewrite (scale_path_E_valid exc s p ec Hs H1). cbn [bind]. rewrite (IH ec H2). cbn [bind].
    unfold scale_paths_raw. cbn [opt_map]. reflexivity.
Qed.

(* ScalePaths on valid input: the test on the common bounds, then ScalePath's own test on every path *)
Lemma scale_paths_E_valid exc s ps ec : feqb s 0 = false -> range_ok s s ps = true -> each_range_ok s s ps = true ->
  scale_paths_E exc s s ps ec = Val (scale_paths_raw s s ps, ec).
Proof. intros Hs Hr He. unfold scale_paths_E. rewrite Hr. cbn [negb]. apply scale_each_nonzero; assumption. Qed.

Section Shape.
  Variable exc : bool.
  Variable pow10 : Z -> float.
  (* the hypothesis the run-time libm check discharges *)
  Hypothesis pow10_ok : forall p, - 8 <= p <= 8 -> pow10 p = pow10_spec p.

  Lemma scaleD_model_ok p : - 8 <= p <= 8 -> scaleD_model pow10 p = scaleD_spec p.
  Proof. intros H. unfold scaleD_model. rewrite (pow10_ok p H). apply (scaleD_model_spec p H). Qed.

  Definition value_of_spec (o : option call64) : value := match o with Some c => VCall c | None => VUndef end.

  (* "in range": ScalePaths' test on the common bounds and ScalePath's test on each path *)
  Definition all_range_ok (s : float) (ps : fpaths) : bool := range_ok s s ps && each_range_ok s s ps.

  Lemma all_range_ok_split s ps : all_range_ok s ps = true -> range_ok s s ps = true /\ each_range_ok s s ps = true.
  Proof. unfold all_range_ok. intros H. apply andb_true_iff in H. exact H. Qed.

  Lemma clipperD_shape p S O C : - 8 <= p <= 8 ->
    let s := scaleD_spec p in
    all_range_ok s S = true -> all_range_ok s O = true -> all_range_ok s C = true ->
    clipperD_run exc pow10 p true true true S O C = Val (0, value_of_spec (spec_call KPow2 p [S; O; C] None [])).
  Proof.
    intros Hp s HS HO HC. unfold clipperD_run, clipperD_ctor. rewrite (cpr_valid _ p 0 Hp). cbn [bind].
    rewrite (scaleD_model_ok p Hp). fold s.
    pose proof (good_scale_nonzero _ (scaleD_good p Hp)) as Hz. fold s in Hz.
    destruct (all_range_ok_split _ _ HS) as [HS1 HS2]. destruct (all_range_ok_split _ _ HO) as [HO1 HO2].
    destruct (all_range_ok_split _ _ HC) as [HC1 HC2].
    rewrite (scale_paths_E_valid exc s S 0 Hz HS1 HS2). cbn [bind].
    rewrite (scale_paths_E_valid exc s O 0 Hz HO1 HO2). cbn [bind].
    rewrite (scale_paths_E_valid exc s C 0 Hz HC1 HC2). cbn [bind].
    unfold spec_call, spec_scale. fold s. cbn [opt_map map].
    destruct (scale_paths_raw s s S), (scale_paths_raw s s O), (scale_paths_raw s s C); reflexivity.
  Qed.

  Lemma booleanopD_shape p S C : - 8 <= p <= 8 ->
    let s := scaleD_spec p in
    all_range_ok s S = true -> all_range_ok s C = true ->
    booleanopD exc pow10 p S C = Val (0, value_of_spec (spec_call KPow2 p [S; []; C] None [])).
  Proof.
    intros Hp s HS HC. unfold booleanopD. rewrite (cpr_valid _ p 0 Hp). cbn [bind Z.eqb negb].
    unfold clipperD_run, clipperD_ctor. rewrite (cpr_valid _ p 0 Hp). cbn [bind].
    rewrite (scaleD_model_ok p Hp). fold s.
    pose proof (good_scale_nonzero _ (scaleD_good p Hp)) as Hz. fold s in Hz.
    destruct (all_range_ok_split _ _ HS) as [HS1 HS2]. destruct (all_range_ok_split _ _ HC) as [HC1 HC2].
    rewrite (scale_paths_E_valid exc s S 0 Hz HS1 HS2). cbn [bind].
    rewrite (scale_paths_E_valid exc s C 0 Hz HC1 HC2). cbn [bind after_adds Z.eqb negb].
    unfold spec_call, spec_scale. fold s. cbn [opt_map map].
    change (scale_paths_raw s s []) with (@Some paths []).
    destruct (scale_paths_raw s s S), (scale_paths_raw s s C); reflexivity.
  Qed.

  Lemma union1D_shape p S : - 8 <= p <= 8 ->
    let s := scaleD_spec p in
    all_range_ok s S = true ->
    union1D exc pow10 p S = Val (0, value_of_spec (spec_call KPow2 p [S; []; []] None [])).
  Proof.
    intros Hp s HS. unfold union1D. rewrite (cpr_valid _ p 0 Hp). cbn [bind Z.eqb negb].
    unfold clipperD_run, clipperD_ctor. rewrite (cpr_valid _ p 0 Hp). cbn [bind].
    rewrite (scaleD_model_ok p Hp). fold s.
    pose proof (good_scale_nonzero _ (scaleD_good p Hp)) as Hz. fold s in Hz.
    destruct (all_range_ok_split _ _ HS) as [HS1 HS2].
    rewrite (scale_paths_E_valid exc s S 0 Hz HS1 HS2). cbn [bind after_adds Z.eqb negb].
    unfold spec_call, spec_scale. fold s. cbn [opt_map map].
    change (scale_paths_raw s s []) with (@Some paths []).
    destruct (scale_paths_raw s s S); reflexivity.
  Qed.

  (* delta and arc_tolerance are multiplied by the same scale as the coordinates; no special case for delta = 0 *)
  Lemma inflateD_shape p ps delta arc : - 8 <= p <= 8 ->
    let s := pow10_spec p in
    all_range_ok s ps = true ->
    inflateD exc pow10 p ps delta arc = Val (0, value_of_spec (spec_call KDec p [ps] None [delta; arc])).
  Proof.
    intros Hp s Hr. unfold inflateD. rewrite (cpr_valid _ p 0 Hp). cbn [bind Z.eqb negb].
    rewrite (pow10_ok p Hp). fold s.
    pose proof (good_scale_nonzero _ (pow10_good p Hp)) as Hz. fold s in Hz.
    destruct (all_range_ok_split _ _ Hr) as [Hr1 Hr2].
    rewrite (scale_paths_E_valid exc s _ 0 Hz Hr1 Hr2). cbn [bind Z.eqb negb].
    unfold spec_call, spec_scale. fold s. cbn [opt_map map]. unfold undef_or.
    destruct (scale_paths_raw s s ps); reflexivity.
  Qed.

  Lemma rectclipD_shape p r ps : - 8 <= p <= 8 -> rect_is_empty r = false -> ps <> [] ->
    let s := pow10_spec p in
    all_range_ok s ps = true ->
    rect_range_ok s r = true ->
    scale_rect s r <> None ->
    rectclipD exc pow10 p r ps = Val (0, value_of_spec (spec_call KDec p [ps] (Some r) [])).
  Proof.
    intros Hp Hre Hne s Hr Hrr Hrect. unfold rectclipD. rewrite Hre. destruct ps as [|p0 ps']; [contradiction|]. cbn [orb].
    rewrite (cpr_valid _ p 0 Hp). cbn [bind Z.eqb negb].
    rewrite (pow10_ok p Hp). fold s. rewrite Hrr. cbn [negb].
    pose proof (good_scale_nonzero _ (pow10_good p Hp)) as Hz. fold s in Hz.
    unfold spec_call, spec_scale. fold s.
    destruct (scale_rect s r) as [r64|] eqn:Er; [|contradiction].
    destruct (all_range_ok_split _ _ Hr) as [Hr1 Hr2].
    rewrite (scale_paths_E_valid exc s _ 0 Hz Hr1 Hr2). cbn [bind Z.eqb negb opt_map map]. unfold undef_or.
    destruct (scale_paths_raw s s (p0 :: ps')); reflexivity.
  Qed.

  Lemma trimcollinearD_shape p pth : - 8 <= p <= 8 ->
    let s := pow10_spec p in
    range_ok s s [pth] = true ->
    trimcollinearD exc pow10 p pth = Val (0, value_of_spec (spec_call KDec p [[pth]] None [])).
  Proof.
    intros Hp s Hr. unfold trimcollinearD. rewrite (cpr_valid _ p 0 Hp). cbn [bind Z.eqb negb].
    rewrite (pow10_ok p Hp). fold s.
    pose proof (good_scale_nonzero _ (pow10_good p Hp)) as Hz. fold s in Hz.
    rewrite (scale_path_E_valid exc s _ 0 Hz Hr). cbn [bind Z.eqb negb].
    unfold spec_call, spec_scale. fold s. cbn [opt_map map scale_paths_raw].
    destruct (scale_path s s pth); reflexivity.
  Qed.

  Lemma minkowskiD_shape p pat pth : - 8 <= p <= 8 ->
    let s := pow10_spec p in
    range_ok s s [pat] = true -> range_ok s s [pth] = true ->
    minkowskiD exc pow10 p pat pth = Val (0, value_of_spec (spec_call KDec p [[pat]; [pth]] None [])).
  Proof.
    intros Hp s Hr1 Hr2. unfold minkowskiD. rewrite (cpr_valid _ p 0 Hp). cbn [bind Z.eqb negb].
    rewrite (pow10_ok p Hp). fold s.
    pose proof (good_scale_nonzero _ (pow10_good p Hp)) as Hz. fold s in Hz.
    rewrite (scale_path_E_valid exc s pat 0 Hz Hr1). cbn [bind].
    rewrite (scale_path_E_valid exc s pth 0 Hz Hr2). cbn [bind Z.eqb negb].
    unfold spec_call, spec_scale. fold s. cbn [opt_map map scale_paths_raw].
    destruct (scale_path s s pat), (scale_path s s pth); reflexivity.
  Qed.
End Shape.

(* the shape hypotheses are satisfiable *)
Example shape_hyps_sat :
  all_range_ok (scaleD_spec 2) [sq] = true /\ all_range_ok (pow10_spec 2) [sq] = true /\
  range_ok (pow10_spec 2) (pow10_spec 2) [sq] = true /\ range_ok (pow10_spec 2) (pow10_spec 2) [tri] = true /\
  rect_is_empty (0%float, 0%float, 5%float, 5%float) = false /\
  rect_range_ok (pow10_spec 2) (0%float, 0%float, 5%float, 5%float) = true /\
  scale_rect (pow10_spec 2) (0%float, 0%float, 5%float, 5%float) <> None.
Proof. repeat split; try (vm_compute; reflexivity). vm_compute. discriminate. Qed.
