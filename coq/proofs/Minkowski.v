(* Proofs about model/Minkowski.v (property C19):
   A. the two index loops of detail::Minkowski compute structural functions over the rows of `tmp`
      (no out-of-bounds read, no fuel exhaustion);
   B. those are the specification list [para_quads] mapped through the orientation normalisation;
   C. consequences: parallelograms, per-quad reversal, non-negative exact area for small coordinates
      (binary64 Area exact), empty inputs, soundness of the sampled region checker. *)
From Coq Require Import ZArith List Bool Lia Floats Reals Lra Permutation.
From Clip Require Import base.Geom base.FloatModel base.Winding base.Dist model.Minkowski proofs.Core_float.
From Flocq Require Import Core.Core IEEE754.BinarySingleNaN IEEE754.PrimFloat.
Import ListNotations.
Local Open Scope Z_scope.

(* ================================================================== A. loops *)
Lemma areaF_quad a b c d : areaF [a; b; c; d] = MOk (area4F a b c d).
Proof. reflexivity. Qed.

Lemma orient_quad_4 a b c d : orient_quad [a; b; c; d] = MOk (orient4 [a; b; c; d]).
Proof.
  unfold orient_quad, is_positive. rewrite areaF_quad. cbn [orient4].
  destruct (fleb 0 (area4F a b c d)); reflexivity.
Qed.

Fixpoint row_quads (gh ih : pt) (rg ri : path) : paths :=
  match rg, ri with
  | gj :: rg', ij :: ri' => orient4 [gh; ih; ij; gj] :: row_quads gj ij rg' ri'
  | _, _ => []
  end.

Fixpoint rows_quads (rg : path) (rows : paths) : paths :=
  match rows with
  | ri :: rows' => row_quads (last rg (0, 0)) (last ri (0, 0)) rg ri ++ rows_quads ri rows'
  | [] => []
  end.

Lemma skipn_nth_cons {A} (l : list A) j x : nth_error l j = Some x -> skipn j l = x :: skipn (S j) l.
Proof.
  revert j; induction l as [|a l IH]; intros [|j] H; cbn in H; try discriminate.
  - injection H as ->. reflexivity.
  - cbn [skipn]. apply IH in H. rewrite H. reflexivity.
Qed.

Lemma nth_error_lt_some {A} (l : list A) j : (j < length l)%nat -> exists x, nth_error l j = Some x.
Proof.
  intros H. destruct (nth_error l j) eqn:E; [eauto|].
  apply nth_error_None in E. lia.
Qed.

Lemma nth_error_last {A} (l : list A) d : l <> [] -> nth_error l (length l - 1) = Some (last l d).
Proof.
  induction l as [|a l IH]; intros H; [congruence|].
  destruct l as [|b l]; [reflexivity|].
  cbn [length]. replace (S (S (length l)) - 1)%nat with (S (length (b :: l) - 1)) by (cbn [length]; lia).
  cbn [nth_error]. rewrite IH by discriminate. reflexivity.
Qed.

Lemma inner_loop_spec tmp g i rg ri :
  nth_error tmp g = Some rg -> nth_error tmp i = Some ri -> length rg = length ri ->
  forall k j h gh ih fuel,
    (j + k = length rg)%nat -> (k < fuel)%nat ->
    nth_error rg h = Some gh -> nth_error ri h = Some ih ->
    inner_loop fuel tmp (length rg) g i h j
    = MOk (if Nat.eqb k 0 then h else (length rg - 1)%nat, row_quads gh ih (skipn j rg) (skipn j ri)).
Proof.
  intros Hg Hi Hlen. induction k as [|k IH]; intros j h gh ih fuel Hj Hf Hgh Hih.
  - destruct fuel as [|f]; [lia|]. cbn [inner_loop].
    assert (E : (j <? length rg)%nat = false) by (apply Nat.ltb_ge; lia). rewrite E.
    rewrite (skipn_all2 rg) by lia. reflexivity.
  - destruct fuel as [|f]; [lia|]. cbn [inner_loop].
    assert (E : (j <? length rg)%nat = true) by (apply Nat.ltb_lt; lia). rewrite E.
    destruct (nth_error_lt_some rg j) as [gj Hgj]; [lia|].
    destruct (nth_error_lt_some ri j) as [ij Hij]; [lia|].
    unfold rd2, path. rewrite Hg, Hi, Hgh, Hih, Hij, Hgj.
    rewrite orient_quad_4.
    rewrite (IH (S j) j gj ij f) by (assumption || lia).
    rewrite (skipn_nth_cons rg j gj Hgj), (skipn_nth_cons ri j ij Hij).
    cbn [row_quads Nat.eqb]. f_equal. f_equal.
    destruct (Nat.eqb k 0) eqn:Ek; [apply Nat.eqb_eq in Ek; lia|reflexivity].
Qed.

Lemma outer_loop_spec tmp n :
  (1 <= n)%nat -> (forall row, In row tmp -> length row = n) ->
  forall k i g rg fuel,
    (i + k = length tmp)%nat -> (k < fuel)%nat -> nth_error tmp g = Some rg ->
    outer_loop fuel tmp n (length tmp) g (n - 1)%nat i = MOk (rows_quads rg (skipn i tmp)).
Proof.
  intros Hn Hrows. induction k as [|k IH]; intros i g rg fuel Hi Hf Hg.
  - destruct fuel as [|f]; [lia|]. cbn [outer_loop].
    assert (E : (i <? length tmp)%nat = false) by (apply Nat.ltb_ge; lia). rewrite E.
    rewrite skipn_all2 by lia. reflexivity.
  - destruct fuel as [|f]; [lia|]. cbn [outer_loop].
    assert (E : (i <? length tmp)%nat = true) by (apply Nat.ltb_lt; lia). rewrite E.
    destruct (nth_error_lt_some tmp i) as [ri Hri]; [lia|].
    assert (Lg : length rg = n) by (apply Hrows; eapply nth_error_In; eassumption).
    assert (Li : length ri = n) by (apply Hrows; eapply nth_error_In; eassumption).
    assert (Ng : rg <> []) by (intros ->; cbn in Lg; lia).
    assert (Ni : ri <> []) by (intros ->; cbn in Li; lia).
    pose proof (nth_error_last rg (0, 0) Ng) as Hlg. pose proof (nth_error_last ri (0, 0) Ni) as Hli.
    rewrite Lg in Hlg. rewrite Li in Hli.
    pose proof (inner_loop_spec tmp g i rg ri Hg Hri (eq_trans Lg (eq_sym Li))
                  n 0%nat (n - 1)%nat (last rg (0, 0)) (last ri (0, 0)) (S n)) as IL.
    rewrite Lg in IL. rewrite IL by (assumption || lia). clear IL.
    assert (En : Nat.eqb n 0 = false) by (apply Nat.eqb_neq; lia). rewrite En.
    rewrite (IH (S i) i ri f) by (assumption || lia).
    rewrite (skipn_nth_cons tmp i ri Hri). cbn [rows_quads skipn]. reflexivity.
Qed.

(* ================================================================== B. structural form = specification *)
Definition opara (s : bool) (e f : pt * pt) : path := orient4 (para s e f).

Lemma row_quads_translate s a a' pat bl :
  row_quads (mop s a bl) (mop s a' bl) (map (mop s a) pat) (map (mop s a') pat)
  = map (opara s (a, a')) (open_edges (bl :: pat)).
Proof.
  revert bl. induction pat as [|b pat IH]; intros bl; [reflexivity|].
  cbn [map row_quads]. rewrite IH. rewrite open_edges_cons2. reflexivity.
Qed.

Lemma last_map {A B} (f : A -> B) l d : l <> [] -> last (map f l) (f d) = f (last l d).
Proof.
  induction l as [|a l IH]; intros H; [congruence|].
  destruct l as [|b l]; [reflexivity|].
  change (map f (a :: b :: l)) with (f a :: map f (b :: l)).
  change (last (f a :: map f (b :: l)) (f d)) with (last (map f (b :: l)) (f d)).
  rewrite IH by discriminate. reflexivity.
Qed.

Lemma last_indep {A} (l : list A) d d' : l <> [] -> last l d = last l d'.
Proof.
  induction l as [|a l IH]; intros H; [congruence|].
  destruct l as [|b l]; [reflexivity|].
  change (last (a :: b :: l) d) with (last (b :: l) d). change (last (a :: b :: l) d') with (last (b :: l) d').
  apply IH. discriminate.
Qed.

Lemma row_quads_cyc s a a' pat : pat <> [] ->
  row_quads (last (translate s pat a) (0, 0)) (last (translate s pat a') (0, 0)) (translate s pat a) (translate s pat a')
  = map (opara s (a, a')) (cyc_edges_last pat).
Proof.
  intros H. unfold translate.
  assert (Ha : forall p, last (map (mop s p) pat) (0, 0) = mop s p (last pat (0, 0))).
  { intros p. rewrite (last_indep _ (0, 0) (mop s p (0, 0))) by (destruct pat; [congruence|discriminate]).
    apply last_map. exact H. }
  rewrite !Ha. rewrite row_quads_translate.
  destruct pat as [|b pat]; [congruence|].
  unfold cyc_edges_last. rewrite (last_indep (b :: pat) b (0, 0)) by discriminate. reflexivity.
Qed.

Lemma rows_quads_translate s pat : pat <> [] -> forall rest a,
  rows_quads (translate s pat a) (map (translate s pat) rest)
  = flat_map (fun e => map (opara s e) (cyc_edges_last pat)) (open_edges (a :: rest)).
Proof.
  intros H. induction rest as [|a' rest IH]; intros a; [reflexivity|].
  cbn [map rows_quads]. rewrite row_quads_cyc by exact H. rewrite IH.
  rewrite open_edges_cons2. reflexivity.
Qed.

Lemma map_flat_map_comm {A B C} (g : B -> C) (f : A -> list B) l :
  map g (flat_map f l) = flat_map (fun x => map g (f x)) l.
Proof. induction l as [|a l IH]; [reflexivity|]. cbn [flat_map]. rewrite map_app, IH. reflexivity. Qed.

Lemma opara_quads s c pat pth :
  flat_map (fun e => map (opara s e) (cyc_edges_last pat)) (path_edges c pth)
  = map orient4 (para_quads s c pat pth).
Proof.
  unfold para_quads. rewrite map_flat_map_comm. apply flat_map_ext. intros e.
  rewrite map_map. reflexivity.
Qed.

Lemma mk_tmp_rows s pat pth row : In row (mk_tmp s pat pth) -> length row = length pat.
Proof.
  unfold mk_tmp. intros H. apply in_map_iff in H. destruct H as (p & <- & _).
  unfold translate. apply map_length.
Qed.

(* the whole function: no error, and exactly the specification's parallelograms, each normalised by the
   float orientation test, in the code's order *)
Theorem minkowski_spec pat pth s c :
  minkowski pat pth s c = MOk (map orient4 (para_quads s c pat pth)).
Proof.
  unfold minkowski.
  destruct pat as [|b0 pat0] eqn:Epat.
  { cbn [length Nat.eqb orb]. unfold para_quads. cbn [cyc_edges_last map].
    induction (path_edges c pth) as [|e l IH]; [reflexivity|]. cbn [flat_map app]. exact IH. }
  destruct pth as [|a0 rest] eqn:Epth.
  { cbn [length Nat.eqb orb]. destruct c; reflexivity. }
  rewrite <- Epat, <- Epth.
  assert (Npat : pat <> []) by (rewrite Epat; discriminate).
  assert (Npth : pth <> []) by (rewrite Epth; discriminate).
  assert (E0 : (Nat.eqb (length pat) 0 || Nat.eqb (length pth) 0)%bool = false).
  { rewrite Epat, Epth. reflexivity. }
  rewrite E0.
  assert (Lt : @length (list pt) (mk_tmp s pat pth) = length pth) by apply map_length.
  assert (Hn : (1 <= length pat)%nat) by (rewrite Epat; cbn [length]; lia).
  rewrite <- opara_quads.
  pose proof (outer_loop_spec (mk_tmp s pat pth) (length pat) Hn (mk_tmp_rows s pat pth)) as OL.
  rewrite Lt in OL.
  destruct c.
  - (* closed: g = pathLen - 1, i = 0 *)
    assert (Hg : @nth_error (list pt) (mk_tmp s pat pth) (length pth - 1) = Some (translate s pat (last pth a0))).
    { rewrite <- Lt. rewrite (@nth_error_last (list pt) (mk_tmp s pat pth) (translate s pat a0)).
      - unfold mk_tmp. rewrite last_map by exact Npth. reflexivity.
      - unfold mk_tmp. rewrite Epth. discriminate. }
    rewrite (OL (length pth) 0%nat (length pth - 1)%nat (translate s pat (last pth a0)) (S (length pth))) by (exact Hg || lia).
    cbn [skipn]. f_equal. unfold path_edges.
    destruct pth as [|a1 r1]; [congruence|].
    change (cyc_edges_last (a1 :: r1)) with (open_edges (last (a1 :: r1) a1 :: a1 :: r1)).
    rewrite (last_indep (a1 :: r1) a0 a1) by discriminate.
    apply (rows_quads_translate s pat Npat (a1 :: r1) (last (a1 :: r1) a1)).
  - (* open: g = 0, i = 1 *)
    assert (Hg : @nth_error (list pt) (mk_tmp s pat pth) 0 = Some (translate s pat a0)) by (rewrite Epth; reflexivity).
    rewrite (OL (length pth - 1)%nat 1%nat 0%nat (translate s pat a0) (S (length pth))); [|rewrite Epth; cbn [length]; lia|lia|exact Hg].
    rewrite Epth. cbn [skipn mk_tmp map path_edges]. f_equal.
    apply (rows_quads_translate s pat Npat rest a0).
Qed.

(* ================================================================== C. consequences *)
(* ---------- C1. up to per-quad reversal ---------- *)
Definition rev_rel (q s : path) : Prop := q = s \/ q = rev s.

Lemma orient4_rel q : rev_rel (orient4 q) q.
Proof.
  unfold rev_rel. destruct q as [|a [|b [|c [|d [|e q]]]]]; cbn [orient4]; auto.
  destruct (fleb 0 (area4F a b c d)); auto.
Qed.

Lemma Forall2_map_l {A B} (R : B -> A -> Prop) (f : A -> B) l : (forall x, R (f x) x) -> Forall2 R (map f l) l.
Proof. intros H. induction l as [|a l IH]; constructor; auto. Qed.

Theorem minkowski_quads_rel pat pth s c :
  exists quads, minkowski pat pth s c = MOk quads /\ Forall2 rev_rel quads (para_quads s c pat pth).
Proof.
  eexists. split; [apply minkowski_spec|]. apply Forall2_map_l. apply orient4_rel.
Qed.

Theorem minkowski_no_error pat pth s c : exists quads, minkowski pat pth s c = MOk quads.
Proof. eexists. apply minkowski_spec. Qed.

Theorem minkowski_empty pat pth s c : pat = [] \/ pth = [] -> minkowski pat pth s c = MOk [] /\ para_quads s c pat pth = [].
Proof.
  intros [-> | ->].
  - split; [reflexivity|]. unfold para_quads. cbn [cyc_edges_last map].
    induction (path_edges c pth) as [|e l IH]; [reflexivity|exact IH].
  - split; [destruct pat; reflexivity|]. destruct c; reflexivity.
Qed.

Lemma length_para_quads s c pat pth :
  length (para_quads s c pat pth) = (length (path_edges c pth) * length (cyc_edges_last pat))%nat.
Proof.
  unfold para_quads. induction (path_edges c pth) as [|e l IH]; [reflexivity|].
  cbn [flat_map length]. rewrite app_length, map_length, IH. reflexivity.
Qed.

(* ---------- C2. the quads are the parallelograms spanned by a path edge and a pattern edge ---------- *)
Lemma in_para_quads s c pat pth q :
  In q (para_quads s c pat pth) <->
  exists e f, In e (path_edges c pth) /\ In f (cyc_edges_last pat) /\ q = para s e f.
Proof.
  unfold para_quads. rewrite in_flat_map. split.
  - intros (e & He & Hq). apply in_map_iff in Hq. destruct Hq as (f & <- & Hf). eauto.
  - intros (e & f & He & Hf & ->). exists e. split; [exact He|]. apply in_map. exact Hf.
Qed.

(* direction of the pattern edge as it appears in the quad: b'-b for the sum, -(b'-b) for the difference *)
Definition pdir (s : bool) (f : pt * pt) : pt := if s then psub (snd f) (fst f) else psub (fst f) (snd f).
Definition vcross (u v : pt) : Z := px u * py v - py u * px v.

Theorem para_is_parallelogram s a a' b b' :
  exists p0 p1 p2 p3, para s (a, a') (b, b') = [p0; p1; p2; p3]
    /\ p0 = mop s a b /\ p1 = mop s a' b /\ p2 = mop s a' b' /\ p3 = mop s a b'
    /\ psub p1 p0 = psub a' a /\ psub p2 p3 = psub a' a
    /\ psub p3 p0 = pdir s (b, b') /\ psub p2 p1 = pdir s (b, b').
Proof.
  do 4 eexists. split; [reflexivity|]. repeat split;
  destruct s, a, a', b, b'; unfold pdir; cbn [fst snd]; unfold mop, padd, psub, px, py; cbn [fst snd]; try reflexivity; f_equal; ring.
Qed.

Lemma area2_quad a b c d :
  area2 [a; b; c; d] = edge_area2 (a, b) + edge_area2 (b, c) + edge_area2 (c, d) + edge_area2 (d, a).
Proof. unfold area2. cbn [cyc_edges app open_edges map zsum]. lia. Qed.

Theorem para_area2 s a a' b b' :
  area2 (para s (a, a') (b, b')) = 2 * vcross (psub a' a) (pdir s (b, b')).
Proof.
  unfold para. cbn [fst snd]. rewrite area2_quad.
  destruct s, a, a', b, b'; unfold pdir; cbn [fst snd]; unfold edge_area2, vcross, mop, padd, psub, px, py; cbn [fst snd]; ring.
Qed.

Lemma area2_rev_quad a b c d : area2 (rev [a; b; c; d]) = - area2 [a; b; c; d].
Proof.
  cbn [rev app]. rewrite !area2_quad. unfold edge_area2.
  destruct a, b, c, d; unfold px, py; cbn [fst snd]; ring.
Qed.

Lemma open_edges_In a b l : In (a, b) (open_edges l) -> In a l /\ In b l.
Proof.
  induction l as [|x l IH]; [intros []|]. destruct l as [|y l]; [intros []|].
  rewrite open_edges_cons2. intros [E | H].
  - injection E as <- <-. split; [left; reflexivity|right; left; reflexivity].
  - destruct (IH H) as [Ha Hb]. split; right; assumption.
Qed.

Lemma last_In {A} (l : list A) d : l <> [] -> In (last l d) l.
Proof.
  induction l as [|a l IH]; intros H; [congruence|].
  destruct l as [|b l]; [left; reflexivity|]. right. apply IH. discriminate.
Qed.

Lemma cyc_edges_last_In a b l : In (a, b) (cyc_edges_last l) -> In a l /\ In b l.
Proof.
  destruct l as [|x l]; [intros []|]. unfold cyc_edges_last. intros H.
  apply open_edges_In in H. destruct H as [Ha Hb].
  assert (L : In (last (x :: l) x) (x :: l)) by (apply last_In; discriminate).
  split; [destruct Ha as [<- | Ha]|destruct Hb as [<- | Hb]]; assumption.
Qed.

Lemma path_edges_In c a b l : In (a, b) (path_edges c l) -> In a l /\ In b l.
Proof. destruct c; [apply cyc_edges_last_In|apply open_edges_In]. Qed.

(* the path edges are pairs of consecutive path points *)
Lemma open_edges_consecutive e l : In e (open_edges l) ->
  exists i, nth_error l i = Some (fst e) /\ nth_error l (S i) = Some (snd e).
Proof.
  induction l as [|x l IH]; [intros []|]. destruct l as [|y l]; [intros []|].
  rewrite open_edges_cons2. intros [<- | H].
  - exists 0%nat. split; reflexivity.
  - destruct (IH H) as (i & H1 & H2). exists (S i). split; assumption.
Qed.

(* ---------- C3. binary64 Area is exact on small coordinates: emitted quads have non-negative area ---------- *)
Lemma half_fin : BinarySingleNaN.is_finite (Prim2B 0.5%float) = true.
Proof. vm_compute. reflexivity. Qed.

Lemma half_R : B2R (Prim2B 0.5%float) = (/ 2)%R.
Proof.
  assert (E : Prim2SF 0.5%float = S754_finite false 4503599627370496 (-53)) by (vm_compute; reflexivity).
  rewrite <- (SF2R_B2SF prec emax (Prim2B 0.5%float)). rewrite B2SF_Prim2B. rewrite E.
  unfold SF2R, F2R. cbn [Fnum Fexp cond_Zopp bpow]. 
  change (Z.pow_pos radix2 53) with (9007199254740992).
  lra.
Qed.

(* f = z exactly, |z| <= 2^53:  (f * 0.5 >= 0)  <->  z >= 0 *)
Lemma fint_half_leb f z : fint f z -> small z -> (0 <=? f * 0.5)%float = (0 <=? z).
Proof.
  intros [Ff Rf] S.
  rewrite leb_equiv, mul_equiv.
  pose proof (Bmult_correct prec emax Hprec Hmax mode_NE (Prim2B f) (Prim2B 0.5%float)) as C.
  rewrite Rf, half_R in C.
  set (x := (IZR z * / 2)%R) in *.
  set (r := round radix2 (fexp prec emax) (round_mode mode_NE) x) in *.
  assert (Hx : (Rabs x <= bpow radix2 52)%R).
  { unfold x. rewrite Rabs_mult, <- abs_IZR. rewrite (Rabs_pos_eq (/ 2)) by lra.
    assert (IZR (Z.abs z) <= IZR (2 ^ 53))%R by (apply IZR_le; exact S).
    rewrite <- bpow53 in H. change (bpow radix2 53) with (bpow radix2 (52 + 1)) in H.
    rewrite bpow_plus in H. change (bpow radix2 1) with 2%R in H. lra. }
  assert (Hr : (Rabs r <= bpow radix2 52)%R).
  { apply abs_round_le_generic; [apply fexp_correct; reflexivity|apply valid_rnd_round_mode| |exact Hx].
    apply generic_format_bpow. unfold fexp, emin, FLT_exp, prec, emax. lia. }
  assert (Hlt : Rlt_bool (Rabs r) (bpow radix2 emax) = true).
  { apply Rlt_bool_true. apply Rle_lt_trans with (1 := Hr). apply bpow_lt. unfold emax. lia. }
  rewrite Hlt in C. destruct C as (C1 & C2 & _). rewrite Ff, half_fin in C2.
  assert (F0 : is_finite (Prim2B 0%float) = true) by (vm_compute; reflexivity).
  rewrite (Bleb_correct _ _ _ _ F0 C2), C1.
  assert (R0 : B2R (Prim2B 0%float) = 0%R) by (apply (proj2 fint_zero)).
  rewrite R0.
  destruct (0 <=? z) eqn:E.
  - apply Rle_bool_true. unfold r.
    apply round_ge_generic; [apply fexp_correct; reflexivity|apply valid_rnd_round_mode|apply generic_format_0|].
    unfold x. assert (0 <= IZR z)%R by (apply IZR_le; lia). lra.
  - apply Rle_bool_false. unfold r.
    apply Rle_lt_trans with (- bpow radix2 (-1))%R.
    + apply round_le_generic; [apply fexp_correct; reflexivity|apply valid_rnd_round_mode| |].
      * apply generic_format_opp, generic_format_bpow. unfold fexp, emin, FLT_exp, prec, emax. lia.
      * unfold x. change (bpow radix2 (-1)) with (/ 2)%R.
        assert (IZR z <= -1)%R by (apply IZR_le; lia). lra.
    + change (bpow radix2 (-1)) with (/ 2)%R. lra.
Qed.

Definition term2 (p q : pt) : Z := (py p + py q) * (px p - px q).

Lemma abs_mul_le a b A B : Z.abs a <= A -> Z.abs b <= B -> Z.abs (a * b) <= A * B.
Proof.
  intros Ha Hb. rewrite Z.abs_mul.
  apply Z.mul_le_mono_nonneg; [apply Z.abs_nonneg|exact Ha|apply Z.abs_nonneg|exact Hb].
Qed.

Definition pair_small (p q : pt) : Prop := Z.abs (py p + py q) <= 2 ^ 26 /\ Z.abs (px p - px q) <= 2 ^ 25.

Lemma term2_small p q : pair_small p q -> Z.abs (term2 p q) <= 2 ^ 51.
Proof.
  intros [H1 H2]. unfold term2. change (2 ^ 51) with (2 ^ 26 * 2 ^ 25). apply abs_mul_le; assumption.
Qed.

Lemma area_term_fint p q : pair_small p q -> fint (area_term p q) (term2 p q).
Proof.
  intros H. pose proof (term2_small p q H) as T. destruct H as [H1 H2].
  unfold area_term, term2. apply fint_mul; [apply Z2F_fint|apply Z2F_fint|]; unfold small, term2 in *; lia.
Qed.

Lemma area4F_sign a b c d :
  pair_small d a -> pair_small a b -> pair_small b c -> pair_small c d ->
  fleb 0 (area4F a b c d) = (0 <=? area2 [a; b; c; d]).
Proof.
  intros H1 H2 H3 H4.
  pose proof (term2_small _ _ H1) as T1. pose proof (term2_small _ _ H2) as T2.
  pose proof (term2_small _ _ H3) as T3. pose proof (term2_small _ _ H4) as T4.
  assert (E : area2 [a; b; c; d] = 0 + term2 d a + term2 a b + term2 b c + term2 c d).
  { rewrite area2_quad. unfold edge_area2, term2. lia. }
  rewrite E. unfold area4F, fleb.
  apply fint_half_leb; [|unfold small; lia].
  repeat (apply fint_add; [| |unfold small; lia]); try (apply area_term_fint; assumption).
  apply fint_zero.
Qed.

Definition coords_le (B : Z) (p : path) : Prop := forall v, In v p -> Z.abs (px v) <= B /\ Z.abs (py v) <= B.

Lemma para_pairs_small s a a' b b' :
  (forall v, In v [a; a'; b; b'] -> Z.abs (px v) <= 2 ^ 24 /\ Z.abs (py v) <= 2 ^ 24) ->
  let p0 := mop s a b in let p1 := mop s a' b in let p2 := mop s a' b' in let p3 := mop s a b' in
  pair_small p3 p0 /\ pair_small p0 p1 /\ pair_small p1 p2 /\ pair_small p2 p3.
Proof.
  intros H.
  destruct (H a) as [A1 A2]; [cbn; auto|]. destruct (H a') as [A3 A4]; [cbn; auto|].
  destruct (H b) as [B1 B2]; [cbn; auto|]. destruct (H b') as [B3 B4]; [cbn; auto 6|].
  change (2 ^ 24) with 16777216 in *.
  destruct s, a, a', b, b'; unfold pair_small, mop, padd, psub, px, py in *; cbn [fst snd] in *;
  change (2 ^ 26) with 67108864; change (2 ^ 25) with 33554432; repeat split; lia.
Qed.

(* under the bound the float orientation test is the exact one *)
Theorem orient4_exact s c pat pth P :
  coords_le (2 ^ 24) pat -> coords_le (2 ^ 24) pth -> In P (para_quads s c pat pth) ->
  orient4 P = if 0 <=? area2 P then P else rev P.
Proof.
  intros Hpat Hpth HP. apply in_para_quads in HP. destruct HP as ([a a'] & [b b'] & He & Hf & ->).
  apply path_edges_In in He. apply cyc_edges_last_In in Hf.
  destruct (para_pairs_small s a a' b b') as (S1 & S2 & S3 & S4).
  { intros v [<- | [<- | [<- | [<- | []]]]]; [apply Hpth|apply Hpth|apply Hpat|apply Hpat]; tauto. }
  unfold para. cbn [fst snd orient4]. rewrite area4F_sign by assumption. reflexivity.
Qed.

Theorem minkowski_quads_positive pat pth s c quads :
  coords_le (2 ^ 24) pat -> coords_le (2 ^ 24) pth ->
  minkowski pat pth s c = MOk quads -> forall q, In q quads -> 0 <= area2 q.
Proof.
  intros Hpat Hpth HM q Hq. rewrite minkowski_spec in HM. injection HM as <-.
  apply in_map_iff in Hq. destruct Hq as (P & <- & HP).
  rewrite (orient4_exact s c pat pth P Hpat Hpth HP).
  destruct (0 <=? area2 P) eqn:E; [lia|].
  apply in_para_quads in HP. destruct HP as (e & f & _ & _ & ->).
  unfold para. rewrite area2_rev_quad. unfold para in E. lia.
Qed.

(* ---------- C4. membership is invariant under the per-quad reversal and scaling ---------- *)
Lemma ltb_opp_l x : (- x <? 0) = (0 <? x).
Proof. destruct (- x <? 0) eqn:E1, (0 <? x) eqn:E2; lia. Qed.
Lemma ltb_opp_r x : (0 <? - x) = (x <? 0).
Proof. destruct (0 <? - x) eqn:E1, (x <? 0) eqn:E2; lia. Qed.

Lemma in_para_rev l q : in_para (rev l) q = in_para l q.
Proof.
  destruct l as [|a [|b [|c [|d [|e l]]]]]; try reflexivity.
  - cbn [rev app in_para].
    rewrite (cross_swap12 c d q), (cross_swap12 b c q), (cross_swap12 a b q), (cross_swap12 d a q).
    rewrite !ltb_opp_l, !ltb_opp_r.
    generalize (0 <? cross a b q) (0 <? cross b c q) (0 <? cross c d q) (0 <? cross d a q)
               (cross a b q <? 0) (cross b c q <? 0) (cross c d q <? 0) (cross d a q <? 0).
    intros [] [] [] [] [] [] [] []; reflexivity.
  - (* five or more points: neither list has exactly four *)
    assert (H : forall m : path, (5 <= length m)%nat -> in_para m q = false).
    { intros [|x1 [|x2 [|x3 [|x4 [|x5 m]]]]] Hm; cbn [length] in Hm; try lia; reflexivity. }
    rewrite !H; [reflexivity|cbn [length]; lia|rewrite rev_length; cbn [length]; lia].
Qed.

Lemma in_para_orient4_scale k P q : in_para (map (pscale k) (orient4 P)) q = in_para (map (pscale k) P) q.
Proof.
  destruct (orient4_rel P) as [-> | ->]; [reflexivity|]. rewrite map_rev. apply in_para_rev.
Qed.

Lemma in_some_orient4_scale k Q q : in_some (scalek k (map orient4 Q)) q = in_some (scalek k Q) q.
Proof.
  unfold in_some, scalek. induction Q as [|P Q IH]; [reflexivity|].
  cbn [map existsb]. rewrite IH, in_para_orient4_scale. reflexivity.
Qed.

(* ---------- C5. soundness of the sampled checker ---------- *)
Theorem check_mink_sound tn td quads out pts :
  check_mink tn td quads out pts = [] ->
  forall q, In q pts -> far_from tn td (edges_closed quads) q = true ->
  wn_paths out q = (if in_some quads q then 1 else 0).
Proof.
  unfold check_mink, mink_fails, mink_eval. intros H q Hq Hfar.
  induction pts as [|p pts IH]; [destruct Hq|].
  cbn [flat_map] in H. rewrite filter_app in H. apply app_eq_nil in H. destruct H as [H1 H2].
  destruct Hq as [-> | Hq]; [|apply IH; assumption].
  rewrite Hfar in H1. cbn [filter mink_bad] in H1.
  destruct (wn_paths out q =? (if in_some quads q then 1 else 0)) eqn:E; cbn [negb] in H1; [|discriminate].
  apply Z.eqb_eq. exact E.
Qed.

(* the statement in the property's words: result winding <> 0 <=> the point is in some parallelogram, and
   a covered point is covered exactly once *)
Corollary check_mink_region tn td quads out pts :
  check_mink tn td quads out pts = [] ->
  forall q, In q pts -> far_from tn td (edges_closed quads) q = true ->
  (wn_paths out q <> 0 <-> in_some quads q = true) /\ (in_some quads q = true -> wn_paths out q = 1).
Proof.
  intros H q Hq Hfar. pose proof (check_mink_sound tn td quads out pts H q Hq Hfar) as E.
  destruct (in_some quads q); rewrite E; split; try split; try discriminate; try reflexivity; intros; congruence || lia.
Qed.

(* the oracle entry point: the evaluated quads are the model's = the specification's parallelograms *)
Theorem check_minkowski_sound pat pth s c k tn td out2 pts2 ev :
  check_minkowski pat pth s c k tn td out2 pts2 = MOk ev -> mink_fails ev = [] ->
  forall q, In q pts2 ->
  far_from tn td (edges_closed (scalek k (map orient4 (para_quads s c pat pth)))) q = true ->
  (wn_paths out2 q <> 0 <-> in_some (scalek k (para_quads s c pat pth)) q = true)
  /\ (in_some (scalek k (para_quads s c pat pth)) q = true -> wn_paths out2 q = 1).
Proof.
  unfold check_minkowski. rewrite minkowski_spec. intros E. injection E as <-. intros HF q Hq Hfar.
  rewrite <- in_some_orient4_scale. apply (check_mink_region tn td _ out2 pts2 HF q Hq Hfar).
Qed.

(* ---------- C6. cyclic edges in the code's order are the cyclic edges of base/Geom.v, rotated ---------- *)
Lemma open_edges_last_first l x : l <> [] -> open_edges (last l x :: l) = (last l x, hd x l) :: open_edges l.
Proof. destruct l as [|a l]; [congruence|]. intros _. reflexivity. Qed.

Lemma open_edges_snoc1 x y m : open_edges ((x :: m) ++ [y]) = open_edges (x :: m) ++ [(last (x :: m) x, y)].
Proof.
  revert x. induction m as [|z m IHm]; intros x; [reflexivity|].
  change ((x :: z :: m) ++ [y]) with (x :: ((z :: m) ++ [y])).
  change ((z :: m) ++ [y]) with (z :: (m ++ [y])). rewrite open_edges_cons2.
  change (z :: (m ++ [y])) with ((z :: m) ++ [y]). rewrite IHm.
  rewrite open_edges_cons2. cbn [app].
  rewrite (last_indep (z :: m) z x) by discriminate. reflexivity.
Qed.

Lemma cyc_edges_split a l : cyc_edges (a :: l) = open_edges (a :: l) ++ [(last (a :: l) a, a)].
Proof. unfold cyc_edges. apply open_edges_snoc1. Qed.

Theorem cyc_edges_last_perm p : Permutation (cyc_edges_last p) (cyc_edges p).
Proof.
  destruct p as [|a l]; [constructor|].
  rewrite cyc_edges_split. unfold cyc_edges_last.
  rewrite open_edges_last_first by discriminate. cbn [hd].
  apply Permutation_cons_append.
Qed.

(* ---------- C7. no int64 overflow for |coordinates| <= 2^60 ---------- *)
Lemma in_i64_small z : Z.abs z <= 2 ^ 62 -> in_i64 z = true.
Proof. intros H. unfold in_i64. apply andb_true_intro. split; [apply Z.leb_le|apply Z.ltb_lt]; lia. Qed.

Theorem minkowski_ub_free_bound pat pth s c :
  coords_le (2 ^ 60) pat -> coords_le (2 ^ 60) pth -> minkowski_ub_free pat pth s c = true.
Proof.
  intros Hpat Hpth. unfold minkowski_ub_free. apply andb_true_intro. split.
  - apply forallb_forall. intros row Hrow. unfold mk_tmp in Hrow. apply in_map_iff in Hrow.
    destruct Hrow as (a & <- & Ha). apply forallb_forall. intros v Hv. unfold translate in Hv.
    apply in_map_iff in Hv. destruct Hv as (b & <- & Hb).
    destruct (Hpth a Ha) as [A1 A2]. destruct (Hpat b Hb) as [B1 B2].
    change (2 ^ 60) with 1152921504606846976 in *.
    unfold pt_i64. apply andb_true_intro.
    split; apply in_i64_small; change (2 ^ 62) with 4611686018427387904;
    destruct s, a, b; unfold mop, padd, psub, px, py in *; cbn [fst snd] in *; lia.
  - apply forallb_forall. intros P HP. apply in_para_quads in HP.
    destruct HP as ([a a'] & [b b'] & He & Hf & ->).
    apply path_edges_In in He. apply cyc_edges_last_In in Hf.
    destruct He as [Ha Ha']. destruct Hf as [Hb Hb'].
    destruct (Hpth a Ha) as [A1 A2]. destruct (Hpth a' Ha') as [A3 A4].
    destruct (Hpat b Hb) as [B1 B2]. destruct (Hpat b' Hb') as [B3 B4].
    change (2 ^ 60) with 1152921504606846976 in *.
    unfold area_ub_free, para. cbn [fst snd cyc_edges app open_edges forallb term_i64].
    rewrite !andb_true_r.
    unfold in_i64. change (2 ^ 63) with 9223372036854775808.
    repeat (apply andb_true_intro; split); first [apply Z.leb_le | apply Z.ltb_lt];
    destruct s, a, a', b, b'; unfold mop, padd, psub, px, py in *; cbn [fst snd] in *; lia.
Qed.

(* ---------- satisfiability of the hypotheses / sanity ---------- *)
Example coords_le_sat :
  coords_le (2 ^ 24) [(16777216, -16777216); (0, 5); (-7, 16777216)] /\
  exists quads, minkowski [(16777216, -16777216); (0, 5); (-7, 16777216)] [(16777216, 16777216); (-16777216, 3)] false true = MOk quads
                /\ length quads = 6%nat.
Proof.
  split.
  - intros v [<- | [<- | [<- | []]]]; unfold px, py; cbn [fst snd]; split; vm_compute; discriminate.
  - eexists. split; [vm_compute; reflexivity|reflexivity].
Qed.

(* the bound in [minkowski_quads_positive] cannot be raised to 2^27: the binary64 Area of a thin quad
   (exact twice-area -2) evaluates to a non-negative double, so the quad is emitted with negative orientation *)
Theorem quads_positive_fails_beyond :
  exists pat pth quads q,
    coords_le (2 ^ 27) pat /\ coords_le (2 ^ 27) pth /\
    minkowski pat pth true false = MOk quads /\ In q quads /\ area2 q < 0.
Proof.
  exists [(0, 0); (-75110867, 4266284)], [(56941013, -102020953); (26228893, -100276510)].
  eexists. exists [(-18169854, -97754669); (-48881974, -96010226); (26228893, -100276510); (56941013, -102020953)].
  split; [|split; [|split; [vm_compute; reflexivity|split; [left; reflexivity|vm_compute; reflexivity]]]].
  - intros v [<- | [<- | []]]; unfold px, py; cbn [fst snd]; split; vm_compute; discriminate.
  - intros v [<- | [<- | []]]; unfold px, py; cbn [fst snd]; split; vm_compute; discriminate.
Qed.

(* ---------- C8. the cross-product membership test in the winding-number vocabulary of base/Winding.v:
   strictly inside a parallelogram the winding number of the quad is +1 (positive orientation) or -1 ---------- *)
Lemma pos_div D x r : 0 < D -> D * x = r -> (0 < r -> 0 < x) /\ (r < 0 -> x < 0).
Proof. intros HD E. split; intros H; nia. Qed.

Lemma one_upward D c0 c3 uy vy wy :
  0 < D -> 0 < c0 < D -> 0 < c3 < D -> D * wy = c3 * uy + c0 * vy -> (uy <> 0 \/ vy <> 0) ->
  (if (0 <=? wy) && (wy <? uy) then 1 else 0)
  + (if (uy <=? wy) && (wy <? uy + vy) then 1 else 0)
  + (if (uy + vy <=? wy) && (wy <? vy) then 1 else 0)
  + (if (vy <=? wy) && (wy <? 0) then 1 else 0) = 1.
Proof.
  intros HD H0 H3 HI HN.
  assert (P1 : 0 < D - c0) by lia. assert (P3 : 0 < D - c3) by lia.
  destruct (pos_div D wy (c3 * uy + c0 * vy) HD HI) as [R0p R0n].
  assert (E1 : D * (wy - uy) = - (D - c3) * uy + c0 * vy) by nia.
  assert (E2 : D * (wy - uy - vy) = - (D - c3) * uy - (D - c0) * vy) by nia.
  assert (E3 : D * (wy - vy) = c3 * uy - (D - c0) * vy) by nia.
  destruct (pos_div D _ _ HD E1) as [R1p R1n].
  destruct (pos_div D _ _ HD E2) as [R2p R2n].
  destruct (pos_div D _ _ HD E3) as [R3p R3n].
  assert (F : (0 < uy \/ uy = 0 \/ uy < 0) /\ (0 < vy \/ vy = 0 \/ vy < 0)) by lia.
  destruct F as [[U | [U | U]] [V | [V | V]]];
  try (assert (0 < c3 * uy + c0 * vy) by nia; specialize (R0p ltac:(assumption)));
  try (assert (c3 * uy + c0 * vy < 0) by nia; specialize (R0n ltac:(assumption)));
  try (assert (0 < - (D - c3) * uy + c0 * vy) by nia; specialize (R1p ltac:(assumption)));
  try (assert (- (D - c3) * uy + c0 * vy < 0) by nia; specialize (R1n ltac:(assumption)));
  try (assert (0 < - (D - c3) * uy - (D - c0) * vy) by nia; specialize (R2p ltac:(assumption)));
  try (assert (- (D - c3) * uy - (D - c0) * vy < 0) by nia; specialize (R2n ltac:(assumption)));
  try (assert (0 < c3 * uy - (D - c0) * vy) by nia; specialize (R3p ltac:(assumption)));
  try (assert (c3 * uy - (D - c0) * vy < 0) by nia; specialize (R3n ltac:(assumption)));
  try lia;
  destruct (0 <=? wy) eqn:A1, (wy <? uy) eqn:A2, (uy <=? wy) eqn:A3, (wy <? uy + vy) eqn:A4,
           (uy + vy <=? wy) eqn:A5, (wy <? vy) eqn:A6, (vy <=? wy) eqn:A7, (wy <? 0) eqn:A8; cbn [andb]; lia.
Qed.

Lemma edge_w_pos a b q : 0 < cross a b q ->
  edge_w q (a, b) = if (py a <=? py q) && (py q <? py b) then 1 else 0.
Proof.
  intros H. unfold edge_w.
  assert (E1 : (0 <? cross a b q) = true) by (apply Z.ltb_lt; exact H).
  assert (E2 : (cross a b q <? 0) = false) by (apply Z.ltb_ge; lia).
  rewrite E1, E2.
  destruct ((py a <=? py q) && (py q <? py b)); [reflexivity|].
  destruct ((py b <=? py q) && (py q <? py a)); reflexivity.
Qed.

Lemma wn_pgram_pos p0 p1 p2 p3 q :
  padd p0 p2 = padd p1 p3 ->
  0 < cross p0 p1 q -> 0 < cross p1 p2 q -> 0 < cross p2 p3 q -> 0 < cross p3 p0 q ->
  wn [p0; p1; p2; p3] q = 1.
Proof.
  intros HP C0 C1 C2 C3.
  unfold wn, wsum. cbn [cyc_edges app open_edges map zsum].
  rewrite (edge_w_pos _ _ _ C0), (edge_w_pos _ _ _ C1), (edge_w_pos _ _ _ C2), (edge_w_pos _ _ _ C3).
  destruct p0 as [x0 y0], p1 as [x1 y1], p2 as [x2 y2], p3 as [x3 y3], q as [qx qy].
  unfold padd, px, py in HP; cbn [fst snd] in HP. injection HP as HX HY.
  unfold cross, px, py in *; cbn [fst snd] in *.
  assert (x2 = x1 + x3 - x0) by lia. assert (y2 = y1 + y3 - y0) by lia. subst x2 y2. clear HX HY.
  set (uy := y1 - y0). set (vy := y3 - y0). set (wy := qy - y0).
  set (c0 := (x1 - x0) * (qy - y1) - (y1 - y0) * (qx - x1)) in *.
  set (c3 := (x0 - x3) * (qy - y0) - (y0 - y3) * (qx - x0)) in *.
  set (c2 := (x3 - (x1 + x3 - x0)) * (qy - y3) - (y3 - (y1 + y3 - y0)) * (qx - x3)) in *.
  set (c1 := (x1 + x3 - x0 - x1) * (qy - (y1 + y3 - y0)) - (y1 + y3 - y0 - y1) * (qx - (x1 + x3 - x0))) in *.
  pose (D := (x1 - x0) * (y3 - y0) - (y1 - y0) * (x3 - x0)).
  assert (HD0 : c0 + c2 = D) by (unfold c0, c2, D; ring).
  assert (HD1 : c1 + c3 = D) by (unfold c1, c3, D; ring).
  assert (HI : D * wy = c3 * uy + c0 * vy) by (unfold D, wy, c3, c0, uy, vy; ring).
  assert (HN : uy <> 0 \/ vy <> 0).
  { destruct (Z.eq_dec uy 0) as [Eu|Eu]; [|left; exact Eu]. destruct (Z.eq_dec vy 0) as [Ev|Ev]; [|right; exact Ev].
    exfalso. unfold uy in Eu. unfold vy in Ev. assert (D = 0) by (unfold D; rewrite Eu, Ev; ring). lia. }
  pose proof (one_upward D c0 c3 uy vy wy ltac:(lia) ltac:(lia) ltac:(lia) HI HN) as K.
  replace (y0 <=? qy) with (0 <=? wy) by (unfold wy; lia).
  replace (qy <? y1) with (wy <? uy) by (unfold wy, uy; lia).
  replace (y1 <=? qy) with (uy <=? wy) by (unfold wy, uy; lia).
  replace (qy <? y1 + y3 - y0) with (wy <? uy + vy) by (unfold wy, uy, vy; lia).
  replace (y1 + y3 - y0 <=? qy) with (uy + vy <=? wy) by (unfold wy, uy, vy; lia).
  replace (qy <? y3) with (wy <? vy) by (unfold wy, vy; lia).
  replace (y3 <=? qy) with (vy <=? wy) by (unfold wy, vy; lia).
  replace (qy <? y0) with (wy <? 0) by (unfold wy; lia).
  lia.
Qed.

Lemma wn_pgram_neg p0 p1 p2 p3 q :
  padd p0 p2 = padd p1 p3 ->
  cross p0 p1 q < 0 -> cross p1 p2 q < 0 -> cross p2 p3 q < 0 -> cross p3 p0 q < 0 ->
  wn [p0; p1; p2; p3] q = -1.
Proof.
  intros HP C0 C1 C2 C3.
  assert (R : wn (rev [p0; p1; p2; p3]) q = 1).
  { cbn [rev app]. apply wn_pgram_pos.
    - destruct p0, p1, p2, p3; unfold padd, px, py in *; cbn [fst snd] in *. injection HP as HX HY. f_equal; lia.
    - rewrite (cross_swap12 p2 p3 q). lia.
    - rewrite (cross_swap12 p1 p2 q). lia.
    - rewrite (cross_swap12 p0 p1 q). lia.
    - rewrite (cross_swap12 p3 p0 q). lia. }
  rewrite wn_rev in R. lia.
Qed.

Lemma para_pgram_scaled k s e f :
  match map (pscale k) (para s e f) with
  | [p0; p1; p2; p3] => padd p0 p2 = padd p1 p3
  | _ => False
  end.
Proof.
  destruct e as [a a'], f as [b b']. unfold para. cbn [fst snd map].
  destruct s, a, a', b, b'; unfold mop, padd, psub, pscale, px, py; cbn [fst snd]; f_equal; ring.
Qed.

Theorem in_para_wn k s e f q :
  in_para (map (pscale k) (para s e f)) q = true ->
  wn (map (pscale k) (para s e f)) q = 1 \/ wn (map (pscale k) (para s e f)) q = -1.
Proof.
  pose proof (para_pgram_scaled k s e f) as HP.
  destruct (map (pscale k) (para s e f)) as [|p0 [|p1 [|p2 [|p3 [|p4 l]]]]]; try contradiction.
  cbn [in_para]. intros H. apply orb_true_iff in H. destruct H as [H | H].
  - rewrite !andb_true_iff, !Z.ltb_lt in H. destruct H as [[[C0 C1] C2] C3].
    left. apply wn_pgram_pos; assumption.
  - rewrite !andb_true_iff, !Z.ltb_lt in H. destruct H as [[[C0 C1] C2] C3].
    right. apply wn_pgram_neg; assumption.
Qed.

(* every point the membership test accepts has a non-zero winding number around one of the parallelograms *)
Theorem in_some_wn_some k s c pat pth q :
  in_some (scalek k (para_quads s c pat pth)) q = true ->
  exists P, In P (para_quads s c pat pth) /\
            (wn (map (pscale k) P) q = 1 \/ wn (map (pscale k) P) q = -1).
Proof.
  unfold in_some, scalek. rewrite existsb_exists. intros (P' & HP' & Hin).
  apply in_map_iff in HP'. destruct HP' as (P & <- & HP).
  exists P. split; [exact HP|].
  apply in_para_quads in HP. destruct HP as (e & f & _ & _ & ->). apply in_para_wn. exact Hin.
Qed.

(* ---------- packaged statements used by props/Properties_C19.v ---------- *)
Theorem minkowski_quads_spec pat pth s c :
  exists quads, minkowski pat pth s c = MOk quads
    /\ quads = map orient4 (para_quads s c pat pth)
    /\ Forall2 rev_rel quads (para_quads s c pat pth)
    /\ length quads = (length (path_edges c pth) * length (cyc_edges_last pat))%nat.
Proof.
  eexists. split; [apply minkowski_spec|]. split; [reflexivity|]. split.
  - apply Forall2_map_l, orient4_rel.
  - rewrite map_length. apply length_para_quads.
Qed.

Lemma cyc_edges_last_cases e p d :
  In e (cyc_edges_last p) -> (p <> [] /\ e = (last p d, hd d p)) \/ In e (open_edges p).
Proof.
  destruct p as [|a l]; [intros []|]. unfold cyc_edges_last.
  rewrite open_edges_last_first by discriminate. intros [<- | H]; [left|right; exact H].
  split; [discriminate|]. cbn [hd]. rewrite (last_indep (a :: l) a d) by discriminate. reflexivity.
Qed.

(* which pairs of points are path edges: consecutive points, and the closing pair (last, first) iff closed *)
Theorem path_edges_consecutive c pth e d :
  In e (path_edges c pth) ->
  (exists i, nth_error pth i = Some (fst e) /\ nth_error pth (S i) = Some (snd e))
  \/ (c = true /\ pth <> [] /\ e = (last pth d, hd d pth)).
Proof.
  destruct c; cbn [path_edges]; intros H.
  - destruct (cyc_edges_last_cases e pth d H) as [[N E] | H']; [right; auto|left; apply open_edges_consecutive; exact H'].
  - left. apply open_edges_consecutive. exact H.
Qed.

Theorem para_quads_parallelogram s c pat pth q :
  In q (para_quads s c pat pth) ->
  exists a a' b b',
    In (a, a') (path_edges c pth) /\ In (b, b') (cyc_edges_last pat) /\
    q = [mop s a b; mop s a' b; mop s a' b'; mop s a b'] /\
    psub (mop s a' b) (mop s a b) = psub a' a /\ psub (mop s a' b') (mop s a b') = psub a' a /\
    psub (mop s a b') (mop s a b) = pdir s (b, b') /\ psub (mop s a' b') (mop s a' b) = pdir s (b, b') /\
    area2 q = 2 * vcross (psub a' a) (pdir s (b, b')).
Proof.
  intros H. apply in_para_quads in H. destruct H as ([a a'] & [b b'] & He & Hf & ->).
  exists a, a', b, b'. split; [exact He|]. split; [exact Hf|]. split; [reflexivity|].
  destruct (para_is_parallelogram s a a' b b') as (p0 & p1 & p2 & p3 & E & -> & -> & -> & -> & H1 & H2 & H3 & H4).
  repeat split; try assumption. apply para_area2.
Qed.

(* a real run (MinkowskiSum of a triangle along a closed triangle; the result has a hole): the checker accepts it *)
(* the membership test agrees with the winding numbers of the parallelograms on that run *)
Example check_minkowski_sat :
  exists ev, check_minkowski [(0,0); (20,0); (0,20)] [(100,100); (200,100); (150,300)] true true 2 4 1
               (scalek 2 [[(200,100); (220,100); (170,300); (150,320); (100,120); (100,100)]; [(125,120); (160,260); (195,120)]])
               [(301,401); (211,221); (1001,1001); (200,200)] = MOk ev
             /\ mink_fails ev = [] /\ length ev = 3%nat /\ length (mink_inside ev) = 1%nat.
Proof. eexists. split; [vm_compute; reflexivity|]. repeat split. Qed.

(* ... and rejects the result with the hole filled *)
Example check_minkowski_rejects :
  exists ev, check_minkowski [(0,0); (20,0); (0,20)] [(100,100); (200,100); (150,300)] true true 2 4 1
               (scalek 2 [[(200,100); (220,100); (170,300); (150,320); (100,120); (100,100)]])
               [(301,401); (211,221); (1001,1001); (200,200)] = MOk ev
             /\ mink_fails ev = [((301,401), 1, false)].
Proof. eexists. split; [vm_compute; reflexivity|]. reflexivity. Qed.

Theorem minkowski_partial pat pth s c :
  exists quads,
    minkowski pat pth s c = MOk quads
    /\ Forall2 rev_rel quads (para_quads s c pat pth)
    /\ (forall k ptk, in_some (scalek k quads) ptk = in_some (scalek k (para_quads s c pat pth)) ptk)
    /\ (pat = [] \/ pth = [] -> quads = [])
    /\ (forall k tn td outk ptsk ev,
          check_minkowski pat pth s c k tn td outk ptsk = MOk ev -> mink_fails ev = [] ->
          forall q, In q ptsk -> far_from tn td (edges_closed (scalek k quads)) q = true ->
          (wn_paths outk q <> 0 <-> in_some (scalek k (para_quads s c pat pth)) q = true)
          /\ (in_some (scalek k (para_quads s c pat pth)) q = true -> wn_paths outk q = 1)).
Proof.
  exists (map orient4 (para_quads s c pat pth)).
  split; [apply minkowski_spec|]. split; [apply Forall2_map_l, orient4_rel|].
  split; [intros; apply in_some_orient4_scale|]. split.
  - intros H. destruct (minkowski_empty pat pth s c H) as [_ ->]. reflexivity.
  - intros k tn td out2 pts2 ev. apply check_minkowski_sound.
Qed.
