(* SimplifyPath: the fuelled, bounds-checked model never returns ErrOOB / ErrFuel (for any distance type,
   distance function and comparison), returns a subsequence, and keeps the end points of open paths. *)
From Coq Require Import ZArith List Bool Lia Arith.
From Clip Require Import base.Geom model.PathUtils proofs.PathUtilsBase proofs.PathUtilsFlags proofs.PathUtilsTrim.
Import ListNotations.
Local Open Scope nat_scope.

Lemma sublist_skipn_S {A} i (p : list A) : sublist (skipn (S i) p) (skipn i p).
Proof.
  revert p; induction i as [|i IH]; intros p.
  - destruct p; cbn [skipn]; [apply sl_nil|apply sl_skip, sublist_refl].
  - destruct p as [|x p]; [apply sl_nil|]. change (skipn (S (S i)) (x :: p)) with (skipn (S i) p).
    change (skipn (S i) (x :: p)) with (skipn i p). apply IH.
Qed.

Lemma collect_sublist want n : forall i (p : path) fl r, collect want n i p fl = Ok r -> sublist r (skipn i p).
Proof.
  induction n as [|n IH]; intros i p fl r H; cbn [collect] in H.
  - inversion H. apply sublist_nil_l.
  - apply bind_Ok in H as (f & Hf & H). destruct (Bool.eqb f want).
    + apply bind_Ok in H as (a & Ha & H). apply bind_Ok in H as (r' & Hr & H). inversion H; subst.
      apply rd_Ok in Ha. rewrite (skipn_nth_cons _ _ _ Ha). apply sl_keep. eapply IH; eassumption.
    + eapply sublist_trans; [eapply IH; eassumption|apply sublist_skipn_S].
Qed.

Lemma combine_app_eq {A B} (l1 l2 : list A) (m1 m2 : list B) :
  length l1 = length m1 -> combine (l1 ++ l2) (m1 ++ m2) = combine l1 m1 ++ combine l2 m2.
Proof.
  revert m1; induction l1 as [|x l1 IH]; intros [|y m1] H; cbn [length] in H; try discriminate; [reflexivity|].
  cbn [app combine]. f_equal. apply IH. lia.
Qed.

Lemma last_pt_snoc (l : path) z : last_pt (l ++ [z]) = Some z.
Proof. destruct l as [|a t]; [reflexivity|]. cbn [app last_pt]. f_equal. apply last_last. Qed.

Section Simp.
  Variable D : Type.
  Variable d2 : pt -> pt -> pt -> D.
  Variable ltD : D -> D -> bool.
  Variable dmax dzero : D.

  Theorem simplify_subseq p e c r : simplify_gen pt D d2 ltD dmax dzero p e c = Ok r -> sublist r p.
  Proof.
    unfold simplify_gen. destruct (length p <? 3); intros H.
    - inversion H. apply sublist_refl.
    - apply bind_Ok in H as (fl & _ & H). apply collect_sublist in H. exact H.
  Qed.

  (* ---------------------------------------------------------------- the loop *)
  Variable p : path.
  Variable high : nat.
  Hypothesis Hp : length p = S high.
  Variable closed : bool.
  Variable eps : D.

  Record inv (fl : list bool) (ds : list D) (curr : nat) : Prop := {
    inv_fl : length fl = S high;
    inv_ds : length ds = S high;
    inv_curr : curr <= high;
    inv_unfl : unflagged fl curr }.

  (* cyclic distance from c forward to start (a full turn when c = start) *)
  Definition mdist (start c : nat) : nat := if c <? start then start - c else S high - c + start.

  Lemma simp_seek_ok fl ds start :
    length fl = S high -> length ds = S high -> start <= high -> unflagged fl start ->
    forall fuel c, c <= high -> mdist start c <= fuel ->
    exists r, simp_seek D ltD fuel start c high fl ds eps = Ok r /\
              forall c', r = Some c' ->
                c' <= high /\ unflagged fl c' /\ exists d, nth_error ds c' = Some d /\ ltD eps d = false.
  Proof.
    intros Hfl Hds Hs Hus. induction fuel as [|fuel IH]; intros c Hc Hm.
    - exfalso. unfold mdist in Hm. destruct (c <? start) eqn:E; [apply Nat.ltb_lt in E|apply Nat.ltb_ge in E]; lia.
    - cbn [simp_seek].
      destruct (get_next_spec fl high Hfl c start Hc Hs Hus) as (c' & Hn & Hc' & Hu' & Hcase).
      rewrite Hn. cbn [bind]. destruct (c' =? start) eqn:E.
      + exists None. split; [reflexivity|]. intros ? H; discriminate.
      + apply Nat.eqb_neq in E.
        destruct (rd_lt ds c' ltac:(lia)) as [d Hd]. rewrite Hd. cbn [bind].
        destruct (ltD eps d) eqn:El.
        * apply IH; [exact Hc'|].
          (* the cyclic distance to start strictly decreases *)
          unfold mdist in *.
          destruct Hcase as [[H1 H2]|(H1 & H2 & H3)].
          -- destruct (c <? start) eqn:E1; [apply Nat.ltb_lt in E1|apply Nat.ltb_ge in E1].
             ++ assert (c' <= start).
                { destruct (le_lt_dec c' start); [assumption|]. exfalso.
                  eapply flagged_not_unflagged; [apply (H2 start); lia|exact Hus]. }
                destruct (c' <? start) eqn:E2; [apply Nat.ltb_lt in E2|apply Nat.ltb_ge in E2]; lia.
             ++ destruct (c' <? start) eqn:E2; [apply Nat.ltb_lt in E2|apply Nat.ltb_ge in E2]; lia.
          -- assert (start <= c).
             { destruct (le_lt_dec start c); [assumption|]. exfalso.
               eapply flagged_not_unflagged; [apply (H2 start); lia|exact Hus]. }
             assert (c' <= start).
             { destruct (le_lt_dec c' start); [assumption|]. exfalso.
               eapply flagged_not_unflagged; [apply (H3 start); lia|exact Hus]. }
             destruct (c <? start) eqn:E1; [apply Nat.ltb_lt in E1; lia|].
             destruct (c' <? start) eqn:E2; [apply Nat.ltb_lt in E2|apply Nat.ltb_ge in E2]; lia.
        * exists (Some c'). split; [reflexivity|]. intros c'' H; inversion H; subst c''.
          split; [exact Hc'|]. split; [exact Hu'|]. exists d. split; [apply rd_Ok; exact Hd|exact El].
  Qed.

  (* a guarded recomputation of one distSqr entry *)
  Lemma dist_upd_ok (cond : bool) ds i j k :
    length ds = S high -> i <= high -> j <= high -> k <= high ->
    exists ds', (if cond then a <- rd p i ;; b <- rd p j ;; c <- rd p k ;; upd ds i (d2 a b c) else Ok ds) = Ok ds' /\
                length ds' = S high /\ (forall m, m <> i -> nth_error ds' m = nth_error ds m) /\
                (cond = false -> ds' = ds).
  Proof.
    intros Hds Hi Hj Hk. destruct cond.
    - destruct (rd_lt p i ltac:(lia)) as [a ->]. destruct (rd_lt p j ltac:(lia)) as [b ->].
      destruct (rd_lt p k ltac:(lia)) as [c ->]. cbn [bind].
      destruct (upd_lt ds i (d2 a b c) ltac:(lia)) as [ds' Hu]. exists ds'. split; [exact Hu|].
      split; [rewrite (upd_length _ _ _ _ Hu); exact Hds|]. split; [|discriminate].
      intros m Hm. eapply upd_nth_other; eassumption.
    - exists ds. repeat split; auto.
  Qed.

  (* what one iteration does *)
  Definition step_post (fl : list bool) (ds : list D) (s : step_res D) : Prop :=
    match s with
    | Break fl' => fl' = fl
    | Continue fl' ds' curr' =>
      inv fl' ds' curr' /\
      exists f, upd fl f true = Ok fl' /\ unflagged fl f /\
        (exists d, nth_error ds f = Some d /\
                   (ltD eps d = false \/ exists d', ltD d d' = true /\ ltD eps d' = false)) /\
        (closed = false -> nth_error ds' 0 = nth_error ds 0 /\ nth_error ds' high = nth_error ds high)
    end.

  Lemma simp_step_ok fl ds curr : inv fl ds curr ->
    exists s, simp_step pt D d2 ltD p high closed eps fl ds curr = Ok s /\ step_post fl ds s.
  Proof.
    intros [Hfl Hds Hc Hu]. unfold simp_step.
    destruct (rd_lt ds curr ltac:(lia)) as [dc Hdc]. rewrite Hdc. cbn [bind].
    assert (Hseek : exists oc,
      (if ltD eps dc then simp_seek D ltD (S (S high)) curr curr high fl ds eps else Ok (Some curr)) = Ok oc /\
      forall c1, oc = Some c1 ->
        c1 <= high /\ unflagged fl c1 /\ exists d, nth_error ds c1 = Some d /\ ltD eps d = false).
    { destruct (ltD eps dc) eqn:E.
      - apply (simp_seek_ok fl ds curr Hfl Hds Hc Hu); [exact Hc|].
        unfold mdist. rewrite Nat.ltb_irrefl. lia.
      - exists (Some curr). split; [reflexivity|]. intros c1 H; inversion H; subst c1.
        split; [exact Hc|]. split; [exact Hu|]. exists dc. split; [apply rd_Ok; exact Hdc|exact E]. }
    destruct Hseek as (oc & Hoc & Hpost). rewrite Hoc. cbn [bind].
    destruct oc as [c1|]; [|exists (Break fl); split; reflexivity].
    destruct (Hpost c1 eq_refl) as (Hc1 & Hu1 & d1 & Hd1 & Hle1).
    destruct (get_prior_spec fl high Hfl c1 c1 Hc1 Hc1 Hu1) as (pr & Hgp & Hpr). rewrite Hgp. cbn [bind].
    destruct (get_next_spec fl high Hfl c1 c1 Hc1 Hc1 Hu1) as (nx & Hgn & Hnx). rewrite Hgn. cbn [bind].
    destruct (nx =? pr) eqn:Enp; [exists (Break fl); split; reflexivity|].
    apply Nat.eqb_neq in Enp.
    destruct Hpr as (Hpr1 & Hpr2 & Hpr3). pose proof Hnx as (Hnx1 & Hnx2 & Hnx3).
    assert (Hnc : nx <> c1).
    { intros ->. apply Enp. destruct (Nat.eq_dec pr c1) as [->|Hne]; [reflexivity|exfalso].
      eapply flagged_not_unflagged; [apply (next_spec_self _ _ _ Hnx pr); assumption|exact Hpr2]. }
    destruct (rd_lt ds nx ltac:(lia)) as [dn Hdn]. rewrite Hdn. cbn [bind].
    rewrite (proj2 (rd_Ok ds c1 d1) Hd1). cbn [bind].
    destruct (ltD dn d1) eqn:Esw.
    - (* the next vertex is flagged *)
      destruct (get_next_spec fl high Hfl nx nx Hnx1 Hnx1 Hnx2) as (n2 & Hg2 & Hn2). rewrite Hg2. cbn [bind].
      destruct (upd_lt fl nx true ltac:(lia)) as [fl' Hfl']. rewrite Hfl'. cbn [bind].
      assert (Hlen' : length fl' = S high) by (rewrite (upd_length _ _ _ _ Hfl'); exact Hfl).
      pose proof Hn2 as (Hn21 & Hn22 & _).
      assert (Hn2ne : n2 <> nx).
      { intros ->. eapply flagged_not_unflagged; [apply (next_spec_self _ _ _ Hn2 pr); auto|exact Hpr2]. }
      assert (Hun2 : unflagged fl' n2) by (eapply unflagged_upd_other; eassumption).
      destruct (get_next_spec fl' high Hlen' n2 n2 Hn21 Hn21 Hun2) as (n3 & Hg3 & Hn3 & _). rewrite Hg3. cbn [bind].
      destruct (dist_upd_ok (closed || (negb (n2 =? high) && negb (n2 =? 0))) ds n2 c1 n3 Hds Hn21 Hc1 Hn3)
        as (ds1 & -> & Hl1 & Ho1 & Hs1). cbn [bind].
      destruct (dist_upd_ok (closed || (negb (c1 =? 0) && negb (c1 =? high))) ds1 c1 pr n2 Hl1 Hc1 Hpr1 Hn21)
        as (ds2 & -> & Hl2 & Ho2 & Hs2). cbn [bind].
      exists (Continue fl' ds2 n2). split; [reflexivity|]. cbn [step_post]. split; [constructor; assumption|].
      exists nx. split; [exact Hfl'|]. split; [exact Hnx2|]. split.
      { exists dn. split; [apply rd_Ok; exact Hdn|]. right. exists d1. split; assumption. }
      intros Hcl. subst closed. cbn [orb] in *.
      split.
      + destruct (c1 =? 0) eqn:E1; [rewrite (Hs2 eq_refl)|rewrite Ho2 by (apply Nat.eqb_neq in E1; lia)];
        (destruct (n2 =? 0) eqn:E2; [rewrite Hs1 by (rewrite andb_false_r; reflexivity); reflexivity
                                    |apply Ho1; apply Nat.eqb_neq in E2; lia]).
      + destruct (c1 =? high) eqn:E1; [rewrite Hs2 by (rewrite andb_false_r; reflexivity)
                                      |rewrite Ho2 by (apply Nat.eqb_neq in E1; lia)];
        (destruct (n2 =? high) eqn:E2; [rewrite (Hs1 eq_refl); reflexivity
                                       |apply Ho1; apply Nat.eqb_neq in E2; lia]).
    - (* the current vertex is flagged *)
      destruct (get_prior_spec fl high Hfl pr pr Hpr1 Hpr1 Hpr2) as (p2 & Hg2 & Hp2 & _). rewrite Hg2. cbn [bind].
      destruct (upd_lt fl c1 true ltac:(lia)) as [fl' Hfl']. rewrite Hfl'. cbn [bind].
      assert (Hlen' : length fl' = S high) by (rewrite (upd_length _ _ _ _ Hfl'); exact Hfl).
      assert (Hunx : unflagged fl' nx) by (eapply unflagged_upd_other; eassumption).
      destruct (get_next_spec fl' high Hlen' nx nx Hnx1 Hnx1 Hunx) as (n3 & Hg3 & Hn3 & _). rewrite Hg3. cbn [bind].
      destruct (dist_upd_ok (closed || (negb (nx =? high) && negb (nx =? 0))) ds nx pr n3 Hds Hnx1 Hpr1 Hn3)
        as (ds1 & -> & Hl1 & Ho1 & Hs1). cbn [bind].
      destruct (dist_upd_ok (closed || (negb (pr =? 0) && negb (pr =? high))) ds1 pr p2 nx Hl1 Hpr1 Hp2 Hnx1)
        as (ds2 & -> & Hl2 & Ho2 & Hs2). cbn [bind].
      exists (Continue fl' ds2 nx). split; [reflexivity|]. cbn [step_post]. split; [constructor; assumption|].
      exists c1. split; [exact Hfl'|]. split; [exact Hu1|]. split.
      { exists d1. split; [exact Hd1|]. left. exact Hle1. }
      intros Hcl. subst closed. cbn [orb] in *.
      split.
      + destruct (pr =? 0) eqn:E1; [rewrite (Hs2 eq_refl)|rewrite Ho2 by (apply Nat.eqb_neq in E1; lia)];
        (destruct (nx =? 0) eqn:E2; [rewrite Hs1 by (rewrite andb_false_r; reflexivity); reflexivity
                                    |apply Ho1; apply Nat.eqb_neq in E2; lia]).
      + destruct (pr =? high) eqn:E1; [rewrite Hs2 by (rewrite andb_false_r; reflexivity)
                                      |rewrite Ho2 by (apply Nat.eqb_neq in E1; lia)];
        (destruct (nx =? high) eqn:E2; [rewrite (Hs1 eq_refl); reflexivity
                                       |apply Ho1; apply Nat.eqb_neq in E2; lia]).
  Qed.

  (* ---------------------------------------------------------------- the for(;;) loop *)
  Lemma simp_loop_ok (R : list bool -> list D -> Prop) :
    (forall fl ds fl' ds' c', inv fl ds c' \/ True -> step_post fl ds (Continue fl' ds' c') -> R fl ds -> R fl' ds') ->
    forall fuel fl ds curr, inv fl ds curr -> R fl ds -> count_false fl < fuel ->
    exists fl' ds', simp_loop pt D d2 ltD fuel p high closed eps fl ds curr = Ok fl' /\
                    length fl' = S high /\ R fl' ds'.
  Proof.
    intros HR. induction fuel as [|fuel IH]; intros fl ds curr Hinv HRfl Hcnt; [lia|].
    cbn [simp_loop]. destruct (simp_step_ok fl ds curr Hinv) as (s & Hs & Hpost). rewrite Hs. cbn [bind].
    destruct s as [fl' ds' c'|fl'].
    - pose proof Hpost as (Hinv' & f & Hupd & Huf & _).
      apply (IH fl' ds' c' Hinv').
      + eapply HR; [right; exact I|exact Hpost|exact HRfl].
      + pose proof (count_false_upd _ _ _ Huf Hupd). lia.
    - cbn [step_post] in Hpost. subst fl'. exists fl, ds. split; [reflexivity|]. split; [apply Hinv|exact HRfl].
  Qed.

  (* ---------------------------------------------------------------- initial distances *)
  Lemma simp_init_mid_ok : forall n i ds, length ds = S high -> 1 <= i -> i + n <= high ->
    exists ds', simp_init_mid pt D d2 n i p ds = Ok ds' /\ length ds' = S high /\
                (forall m, m < i \/ i + n <= m -> nth_error ds' m = nth_error ds m).
  Proof.
    induction n as [|n IH]; intros i ds Hds Hi Hn; cbn [simp_init_mid].
    - exists ds. repeat split; auto.
    - destruct (rd_lt p i ltac:(lia)) as [a ->]. destruct (rd_lt p (i - 1) ltac:(lia)) as [b ->].
      destruct (rd_lt p (S i) ltac:(lia)) as [c ->]. cbn [bind].
      destruct (upd_lt ds i (d2 a b c) ltac:(lia)) as [ds1 Hu]. rewrite Hu. cbn [bind].
      destruct (IH (S i) ds1 ltac:(rewrite (upd_length _ _ _ _ Hu); exact Hds) ltac:(lia) ltac:(lia))
        as (ds' & H1 & H2 & H3).
      exists ds'. split; [exact H1|]. split; [exact H2|].
      intros m Hm. rewrite H3 by lia. eapply upd_nth_other; [exact Hu|lia].
  Qed.

  Hypothesis Hhigh : 2 <= high.

  Lemma simp_init_ok :
    exists ds, simp_init pt D d2 dmax dzero p closed = Ok ds /\ length ds = S high /\
               (closed = false -> nth_error ds 0 = Some dmax /\ nth_error ds high = Some dmax).
  Proof.
    unfold simp_init. rewrite Hp. replace (S high - 1) with high by lia.
    assert (Hr : length (repeat dzero (S high)) = S high) by apply repeat_length.
    destruct closed.
    - destruct (rd_lt p 0 ltac:(lia)) as [a0 ->]. destruct (rd_lt p high ltac:(lia)) as [ah ->].
      destruct (rd_lt p 1 ltac:(lia)) as [a1 ->]. cbn [bind].
      destruct (upd_lt (repeat dzero (S high)) 0 (d2 a0 ah a1) ltac:(lia)) as [ds1 Hu1]. rewrite Hu1. cbn [bind].
      destruct (rd_lt p (high - 1) ltac:(lia)) as [ap ->]. cbn [bind].
      assert (Hl1 : length ds1 = S high) by (rewrite (upd_length _ _ _ _ Hu1); exact Hr).
      destruct (upd_lt ds1 high (d2 ah a0 ap) ltac:(lia)) as [ds2 Hu2]. rewrite Hu2. cbn [bind].
      assert (Hl2 : length ds2 = S high) by (rewrite (upd_length _ _ _ _ Hu2); exact Hl1).
      destruct (simp_init_mid_ok (high - 1) 1 ds2 Hl2 ltac:(lia) ltac:(lia)) as (ds' & H1 & H2 & H3).
      exists ds'. split; [exact H1|]. split; [exact H2|discriminate].
    - destruct (upd_lt (repeat dzero (S high)) 0 dmax ltac:(lia)) as [ds1 Hu1]. rewrite Hu1. cbn [bind].
      assert (Hl1 : length ds1 = S high) by (rewrite (upd_length _ _ _ _ Hu1); exact Hr).
      destruct (upd_lt ds1 high dmax ltac:(lia)) as [ds2 Hu2]. rewrite Hu2.
      assert (Hl2 : length ds2 = S high) by (rewrite (upd_length _ _ _ _ Hu2); exact Hl1).
      destruct (simp_init_mid_ok (high - 1) 1 ds2 Hl2 ltac:(lia) ltac:(lia)) as (ds' & H1 & H2 & H3).
      exists ds'. split; [exact H1|]. split; [exact H2|]. intros _. split.
      + rewrite H3 by lia. rewrite (upd_nth_other _ _ _ _ _ Hu2) by lia. eapply upd_nth_same; exact Hu1.
      + rewrite H3 by lia. eapply upd_nth_same; exact Hu2.
  Qed.

  (* the final flags: never an error, whatever the distance function and comparison are *)
  Lemma simp_flags_ok (R : list bool -> list D -> Prop) :
    (forall fl ds fl' ds' c', inv fl ds c' \/ True -> step_post fl ds (Continue fl' ds' c') -> R fl ds -> R fl' ds') ->
    (forall ds, length ds = S high ->
                (closed = false -> nth_error ds 0 = Some dmax /\ nth_error ds high = Some dmax) ->
                R (repeat false (S high)) ds) ->
    exists fl ds, simp_flags pt D d2 ltD dmax dzero p eps closed = Ok fl /\ length fl = S high /\ R fl ds.
  Proof.
    intros HR H0. unfold simp_flags.
    destruct simp_init_ok as (ds & Hi & Hl & Ho). rewrite Hi. cbn [bind]. rewrite Hp.
    replace (S high - 1) with high by lia.
    apply (simp_loop_ok R HR).
    - constructor; [apply repeat_length|exact Hl|lia|apply unflagged_repeat; lia].
    - apply H0; assumption.
    - rewrite count_false_repeat. lia.
  Qed.
End Simp.

(* ------------------------------------------------------------------ theorems for every input *)
Section SimpThm.
  Variable D : Type.
  Variable d2 : pt -> pt -> pt -> D.
  Variable ltD : D -> D -> bool.
  Variable dmax dzero : D.

  (* no out-of-bounds access, no fuel exhaustion: at most len iterations of the for(;;) loop, GetNext/GetPrior
     always find an unflagged index *)
  Theorem simplify_safe p e c :
    exists r, simplify_gen pt D d2 ltD dmax dzero p e c = Ok r.
  Proof.
    unfold simplify_gen. destruct (length p <? 3) eqn:E; [eauto|]. apply Nat.ltb_ge in E.
    destruct (simp_flags_ok D d2 ltD dmax dzero p (length p - 1) ltac:(lia) c e ltac:(lia)
                (fun _ _ => True)) as (fl & ds & Hf & Hl & _); [auto|auto|].
    rewrite Hf. cbn [bind]. rewrite collect_full by lia. eauto.
  Qed.

  (* open paths keep their end points *)
  Hypothesis Hord : forall a b e, ltD a b = true -> ltD e b = false -> ltD e a = false.

  Lemma select_keeps_ends (p : path) (fl : list bool) high :
    length p = S high -> length fl = S high -> unflagged fl 0 -> unflagged fl high ->
    keeps_ends (select false p fl) p = true.
  Proof.
    intros Hp Hf H0 Hh.
    destruct p as [|a t]; [discriminate|]. destruct fl as [|f0 fl]; [discriminate|].
    unfold unflagged in H0. cbn in H0. inversion H0; subst f0.
    unfold keeps_ends. unfold select at 1. cbn [combine filter snd Bool.eqb map fst hd_pt opt_pt_eqb].
    rewrite pt_eqb_refl. cbn [andb].
    (* last *)
    destruct (exists_last (l := a :: t) ltac:(discriminate)) as (p' & z & Hz).
    destruct (exists_last (l := false :: fl) ltac:(discriminate)) as (fl' & fz & Hfz).
    assert (Hlen' : length p' = length fl').
    { apply (f_equal (@length _)) in Hz, Hfz. rewrite app_length in Hz, Hfz. cbn [length] in *. lia. }
    assert (fz = false).
    { unfold unflagged in Hh. rewrite Hfz in Hh. rewrite nth_error_app2 in Hh.
      - replace (high - length fl') with 0 in Hh. { cbn in Hh. congruence. }
        apply (f_equal (@length _)) in Hfz. rewrite app_length in Hfz. cbn [length] in *. lia.
      - apply (f_equal (@length _)) in Hfz. rewrite app_length in Hfz. cbn [length] in *. lia. }
    subst fz.
    assert (Hsel : select false (a :: t) (false :: fl) = select false p' fl' ++ [z]).
    { rewrite Hz, Hfz. unfold select. rewrite combine_app_eq by exact Hlen'.
      rewrite filter_app, map_app. reflexivity. }
    assert (Hl1 : last_pt (a :: t) = Some z) by (rewrite Hz; apply last_pt_snoc).
    assert (Hl2 : last_pt (select false (a :: t) (false :: fl)) = Some z) by (rewrite Hsel; apply last_pt_snoc).
    change (a :: select false t fl) with (select false (a :: t) (false :: fl)).
    rewrite Hl1, Hl2. cbn [opt_pt_eqb]. apply pt_eqb_refl.
  Qed.

  Theorem simplify_open_keeps_ends p e :
    2 <= length p -> ltD e dmax = true ->
    exists r, simplify_gen pt D d2 ltD dmax dzero p e false = Ok r /\ keeps_ends r p = true.
  Proof.
    intros Hlen Hmax. unfold simplify_gen. destruct (length p <? 3) eqn:E.
    - exists p. split; [reflexivity|]. destruct p as [|a t]; [cbn in Hlen; lia|].
      unfold keeps_ends, hd_pt, last_pt, opt_pt_eqb. rewrite !pt_eqb_refl. reflexivity.
    - apply Nat.ltb_ge in E. set (high := length p - 1).
      set (R := fun (fl : list bool) (ds : list D) =>
                  nth_error ds 0 = Some dmax /\ nth_error ds high = Some dmax /\ unflagged fl 0 /\ unflagged fl high).
      destruct (simp_flags_ok D d2 ltD dmax dzero p high ltac:(unfold high; lia) false e ltac:(unfold high; lia) R)
        as (fl & ds & Hf & Hl & HR).
      + (* preservation *)
        intros fl ds fl' ds' c' _ Hpost (R1 & R2 & R3 & R4).
        destruct Hpost as (Hinv & f & Hupd & Huf & (d & Hd & Hcase) & Hopen).
        destruct (Hopen eq_refl) as (O1 & O2).
        assert (Hle : ltD e d = false).
        { destruct Hcase as [|(d' & Hlt & Hle')]; [assumption|]. eapply Hord; eassumption. }
        assert (f <> 0) by (intros ->; rewrite R1 in Hd; inversion Hd; subst; congruence).
        assert (f <> high) by (intros ->; rewrite R2 in Hd; inversion Hd; subst; congruence).
        unfold R. rewrite O1, O2. repeat split; auto; eapply unflagged_upd_other; eauto.
      + intros ds Hl Ho. destruct (Ho eq_refl) as (O1 & O2). unfold R.
        repeat split; auto; apply unflagged_repeat; unfold high; lia.
      + rewrite Hf. cbn [bind]. rewrite collect_full by (unfold high in Hl; lia).
        eexists; split; [reflexivity|]. destruct HR as (_ & _ & R3 & R4).
        apply (select_keeps_ends p fl high); auto. unfold high; lia.
  Qed.
End SimpThm.
