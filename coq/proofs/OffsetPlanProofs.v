(* Lemmas about the plan model (model/OffsetPlan.v): which member values every path is offset with.
   The model mirrors the code after the repairs of /verif/triage/offset-*.patch; with them the locality statements
   ("a path's routine, effective end type, delta and arc steps depend only on its own group and on the delta passed to
   Execute") hold for every list of groups and are proved here without side conditions.  The header of OffsetPlan.v
   records the witnesses that refuted them for the code before the repairs.  What is still false -- one fill rule per
   call, decided by the first oriented Polygon group -- is refuted at the end of this file. *)
From Coq Require Import ZArith List Bool Floats Lia Permutation.
From Clip Require Import base.Geom base.FloatModel model.OffsetPlan.
Import ListNotations.

(* ------------------------------------------------------------------ two exact facts about binary64 fabs / negation *)
Lemma SFabs_idem s : SFabs (SFabs s) = SFabs s.
Proof. destruct s; reflexivity. Qed.
Lemma SFabs_opp s : SFabs (SFopp s) = SFabs s.
Proof. destruct s; reflexivity. Qed.

Lemma fabs_idem x : fabs (fabs x) = fabs x.
Proof. apply Prim2SF_inj. unfold fabs. rewrite !abs_spec. apply SFabs_idem. Qed.
Lemma fabs_fneg x : fabs (fneg x) = fabs x.
Proof. apply Prim2SF_inj. unfold fabs, fneg. rewrite !abs_spec, opp_spec. apply SFabs_opp. Qed.

(* ------------------------------------------------------------------ the path loop *)

(* the routine chosen for a path of [len] points when group_delta_ = gd *)
Definition action_of (g : group) (gd : float) (len : nat) : action :=
  if Nat.eqb len 1 then (if PrimFloat.ltb gd 1%float then ASkip else APoint (jt_eqb (g_join g) JRound))
  else match end_of g len with EPolygon => APolygon | EJoined => AJoined | _ => AOpen end.

(* what the geometry of a path depends on: length, group_delta_, join_type_, the routine, end_type_ (read by
   OffsetOpenPath only, never for a single point) and the arc step constants (read only when the group's join or end
   type is Round, [round_group]) *)
Definition round_group (g : group) : bool := jt_eqb (g_join g) JRound || et_eqb (g_end g) ERound.

Definition view_t := (nat * float * join_type * action * option end_type * option (option float))%type.

Definition view (g : group) (e : pentry) : view_t :=
  (pe_len e, pe_delta e, pe_join e, pe_action e,
   if Nat.eqb (pe_len e) 1 then None else Some (pe_end e),
   if round_group g then Some (pe_steps_for e) else None).

Definition loop_view (g : group) (gd : float) (sf : option float) (len : nat) : view_t :=
  (len, gd, g_join g, action_of g gd len,
   if Nat.eqb len 1 then None else Some (end_of g len),
   if round_group g then Some sf else None).

(* the same from the group's own fields and the delta passed to Execute *)
Definition own_view (g : group) (delta : float) (len : nat) : view_t :=
  loop_view g (own_delta g delta) (if round_group g then Some (fabs (own_delta g delta)) else None) len.

Lemma path_loop_views gi g gd md sf lens : forall pi et,
  map (view g) (snd (path_loop gi g gd md sf pi lens et)) = map (loop_view g gd sf) lens.
Proof.
  induction lens as [|len rest IH]; intros pi et; [reflexivity|].
  cbn [path_loop].
  destruct (Nat.eqb len 1) eqn:E1.
  - specialize (IH (S pi) et).
    destruct (path_loop gi g gd md sf (S pi) rest et) as [et' es]. cbn [snd map] in *.
    rewrite IH. f_equal. unfold view, loop_view, action_of. cbn. rewrite E1. reflexivity.
  - specialize (IH (S pi) (end_of g len)).
    destruct (path_loop gi g gd md sf (S pi) rest (end_of g len)) as [et' es]. cbn [snd map] in *.
    rewrite IH. f_equal. unfold view, loop_view, action_of. cbn. rewrite E1. reflexivity.
Qed.

Lemma path_loop_entries gi g gd md sf lens : forall pi et e,
  In e (snd (path_loop gi g gd md sf pi lens et)) ->
  pe_group e = gi /\ pe_delta e = gd /\ pe_mdelta e = md /\ pe_join e = g_join g /\ pe_steps_for e = sf
  /\ In (pe_len e) lens /\ pe_action e = action_of g gd (pe_len e)
  /\ (pe_len e <> 1%nat -> pe_end e = end_of g (pe_len e)).
Proof.
  induction lens as [|len rest IH]; intros pi et e H; [contradiction|].
  cbn [path_loop] in H.
  destruct (Nat.eqb len 1) eqn:E1.
  - destruct (path_loop gi g gd md sf (S pi) rest et) as [et' es] eqn:EL. cbn [snd] in H.
    destruct H as [<- | H].
    + cbn. unfold action_of. rewrite E1. repeat split; auto.
      intros Hne. apply Nat.eqb_eq in E1. congruence.
    + specialize (IH (S pi) et e). rewrite EL in IH. cbn [snd] in IH.
      destruct (IH H) as (?&?&?&?&?&?&?&?). repeat split; auto. right; assumption.
  - destruct (path_loop gi g gd md sf (S pi) rest (end_of g len)) as [et' es] eqn:EL. cbn [snd] in H.
    destruct H as [<- | H].
    + cbn. unfold action_of. rewrite E1. repeat split; auto.
    + specialize (IH (S pi) (end_of g len) e). rewrite EL in IH. cbn [snd] in IH.
      destruct (IH H) as (?&?&?&?&?&?&?&?). repeat split; auto. right; assumption.
Qed.

(* the paths of a group are numbered in input order *)
Lemma path_loop_paths gi g gd md sf lens : forall pi et,
  map pe_path (snd (path_loop gi g gd md sf pi lens et)) = seq pi (length lens).
Proof.
  induction lens as [|len rest IH]; intros pi et; [reflexivity|].
  cbn [path_loop].
  destruct (Nat.eqb len 1).
  - specialize (IH (S pi) et). destruct (path_loop gi g gd md sf (S pi) rest et) as [et' es].
    cbn [snd map length seq] in *. rewrite IH. reflexivity.
  - specialize (IH (S pi) (end_of g len)). destruct (path_loop gi g gd md sf (S pi) rest (end_of g len)) as [et' es].
    cbn [snd map length seq] in *. rewrite IH. reflexivity.
Qed.

(* ------------------------------------------------------------------ one group *)
Definition group_gd (g : group) (md : float) : float :=
  match g_end g with
  | EPolygon => let d := if g_has_lowest g then md else fabs md in if g_reversed g then fneg d else d
  | _ => fabs md
  end.

Lemma group_gd_own g md : group_gd g md = own_delta g md.
Proof. reflexivity. Qed.

Definition group_sf (g : group) (st : ostate) : option float :=
  if round_group g then Some (fabs (group_gd g (s_delta st))) else s_steps_for st.

Lemma do_group_unfold gi g st :
  do_group gi g st =
  (let '(et', es) := path_loop gi g (group_gd g (s_delta st)) (s_delta st) (group_sf g st) 0 (g_lens g) (g_end g) in
   (mkState (s_delta st) (group_gd g (s_delta st)) (g_join g) et' (group_sf g st), es)).
Proof. reflexivity. Qed.

(* delta_ is not changed by DoGroupOffset *)
Lemma do_group_delta gi g st : s_delta (fst (do_group gi g st)) = s_delta st.
Proof. rewrite do_group_unfold. destruct (path_loop _ _ _ _ _ _ _ _). reflexivity. Qed.

Lemma do_group_entries gi g st e : In e (snd (do_group gi g st)) ->
  pe_group e = gi /\ pe_join e = g_join g /\ In (pe_len e) (g_lens g) /\
  pe_mdelta e = s_delta st /\ pe_delta e = own_delta g (s_delta st) /\
  pe_action e = own_action g (s_delta st) (pe_len e) /\
  (pe_len e <> 1%nat -> pe_end e = end_of g (pe_len e)) /\
  (round_group g = true -> pe_steps_for e = Some (fabs (own_delta g (s_delta st)))).
Proof.
  rewrite do_group_unfold. intros H.
  pose proof (path_loop_entries gi g (group_gd g (s_delta st)) (s_delta st) (group_sf g st) (g_lens g) 0 (g_end g) e) as L.
  destruct (path_loop _ _ _ _ _ _ _ _) as [et' es]. cbn [fst snd] in *.
  destruct (L H) as (?&?&?&?&Hsf&?&?&?). repeat split; auto.
  intros HR. rewrite Hsf. unfold group_sf. rewrite HR. reflexivity.
Qed.

Lemma do_group_views gi g st :
  map (view g) (snd (do_group gi g st)) = map (own_view g (s_delta st)) (g_lens g).
Proof.
  rewrite do_group_unfold.
  pose proof (path_loop_views gi g (group_gd g (s_delta st)) (s_delta st) (group_sf g st) (g_lens g) 0 (g_end g)) as L.
  destruct (path_loop _ _ _ _ _ _ _ _) as [et' es]. cbn [snd] in *. rewrite L.
  apply map_ext. intros len. unfold own_view, loop_view, group_sf. rewrite group_gd_own.
  destruct (round_group g); reflexivity.
Qed.

(* ------------------------------------------------------------------ the group loop, generically *)
Lemma groups_loop_inv (P : ostate -> Prop) (Q : nat -> group -> pentry -> Prop) (gs : list group) :
  (forall gi g st, In g gs -> P st ->
     P (fst (do_group gi g st)) /\ forall e, In e (snd (do_group gi g st)) -> Q gi g e) ->
  forall gi st, P st ->
  forall e, In e (snd (groups_loop gi gs st)) ->
  exists k g, nth_error gs k = Some g /\ Q (gi + k)%nat g e.
Proof.
  induction gs as [|g t IH]; intros Hstep gi st HP e He; [contradiction|].
  cbn [groups_loop] in He.
  destruct (Hstep gi g st (or_introl eq_refl) HP) as [HP1 HQ].
  destruct (do_group gi g st) as [st1 es] eqn:ED. cbn [fst snd] in *.
  destruct (groups_loop (S gi) t st1) as [st2 es'] eqn:EG. cbn [snd] in He.
  apply in_app_or in He. destruct He as [He | He].
  - exists 0%nat, g. rewrite Nat.add_0_r. split; [reflexivity|auto].
  - assert (Hstep' : forall gi g st, In g t -> P st ->
              P (fst (do_group gi g st)) /\ forall e, In e (snd (do_group gi g st)) -> Q gi g e)
      by (intros; apply Hstep; [right|]; assumption).
    specialize (IH Hstep' (S gi) st1 HP1 e). rewrite EG in IH. cbn [snd] in IH.
    destruct (IH He) as (k & g' & Hk & HQ').
    exists (S k), g'. split; [exact Hk|]. replace (gi + S k)%nat with (S gi + k)%nat by lia. exact HQ'.
Qed.

(* every entry of a plan, described from its own group and the delta passed to Execute *)
Theorem plan_entry_local (gs : list group) (delta : float) (e : pentry) :
  In e (plan gs delta) ->
  exists g, nth_error gs (pe_group e) = Some g /\
    In (pe_len e) (g_lens g) /\
    pe_join e = g_join g /\
    pe_mdelta e = delta /\
    pe_delta e = own_delta g delta /\
    pe_action e = own_action g delta (pe_len e) /\
    (pe_len e <> 1%nat -> pe_end e = end_of g (pe_len e)) /\
    (round_group g = true -> pe_steps_for e = Some (fabs (own_delta g delta))).
Proof.
  intros He. unfold plan, plan_from in He.
  pose proof (groups_loop_inv (fun st => s_delta st = delta)
               (fun gi g e => pe_group e = gi /\ In (pe_len e) (g_lens g) /\ pe_join e = g_join g /\ pe_mdelta e = delta /\
                              pe_delta e = own_delta g delta /\ pe_action e = own_action g delta (pe_len e) /\
                              (pe_len e <> 1%nat -> pe_end e = end_of g (pe_len e)) /\
                              (round_group g = true -> pe_steps_for e = Some (fabs (own_delta g delta)))) gs) as L.
  destruct (L) with (gi := 0%nat) (st := mkState delta (s_gdelta init_state) (s_join init_state) (s_end init_state) (s_steps_for init_state)) (e := e)
    as (k & g & Hk & Hg & HQ); [| reflexivity | exact He |].
  - intros gi g st Hin HP. split.
    + rewrite do_group_delta. exact HP.
    + intros e0 H0. destruct (do_group_entries gi g st e0 H0) as (?&?&?&?&?&?&?&?).
      rewrite HP in *. repeat split; auto.
  - exists g. rewrite Hg. cbn [Nat.add]. split; [assumption|exact HQ].
Qed.

(* ------------------------------------------------------------------ C06: orientation *)

(* group_delta_ of every path = own_delta of its OWN group; for a Polygon group that has a lowest path this is delta
   itself, negated exactly when the group is reversed *)
Theorem orientation_plan (gs : list group) (delta : float) (e : pentry) :
  In e (plan gs delta) ->
  exists g, nth_error gs (pe_group e) = Some g /\ pe_delta e = own_delta g delta /\
            (g_end g = EPolygon -> g_has_lowest g = true -> pe_delta e = if g_reversed g then fneg delta else delta).
Proof.
  intros He. destruct (plan_entry_local gs delta e He) as (g & Hg & _ & _ & _ & Hd & _).
  exists g. split; [exact Hg|]. split; [exact Hd|].
  intros EE HL. rewrite Hd. unfold own_delta. rewrite EE, HL. reflexivity.
Qed.

(* ------------------------------------------------------------------ C06: early return, fill rule, reversal flag *)
Theorem small_delta_identity (rev : bool) (gs : list group) (delta : float) :
  gs <> [] ->
  (insignificant delta = true -> x_mode (execute_plan rev gs delta) = XIdentity) /\
  (insignificant delta = false -> x_mode (execute_plan rev gs delta) = XOffset (plan gs delta)) /\
  x_fill_negative (execute_plan rev gs delta) = check_reverse gs /\
  x_reverse_solution (execute_plan rev gs delta) = xorb rev (check_reverse gs).
Proof.
  intros Hne. destruct gs as [|g t]; [congruence|].
  unfold execute_plan. cbn [x_mode x_fill_negative x_reverse_solution].
  repeat split; intros; try reflexivity; rewrite H; reflexivity.
Qed.

(* a Polygon group that has an orientation: it has a lowest path *)
Definition oriented (g : group) : bool := et_eqb (g_end g) EPolygon && g_has_lowest g.

(* a group without any vertex (no lowest path) does not take part in the decision (the empty-group-orientation repair) *)
Lemma check_reverse_skips g t : oriented g = false -> check_reverse (g :: t) = check_reverse t.
Proof. unfold oriented. intros H. cbn [check_reverse]. rewrite H. reflexivity. Qed.

(* when all oriented Polygon groups of the call agree, fill rule and reversal flag are that orientation, wherever the
   groups stand in the list *)
Theorem check_reverse_consistent (gs : list group) (r : bool) :
  (forall g, In g gs -> oriented g = true -> g_reversed g = r) ->
  (exists g, In g gs /\ oriented g = true) ->
  check_reverse gs = r.
Proof.
  induction gs as [|g t IH]; intros Hall [g0 [Hin Ho]]; [contradiction|].
  cbn [check_reverse]. fold (oriented g).
  destruct (oriented g) eqn:E.
  - apply Hall; [left; reflexivity|exact E].
  - apply IH.
    + intros g' Hin' Ho'. apply Hall; [right; assumption|assumption].
    + destruct Hin as [<- | Hin]; [congruence|]. exists g0. split; assumption.
Qed.

Lemma check_reverse_none (gs : list group) :
  (forall g, In g gs -> oriented g = false) -> check_reverse gs = false.
Proof.
  induction gs as [|g t IH]; intros Hall; [reflexivity|].
  cbn [check_reverse]. fold (oriented g). rewrite (Hall g (or_introl eq_refl)).
  apply IH. intros g' Hin. apply Hall. right; assumption.
Qed.

Theorem orientation_preserved (rev : bool) (gs : list group) (delta : float) (r : bool) :
  (forall g, In g gs -> oriented g = true -> g_reversed g = r) ->
  (exists g, In g gs /\ oriented g = true) ->
  x_fill_negative (execute_plan rev gs delta) = r /\ x_reverse_solution (execute_plan rev gs delta) = xorb rev r.
Proof.
  intros Hall Hex.
  assert (Hne : gs <> []) by (destruct Hex as [g [Hin _]]; destruct gs; [contradiction|discriminate]).
  destruct (small_delta_identity rev gs delta Hne) as (_ & _ & Hf & Hr).
  rewrite Hf, Hr, (check_reverse_consistent gs r Hall Hex). split; reflexivity.
Qed.

(* ------------------------------------------------------------------ C07: locality of routine, end type and |delta| *)
Theorem plan_local (gs : list group) (delta : float) (e : pentry) :
  In e (plan gs delta) ->
  exists g, nth_error gs (pe_group e) = Some g /\
    pe_action e = own_action g delta (pe_len e) /\
    (pe_len e <> 1%nat -> pe_end e = end_of g (pe_len e)) /\
    (g_end g <> EPolygon -> pe_delta e = fabs delta).
Proof.
  intros He. destruct (plan_entry_local gs delta e He) as (g & Hg & _ & _ & _ & Hd & Ha & Hend & _).
  exists g. repeat split; auto.
  intros Hne. rewrite Hd. unfold own_delta. destruct (g_end g); congruence.
Qed.

(* ------------------------------------------------------------------ C12: order independence *)
Definition entries_of (i : nat) (es : list pentry) : list pentry := filter (fun e => Nat.eqb (pe_group e) i) es.

Lemma filter_all {A} (f : A -> bool) l : (forall x, In x l -> f x = true) -> filter f l = l.
Proof.
  induction l as [|a t IH]; intros H; [reflexivity|]. cbn. rewrite (H a (or_introl eq_refl)).
  f_equal. apply IH. intros; apply H; right; assumption.
Qed.
Lemma filter_none {A} (f : A -> bool) l : (forall x, In x l -> f x = false) -> filter f l = [].
Proof.
  induction l as [|a t IH]; intros H; [reflexivity|]. cbn. rewrite (H a (or_introl eq_refl)).
  apply IH. intros; apply H; right; assumption.
Qed.

Lemma groups_loop_group_ge gs : forall gi st e, In e (snd (groups_loop gi gs st)) -> (gi <= pe_group e)%nat.
Proof.
  induction gs as [|g t IH]; intros gi st e He; [contradiction|].
  cbn [groups_loop] in He.
  destruct (do_group gi g st) as [st1 es] eqn:ED.
  destruct (groups_loop (S gi) t st1) as [st2 es'] eqn:EG. cbn [snd] in He.
  apply in_app_or in He. destruct He as [He | He].
  - assert (H : In e (snd (do_group gi g st))) by (rewrite ED; exact He).
    destruct (do_group_entries gi g st e H) as (-> & _). lia.
  - specialize (IH (S gi) st1 e). rewrite EG in IH. specialize (IH He). lia.
Qed.

Lemma groups_loop_views gs delta : forall gi st i g,
  s_delta st = delta -> nth_error gs i = Some g ->
  map (view g) (entries_of (gi + i) (snd (groups_loop gi gs st))) = map (own_view g delta) (g_lens g).
Proof.
  induction gs as [|g0 t IH]; intros gi st i g Hd Hn; [destruct i; discriminate|].
  cbn [groups_loop].
  pose proof (do_group_views gi g0 st) as HV.
  pose proof (do_group_delta gi g0 st) as HD.
  pose proof (do_group_entries gi g0 st) as HE.
  destruct (do_group gi g0 st) as [st1 es] eqn:ED. cbn [fst snd] in *.
  pose proof (groups_loop_group_ge t (S gi) st1) as HG.
  specialize (IH (S gi) st1).
  destruct (groups_loop (S gi) t st1) as [st2 es'] eqn:EG. cbn [snd] in *.
  unfold entries_of in *. rewrite filter_app, map_app.
  destruct i as [|i].
  - cbn in Hn. injection Hn as ->. rewrite Nat.add_0_r.
    rewrite (filter_all _ es), (filter_none _ es'), app_nil_r.
    + rewrite HV, Hd. reflexivity.
    + intros e He. specialize (HG e He). apply Nat.eqb_neq. lia.
    + intros e He. destruct (HE e He) as (-> & _). apply Nat.eqb_refl.
  - cbn in Hn. rewrite (filter_none _ es).
    + cbn [map app]. replace (gi + S i)%nat with (S gi + i)%nat by lia.
      apply IH; [rewrite HD; exact Hd|exact Hn].
    + intros e He. destruct (HE e He) as (-> & _). apply Nat.eqb_neq. lia.
Qed.

(* the entries of group number i of a plan, in path order, seen through [view], are a function of that group and of
   delta alone ... *)
Theorem plan_group_views (gs : list group) (delta : float) (i : nat) (g : group) :
  nth_error gs i = Some g ->
  map (view g) (entries_of i (plan gs delta)) = map (own_view g delta) (g_lens g).
Proof.
  intros Hn. unfold plan, plan_from.
  apply (groups_loop_views gs delta 0%nat _ i g); [reflexivity|exact Hn].
Qed.

(* ... hence the same whatever groups were added before or after it and in whatever order *)
Theorem plan_order_independent (gs gs' : list group) (delta : float) (i j : nat) (g : group) :
  nth_error gs i = Some g -> nth_error gs' j = Some g ->
  map (view g) (entries_of i (plan gs delta)) = map (view g) (entries_of j (plan gs' delta)).
Proof. intros H H'. rewrite (plan_group_views gs delta i g H), (plan_group_views gs' delta j g H'). reflexivity. Qed.

(* ... and, within a group, a path's view does not depend on which paths stand before it: [own_view] does not read g_lens;
   reordering the paths of a group (with the same lowest-path orientation) permutes the views *)
Definition same_fields (g g' : group) : Prop :=
  g_join g = g_join g' /\ g_end g = g_end g' /\ g_has_lowest g = g_has_lowest g' /\ g_reversed g = g_reversed g'.

Lemma own_view_fields g g' delta len : same_fields g g' -> own_view g delta len = own_view g' delta len.
Proof.
  intros (Hj & He & Hl & Hr).
  unfold own_view, loop_view, action_of, round_group, end_of, own_delta. rewrite Hj, He, Hl, Hr. reflexivity.
Qed.

Lemma view_fields g g' e : same_fields g g' -> view g e = view g' e.
Proof. intros (Hj & He & _). unfold view, round_group. rewrite Hj, He. reflexivity. Qed.

Theorem plan_path_order_independent (gs gs' : list group) (delta : float) (i j : nat) (g g' : group) :
  nth_error gs i = Some g -> nth_error gs' j = Some g' ->
  same_fields g g' -> Permutation (g_lens g) (g_lens g') ->
  Permutation (map (view g) (entries_of i (plan gs delta))) (map (view g) (entries_of j (plan gs' delta))).
Proof.
  intros H H' HF HP.
  rewrite (plan_group_views gs delta i g H).
  rewrite (map_ext _ _ (fun e => view_fields g g' e HF)).
  rewrite (plan_group_views gs' delta j g' H').
  rewrite (map_ext _ _ (fun len => own_view_fields g g' delta len HF)).
  apply Permutation_map. exact HP.
Qed.

(* What is NOT order independent (known finding offset.group-orientation.first-polygon-group-decides): the fill rule
   of the clean-up union and the reversal flag are taken from the first oriented Polygon group, so with groups of
   opposite orientation the order of the groups decides which of them survive the union. *)
Theorem fill_rule_order_dependent_refuted :
  exists gs gs' delta,
    Permutation gs gs' /\ insignificant delta = false /\
    x_fill_negative (execute_plan false gs delta) <> x_fill_negative (execute_plan false gs' delta).
Proof.
  exists [mkGroup [3%nat] JMiter EPolygon true false; mkGroup [6%nat] JMiter EPolygon true true],
         [mkGroup [6%nat] JMiter EPolygon true true; mkGroup [3%nat] JMiter EPolygon true false], 10%float.
  split; [apply perm_swap|]. split; [reflexivity|]. cbn. discriminate.
Qed.

(* ------------------------------------------------------------------ C07: +delta / -delta *)
(* everything the geometry of a path depends on (delta_ itself is not read after group_delta_ is set) *)
Definition strip (e : pentry) := (pe_group e, pe_path e, pe_len e, pe_delta e, pe_join e, pe_end e, pe_action e, pe_steps_for e).
Definition plan_open (gs : list group) (delta : float) := map strip (plan gs delta).

Lemma path_loop_md gi g gd md md' sf lens : forall pi et,
  fst (path_loop gi g gd md sf pi lens et) = fst (path_loop gi g gd md' sf pi lens et) /\
  map strip (snd (path_loop gi g gd md sf pi lens et)) = map strip (snd (path_loop gi g gd md' sf pi lens et)).
Proof.
  induction lens as [|len rest IH]; intros pi et; [split; reflexivity|].
  cbn [path_loop].
  destruct (Nat.eqb len 1).
  - specialize (IH (S pi) et).
    destruct (path_loop gi g gd md sf (S pi) rest et) as [e1 l1], (path_loop gi g gd md' sf (S pi) rest et) as [e2 l2].
    cbn [fst snd] in *. destruct IH as [-> IH2]. split; [reflexivity|]. cbn [map]. rewrite IH2. reflexivity.
  - set (et1 := end_of g len).
    specialize (IH (S pi) et1).
    destruct (path_loop gi g gd md sf (S pi) rest et1) as [e1 l1], (path_loop gi g gd md' sf (S pi) rest et1) as [e2 l2].
    cbn [fst snd] in *. destruct IH as [-> IH2]. split; [reflexivity|]. cbn [map]. rewrite IH2. reflexivity.
Qed.

Definition same_but_delta (st st' : ostate) : Prop :=
  s_delta st' = fneg (s_delta st) /\ s_join st' = s_join st /\ s_end st' = s_end st /\ s_steps_for st' = s_steps_for st.

Lemma do_group_open_sym gi g st st' :
  g_end g <> EPolygon -> same_but_delta st st' ->
  same_but_delta (fst (do_group gi g st)) (fst (do_group gi g st')) /\
  map strip (snd (do_group gi g st)) = map strip (snd (do_group gi g st')).
Proof.
  intros Hop (Hd & Hj & He & Hs).
  rewrite !do_group_unfold.
  assert (Egd : group_gd g (s_delta st') = group_gd g (s_delta st)).
  { unfold group_gd. destruct (g_end g); try congruence; rewrite Hd; apply fabs_fneg. }
  assert (Esf : group_sf g st' = group_sf g st).
  { unfold group_sf. rewrite Egd, Hs. reflexivity. }
  rewrite Egd, Esf.
  set (gd := group_gd g (s_delta st)). set (sf := group_sf g st).
  destruct (path_loop_md gi g gd (s_delta st) (s_delta st') sf (g_lens g) 0 (g_end g)) as [E1 E2].
  destruct (path_loop gi g gd (s_delta st) sf 0 (g_lens g) (g_end g)) as [e1 l1],
           (path_loop gi g gd (s_delta st') sf 0 (g_lens g) (g_end g)) as [e2 l2].
  cbn [fst snd] in *. subst e2.
  split; [|exact E2].
  unfold same_but_delta. cbn [s_delta s_join s_end s_steps_for]. repeat split; auto.
Qed.

Lemma groups_loop_open_sym gs : forall gi st st',
  all_open gs = true -> same_but_delta st st' ->
  map strip (snd (groups_loop gi gs st)) = map strip (snd (groups_loop gi gs st')).
Proof.
  induction gs as [|g t IH]; intros gi st st' Hop HR; [reflexivity|].
  cbn [all_open forallb] in Hop. apply andb_true_iff in Hop. destruct Hop as [Hg Ht].
  assert (Hne : g_end g <> EPolygon).
  { intro E. rewrite E in Hg. discriminate. }
  cbn [groups_loop].
  destruct (do_group_open_sym gi g st st' Hne HR) as [HR1 E1].
  destruct (do_group gi g st) as [s1 es1], (do_group gi g st') as [s1' es1']. cbn [fst snd] in *.
  specialize (IH (S gi) s1 s1' Ht HR1).
  destruct (groups_loop (S gi) t s1) as [s2 es2], (groups_loop (S gi) t s1') as [s2' es2']. cbn [snd] in *.
  rewrite !map_app, E1, IH. reflexivity.
Qed.

Theorem sign_symmetric (gs : list group) (delta : float) :
  all_open gs = true ->
  plan_open gs delta = plan_open gs (fneg delta) /\ insignificant (fneg delta) = insignificant delta.
Proof.
  intros Hop. split.
  - unfold plan_open, plan, plan_from. apply groups_loop_open_sym; [exact Hop|].
    unfold same_but_delta. cbn. repeat split; reflexivity.
  - unfold insignificant. rewrite fabs_fneg. reflexivity.
Qed.

(* satisfiability of the hypotheses of the implications above *)
Example sign_symmetric_sat : all_open [mkGroup [2%nat; 3%nat] JSquare EJoined false false; mkGroup [1%nat] JRound ERound false false] = true.
Proof. reflexivity. Qed.
Example check_reverse_consistent_sat :
  let gs := [mkGroup [0%nat] JMiter EPolygon false false; mkGroup [3%nat] JSquare EButt false false; mkGroup [4%nat; 3%nat] JRound EPolygon true true] in
  (forall g, In g gs -> oriented g = true -> g_reversed g = true) /\ (exists g, In g gs /\ oriented g = true).
Proof.
  split.
  - intros g [<- | [<- | [<- | []]]]; cbn; intros; try discriminate; reflexivity.
  - eexists. split; [right; right; left; reflexivity|reflexivity].
Qed.
Example plan_order_independent_sat :
  let g := mkGroup [2%nat; 3%nat; 1%nat] JRound EJoined false false in
  nth_error [mkGroup [0%nat] JSquare EPolygon false false; g] 1 = Some g /\ nth_error [g; mkGroup [4%nat] JMiter EPolygon true true] 0 = Some g /\
  map (view g) (entries_of 1 (plan [mkGroup [0%nat] JSquare EPolygon false false; g] (-10)%float))
  = [(2%nat, 10%float, JRound, AOpen, Some ERound, Some (Some 10%float));
     (3%nat, 10%float, JRound, AJoined, Some EJoined, Some (Some 10%float));
     (1%nat, 10%float, JRound, APoint true, None, Some (Some 10%float))].
Proof. repeat split; reflexivity. Qed.
