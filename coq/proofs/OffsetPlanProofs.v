(* Lemmas about the plan model (model/OffsetPlan.v): which member values every path is offset with.
   The locality statements one would expect ("a path's effective end type and delta depend only on its own group and
   on the delta passed to Execute") are FALSE of the faithful model -- refuted below with concrete group lists that are
   replayed on the real code by the checks -- and are proved under the side conditions that exclude the two leaks. *)
From Coq Require Import ZArith List Bool Floats Lia.
From Clip Require Import base.Geom base.FloatModel model.OffsetPlan.
Import ListNotations.

(* ------------------------------------------------------------------ two exact facts about binary64 fabs / negation *)
Lemma SFabs_idem s : SFabs (SFabs s) = SFabs s.
Proof. destruct s; reflexivity. Qed.
Lemma SFabs_opp s : SFabs (SFopp s) = SFabs s.
Proof. destruct s; reflexivity. Qed.

Lemma fabs_idem x : fabs (fabs x) = fabs x.
Proof. apply Prim2SF_inj. unfold fabs. rewrite !abs_spec. apply SFabs_idem. Qed.
Lemma fabs_fneg x : fabs (fneg x) = fabs x.
Proof. apply Prim2SF_inj. unfold fabs, fneg. rewrite !abs_spec, opp_spec. apply SFabs_opp. Qed.

(* ------------------------------------------------------------------ the path loop *)
Lemma path_loop_entries gi g gd md sf lens : forall pi et e,
  In e (snd (path_loop gi g gd md sf pi lens et)) ->
  pe_group e = gi /\ pe_delta e = gd /\ pe_mdelta e = md /\ pe_join e = g_join g /\ pe_steps_for e = sf
  /\ In (pe_len e) lens.
Proof.
  induction lens as [|len rest IH]; intros pi et e H; [contradiction|].
  cbn [path_loop] in H.
  destruct (Nat.eqb len 1) eqn:E1.
  - destruct (path_loop gi g gd md sf (S pi) rest et) as [et' es] eqn:EL. cbn [snd] in H.
    destruct H as [<- | H]; [cbn; repeat split; auto; left; reflexivity|].
    specialize (IH (S pi) et e). rewrite EL in IH. cbn [snd] in IH.
    destruct (IH H) as (?&?&?&?&?&?). repeat split; auto. right; assumption.
  - set (et1 := if Nat.eqb len 2 && et_eqb (g_end g) EJoined then (if jt_eqb (g_join g) JRound then ERound else ESquare) else et) in *.
    destruct (path_loop gi g gd md sf (S pi) rest et1) as [et' es] eqn:EL. cbn [snd] in H.
    destruct H as [<- | H]; [cbn; repeat split; auto; left; reflexivity|].
    specialize (IH (S pi) et1 e). rewrite EL in IH. cbn [snd] in IH.
    destruct (IH H) as (?&?&?&?&?&?). repeat split; auto. right; assumption.
Qed.

(* no two-point path in a Joined group: the only place where end_type_ is written inside the loop *)
Definition no_joined_2pt (g : group) : bool :=
  negb (et_eqb (g_end g) EJoined && existsb (Nat.eqb 2) (g_lens g)).

Lemma path_loop_end_local gi g gd md sf lens : forall pi,
  (forall len, In len lens -> Nat.eqb len 2 && et_eqb (g_end g) EJoined = false) ->
  fst (path_loop gi g gd md sf pi lens (g_end g)) = g_end g /\
  forall e, In e (snd (path_loop gi g gd md sf pi lens (g_end g))) -> pe_end e = g_end g.
Proof.
  induction lens as [|len rest IH]; intros pi Hno; [split; [reflexivity|contradiction]|].
  cbn [path_loop].
  assert (Hrest : forall l, In l rest -> Nat.eqb l 2 && et_eqb (g_end g) EJoined = false) by (intros; apply Hno; right; assumption).
  destruct (Nat.eqb len 1) eqn:E1.
  - specialize (IH (S pi) Hrest).
    destruct (path_loop gi g gd md sf (S pi) rest (g_end g)) as [et' es] eqn:EL. cbn [fst snd] in *.
    destruct IH as [IH1 IH2]. split; [exact IH1|].
    intros e [<- | H]; [reflexivity|auto].
  - rewrite (Hno len (or_introl eq_refl)).
    specialize (IH (S pi) Hrest).
    destruct (path_loop gi g gd md sf (S pi) rest (g_end g)) as [et' es] eqn:EL. cbn [fst snd] in *.
    destruct IH as [IH1 IH2]. split; [exact IH1|].
    intros e [<- | H]; [reflexivity|auto].
Qed.

Lemma no_joined_2pt_spec g : no_joined_2pt g = true ->
  forall len, In len (g_lens g) -> Nat.eqb len 2 && et_eqb (g_end g) EJoined = false.
Proof.
  unfold no_joined_2pt. intros H len Hin.
  destruct (et_eqb (g_end g) EJoined) eqn:EJ; [|apply andb_false_r].
  cbn [andb negb] in H. apply negb_true_iff in H.
  destruct (Nat.eqb len 2) eqn:E2; [|reflexivity].
  exfalso. assert (existsb (Nat.eqb 2) (g_lens g) = true).
  { apply existsb_exists. exists len. split; [assumption|]. rewrite Nat.eqb_sym. exact E2. }
  congruence.
Qed.

Lemma end_of_no_joined g len : Nat.eqb len 2 && et_eqb (g_end g) EJoined = false -> end_of g len = g_end g.
Proof. unfold end_of. intros ->. reflexivity. Qed.

(* ------------------------------------------------------------------ the group loop, generically *)
Lemma groups_loop_inv (P : ostate -> Prop) (Q : nat -> group -> pentry -> Prop) (gs : list group) :
  (forall gi g st, In g gs -> P st ->
     P (fst (do_group gi g st)) /\ forall e, In e (snd (do_group gi g st)) -> Q gi g e) ->
  forall gi st, P st ->
  forall e, In e (snd (groups_loop gi gs st)) ->
  exists k g, nth_error gs k = Some g /\ Q (gi + k)%nat g e.
Proof.
  induction gs as [|g t IH]; intros Hstep gi st HP e He; [contradiction|].
  cbn [groups_loop] in He.
  destruct (Hstep gi g st (or_introl eq_refl) HP) as [HP1 HQ].
  destruct (do_group gi g st) as [st1 es] eqn:ED. cbn [fst snd] in *.
  destruct (groups_loop (S gi) t st1) as [st2 es'] eqn:EG. cbn [snd] in He.
  apply in_app_or in He. destruct He as [He | He].
  - exists 0%nat, g. rewrite Nat.add_0_r. split; [reflexivity|auto].
  - assert (Hstep' : forall gi g st, In g t -> P st ->
              P (fst (do_group gi g st)) /\ forall e, In e (snd (do_group gi g st)) -> Q gi g e)
      by (intros; apply Hstep; [right|]; assumption).
    specialize (IH Hstep' (S gi) st1 HP1 e). rewrite EG in IH. cbn [snd] in IH.
    destruct (IH He) as (k & g' & Hk & HQ').
    exists (S k), g'. split; [exact Hk|]. replace (gi + S k)%nat with (S gi + k)%nat by lia. exact HQ'.
Qed.

Lemma do_group_entries gi g st e : In e (snd (do_group gi g st)) ->
  pe_group e = gi /\ pe_join e = g_join g /\ In (pe_len e) (g_lens g) /\
  pe_mdelta e = s_delta (fst (do_group gi g st)) /\ pe_delta e = s_gdelta (fst (do_group gi g st)).
Proof.
  unfold do_group.
  set (md := match g_end g with EPolygon => if negb (g_has_lowest g) then fabs (s_delta st) else s_delta st | _ => s_delta st end).
  set (gd := match g_end g with EPolygon => if g_reversed g then fneg md else md | _ => fabs md end).
  set (sf := if jt_eqb (g_join g) JRound || et_eqb (g_end g) ERound then Some (fabs gd) else s_steps_for st).
  intros H.
  pose proof (path_loop_entries gi g gd md sf (g_lens g) 0 (g_end g) e) as L.
  destruct (path_loop gi g gd md sf 0 (g_lens g) (g_end g)) as [et' es] eqn:EL. cbn [fst snd] in *.
  destruct (L H) as (?&?&?&?&?&?). repeat split; auto.
Qed.

(* ------------------------------------------------------------------ C06: orientation *)

(* sign of the effective delta of a polygon path = sign of delta xor is_reversed of its OWN group, i.e.
   group_delta_ = own_delta g delta.  True when every Polygon group has a lowest path ... *)
Theorem orientation_plan_partial (gs : list group) (delta : float) (e : pentry) :
  (forall g, In g gs -> g_end g = EPolygon -> g_has_lowest g = true) ->
  In e (plan gs delta) ->
  exists g, nth_error gs (pe_group e) = Some g /\ (g_end g = EPolygon -> pe_delta e = own_delta g delta).
Proof.
  intros Hlow He. unfold plan, plan_from in He.
  pose proof (groups_loop_inv (fun st => s_delta st = delta)
               (fun gi g e => pe_group e = gi /\ (g_end g = EPolygon -> pe_delta e = own_delta g delta)) gs) as L.
  destruct (L) with (gi := 0%nat) (st := mkState delta (s_gdelta init_state) (s_join init_state) (s_end init_state) (s_steps_for init_state)) (e := e)
    as (k & g & Hk & Hg & Hd); [| reflexivity | exact He |].
  - intros gi g st Hin HP. split.
    + unfold do_group. destruct (path_loop _ _ _ _ _ _ _ _) as [et' es]. cbn [fst s_delta].
      destruct (g_end g) eqn:EE; try exact HP.
      rewrite (Hlow g Hin EE). cbn [negb]. exact HP.
    + intros e0 H0. destruct (do_group_entries gi g st e0 H0) as (Hgi & _ & _ & _ & Hgd).
      split; [exact Hgi|]. intros EE. rewrite Hgd.
      unfold do_group, own_delta. destruct (path_loop _ _ _ _ _ _ _ _) as [et' es]. cbn [fst s_gdelta].
      rewrite EE, (Hlow g Hin EE), HP. reflexivity.
  - exists g. rewrite Hg. cbn [Nat.add]. split; assumption.
Qed.

(* ... and false in general: an EndType::Polygon group without a lowest path (one empty path) executes
   delta_ = std::abs(delta_), and the following group is inflated although delta is negative. *)
Definition orientation_witness : list group :=
  [ mkGroup [0%nat] JSquare EPolygon false false; mkGroup [4%nat] JSquare EPolygon true false ].

Theorem orientation_plan_refuted :
  exists gs delta e g,
    In e (plan gs delta) /\ nth_error gs (pe_group e) = Some g /\ g_end g = EPolygon /\ insignificant delta = false /\
    pe_delta e <> own_delta g delta /\
    PrimFloat.ltb (pe_delta e) 0 <> xorb (PrimFloat.ltb delta 0) (g_reversed g).
Proof.
  exists orientation_witness, (-10)%float.
  exists (mkEntry 1 0 4 10%float JSquare EPolygon APolygon None 10%float), (mkGroup [4%nat] JSquare EPolygon true false).
  split; [vm_compute; right; left; reflexivity|].
  split; [reflexivity|]. split; [reflexivity|]. split; [reflexivity|].
  split.
  - intro H. apply (f_equal (fun x => PrimFloat.ltb x 0)) in H. vm_compute in H. discriminate.
  - vm_compute. discriminate.
Qed.

(* ------------------------------------------------------------------ C06: early return *)
Theorem small_delta_identity (rev : bool) (gs : list group) (delta : float) :
  gs <> [] ->
  (insignificant delta = true -> x_mode (execute_plan rev gs delta) = XIdentity) /\
  (insignificant delta = false -> x_mode (execute_plan rev gs delta) = XOffset (plan gs delta)) /\
  x_fill_negative (execute_plan rev gs delta) = check_reverse gs /\
  x_reverse_solution (execute_plan rev gs delta) = xorb rev (check_reverse gs).
Proof.
  intros Hne. destruct gs as [|g t]; [congruence|].
  unfold execute_plan. cbn [x_mode x_fill_negative x_reverse_solution].
  repeat split; intros; try reflexivity; rewrite H; reflexivity.
Qed.

(* ------------------------------------------------------------------ C07: locality of the end type and |delta| *)
Theorem plan_local_partial (gs : list group) (delta : float) (e : pentry) :
  (forall g, In g gs -> no_joined_2pt g = true) ->
  In e (plan gs delta) ->
  exists g, nth_error gs (pe_group e) = Some g /\ pe_end e = end_of g (pe_len e).
Proof.
  intros Hno He. unfold plan, plan_from in He.
  pose proof (groups_loop_inv (fun _ => True)
               (fun gi g e => pe_group e = gi /\ pe_end e = end_of g (pe_len e)) gs) as L.
  destruct (L) with (gi := 0%nat) (st := mkState delta (s_gdelta init_state) (s_join init_state) (s_end init_state) (s_steps_for init_state)) (e := e)
    as (k & g & Hk & Hg & Hd); [| exact I | exact He |].
  - intros gi g st Hin _. split; [exact I|].
    intros e0 H0. destruct (do_group_entries gi g st e0 H0) as (Hgi & _ & Hlen & _ & _).
    split; [exact Hgi|].
    pose proof (no_joined_2pt_spec g (Hno g Hin)) as Hs.
    rewrite (end_of_no_joined g (pe_len e0) (Hs _ Hlen)).
    unfold do_group in H0.
    match type of H0 with context [path_loop ?a ?b ?c ?d ?f ?p ?l ?t] =>
      pose proof (path_loop_end_local a b c d f l p Hs) as [_ HE];
      destruct (path_loop a b c d f p l t) as [et' es] eqn:EL end.
    cbn [snd] in *. apply HE. exact H0.
  - exists g. rewrite Hg. cbn [Nat.add]. split; assumption.
Qed.

(* the magnitude part holds unconditionally for open groups: group_delta_ = |delta| *)
Theorem plan_delta_local (gs : list group) (delta : float) (e : pentry) :
  In e (plan gs delta) ->
  exists g, nth_error gs (pe_group e) = Some g /\ (g_end g <> EPolygon -> pe_delta e = fabs delta).
Proof.
  intros He. unfold plan, plan_from in He.
  pose proof (groups_loop_inv (fun st => s_delta st = delta \/ s_delta st = fabs delta)
               (fun gi g e => pe_group e = gi /\ (g_end g <> EPolygon -> pe_delta e = fabs delta)) gs) as L.
  destruct (L) with (gi := 0%nat) (st := mkState delta (s_gdelta init_state) (s_join init_state) (s_end init_state) (s_steps_for init_state)) (e := e)
    as (k & g & Hk & Hg & Hd); [| left; reflexivity | exact He |].
  - intros gi g st Hin HP. split.
    + unfold do_group. destruct (path_loop _ _ _ _ _ _ _ _) as [et' es]. cbn [fst s_delta].
      destruct (g_end g); try exact HP.
      destruct (negb (g_has_lowest g)); [|exact HP].
      right. destruct HP as [-> | ->]; [reflexivity|apply fabs_idem].
    + intros e0 H0. destruct (do_group_entries gi g st e0 H0) as (Hgi & _ & _ & _ & Hgd).
      split; [exact Hgi|]. intros EE. rewrite Hgd.
      unfold do_group. destruct (path_loop _ _ _ _ _ _ _ _) as [et' es]. cbn [fst s_gdelta].
      destruct (g_end g); try congruence; destruct HP as [-> | ->]; try reflexivity; apply fabs_idem.
  - exists g. rewrite Hg. cbn [Nat.add]. split; assumption.
Qed.

(* the full locality statement is false: in an EndType::Joined group a two-point path switches end_type_ to Square
   (Round for round joins) and the following three-point path is stroked as an open path instead of being joined *)
Definition endtype_witness : list group := [ mkGroup [2%nat; 3%nat] JSquare EJoined false false ].

Theorem plan_local_refuted :
  exists gs delta e g,
    In e (plan gs delta) /\ nth_error gs (pe_group e) = Some g /\ insignificant delta = false /\
    pe_end e <> end_of g (pe_len e) /\ pe_action e = AOpen /\ end_of g (pe_len e) = EJoined.
Proof.
  exists endtype_witness, 10%float.
  exists (mkEntry 0 1 3 10%float JSquare ESquare AOpen None 10%float), (mkGroup [2%nat; 3%nat] JSquare EJoined false false).
  split; [vm_compute; right; left; reflexivity|].
  repeat split; try reflexivity. cbn. discriminate.
Qed.

(* ------------------------------------------------------------------ C07: +delta / -delta *)
(* everything the geometry of a path depends on (delta_ itself is not read after group_delta_ is set) *)
Definition strip (e : pentry) := (pe_group e, pe_path e, pe_len e, pe_delta e, pe_join e, pe_end e, pe_action e, pe_steps_for e).
Definition plan_open (gs : list group) (delta : float) := map strip (plan gs delta).

Lemma path_loop_md gi g gd md md' sf lens : forall pi et,
  fst (path_loop gi g gd md sf pi lens et) = fst (path_loop gi g gd md' sf pi lens et) /\
  map strip (snd (path_loop gi g gd md sf pi lens et)) = map strip (snd (path_loop gi g gd md' sf pi lens et)).
Proof.
  induction lens as [|len rest IH]; intros pi et; [split; reflexivity|].
  cbn [path_loop].
  destruct (Nat.eqb len 1).
  - specialize (IH (S pi) et).
    destruct (path_loop gi g gd md sf (S pi) rest et) as [e1 l1], (path_loop gi g gd md' sf (S pi) rest et) as [e2 l2].
    cbn [fst snd] in *. destruct IH as [-> IH2]. split; [reflexivity|]. cbn [map]. rewrite IH2. reflexivity.
  - set (et1 := if Nat.eqb len 2 && et_eqb (g_end g) EJoined then (if jt_eqb (g_join g) JRound then ERound else ESquare) else et).
    specialize (IH (S pi) et1).
    destruct (path_loop gi g gd md sf (S pi) rest et1) as [e1 l1], (path_loop gi g gd md' sf (S pi) rest et1) as [e2 l2].
    cbn [fst snd] in *. destruct IH as [-> IH2]. split; [reflexivity|]. cbn [map]. rewrite IH2. reflexivity.
Qed.

Definition same_but_delta (st st' : ostate) : Prop :=
  s_delta st' = fneg (s_delta st) /\ s_join st' = s_join st /\ s_end st' = s_end st /\ s_steps_for st' = s_steps_for st.

Lemma do_group_open_sym gi g st st' :
  g_end g <> EPolygon -> same_but_delta st st' ->
  same_but_delta (fst (do_group gi g st)) (fst (do_group gi g st')) /\
  map strip (snd (do_group gi g st)) = map strip (snd (do_group gi g st')).
Proof.
  intros Hop (Hd & Hj & He & Hs).
  unfold do_group.
  assert (Emd : (match g_end g with EPolygon => if negb (g_has_lowest g) then fabs (s_delta st') else s_delta st' | _ => s_delta st' end) = s_delta st')
    by (destruct (g_end g); congruence).
  assert (Emd0 : (match g_end g with EPolygon => if negb (g_has_lowest g) then fabs (s_delta st) else s_delta st | _ => s_delta st end) = s_delta st)
    by (destruct (g_end g); congruence).
  rewrite Emd, Emd0.
  assert (Egd' : (match g_end g with EPolygon => if g_reversed g then fneg (s_delta st') else s_delta st' | _ => fabs (s_delta st') end) = fabs (s_delta st))
    by (destruct (g_end g); try congruence; rewrite Hd; apply fabs_fneg).
  assert (Egd : (match g_end g with EPolygon => if g_reversed g then fneg (s_delta st) else s_delta st | _ => fabs (s_delta st) end) = fabs (s_delta st))
    by (destruct (g_end g); congruence).
  rewrite Egd', Egd, Hs.
  set (gd := fabs (s_delta st)).
  set (sf := if jt_eqb (g_join g) JRound || et_eqb (g_end g) ERound then Some (fabs gd) else s_steps_for st).
  destruct (path_loop_md gi g gd (s_delta st) (s_delta st') sf (g_lens g) 0 (g_end g)) as [E1 E2].
  destruct (path_loop gi g gd (s_delta st) sf 0 (g_lens g) (g_end g)) as [e1 l1],
           (path_loop gi g gd (s_delta st') sf 0 (g_lens g) (g_end g)) as [e2 l2].
  cbn [fst snd] in *. subst e2.
  split; [|exact E2].
  unfold same_but_delta. cbn [s_delta s_join s_end s_steps_for]. repeat split; auto.
Qed.

Lemma groups_loop_open_sym gs : forall gi st st',
  all_open gs = true -> same_but_delta st st' ->
  map strip (snd (groups_loop gi gs st)) = map strip (snd (groups_loop gi gs st')).
Proof.
  induction gs as [|g t IH]; intros gi st st' Hop HR; [reflexivity|].
  cbn [all_open forallb] in Hop. apply andb_true_iff in Hop. destruct Hop as [Hg Ht].
  assert (Hne : g_end g <> EPolygon).
  { intro E. rewrite E in Hg. discriminate. }
  cbn [groups_loop].
  destruct (do_group_open_sym gi g st st' Hne HR) as [HR1 E1].
  destruct (do_group gi g st) as [s1 es1], (do_group gi g st') as [s1' es1']. cbn [fst snd] in *.
  specialize (IH (S gi) s1 s1' Ht HR1).
  destruct (groups_loop (S gi) t s1) as [s2 es2], (groups_loop (S gi) t s1') as [s2' es2']. cbn [snd] in *.
  rewrite !map_app, E1, IH. reflexivity.
Qed.

Theorem sign_symmetric (gs : list group) (delta : float) :
  all_open gs = true ->
  plan_open gs delta = plan_open gs (fneg delta) /\ insignificant (fneg delta) = insignificant delta.
Proof.
  intros Hop. split.
  - unfold plan_open, plan, plan_from. apply groups_loop_open_sym; [exact Hop|].
    unfold same_but_delta. cbn. repeat split; reflexivity.
  - unfold insignificant. rewrite fabs_fneg. reflexivity.
Qed.

(* satisfiability of the hypotheses of the implications above *)
Example orientation_partial_sat :
  forall g, In g [mkGroup [4%nat; 3%nat] JRound EPolygon true true] -> g_end g = EPolygon -> g_has_lowest g = true.
Proof. intros g [<- | []] _. reflexivity. Qed.
Example plan_local_partial_sat :
  forall g, In g [mkGroup [3%nat; 2%nat] JSquare EButt false false; mkGroup [3%nat; 5%nat] JRound EJoined false false] -> no_joined_2pt g = true.
Proof. intros g [<- | [<- | []]]; reflexivity. Qed.
Example sign_symmetric_sat : all_open [mkGroup [2%nat; 3%nat] JSquare EJoined false false; mkGroup [1%nat] JRound ERound false false] = true.
Proof. reflexivity. Qed.
