(* Ring assembly (model/Rings.v): no operation loses, duplicates or invents a solution point, rings are only ever
   extended at their two ends and spliced end to end. *)
From Coq Require Import ZArith List Bool Lia PeanoNat Permutation.
From Clip Require Import base.Geom model.Rings.
Import ListNotations.

Definition pl (o : outrec) : list pt := match pts o with Some D => D | None => [] end.

Lemma all_pts_flat s : all_pts s = flat_map pl (recs s).
Proof. reflexivity. Qed.

(* ------------------------------------------------------------------ set_nth *)
Lemma set_nth_split {A} (l : list A) i o o' : nth_error l i = Some o ->
  exists l1 l2, l = l1 ++ o :: l2 /\ length l1 = i /\ set_nth l i o' = l1 ++ o' :: l2.
Proof.
  revert i; induction l as [|a l IH]; intros i H; [destruct i; discriminate|].
  destruct i as [|i]; cbn in H.
  - inversion H; subst. exists [], l. repeat split.
  - destruct (IH i H) as (l1 & l2 & -> & Hl & Hs). exists (a :: l1), l2. cbn [set_nth app length]. rewrite Hs, Hl. repeat split.
Qed.

Lemma set_nth_length {A} (l : list A) i v : length (set_nth l i v) = length l.
Proof. revert i; induction l as [|a l IH]; intros [|i]; cbn; auto. Qed.

Lemma nth_error_set_nth_same {A} (l : list A) i v : i < length l -> nth_error (set_nth l i v) i = Some v.
Proof. revert i; induction l as [|a l IH]; intros [|i] H; cbn in *; try lia; [reflexivity|apply IH; lia]. Qed.

Lemma nth_error_set_nth_other {A} (l : list A) i j v : i <> j -> nth_error (set_nth l i v) j = nth_error l j.
Proof.
  revert i j; induction l as [|a l IH]; intros [|i] [|j] H; cbn; try reflexivity; try congruence.
  apply IH. congruence.
Qed.

Lemma flat_map_set_nth (l : list outrec) i o o' : nth_error l i = Some o ->
  exists l1 l2, flat_map pl l = flat_map pl l1 ++ pl o ++ flat_map pl l2 /\
                flat_map pl (set_nth l i o') = flat_map pl l1 ++ pl o' ++ flat_map pl l2.
Proof.
  intros H. destruct (set_nth_split l i o o' H) as (l1 & l2 & -> & _ & ->).
  exists l1, l2. rewrite !flat_map_app. cbn [flat_map]. split; reflexivity.
Qed.

(* ------------------------------------------------------------------ push *)
Lemma push_cases f D p : push f D p = D \/ push f D p = D ++ [p] \/ push f D p = p :: D.
Proof. unfold push. destruct f; [destruct (pt_eqb p (last D dflt))|destruct (pt_eqb p (hd dflt D))]; auto. Qed.

Lemma push_nonempty f D p : D <> [] -> push f D p <> [].
Proof.
  intros H. destruct (push_cases f D p) as [-> | [-> | ->]]; [exact H| |discriminate].
  destruct D; [contradiction|discriminate].
Qed.

(* AddOutPt extends the ring at exactly one end, by at most the given point, and only the edge's own ring *)
Theorem add_out_pt_spec s e p s' : add_out_pt s e p = Some s' ->
  exists i o D, eo s e = Some i /\ nth_error (recs s) i = Some o /\ pts o = Some D /\
    eo s' = eo s /\
    recs s' = set_nth (recs s) i (mkO (Some (push (is_edge (fe o) e) D p)) (fe o) (be o)).
Proof.
  unfold add_out_pt. intros H.
  destruct (eo s e) as [i|] eqn:E; [|discriminate].
  destruct (nth_error (recs s) i) as [o|] eqn:N; [|discriminate].
  destruct (pts o) as [D|] eqn:P; [|discriminate].
  inversion H; subst. exists i, o, D. repeat split; auto.
Qed.

Theorem add_out_pt_points s e p s' : add_out_pt s e p = Some s' ->
  all_pts s' = all_pts s \/ Permutation (p :: all_pts s) (all_pts s').
Proof.
  intros H. destruct (add_out_pt_spec s e p s' H) as (i & o & D & _ & N & P & _ & R).
  rewrite !all_pts_flat, R.
  destruct (flat_map_set_nth (recs s) i o (mkO (Some (push (is_edge (fe o) e) D p)) (fe o) (be o)) N) as (l1 & l2 & -> & ->).
  assert (Ho : pl o = D) by (unfold pl; rewrite P; reflexivity). rewrite Ho.
  change (pl (mkO (Some (push (is_edge (fe o) e) D p)) (fe o) (be o))) with (push (is_edge (fe o) e) D p).
  destruct (push_cases (is_edge (fe o) e) D p) as [-> | [-> | ->]].
  - left. reflexivity.
  - right. rewrite <- app_assoc. cbn [app]. rewrite !app_assoc. apply Permutation_middle.
  - right. cbn [app]. apply Permutation_middle.
Qed.

(* AddLocalMinPoly starts a new ring holding exactly the given point *)
Theorem add_local_min_poly_points s e1 e2 p sw :
  all_pts (add_local_min_poly s e1 e2 p sw) = all_pts s ++ [p].
Proof.
  unfold add_local_min_poly. rewrite !all_pts_flat. cbn [recs]. rewrite flat_map_app.
  destruct sw; reflexivity.
Qed.

(* SwapOutrecs touches no ring *)
Lemma swap_side_pts o a b : pts (swap_side o a b) = pts o.
Proof. unfold swap_side. destruct (is_edge (fe o) a); reflexivity. Qed.

Lemma map_pts_set_nth (l : list outrec) i o o' : nth_error l i = Some o -> pts o' = pts o ->
  map pts (set_nth l i o') = map pts l.
Proof.
  intros N E. destruct (set_nth_split l i o o' N) as (l1 & l2 & -> & _ & ->).
  rewrite !map_app. cbn [map]. rewrite E. reflexivity.
Qed.

Theorem swap_outrecs_rings s e1 e2 : map pts (recs (swap_outrecs s e1 e2)) = map pts (recs s).
Proof.
  unfold swap_outrecs.
  destruct (eo s e1) as [i1|], (eo s e2) as [i2|]; cbn [recs]; try reflexivity.
  - destruct (Nat.eqb i1 i2).
    + destruct (nth_error (recs s) i1) as [o|] eqn:N; [|reflexivity]. cbn [recs].
      apply (map_pts_set_nth _ _ o); [exact N|reflexivity].
    + cbn [recs].
      assert (H1 : map pts (match nth_error (recs s) i1 with
                            | Some o => set_nth (recs s) i1 (swap_side o e1 e2) | None => recs s end) = map pts (recs s)).
      { destruct (nth_error (recs s) i1) as [o|] eqn:N; [|reflexivity].
        apply (map_pts_set_nth _ _ o); [exact N|apply swap_side_pts]. }
      set (r1 := match nth_error (recs s) i1 with
                 | Some o => set_nth (recs s) i1 (swap_side o e1 e2) | None => recs s end) in *.
      destruct (nth_error r1 i2) as [o|] eqn:N; [|exact H1].
      rewrite (map_pts_set_nth _ _ o); [exact H1|exact N|apply swap_side_pts].
  - destruct (nth_error (recs s) i1) as [o|] eqn:N; [|reflexivity].
    apply (map_pts_set_nth _ _ o); [exact N|apply swap_side_pts].
  - destruct (nth_error (recs s) i2) as [o|] eqn:N; [|reflexivity].
    apply (map_pts_set_nth _ _ o); [exact N|apply swap_side_pts].
Qed.

Lemma all_pts_of_map s s' : map pts (recs s') = map pts (recs s) -> all_pts s' = all_pts s.
Proof.
  rewrite !all_pts_flat. generalize (recs s) (recs s'). clear.
  induction l as [|o l IH]; intros [|o' l'] H; cbn in *; try discriminate; [reflexivity|].
  inversion H as [[H1 H2]]. unfold pl at 1 3. rewrite H1. f_equal. apply IH. exact H2.
Qed.

Theorem swap_outrecs_points s e1 e2 : all_pts (swap_outrecs s e1 e2) = all_pts s.
Proof. apply all_pts_of_map, swap_outrecs_rings. Qed.

(* JoinOutrecPaths(ea, eb): eb's ring is appended to ea's ring when ea is its front edge, prepended otherwise;
   eb's OutRec is emptied; no other ring changes *)
Theorem join_spec s ea eb s' : join s ea eb = Some s' ->
  exists ia ib oa ob Da Db,
    eo s ea = Some ia /\ eo s eb = Some ib /\ nth_error (recs s) ia = Some oa /\ nth_error (recs s) ib = Some ob /\
    pts oa = Some Da /\ pts ob = Some Db /\
    recs s' = set_nth (set_nth (recs s) ia
                (if is_edge (fe oa) ea then mkO (Some (Da ++ Db)) (fe ob) (be oa) else mkO (Some (Db ++ Da)) (fe oa) (be ob)))
              ib (mkO None None None).
Proof.
  unfold join. intros H.
  destruct (eo s ea) as [ia|] eqn:Ea; [|discriminate]. destruct (eo s eb) as [ib|] eqn:Eb; [|discriminate].
  destruct (nth_error (recs s) ia) as [oa|] eqn:Na; [|discriminate].
  destruct (nth_error (recs s) ib) as [ob|] eqn:Nb; [|discriminate].
  destruct (pts oa) as [Da|] eqn:Pa; [|discriminate]. destruct (pts ob) as [Db|] eqn:Pb; [|discriminate].
  inversion H; subst. exists ia, ib, oa, ob, Da, Db. repeat split; auto.
Qed.

Theorem join_points s ea eb s' ia ib :
  join s ea eb = Some s' -> eo s ea = Some ia -> eo s eb = Some ib -> ia <> ib ->
  Permutation (all_pts s) (all_pts s').
Proof.
  intros H Ea Eb Hne.
  destruct (join_spec s ea eb s' H) as (ia' & ib' & oa & ob & Da & Db & Ea' & Eb' & Na & Nb & Pa & Pb & R).
  rewrite Ea in Ea'; inversion Ea'; subst ia'. rewrite Eb in Eb'; inversion Eb'; subst ib'.
  rewrite !all_pts_flat, R.
  set (oa' := if is_edge (fe oa) ea then mkO (Some (Da ++ Db)) (fe ob) (be oa) else mkO (Some (Db ++ Da)) (fe oa) (be ob)).
  assert (Nb1 : nth_error (set_nth (recs s) ia oa') ib = Some ob)
    by (rewrite nth_error_set_nth_other by exact Hne; exact Nb).
  destruct (flat_map_set_nth _ ib ob (mkO None None None) Nb1) as (m1 & m2 & E1 & ->).
  destruct (flat_map_set_nth _ ia oa oa' Na) as (l1 & l2 & -> & E2).
  rewrite E2 in E1.
  (* E1 : l1 ++ pl oa' ++ l2 = m1 ++ pl ob ++ m2 ;  goal: l1 ++ pl oa ++ l2 ~ m1 ++ [] ++ m2 *)
  change (pl (mkO None None None)) with (@nil pt). cbn [app].
  assert (Hoa' : Permutation (pl oa') (pl oa ++ pl ob)).
  { unfold oa', pl. rewrite Pa, Pb. destruct (is_edge (fe oa) ea); cbn [pts]; [reflexivity|apply Permutation_app_comm]. }
  assert (Hob : pl ob = Db) by (unfold pl; rewrite Pb; reflexivity).
  assert (HP : Permutation (flat_map pl l1 ++ (pl oa ++ pl ob) ++ flat_map pl l2) (flat_map pl m1 ++ pl ob ++ flat_map pl m2)).
  { rewrite <- E1. apply Permutation_app_head, Permutation_app_tail. symmetry. exact Hoa'. }
  (* cancel pl ob on both sides *)
  assert (HQ : Permutation (pl ob ++ (flat_map pl l1 ++ pl oa ++ flat_map pl l2)) (pl ob ++ (flat_map pl m1 ++ flat_map pl m2))).
  { etransitivity; [|etransitivity; [exact HP|]].
    - rewrite <- !app_assoc.
      rewrite (Permutation_app_comm (pl ob) (flat_map pl l1 ++ pl oa ++ flat_map pl l2)).
      rewrite <- !app_assoc. apply Permutation_app_head, Permutation_app_head. apply Permutation_app_comm.
    - rewrite (Permutation_app_comm (pl ob) (flat_map pl m1 ++ flat_map pl m2)). rewrite <- !app_assoc.
      apply Permutation_app_head. apply Permutation_app_comm. }
  apply Permutation_app_inv_l in HQ. exact HQ.
Qed.

(* closing a ring (AddLocalMaxPoly on the two edges of one OutRec) only rotates it *)
Lemma rot_perm (D : list pt) : Permutation (rot_back_to_front D) D.
Proof. destruct D as [|a t]; [reflexivity|]. cbn. symmetry. apply Permutation_cons_append. Qed.

Theorem add_local_max_poly_points s e1 e2 p s' : add_local_max_poly s e1 e2 p = Some s' ->
  Permutation (all_pts s) (all_pts s') \/ Permutation (p :: all_pts s) (all_pts s').
Proof.
  unfold add_local_max_poly. intros H.
  destruct (eo s e1) as [i1|] eqn:E1; [|discriminate]. destruct (eo s e2) as [i2|] eqn:E2; [|discriminate].
  destruct (nth_error (recs s) i1) as [o1|] eqn:N1; [|discriminate].
  destruct (nth_error (recs s) i2) as [o2|] eqn:N2; [|discriminate].
  destruct (Bool.eqb (is_edge (fe o1) e1) (is_edge (fe o2) e2)); [discriminate|].
  destruct (add_out_pt s e1 p) as [s1|] eqn:A; [|discriminate].
  assert (HA := add_out_pt_points s e1 p s1 A).
  assert (Heo : eo s1 = eo s) by (destruct (add_out_pt_spec s e1 p s1 A) as (? & ? & ? & _ & _ & _ & He & _); exact He).
  assert (Hfin : Permutation (all_pts s1) (all_pts s')).
  { destruct (Nat.eqb i1 i2) eqn:Q.
    - destruct (nth_error (recs s1) i1) as [o|] eqn:N; [|discriminate].
      destruct (pts o) as [D|] eqn:P; [|discriminate]. inversion H; subst s'. clear H.
      rewrite !all_pts_flat. cbn [recs].
      destruct (flat_map_set_nth (recs s1) i1 o
                  (mkO (Some (if is_edge (fe o1) e1 then D else rot_back_to_front D)) None None) N) as (l1 & l2 & -> & ->).
      apply Permutation_app_head, Permutation_app_tail. unfold pl. rewrite P. cbn [pts].
      destruct (is_edge (fe o1) e1); [reflexivity|symmetry; apply rot_perm].
    - apply Nat.eqb_neq in Q.
      destruct (Nat.ltb i1 i2).
      + apply (join_points s1 e1 e2 s' i1 i2 H); [rewrite Heo; exact E1|rewrite Heo; exact E2|exact Q].
      + apply (join_points s1 e2 e1 s' i2 i1 H); [rewrite Heo; exact E2|rewrite Heo; exact E1|congruence]. }
  destruct HA as [HA | HA].
  - left. rewrite <- HA. exact Hfin.
  - right. etransitivity; [exact HA|exact Hfin].
Qed.

(* ------------------------------------------------------------------ whole operation sequences *)
Definition op_point (o : op) : list pt :=
  match o with OMin _ _ p _ => [p] | OAdd _ p => [p] | OMax _ _ p => [p] | OSwap _ _ => [] end.

(* every step keeps the points there are and adds at most the point of the operation *)
Theorem step_points s o s' : step s o = Some s' ->
  Permutation (all_pts s) (all_pts s') \/ Permutation (op_point o ++ all_pts s) (all_pts s').
Proof.
  destruct o as [e1 e2 p sw | e p | e1 e2 p | e1 e2]; cbn [step op_point].
  - destruct (Nat.eqb e1 e2); [discriminate|]. intros H; inversion H; subst. right.
    rewrite add_local_min_poly_points. cbn [app]. apply Permutation_cons_append.
  - intros H. destruct (add_out_pt_points s e p s' H) as [-> | HP]; [left; reflexivity|right; exact HP].
  - destruct (Nat.eqb e1 e2); [discriminate|]. intros H. exact (add_local_max_poly_points s e1 e2 p s' H).
  - destruct (Nat.eqb e1 e2); [discriminate|].
    destruct (eo s e1), (eo s e2); try discriminate; intros H; inversion H; subst; left;
      rewrite swap_outrecs_points; reflexivity.
Qed.

(* nothing is invented: every point in some ring was handed over by one of the operations;
   nothing is lost: once a point is in a ring it stays in a ring (until the clean-up after the sweep) *)
Theorem run_points : forall ops s s', run s ops = Some s' ->
  (forall q, In q (all_pts s') -> In q (all_pts s) \/ In q (flat_map op_point ops)) /\
  (forall q, In q (all_pts s) -> In q (all_pts s')) /\
  length (all_pts s') <= length (all_pts s) + length (flat_map op_point ops).
Proof.
  induction ops as [|o ops IH]; intros s s' H; cbn [run] in H.
  - inversion H; subst. cbn. repeat split; auto. lia.
  - destruct (step s o) as [s1|] eqn:S; [|discriminate].
    destruct (IH s1 s' H) as (I1 & I2 & I3).
    cbn [flat_map]. rewrite app_length.
    destruct (step_points s o s1 S) as [HP | HP].
    + repeat split.
      * intros q Hq. destruct (I1 q Hq) as [Hq1 | Hq1].
        -- left. apply (Permutation_in q (Permutation_sym HP) Hq1).
        -- right. apply in_or_app. right. exact Hq1.
      * intros q Hq. apply I2. apply (Permutation_in q HP Hq).
      * pose proof (Permutation_length HP). lia.
    + repeat split.
      * intros q Hq. destruct (I1 q Hq) as [Hq1 | Hq1].
        -- apply (Permutation_in q (Permutation_sym HP)) in Hq1. apply in_app_or in Hq1.
           destruct Hq1 as [Hq1 | Hq1]; [right; apply in_or_app; left; exact Hq1|left; exact Hq1].
        -- right. apply in_or_app. right. exact Hq1.
      * intros q Hq. apply I2. apply (Permutation_in q HP). apply in_or_app. right. exact Hq.
      * pose proof (Permutation_length HP) as HL. rewrite app_length in HL. lia.
Qed.
